(** C05 — dependencies gate readiness; failed parents cancel children.  Property theorems only.
    All statements quantify over EVERY good history (Deps.good_history: legal driver/worker messages,
    schema-valid client requests) of the batch-database model. *)
From HailV Require Import Common.Prelude BatchDB.Model BatchDB.Legal BatchDB.DepsDef BatchDB.Deps BatchDB.DepsCorollaries.
Open Scope Z_scope.

(** A job of a committed update is Ready (or beyond) only after every one of its parents — also parents submitted
    in earlier updates — exists and has reached a terminal state. *)
Theorem C05_ready_only_after_parents : forall ops, good_history ops ->
  let s := run ops in
  forall x, In x (jobs s) -> jcommitted s x = true -> j_state x <> Pending ->
  forall p, In p (parents_of s (j_batch x) (j_id x)) ->
    exists y, find_job s (j_batch x) p = Some y /\ terminal (j_state y) = true /\ j_id y < j_id x.
Proof. intros ops G s x. apply ready_only_after_parents. apply DInv_reachable. exact G. Qed.
Print Assumptions C05_ready_only_after_parents.

(** n_pending_parents is exactly the number of parents that are not yet terminal, and a committed job is Pending
    exactly as long as that number is positive (no off-by-one between the two places that compute it). *)
Theorem C05_pending_count_exact : forall ops, good_history ops ->
  let s := run ops in
  forall x, In x (jobs s) -> jcommitted s x = true ->
    j_npp x = npp_spec s (j_batch x) (j_id x) /\ (j_state x = Pending <-> 0 < j_npp x).
Proof.
  intros ops G s x Hx C. pose proof (d_jobs _ (DInv_reachable ops G) x Hx) as Ok.
  unfold job_ok in Ok. fold s in Ok. rewrite C in Ok. tauto.
Qed.
Print Assumptions C05_pending_count_exact.

(** If any parent finished without success the job is marked cancelled. *)
Theorem C05_failed_parent_cancels : forall ops, good_history ops ->
  let s := run ops in
  forall x p y, In x (jobs s) -> jcommitted s x = true -> In p (parents_of s (j_batch x) (j_id x)) ->
    find_job s (j_batch x) p = Some y -> terminal (j_state y) = true -> j_state y <> Success ->
    j_cancelled x = true.
Proof. intros ops G s x p y. apply failed_parent_cancels. apply DInv_reachable. exact G. Qed.
Print Assumptions C05_failed_parent_cancels.

(** Non-vacuity: in the demo history (Deps.demo_history) job 2 depends on job 1, job 1 fails, and job 3 — in a
    second update — depends on job 2: after the history job 2 is cancelled and terminal, job 3 (always_run) is Ready. *)
Theorem C05_example :
  good_history demo_history /\
  map (fun x => (j_id x, jcode (j_state x), j_cancelled x, j_npp x)) (jobs (run demo_history))
  = [(1, 5, false, 0); (2, 7, true, 0); (3, 1, true, 0)].
Proof. split; [exact demo_history_good | vm_compute; reflexivity]. Qed.
Print Assumptions C05_example.
