(** C01 — algebra of the scheduler counters.

    - sums over the jobs table ([zsum]) and how a row replacement changes them;
    - the indicator vectors of a job: [uvec] (the eight user_inst_coll_resources columns), [cvec] (the five
      job_group_inst_coll_cancellable_resources columns), [svec] (the three staging columns);
    - [job_deltas gc o n] (the jobs_after_update trigger) is exactly  indicator(new) - indicator(old);
    - what one [update_job] adds to the summed counters ([cval]) of user_res and cancellable;
    - row shapes of the counter tables. *)
From HailV Require Import Common.Prelude BatchDB.Model BatchDB.Tables BatchDB.CMap BatchDB.JobsWF BatchDB.StepCore BatchDB.JobFold.
From RecordUpdate Require Import RecordSet.
Import RecordSetNotations.
Open Scope Z_scope.

(* ------------------------------------------------------------------ sums *)

Lemma zsum_ext_in {A} (f g : A -> Z) l : (forall x, In x l -> f x = g x) -> zsum f l = zsum g l.
Proof.
  induction l as [|a l IH]; intros H; cbn [zsum]; [reflexivity|].
  rewrite (H a (or_introl eq_refl)), IH; [reflexivity|]. intros x Hx. apply H. right; exact Hx.
Qed.

Lemma zsum_zero {A} (f : A -> Z) l : (forall x, In x l -> f x = 0) -> zsum f l = 0.
Proof.
  induction l as [|a l IH]; intros H; cbn [zsum]; [reflexivity|].
  rewrite (H a (or_introl eq_refl)), IH; [reflexivity|]. intros x Hx. apply H. right; exact Hx.
Qed.

Lemma zsum_plus {A} (f g : A -> Z) l : zsum (fun x => f x + g x) l = zsum f l + zsum g l.
Proof. induction l as [|a l IH]; cbn [zsum]; [reflexivity | rewrite IH; lia]. Qed.

Lemma zsum_minus {A} (f g : A -> Z) l : zsum (fun x => f x - g x) l = zsum f l - zsum g l.
Proof. induction l as [|a l IH]; cbn [zsum]; [reflexivity | rewrite IH; lia]. Qed.

Lemma zsum_scale {A} (c : Z) (f : A -> Z) l : zsum (fun x => c * f x) l = c * zsum f l.
Proof. induction l as [|a l IH]; cbn [zsum]; [lia | rewrite IH; lia]. Qed.

Lemma zsum_map {A B} (h : A -> B) (f : B -> Z) l : zsum f (map h l) = zsum (fun x => f (h x)) l.
Proof. induction l as [|a l IH]; cbn [zsum map]; [reflexivity | rewrite IH; reflexivity]. Qed.

(* the sum over a filtered list *)
Lemma zsum_filter {A} (p : A -> bool) (f : A -> Z) l : zsum f (filter p l) = zsum (fun x => if p x then f x else 0) l.
Proof. induction l as [|a l IH]; cbn [zsum filter]; [reflexivity|]. destruct (p a); cbn [zsum]; rewrite IH; lia. Qed.

Lemma zsum_count {A} (p : A -> bool) l : zsum (fun x => if p x then 1 else 0) l = Z.of_nat (length (filter p l)).
Proof. induction l as [|a l IH]; cbn [zsum filter]; [reflexivity|]. destruct (p a); cbn [length]; rewrite IH; lia. Qed.

(* replacing the row with the key of [o] by [n] *)
Lemma zsum_replace_job (w : job -> Z) l o n :
  Kjobs_list l -> In o l -> j_batch n = j_batch o -> j_id n = j_id o ->
  zsum w (replace_job n l) = zsum w l - w o + w n.
Proof.
  intros K Hin Eb Ei. induction l as [|y l IH]; [contradiction|].
  unfold Kjobs_list in K. cbn [map] in K. inversion K as [|? ? Hn K']; subst.
  change (replace_job n (y :: l)) with ((if (j_batch y =? j_batch n) && (j_id y =? j_id n) then n else y) :: replace_job n l).
  cbn [zsum]. destruct Hin as [-> | Hin].
  - rewrite Eb, Ei, !Z.eqb_refl. cbn [andb].
    rewrite replace_job_notin; [lia|]. unfold jk at 1. rewrite Eb, Ei. exact Hn.
  - destruct ((j_batch y =? j_batch n) && (j_id y =? j_id n)) eqn:E.
    + exfalso. apply andb_true_iff in E. destruct E as [E1 E2]. apply Hn.
      apply in_map_iff. exists o. split; [unfold jk; f_equal; lia | exact Hin].
    + rewrite (IH K' Hin). lia.
Qed.

(* ------------------------------------------------------------------ indicator vectors *)

Definition isst (x : job) (st : jstate) : bool := jstate_eqb (j_state x) st.

(* effectively cancelled / cancellable, given whether the job's group (or an ancestor) is cancelled *)
Definition effc (gc : bool) (x : job) : bool := negb (j_always x) && (j_cancelled x || gc).
Definition cncl (gc : bool) (x : job) : bool := negb (j_always x) && negb (j_cancelled x || gc).

Definition uvec (gc : bool) (x : job) : list Z :=
  let c := effc gc x in
  [ind (isst x Ready && negb c); ind (isst x Ready && negb c) * j_cores x;
   ind (isst x Running && negb c); ind (isst x Running && negb c) * j_cores x;
   ind (isst x Creating && negb c);
   ind (isst x Ready && c); ind (isst x Running && c); ind (isst x Creating && c)].

Definition cvec (gc : bool) (x : job) : list Z :=
  let c := cncl gc x in
  [ind (isst x Ready && c); ind (isst x Ready && c) * j_cores x;
   ind (isst x Creating && c);
   ind (isst x Running && c); ind (isst x Running && c) * j_cores x].

Definition svec (x : job) : list Z := [1; ind (isst x Ready); ind (isst x Ready) * j_cores x].

Definition vsub (a b : list Z) : list Z := vadd a (vneg b).

Lemma nth_vneg i a : nth i (vneg a) 0 = - nth i a 0.
Proof.
  unfold vneg. revert i. induction a as [|x a IH]; intros [|i]; cbn [map nth]; try lia; try apply IH.
Qed.

Lemma nth_vsub i a b : nth i (vsub a b) 0 = nth i a 0 - nth i b 0.
Proof. unfold vsub. rewrite nth_vadd, nth_vneg. lia. Qed.

Lemma length_vadd a b : length a = length b -> length (vadd a b) = length a.
Proof.
  revert b. induction a as [|x a IH]; intros [|y b] H; cbn in *; try reflexivity; try discriminate.
  f_equal. apply IH. lia.
Qed.

Lemma length_vneg a : length (vneg a) = length a.
Proof. apply map_length. Qed.

(** The trigger's deltas are the difference of the indicator vectors (always_run and cores are never updated). *)
Lemma job_deltas_alg gc o n :
  j_always n = j_always o -> j_cores n = j_cores o ->
  job_deltas gc o n = (vsub (cvec gc n) (cvec gc o), vsub (uvec gc n) (uvec gc o)).
Proof.
  intros Ha Hc. unfold job_deltas, vsub, cvec, uvec, effc, cncl, isst. cbv zeta. rewrite Ha, Hc.
  cbn [vadd vneg map].
  apply f_equal2; repeat (apply f_equal2; [ring|]); reflexivity.
Qed.

Lemma length_cvec gc x : length (cvec gc x) = 5%nat.
Proof. reflexivity. Qed.
Lemma length_uvec gc x : length (uvec gc x) = 8%nat.
Proof. reflexivity. Qed.

Lemma job_deltas_length gc o n : length (fst (job_deltas gc o n)) = 5%nat /\ length (snd (job_deltas gc o n)) = 8%nat.
Proof. split; reflexivity. Qed.

(* the indicator vectors only look at the mutable columns state / cancelled and at always_run / cores *)
Lemma uvec_out_of_range gc x i : (8 <= i)%nat -> nth i (uvec gc x) 0 = 0.
Proof. intros H. apply nth_overflow. rewrite length_uvec. exact H. Qed.
Lemma cvec_out_of_range gc x i : (5 <= i)%nat -> nth i (cvec gc x) 0 = 0.
Proof. intros H. apply nth_overflow. rewrite length_cvec. exact H. Qed.

(* a Pending or terminal job counts nowhere *)
Lemma uvec_inactive gc x i :
  isst x Ready = false -> isst x Running = false -> isst x Creating = false -> nth i (uvec gc x) 0 = 0.
Proof.
  intros R1 R2 R3. unfold uvec. cbv zeta. rewrite R1, R2, R3. cbn [andb ind].
  do 8 (destruct i as [|i]; [reflexivity|]). destruct i; reflexivity.
Qed.
Lemma cvec_inactive gc x i :
  isst x Ready = false -> isst x Running = false -> isst x Creating = false -> nth i (cvec gc x) 0 = 0.
Proof.
  intros R1 R2 R3. unfold cvec. cbv zeta. rewrite R1, R2, R3. cbn [andb ind].
  do 5 (destruct i as [|i]; [reflexivity|]). destruct i; reflexivity.
Qed.

Lemma isst_pending x st : j_state x = Pending -> st <> Pending -> isst x st = false.
Proof. unfold isst. intros -> H. destruct st; try reflexivity. contradiction. Qed.

(* ------------------------------------------------------------------ one update_job on the counter tables *)

Lemma update_job_user_res s o n :
  user_res (update_job s o n) =
  cadd [batch_user s (j_batch n); j_ic n] (snd (job_deltas (group_cancelled s (j_batch o) (j_group o)) o n)) (user_res s).
Proof.
  unfold update_job. cbv zeta.
  change (group_cancelled (s <| jobs ::= replace_job n |>) (j_batch o) (j_group o)) with (group_cancelled s (j_batch o) (j_group o)).
  destruct (job_deltas (group_cancelled s (j_batch o) (j_group o)) o n) as [dc du]. reflexivity.
Qed.

Lemma update_job_cancellable s o n :
  cancellable (update_job s o n) =
  fold_left (fun m a => cadd [j_batch n; j_update n; a; j_ic n] (fst (job_deltas (group_cancelled s (j_batch o) (j_group o)) o n)) m)
            (anc_ids s (j_batch n) (j_group n)) (cancellable s).
Proof.
  unfold update_job. cbv zeta.
  change (group_cancelled (s <| jobs ::= replace_job n |>) (j_batch o) (j_group o)) with (group_cancelled s (j_batch o) (j_group o)).
  destruct (job_deltas (group_cancelled s (j_batch o) (j_group o)) o n) as [dc du]. reflexivity.
Qed.

Lemma cval_user_res_update_job p i s o n :
  j_always n = j_always o -> j_cores n = j_cores o ->
  let gc := group_cancelled s (j_batch o) (j_group o) in
  cval p i (user_res (update_job s o n)) =
  cval p i (user_res s) + (if p [batch_user s (j_batch n); j_ic n] then nth i (uvec gc n) 0 - nth i (uvec gc o) 0 else 0).
Proof.
  intros Ha Hc gc. rewrite update_job_user_res, cval_cadd. fold gc. rewrite (job_deltas_alg gc o n Ha Hc). cbn [snd].
  rewrite nth_vsub. reflexivity.
Qed.

Lemma cval_cancellable_update_job p i s o n :
  j_always n = j_always o -> j_cores n = j_cores o ->
  let gc := group_cancelled s (j_batch o) (j_group o) in
  cval p i (cancellable (update_job s o n)) =
  cval p i (cancellable s) +
  (nth i (cvec gc n) 0 - nth i (cvec gc o) 0) *
  Z.of_nat (length (filter (fun a => p [j_batch n; j_update n; a; j_ic n]) (anc_ids s (j_batch n) (j_group n)))).
Proof.
  intros Ha Hc gc. rewrite update_job_cancellable. fold gc.
  rewrite (cval_fold_cadd p i (fun a => [j_batch n; j_update n; a; j_ic n])).
  rewrite (job_deltas_alg gc o n Ha Hc). cbn [fst]. rewrite nth_vsub. reflexivity.
Qed.

(* ------------------------------------------------------------------ membership counts *)

Definition mem (g : Z) (l : list Z) : bool := existsb (Z.eqb g) l.

Lemma mem_In g l : mem g l = true <-> In g l.
Proof.
  unfold mem. rewrite existsb_exists. split.
  - intros (z & Hz & E). assert (z = g) by lia. subst. exact Hz.
  - intros H. exists g. split; [exact H | apply Z.eqb_refl].
Qed.

Lemma mem_false g l : mem g l = false <-> ~ In g l.
Proof. rewrite <- mem_In. destruct (mem g l); split; intros H; try congruence; try tauto. Qed.

Lemma count_nodup g l : NoDup l -> Z.of_nat (length (filter (fun a => a =? g) l)) = ind (mem g l).
Proof.
  induction l as [|a l IH]; intros ND; [reflexivity|]. inversion ND as [|? ? Hn ND']; subst.
  cbn [filter mem existsb]. fold (mem g l). destruct (a =? g) eqn:E.
  - assert (a = g) by lia. subst a. rewrite Z.eqb_refl. cbn [orb length].
    rewrite Nat2Z.inj_succ, (IH ND'). apply mem_false in Hn. rewrite Hn. reflexivity.
  - replace (g =? a) with false by lia. cbn [orb]. apply IH. exact ND'.
Qed.

(* ------------------------------------------------------------------ row shapes *)

Definition shaped (kl vl : nat) (m : cmap) : Prop :=
  Forall (fun kv => length (fst kv) = kl /\ length (snd kv) = vl) m.

Lemma shaped_cadd kl vl k d m : length k = kl -> length d = vl -> shaped kl vl m -> shaped kl vl (cadd k d m).
Proof.
  intros Hk Hd. induction m as [|[k' v] m IH]; intros H; cbn [cadd].
  - constructor; [split; assumption | constructor].
  - pose proof (Forall_inv H) as [H1 H2]. pose proof (Forall_inv_tail H) as H'. cbn [fst snd] in *. destruct (key_eqb k k').
    + constructor; [|exact H']. cbn [fst snd]. split; [exact H1|]. rewrite length_vadd; [exact H2 | congruence].
    + constructor; [split; assumption | apply IH; exact H'].
Qed.

Lemma shaped_fold_cadd {A} kl vl (f : A -> list Z) d l m :
  (forall a, length (f a) = kl) -> length d = vl -> shaped kl vl m ->
  shaped kl vl (fold_left (fun m' a => cadd (f a) d m') l m).
Proof.
  intros Hf Hd. revert m. induction l as [|a l IH]; intros m H; cbn [fold_left]; [exact H|].
  apply IH. apply shaped_cadd; auto.
Qed.

Lemma shaped_filter kl vl p m : shaped kl vl m -> shaped kl vl (filter p m).
Proof.
  unfold shaped. rewrite !Forall_forall. intros H kv Hin. apply filter_In in Hin. apply H. tauto.
Qed.

Lemma shaped_nil kl vl : shaped kl vl [].
Proof. constructor. Qed.
