(** C03 — the clamp lemmas of Clamp.v lifted to ALL finite sequences of update requests applied to a fresh attempt
    row ([reach rs = fold_left clamp_apply rs fresh]), the regression witness for the trigger before migration 124, and
    the bridge to the database model: every `UPDATE attempts` the model's step issues is a [clamp_apply] of one of the
    four request shapes. *)
From HailV Require Import Common.Prelude BatchDB.Model BatchDB.Clamp.
From RecordUpdate Require Import RecordSet.
Import RecordSetNotations.
Open Scope Z_scope.

Definition reach (rs : list request) : times := fold_left clamp_apply rs fresh.

Lemma reach_snoc rs r : reach (rs ++ [r]) = clamp_apply (reach rs) r.
Proof. unfold reach; rewrite fold_left_app; reflexivity. Qed.

Lemma reach_app rs1 rs2 : reach (rs1 ++ rs2) = fold_left clamp_apply rs2 (reach rs1).
Proof. unfold reach; apply fold_left_app. Qed.

Lemma reach_inv rs : AInv (reach rs).
Proof. apply clamp_inv_reachable. Qed.

(** (1) never negative *)
Lemma seq_nonneg rs : 0 <= billed4 (reach rs).
Proof. apply billed4_nonneg. Qed.

(** (2) bounded by the attempt once it has ended; rollup never after the end; end and reason come together *)
Lemma seq_bounded rs e : t_end (reach rs) = Some e ->
  billed4 (reach rs) <= match t_start (reach rs) with Some s => Z.max (e - s) 0 | None => 0 end.
Proof. apply billed4_bounded, reach_inv. Qed.

Lemma seq_rollup_le_end rs r e : t_rollup (reach rs) = Some r -> t_end (reach rs) = Some e -> r <= e.
Proof. destruct (reach_inv rs) as [H _]; apply H. Qed.

Lemma seq_end_iff_reason rs : t_end (reach rs) = None <-> t_reason (reach rs) = None.
Proof. destruct (reach_inv rs) as (_ & H & _); exact H. Qed.

(** an attempt that carries the reason activation_timeout has no start and bills nothing — after ANY sequence *)
Lemma seq_timeout_bills_nothing rs : t_reason (reach rs) = Some REASON_ACTIVATION_TIMEOUT ->
  t_start (reach rs) = None /\ billed4 (reach rs) = 0.
Proof. apply timeout_row_bills_nothing, reach_inv. Qed.

(** a report that marks an activation timeout bills nothing *)
Lemma seq_marks_timeout_bills_nothing rs r : marks_timeout (reach rs) r -> billed4 (clamp_apply (reach rs) r) = 0.
Proof. intros [_ H]. apply timeout_bills_nothing, H. Qed.

(** ... and a timed-out attempt stays unbilled whatever is reported later (the end can only move earlier, C03_end_only_earlier,
    but as long as the reason stays activation_timeout nothing is billed) *)
Lemma seq_timeout_request_on_open_attempt rs r :
  t_reason (reach rs) = None -> request_is_timeout r = true ->
  t_reason (clamp_apply (reach rs) r) = Some REASON_ACTIVATION_TIMEOUT /\ billed4 (clamp_apply (reach rs) r) = 0.
Proof.
  intros Ho Hr. destruct (timeout_request_marks _ _ Ho Hr) as [_ H]. split; [exact H | apply timeout_bills_nothing, H].
Qed.

(** (3) monotonicity, full statement *)
Lemma seq_monotone rs r :
  billed4 (clamp_apply (reach rs) r) < billed4 (reach rs) ->
  marks_timeout (reach rs) r \/
  (exists e ro, t_end (clamp_apply (reach rs) r) = Some e /\ t_rollup (reach rs) = Some ro /\ e < ro).
Proof. apply billed4_monotone, reach_inv. Qed.

(** (4) the start only moves earlier, full statement *)
Lemma seq_start_only_earlier rs r s :
  t_start (reach rs) = Some s ->
  match t_start (clamp_apply (reach rs) r) with
  | Some s' => s' <= s
  | None => marks_timeout (reach rs) r
  end.
Proof. apply start_only_earlier, reach_inv. Qed.

(** ... over any number of further reports none of which carries the timeout reason *)
Lemma start_only_earlier_many rs2 : forall o s, AInv o -> t_start o = Some s ->
  forallb (fun r => negb (request_is_timeout r)) rs2 = true ->
  exists s', t_start (fold_left clamp_apply rs2 o) = Some s' /\ s' <= s.
Proof.
  induction rs2 as [|r rs2 IH]; intros o s Ho Hs Hall; cbn [fold_left].
  - exists s; split; [exact Hs | lia].
  - cbn [forallb] in Hall. apply andb_true_iff in Hall. destruct Hall as [Hr Hall]. apply negb_true_iff in Hr.
    pose proof (start_only_earlier o r s Ho Hs) as H.
    destruct (t_start (clamp_apply o r)) as [s1|] eqn:E.
    + destruct (IH (clamp_apply o r) s1 (clamp_inv_step o r Ho) E Hall) as (s' & Hs' & Hle).
      exists s'; split; [exact Hs' | lia].
    + destruct H as [H _]. congruence.
Qed.

Lemma seq_start_only_earlier_ever rs1 rs2 s : t_start (reach rs1) = Some s ->
  forallb (fun r => negb (request_is_timeout r)) rs2 = true ->
  exists s', t_start (reach (rs1 ++ rs2)) = Some s' /\ s' <= s.
Proof. intros Hs Hall; rewrite reach_app; apply start_only_earlier_many; [apply reach_inv | exact Hs | exact Hall]. Qed.

(** the reason activation_timeout only ever comes from a request that carries it *)
Lemma reason_not_timeout_step o r :
  t_reason o <> Some REASON_ACTIVATION_TIMEOUT -> request_is_timeout r = false ->
  t_reason (clamp_apply o r) <> Some REASON_ACTIVATION_TIMEOUT.
Proof.
  open_times o; destruct r as [t | st e rs | t rs | t]; try destruct st as [st|];
    unfold request_is_timeout; unfold_clamp; cbn; intros Hnt Hr; ifs; cbn; try exact Hnt; try discriminate;
    intros Heq; injection Heq as Heq; lia.
Qed.

Lemma seq_guard_without_timeouts rs :
  forallb (fun r => negb (request_is_timeout r)) rs = true ->
  t_reason (reach rs) <> Some REASON_ACTIVATION_TIMEOUT.
Proof.
  induction rs as [|r rs IH] using rev_ind; intros H.
  - cbn; discriminate.
  - rewrite forallb_app in H; apply andb_true_iff in H; destruct H as [H1 H2].
    cbn in H2; rewrite andb_true_r in H2; apply negb_true_iff in H2.
    rewrite reach_snoc; apply reason_not_timeout_step; [apply IH, H1 | exact H2].
Qed.

(** (5) once there is an end reason: one step, and any number of further steps *)
Lemma seq_end_only_earlier rs r : t_reason (reach rs) <> None ->
  exists e e', t_end (reach rs) = Some e /\ t_end (clamp_apply (reach rs) r) = Some e' /\ e' <= e
               /\ t_reason (clamp_apply (reach rs) r) <> None.
Proof.
  intros Hr. destruct (t_end (reach rs)) as [e|] eqn:He.
  - destruct (end_only_earlier (reach rs) r e (reach_inv rs) He) as [(e' & He' & Hle) Hrs].
    exists e, e'; repeat split; assumption.
  - exfalso; apply Hr, seq_end_iff_reason, He.
Qed.

(** ... and the end time and reason are exactly kept unless the end is replaced by a strictly earlier one *)
Lemma seq_end_kept_or_earlier rs r e : t_end (reach rs) = Some e ->
  (t_end (clamp_apply (reach rs) r) = Some e /\ t_reason (clamp_apply (reach rs) r) = t_reason (reach rs)) \/
  (exists e', t_end (clamp_apply (reach rs) r) = Some e' /\ e' < e).
Proof. apply end_kept_or_earlier, reach_inv. Qed.

Lemma end_only_earlier_many rs2 : forall o e, AInv o -> t_end o = Some e ->
  exists e', t_end (fold_left clamp_apply rs2 o) = Some e' /\ e' <= e.
Proof.
  induction rs2 as [|r rs2 IH]; intros o e Ho He; cbn [fold_left].
  - exists e; split; [exact He | lia].
  - destruct (end_only_earlier o r e Ho He) as [(e1 & He1 & Hle1) _].
    destruct (IH (clamp_apply o r) e1 (clamp_inv_step o r Ho) He1) as (e' & He' & Hle').
    exists e'; split; [exact He' | lia].
Qed.

Lemma seq_end_only_earlier_ever rs1 rs2 e : t_end (reach rs1) = Some e ->
  exists e', t_end (reach (rs1 ++ rs2)) = Some e' /\ e' <= e.
Proof. intros He; rewrite reach_app; apply end_only_earlier_many; [apply reach_inv | exact He]. Qed.

(** Regression witness: the trigger as it stood before migration 124 (Clamp.clamp4_unfixed) refutes (3) and (4) and bills
    a timed-out attempt, on a sequence of the four request shapes applied to a fresh row. *)
Definition reach_unfixed (rs : list request) : times := fold_left clamp_apply_unfixed rs fresh.

Lemma seq_unfixed_trigger_refuted :
  exists rs r s,
    t_reason (reach_unfixed rs) = Some REASON_ACTIVATION_TIMEOUT /\ 0 < billed4 (reach_unfixed rs) /\
    billed4 (clamp_apply_unfixed (reach_unfixed rs) r) < billed4 (reach_unfixed rs) /\ request_is_timeout r = false /\
    ~ (exists e ro, t_end (clamp_apply_unfixed (reach_unfixed rs) r) = Some e /\ t_rollup (reach_unfixed rs) = Some ro /\ e < ro) /\
    t_start (reach_unfixed rs) = Some s /\ t_start (clamp_apply_unfixed (reach_unfixed rs) r) = None.
Proof. exists refute_history, (RHeartbeat 11), 3. exact unfixed_trigger_refuted. Qed.

(** Non-vacuity: sequences that satisfy the hypotheses of the theorems and trigger their conclusions. *)
Example seq_monotone_example :
  let rs := [RStarted 5; RHeartbeat 10] in
  billed4 (clamp_apply (reach rs) (REnded 8 2)) < billed4 (reach rs) /\
  t_end (clamp_apply (reach rs) (REnded 8 2)) = Some 8 /\ t_rollup (reach rs) = Some 10 /\
  billed4 (clamp_apply (reach rs) (REnded 12 REASON_ACTIVATION_TIMEOUT)) < billed4 (reach rs) /\
  marks_timeout (reach rs) (REnded 12 REASON_ACTIVATION_TIMEOUT).
Proof. vm_compute. repeat split. Qed.

(** a timeout request that arrives after the attempt has ended (not earlier) is ignored: it does not mark the timeout and
    the billed time stays *)
Example seq_late_timeout_example :
  let rs := [RStarted 5; REnded 10 2] in
  clamp_apply (reach rs) (REnded 12 REASON_ACTIVATION_TIMEOUT) = reach rs /\ billed4 (reach rs) = 5.
Proof. vm_compute. split; reflexivity. Qed.

Example seq_end_example :
  let rs := [RStarted 5; REnded 20 2] in
  t_reason (reach rs) <> None /\ t_end (clamp_apply (reach rs) (RCompleted (Some 4) 15 3)) = Some 15
  /\ t_end (clamp_apply (reach rs) (RCompleted (Some 4) 25 3)) = Some 20.
Proof. vm_compute. repeat split; discriminate. Qed.

(* ------------------------------------------------------------------ bridge to the database model *)

Lemma times_of_clamp o n : times_of (clamp o n) = clamp4 (times_of o) (times_of n).
Proof. unfold clamp. destruct (clamp4 (times_of o) (times_of n)) as [[[s r] e] rs]. reflexivity. Qed.

(** mark_job_creating / mark_job_started ([set_times]) *)
Lemma model_started cur t :
  times_of (clamp cur (cur <| a_start := Some t |> <| a_rollup := Some t |>)) = clamp_apply (times_of cur) (RStarted t).
Proof. rewrite times_of_clamp. destruct cur; reflexivity. Qed.

(** mark_job_complete (a report that carries an end time) *)
Lemma model_completed cur st e rs :
  times_of (clamp cur (cur <| a_start := st |> <| a_rollup := Some e |> <| a_end := Some e |> <| a_reason := Some rs |>))
  = clamp_apply (times_of cur) (RCompleted st e rs).
Proof. rewrite times_of_clamp. destruct cur; reflexivity. Qed.

(** unschedule_job / deactivate_instance *)
Lemma model_ended cur t rs :
  times_of (clamp cur (cur <| a_rollup := Some t |> <| a_end := Some t |> <| a_reason := Some rs |>))
  = clamp_apply (times_of cur) (REnded t rs).
Proof. rewrite times_of_clamp. destruct cur; reflexivity. Qed.

(** billing heartbeat *)
Lemma model_heartbeat cur t :
  times_of (clamp cur (cur <| a_rollup := Some t |>)) = clamp_apply (times_of cur) (RHeartbeat t).
Proof. rewrite times_of_clamp. destruct cur; reflexivity. Qed.

Lemma model_billed a : billed a = billed4 (times_of a).
Proof. reflexivity. Qed.
