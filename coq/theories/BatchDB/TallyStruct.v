(** [TInv] is preserved by the structural client ops: staging clean-up, create update, create batch,
    create job groups, create jobs. *)
From HailV Require Import Common.Prelude BatchDB.Model BatchDB.Tables BatchDB.CMap BatchDB.JobsWF BatchDB.StepCore
  BatchDB.JobFold BatchDB.Legal BatchDB.DepsDef BatchDB.DepsEasy BatchDB.DepsMap BatchDB.DepsCommit1
  BatchDB.DepsStruct BatchDB.DepsCreateJobs BatchDB.Tally.
From RecordUpdate Require Import RecordSet.
Import RecordSetNotations.
Open Scope Z_scope.

(* ------------------------------------------------------------------ staging clean-up *)

Lemma gkey_keep s b u g k :
  committed s b u = false ->
  key_eqb (firstn 3 k) [b; u; g] && staging_keep s k = key_eqb (firstn 3 k) [b; u; g].
Proof.
  intros Hc. unfold committed in Hc. destruct (key_eqb (firstn 3 k) [b; u; g]) eqn:E; [|reflexivity]. cbn [andb].
  apply key_eqb_eq in E.
  destruct k as [|b' [|u' [|g' [|ic [|? ?]]]]]; try reflexivity.
  cbn in E. injection E as -> -> ->. unfold staging_keep. rewrite Hc. reflexivity.
Qed.

Lemma gstaged_cleanup s b u g :
  committed s b u = false -> gstaged (fst (do_cleanup_staging s)) b u g = gstaged s b u g.
Proof.
  intros Hc. unfold gstaged, cval, do_cleanup_staging. cbn [fst].
  change (staging (s <| staging ::= ?f |>)) with (f (staging s)). cbv beta.
  change (filter _ (staging s)) with (filter (fun kv => staging_keep s (fst kv)) (staging s)).
  rewrite csum_filter. f_equal. apply csum_ext. intros k. apply gkey_keep. exact Hc.
Qed.

Lemma TInv_cleanup_staging s : TInv s -> TInv (fst (do_cleanup_staging s)).
Proof.
  intros T. apply (TInv_transfer s _ (fun y => y)); try reflexivity; try exact T.
  - cbn. rewrite map_id. reflexivity.
  - intros; apply static_refl.
  - intros b u g Hc. apply gstaged_cleanup. exact Hc.
Qed.

(* ------------------------------------------------------------------ create update *)

Lemma TInv_create_update s b user token nj ng : TInv s -> TInv (fst (do_create_update s b user token nj ng)).
Proof.
  intros T. destruct (do_create_update_cases s b user token nj ng) as [->|(Hj & Hg & ->)]; [exact T|].
  apply (TInv_transfer s _ (fun y => y)); try reflexivity; try exact T.
  - cbn. rewrite map_id. reflexivity.
  - intros; apply static_refl.
  - intros b' u'. apply (committed_app_uncommitted s _ (create_update_row s b token nj ng)); [reflexivity|].
    unfold create_update_row. destruct (last_update s b); reflexivity.
Qed.

(* ------------------------------------------------------------------ inserting one group *)

Lemma in_anc_ids s b g a : In a (anc_ids s b g) <-> exists l, In (b, g, a, l) (ancestors s).
Proof.
  unfold anc_ids, anc_rows. split.
  - intros H. apply in_map_iff in H. destruct H as ([[[b' g'] a'] l] & <- & Hf).
    apply filter_In in Hf. destruct Hf as (Hin & E). apply andb_true_iff in E.
    assert (b' = b) by lia. assert (g' = g) by lia. subst. exists l. exact Hin.
  - intros (l & Hin). apply in_map_iff. exists (b, g, a, l). split; [reflexivity|].
    apply filter_In. split; [exact Hin|]. rewrite !Z.eqb_refl. reflexivity.
Qed.

Lemma existsb_eqb_in' g l : existsb (Z.eqb g) l = true <-> In g l.
Proof.
  rewrite existsb_exists. split.
  - intros (z & Hz & E). assert (z = g) by lia. subst. exact Hz.
  - intros H. exists g. split; [exact H | apply Z.eqb_refl].
Qed.

Section InsertGroup.
  Variables (s : state) (b g : Z) (upd : option Z) (parent : Z) (root : bool).
  Hypothesis D : DInv s.
  Hypothesis T : TInv s.
  Hypothesis Hn : find_group s b g = None.
  Hypothesis Hnr : forall bt, In bt (batches s) -> b_id bt = b -> g <> 0.
  Let s' := create_group_rows s b g upd parent root.

  Lemma ig_not_anc b' g' : ~ In g (anc_ids s b g') \/ b' <> b.
  Proof.
    left. intros Hin. apply in_anc_ids in Hin. destruct Hin as (l & Hin).
    apply (t_ancex _ T _ _ _ _ Hin). exact Hn.
  Qed.

  Lemma ig_anc_ids b' g' :
    anc_ids s' b' g' = anc_ids s b' g' ++ (if (b =? b') && (g =? g') then (if root then [] else anc_ids s b parent) ++ [g] else []).
  Proof.
    rewrite !anc_ids_eq. unfold s'. rewrite cgr_anc_rows, map_app. f_equal.
    destruct ((b =? b') && (g =? g')); [apply new_anc_rows_ids | reflexivity].
  Qed.

  Lemma ig_anc_ids_job x b' : In x (jobs s) -> j_batch x = b' -> anc_ids s' b' (j_group x) = anc_ids s b' (j_group x).
  Proof.
    intros Hx Eb. rewrite ig_anc_ids. destruct ((b =? b') && (g =? j_group x)) eqn:K; [|apply app_nil_r].
    exfalso. apply andb_true_iff in K. destruct K as [K1 K2].
    apply (d_jgroup _ D x Hx). replace (j_batch x) with b by lia. replace (j_group x) with g by lia. exact Hn.
  Qed.

  Lemma ig_in_sub b' g' x : In x (jobs s) -> in_sub s' b' g' x = in_sub s b' g' x.
  Proof. intros Hx. apply in_sub_static; [apply static_refl | intros Eb; apply ig_anc_ids_job; assumption]. Qed.

  Lemma ig_cnt b' g' q : cnt s' b' g' q = cnt s b' g' q.
  Proof.
    unfold cnt. change (jobs s') with (jobs s). f_equal. apply len_filter_ext_in. intros x Hx.
    unfold sel. rewrite (ig_in_sub b' g' x Hx). reflexivity.
  Qed.

  Lemma ig_n_sub_upd b' u g' : n_sub_upd s' b' u g' = n_sub_upd s b' u g'.
  Proof.
    unfold n_sub_upd. change (jobs s') with (jobs s). f_equal. apply len_filter_ext_in. intros x Hx.
    unfold usel. rewrite (ig_in_sub b' g' x Hx). reflexivity.
  Qed.

  Lemma ig_cnt_new q : cnt s b g q = 0.
  Proof.
    unfold cnt. rewrite len_filter_zero; [reflexivity|]. intros x Hx. unfold sel, in_sub.
    destruct (existsb (Z.eqb g) (anc_ids s b (j_group x))) eqn:E; [|rewrite andb_false_r; reflexivity].
    exfalso. apply existsb_eqb_in' in E. destruct (ig_not_anc b (j_group x)) as [H|H]; [exact (H E) | congruence].
  Qed.

  Lemma TInv_create_group_rows : TInv s'.
  Proof.
    pose proof T as [T1 T2 T3 T4 T6 T7]. constructor.
    - unfold s'. rewrite cgr_groups. intros gr Hg. apply in_app_or in Hg. destruct Hg as [Hg|[<-|[]]].
      + destruct (T1 gr Hg) as [G1 G2 G3 G4 G5 G6]. constructor; rewrite ?ig_cnt; assumption.
      + constructor; cbn [g_njobs g_ncompleted g_nsucc g_nfailed g_ncancelled g_batch g_id g_running];
          rewrite ?ig_cnt, ?ig_cnt_new; reflexivity.
    - unfold s'. rewrite cgr_groups. intros bt gr Hb Hg E1 E2. apply in_app_or in Hg. destruct Hg as [Hg|[<-|[]]].
      + apply (T2 bt gr Hb Hg E1 E2).
      + cbn in E1, E2. exfalso. apply (Hnr bt Hb); [congruence | exact E2].
    - intros bt Hb. apply cgr_find_group_mono. apply (T3 bt Hb).
    - intros b' u g' Hc. change (committed s' b' u) with (committed s b' u) in Hc.
      change (gstaged s' b' u g') with (gstaged s b' u g'). rewrite ig_n_sub_upd. apply (T4 b' u g' Hc).
    - intros b' g'. rewrite ig_anc_ids. destruct ((b =? b') && (g =? g')) eqn:K; [|rewrite app_nil_r; apply T6].
      apply andb_true_iff in K. destruct K as [K1 K2]. assert (b' = b) by lia. assert (g' = g) by lia. subst b' g'.
      pose proof D as D0. apply DInv_split in D0. destruct D0 as (_ & G & _).
      rewrite anc_ids_eq, (anc_rows_none s b g G Hn). cbn [map app].
      apply NoDup_app_intro.
      + destruct root; [constructor | apply T6].
      + repeat constructor. intros [].
      + intros a Ha [<-|[]]. destruct root; [contradiction|].
        destruct (ig_not_anc b parent) as [H|H]; [exact (H Ha) | congruence].
    - unfold s'. rewrite cgr_ancestors. intros b' g' a l Hin. apply in_app_or in Hin. destruct Hin as [Hin|Hin].
      + apply cgr_find_group_mono. apply (T7 b' g' a l Hin).
      + unfold new_anc_rows in Hin. apply in_app_or in Hin. destruct Hin as [Hin|[E|[]]].
        * destruct root; [contradiction|]. apply in_map_iff in Hin. destruct Hin as ([[[b2 g2] a2] l2] & E & Hr).
          injection E as <- <- <- <-. unfold anc_rows in Hr. apply filter_In in Hr. destruct Hr as (Hr & K).
          apply andb_true_iff in K. destruct K as [K1 K2]. assert (b2 = b) by lia. subst b2.
          apply cgr_find_group_mono. apply (T7 b g2 a2 l2 Hr).
        * injection E as <- <- <- <-. apply cgr_find_group_new.
  Qed.
End InsertGroup.

(* ------------------------------------------------------------------ create batch *)

Lemma TInv_add_batch s bt nb :
  TInv s -> find_group s (b_id bt) 0 <> None ->
  (forall gr, In gr (groups s) -> g_batch gr = b_id bt -> g_id gr = 0 -> b_njobs bt = g_njobs gr /\ b_running bt = g_running gr) ->
  TInv (s <| batches ::= fun l => l ++ [bt] |> <| next_batch := nb |>).
Proof.
  intros [T1 T2 T3 T4 T6 T7] Hr Hg. constructor.
  - intros gr Hgr. apply (group_ok_cnt s); [reflexivity | apply T1; exact Hgr].
  - intros bt' gr Hb Hgr E1 E2. cbn in Hb. apply in_app_or in Hb. destruct Hb as [Hb|[<-|[]]].
    + apply (T2 bt' gr Hb Hgr E1 E2).
    + apply (Hg gr Hgr E1 E2).
  - intros bt' Hb. cbn in Hb. apply in_app_or in Hb. destruct Hb as [Hb|[<-|[]]]; [apply (T3 bt' Hb) | exact Hr].
  - exact T4.
  - exact T6.
  - exact T7.
Qed.

Lemma TInv_create_batch s user bp token m : DInv s -> TInv s -> TInv (fst (do_create_batch s user bp token m)).
Proof.
  intros D T. unfold do_create_batch. destruct (negb m); [exact T|].
  destruct (find _ (batches s)) as [x|]; [exact T|]. cbn [fst].
  set (id := next_batch s).
  pose proof D as D0. apply DInv_split in D0. destruct D0 as (_ & _ & X).
  pose proof (no_group_of_fresh_batch s 0 X) as Hn. fold id in Hn.
  assert (Hfresh : forall bt, In bt (batches s) -> b_id bt <> id).
  { intros bt Hb E. pose proof (d_bfresh _ D bt Hb). unfold id in E. lia. }
  assert (T0 : TInv (create_group_rows s id 0 None 0 true)).
  { apply TInv_create_group_rows; auto. intros bt Hb E. exfalso. exact (Hfresh bt Hb E). }
  apply (TInv_add_batch (create_group_rows s id 0 None 0 true) (mkBatch id user bp token false 0 false) (id + 1) T0).
  - cbn [b_id]. apply cgr_find_group_new.
  - cbn [b_id b_njobs b_running]. rewrite cgr_groups. intros gr Hg E1 E2. apply in_app_or in Hg. destruct Hg as [Hg|[<-|[]]].
    + exfalso. apply (find_group_in s gr Hg). rewrite E1, E2. exact Hn.
    + split; reflexivity.
Qed.

(* ------------------------------------------------------------------ create job groups *)

Lemma TInv_create_one_group s b u sg gs s' :
  DInv s -> TInv s -> create_one_group b u sg (Some s) gs = Some s' -> TInv s'.
Proof.
  intros D T. unfold create_one_group. cbv zeta.
  destruct (group_cancelled s b _); [discriminate|].
  destruct (find_group s b (sg + gs_id gs - 1)) eqn:Hn; [discriminate|].
  destruct (negb _); [discriminate|].
  destruct (MAX_JOB_GROUPS_DEPTH <? _); [discriminate|]. intros E. injection E as <-.
  apply TInv_create_group_rows; auto.
  intros bt Hb Eb E0. apply (t_broot _ T bt Hb). rewrite Eb, <- E0. exact Hn.
Qed.

Lemma TInv_create_groups_fold b u sg : forall gss s s',
  DInv s -> TInv s -> find_batch s b <> None -> 0 <= sg ->
  contiguous (map gs_id gss) = true -> forallb gspec_ok gss = true ->
  (forall g0, hd_error gss = Some g0 -> sg + gs_id g0 - 1 = max_group_id s b + 1) ->
  fold_left (create_one_group b u sg) gss (Some s) = Some s' -> TInv s'.
Proof.
  induction gss as [|g0 r IH]; intros s s' D T Hb Hsg Hc Hok Hhd Hf; cbn [fold_left] in Hf.
  - injection Hf as <-. exact T.
  - cbn [forallb] in Hok. apply andb_true_iff in Hok. destruct Hok as [Hok0 Hokr].
    destruct (create_one_group b u sg (Some s) g0) as [s1|] eqn:E1.
    2:{ rewrite fold_create_one_group_none in Hf. discriminate. }
    destruct (create_one_group_ok s b u sg g0 s1 D Hb (Hhd g0 eq_refl) Hsg Hok0 E1) as (D1 & U1 & S1 & B1 & M1).
    apply (IH s1 s' D1); auto.
    + apply (TInv_create_one_group s b u sg g0 s1 D T E1).
    + unfold find_batch. rewrite B1. exact Hb.
    + destruct r as [|g1 r']; [reflexivity|]. cbn [map contiguous] in Hc |- *.
      apply andb_true_iff in Hc. tauto.
    + intros g1 Hg1. destruct r as [|g1' r']; [discriminate|]. cbn in Hg1. injection Hg1 as ->.
      cbn [map contiguous] in Hc. apply andb_true_iff in Hc. destruct Hc as [Hc _]. rewrite M1. lia.
Qed.

Lemma TInv_create_groups s b u user gs :
  DInv s -> DAux s -> TInv s -> client_ok (CreateGroups b u user gs) = true ->
  TInv (fst (do_create_groups s b u user gs)).
Proof.
  intros D A T Hc. destruct (do_create_groups_cases s b u user gs) as [->|(up & g0 & r & s' & Fu & Fb & -> & Hm & Hf & ->)]; [exact T|].
  cbn [client_ok] in Hc. apply andb_true_iff in Hc. destruct Hc as [Hc1 Hc2].
  apply find_update_sound in Fu. destruct Fu as (Hup & _).
  pose proof (a_gpos _ A up Hup) as [Hsg _].
  apply (TInv_create_groups_fold b u (u_start_group up) (g0 :: r) s s' D T Fb ltac:(lia) Hc1 Hc2); auto.
  intros g0' E. cbn in E. injection E as <-. exact Hm.
Qed.

(* ------------------------------------------------------------------ create jobs *)

Lemma gstaged_stage_job st x b' u' g :
  gstaged (stage_job st x) b' u' g =
  gstaged st b' u' g +
  (if in_update b' u' x
   then Z.of_nat (length (filter (Z.eqb g) (anc_ids st (j_batch x) (j_group x)))) else 0).
Proof.
  unfold gstaged. rewrite stage_job_staging.
  pose proof (cval_fold_cadd (fun k => key_eqb (firstn 3 k) [b'; u'; g]) 0 (fun a => [j_batch x; j_update x; a; j_ic x])
                [1; ind (jstate_eqb (j_state x) Ready); ind (jstate_eqb (j_state x) Ready) * j_cores x]
                (anc_ids st (j_batch x) (j_group x)) (staging st)) as H.
  cbv beta in H. rewrite H. clear H. cbn [nth firstn key_eqb]. f_equal. rewrite Z.mul_1_l.
  unfold in_update. destruct ((j_batch x =? b') && (j_update x =? u')) eqn:K.
  - f_equal. f_equal. apply filter_ext. intros a.
    apply andb_true_iff in K. destruct K as [K1 K2]. rewrite K1, K2. cbn [andb]. rewrite andb_true_r. apply Z.eqb_sym.
  - rewrite filter_all_false; [reflexivity|]. intros a _.
    apply andb_false_iff in K. destruct K as [K|K]; rewrite K; cbn [andb]; [reflexivity | apply andb_false_r].
Qed.

Lemma gstaged_fold_stage l : forall st b' u' g,
  (forall b0 g0, NoDup (anc_ids st b0 g0)) ->
  gstaged (fold_left stage_job l st) b' u' g =
  gstaged st b' u' g +
  Z.of_nat (length (filter (fun x => in_update b' u' x && existsb (Z.eqb g) (anc_ids st (j_batch x) (j_group x))) l)).
Proof.
  induction l as [|x l IH]; intros st b' u' g ND; cbn [fold_left filter].
  - cbn. lia.
  - rewrite IH.
    + rewrite gstaged_stage_job.
      change (fun x0 : job => in_update b' u' x0 && existsb (Z.eqb g) (anc_ids (stage_job st x) (j_batch x0) (j_group x0)))
        with (fun x0 : job => in_update b' u' x0 && existsb (Z.eqb g) (anc_ids st (j_batch x0) (j_group x0))).
      rewrite (count_nodup g _ (ND (j_batch x) (j_group x))).
      destruct (in_update b' u' x); cbn [andb].
      * destruct (existsb (Z.eqb g) (anc_ids st (j_batch x) (j_group x))); cbn [ind length]; lia.
      * lia.
    + intros b0 g0. change (anc_ids (stage_job st x) b0 g0) with (anc_ids st b0 g0). apply ND.
Qed.

Section CreateJobsT.
  Variables (s : state) (b u : Z) (up : update) (jss : list jspec).
  Hypothesis D : DInv s.
  Hypothesis T : TInv s.
  Hypothesis Fu : find_update s b u = Some up.
  Hypothesis Hunc : u_committed up = false.
  Let js := map (job_of_spec b u (u_start_job up) (u_start_group up)) jss.
  Let new := map fst js.
  Let s1 := s <| jobs ::= fun l => l ++ new |> <| parents ::= fun l => l ++ new_edges b js |>.
  Let s' := fold_left stage_job new s1.

  Lemma cjt_new x : In x new -> j_batch x = b /\ j_update x = u.
  Proof.
    intros H. unfold new, js in H. rewrite map_map in H. apply in_map_iff in H. destruct H as (sp & <- & _).
    split; reflexivity.
  Qed.

  Lemma cjt_frame : stage_frame s1 s'.
  Proof. apply fold_stage_job_frame. Qed.

  Lemma cjt_committed b' u' : committed s' b' u' = committed s b' u'.
  Proof. destruct cjt_frame as (_ & _ & E3 & _). unfold committed, find_update. rewrite E3. reflexivity. Qed.

  Lemma cjt_anc b' g : anc_ids s' b' g = anc_ids s b' g.
  Proof. destruct cjt_frame as (_ & _ & _ & _ & E5 & _). apply anc_ids_ext. rewrite E5. reflexivity. Qed.

  Lemma cjt_in_sub b' g x : in_sub s' b' g x = in_sub s b' g x.
  Proof. unfold in_sub. rewrite cjt_anc. reflexivity. Qed.

  Lemma cjt_jobs : jobs s' = jobs s ++ new.
  Proof. destruct cjt_frame as (E1 & _). rewrite E1. reflexivity. Qed.

  Lemma cjt_cnt b' g q : cnt s' b' g q = cnt s b' g q.
  Proof.
    unfold cnt. rewrite cjt_jobs, filter_app, app_length.
    rewrite (len_filter_zero _ new).
    - rewrite Nat.add_0_r. f_equal. apply len_filter_ext_in. intros x _. unfold sel, jcommitted.
      rewrite cjt_in_sub, cjt_committed. reflexivity.
    - intros x Hx. destruct (cjt_new x Hx) as [E1 E2]. unfold sel, jcommitted. rewrite cjt_committed, E1, E2.
      unfold committed. rewrite Fu, Hunc. rewrite andb_false_r. reflexivity.
  Qed.

  Lemma cjt_TInv : TInv s'.
  Proof.
    pose proof T as [T1 T2 T3 T4 T6 T7].
    destruct cjt_frame as (E1 & E2 & E3 & E4 & E5 & E6 & E7).
    assert (Efg : forall b' g, find_group s' b' g = find_group s b' g) by (intros; unfold find_group; rewrite E4; reflexivity).
    constructor.
    - rewrite E4. intros gr Hg. destruct (T1 gr Hg) as [G1 G2 G3 G4 G5 G6]. constructor; rewrite ?cjt_cnt; assumption.
    - rewrite E4, E6. exact T2.
    - rewrite E6. intros bt Hb. rewrite Efg. apply (T3 bt Hb).
    - intros b' u' g Hc. rewrite cjt_committed in Hc.
      unfold s'. rewrite gstaged_fold_stage by (intros b0 g0; apply T6).
      change (gstaged s1 b' u' g) with (gstaged s b' u' g). rewrite (T4 b' u' g Hc).
      unfold n_sub_upd. fold s'. rewrite cjt_jobs, filter_app, app_length, Nat2Z.inj_add. f_equal.
      + f_equal. apply len_filter_ext_in. intros x _. unfold usel. rewrite cjt_in_sub. reflexivity.
      + f_equal. apply len_filter_ext_in. intros x _. unfold usel, in_update. rewrite cjt_in_sub. unfold in_sub.
        change (anc_ids s1 (j_batch x) (j_group x)) with (anc_ids s (j_batch x) (j_group x)).
        destruct (j_batch x =? b') eqn:Eb; [|reflexivity]. cbn [andb]. replace (j_batch x) with b' by lia.
        apply andb_comm.
    - intros b' g. rewrite cjt_anc. apply T6.
    - rewrite E5. intros b' g a l Hin. rewrite Efg. apply (T7 b' g a l Hin).
  Qed.
End CreateJobsT.

Theorem TInv_create_jobs s b u user jss : DInv s -> TInv s -> TInv (fst (do_create_jobs s b u user jss)).
Proof.
  intros D T. destruct (do_create_jobs_cases s b u user jss) as [->|(up & Fu & Hunc & Hspec & Hv & Hd & ->)]; [exact T|].
  apply (cjt_TInv s b u up jss); assumption.
Qed.
