(** Algebra of the counter tables ([cmap]): keys, padded vector addition, [cadd] / [csum]. *)
From HailV Require Import Common.Prelude BatchDB.Model.
Open Scope Z_scope.

Lemma key_eqb_refl k : key_eqb k k = true.
Proof. induction k as [|x k IH]; cbn; [reflexivity | rewrite Z.eqb_refl, IH; reflexivity]. Qed.

Lemma key_eqb_eq a b : key_eqb a b = true <-> a = b.
Proof.
  revert b; induction a as [|x a IH]; destruct b as [|y b]; cbn; split; intros H; try reflexivity; try discriminate.
  - apply andb_true_iff in H; destruct H as [H1 H2]. apply Z.eqb_eq in H1; apply IH in H2; subst; reflexivity.
  - injection H as -> ->. rewrite Z.eqb_refl, key_eqb_refl; reflexivity.
Qed.

Lemma key_eqb_neq a b : key_eqb a b = false <-> a <> b.
Proof.
  split; intros H.
  - intros E; apply key_eqb_eq in E; congruence.
  - destruct (key_eqb a b) eqn:E; [apply key_eqb_eq in E; contradiction | reflexivity].
Qed.

Lemma key_eqb_sym a b : key_eqb a b = key_eqb b a.
Proof.
  destruct (key_eqb a b) eqn:E.
  - apply key_eqb_eq in E; subst; symmetry; apply key_eqb_refl.
  - symmetry; apply key_eqb_neq; apply key_eqb_neq in E; congruence.
Qed.

Lemma vadd_nil_r a : vadd a [] = a.
Proof. destruct a; reflexivity. Qed.

Lemma vadd_nil_l a : vadd [] a = a.
Proof. reflexivity. Qed.

Lemma vadd_comm a b : vadd a b = vadd b a.
Proof.
  revert b; induction a as [|x a IH]; destruct b as [|y b]; cbn; try reflexivity.
  rewrite IH; f_equal; lia.
Qed.

Lemma vadd_assoc a b c : vadd a (vadd b c) = vadd (vadd a b) c.
Proof.
  revert b c; induction a as [|x a IH]; intros b c; [reflexivity|].
  destruct b as [|y b]; [reflexivity|]. destruct c as [|z c]; [reflexivity|].
  cbn; rewrite IH; f_equal; lia.
Qed.

Lemma nth_vadd i a b : nth i (vadd a b) 0 = nth i a 0 + nth i b 0.
Proof.
  revert a b; induction i as [|i IH]; intros a b; destruct a as [|x a], b as [|y b]; cbn; try lia.
  apply IH.
Qed.

(** value of component [i] of the counters summed over the rows selected by [p] *)
Definition cval (p : list Z -> bool) (i : nat) (m : cmap) : Z := nth i (csum p m) 0.

Lemma csum_cadd p k d m :
  csum p (cadd k d m) = if p k then vadd d (csum p m) else csum p m.
Proof.
  induction m as [|[k' v] m IH]; cbn [cadd csum fst snd].
  - destruct (p k); [rewrite vadd_nil_r|]; reflexivity.
  - destruct (key_eqb k k') eqn:E; cbn [csum fst snd].
    + apply key_eqb_eq in E; subst k'. destruct (p k); [|reflexivity].
      rewrite (vadd_comm v d), vadd_assoc; reflexivity.
    + rewrite IH. destruct (p k'), (p k); try reflexivity.
      rewrite !vadd_assoc, (vadd_comm v d); reflexivity.
Qed.

Lemma cval_cadd p i k d m :
  cval p i (cadd k d m) = cval p i m + (if p k then nth i d 0 else 0).
Proof.
  unfold cval; rewrite csum_cadd. destruct (p k); [rewrite nth_vadd; lia | lia].
Qed.

Lemma csum_app p m1 m2 : csum p (m1 ++ m2) = vadd (csum p m1) (csum p m2).
Proof.
  induction m1 as [|kv m1 IH]; cbn [app csum]; [reflexivity|].
  destruct (p (fst kv)); [rewrite IH, vadd_assoc|]; auto.
Qed.

Lemma csum_filter p q m :
  csum p (filter (fun kv => q (fst kv)) m) = csum (fun k => p k && q k) m.
Proof.
  induction m as [|kv m IH]; cbn [filter csum]; [reflexivity|].
  destruct (q (fst kv)); cbn [csum]; destruct (p (fst kv)); cbn [andb]; rewrite ?IH; reflexivity.
Qed.

Lemma csum_ext p q m : (forall k, p k = q k) -> csum p m = csum q m.
Proof. intros H; induction m as [|kv m IH]; cbn [csum]; [reflexivity | rewrite H, IH; reflexivity]. Qed.

Lemma csum_false m : csum (fun _ => false) m = [].
Proof. induction m; cbn [csum]; auto. Qed.

(** folding [cadd] over a list of keys *)
Lemma cval_fold_cadd {A} p i (f : A -> list Z) d (l : list A) m :
  cval p i (fold_left (fun m' a => cadd (f a) d m') l m)
  = cval p i m + nth i d 0 * Z.of_nat (length (filter (fun a => p (f a)) l)).
Proof.
  revert m; induction l as [|a l IH]; intros m; cbn [fold_left filter length].
  - lia.
  - rewrite IH, cval_cadd. destruct (p (f a)); cbn [length]; lia.
Qed.
