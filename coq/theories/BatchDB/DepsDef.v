(** The dependency invariant of the batch database (C04, C05, C08, C41): definitions.

    [DInv s] collects, for a state [s]:
      - unique keys of jobs and updates, positivity and ordering of the updates' reserved id ranges,
        every job inside the range of its update;
      - every dependency edge (batch, job, parent) points to an EARLIER job id, its child exists, and a
        parent lying before the child's update already exists in a committed update;
      - for a job of a COMMITTED update: n_pending_parents is exactly the number of its parents that exist
        and are not terminal, the job is Pending iff that number is positive, every parent exists in a
        committed update, and a parent that finished without success has marked it cancelled;
      - for a job of an UNCOMMITTED update: it has no attempt, it is Pending — or, in the first update,
        Ready iff it has no parents, with n_pending_parents = its number of parents;
      - for an uncommitted update the root staging counter equals the number of its jobs inserted so far;
      - every group has the root group exactly once among its ancestors-or-self, and the group ids of a
        batch are 0..max. *)
From HailV Require Import Common.Prelude BatchDB.Model BatchDB.Tables BatchDB.CMap BatchDB.JobsWF BatchDB.StepCore BatchDB.Legal.
Open Scope Z_scope.

Definition edges_of (s : state) (b j : Z) : list (Z * Z * Z) :=
  filter (fun r => let '(b', j', _) := r in (b' =? b) && (j' =? j)) (parents s).
Definition parents_of (s : state) (b j : Z) : list Z := map (fun r => let '(_, _, p) := r in p) (edges_of s b j).

Definition live_state (o : option jstate) : bool := match o with Some st => negb (terminal st) | None => false end.
Definition succ_state (o : option jstate) : bool := match o with Some Success => true | _ => false end.
Definition failed_state (o : option jstate) : bool := match o with Some st => terminal st && negb (jstate_eqb st Success) | None => false end.

Definition pstate (s : state) (b p : Z) : option jstate := option_map j_state (find_job s b p).
Definition npp_spec (s : state) (b j : Z) : Z :=
  Z.of_nat (length (filter (fun p => live_state (pstate s b p)) (parents_of s b j))).

Definition jcommitted (s : state) (x : job) : bool := committed s (j_batch x) (j_update x).

Definition job_ok (s : state) (x : job) : Prop :=
  if jcommitted s x then
    j_npp x = npp_spec s (j_batch x) (j_id x)
    /\ (j_state x = Pending <-> 0 < j_npp x)
    /\ (forall p, In p (parents_of s (j_batch x) (j_id x)) ->
          exists y, find_job s (j_batch x) p = Some y /\ jcommitted s y = true)
    /\ (existsb (fun p => failed_state (pstate s (j_batch x) p)) (parents_of s (j_batch x) (j_id x)) = true -> j_cancelled x = true)
  else
    j_attempt x = None
    /\ (if j_update x =? 1
        then j_npp x = Z.of_nat (length (parents_of s (j_batch x) (j_id x)))
             /\ j_state x = (if is_nil (parents_of s (j_batch x) (j_id x)) then Ready else Pending)
        else j_state x = Pending).

Definition uk (u : update) : Z * Z := (u_batch u, u_id u).

Definition edge_ok (s : state) (e : Z * Z * Z) : Prop :=
  let '(b, j, p) := e in
  1 <= p < j /\
  exists x up, find_job s b j = Some x /\ find_update s b (j_update x) = Some up /\
    (p < u_start_job up -> exists y, find_job s b p = Some y /\ jcommitted s y = true).

Definition n_jobs_of (s : state) (b u : Z) : Z :=
  Z.of_nat (length (filter (fun x => (j_batch x =? b) && (j_update x =? u)) (jobs s))).

Definition root_staged (s : state) (b u : Z) : Z :=
  cval (fun k => key_eqb (firstn 3 k) [b; u; 0]) 0 (staging s).

Definition root_once (s : state) (b g : Z) : Prop :=
  length (filter (Z.eqb 0) (anc_ids s b g)) = 1%nat.

Record DInv (s : state) : Prop := {
  d_jkeys : Kjobs s;
  d_ukeys : NoDup (map uk (updates s));
  d_upos : forall u, In u (updates s) -> 0 <= u_njobs u /\ 1 <= u_start_job u /\ 1 <= u_id u;
  d_uorder : forall x y, In x (updates s) -> In y (updates s) -> u_batch x = u_batch y -> u_id x < u_id y ->
               u_start_job x + u_njobs x <= u_start_job y;
  d_jrange : forall x, In x (jobs s) -> exists up, find_update s (j_batch x) (j_update x) = Some up /\
               u_start_job up <= j_id x < u_start_job up + u_njobs up;
  d_edges : forall e, In e (parents s) -> edge_ok s e;
  d_enodup : NoDup (parents s);
  d_jobs : forall x, In x (jobs s) -> job_ok s x;
  d_staged : forall u, In u (updates s) -> u_committed u = false -> root_staged s (u_batch u) (u_id u) = n_jobs_of s (u_batch u) (u_id u);
  d_root : forall g, In g (groups s) -> root_once s (g_batch g) (g_id g);
  d_gcontig : forall g, In g (groups s) -> forall g', 0 <= g' <= g_id g -> find_group s (g_batch g) g' <> None;
  d_gkeys : NoDup (map (fun g => (g_batch g, g_id g)) (groups s));
  d_jgroup : forall x, In x (jobs s) -> find_group s (j_batch x) (j_group x) <> None;
  d_bfresh : forall bt, In bt (batches s) -> b_id bt < next_batch s;
  d_gbatch : forall g, In g (groups s) -> find_batch s (g_batch g) <> None;
  d_ancgrp : forall r, In r (ancestors s) -> find_group s (fst (fst (fst r))) (snd (fst (fst r))) <> None;
  d_ufirst : forall u, In u (updates s) -> u_id u = 1 -> u_start_job u = 1
}.

(** Client-side well-formedness that the front end's schema validation enforces before the handlers run
    (validate_job_groups / validate_batch_update in batch/front_end/validate.py): job-group ids of a bunch
    are contiguous and parents are non-negative; update sizes are non-negative. *)
Definition client_ok (o : op) : bool :=
  match o with
  | CreateGroups _ _ _ gs =>
      contiguous (map gs_id gs)
      && forallb (fun g => match gs_parent_abs g with Some p => 0 <=? p | None => 1 <=? gs_parent_rel g end) gs
  | CreateUpdate _ _ _ nj ng => (0 <=? nj) && (0 <=? ng)
  | _ => true
  end.

(** ------------------------------------------------------------------ basic facts *)

Lemma pstate_core s s' b p : core_eq s s' -> pstate s' b p = pstate s b p.
Proof. intros H. unfold pstate. rewrite (core_eq_find_job _ _ _ _ H). reflexivity. Qed.

Lemma edges_of_core s s' b j : core_eq s s' -> edges_of s' b j = edges_of s b j.
Proof. intros (_&_&_&_&_&_&E&_). unfold edges_of. rewrite E. reflexivity. Qed.

Lemma parents_of_core s s' b j : core_eq s s' -> parents_of s' b j = parents_of s b j.
Proof. intros H. unfold parents_of. rewrite (edges_of_core _ _ _ _ H). reflexivity. Qed.

Lemma committed_core s s' b u : core_eq s s' -> committed s' b u = committed s b u.
Proof. intros H. unfold committed. rewrite (core_eq_find_update _ _ _ _ H). reflexivity. Qed.

Lemma npp_spec_core s s' b j : core_eq s s' -> npp_spec s' b j = npp_spec s b j.
Proof.
  intros H. unfold npp_spec. rewrite (parents_of_core _ _ _ _ H).
  erewrite filter_ext; [reflexivity|]. intros p. rewrite (pstate_core _ _ _ _ H). reflexivity.
Qed.

Lemma existsb_ext {A} (f g : A -> bool) l : (forall a, f a = g a) -> existsb f l = existsb g l.
Proof. intros H. induction l as [|a l IH]; cbn; [reflexivity | rewrite H, IH; reflexivity]. Qed.

Lemma job_ok_core s s' x : core_eq s s' -> job_ok s x -> job_ok s' x.
Proof.
  intros H. unfold job_ok, jcommitted.
  rewrite (committed_core _ _ _ _ H), (npp_spec_core _ _ _ _ H), (parents_of_core _ _ _ _ H).
  destruct (committed s (j_batch x) (j_update x)).
  - intros (A & B & C & D). repeat split; try tauto.
    + intros p Hp. destruct (C p Hp) as (y & Fy & Cy). exists y.
      rewrite (core_eq_find_job _ _ _ _ H), (committed_core _ _ _ _ H). tauto.
    + intros E. apply D. erewrite existsb_ext; [exact E|]. intros p. cbv beta. rewrite (pstate_core _ _ _ _ H). reflexivity.
  - tauto.
Qed.

(** [DInv] only looks at the core tables. *)
Lemma DInv_core s s' : core_eq s s' -> DInv s -> DInv s'.
Proof.
  intros H D. pose proof H as (E1&E2&E3&E4&E5&E6&E7&E8&E9).
  destruct D. constructor.
  - unfold Kjobs. rewrite E6. assumption.
  - rewrite E2. assumption.
  - rewrite E2. assumption.
  - rewrite E2. assumption.
  - rewrite E6. intros x Hx. destruct (d_jrange0 x Hx) as (up & F & R). exists up.
    rewrite (core_eq_find_update _ _ _ _ H). tauto.
  - rewrite E7. intros [[b j] p] He. specialize (d_edges0 _ He). cbn in *.
    destruct d_edges0 as (R & x & up & F1 & F2 & F3). split; [exact R|]. exists x, up.
    rewrite (core_eq_find_job _ _ _ _ H), (core_eq_find_update _ _ _ _ H). repeat split; try assumption.
    intros Hp. destruct (F3 Hp) as (y & Fy & Cy). exists y. unfold jcommitted in *.
    rewrite (core_eq_find_job _ _ _ _ H), (committed_core _ _ _ _ H). tauto.
  - rewrite E7. assumption.
  - rewrite E6. intros x Hx. apply (job_ok_core _ _ _ H). auto.
  - rewrite E2. intros u Hu Hc. specialize (d_staged0 u Hu Hc).
    unfold root_staged, n_jobs_of in *. rewrite E8, E6. assumption.
  - rewrite E3. intros g Hg. specialize (d_root0 g Hg). unfold root_once in *.
    rewrite (core_eq_anc_ids _ _ _ _ H). assumption.
  - rewrite E3. intros g Hg g' R. rewrite (core_eq_find_group _ _ _ _ H). eauto.
  - rewrite E3. assumption.
  - rewrite E6. intros x Hx. rewrite (core_eq_find_group _ _ _ _ H). auto.
  - rewrite E1, E9. assumption.
  - rewrite E3. intros g Hg. rewrite (core_eq_find_batch _ _ _ H). auto.
  - rewrite E4. intros r Hr. rewrite (core_eq_find_group _ _ _ _ H). auto.
  - rewrite E2. assumption.
Qed.

Lemma DInv_init : DInv init.
Proof.
  constructor; cbn; try constructor; try (intros; contradiction).
Qed.
