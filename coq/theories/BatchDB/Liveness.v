(** C39, liveness half: PROGRESS / no deadlock, as "a finishing schedule always exists and every step of it decreases a
    measure".

    What is proved (for every state reachable by a good history, [Deps.good_history] = Legal.v + schema-valid client requests):

    - [mu s]          the measure: sum over the jobs of committed updates of a rank of their state
                      (Pending 4, Ready 3, Creating 2, Running 1, terminal 0);
    - [op_for w s x]  the message the real loops send next for job [x]:
                        Ready and not cancelled (is_job_cancelled false; always_run jobs are never cancelled)
                            -> ScheduleJob with a fresh attempt id on an active instance
                               (scheduler: batch/driver/instance_collection/pool.py::schedule_loop_body -> job.py::schedule_job,
                                job_private.py::schedule_jobs_loop_body likewise);
                        Ready and cancelled
                            -> MarkComplete ... Cancelled with attempt NULL and instance NULL
                               (canceller: batch/driver/canceller.py::cancel_cancelled_ready_jobs_loop_body -> job.py::mark_job_complete);
                        Creating / Running
                            -> MarkComplete with the job's current attempt, the instance of that attempt, an end time and the
                               terminal state [w batch job] the worker reports
                               (worker -> batch/driver/main.py::job_complete -> job.py::mark_job_complete);
    - [op_for_progress]  for ANY committed job in state Ready / Creating / Running (an active instance existing), that message is
                      a good step, and it strictly decreases [mu];
    - [exists_live_nonpending] (no deadlock) while some job of a committed update is not terminal, some such job is Ready,
                      Creating or Running (the one with the least id in its batch: [least_live_job_not_pending]);
    - [drive], [finish], [finish_finishes]   iterating [op_for] on the first such job of the table — after the autoscaler's
                      NewInstance + ActivateInstance if no instance is active — is a finite good continuation after which every job
                      of every committed update is terminal; by the tally invariant every batch and job group is then complete;
    - [always_run_runs]  in that continuation an always_run job that was Pending or Ready gets an attempt and ends in the state its
                      worker reported, also when its batch / group is cancelled or a parent failed.

    What this is NOT: a proof that the real asyncio loops are fair, that workers report, or that messages are delivered.  The
    theorems say that progress is always POSSIBLE with messages the real loops send, and that every such message makes progress
    ([mu] decreases, so at most [mu s] of them are needed as long as the environment does not interfere); fairness of the loops
    and "attempts eventually finish" are the hypotheses that turn this possibility into eventuality.  Environment steps that undo
    progress (instance deactivation / preemption and the canceller's unschedule put a Running job back to Ready; new commits add
    jobs) are legal at any time and increase [mu]: under infinitely many preemptions no completion can be promised. *)
From HailV Require Import Common.Prelude BatchDB.Model BatchDB.Tables BatchDB.CMap BatchDB.JobsWF BatchDB.StepCore
  BatchDB.JobFold BatchDB.KidsFold BatchDB.Legal BatchDB.DepsDef BatchDB.DepsEasy BatchDB.DepsMap BatchDB.DepsDriver
  BatchDB.DepsMC1 BatchDB.DepsMC2 BatchDB.DepsMC3 BatchDB.DepsMC4 BatchDB.DepsStruct BatchDB.DepsAux BatchDB.Deps
  BatchDB.DepsCorollaries BatchDB.JobChange BatchDB.LivenessSteps.
From HailV Require BatchDB.StepFrame BatchDB.Cancel BatchDB.Attempts BatchDB.Pick BatchDB.TallyInv.
From RecordUpdate Require Import RecordSet.
Import RecordSetNotations.
Open Scope Z_scope.

Local Notation run_from := Cancel.run_from.

(* ------------------------------------------------------------------ sums *)

Lemma zsum_map {A B} (f : B -> Z) (h : A -> B) l : zsum f (map h l) = zsum (fun y => f (h y)) l.
Proof. induction l as [|a l IH]; cbn [map zsum]; [reflexivity | rewrite IH; reflexivity]. Qed.

Lemma zsum_le {A} (f g : A -> Z) l : (forall y, In y l -> f y <= g y) -> zsum f l <= zsum g l.
Proof.
  induction l as [|a l IH]; intros H; cbn [zsum]; [lia|].
  pose proof (H a (or_introl eq_refl)). assert (zsum f l <= zsum g l) by (apply IH; intros y Hy; apply H; right; exact Hy). lia.
Qed.

Lemma zsum_lt {A} (f g : A -> Z) l x :
  (forall y, In y l -> f y <= g y) -> In x l -> f x < g x -> zsum f l < zsum g l.
Proof.
  induction l as [|a l IH]; intros H Hx Hlt; [destruct Hx|]. cbn [zsum].
  pose proof (H a (or_introl eq_refl)) as Ha.
  assert (Hl : forall y, In y l -> f y <= g y) by (intros y Hy; apply H; right; exact Hy).
  destruct Hx as [->|Hx].
  - pose proof (zsum_le f g l Hl). lia.
  - specialize (IH Hl Hx Hlt). lia.
Qed.

Lemma zsum_in_le {A} (f : A -> Z) l x : (forall y, In y l -> 0 <= f y) -> In x l -> f x <= zsum f l.
Proof.
  induction l as [|a l IH]; intros H Hx; [destruct Hx|]. cbn [zsum].
  assert (Hl : forall y, In y l -> 0 <= f y) by (intros y Hy; apply H; right; exact Hy).
  assert (0 <= zsum f l).
  { clear - Hl. induction l as [|b l IH]; cbn [zsum]; [lia|].
    pose proof (Hl b (or_introl eq_refl)). assert (0 <= zsum f l) by (apply IH; intros y Hy; apply Hl; right; exact Hy). lia. }
  pose proof (H a (or_introl eq_refl)).
  destruct Hx as [->|Hx]; [lia | specialize (IH Hl Hx); lia].
Qed.

(* ------------------------------------------------------------------ the measure *)

Definition rank (st : jstate) : Z :=
  match st with Pending => 4 | Ready => 3 | Creating => 2 | Running => 1 | _ => 0 end.

Definition wt (s : state) (x : job) : Z := if jcommitted s x then rank (j_state x) else 0.

Definition mu (s : state) : Z := zsum (wt s) (jobs s).

(** every job of every committed update is terminal *)
Definition all_done (s : state) : Prop :=
  forall x, In x (jobs s) -> jcommitted s x = true -> terminal (j_state x) = true.

Lemma rank_nonneg st : 0 <= rank st.
Proof. destruct st; cbn; lia. Qed.

Lemma rank_live st : terminal st = false -> 1 <= rank st.
Proof. destruct st; cbn; intros H; try discriminate; lia. Qed.

Lemma wt_nonneg s x : 0 <= wt s x.
Proof. unfold wt. destruct (jcommitted s x); [apply rank_nonneg | lia]. Qed.

Lemma mu_nonneg s : 0 <= mu s.
Proof.
  unfold mu. induction (jobs s) as [|a l IH]; cbn [zsum]; [lia|]. pose proof (wt_nonneg s a). lia.
Qed.

Lemma mu_zero_done s : mu s <= 0 -> all_done s.
Proof.
  intros H x Hx C. destruct (terminal (j_state x)) eqn:T; [reflexivity|]. exfalso.
  pose proof (zsum_in_le (wt s) (jobs s) x (fun y _ => wt_nonneg s y) Hx) as Hle. fold (mu s) in Hle.
  unfold wt in Hle at 1. rewrite C in Hle. pose proof (rank_live _ T). lia.
Qed.

Lemma job_eq_dec (x y : job) : {x = y} + {x <> y}.
Proof.
  decide equality; try apply Z.eq_dec; try apply Bool.bool_dec; try apply jstate_eq_dec.
  decide equality. apply Z.eq_dec.
Qed.

(** a driven step that lowers the rank of a committed job lowers the measure *)
Lemma dstep_mu s x n s' :
  In x (jobs s) -> jcommitted s x = true -> dstep s x n s' -> rank (j_state n) < rank (j_state x) -> mu s' < mu s.
Proof.
  intros Hx Cx DS Hr. pose proof DS as [(h & Ej & Hhx & Hs & Ho) Eu _].
  unfold mu. rewrite Ej, zsum_map.
  assert (Hc : forall y, In y (jobs s) -> jcommitted s' (h y) = jcommitted s y).
  { intros y Hy. apply (dstep_jcommitted s x n s' y (h y) DS). apply Hs. exact Hy. }
  apply (zsum_lt _ _ _ x).
  - intros y Hy. unfold wt. rewrite (Hc y Hy). destruct (jcommitted s y); [|lia].
    destruct (job_eq_dec y x) as [->|Hne]; [rewrite Hhx; lia|].
    destruct (Ho y Hy Hne) as [->|(P & _ & [E|E])]; [lia | rewrite P, E; cbn; lia | rewrite P, E; cbn; lia].
  - exact Hx.
  - unfold wt. rewrite (Hc x Hx), Cx, Hhx. exact Hr.
Qed.

(* ------------------------------------------------------------------ the next message for a job *)

Definition cur_att (x : job) : Z := match j_attempt x with Some a => a | None => -1 end.
Definition att_inst (s : state) (b j a : Z) : Z := match find_attempt s b j a with Some c => a_inst c | None => -1 end.
Definition att_start (s : state) (b j a : Z) : option Z := match find_attempt s b j a with Some c => a_start c | None => None end.
(* an end time not before the recorded start / rollup of the attempt *)
Definition att_end (s : state) (b j a : Z) : Z :=
  match find_attempt s b j a with
  | Some c => Z.max (match a_start c with Some t => t | None => 0 end) (match a_rollup c with Some t => t | None => 0 end)
  | None => 0
  end.

(** [w b j]: the terminal state the worker reports for job (b, j) *)
Definition op_for (w : Z -> Z -> jstate) (s : state) (x : job) : option op :=
  let b := j_batch x in
  let j := j_id x in
  match j_state x with
  | Ready =>
      match is_job_cancelled s x with
      | Some true => Some (MarkComplete b j (-1) (-1) Cancelled None None 0)
      | _ => match active_inst s with
             | Some i => Some (ScheduleJob b j (fresh_att s) i)
             | None => None
             end
      end
  | Creating | Running =>
      let a := cur_att x in
      Some (MarkComplete b j a (att_inst s b j a) (w b j) (att_start s b j a) (Some (att_end s b j a)) 0)
  | _ => None
  end.

(** the row of job [x] after that message *)
Definition next_row (w : Z -> Z -> jstate) (s : state) (x : job) : job :=
  match j_state x with
  | Ready =>
      match is_job_cancelled s x with
      | Some true => x <| j_state := Cancelled |> <| j_attempt := None |>
      | _ => x <| j_state := Running |> <| j_attempt := Some (fresh_att s) |>
      end
  | _ => x <| j_state := w (j_batch x) (j_id x) |> <| j_attempt := (if cur_att x =? -1 then None else Some (cur_att x)) |>
  end.

Definition verdict_ok (w : Z -> Z -> jstate) : Prop := forall b j, terminal (w b j) = true.

Definition movable (x : job) : Prop := j_state x = Ready \/ j_state x = Creating \/ j_state x = Running.

Lemma next_row_rank w s x : verdict_ok w -> movable x -> rank (j_state (next_row w s x)) < rank (j_state x).
Proof.
  intros W M. unfold next_row. specialize (W (j_batch x) (j_id x)).
  destruct M as [E|[E|E]]; rewrite E.
  - destruct (is_job_cancelled s x) as [[|]|]; destruct x; cbn; lia.
  - destruct x; cbn in *. destruct (w j_batch j_id); cbn in *; try discriminate; lia.
  - destruct x; cbn in *. destruct (w j_batch j_id); cbn in *; try discriminate; lia.
Qed.

Lemma in_find_job s x : DInv s -> In x (jobs s) -> find_job s (j_batch x) (j_id x) = Some x.
Proof. intros D Hx. rewrite find_job_eq. apply find_jkey_in; [exact (d_jkeys _ D) | exact Hx]. Qed.

(** PROGRESS: for any committed job that is Ready, Creating or Running the next message exists, is a good step, moves the
    job as [next_row] says (children released, nothing else touched) and strictly decreases the measure. *)
Theorem op_for_progress w s x :
  verdict_ok w -> DInv s -> has_active s -> In x (jobs s) -> jcommitted s x = true -> movable x ->
  exists o, op_for w s x = Some o /\ good s o /\ dstep s x (next_row w s x) (fst (step s o)) /\
            mu (fst (step s o)) < mu s.
Proof.
  intros W D A Hx Cx M.
  pose proof (in_find_job s x D Hx) as F.
  assert (Main : exists o, op_for w s x = Some o /\ good s o /\ dstep s x (next_row w s x) (fst (step s o))).
  { unfold op_for, next_row. destruct M as [E|E'].
    - rewrite E. destruct (is_job_cancelled s x) as [[|]|] eqn:Ic.
      + eexists. split; [reflexivity|]. split.
        * apply (complete_good s (j_batch x) (j_id x) (-1) (-1) Cancelled None None 0 x F Cx eq_refl); left; reflexivity.
        * apply (complete_dstep s (j_batch x) (j_id x) (-1) (-1) Cancelled None None 0 x D F Cx); auto.
          unfold StepFrame.mc_stale. destruct (j_attempt x); reflexivity.
      + destruct (active_inst_some s A) as (i & Ei & Ia). rewrite Ei.
        eexists. split; [reflexivity|]. split.
        * apply (schedule_good s _ _ _ _ x F Cx). apply fresh_att_fresh.
        * apply (schedule_dstep s _ _ _ _ x D F E Ic); [apply fresh_att_fresh | exact Ia].
      + unfold is_job_cancelled in Ic. discriminate.
    - assert (Hm : movable x) by (right; exact E').
      assert (Enr : match j_state x with
                    | Ready => match is_job_cancelled s x with
                               | Some true => x <| j_state := Cancelled |> <| j_attempt := None |>
                               | _ => x <| j_state := Running |> <| j_attempt := Some (fresh_att s) |> end
                    | _ => x <| j_state := w (j_batch x) (j_id x) |> <| j_attempt := (if cur_att x =? -1 then None else Some (cur_att x)) |>
                    end = x <| j_state := w (j_batch x) (j_id x) |> <| j_attempt := (if cur_att x =? -1 then None else Some (cur_att x)) |>)
        by (destruct E' as [E|E]; rewrite E; reflexivity).
      rewrite Enr.
      assert (Eop : match j_state x with
                    | Ready => match is_job_cancelled s x with
                               | Some true => Some (MarkComplete (j_batch x) (j_id x) (-1) (-1) Cancelled None None 0)
                               | _ => match active_inst s with
                                      | Some i => Some (ScheduleJob (j_batch x) (j_id x) (fresh_att s) i)
                                      | None => None end end
                    | Creating | Running =>
                        Some (MarkComplete (j_batch x) (j_id x) (cur_att x) (att_inst s (j_batch x) (j_id x) (cur_att x)) (w (j_batch x) (j_id x))
                                (att_start s (j_batch x) (j_id x) (cur_att x)) (Some (att_end s (j_batch x) (j_id x) (cur_att x))) 0)
                    | _ => None end
                    = Some (MarkComplete (j_batch x) (j_id x) (cur_att x) (att_inst s (j_batch x) (j_id x) (cur_att x)) (w (j_batch x) (j_id x))
                                (att_start s (j_batch x) (j_id x) (cur_att x)) (Some (att_end s (j_batch x) (j_id x) (cur_att x))) 0))
        by (destruct E' as [E|E]; rewrite E; reflexivity).
      cbv zeta. rewrite Eop.
      eexists. split; [reflexivity|]. split.
      + apply (complete_good s _ _ _ _ _ _ _ _ x F Cx (W _ _)); [|right; discriminate]. right.
        unfold attempt_on, att_inst. destruct (find_attempt s (j_batch x) (j_id x) (cur_att x)); [apply Z.eqb_refl | reflexivity].
      + apply (complete_dstep s (j_batch x) (j_id x) (cur_att x) _ (w (j_batch x) (j_id x)) _ _ 0 x D F Cx Hm (W _ _)).
        * unfold StepFrame.mc_stale, cur_att. destruct (j_attempt x) as [e|]; [|reflexivity].
          rewrite Z.eqb_refl. apply andb_false_r.
        * unfold att_inst. destruct (find_attempt s (j_batch x) (j_id x) (cur_att x)); [right; left; discriminate | right; right; reflexivity]. }
  destruct Main as (o & Eo & Go & DS). exists o. split; [exact Eo|]. split; [exact Go|]. split; [exact DS|].
  apply (dstep_mu s x (next_row w s x)); try assumption. apply next_row_rank; assumption.
Qed.

(* ------------------------------------------------------------------ no deadlock *)

Lemma exists_min (p : job -> bool) l x0 :
  In x0 l -> p x0 = true -> exists x, In x l /\ p x = true /\ forall y, In y l -> p y = true -> j_id x <= j_id y.
Proof.
  revert x0. induction l as [|a l IH]; intros x0 Hx0 P0; [destruct Hx0|].
  destruct (existsb p l) eqn:Ex.
  - apply existsb_exists in Ex. destruct Ex as (z & Hz & Pz). destruct (IH z Hz Pz) as (m & Hm & Pm & Least).
    destruct (p a) eqn:Pa.
    + destruct (Z_le_gt_dec (j_id a) (j_id m)) as [Le|Gt].
      * exists a. split; [left; reflexivity|]. split; [exact Pa|]. intros y [<-|Hy] Py; [lia|]. specialize (Least y Hy Py). lia.
      * exists m. split; [right; exact Hm|]. split; [exact Pm|]. intros y [<-|Hy] Py; [lia | apply Least; assumption].
    + exists m. split; [right; exact Hm|]. split; [exact Pm|]. intros y [<-|Hy] Py; [congruence | apply Least; assumption].
  - assert (Hn : forall y, In y l -> p y = false).
    { intros y Hy. destruct (p y) eqn:Py; [|reflexivity]. assert (existsb p l = true) by (apply existsb_exists; eauto). congruence. }
    destruct Hx0 as [->|Hx0]; [|rewrite (Hn x0 Hx0) in P0; discriminate].
    exists x0. split; [left; reflexivity|]. split; [exact P0|]. intros y [<-|Hy] Py; [lia | rewrite (Hn y Hy) in Py; discriminate].
Qed.

Definition live_job (s : state) (x : job) : bool :=
  jcommitted s x && negb (terminal (j_state x)) && negb (jstate_eqb (j_state x) Pending).

Lemma live_job_spec s x : live_job s x = true <-> jcommitted s x = true /\ movable x.
Proof.
  unfold live_job, movable. rewrite !andb_true_iff, !negb_true_iff. split.
  - intros ((C & T) & P). split; [exact C|]. destruct (j_state x); cbn in *; try discriminate; auto.
  - intros (C & [E|[E|E]]); rewrite E; cbn; auto.
Qed.

(** NO DEADLOCK: while some job of a committed update is not terminal, some job of a committed update is Ready, Creating or
    Running — the dependency graph cannot hold every unfinished job in Pending. *)
Theorem exists_live_nonpending s x0 :
  DInv s -> In x0 (jobs s) -> jcommitted s x0 = true -> terminal (j_state x0) = false ->
  exists x, In x (jobs s) /\ live_job s x = true.
Proof.
  intros D H0 C0 T0.
  set (p := fun y => (j_batch y =? j_batch x0) && jcommitted s y && negb (terminal (j_state y))).
  assert (P0 : p x0 = true) by (unfold p; rewrite Z.eqb_refl, C0, T0; reflexivity).
  destruct (exists_min p (jobs s) x0 H0 P0) as (x & Hx & Px & Least).
  unfold p in Px. apply andb_true_iff in Px. destruct Px as [Px Tx]. apply andb_true_iff in Px. destruct Px as [Bx Cx].
  apply negb_true_iff in Tx. assert (Bx' : j_batch x = j_batch x0) by lia.
  exists x. split; [exact Hx|]. apply live_job_spec. split; [exact Cx|].
  assert (NP : j_state x <> Pending).
  { apply (least_live_job_not_pending s D x Hx Cx Tx). intros y Hy By Cy Ty. apply Least; [exact Hy|].
    unfold p. rewrite Cy, Ty. replace (j_batch y =? j_batch x0) with true by (symmetry; apply Z.eqb_eq; lia). reflexivity. }
  unfold movable. destruct (j_state x); cbn in Tx; try discriminate; auto. contradiction.
Qed.

(* ------------------------------------------------------------------ the driver *)

(** the message for the first job of the table that can be moved *)
Definition drive (w : Z -> Z -> jstate) (s : state) : option op :=
  match find (live_job s) (jobs s) with Some x => op_for w s x | None => None end.

Theorem drive_progress w s :
  verdict_ok w -> DInv s -> has_active s -> ~ all_done s ->
  exists o, drive w s = Some o /\ good s o /\ mu (fst (step s o)) < mu s /\ has_active (fst (step s o)).
Proof.
  intros W D A ND. unfold drive. destruct (find (live_job s) (jobs s)) as [x|] eqn:F.
  - apply find_some in F. destruct F as [Hx L]. apply live_job_spec in L. destruct L as [Cx M].
    destruct (op_for_progress w s x W D A Hx Cx M) as (o & Eo & Go & DS & Lt).
    exists o. split; [exact Eo|]. split; [exact Go|]. split; [exact Lt|]. exact (dstep_active _ _ _ _ DS A).
  - exfalso. apply ND. intros x Hx Cx. destruct (terminal (j_state x)) eqn:T; [reflexivity|]. exfalso.
    destruct (exists_live_nonpending s x D Hx Cx T) as (y & Hy & Ly).
    rewrite (find_none _ _ F y Hy) in Ly. discriminate.
Qed.

Lemma drive_none_done w s : verdict_ok w -> DInv s -> has_active s -> drive w s = None -> all_done s.
Proof.
  intros W D A E x Hx Cx. destruct (terminal (j_state x)) eqn:T; [reflexivity|]. exfalso.
  assert (ND : ~ all_done s) by (intros AD; rewrite (AD x Hx Cx) in T; discriminate).
  destruct (drive_progress w s W D A ND) as (o & Eo & _). congruence.
Qed.

Fixpoint drive_n (w : Z -> Z -> jstate) (n : nat) (s : state) : list op :=
  match n with
  | O => []
  | S n' => match drive w s with
            | Some o => o :: drive_n w n' (fst (step s o))
            | None => []
            end
  end.

Lemma drive_n_finishes w n : forall s,
  verdict_ok w -> DInv s -> DAux s -> has_active s -> mu s <= Z.of_nat n ->
  good_from s (drive_n w n s) /\ all_done (run_from s (drive_n w n s)).
Proof.
  induction n as [|n IH]; intros s W D A Ac Hm; cbn [drive_n].
  - split; [exact I|]. cbn [Cancel.run_from fold_left]. apply mu_zero_done. lia.
  - destruct (drive w s) as [o|] eqn:Ed.
    + assert (ND : ~ all_done s).
      { intros AD. unfold drive in Ed. destruct (find (live_job s) (jobs s)) as [x|] eqn:F; [|discriminate].
        apply find_some in F. destruct F as [Hx L]. apply live_job_spec in L. destruct L as [Cx M].
        specialize (AD x Hx Cx). destruct M as [E|[E|E]]; rewrite E in AD; discriminate. }
      destruct (drive_progress w s W D Ac ND) as (o' & Eo & Go & Lt & Ac'). rewrite Ed in Eo. injection Eo as <-.
      destruct (IH (fst (step s o)) W (DInv_step _ _ D A Go) (DAux_step _ _ A) Ac' ltac:(lia)) as [G1 AD].
      split; [cbn [good_from]; split; assumption|]. cbn [Cancel.run_from fold_left]. exact AD.
    + split; [exact I|]. cbn [Cancel.run_from fold_left]. apply (drive_none_done w s W D Ac Ed).
Qed.

(** the finishing continuation: make sure an instance is active (autoscaler), then drive until nothing is left *)
Definition finish (w : Z -> Z -> jstate) (s : state) : list op :=
  let s1 := run_from s (boot_ops s) in
  boot_ops s ++ drive_n w (Z.to_nat (mu s1)) s1.

Theorem finish_finishes w s :
  verdict_ok w -> DInv s -> DAux s -> good_from s (finish w s) /\ all_done (run_from s (finish w s)).
Proof.
  intros W D A. unfold finish. cbv zeta.
  destruct (DInv_run_from (boot_ops s) s D A (boot_good s)) as [D1 A1].
  pose proof (boot_active s) as Ac1.
  set (s1 := run_from s (boot_ops s)) in *.
  destruct (drive_n_finishes w (Z.to_nat (mu s1)) s1 W D1 A1 Ac1) as [G AD].
  { pose proof (mu_nonneg s1). lia. }
  split.
  - apply good_from_app. split; [apply boot_good | exact G].
  - rewrite Cancel.run_from_app. exact AD.
Qed.

(* ------------------------------------------------------------------ histories *)

Lemma all_done_complete ops : good_history ops -> all_done (run ops) ->
  (forall bt, In bt (batches (run ops)) -> b_running bt = false) /\
  (forall gr, In gr (groups (run ops)) -> g_running gr = false).
Proof.
  intros G AD. destruct (TallyInv.reach_complete_iff ops G) as [Hg Hb]. cbv zeta in *. split.
  - intros bt Hbt. apply (Hb bt Hbt). intros x Hx. unfold TallyInv.batch_jobs in Hx. apply filter_In in Hx.
    destruct Hx as [Hx C]. apply andb_true_iff in C. apply AD; tauto.
  - intros gr Hgr. apply (Hg gr Hgr). intros x Hx. apply TallyInv.in_subtree in Hx. apply AD; tauto.
Qed.

(** C39, liveness as possibility: every good history has a finite good continuation — made of autoscaler, scheduler,
    canceller and worker-completion messages only — after which every job of every committed update is terminal and every
    batch and job group is complete. *)
Theorem can_always_finish w ops :
  verdict_ok w -> good_history ops ->
  let ext := finish w (run ops) in
  good_history (ops ++ ext) /\ all_done (run (ops ++ ext)) /\
  (forall bt, In bt (batches (run (ops ++ ext))) -> b_running bt = false) /\
  (forall gr, In gr (groups (run (ops ++ ext))) -> g_running gr = false).
Proof.
  intros W G ext. pose proof (DInv_reachable ops G) as D. pose proof (DAux_run ops) as A.
  destruct (finish_finishes w (run ops) W D A) as [Ge AD]. fold ext in Ge, AD.
  assert (G' : good_history (ops ++ ext)).
  { unfold good_history. apply good_from_app. split; [exact G|]. rewrite <- Cancel.run_run_from. exact Ge. }
  rewrite <- Cancel.run_app in AD.
  split; [exact G'|]. split; [exact AD|]. apply all_done_complete; assumption.
Qed.

(* ------------------------------------------------------------------ always_run jobs run *)

(** job row [x] of job (b, j) has not been finished without running: it is still waiting, or it carries a real attempt and is
    Creating, Running, or in the state the worker reported *)
Definition ran (w : Z -> Z -> jstate) (b j : Z) (x : job) : Prop :=
  (j_state x = Pending \/ j_state x = Ready) \/
  (exists a, j_attempt x = Some a /\ a <> -1 /\ (j_state x = Creating \/ j_state x = Running \/ j_state x = w b j)).

Definition ar_inv (w : Z -> Z -> jstate) (b j : Z) (s : state) : Prop :=
  exists x, find_job s b j = Some x /\ j_always x = true /\ jcommitted s x = true /\ ran w b j x.

Lemma ar_inv_step w b j s x1 s' :
  DInv s -> In x1 (jobs s) -> live_job s x1 = true -> dstep s x1 (next_row w s x1) s' ->
  ar_inv w b j s -> ar_inv w b j s'.
Proof.
  intros D H1 L1 DS (x & F & Al & Cx & R).
  destruct (dstep_find_job s x1 _ s' b j DS) as (h & Fh & Hx1 & Hs & Ho).
  pose proof (find_jkey_sound _ _ _ _ F) as (Hx & B & J).
  exists (h x). rewrite Fh, F. split; [reflexivity|].
  pose proof (Hs x Hx) as St. pose proof St as (_ & _ & _ & _ & Sa & _).
  split; [congruence|]. split; [rewrite (dstep_jcommitted s x1 _ s' x (h x) DS St); exact Cx|].
  destruct (job_eq_dec x x1) as [->|Hne].
  - rewrite Hx1. apply live_job_spec in L1. destruct L1 as [_ M]. unfold next_row.
    destruct M as [E|E'].
    + rewrite E. rewrite (Attempts.always_run_never_cancelled s x1 Al).
      right. exists (fresh_att s). pose proof (fresh_att_pos s) as Hp. set (fa := fresh_att s) in *. clearbody fa.
      destruct x1; cbn. split; [reflexivity|]. split; [lia | auto].
    + destruct R as [[E|E]|(a & Ea & Na & _)]; [destruct E' as [E'|E']; congruence | destruct E' as [E'|E']; congruence |].
      assert (Enr : match j_state x1 with
                    | Ready => match is_job_cancelled s x1 with
                               | Some true => x1 <| j_state := Cancelled |> <| j_attempt := None |>
                               | _ => x1 <| j_state := Running |> <| j_attempt := Some (fresh_att s) |> end
                    | _ => x1 <| j_state := w (j_batch x1) (j_id x1) |> <| j_attempt := (if cur_att x1 =? -1 then None else Some (cur_att x1)) |>
                    end = x1 <| j_state := w (j_batch x1) (j_id x1) |> <| j_attempt := (if cur_att x1 =? -1 then None else Some (cur_att x1)) |>)
        by (destruct E' as [E|E]; rewrite E; reflexivity).
      rewrite Enr. unfold cur_att. rewrite Ea, B, J.
      replace (a =? -1) with false by (symmetry; apply Z.eqb_neq; exact Na).
      right. exists a. destruct x1; cbn. auto.
  - destruct (Ho x Hx Hne) as [->|(P & Ea & Es)]; [exact R|]. left. tauto.
Qed.

Lemma ar_inv_drive_n w b j n : forall s,
  verdict_ok w -> DInv s -> DAux s -> has_active s -> ar_inv w b j s -> ar_inv w b j (run_from s (drive_n w n s)).
Proof.
  induction n as [|n IH]; intros s W D A Ac R; cbn [drive_n]; [exact R|].
  destruct (drive w s) as [o|] eqn:Ed; [|exact R]. cbn [Cancel.run_from fold_left].
  unfold drive in Ed. destruct (find (live_job s) (jobs s)) as [x1|] eqn:F; [|discriminate].
  apply find_some in F. destruct F as [H1 L1]. pose proof (proj1 (live_job_spec s x1) L1) as [C1 M1].
  destruct (op_for_progress w s x1 W D Ac H1 C1 M1) as (o' & Eo & Go & DS & _). rewrite Ed in Eo. injection Eo as <-.
  apply IH; [exact W | apply DInv_step; assumption | apply DAux_step; exact A | exact (dstep_active _ _ _ _ DS Ac) |].
  apply (ar_inv_step w b j s x1 _ D H1 L1 DS R).
Qed.

(** In the finishing continuation an always_run job of a committed update that is Pending or Ready ends with an attempt, in the
    state its worker reported — whatever cancellation marks its groups carry and whatever happened to its parents. *)
Theorem always_run_runs w s b j x :
  verdict_ok w -> DInv s -> DAux s ->
  find_job s b j = Some x -> j_always x = true -> jcommitted s x = true -> (j_state x = Pending \/ j_state x = Ready) ->
  exists x' a, find_job (run_from s (finish w s)) b j = Some x' /\ j_state x' = w b j /\ j_attempt x' = Some a /\ a <> -1.
Proof.
  intros W D A F Al C St. unfold finish. cbv zeta. rewrite Cancel.run_from_app.
  destruct (DInv_run_from (boot_ops s) s D A (boot_good s)) as [D1 A1].
  pose proof (boot_active s) as Ac1. pose proof (boot_core s) as C1.
  set (s1 := run_from s (boot_ops s)) in *.
  assert (R1 : ar_inv w b j s1).
  { exists x. split; [unfold find_job; rewrite (StepFrame.sc_jobs _ _ C1); exact F|]. split; [exact Al|].
    split; [unfold jcommitted, committed, find_update; rewrite (StepFrame.sc_updates _ _ C1); exact C | left; exact St]. }
  pose proof (ar_inv_drive_n w b j (Z.to_nat (mu s1)) s1 W D1 A1 Ac1 R1) as (x' & F' & _ & C' & R').
  destruct (drive_n_finishes w (Z.to_nat (mu s1)) s1 W D1 A1 Ac1) as [_ AD].
  { pose proof (mu_nonneg s1). lia. }
  pose proof (find_jkey_sound _ _ _ _ F') as (Hx' & _).
  specialize (AD x' Hx' C').
  destruct R' as [[E|E]|(a & Ea & Na & [E|[E|E]])]; try (rewrite E in AD; discriminate).
  exists x', a. auto.
Qed.

(* ------------------------------------------------------------------ non-vacuity *)

(** A reachable state with a Running parent (job 1, attempt 1 on instance 1), a Pending child (job 2, in group 1), a Pending
    always_run grandchild (job 3, root group) and the whole batch cancelled (CancelGroup 1 0). *)
Definition stuck_history : list op :=
  [CreateBatch 1 1 1 true; CreateUpdate 1 1 10 3 1;
   CreateGroups 1 1 1 [mkGspec 1 (Some 0) 0];
   CreateJobs 1 1 1 [mkJspec 1 (Some 1) 0 [] [] false 1000 1; mkJspec 2 (Some 1) 0 [] [1] false 1000 1;
                     mkJspec 3 (Some 0) 0 [] [2] true 1000 1];
   Commit 1 1 1; NewInstance 1 1 4000 true; ActivateInstance 1; ScheduleJob 1 1 1 1; CancelGroup 1 0].

Definition all_succeed (_ _ : Z) : jstate := Success.
Definition first_fails (_ j : Z) : jstate := if j =? 1 then Failed else Success.

Lemma all_succeed_ok : verdict_ok all_succeed. Proof. intros b j. reflexivity. Qed.
Lemma first_fails_ok : verdict_ok first_fails. Proof. intros b j. unfold first_fails. destruct (j =? 1); reflexivity. Qed.

Definition job_view (x : job) := (j_id x, j_state x, j_always x, j_attempt x).

Example stuck_history_good : good_history stuck_history.
Proof. apply good_fromb_sound. vm_compute. reflexivity. Qed.

Example stuck_state :
  map job_view (jobs (run stuck_history)) = [(1, Running, false, Some 1); (2, Pending, false, None); (3, Pending, true, None)] /\
  group_cancelled (run stuck_history) 1 1 = true /\ mu (run stuck_history) = 9 /\
  map b_running (batches (run stuck_history)) = [true].
Proof. vm_compute. repeat split; reflexivity. Qed.

(** the finishing continuation computed by [finish]: the worker's report for job 1, the canceller's completion of job 2,
    the scheduling and the completion of the always_run job 3 *)
Example stuck_finish :
  finish all_succeed (run stuck_history) =
    [MarkComplete 1 1 1 1 Success None (Some 0) 0; MarkComplete 1 2 (-1) (-1) Cancelled None None 0;
     ScheduleJob 1 3 2 1; MarkComplete 1 3 2 1 Success None (Some 0) 0] /\
  let s := run (stuck_history ++ finish all_succeed (run stuck_history)) in
  map job_view (jobs s) = [(1, Success, false, Some 1); (2, Cancelled, false, None); (3, Success, true, Some 2)] /\
  map b_running (batches s) = [false] /\ map g_running (groups s) = [false; false] /\ mu s = 0.
Proof. vm_compute. repeat split; reflexivity. Qed.

(** the same when the worker reports a failure for job 1: its child is marked cancelled and completed by the canceller,
    the always_run grandchild still runs *)
Example stuck_finish_failure :
  let s := run (stuck_history ++ finish first_fails (run stuck_history)) in
  map job_view (jobs s) = [(1, Failed, false, Some 1); (2, Cancelled, false, None); (3, Success, true, Some 2)] /\
  map b_running (batches s) = [false].
Proof. vm_compute. split; reflexivity. Qed.

(** without any active instance the continuation starts with the autoscaler's two messages *)
Example boot_example :
  finish all_succeed (run (firstn 5 stuck_history)) =
    [NewInstance 1 0 1000 true; ActivateInstance 1;
     ScheduleJob 1 1 1 1; MarkComplete 1 1 1 1 Success None (Some 0) 0;
     ScheduleJob 1 2 2 1; MarkComplete 1 2 2 1 Success None (Some 0) 0;
     ScheduleJob 1 3 3 1; MarkComplete 1 3 3 1 Success None (Some 0) 0].
Proof. vm_compute. reflexivity. Qed.

(* ------------------------------------------------------------------ statements over good histories (for Props_C39) *)

Lemma drive_n_length w n : forall s, (length (drive_n w n s) <= n)%nat.
Proof. induction n as [|n IH]; intros s; cbn [drive_n length]; [lia|]. destruct (drive w s); cbn [length]; [specialize (IH (fst (step s o))) |]; lia. Qed.

Lemma mu_same_core s s' : StepFrame.same_core s s' -> mu s' = mu s.
Proof.
  intros C. unfold mu. rewrite (StepFrame.sc_jobs _ _ C). unfold wt, jcommitted, committed, find_update.
  rewrite (StepFrame.sc_updates _ _ C). reflexivity.
Qed.

(** the finishing continuation is short: two autoscaler messages at most, and at most [mu s] scheduler / canceller / worker
    messages (each job needs at most: release by its parents, one schedule, one completion) *)
Lemma finish_length w s : Z.of_nat (length (finish w s)) <= 2 + mu s.
Proof.
  unfold finish. cbv zeta. rewrite app_length, (mu_same_core _ _ (boot_core s)).
  pose proof (drive_n_length w (Z.to_nat (mu s)) (run_from s (boot_ops s))) as H1. pose proof (mu_nonneg s) as H2.
  assert (H3 : (length (boot_ops s) <= 2)%nat) by (unfold boot_ops; destruct (active_inst s); cbn [length]; lia).
  lia.
Qed.

Theorem no_deadlock ops : good_history ops ->
  forall x0, In x0 (jobs (run ops)) -> jcommitted (run ops) x0 = true -> terminal (j_state x0) = false ->
  exists x, In x (jobs (run ops)) /\ jcommitted (run ops) x = true /\
            (j_state x = Ready \/ j_state x = Creating \/ j_state x = Running).
Proof.
  intros G x0 H0 C0 T0. destruct (exists_live_nonpending (run ops) x0 (DInv_reachable ops G) H0 C0 T0) as (x & Hx & L).
  apply live_job_spec in L. exists x. tauto.
Qed.

Theorem driver_step_progress w ops x :
  verdict_ok w -> good_history ops -> has_active (run ops) ->
  In x (jobs (run ops)) -> jcommitted (run ops) x = true ->
  (j_state x = Ready \/ j_state x = Creating \/ j_state x = Running) ->
  exists o, op_for w (run ops) x = Some o /\ good_history (ops ++ [o]) /\ mu (run (ops ++ [o])) < mu (run ops) /\
            find_job (run (ops ++ [o])) (j_batch x) (j_id x) = Some (next_row w (run ops) x) /\ has_active (run (ops ++ [o])).
Proof.
  intros W G A Hx Cx M. pose proof (DInv_reachable ops G) as D.
  destruct (op_for_progress w (run ops) x W D A Hx Cx M) as (o & Eo & Go & DS & Lt).
  exists o. rewrite run_snoc. split; [exact Eo|]. split; [|split; [exact Lt|split; [|exact (dstep_active _ _ _ _ DS A)]]].
  - unfold good_history. apply good_from_app. split; [exact G|]. rewrite <- Cancel.run_run_from. cbn [good_from]. auto.
  - destruct (dstep_find_job _ _ _ _ (j_batch x) (j_id x) DS) as (h & Fh & Hhx & _). rewrite Fh, (in_find_job _ x D Hx). cbn. congruence.
Qed.

Theorem can_always_finish_bounded w ops :
  verdict_ok w -> good_history ops ->
  let ext := finish w (run ops) in
  good_history (ops ++ ext) /\
  (forall x, In x (jobs (run (ops ++ ext))) -> jcommitted (run (ops ++ ext)) x = true -> terminal (j_state x) = true) /\
  (forall bt, In bt (batches (run (ops ++ ext))) -> b_running bt = false) /\
  (forall gr, In gr (groups (run (ops ++ ext))) -> g_running gr = false) /\
  Z.of_nat (length ext) <= 2 + mu (run ops).
Proof.
  intros W G ext. destruct (can_always_finish w ops W G) as (G' & AD & Hb & Hg). fold ext in G', AD, Hb, Hg.
  split; [exact G'|]. split; [exact AD|]. split; [exact Hb|]. split; [exact Hg | apply finish_length].
Qed.

Theorem always_run_runs_history w ops b j x :
  verdict_ok w -> good_history ops ->
  find_job (run ops) b j = Some x -> j_always x = true -> jcommitted (run ops) x = true ->
  (j_state x = Pending \/ j_state x = Ready) ->
  let s' := run (ops ++ finish w (run ops)) in
  exists x' a c, find_job s' b j = Some x' /\ j_state x' = w b j /\ j_attempt x' = Some a /\ a <> -1 /\
                 find_attempt s' b j a = Some c.
Proof.
  intros W G F Al C St s'. pose proof (DInv_reachable ops G) as D. pose proof (DAux_run ops) as A.
  destruct (always_run_runs w (run ops) b j x W D A F Al C St) as (x' & a & F' & Es & Ea & Na).
  destruct (can_always_finish w ops W G) as (G' & _).
  assert (E : s' = run_from (run ops) (finish w (run ops))) by (subst s'; apply Cancel.run_app).
  rewrite <- E in F'.
  pose proof (find_jkey_sound _ _ _ _ F') as (Hx' & B' & J').
  assert (L : legal_history (ops ++ finish w (run ops))) by (apply Pick.good_from_legal; exact G').
  pose proof (Attempts.current_attempt_exists _ L x' Hx') as Hc. rewrite Ea, B', J' in Hc. destruct Hc as (c & Fc & _).
  exists x', a, c. auto.
Qed.

Lemma finish_demo :
  good_history stuck_history /\
  map job_view (jobs (run stuck_history)) = [(1, Running, false, Some 1); (2, Pending, false, None); (3, Pending, true, None)] /\
  group_cancelled (run stuck_history) 1 1 = true /\
  finish all_succeed (run stuck_history) =
    [MarkComplete 1 1 1 1 Success None (Some 0) 0; MarkComplete 1 2 (-1) (-1) Cancelled None None 0;
     ScheduleJob 1 3 2 1; MarkComplete 1 3 2 1 Success None (Some 0) 0] /\
  let s := run (stuck_history ++ finish all_succeed (run stuck_history)) in
  map job_view (jobs s) = [(1, Success, false, Some 1); (2, Cancelled, false, None); (3, Success, true, Some 2)] /\
  map b_running (batches s) = [false].
Proof.
  split; [exact stuck_history_good|]. destruct stuck_state as (A & B & _). destruct stuck_finish as (C & D & E & _).
  split; [exact A|]. split; [exact B|]. split; [exact C|]. split; [exact D | exact E].
Qed.
