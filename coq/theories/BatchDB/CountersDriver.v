(** C01 — [CInv] is preserved by the driver/worker transactions (schedule, unschedule, creating, started, complete,
    instance deactivation), by the transactions that do not touch the counters, and by the two clean-up loops. *)
From HailV Require Import BatchDB.StepFrame.
From HailV Require Import Common.Prelude BatchDB.Model BatchDB.Tables BatchDB.CMap BatchDB.JobsWF BatchDB.StepCore BatchDB.JobFold
  BatchDB.Legal BatchDB.DepsDef BatchDB.CountersAlg BatchDB.CountersInv.
From RecordUpdate Require Import RecordSet.
Import RecordSetNotations.
Open Scope Z_scope.

(* ------------------------------------------------------------------ generic transfers *)

Lemma ceq_same_core s s' : StepFrame.same_core s s' -> ceq s s'.
Proof.
  intros C. constructor; try apply C. intros b. apply (sc_batch_user _ _ C).
Qed.

Lemma CInv_same_core s s' : StepFrame.same_core s s' -> CInv s -> CInv s'.
Proof. intros C. apply CInv_ceq, ceq_same_core, C. Qed.

Lemma batch_user_map_batches s (f : batch -> batch) b :
  (forall x, b_id (f x) = b_id x /\ b_user (f x) = b_user x) ->
  batch_user (s <| batches ::= map f |>) b = batch_user s b.
Proof.
  intros Hf. unfold batch_user, find_batch. cbn [batches set]. cbn.
  induction (batches s) as [|x l IH]; [reflexivity|]. cbn [map find].
  destruct (Hf x) as [E1 E2]. rewrite E1. destruct (b_id x =? b); [exact E2 | exact IH].
Qed.

Lemma ceq_groups s f : ceq s (s <| groups ::= f |>).
Proof. constructor; reflexivity. Qed.
Lemma ceq_insts s f : ceq s (s <| insts ::= f |>).
Proof. constructor; reflexivity. Qed.
Lemma ceq_batches_map s f :
  (forall x, b_id (f x) = b_id x /\ b_user (f x) = b_user x) -> ceq s (s <| batches ::= map f |>).
Proof. intros Hf. constructor; try reflexivity. intros b. apply batch_user_map_batches. exact Hf. Qed.

Lemma static_state_attempt x st att : static x (x <| j_state := st |> <| j_attempt := att |>).
Proof. destruct x; repeat split. Qed.

(** the common pattern of the job messages: attempt bookkeeping that keeps the core tables, then one row update *)
Lemma CInv_core_update s s1 x n :
  Kjobs s -> CInv s -> StepFrame.same_core s s1 -> In x (jobs s) -> jcommitted s x = true -> static x n ->
  CInv (update_job s1 x n).
Proof.
  intros K C Sc Hx Hc St. apply CInv_update_job.
  - unfold Kjobs. rewrite (sc_jobs _ _ Sc). exact K.
  - rewrite (sc_jobs _ _ Sc). exact Hx.
  - exact St.
  - unfold jcommitted. rewrite (committed_ext s s1) by apply (sc_updates _ _ Sc). exact Hc.
  - apply (CInv_same_core s); assumption.
Qed.

Lemma job_committed_found s b j x : job_committed s b j = true -> find_job s b j = Some x -> In x (jobs s) /\ jcommitted s x = true.
Proof.
  unfold job_committed, jcommitted. intros H F. rewrite F in H.
  apply find_jkey_sound in F. destruct F as (Hin & <- & _). split; assumption.
Qed.

(* ------------------------------------------------------------------ schedule / creating / started / unschedule *)

Lemma CInv_schedule s b j a i :
  Kjobs s -> CInv s -> job_committed s b j = true -> CInv (fst (do_schedule s b j a i)).
Proof.
  intros K C L. destruct (do_schedule_shape s b j a i) as [Sc | (x & s1 & Fx & Sc & _ & _ & E)].
  - apply (CInv_same_core s); assumption.
  - rewrite E. destruct (job_committed_found _ _ _ _ L Fx) as [Hx Hc].
    apply (CInv_core_update s); auto. apply static_state_attempt.
Qed.

Lemma CInv_creating_started c s b j a i t :
  Kjobs s -> CInv s -> job_committed s b j = true -> CInv (fst (do_mark_creating_or_started c s b j a i t)).
Proof.
  intros K C L. destruct (do_mcs_shape c s b j a i t) as [Sc | (x & s1 & Fx & Sc & _ & _ & E)].
  - apply (CInv_same_core s); assumption.
  - rewrite E. destruct (job_committed_found _ _ _ _ L Fx) as [Hx Hc].
    apply (CInv_core_update s); auto. apply static_state_attempt.
Qed.

Lemma do_unschedule_shape s b j a i t reason :
  let s' := fst (do_unschedule s b j a i t reason) in
  StepFrame.same_core s s' \/
  exists x s2, find_job s b j = Some x /\ StepFrame.same_core s s2 /\
               s' = update_job s2 x (x <| j_state := Ready |> <| j_attempt := None |>).
Proof.
  cbv zeta. unfold do_unschedule. destruct (find_job s b j) as [x|] eqn:Fx.
  2:{ left. match goal with |- context [if ?c then _ else _] => destruct c end; apply StepFrame.same_core_refl. }
  cbv zeta.
  match goal with |- context [update_job ?st x _] => set (s2 := st) end.
  assert (C : StepFrame.same_core s s2).
  { subst s2. destruct (find_attempt s b j a) as [c|].
    - match goal with |- context [if ?c then _ else _] => destruct c end; [|apply same_core_update_attempt].
      match goal with |- context [match ?c with Some _ => _ | None => _ end] => destruct c end; [|apply same_core_update_attempt].
      eapply StepFrame.same_core_trans; [apply same_core_update_attempt | apply same_core_insts].
    - match goal with |- context [if ?c then _ else _] => destruct c end; [|apply StepFrame.same_core_refl].
      match goal with |- context [match ?c with Some _ => _ | None => _ end] => destruct c end;
        [apply same_core_insts | apply StepFrame.same_core_refl]. }
  match goal with |- context [if ?c then _ else _] => destruct c end; cbn [fst].
  - right. exists x, s2. auto.
  - left. exact C.
Qed.

Lemma CInv_unschedule s b j a i t r :
  Kjobs s -> CInv s -> job_committed s b j = true -> CInv (fst (do_unschedule s b j a i t r)).
Proof.
  intros K C L. destruct (do_unschedule_shape s b j a i t r) as [Sc | (x & s1 & Fx & Sc & E)].
  - apply (CInv_same_core s); assumption.
  - rewrite E. destruct (job_committed_found _ _ _ _ L Fx) as [Hx Hc].
    apply (CInv_core_update s); auto. apply static_state_attempt.
Qed.

(* ------------------------------------------------------------------ mark_job_complete *)

Lemma CInv_release_children s b j succ :
  Kjobs s -> CInv s -> Kjobs (release_children s b j succ) /\ CInv (release_children s b j succ).
Proof.
  unfold release_children. cbv zeta.
  match goal with |- context [fold_left ?f ?l s] => set (step := f); generalize l end.
  intros kids. intros K C.
  assert (G : forall st, updates st = updates s -> Kjobs st -> CInv st ->
              Kjobs (fold_left step kids st) /\ CInv (fold_left step kids st)).
  { induction kids as [|c kids IH]; intros st U Kst Cst; cbn [fold_left]; [split; assumption|].
    assert (H : updates (step st c) = updates s /\ Kjobs (step st c) /\ CInv (step st c)).
    { subst step. cbv beta. destruct (find_job st b c) as [x|] eqn:Fx; [|auto].
      match goal with |- context [if negb ?cm then _ else _] => destruct cm eqn:Cm end; cbn [negb]; [|auto].
      split; [rewrite update_job_updates; exact U|]. split; [apply Kjobs_update_job; exact Kst|].
      apply find_jkey_sound in Fx. destruct Fx as (Hx & Eb & _).
      apply CInv_update_job; auto.
      - destruct x; repeat split.
      - unfold jcommitted, committed, find_update. rewrite U, Eb. exact Cm. }
    destruct H as (U' & K' & C'). apply IH; assumption. }
  apply G; auto.
Qed.

Lemma CInv_mc_finish s3 x b j a ns total :
  Kjobs s3 -> CInv s3 -> In x (jobs s3) -> jcommitted s3 x = true ->
  CInv (mc_finish s3 x b j a ns total).
Proof.
  intros K C Hx Hc. unfold mc_finish. cbv zeta.
  set (s4 := update_job s3 x _).
  assert (C4 : CInv s4) by (apply CInv_update_job; auto; apply static_state_attempt).
  assert (K4 : Kjobs s4) by (apply Kjobs_update_job; exact K).
  match goal with |- CInv (release_children ?s7 _ _ _) => assert (E7 : ceq s4 s7 /\ jobs s7 = jobs s4) end.
  { unfold finish_groups. split; [|match goal with |- context [if ?c then _ else _] => destruct c end; reflexivity].
    eapply ceq_trans; [|apply ceq_groups].
    match goal with |- context [if ?c then _ else _] => destruct c end; [|apply ceq_groups].
    eapply ceq_trans; [apply ceq_groups | apply ceq_batches_map].
    intros bt. destruct (b_id bt =? b); split; reflexivity. }
  destruct E7 as [E7 J7].
  apply CInv_release_children.
  - unfold Kjobs. rewrite J7. exact K4.
  - apply (CInv_ceq s4); assumption.
Qed.

Lemma CInv_mark_complete s b j a i ns st en r :
  Kjobs s -> CInv s -> job_committed s b j = true -> CInv (fst (do_mark_complete s b j a i ns st en r)).
Proof.
  intros K C L. destruct (do_mark_complete_shape s b j a i ns st en r) as [Sc | (x & s3 & Fx & Sc & _ & E)].
  - apply (CInv_same_core s); assumption.
  - rewrite E. destruct (job_committed_found _ _ _ _ L Fx) as [Hx Hc].
    apply CInv_mc_finish.
    + unfold Kjobs. rewrite (sc_jobs _ _ Sc). exact K.
    + apply (CInv_same_core s); assumption.
    + rewrite (sc_jobs _ _ Sc). exact Hx.
    + unfold jcommitted. rewrite (committed_ext s s3) by apply (sc_updates _ _ Sc). exact Hc.
Qed.

(* ------------------------------------------------------------------ deactivate_instance *)

Lemma CInv_deactivate s name reason time :
  DInv s -> CInv s -> CInv (fst (do_deactivate s name reason time)).
Proof.
  intros D C. unfold do_deactivate. destruct (find_inst s name) as [x|]; [|exact C].
  destruct (ilive (i_state x)); [|exact C]. cbn [fst].
  match goal with |- context [fold_left ?g (jobs ?s1) ?s1] => set (s1' := s1); set (g' := g) end.
  assert (Sc : StepFrame.same_core s s1').
  { subst s1'. apply StepFrame.same_core_fold. intros st a. destruct (a_inst a =? name); [|apply StepFrame.same_core_refl].
    destruct (find_attempt _ _ _ _); [apply same_core_update_attempt | apply StepFrame.same_core_refl]. }
  apply (CInv_ceq (fold_left g' (jobs s1') s1')); [apply ceq_insts|].
  set (I := fun st => Kjobs st /\ CInv st /\ updates st = updates s).
  set (P := fun y : job => In y (jobs s)).
  assert (HI : I (fold_left g' (jobs s1') s1')).
  { apply (fold_rows_inv I P g').
    - intros st y Py (Kst & Cst & Ust) Hy. subst g'. cbv beta.
      destruct (j_attempt y) as [at0|] eqn:Ay; [|left; reflexivity].
      destruct (find_attempt st _ _ _); [|left; reflexivity].
      match goal with |- context [if ?c then _ else _] => destruct c end; [|left; reflexivity].
      right. eexists. split; [reflexivity|]. split; [apply static_state_attempt|].
      split; [apply Kjobs_update_job; exact Kst|]. split; [|rewrite update_job_updates; exact Ust].
      apply CInv_update_job; auto; [apply static_state_attempt|].
      (* a job with an attempt belongs to a committed update *)
      pose proof (d_jobs _ D y Py) as Ok. unfold job_ok in Ok.
      unfold jcommitted in *. rewrite <- (committed_ext s st (j_batch y) (j_update y) Ust) in Ok.
      destruct (committed st (j_batch y) (j_update y)); [reflexivity|]. destruct Ok as [Na _]. congruence.
    - rewrite (sc_jobs _ _ Sc). apply (d_jkeys _ D).
    - intros y Hy. rewrite (sc_jobs _ _ Sc) in Hy. split; [exact Hy|]. rewrite (sc_jobs _ _ Sc). exact Hy.
    - split; [unfold Kjobs; rewrite (sc_jobs _ _ Sc); apply (d_jkeys _ D)|].
      split; [apply (CInv_same_core s); assumption | apply (sc_updates _ _ Sc)]. }
  apply HI.
Qed.

(* ------------------------------------------------------------------ the clean-up loops *)

Lemma CInv_cleanup_cancellable s : CInv s -> CInv (fst (do_cleanup_cancellable s)).
Proof.
  intros [C1 C2 C3 C4 C5 C6 C7 C8]. unfold do_cleanup_cancellable. cbn [fst].
  set (keep := fun k : list Z => match k with [b; _; g; _] => negb (group_cancelled s b g) | _ => true end).
  constructor; try assumption.
  - cbn. apply shaped_filter. exact C1.
  - apply (AInv_ext s); [reflexivity | exact C3].
  - intros b g Hg Q i.
    change (group_cancelled _ b g) with (group_cancelled s b g) in Hg.
    change (cval (gsel b g Q) i (filter (fun kv => keep (fst kv)) (cancellable s)) = zsum (gw s b g Q i) (jobs s)).
    unfold cval. rewrite csum_filter. rewrite (csum_ext _ (gsel b g Q)); [apply (C7 b g Hg Q i)|].
    intros k. unfold gsel, keep. destruct k as [|b' [|u' [|g' [|ic' [|]]]]]; try reflexivity.
    destruct (b' =? b) eqn:Eb; cbn [andb]; [|reflexivity]. destruct (g' =? g) eqn:Eg; cbn [andb]; [|reflexivity].
    replace b' with b by lia. replace g' with g by lia. rewrite Hg. cbn [negb]. apply andb_true_r.
Qed.

Lemma CInv_cleanup_staging s : CInv s -> CInv (fst (do_cleanup_staging s)).
Proof.
  intros [C1 C2 C3 C4 C5 C6 C7 C8]. unfold do_cleanup_staging. cbn [fst].
  set (keep := fun k : list Z => match k with [b; u; _; _] => negb (committed s b u) | _ => true end).
  constructor; try assumption.
  - cbn. apply shaped_filter. exact C2.
  - apply (AInv_ext s); [reflexivity | exact C3].
  - intros b u ic i Hu.
    change (committed _ b u) with (committed s b u) in Hu.
    change (cval (key_eqb [b; u; 0; ic]) i (filter (fun kv => keep (fst kv)) (staging s)) = zsum (sw b u ic i) (jobs s)).
    unfold cval. rewrite csum_filter. rewrite (csum_ext _ (key_eqb [b; u; 0; ic])); [apply (C8 b u ic i Hu)|].
    intros k. destruct (key_eqb [b; u; 0; ic] k) eqn:E; [|reflexivity].
    apply key_eqb_eq in E. subst k. unfold keep. rewrite Hu. reflexivity.
Qed.
