(** Environment assumptions of the batch-database theorems (DESIGN §5.A).

    The properties quantify over histories of client requests, driver loops and worker reports of the
    real service.  Client requests are arbitrary (the model validates them like the front end does).
    Driver and worker messages are not arbitrary: the driver only acts on jobs it selected, workers only
    report on attempts they were given.  [legalb s o] says that [o] is such a message in state [s]:

    - job-directed driver/worker messages name an existing job of a COMMITTED update
      (the scheduler and the canceller select jobs of running groups in state Ready/Creating/Running;
       checked on the implementation by the oracle on scheduler_pick / canceller_pick);
    - a message about an existing attempt names the instance that attempt was created on;
      an unschedule names an existing attempt;
    - a schedule / creating message creates a fresh attempt or repeats an earlier message verbatim;
    - a completion is to a terminal state, and a completion reported by a worker (it names an instance)
      carries an end time;
    - updates of a batch are committed in update order (commit of update u finds all earlier updates
      committed).  Without this the unchanged scheduler can pick a Ready job of an uncommitted first
      update once a later update made the batch running — recorded as an open finding of C41. *)
From HailV Require Import Common.Prelude BatchDB.Model.
Open Scope Z_scope.

Definition committed (s : state) (b u : Z) : bool :=
  match find_update s b u with Some x => u_committed x | None => false end.

Definition job_committed (s : state) (b j : Z) : bool :=
  match find_job s b j with Some x => committed s b (j_update x) | None => false end.

Definition earlier_committed (s : state) (b u : Z) : bool :=
  forallb (fun x => negb (u_batch x =? b) || negb (u_id x <? u) || u_committed x) (updates s).

(* the attempt does not exist yet, or lives on instance [i] *)
Definition attempt_on (s : state) (b j a i : Z) : bool :=
  match find_attempt s b j a with Some c => a_inst c =? i | None => true end.

Definition attempt_exists_on (s : state) (b j a i : Z) : bool :=
  match find_attempt s b j a with Some c => a_inst c =? i | None => false end.

Definition legalb (s : state) (o : op) : bool :=
  match o with
  | ScheduleJob b j a i => job_committed s b j && attempt_on s b j a i
  | MarkCreating b j a i _ => job_committed s b j && attempt_on s b j a i
  | MarkStarted b j a i _ => job_committed s b j && attempt_on s b j a i
  | UnscheduleJob b j a i _ _ => job_committed s b j && attempt_exists_on s b j a i
  | MarkComplete b j a i ns _ en _ =>
      job_committed s b j && terminal ns
      && ((a =? -1) || attempt_on s b j a i)
      && ((i =? -1) || match en with Some _ => true | None => false end)
  | Commit b u _ => earlier_committed s b u
  | _ => true
  end.

Definition legal (s : state) (o : op) : Prop := legalb s o = true.

(** A history all of whose ops are legal in the state in which they are executed. *)
Fixpoint legal_from (s : state) (ops : list op) : Prop :=
  match ops with
  | [] => True
  | o :: r => legal s o /\ legal_from (fst (step s o)) r
  end.

Definition legal_history (ops : list op) : Prop := legal_from init ops.

(** Induction principle: an invariant that holds initially and is preserved by legal steps holds after
    every legal history. *)
Lemma legal_invariant (P : state -> Prop) :
  P init ->
  (forall s o, P s -> legal s o -> P (fst (step s o))) ->
  forall ops, legal_history ops -> P (run ops).
Proof.
  intros H0 Hstep ops. unfold legal_history, run.
  generalize init H0. induction ops as [|o r IH]; intros s Hs Hl; cbn [fold_left legal_from] in *.
  - exact Hs.
  - destruct Hl as [Hlo Hlr]. apply IH; [apply Hstep; assumption | exact Hlr].
Qed.

(** The same for an invariant that needs no legality. *)
Lemma run_invariant (P : state -> Prop) :
  P init -> (forall s o, P s -> P (fst (step s o))) -> forall ops, P (run ops).
Proof.
  intros H0 Hstep ops. unfold run. generalize init H0.
  induction ops as [|o r IH]; intros s Hs; cbn [fold_left]; [exact Hs | apply IH, Hstep, Hs].
Qed.
