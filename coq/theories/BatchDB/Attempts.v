(** C39, safety half: a job has at most one current attempt, and a stale attempt cannot move it.

    (A) [KInv]: job rows and attempt rows are keyed, the attempt a job names as current ([j_attempt]) is an existing
        attempt row of that job, and a job in state Creating/Running names one.  Preserved by every legal step.
    (B) A completion or an unschedule that carries an attempt id other than the job's current one changes no job row
        (and is answered rc 2 / rc 1) — from ANY state, no invariant needed.
    (C) Terminal states are absorbing (needs the update-range discipline for Commit, [TInv]).
    The liveness half of C39 is not proved here (fairness of the real loops). *)
From HailV Require Import Common.Prelude BatchDB.Model BatchDB.Tables BatchDB.Legal BatchDB.Cores.
From RecordUpdate Require Import RecordSet.
Import RecordSetNotations.
Open Scope Z_scope.

(* ------------------------------------------------------------------ definitions *)

Definition cur_exists (s : state) (x : job) : Prop :=
  match j_attempt x with Some a => In (j_batch x, j_id x, a) (map ak (attempts s)) | None => True end.
Definition active (x : job) : Prop := j_state x = Creating \/ j_state x = Running.
Definition Good (s : state) (x : job) : Prop := cur_exists s x /\ (active x -> j_attempt x <> None).
Definition KInv (s : state) : Prop := JU s /\ AU s /\ forall x, In x (jobs s) -> Good s x.

Definition aext (s s' : state) : Prop := incl (map ak (attempts s)) (map ak (attempts s')).

Lemma in_ak_find l b j a : In (b, j, a) (map ak l) -> exists c, find (akey b j a) l = Some c.
Proof.
  induction l as [|x l IH]; cbn [map In find]; [intros []|]. intros [H|H].
  - assert (E : akey b j a x = true) by (apply akey_ak; exact H). rewrite E. eauto.
  - destruct (akey b j a x); [eauto | apply IH; exact H].
Qed.

Lemma Good_mono s s' x : aext s s' -> Good s x -> Good s' x.
Proof.
  intros He [H1 H2]. split; [|exact H2]. unfold cur_exists in *. destruct (j_attempt x); [apply He; exact H1 | exact I].
Qed.

Lemma aext_refl s : aext s s. Proof. apply incl_refl. Qed.

(* ------------------------------------------------------------------ (A) primitives *)

Lemma kinv_ext s s' : KInv s -> jobs s' = jobs s -> AU s' -> aext s s' -> KInv s'.
Proof.
  intros (Hj & Ha & Hg) Ej Ha' He. repeat split.
  - unfold JU; rewrite Ej; exact Hj.
  - exact Ha'.
  - apply (Good_mono s s' x He). apply Hg. rewrite <- Ej. exact H.
  - apply (Good_mono s s' x He). apply Hg. rewrite <- Ej. exact H.
Qed.

Lemma kinv_same s s' : KInv s -> jobs s' = jobs s -> attempts s' = attempts s -> KInv s'.
Proof.
  intros HK Ej Ea. apply (kinv_ext s s' HK Ej); [unfold AU; rewrite Ea; apply HK | unfold aext; rewrite Ea; apply incl_refl].
Qed.

Lemma kinv_core_same s s' : KInv s -> core_same s s' -> KInv s'.
Proof. intros HK (A & B & _). apply (kinv_same s s' HK A B). Qed.

Lemma kinv_update_job s o n : KInv s -> Good s n -> KInv (update_job s o n).
Proof.
  intros (Hj & Ha & Hg) Hn. unfold KInv, JU, AU. rewrite update_job_jobs, update_job_attempts, replace_job_jk.
  repeat split; try assumption.
  - destruct (in_replace_job _ _ _ H) as [->|Hy]; [|apply Hg in Hy].
    + destruct Hn as [Hn _]. unfold cur_exists in *. rewrite update_job_attempts. exact Hn.
    + destruct Hy as [Hy _]. unfold cur_exists in *. rewrite update_job_attempts. exact Hy.
  - destruct (in_replace_job _ _ _ H) as [->|Hy]; [apply Hn | apply Hg in Hy; apply Hy].
Qed.

Lemma kinv_update_attempt s c req : KInv s -> KInv (update_attempt s c req).
Proof.
  intros HK. pose proof (update_attempt_frame s c req) as F. cbv zeta in F.
  destruct F as (_&_&_&_&_&Fj&_&_&_&_&Fa&_).
  apply (kinv_ext s _ HK Fj).
  - unfold AU. rewrite Fa, replace_attempt_ak. apply HK.
  - unfold aext. rewrite Fa, replace_attempt_ak. apply incl_refl.
Qed.

Lemma update_attempt_jobs s c req : jobs (update_attempt s c req) = jobs s.
Proof. pose proof (update_attempt_frame s c req) as F. cbv zeta in F. apply F. Qed.

Lemma update_attempt_ak s c req : map ak (attempts (update_attempt s c req)) = map ak (attempts s).
Proof.
  pose proof (update_attempt_frame s c req) as F. cbv zeta in F.
  destruct F as (_&_&_&_&_&_&_&_&_&_&Fa&_). rewrite Fa. apply replace_attempt_ak.
Qed.

Lemma add_attempt_kinv s b j a i c s1 d :
  KInv s -> add_attempt s b j a i c = Some (s1, d) ->
  KInv s1 /\ jobs s1 = jobs s /\ In (b, j, a) (map ak (attempts s1)).
Proof.
  intros HK H. unfold add_attempt in H. destruct (find_attempt s b j a) as [c0|] eqn:Ef.
  - injection H as <- <-. split; [exact HK|]. split; [reflexivity|].
    apply find_akey_sound in Ef. destruct Ef as [Hin Hk]. rewrite <- Hk. apply in_map; exact Hin.
  - cbv zeta in H.
    set (n := mkAttempt b j a i None None None None) in *.
    assert (K0 : forall s0, jobs s0 = jobs s -> attempts s0 = attempts s ++ [n] ->
                 KInv s0 /\ jobs s0 = jobs s /\ In (b, j, a) (map ak (attempts s0))).
    { intros s0 Ej Ea. split; [|split; [exact Ej|]].
      - apply (kinv_ext s s0 HK Ej).
        + unfold AU. rewrite Ea, map_app. cbn [map]. apply NoDup_snoc; [apply HK|].
          rewrite find_attempt_eq in Ef. apply find_akey_none in Ef. exact Ef.
        + unfold aext. rewrite Ea, map_app. apply incl_appl, incl_refl.
      - rewrite Ea, map_app. apply in_app_iff. right. left. reflexivity. }
    repeat bm_in H; try discriminate; injection H as <- <-; apply K0; reflexivity.
Qed.

Lemma find_job_key s b j x : find_job s b j = Some x -> j_batch x = b /\ j_id x = j.
Proof. intros H. apply find_job_in in H. tauto. Qed.

(* ------------------------------------------------------------------ (A) the ops *)

Lemma do_create_jobs_shape s b u user jss :
  jobs (fst (do_create_jobs s b u user jss)) = jobs s \/
  (exists news, jobs (fst (do_create_jobs s b u user jss)) = jobs s ++ news /\
                forall y, In y news -> j_attempt y = None /\ (j_state y = Ready \/ j_state y = Pending)).
Proof.
  unfold do_create_jobs.
  destruct (is_nil jss); [left; reflexivity|].
  destruct (find_update s b u) as [up|]; [|left; reflexivity].
  destruct (find_batch s b) as [bt|]; [|left; reflexivity].
  destruct (negb (b_user bt =? user) || b_deleted bt); [left; reflexivity|].
  destruct (u_committed up); [left; reflexivity|].
  cbv zeta. destruct jss as [|j0 jss0]; [left; reflexivity|].
  set (jss := j0 :: jss0).
  set (js := map (job_of_spec b u (u_start_job up) (u_start_group up)) jss).
  destruct (negb (contiguous (map js_id jss))); [left; reflexivity|].
  destruct (negb (forallb (spec_ok s b up) jss)); [left; reflexivity|].
  pose proof (insert_verdict_range s b (map fst js) []) as R. cbv zeta in R.
  destruct R as [V|[V|[V|V]]]; rewrite V; try (left; reflexivity).
  destruct (existsb (fun jp => has_dup (snd jp)) js); [left; reflexivity|].
  cbn [fst]. right. exists (map fst js). split.
  - match goal with |- jobs (fold_left stage_job ?l ?s1) = _ =>
      destruct (fold_core_same stage_job l s1 stage_job_same) as (E & _) end.
    rewrite E. reflexivity.
  - intros y Hy. apply in_map_iff in Hy. destruct Hy as (jp & <- & Hjp).
    apply in_map_iff in Hjp. destruct Hjp as (sp & <- & _). unfold job_of_spec. cbn [fst j_attempt j_state].
    split; [reflexivity|]. destruct (_ && _); auto.
Qed.

Lemma do_create_jobs_kinv s b u user jss : KInv s -> KInv (fst (do_create_jobs s b u user jss)).
Proof.
  intros HK. pose proof (do_create_jobs_jext s b u user jss (proj1 HK)) as (Ea & _ & Hju & _).
  destruct (do_create_jobs_shape s b u user jss) as [E|(news & E & Hn)].
  - apply (kinv_same s _ HK E Ea).
  - destruct HK as (Hj & Ha & Hg). repeat split.
    + exact Hju.
    + unfold AU. rewrite Ea. exact Ha.
    + rewrite E in H. unfold cur_exists. apply in_app_iff in H. destruct H as [H|H].
      * rewrite Ea. apply Hg; exact H.
      * destruct (Hn x H) as [-> _]. exact I.
    + rewrite E in H. apply in_app_iff in H. destruct H as [H|H]; [apply Hg; exact H|].
      destruct (Hn x H) as [_ Hs]. intros [Hc|Hc]; destruct Hs; congruence.
Qed.

Lemma do_commit_proc_kinv s b u : KInv s -> KInv (fst (do_commit_proc s b u)).
Proof.
  intros HK. unfold do_commit_proc.
  destruct (find_update s b u) as [up|]; [|exact HK].
  destruct (u_committed up); [exact HK|]. cbv zeta.
  destruct (negb (_ =? u_njobs up)); [exact HK|].
  destruct (negb (0 <? u_njobs up)); [apply (kinv_core_same s _ HK); repeat split|].
  match goal with |- context [fold_left ?f (staging s) ?s3] =>
    assert (C4 : core_same s (fold_left f (staging s) s3)); [|set (s4 := fold_left f (staging s) s3) in *] end.
  { eapply core_same_trans; [|apply fold_core_same; intros st kv; repeat bm; repeat split]. repeat split. }
  pose proof (kinv_core_same s s4 HK C4) as K4. clearbody s4.
  destruct (u =? 1); [exact K4|]. cbn [fst].
  assert (P : forall st, KInv st /\ attempts st = attempts s4 -> KInv st) by tauto. apply P. clear P.
  apply fold_left_pres; [|split; [exact K4 | reflexivity]].
  intros st on [Kst Ea] Hon. apply in_map_iff in Hon. destruct Hon as (x & <- & Hx). cbn [fst snd].
  apply filter_In in Hx. destruct Hx as [Hx _]. split; [|rewrite update_job_attempts; exact Ea].
  apply kinv_update_job; [exact Kst|].
  destruct K4 as (_ & _ & Hg). destruct (Hg x Hx) as [G1 _]. split.
  - unfold cur_exists in *. change (j_attempt (recompute_job s4 x)) with (j_attempt x).
    change (j_batch (recompute_job s4 x)) with (j_batch x). change (j_id (recompute_job s4 x)) with (j_id x).
    rewrite Ea. exact G1.
  - intros [Hc|Hc]; unfold recompute_job in Hc; cbn in Hc; destruct (_ =? 0); discriminate.
Qed.

Lemma do_commit_kinv s b u user : KInv s -> KInv (fst (do_commit s b u user)).
Proof. intros HK. unfold do_commit. repeat bm; try exact HK. apply do_commit_proc_kinv; exact HK. Qed.

Lemma release_children_kinv s b j succ : KInv s -> KInv (release_children s b j succ).
Proof.
  intros HK. unfold release_children. apply fold_left_pres; [|exact HK].
  intros st c Kst _. destruct (find_job st b c) as [x|] eqn:E; [|exact Kst].
  destruct (negb _); [exact Kst|]. apply kinv_update_job; [exact Kst|].
  apply find_job_in in E. destruct E as [Hin _]. destruct Kst as (_ & _ & Hg). destruct (Hg x Hin) as [G1 _].
  split; [exact G1|]. intros [Hc|Hc]; cbn in Hc; destruct (j_npp x =? 1); discriminate.
Qed.

Lemma do_new_instance_ja s n ic c p :
  jobs (fst (do_new_instance s n ic c p)) = jobs s /\ attempts (fst (do_new_instance s n ic c p)) = attempts s.
Proof. unfold do_new_instance. repeat bm; split; reflexivity. Qed.
Lemma do_activate_ja s n : jobs (fst (do_activate s n)) = jobs s /\ attempts (fst (do_activate s n)) = attempts s.
Proof. unfold do_activate. repeat bm; split; reflexivity. Qed.
Lemma do_mark_deleted_ja s n : jobs (fst (do_mark_deleted s n)) = jobs s /\ attempts (fst (do_mark_deleted s n)) = attempts s.
Proof. unfold do_mark_deleted. repeat bm; split; reflexivity. Qed.

Lemma Good_idle s x st : st <> Creating -> st <> Running -> Good s (x <| j_state := st |> <| j_attempt := None |>).
Proof. intros H1 H2. split; [exact I|]. intros [Hc|Hc]; cbn in Hc; congruence. Qed.

Lemma Good_set_attempt s x st a :
  In (j_batch x, j_id x, a) (map ak (attempts s)) -> Good s (x <| j_state := st |> <| j_attempt := Some a |>).
Proof. intros H. split; [exact H | intros _; discriminate]. Qed.

Lemma do_deactivate_kinv s name reason time : KInv s -> KInv (fst (do_deactivate s name reason time)).
Proof.
  intros HK. unfold do_deactivate. destruct (find_inst s name) as [x|]; [|exact HK].
  destruct (ilive (i_state x)); [|exact HK]. cbv zeta. cbn [fst].
  match goal with |- KInv (set insts _ ?t) => apply (kinv_same t); [|reflexivity|reflexivity] end.
  apply fold_left_pres.
  - intros st j Kst _. repeat bm; try exact Kst. apply kinv_update_job; [exact Kst|]. apply Good_idle; discriminate.
  - apply fold_left_pres; [|exact HK]. intros st a Kst _. repeat bm; try exact Kst. apply kinv_update_attempt; exact Kst.
Qed.

Lemma do_schedule_kinv s b j a i : KInv s -> KInv (fst (do_schedule s b j a i)).
Proof.
  intros HK. unfold do_schedule. destruct (find_job s b j) as [x|] eqn:Hx; [|exact HK].
  destruct (is_job_cancelled s x); [|exact HK]. cbv zeta.
  destruct (add_attempt s b j a i (j_cores x)) as [[s1 d0]|] eqn:Ea; [|exact HK].
  destruct (add_attempt_kinv _ _ _ _ _ _ _ _ HK Ea) as (K1 & J1 & Hin).
  match goal with |- context [if ?c then _ else _] => destruct c end; cbn [fst]; [|exact K1].
  apply kinv_update_job; [exact K1|]. apply Good_set_attempt.
  destruct (find_job_key _ _ _ _ Hx) as [-> ->]. exact Hin.
Qed.

Lemma set_times_kinv s b j a t :
  KInv s -> KInv (set_times s b j a t) /\ jobs (set_times s b j a t) = jobs s /\
            map ak (attempts (set_times s b j a t)) = map ak (attempts s).
Proof.
  intros HK. unfold set_times. destruct (find_attempt s b j a) as [cur|]; [|split; [exact HK | split; reflexivity]].
  split; [apply kinv_update_attempt; exact HK|]. split; [apply update_attempt_jobs | apply update_attempt_ak].
Qed.

Lemma do_mark_cs_kinv cr s b j a i t : KInv s -> KInv (fst (do_mark_creating_or_started cr s b j a i t)).
Proof.
  intros HK. unfold do_mark_creating_or_started. destruct (find_job s b j) as [x|] eqn:Hx; [|exact HK].
  destruct (is_job_cancelled s x); [|exact HK].
  destruct (add_attempt s b j a i (j_cores x)) as [[s1 d0]|] eqn:Ea; [|exact HK].
  destruct (add_attempt_kinv _ _ _ _ _ _ _ _ HK Ea) as (K1 & J1 & Hin).
  cbv zeta. destruct (set_times_kinv s1 b j a t K1) as (K2 & J2 & A2).
  match goal with |- context [if ?c then _ else _] => destruct c end; cbn [fst]; [|exact K2].
  apply kinv_update_job; [exact K2|]. apply Good_set_attempt.
  destruct (find_job_key _ _ _ _ Hx) as [-> ->]. rewrite A2. exact Hin.
Qed.

Lemma do_unschedule_kinv s b j a i t r : KInv s -> KInv (fst (do_unschedule s b j a i t r)).
Proof.
  intros HK. unfold do_unschedule. destruct (find_job s b j) as [x|] eqn:Hx; [|destruct (_ && _); exact HK].
  cbv zeta.
  set (s1 := match find_attempt s b j a with
             | Some c => update_attempt s c (c <| a_rollup := Some t |> <| a_end := Some t |> <| a_reason := Some r |>)
             | None => s end).
  assert (K1 : KInv s1) by (subst s1; destruct (find_attempt s b j a); [apply kinv_update_attempt; exact HK | exact HK]).
  clearbody s1.
  match goal with |- context [if ?cnd then (update_job ?s2 _ _, _) else _] => set (s2' := s2) end.
  assert (K2 : KInv s2').
  { subst s2'. destruct (_ && _); [|exact K1]. destruct (find_inst s1 i); [|exact K1]. apply (kinv_same s1 _ K1); reflexivity. }
  clearbody s2'.
  match goal with |- context [if ?cnd then (update_job _ _ _, _) else _] => destruct cnd end; cbn [fst]; [|exact K2].
  apply kinv_update_job; [exact K2|]. apply Good_idle; discriminate.
Qed.

Lemma do_billing_update_kinv s t atts : KInv s -> KInv (fst (do_billing_update s t atts)).
Proof.
  intros HK. unfold do_billing_update. cbn [fst]. apply fold_left_pres; [|exact HK].
  intros st [[b j] a] Kst _. destruct (find_attempt st b j a); [apply kinv_update_attempt; exact Kst | exact Kst].
Qed.

Lemma terminal_not_active ns : terminal ns = true -> ns <> Creating /\ ns <> Running.
Proof. destruct ns; cbn; intros H; try discriminate; split; discriminate. Qed.

Lemma do_mark_complete_kinv s b j a i ns st en rs :
  KInv s -> terminal ns = true -> KInv (fst (do_mark_complete s b j a i ns st en rs)).
Proof.
  intros HK Hns. unfold do_mark_complete. destruct (find_job s b j) as [x|] eqn:Hx; [|destruct (a =? -1); exact HK].
  cbv zeta.
  destruct (if a =? -1 then Some (s, 0) else add_attempt s b j a i (j_cores x)) as [[s1 d0]|] eqn:Eadd; [|exact HK].
  assert (K1 : KInv s1 /\ ((a =? -1) = false -> In (b, j, a) (map ak (attempts s1)))).
  { destruct (a =? -1).
    - injection Eadd as <- <-. split; [exact HK | discriminate].
    - destruct (add_attempt_kinv _ _ _ _ _ _ _ _ HK Eadd) as (K1 & _ & Hin). split; [exact K1 | intros _; exact Hin]. }
  destruct K1 as [K1 Hin1].
  set (cur := if a =? -1 then None else find_attempt s1 b j a).
  set (s2 := match cur with
             | Some c => update_attempt s1 c (c <| a_start := st |> <| a_rollup := en |> <| a_end := en |> <| a_reason := Some rs |>)
             | None => s1 end).
  assert (K2 : KInv s2 /\ map ak (attempts s2) = map ak (attempts s1)).
  { subst s2. destruct cur; [split; [apply kinv_update_attempt; exact K1 | apply update_attempt_ak] | split; [exact K1 | reflexivity]]. }
  destruct K2 as [K2 A2]. clearbody s2.
  match goal with |- context [if ?cnd then (?s3, ok [2; _]) else _] => set (s3' := s3) end.
  assert (K3 : KInv s3' /\ attempts s3' = attempts s2).
  { subst s3'. destruct (_ && _); [|split; [exact K2 | reflexivity]].
    destruct (find_inst s2 i); [|split; [exact K2 | reflexivity]]. split; [apply (kinv_same s2 _ K2); reflexivity | reflexivity]. }
  destruct K3 as [K3 A3]. clearbody s3'.
  repeat match goal with |- context [if ?c then (_, _) else _] => destruct c end; cbn [fst]; try exact K3.
  apply release_children_kinv.
  match goal with |- KInv (finish_groups ?s6 _ _) => apply (kinv_same (update_job s3' x (x <| j_state := ns |> <| j_attempt := (if a =? -1 then None else Some a) |>))) end.
  - apply kinv_update_job; [exact K3|]. destruct (a =? -1) eqn:Ea.
    + destruct (terminal_not_active ns Hns). apply Good_idle; assumption.
    + apply Good_set_attempt. destruct (find_job_key _ _ _ _ Hx) as [-> ->]. rewrite A3, A2. apply Hin1. reflexivity.
  - match goal with |- jobs (finish_groups (if ?c then _ else _) _ _) = _ => destruct c end; reflexivity.
  - match goal with |- attempts (finish_groups (if ?c then _ else _) _ _) = _ => destruct c end; reflexivity.
Qed.

(* ------------------------------------------------------------------ (A) step and histories *)

Lemma step_kinv s o : KInv s -> legal s o -> KInv (fst (step s o)).
Proof.
  intros HK Hl. destruct o; cbn [step].
  - apply (kinv_core_same s _ HK), do_create_batch_same.
  - apply (kinv_core_same s _ HK), do_create_update_same.
  - apply (kinv_core_same s _ HK), do_create_groups_same.
  - apply do_create_jobs_kinv; exact HK.
  - apply do_commit_kinv; exact HK.
  - apply (kinv_core_same s _ HK), do_cancel_group_same.
  - apply (kinv_core_same s _ HK), do_delete_batch_same.
  - apply (kinv_same s _ HK); apply do_new_instance_ja.
  - apply (kinv_same s _ HK); apply do_activate_ja.
  - apply do_deactivate_kinv; exact HK.
  - apply (kinv_same s _ HK); apply do_mark_deleted_ja.
  - apply do_schedule_kinv; exact HK.
  - apply do_unschedule_kinv; exact HK.
  - apply do_mark_cs_kinv; exact HK.
  - apply do_mark_cs_kinv; exact HK.
  - apply do_mark_complete_kinv; [exact HK|].
    unfold legal, legalb in Hl. rewrite !andb_true_iff in Hl. apply Hl.
  - apply (kinv_core_same s _ HK), do_add_resources_same.
  - apply do_billing_update_kinv; exact HK.
  - apply (kinv_core_same s _ HK), do_cleanup_staging_same.
  - apply (kinv_core_same s _ HK), do_cleanup_cancellable_same.
Qed.

Lemma init_kinv : KInv init.
Proof. repeat split; try apply NoDup_nil; destruct H. Qed.

Theorem kinv_reachable ops : legal_history ops -> KInv (run ops).
Proof. apply (legal_invariant KInv); [exact init_kinv | exact step_kinv]. Qed.

(** The statement in terms of lookups: the current attempt of every job is a row of the attempts table with the
    job's key, and a Creating/Running job has one. *)
Theorem current_attempt_exists ops : legal_history ops ->
  forall x, In x (jobs (run ops)) ->
  match j_attempt x with
  | None => j_state x <> Creating /\ j_state x <> Running
  | Some a => exists c, find_attempt (run ops) (j_batch x) (j_id x) a = Some c /\
                        a_batch c = j_batch x /\ a_job c = j_id x /\ a_id c = a
  end.
Proof.
  intros Hl x Hx. destruct (kinv_reachable ops Hl) as (_ & _ & Hg). destruct (Hg x Hx) as [G1 G2].
  unfold cur_exists, active in *. destruct (j_attempt x) as [a|].
  - destruct (in_ak_find _ _ _ _ G1) as (c & Hc). exists c. split; [exact Hc|].
    apply find_attempt_in in Hc. tauto.
  - split; intros E; apply G2; auto.
Qed.

(** At most one attempt row is the current attempt of a job, and a job has one row. *)
Theorem single_current_attempt ops : legal_history ops ->
  let s := run ops in
  (forall x y, In x (jobs s) -> In y (jobs s) -> j_batch x = j_batch y -> j_id x = j_id y -> x = y) /\
  (forall x c1 c2, In x (jobs s) -> In c1 (attempts s) -> In c2 (attempts s) ->
     (a_batch c1 = j_batch x /\ a_job c1 = j_id x /\ j_attempt x = Some (a_id c1)) ->
     (a_batch c2 = j_batch x /\ a_job c2 = j_id x /\ j_attempt x = Some (a_id c2)) -> c1 = c2).
Proof.
  intros Hl s. destruct (kinv_reachable ops Hl) as (Hj & Ha & _). fold s in Hj, Ha. split.
  - intros x y Hx Hy E1 E2. pose proof (find_jkey_unique _ x Hj Hx) as F1. pose proof (find_jkey_unique _ y Hj Hy) as F2.
    rewrite E1, E2 in F1. congruence.
  - intros x c1 c2 _ H1 H2 (B1 & J1 & A1) (B2 & J2 & A2).
    pose proof (find_akey_unique _ c1 Ha H1) as F1. pose proof (find_akey_unique _ c2 Ha H2) as F2.
    assert (E : a_id c1 = a_id c2) by congruence. rewrite B1, J1, E in F1. rewrite B2, J2 in F2. congruence.
Qed.

(* ------------------------------------------------------------------ (B) stale messages do not move the job *)

Definition jgb (s : state) := (jobs s, groups s, batches s).

Lemma add_attempt_jgb s b j a i c s1 d : add_attempt s b j a i c = Some (s1, d) -> jgb s1 = jgb s.
Proof.
  unfold add_attempt. intros H. repeat bm_in H; try discriminate; injection H as <- <-; reflexivity.
Qed.

Lemma update_attempt_jgb s c req : jgb (update_attempt s c req) = jgb s.
Proof.
  pose proof (update_attempt_frame s c req) as F. cbv zeta in F. destruct F as (F1&_&F3&_&_&F6&_).
  unfold jgb. rewrite F1, F3, F6. reflexivity.
Qed.

(** A completion carrying attempt id [a] for a job whose current attempt is another one [e] changes no job, group or
    batch row and is answered rc 2 (or error 1452 when the named instance does not exist). *)
Theorem stale_complete_ignored s b j a i ns st en rs x e :
  find_job s b j = Some x -> j_attempt x = Some e -> a <> -1 -> e <> a ->
  let r := step s (MarkComplete b j a i ns st en rs) in
  jgb (fst r) = jgb s /\ (snd r = sql_error 1452 \/ exists d, snd r = ok [2; d]).
Proof.
  intros Hx He Ha Hne. cbn [step]. unfold do_mark_complete. rewrite Hx. cbv zeta.
  assert (Ea : (a =? -1) = false) by (apply Z.eqb_neq; exact Ha). rewrite Ea.
  destruct (add_attempt s b j a i (j_cores x)) as [[s1 d0]|] eqn:Eadd; [|split; [reflexivity | left; reflexivity]].
  rewrite He. assert (Es : (e =? a) = false) by (apply Z.eqb_neq; exact Hne). rewrite Es. cbn [negb andb fst snd].
  split; [|right; eexists; reflexivity].
  pose proof (add_attempt_jgb _ _ _ _ _ _ _ _ Eadd) as J1. rewrite <- J1.
  set (s2 := match find_attempt s1 b j a with
             | Some c => update_attempt s1 c (c <| a_start := st |> <| a_rollup := en |> <| a_end := en |> <| a_reason := Some rs |>)
             | None => s1 end).
  assert (J2 : jgb s2 = jgb s1) by (subst s2; destruct (find_attempt s1 b j a); [apply update_attempt_jgb | reflexivity]).
  rewrite <- J2. clearbody s2.
  destruct (_ && _); [|reflexivity]. destruct (find_inst s2 i); reflexivity.
Qed.

(** An unschedule carrying an attempt id that is not the job's current one changes no job, group or batch row and is
    answered rc 1. *)
Theorem stale_unschedule_ignored s b j a i t rs x :
  find_job s b j = Some x -> j_attempt x <> Some a ->
  let r := step s (UnscheduleJob b j a i t rs) in
  jgb (fst r) = jgb s /\ exists d, snd r = ok [1; d].
Proof.
  intros Hx Hne. cbn [step]. unfold do_unschedule. rewrite Hx. cbv zeta.
  assert (Eo : oeqb (j_attempt x) (Some a) = false).
  { unfold oeqb. destruct (j_attempt x) as [e|]; [|reflexivity]. apply Z.eqb_neq. intros E. apply Hne. congruence. }
  rewrite Eo, andb_false_r. cbn [fst snd]. split; [|eexists; reflexivity].
  set (s1 := match find_attempt s b j a with
             | Some c => update_attempt s c (c <| a_rollup := Some t |> <| a_end := Some t |> <| a_reason := Some rs |>)
             | None => s end).
  assert (J1 : jgb s1 = jgb s) by (subst s1; destruct (find_attempt s b j a); [apply update_attempt_jgb | reflexivity]).
  rewrite <- J1. clearbody s1.
  destruct (_ && _); [|reflexivity]. destruct (find_inst s1 i); reflexivity.
Qed.

(** The messages that START an attempt only move jobs that are waiting: creating / started reports act on Ready jobs
    only, a schedule on Ready or Creating jobs only; in every other state no job row changes (the attempt row is still
    recorded).  So a late start message for an old attempt cannot move a job that is Running under another attempt. *)
Theorem start_messages_only_move_waiting_jobs s o b j x :
  find_job s b j = Some x ->
  match o with
  | ScheduleJob b' j' _ _ => (b', j') = (b, j) /\ j_state x <> Ready /\ j_state x <> Creating
  | MarkCreating b' j' _ _ _ | MarkStarted b' j' _ _ _ => (b', j') = (b, j) /\ j_state x <> Ready
  | _ => False
  end ->
  jobs (fst (step s o)) = jobs s.
Proof.
  intros Hx Ho. destruct o; try contradiction; cbn [step].
  - destruct Ho as (E & N1 & N2). injection E as -> ->. unfold do_schedule. rewrite Hx.
    destruct (is_job_cancelled s x); [|reflexivity]. cbv zeta.
    destruct (add_attempt s b j att inst (j_cores x)) as [[s1 d0]|] eqn:Ea; [|reflexivity].
    assert (J1 : jobs s1 = jobs s) by (pose proof (add_attempt_jgb _ _ _ _ _ _ _ _ Ea) as E; unfold jgb in E; congruence).
    assert (E1 : jstate_eqb (j_state x) Ready = false) by (destruct (j_state x); try reflexivity; congruence).
    assert (E2 : jstate_eqb (j_state x) Creating = false) by (destruct (j_state x); try reflexivity; congruence).
    rewrite E1, E2. cbn [orb andb fst]. exact J1.
  - destruct Ho as (E & N1). injection E as -> ->. unfold do_mark_creating_or_started. rewrite Hx.
    destruct (is_job_cancelled s x); [|reflexivity].
    destruct (add_attempt s b j att inst (j_cores x)) as [[s1 d0]|] eqn:Ea; [|reflexivity]. cbv zeta.
    assert (J1 : jobs s1 = jobs s) by (pose proof (add_attempt_jgb _ _ _ _ _ _ _ _ Ea) as E; unfold jgb in E; congruence).
    assert (E1 : jstate_eqb (j_state x) Ready = false) by (destruct (j_state x); try reflexivity; congruence).
    rewrite E1. cbn [andb fst]. unfold set_times. destruct (find_attempt s1 b j att); [rewrite update_attempt_jobs|]; exact J1.
  - destruct Ho as (E & N1). injection E as -> ->. unfold do_mark_creating_or_started. rewrite Hx.
    destruct (is_job_cancelled s x); [|reflexivity].
    destruct (add_attempt s b j att inst (j_cores x)) as [[s1 d0]|] eqn:Ea; [|reflexivity]. cbv zeta.
    assert (J1 : jobs s1 = jobs s) by (pose proof (add_attempt_jgb _ _ _ _ _ _ _ _ Ea) as E; unfold jgb in E; congruence).
    assert (E1 : jstate_eqb (j_state x) Ready = false) by (destruct (j_state x); try reflexivity; congruence).
    rewrite E1. cbn [andb fst]. unfold set_times. destruct (find_attempt s1 b j att); [rewrite update_attempt_jobs|]; exact J1.
Qed.

(* ------------------------------------------------------------------ (C) terminal rows are kept *)

Lemma find_job_update_other s o n b j : jkey b j n = false -> find_job (update_job s o n) b j = find_job s b j.
Proof. intros H. rewrite find_job_update_job, H. reflexivity. Qed.

Lemma jstate_eqb_terminal x st : terminal (j_state x) = true -> terminal st = false -> jstate_eqb (j_state x) st = false.
Proof. destruct (j_state x), st; cbn; congruence. Qed.

Lemma jkey_set x st a b j : jkey b j (x <| j_state := st |> <| j_attempt := a |>) = jkey b j x.
Proof. reflexivity. Qed.

Lemma jkey_found s b j x b' j' : find_job s b' j' = Some x -> jkey b j x = true -> b' = b /\ j' = j.
Proof.
  intros H K. destruct (find_job_key _ _ _ _ H) as [<- <-]. unfold jkey in K. apply andb_true_iff in K. lia.
Qed.

Definition keeps_row (o : op) (b j : Z) : Prop :=
  match o with
  | Commit _ _ _ => False
  | MarkComplete b' j' _ _ _ _ _ _ => b' = b /\ j' = j
  | _ => True
  end.

(** Every transaction other than the commit of an update and the completion of ANOTHER job leaves the row of a job
    that is in a terminal state exactly as it is — in particular every message about the job itself, however late,
    duplicated or stale, and every deactivation.  (That Commit recomputes only jobs of the update being committed and
    that a completing parent releases only Pending children are the range / dependency invariants of C04 and C05.) *)
Theorem terminal_row_kept s o b j x :
  JU s -> find_job s b j = Some x -> terminal (j_state x) = true -> keeps_row o b j ->
  find_job (fst (step s o)) b j = Some x.
Proof.
  intros Hu Hx Ht Hk.
  assert (Same : forall s', jobs s' = jobs s -> find_job s' b j = Some x) by (intros s' E; rewrite (find_job_jobs_eq s s' b j E); exact Hx).
  destruct o; cbn [step keeps_row] in *; try contradiction.
  - apply Same, do_create_batch_same.
  - apply Same, do_create_update_same.
  - apply Same, do_create_groups_same.
  - destruct (do_create_jobs_shape s b0 u user js) as [E|(news & E & _)]; [apply Same; exact E|].
    rewrite find_job_eq, E, find_jkey_app, <- find_job_eq, Hx. reflexivity.
  - apply Same, do_cancel_group_same.
  - apply Same, do_delete_batch_same.
  - apply Same, do_new_instance_ja.
  - apply Same, do_activate_ja.
  - (* deactivation *)
    unfold do_deactivate. destruct (find_inst s name) as [y|]; [|exact Hx].
    destruct (ilive (i_state y)); [|exact Hx]. cbv zeta. cbn [fst].
    match goal with |- find_job (set insts _ ?t) b j = _ => change (find_job t b j = Some x) end.
    match goal with |- find_job (fold_left ?f (jobs ?s1) ?s1') b j = _ =>
      assert (E1 : jobs s1 = jobs s); [|set (s1v := s1) in *] end.
    { apply (fold_left_pres (fun st => jobs st = jobs s)); [|reflexivity].
      intros st a E _. repeat bm; try exact E. rewrite update_attempt_jobs. exact E. }
    rewrite E1. clearbody s1v.
    apply (fold_left_pres (fun st => find_job st b j = Some x)); [|apply Same; exact E1].
    intros st j' Hst Hj'. repeat bm; try exact Hst.
    rewrite find_job_update_other; [exact Hst|]. rewrite jkey_set.
    destruct (jkey b j j') eqn:K; [|reflexivity]. exfalso.
    apply jkey_jk in K. pose proof (find_jkey_unique _ j' Hu Hj') as F.
    unfold jk in K. injection K as K1 K2. rewrite K1, K2, <- find_job_eq, Hx in F. injection F as <-.
    match goal with H : (_ && (jstate_eqb (j_state x) Running || jstate_eqb (j_state x) Creating)) = true |- _ =>
      rewrite (jstate_eqb_terminal x Running Ht eq_refl), (jstate_eqb_terminal x Creating Ht eq_refl), andb_false_r in H; discriminate end.
  - apply Same, do_mark_deleted_ja.
  - (* schedule *)
    unfold do_schedule. destruct (find_job s b0 j0) as [x'|] eqn:Hx'; [|exact Hx].
    destruct (is_job_cancelled s x'); [|exact Hx]. cbv zeta.
    destruct (add_attempt s b0 j0 att inst (j_cores x')) as [[s1 d0]|] eqn:Ea; [|exact Hx].
    assert (J1 : jobs s1 = jobs s) by (pose proof (add_attempt_jgb _ _ _ _ _ _ _ _ Ea) as E; unfold jgb in E; congruence).
    match goal with |- context [if ?c then _ else _] => destruct c eqn:Ec end; cbn [fst]; [|apply Same; exact J1].
    rewrite find_job_update_other; [apply Same; exact J1|]. rewrite jkey_set.
    destruct (jkey b j x') eqn:K; [|reflexivity]. exfalso.
    destruct (jkey_found _ _ _ _ _ _ Hx' K) as [-> ->]. rewrite Hx in Hx'. injection Hx' as <-.
    rewrite (jstate_eqb_terminal x Ready Ht eq_refl), (jstate_eqb_terminal x Creating Ht eq_refl) in Ec. discriminate.
  - (* unschedule *)
    unfold do_unschedule. destruct (find_job s b0 j0) as [x'|] eqn:Hx'; [|destruct (_ && _); exact Hx]. cbv zeta.
    set (s1 := match find_attempt s b0 j0 att with
               | Some c => update_attempt s c (c <| a_rollup := Some time |> <| a_end := Some time |> <| a_reason := Some reason |>)
               | None => s end).
    assert (J1 : jobs s1 = jobs s) by (subst s1; destruct (find_attempt s b0 j0 att); [apply update_attempt_jobs | reflexivity]).
    clearbody s1.
    match goal with |- context [if ?cnd then (update_job ?s2 _ _, _) else _] => set (s2' := s2) end.
    assert (J2 : jobs s2' = jobs s) by (subst s2'; destruct (_ && _); [destruct (find_inst s1 inst)|]; exact J1).
    clearbody s2'.
    match goal with |- context [if ?cnd then (update_job _ _ _, _) else _] => destruct cnd eqn:Ec end; cbn [fst]; [|apply Same; exact J2].
    rewrite find_job_update_other; [apply Same; exact J2|]. rewrite jkey_set.
    destruct (jkey b j x') eqn:K; [|reflexivity]. exfalso.
    destruct (jkey_found _ _ _ _ _ _ Hx' K) as [-> ->]. rewrite Hx in Hx'. injection Hx' as <-.
    rewrite (jstate_eqb_terminal x Running Ht eq_refl), (jstate_eqb_terminal x Creating Ht eq_refl) in Ec. discriminate.
  - (* creating *)
    unfold do_mark_creating_or_started. destruct (find_job s b0 j0) as [x'|] eqn:Hx'; [|exact Hx].
    destruct (is_job_cancelled s x'); [|exact Hx].
    destruct (add_attempt s b0 j0 att inst (j_cores x')) as [[s1 d0]|] eqn:Ea; [|exact Hx]. cbv zeta.
    assert (J1 : jobs s1 = jobs s) by (pose proof (add_attempt_jgb _ _ _ _ _ _ _ _ Ea) as E; unfold jgb in E; congruence).
    assert (J2 : jobs (set_times s1 b0 j0 att time) = jobs s).
    { unfold set_times. destruct (find_attempt s1 b0 j0 att); [rewrite update_attempt_jobs|]; exact J1. }
    match goal with |- context [if ?c then _ else _] => destruct c eqn:Ec end; cbn [fst]; [|apply Same; exact J2].
    rewrite find_job_update_other; [apply Same; exact J2|]. rewrite jkey_set.
    destruct (jkey b j x') eqn:K; [|reflexivity]. exfalso.
    destruct (jkey_found _ _ _ _ _ _ Hx' K) as [-> ->]. rewrite Hx in Hx'. injection Hx' as <-.
    rewrite (jstate_eqb_terminal x Ready Ht eq_refl) in Ec. discriminate.
  - (* started *)
    unfold do_mark_creating_or_started. destruct (find_job s b0 j0) as [x'|] eqn:Hx'; [|exact Hx].
    destruct (is_job_cancelled s x'); [|exact Hx].
    destruct (add_attempt s b0 j0 att inst (j_cores x')) as [[s1 d0]|] eqn:Ea; [|exact Hx]. cbv zeta.
    assert (J1 : jobs s1 = jobs s) by (pose proof (add_attempt_jgb _ _ _ _ _ _ _ _ Ea) as E; unfold jgb in E; congruence).
    assert (J2 : jobs (set_times s1 b0 j0 att time) = jobs s).
    { unfold set_times. destruct (find_attempt s1 b0 j0 att); [rewrite update_attempt_jobs|]; exact J1. }
    match goal with |- context [if ?c then _ else _] => destruct c eqn:Ec end; cbn [fst]; [|apply Same; exact J2].
    rewrite find_job_update_other; [apply Same; exact J2|]. rewrite jkey_set.
    destruct (jkey b j x') eqn:K; [|reflexivity]. exfalso.
    destruct (jkey_found _ _ _ _ _ _ Hx' K) as [-> ->]. rewrite Hx in Hx'. injection Hx' as <-.
    rewrite (jstate_eqb_terminal x Ready Ht eq_refl) in Ec. discriminate.
  - (* a completion of the terminal job itself *)
    destruct Hk as [-> ->]. unfold do_mark_complete. rewrite Hx. cbv zeta.
    destruct (if att =? -1 then Some (s, 0) else add_attempt s b j att inst (j_cores x)) as [[s1 d0]|] eqn:Eadd; [|exact Hx].
    assert (J1 : jobs s1 = jobs s).
    { destruct (att =? -1); [injection Eadd as <- <-; reflexivity|].
      pose proof (add_attempt_jgb _ _ _ _ _ _ _ _ Eadd) as E; unfold jgb in E; congruence. }
    set (cur := if att =? -1 then None else find_attempt s1 b j att).
    set (s2 := match cur with
               | Some c => update_attempt s1 c (c <| a_start := start |> <| a_rollup := endt |> <| a_end := endt |> <| a_reason := Some reason |>)
               | None => s1 end).
    assert (J2 : jobs s2 = jobs s) by (subst s2; destruct cur; [rewrite update_attempt_jobs|]; exact J1).
    clearbody s2.
    match goal with |- context [if ?cnd then (?s3, ok [2; _]) else _] => set (s3' := s3) end.
    assert (J3 : jobs s3' = jobs s) by (subst s3'; destruct (_ && _); [destruct (find_inst s2 inst)|]; exact J2).
    clearbody s3'.
    rewrite (jstate_eqb_terminal x Ready Ht eq_refl), (jstate_eqb_terminal x Creating Ht eq_refl),
            (jstate_eqb_terminal x Running Ht eq_refl), Ht. cbn [orb].
    destruct (match j_attempt x with Some e => _ | None => false end); cbn [fst]; apply Same; exact J3.
  - apply Same, do_add_resources_same.
  - unfold do_billing_update. cbn [fst].
    apply (fold_left_pres (fun st => find_job st b j = Some x)); [|exact Hx].
    intros st [[b' j'] a'] Hst _. destruct (find_attempt st b' j' a'); [|exact Hst].
    rewrite (find_job_jobs_eq st _ b j (update_attempt_jobs st _ _)). exact Hst.
  - apply Same, do_cleanup_staging_same.
  - apply Same, do_cleanup_cancellable_same.
Qed.

(* ------------------------------------------------------------------ (D) progress is enabled (no liveness claim) *)

(** The scheduler's transaction on a Ready job that is not cancelled, with a fresh attempt id and an active instance,
    succeeds and makes that attempt the current one. *)
Theorem schedule_enabled s b j a i x y :
  find_job s b j = Some x -> j_state x = Ready -> is_job_cancelled s x = Some false ->
  find_attempt s b j a = None -> find_inst s i = Some y -> i_state y = IActive ->
  let r := step s (ScheduleJob b j a i) in
  (exists d, snd r = ok [0; d]) /\
  exists x', find_job (fst r) b j = Some x' /\ j_state x' = Running /\ j_attempt x' = Some a.
Proof.
  intros Hx Hs Hc Hf Hi Hst. cbn [step]. unfold do_schedule. rewrite Hx, Hc. cbv zeta.
  unfold add_attempt. rewrite Hf. cbv zeta.
  set (n := mkAttempt b j a i None None None None).
  set (s0 := s <| attempts ::= fun l => l ++ [n] |>).
  change (find_inst s0 i) with (find_inst s i). rewrite Hi.
  assert (El : ilive (i_state y) = true) by (rewrite Hst; reflexivity). rewrite El.
  set (s1 := s0 <| insts ::= replace_inst (y <| i_free := i_free y - j_cores x |>) |>).
  assert (Ei : is_state (inst_state s1 i) IActive = true).
  { unfold inst_state. rewrite find_inst_eq. change (insts s1) with (replace_inst (y <| i_free := i_free y - j_cores x |>) (insts s)).
    apply find_inst_in in Hi. destruct Hi as [Hy Hn].
    assert (F : forall l, In y l -> exists z, find (ikey i) (replace_inst (y <| i_free := i_free y - j_cores x |>) l) = Some z /\ i_state z = IActive).
    { induction l as [|w l IH]; [intros []|]. intros Hin. cbn [replace_inst map find].
      change (i_name (y <| i_free := i_free y - j_cores x |>)) with (i_name y).
      destruct (i_name w =? i_name y) eqn:E.
      - unfold ikey at 1. change (i_name (y <| i_free := i_free y - j_cores x |>)) with (i_name y).
        rewrite Hn, Z.eqb_refl. eexists; split; [reflexivity | exact Hst].
      - unfold ikey at 1. assert (E' : (i_name w =? i) = false) by (rewrite <- Hn; exact E). rewrite E'.
        destruct Hin as [->|Hin]; [rewrite Z.eqb_refl in E; discriminate | apply IH; exact Hin]. }
    destruct (F _ Hy) as (z & -> & Ez). cbn [option_map]. rewrite Ez. reflexivity. }
  rewrite Hs, Ei. cbn [jstate_eqb orb negb andb fst snd]. split; [eexists; reflexivity|].
  exists (x <| j_state := Running |> <| j_attempt := Some a |>). split; [|split; reflexivity].
  rewrite find_job_update_job, jkey_set.
  assert (K : jkey b j x = true) by (destruct (find_job_key _ _ _ _ Hx) as [E1 E2]; unfold jkey; rewrite E1, E2, !Z.eqb_refl; reflexivity).
  rewrite K. change (find_job s1 b j) with (find_job s b j). rewrite Hx. reflexivity.
Qed.

(** An always-run job is never seen as cancelled, and (since migration 121) the cancellation test of the three
    scheduling transactions is total: none of them answers MySQL error 1242. *)
Theorem always_run_never_cancelled s x : j_always x = true -> is_job_cancelled s x = Some false.
Proof. intros H. unfold is_job_cancelled. rewrite H. reflexivity. Qed.

Theorem scheduling_never_1242 s o :
  match o with ScheduleJob _ _ _ _ | MarkCreating _ _ _ _ _ | MarkStarted _ _ _ _ _ => snd (step s o) <> sql_error 1242 | _ => True end.
Proof.
  destruct o; try exact I; cbn [step]; unfold do_schedule, do_mark_creating_or_started, is_job_cancelled;
  repeat bm; cbn [snd]; unfold sql_error, ok; discriminate.
Qed.

(** A completion that is not stale, for a job in Ready/Creating/Running, is accepted (rc 0) and puts the job in the
    reported terminal state.  [~ In (b, j, j) (parents s)]: the job is not its own parent (validated on submission). *)
Theorem complete_enabled s b j a i ns st en rs x :
  find_job s b j = Some x -> (j_state x = Ready \/ j_state x = Creating \/ j_state x = Running) ->
  (a = -1 \/ j_attempt x = None \/ j_attempt x = Some a) ->
  (a = -1 \/ i = -1 \/ find_inst s i <> None \/ find_attempt s b j a <> None) ->
  ~ In (b, j, j) (parents s) ->
  let r := step s (MarkComplete b j a i ns st en rs) in
  (exists d, snd r = ok [0; d; jcode (j_state x)]) /\
  exists x', find_job (fst r) b j = Some x' /\ j_state x' = ns.
Proof.
  intros Hx Hs Hns Hadd Hself. cbn [step]. unfold do_mark_complete. rewrite Hx. cbv zeta.
  destruct (if a =? -1 then Some (s, 0) else add_attempt s b j a i (j_cores x)) as [[s1 d0]|] eqn:Eadd.
  2:{ exfalso. destruct (a =? -1) eqn:Ea; [discriminate|]. apply Z.eqb_neq in Ea.
      unfold add_attempt in Eadd. destruct (find_attempt s b j a) eqn:Ef; [discriminate|]. cbv zeta in Eadd.
      match type of Eadd with context [find_inst ?s0 i] => change (find_inst s0 i) with (find_inst s i) in Eadd end.
      destruct (find_inst s i) eqn:Ei; [discriminate|]. destruct (i =? -1) eqn:Ei1; [discriminate|]. apply Z.eqb_neq in Ei1.
      destruct Hadd as [H|[H|[H|H]]]; congruence. }
  assert (J1 : jobs s1 = jobs s /\ parents s1 = parents s).
  { destruct (a =? -1); [injection Eadd as <- <-; split; reflexivity|].
    unfold add_attempt in Eadd. repeat bm_in Eadd; try discriminate; injection Eadd as <- <-; split; reflexivity. }
  destruct J1 as [J1 P1].
  set (cur := if a =? -1 then None else find_attempt s1 b j a).
  set (s2 := match cur with
             | Some c => update_attempt s1 c (c <| a_start := st |> <| a_rollup := en |> <| a_end := en |> <| a_reason := Some rs |>)
             | None => s1 end).
  assert (J2 : jobs s2 = jobs s /\ parents s2 = parents s).
  { subst s2. destruct cur; [|split; assumption].
    pose proof (update_attempt_frame s1 a0 (a0 <| a_start := st |> <| a_rollup := en |> <| a_end := en |> <| a_reason := Some rs |>)) as F.
    cbv zeta in F. destruct F as (_&_&_&_&_&F6&F7&_). split; congruence. }
  destruct J2 as [J2 P2]. clearbody s2.
  match goal with |- context [if ?cnd then (?s3, ok [2; _]) else _] => set (s3' := s3) end.
  assert (J3 : jobs s3' = jobs s /\ parents s3' = parents s).
  { subst s3'. destruct (_ && _); [destruct (find_inst s2 i)|]; split; assumption. }
  destruct J3 as [J3 P3]. clearbody s3'.
  assert (Est : match j_attempt x with Some e => negb (a =? -1) && negb (e =? a) | None => false end = false).
  { destruct (j_attempt x) as [e|] eqn:Ee; [|reflexivity].
    destruct Hns as [E | [H | H]]; [rewrite E; reflexivity | discriminate | injection H as E; rewrite E, Z.eqb_refl, andb_false_r; reflexivity]. }
  rewrite Est.
  assert (Eact : jstate_eqb (j_state x) Ready || jstate_eqb (j_state x) Creating || jstate_eqb (j_state x) Running = true)
    by (destruct Hs as [E | [E | E]]; rewrite E; reflexivity).
  rewrite Eact. cbn [fst snd]. split; [eexists; reflexivity|].
  set (n := x <| j_state := ns |> <| j_attempt := (if a =? -1 then None else Some a) |>).
  assert (K : jkey b j x = true) by (destruct (find_job_key _ _ _ _ Hx) as [E1 E2]; unfold jkey; rewrite E1, E2, !Z.eqb_refl; reflexivity).
  exists n. split; [|reflexivity].
  unfold release_children.
  match goal with |- find_job (fold_left ?f ?kids ?s7) b j = _ =>
    assert (H7 : find_job s7 b j = Some n /\ parents s7 = parents s) end.
  { split.
    - match goal with |- find_job (finish_groups (if ?c then _ else _) _ _) b j = _ => destruct c end;
      (match goal with |- find_job ?t b j = _ => change (find_job t b j) with (find_job (update_job s3' x n) b j) end;
       rewrite find_job_update_job; fold n; change (jkey b j n) with (jkey b j x); rewrite K, (find_job_jobs_eq s s3' b j J3), Hx; reflexivity).
    - match goal with |- parents (finish_groups (if ?c then _ else _) _ _) = _ => destruct c end;
      (match goal with |- parents ?t = _ => change (parents t) with (parents (update_job s3' x n)) end; rewrite update_job_parents; exact P3). }
  destruct H7 as [H7 P7].
  match goal with |- find_job (fold_left ?f ?kids ?s7) b j = _ => assert (Hk : forall c, In c kids -> c <> j) end.
  { intros c Hc Ec. apply in_map_iff in Hc. destruct Hc as ([[b' c'] p'] & E & Hin). apply filter_In in Hin.
    destruct Hin as [Hin Hf]. apply andb_true_iff in Hf. destruct Hf as [Hb Hp]. apply Z.eqb_eq in Hb. apply Z.eqb_eq in Hp.
    subst. rewrite P7 in Hin. exact (Hself Hin). }
  apply (fold_left_pres (fun sk => find_job sk b j = Some n)); [|exact H7].
  intros sk c Hst Hc. cbv beta. destruct (find_job sk b c) as [xc|] eqn:Exc; [|exact Hst].
  match goal with |- context [if ?cnd then sk else _] => destruct cnd end; [exact Hst|].
  rewrite find_job_update_other; [exact Hst|].
  match goal with |- jkey b j ?m = false => change (jkey b j m) with (jkey b j xc) end.
  destruct (jkey b j xc) eqn:Kc; [|reflexivity]. destruct (jkey_found _ _ _ _ _ _ Exc Kc) as [_ E]. exfalso. exact (Hk c Hc E).
Qed.

(* ------------------------------------------------------------------ (E) a limit of the safety claim *)

(** The current attempt need not be an OPEN attempt: a schedule message replayed verbatim after the attempt was
    unscheduled (legal for Legal.v: it repeats an earlier message) makes the ended attempt current again; the job is
    Running while the instance has all cores free.  Never produced by the real driver (it draws a new attempt id for
    every schedule and issues the CALL once); listed in harness/batchdb/README.md as a procedure-level weakness. *)
Definition replayed_schedule : list op :=
  setup ++ [ActivateInstance 7; ScheduleJob 1 1 10 7; UnscheduleJob 1 1 10 7 50 3; ScheduleJob 1 1 10 7].

Lemma replayed_schedule_reinstalls_ended_attempt :
  legal_history replayed_schedule /\
  let s := run replayed_schedule in
  option_map (fun x => (j_state x, j_attempt x)) (find_job s 1 1) = Some (Running, Some 10) /\
  option_map a_end (find_attempt s 1 1 10) = Some (Some 50) /\
  map (fun y => (i_cores y, i_free y)) (insts s) = [(4000, 4000)].
Proof. split; [vm_compute; repeat split | vm_compute; repeat split]. Qed.
