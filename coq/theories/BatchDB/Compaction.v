(** C02, second half — compacting a token-sharded billing table never changes any total.

    The main model sums the token shards away; here a sharded table is a list of rows (key, token, usage) and
    [compact_one] is one transaction of batch/driver/main.py::compact_agg_billing_project_users_table /
    compact_agg_billing_project_users_by_date_table for one target key:
        SELECT COALESCE(SUM(usage), 0) ... WHERE key = target FOR UPDATE;
        DELETE ... WHERE key = target;
        INSERT ... VALUES (target, token 0, that sum);
        (audit: the new sum must equal the old one, else the transaction is aborted)
    [compact] runs it for a list of targets (the service picks the keys that have a row with token <> 0; the theorems
    hold for ANY list of targets, also keys that do not occur).  Keys are lists of integers, so the same definitions
    serve both tables (billing project, user, resource) and (billing date, billing project, user, resource). *)
From HailV Require Import Common.Prelude BatchDB.Model BatchDB.CMap.
Open Scope Z_scope.

Definition shard := (list Z * Z * Z)%type.      (* key, token, usage *)
Definition sh_key (r : shard) : list Z := fst (fst r).
Definition sh_token (r : shard) : Z := snd (fst r).
Definition sh_usage (r : shard) : Z := snd r.

(** total usage recorded for key [k] (what every reader of the table computes: SUM(usage) GROUP BY key) *)
Definition ktotal (k : list Z) (t : list shard) : Z :=
  zsum (fun r => if key_eqb (sh_key r) k then sh_usage r else 0) t.

Definition compact_one (t : list shard) (k : list Z) : list shard :=
  filter (fun r => negb (key_eqb (sh_key r) k)) t ++ [(k, 0, ktotal k t)].

Definition compact (t : list shard) (targets : list (list Z)) : list shard := fold_left compact_one targets t.

(** the service's target selection: keys having a row with a non-zero token *)
Definition needs_compaction (t : list shard) (k : list Z) : bool :=
  existsb (fun r => key_eqb (sh_key r) k && negb (sh_token r =? 0)) t.

Lemma ktotal_app k t1 t2 : ktotal k (t1 ++ t2) = ktotal k t1 + ktotal k t2.
Proof. apply zsum_app. Qed.

Lemma ktotal_filter_other k k' t : key_eqb k k' = false ->
  ktotal k' (filter (fun r => negb (key_eqb (sh_key r) k)) t) = ktotal k' t.
Proof.
  intros Hne. unfold ktotal. induction t as [|r t IH]; cbn [filter zsum]; [reflexivity|].
  destruct (key_eqb (sh_key r) k) eqn:E; cbn [negb zsum]; rewrite IH; [|reflexivity].
  apply key_eqb_eq in E. rewrite E, Hne. lia.
Qed.

Lemma ktotal_filter_self k t : ktotal k (filter (fun r => negb (key_eqb (sh_key r) k)) t) = 0.
Proof.
  unfold ktotal. induction t as [|r t IH]; cbn [filter zsum]; [reflexivity|].
  destruct (key_eqb (sh_key r) k) eqn:E; cbn [negb zsum]; [exact IH | rewrite E, IH; reflexivity].
Qed.

(** one compaction transaction preserves the total of EVERY key (so its own audit never fails) *)
Lemma compact_one_total t k k' : ktotal k' (compact_one t k) = ktotal k' t.
Proof.
  unfold compact_one. rewrite ktotal_app. unfold ktotal at 2. cbn [zsum sh_key sh_usage fst snd].
  destruct (key_eqb k k') eqn:E.
  - apply key_eqb_eq in E. subst k'. rewrite ktotal_filter_self. lia.
  - rewrite ktotal_filter_other by exact E. lia.
Qed.

Lemma compact_total t targets k : ktotal k (compact t targets) = ktotal k t.
Proof.
  unfold compact. revert t. induction targets as [|x l IH]; intros t; cbn [fold_left]; [reflexivity|].
  rewrite IH. apply compact_one_total.
Qed.

(** after its compaction a key has exactly one row, with token 0 (until the next trigger adds a shard) *)
Lemma compact_one_rows t k :
  filter (fun r => key_eqb (sh_key r) k) (compact_one t k) = [(k, 0, ktotal k t)].
Proof.
  unfold compact_one. rewrite filter_app. cbn [filter sh_key fst]. rewrite key_eqb_refl.
  assert (filter (fun r => key_eqb (sh_key r) k) (filter (fun r => negb (key_eqb (sh_key r) k)) t) = []) as ->.
  { induction t as [|r t IH]; cbn [filter]; [reflexivity|].
    destruct (key_eqb (sh_key r) k) eqn:E; cbn [negb filter]; [exact IH | rewrite E; exact IH]. }
  reflexivity.
Qed.

Lemma compact_one_done t k : needs_compaction (compact_one t k) k = false.
Proof.
  unfold needs_compaction, compact_one. rewrite existsb_app. cbn [existsb sh_key sh_token fst snd].
  rewrite key_eqb_refl. cbn. rewrite orb_false_r.
  induction t as [|r t IH]; cbn [filter existsb]; [reflexivity|].
  destruct (key_eqb (sh_key r) k) eqn:E; cbn [negb existsb]; [exact IH | rewrite E; cbn [andb orb]; exact IH].
Qed.

(** rows of other keys are untouched (same rows, same order) *)
Lemma compact_one_other t k k' : key_eqb k k' = false ->
  filter (fun r => key_eqb (sh_key r) k') (compact_one t k) = filter (fun r => key_eqb (sh_key r) k') t.
Proof.
  intros Hne. unfold compact_one. rewrite filter_app. cbn [filter sh_key fst]. rewrite Hne, app_nil_r.
  induction t as [|r t IH]; cbn [filter]; [reflexivity|].
  destruct (key_eqb (sh_key r) k) eqn:E; cbn [negb filter].
  - apply key_eqb_eq in E. rewrite E, Hne. exact IH.
  - destruct (key_eqb (sh_key r) k'); rewrite IH; reflexivity.
Qed.

Example compaction_example :
  let t := [([1; 1; 1], 3, 40); ([1; 1; 2], 0, 5); ([1; 1; 1], 0, 2); ([2; 1; 1], 7, 9); ([1; 1; 1], 9, 8)] in
  compact t [[1; 1; 1]; [2; 1; 1]] = [([1; 1; 2], 0, 5); ([1; 1; 1], 0, 50); ([2; 1; 1], 0, 9)]
  /\ needs_compaction t [1; 1; 1] = true /\ needs_compaction t [1; 1; 2] = false.
Proof. vm_compute. repeat split. Qed.
