(** Observable projection of the model state (harness/batchdb/INTERFACE.md), as integer rows. NULL = -1. *)
From HailV Require Import Common.Prelude BatchDB.Model.
Open Scope Z_scope.

Definition oz (o : option Z) : Z := match o with Some x => x | None => -1 end.
Definition crow (kv : list Z * list Z) : list Z := fst kv ++ snd kv.
Definition nonzero (kv : list Z * list Z) : bool := existsb (fun x => negb (x =? 0)) (snd kv).
Definition crows (m : cmap) : list (list Z) := map crow (filter nonzero m).

Definition obs_jobs (s : state) : list (list Z) :=
  map (fun x => [j_batch x; j_id x; jcode (j_state x); ind (j_cancelled x); j_npp x; oz (j_attempt x);
                 ind (j_always x); j_cores x; j_group x; j_update x; j_ic x]) (jobs s).
Definition obs_groups (s : state) : list (list Z) :=
  map (fun g => [g_batch g; g_id g; ind (g_running g); g_njobs g; g_ncompleted g; g_nsucc g; g_nfailed g; g_ncancelled g;
                 ind (marked s (g_batch g) (g_id g)); oz (g_update g)]) (groups s).
Definition obs_ancestors (s : state) : list (list Z) :=
  map (fun r => let '(b, g, a, l) := r in [b; g; a; l]) (ancestors s).
Definition obs_batches (s : state) : list (list Z) :=
  map (fun b => [b_id b; b_user b; ind (b_running b); b_njobs b; ind (b_deleted b)]) (batches s).
Definition obs_updates (s : state) : list (list Z) :=
  map (fun u => [u_batch u; u_id u; u_start_job u; u_njobs u; u_start_group u; u_ngroups u; ind (u_committed u)]) (updates s).
Definition obs_attempts (s : state) : list (list Z) :=
  map (fun a => [a_batch a; a_job a; a_id a; a_inst a; oz (a_start a); oz (a_rollup a); oz (a_end a); oz (a_reason a)]) (attempts s).
Definition obs_insts (s : state) : list (list Z) :=
  map (fun i => [i_name i; icode (i_state i); i_cores i; i_free i]) (insts s).

(* one value per table, in the order of INTERFACE.md *)
Definition obs (s : state) : list (list (list Z)) :=
  [obs_jobs s; obs_groups s; obs_ancestors s; obs_batches s; obs_updates s; crows (user_res s); crows (cancellable s);
   crows (staging s); obs_attempts s; obs_insts s; crows (attempt_res s); crows (agg_job s); crows (agg_group s);
   crows (agg_bp s); crows (agg_date s)].

Definition obs_trace (ops : list op) : list (res * list (list (list Z))) :=
  map (fun rs => (fst rs, obs (snd rs))) (trace init ops).

(** Order-independent fingerprint of the observable projection: the correspondence compares fingerprints after
    every op and evaluates the full projection only for histories whose fingerprints differ. *)
Definition HM : Z := 2305843009213693951.
Definition hrow (tbl : Z) (r : list Z) : Z := fold_left (fun acc x => (acc * 1000003 + (x + 7)) mod HM) r (tbl + 1).
Definition htable (tbl : Z) (rows : list (list Z)) : Z := fold_left (fun acc r => (acc + hrow tbl r) mod HM) rows 0.
Fixpoint hobs_from (i : Z) (tables : list (list (list Z))) : Z :=
  match tables with [] => 0 | t :: r => (htable i t + hobs_from (i + 1) r) mod HM end.
Definition hobs (s : state) : Z := hobs_from 1 (obs s).
Definition hash_trace (ops : list op) : list (res * Z) := map (fun rs => (fst rs, hobs (snd rs))) (trace init ops).
