(** C01 — [CInv] is preserved by cancel_job_group (and by batch deletion, which cancels the root group):
    the committed cancellable sums of the group move to the "cancelled" columns of the user's counters, the group's
    rows are subtracted from the group and from every ancestor, and the group is marked. *)
From HailV Require Import BatchDB.StepFrame.
From HailV Require Import Common.Prelude BatchDB.Model BatchDB.Tables BatchDB.CMap BatchDB.JobsWF BatchDB.StepCore BatchDB.JobFold
  BatchDB.Legal BatchDB.DepsDef BatchDB.DepsEasy BatchDB.DepsStruct BatchDB.DepsCommit1
  BatchDB.CountersAlg BatchDB.CountersInv BatchDB.CountersDriver BatchDB.CountersCommit.
From RecordUpdate Require Import RecordSet.
Import RecordSetNotations.
Open Scope Z_scope.

(* ------------------------------------------------------------------ sums of counter rows *)

Lemma cval_zsum p i m : cval p i m = zsum (fun kv => if p (fst kv) then nth i (snd kv) 0 else 0) m.
Proof.
  unfold cval. induction m as [|kv m IH]; cbn [csum zsum]; [destruct i; reflexivity|].
  destruct (p (fst kv)); [rewrite nth_vadd, IH; reflexivity | rewrite IH; lia].
Qed.

Lemma zsum_opp {A} (f : A -> Z) l : zsum (fun x => - f x) l = - zsum f l.
Proof. induction l as [|a l IH]; cbn [zsum]; [reflexivity | rewrite IH; lia]. Qed.

Lemma zsum_const0 {A} (l : list A) : zsum (fun _ => 0) l = 0.
Proof. apply zsum_zero. reflexivity. Qed.

(* ------------------------------------------------------------------ the move into the cancelled columns *)

Definition mvz (i : nat) (c : nat -> Z) : Z :=
  match i with
  | 0%nat => - c 0%nat | 1%nat => - c 1%nat | 2%nat => - c 3%nat | 3%nat => - c 4%nat | 4%nat => - c 2%nat
  | 5%nat => c 0%nat | 6%nat => c 3%nat | 7%nat => c 2%nat | _ => 0
  end.

Lemma mvz_row i nr rc ncr nrun runc :
  nth i [- nr; - rc; - nrun; - runc; - ncr; nr; nrun; ncr] 0 = mvz i (fun j => nth j [nr; rc; ncr; nrun; runc] 0).
Proof. do 8 (destruct i as [|i]; [reflexivity|]). destruct i; reflexivity. Qed.

Lemma mvz_zero i : mvz i (fun _ => 0) = 0.
Proof. do 8 (destruct i as [|i]; [reflexivity|]). reflexivity. Qed.

Lemma mvz_ext i c c' : (forall j, c j = c' j) -> mvz i c = mvz i c'.
Proof. intros H. unfold mvz. rewrite !H. reflexivity. Qed.

Lemma mvz_plus i c c' : mvz i (fun j => c j + c' j) = mvz i c + mvz i c'.
Proof. do 8 (destruct i as [|i]; [cbn [mvz]; lia|]). reflexivity. Qed.

Lemma mvz_if i (t : bool) c : mvz i (fun j => if t then c j else 0) = if t then mvz i c else 0.
Proof. destruct t; [reflexivity | apply mvz_zero]. Qed.

Lemma mvz_zsum {A} i (f : nat -> A -> Z) l : mvz i (fun j => zsum (f j) l) = zsum (fun x => mvz i (fun j => f j x)) l.
Proof.
  induction l as [|a l IH]; cbn [zsum]; [apply mvz_zero|].
  rewrite mvz_plus, IH. reflexivity.
Qed.

(** Marking the group (gc becomes true) moves a job's contribution exactly as its cancellable vector says. *)
Lemma uvec_cancel_delta gc x i :
  nth i (uvec true x) 0 = nth i (uvec gc x) 0 + mvz i (fun j => nth j (cvec gc x) 0).
Proof.
  unfold uvec, cvec, effc, cncl. cbv zeta.
  destruct (j_always x), (j_cancelled x), gc; cbn [negb andb orb];
    rewrite ?andb_true_r, ?andb_false_r; cbn [ind];
    do 8 (destruct i as [|i]; [cbn [nth mvz]; lia|]); destruct i; cbn [nth mvz]; lia.
Qed.

Lemma cvec_cancelled x i : nth i (cvec true x) 0 = 0.
Proof.
  unfold cvec, cncl. cbv zeta. rewrite orb_true_r. cbn [negb]. rewrite !andb_false_r. cbn [ind].
  do 5 (destruct i as [|i]; [cbn [nth]; lia|]). destruct i; reflexivity.
Qed.

(* (1) the user counters *)
Definition cp_F1 (s : state) (b g : Z) (m : cmap) (kv : list Z * list Z) : cmap :=
  match kv with
  | ([b'; u'; g'; ic], [nr; rc; ncr; nrun; runc]) =>
      if (b' =? b) && (g' =? g) && committed s b u'
      then cadd [batch_user s b; ic] [- nr; - rc; - nrun; - runc; - ncr; nr; nrun; ncr] m else m
  | _ => m
  end.

Lemma cp_F1_cval s b g usr ic0 i : forall rows m,
  shaped 4 5 rows ->
  cval (key_eqb [usr; ic0]) i (fold_left (cp_F1 s b g) rows m) =
  cval (key_eqb [usr; ic0]) i m +
  (if usr =? batch_user s b
   then mvz i (fun j => cval (gsel b g (fun u' ic' => committed s b u' && (ic' =? ic0))) j rows) else 0).
Proof.
  set (Qc := fun u' ic' => committed s b u' && (ic' =? ic0)).
  induction rows as [|[k v] rows IH]; intros m Sh; cbn [fold_left].
  - rewrite (mvz_ext i _ (fun _ => 0)).
    + rewrite mvz_zero. destruct (usr =? batch_user s b); lia.
    + intros j. unfold cval. cbn [csum]. destruct j; reflexivity.
  - pose proof (Forall_inv Sh) as [Hk Hv]. pose proof (Forall_inv_tail Sh) as Sh'. cbn [fst snd] in Hk, Hv.
    destruct k as [|b' [|u' [|g' [|ic [|]]]]]; try discriminate.
    destruct v as [|nr [|rc [|ncr [|nrun [|runc [|]]]]]]; try discriminate.
    set (P := key_eqb [usr; ic0]) in *.
    assert (HP : P [batch_user s b; ic] = (usr =? batch_user s b) && (ic0 =? ic)).
    { unfold P. cbn [key_eqb]. rewrite andb_true_r. reflexivity. }
    assert (HKc : forall j, cval (gsel b g Qc) j (([b'; u'; g'; ic], [nr; rc; ncr; nrun; runc]) :: rows) =
                            (if (b' =? b) && (g' =? g) && Qc u' ic then nth j [nr; rc; ncr; nrun; runc] 0 else 0)
                            + cval (gsel b g Qc) j rows).
    { intros j. unfold cval. cbn [csum fst snd gsel]. destruct ((b' =? b) && (g' =? g) && Qc u' ic); [rewrite nth_vadd|]; lia. }
    rewrite (IH _ Sh'). rewrite (mvz_ext i _ _ HKc), mvz_plus, mvz_if, <- mvz_row. unfold cp_F1, Qc.
    destruct ((b' =? b) && (g' =? g)); cbn [andb]; [|destruct (usr =? batch_user s b); lia].
    destruct (committed s b u'); cbn [andb]; [|destruct (usr =? batch_user s b); lia].
    rewrite cval_cadd. fold P. rewrite HP. rewrite (Z.eqb_sym ic ic0).
    destruct (usr =? batch_user s b), (ic0 =? ic); cbn [andb]; lia.
Qed.

(* (2) the cancellable rows *)
Definition cp_own (b g : Z) (kv : list Z * list Z) : bool :=
  match fst kv with [b'; _; g'; _] => (b' =? b) && (g' =? g) | _ => false end.
Definition cp_inner (b a : Z) (m' : cmap) (kv : list Z * list Z) : cmap :=
  match fst kv with [_; u'; _; ic] => cadd [b; u'; a; ic] (vneg (snd kv)) m' | _ => m' end.
Definition cp_outer (b : Z) (own : cmap) (m : cmap) (a : Z) : cmap := fold_left (cp_inner b a) own m.

Definition cp_contrib (p : list Z -> bool) (i : nat) (b a : Z) (kv : list Z * list Z) : Z :=
  match fst kv with [_; u'; _; ic] => if p [b; u'; a; ic] then nth i (snd kv) 0 else 0 | _ => 0 end.

Lemma cp_inner_cval p i b a : forall own m,
  cval p i (fold_left (cp_inner b a) own m) = cval p i m - zsum (cp_contrib p i b a) own.
Proof.
  induction own as [|kv own IH]; intros m; cbn [fold_left zsum]; [lia|].
  rewrite IH. unfold cp_inner, cp_contrib.
  destruct (fst kv) as [|x0 [|u' [|x2 [|ic [|]]]]]; try lia.
  rewrite cval_cadd, nth_vneg. destruct (p [b; u'; a; ic]); lia.
Qed.

Lemma cp_outer_cval p i b own : forall ancs m,
  cval p i (fold_left (cp_outer b own) ancs m) = cval p i m - zsum (fun a => zsum (cp_contrib p i b a) own) ancs.
Proof.
  induction ancs as [|a ancs IH]; intros m; cbn [fold_left zsum]; [lia|].
  rewrite IH. unfold cp_outer at 1. rewrite cp_inner_cval. lia.
Qed.

Lemma shaped_cp_outer b own : shaped 4 5 own -> forall ancs m, shaped 4 5 m -> shaped 4 5 (fold_left (cp_outer b own) ancs m).
Proof.
  intros So. induction ancs as [|a ancs IH]; intros m Sm; cbn [fold_left]; [exact Sm|].
  apply IH. unfold cp_outer. clear IH. revert m Sm. induction own as [|kv own IHo]; intros m Sm; cbn [fold_left]; [exact Sm|].
  pose proof (Forall_inv So) as [Hk Hv]. apply IHo; [apply (Forall_inv_tail So)|].
  unfold cp_inner. destruct (fst kv) as [|x0 [|u' [|x2 [|ic [|]]]]]; try exact Sm.
  apply shaped_cadd; [reflexivity | rewrite length_vneg; exact Hv | exact Sm].
Qed.

(** the group's rows selected by [Q], subtracted from the rows of group [g0] when [g0] is an ancestor-or-self *)
Lemma cp_rows_cval (A : list Z) m b g b0 g0 Q i :
  NoDup A ->
  cval (gsel b0 g0 Q) i (fold_left (cp_outer b (filter (cp_own b g) m)) A m) =
  cval (gsel b0 g0 Q) i m - (if (b =? b0) && mem g0 A then cval (gsel b g Q) i m else 0).
Proof.
  intros ND. rewrite cp_outer_cval. f_equal.
  set (r := fun kv : list Z * list Z => match fst kv with [_; u'; _; ic] => if Q u' ic then nth i (snd kv) 0 else 0 | _ => 0 end).
  assert (Hc : forall a kv, cp_contrib (gsel b0 g0 Q) i b a kv = (if (b =? b0) && (a =? g0) then 1 else 0) * r kv).
  { intros a kv. unfold cp_contrib, r, gsel. destruct (fst kv) as [|x0 [|u' [|x2 [|ic [|]]]]]; try lia.
    destruct ((b =? b0) && (a =? g0)); cbn [andb]; [destruct (Q u' ic); lia | lia]. }
  rewrite (zsum_ext_in _ (fun a => (if (b =? b0) && (a =? g0) then 1 else 0) * zsum r (filter (cp_own b g) m))).
  2:{ intros a _. rewrite (zsum_ext_in _ (fun kv => (if (b =? b0) && (a =? g0) then 1 else 0) * r kv)) by (intros; apply Hc).
      apply zsum_scale. }
  assert (Hr : zsum r (filter (cp_own b g) m) = cval (gsel b g Q) i m).
  { rewrite zsum_filter, cval_zsum. apply zsum_ext_in. intros kv _. unfold cp_own, r, gsel.
    destruct (fst kv) as [|b' [|u' [|g' [|ic [|]]]]]; try reflexivity.
    destruct ((b' =? b) && (g' =? g)); cbn [andb]; reflexivity. }
  rewrite Hr. set (X := cval (gsel b g Q) i m).
  rewrite (zsum_ext_in _ (fun a => X * (if (b =? b0) && (a =? g0) then 1 else 0))) by (intros; lia).
  rewrite zsum_scale, zsum_count.
  rewrite (filter_ext _ (fun a => (b =? b0) && (a =? g0) && true)) by (intros a; rewrite andb_true_r; reflexivity).
  rewrite filter_guard, andb_true_r, (count_nodup g0 A ND).
  destruct (b =? b0); cbn [andb]; [|lia]. destruct (mem g0 A); cbn [ind]; lia.
Qed.

(* ------------------------------------------------------------------ cancel_proc unfolded *)

Lemma cancel_proc_user_res s b g :
  group_cancelled s b g = false ->
  user_res (cancel_proc s b g) = fold_left (cp_F1 s b g) (cancellable s) (user_res s).
Proof.
  intros Hg. unfold cancel_proc. rewrite Hg. cbv zeta.
  match goal with |- user_res (set marks _ (set cancellable _ ?s1)) = _ => change (user_res s1 = fold_left (cp_F1 s b g) (cancellable s) (user_res s)) end.
  apply fold_user_res. intros st [k v]. unfold cp_F1.
  destruct k as [|b' [|u' [|g' [|ic [|]]]]]; try reflexivity.
  destruct v as [|nr [|rc [|ncr [|nrun [|runc [|]]]]]]; try reflexivity.
  unfold committed. match goal with |- context [if ?c then _ else _] => destruct c end; reflexivity.
Qed.

Lemma cancel_proc_cancellable s b g :
  group_cancelled s b g = false ->
  cancellable (cancel_proc s b g) =
  fold_left (cp_outer b (filter (cp_own b g) (cancellable s))) (anc_ids s b g) (cancellable s).
Proof.
  intros Hg. unfold cancel_proc. rewrite Hg. cbv zeta.
  match goal with |- cancellable (set marks _ (set cancellable (fun _ => ?X) ?s1)) = _ => change (X = fold_left (cp_outer b (filter (cp_own b g) (cancellable s))) (anc_ids s b g) (cancellable s)) end.
  rewrite fold_keeps; [reflexivity|].
  intros st kv. repeat dmatch; reflexivity.
Qed.

(* ------------------------------------------------------------------ marks and cancelled groups after the cancellation *)

Lemma gc_existsb s b g : group_cancelled s b g = existsb (marked s b) (anc_ids s b g).
Proof.
  unfold group_cancelled, n_cancelled_anc. induction (anc_ids s b g) as [|a l IH]; [reflexivity|].
  cbn [filter existsb]. destruct (marked s b a); cbn [orb length]; [lia | exact IH].
Qed.

Lemma existsb_orb {A} (f h : A -> bool) l : existsb (fun a => f a || h a) l = existsb f l || existsb h l.
Proof.
  induction l as [|a l IH]; [reflexivity|]. cbn [existsb]. rewrite IH.
  destruct (f a), (h a), (existsb f l), (existsb h l); reflexivity.
Qed.

Section Cancel.
  Variables (s : state) (b g : Z).
  Hypothesis D : DInv s.
  Hypothesis C : CInv s.
  Hypothesis Hg : group_cancelled s b g = false.
  (* the group is the root, or belongs to a committed update (checked by the front end) *)
  Hypothesis Hcom : g = 0 \/ exists ug, committed s b ug = true.
  Let s' := cancel_proc s b g.

  Lemma cn_marks : marks s' = marks s ++ [(b, g)].
  Proof. unfold s'. rewrite cancel_proc_marks, Hg. reflexivity. Qed.

  Lemma cn_marked b' a : marked s' b' a = marked s b' a || ((b' =? b) && (a =? g)).
  Proof.
    unfold marked. rewrite cn_marks, existsb_app. cbn [existsb fst snd]. rewrite orb_false_r.
    rewrite (Z.eqb_sym b b'), (Z.eqb_sym g a). reflexivity.
  Qed.

  Lemma cn_anc b' h : anc_ids s' b' h = anc_ids s b' h.
  Proof. apply anc_ids_ext. apply cancel_proc_ancestors. Qed.

  Lemma cn_gc b' h : group_cancelled s' b' h = group_cancelled s b' h || ((b' =? b) && mem g (anc_ids s b h)).
  Proof.
    rewrite !gc_existsb, cn_anc. rewrite (existsb_ext _ _ _ (cn_marked b')), existsb_orb. f_equal.
    destruct (b' =? b) eqn:E; cbn [andb].
    - assert (b' = b) by lia. subst b'. unfold mem. apply existsb_ext. intros a. apply Z.eqb_sym.
    - induction (anc_ids s b' h); [reflexivity | assumption].
  Qed.

  Lemma cn_committed b' u' : committed s' b' u' = committed s b' u'.
  Proof. apply committed_ext. apply cancel_proc_updates. Qed.

  Lemma cn_bu b' : batch_user s' b' = batch_user s b'.
  Proof. unfold batch_user, find_batch, s'. rewrite cancel_proc_batches. reflexivity. Qed.

  Lemma cn_jgc x : jgc s' x = jgc s x || ((j_batch x =? b) && mem g (anc_ids s b (j_group x))).
  Proof. unfold jgc. apply cn_gc. Qed.

  Lemma cn_UInv : UInv s'.
  Proof.
    intros usr ic i. unfold s'. rewrite cancel_proc_user_res by exact Hg. rewrite cancel_proc_jobs.
    rewrite cp_F1_cval by apply (c_shc _ C). rewrite (c_user _ C usr ic i).
    set (Qc := fun u' ic' => committed s b u' && (ic' =? ic)).
    rewrite (mvz_ext i _ (fun j => zsum (gw s b g Qc j) (jobs s))) by (intros j; apply (c_grp _ C b g Hg Qc j)).
    rewrite mvz_zsum.
    transitivity (zsum (fun x => uw s usr ic i x + (if usr =? batch_user s b then mvz i (fun j => gw s b g Qc j x) else 0)) (jobs s)).
    { rewrite zsum_plus. f_equal. destruct (usr =? batch_user s b); [reflexivity | symmetry; apply zsum_const0]. }
    apply zsum_ext_in. intros x Hx. fold s'.
    unfold uw, usel. rewrite cn_bu, cn_committed, cn_jgc. unfold gw, insub.
    destruct ((j_batch x =? b) && mem g (anc_ids s b (j_group x))) eqn:Sub; cbn [andb].
    - rewrite orb_true_r. apply andb_true_iff in Sub. destruct Sub as [Eb _]. assert (j_batch x = b) by lia. subst b.
      unfold Qc. rewrite (Z.eqb_sym usr).
      destruct (batch_user s (j_batch x) =? usr); cbn [andb].
      + destruct (j_ic x =? ic); cbn [andb]; [|rewrite andb_false_r, mvz_zero; lia].
        rewrite andb_true_r. destruct (committed s (j_batch x) (j_update x)); [|rewrite mvz_zero; lia].
        symmetry. apply uvec_cancel_delta.
      + lia.
    - rewrite orb_false_r. rewrite mvz_zero. destruct (usr =? batch_user s b); lia.
  Qed.

  Lemma cn_GInvC : GInvC s'.
  Proof.
    intros b0 g0 Hg0 Q i. rewrite cn_gc in Hg0. apply orb_false_iff in Hg0. destruct Hg0 as [Hg0 Hng].
    unfold s'. rewrite cancel_proc_cancellable by exact Hg. rewrite cancel_proc_jobs.
    rewrite cp_rows_cval by apply (a_nodup _ (c_anc _ C)).
    rewrite (c_grp _ C b0 g0 Hg0 Q i), (c_grp _ C b g Hg Q i). fold s'.
    destruct (b =? b0) eqn:Ebb; cbn [andb].
    - assert (b0 = b) by lia. subst b0. rewrite Z.eqb_refl in Hng. cbn [andb] in Hng.
      transitivity (zsum (fun x => gw s b g0 Q i x - (if mem g0 (anc_ids s b g) then gw s b g Q i x else 0)) (jobs s)).
      { rewrite zsum_minus. f_equal. destruct (mem g0 (anc_ids s b g)); [reflexivity | symmetry; apply zsum_const0]. }
      apply zsum_ext_in. intros x Hx. unfold gw, insub. rewrite cn_anc, cn_jgc.
      destruct (j_batch x =? b) eqn:Eb; cbn [andb]; [|destruct (mem g0 (anc_ids s b g)); lia].
      destruct (mem g (anc_ids s b (j_group x))) eqn:Mg; cbn [andb].
      + rewrite orb_true_r, cvec_cancelled.
        (* g0 is above the job's group iff it is above g *)
        assert (Heq : mem g0 (anc_ids s b (j_group x)) = mem g0 (anc_ids s b g)).
        { apply mem_In in Mg. destruct (mem g0 (anc_ids s b g)) eqn:M0.
          - apply mem_In in M0. apply mem_In. apply (a_trans _ (c_anc _ C) b (j_group x) g g0); assumption.
          - apply mem_false. intros Hin. apply mem_false in M0. apply mem_false in Hng.
            destruct (a_chain _ (c_anc _ C) b (j_group x) g0 g Hin Mg) as [H1|H1]; contradiction. }
        rewrite Heq. destruct (mem g0 (anc_ids s b g)); cbn [andb]; [|lia].
        destruct (Q (j_update x) (j_ic x)); lia.
      + rewrite orb_false_r. destruct (mem g0 (anc_ids s b g)); lia.
    - rewrite Z.sub_0_r. apply zsum_ext_in. intros x Hx. unfold gw, insub. rewrite cn_anc, cn_jgc.
      destruct (j_batch x =? b0) eqn:Eb; cbn [andb]; [|reflexivity].
      replace (j_batch x =? b) with false by lia. cbn [andb]. rewrite orb_false_r. reflexivity.
  Qed.

  Lemma cn_RInv : RInv s'.
  Proof.
    intros x Hx Hxc Hr. unfold s' in Hx. rewrite cancel_proc_jobs in Hx. unfold jcommitted in Hxc. rewrite cn_committed in Hxc.
    destruct (c_rdy _ C x Hx Hxc Hr) as [R1 R2]. split; [exact R1|]. intros a Ha Hm.
    rewrite cn_anc in Ha. rewrite cn_marked in Hm. apply orb_true_iff in Hm. destruct Hm as [Hm|Hm]; [auto|].
    apply andb_true_iff in Hm. destruct Hm as [Eb Ea]. assert (j_batch x = b) by lia. assert (a = g) by lia. subst a.
    destruct Hcom as [->|(ug & Cug)]; [reflexivity|]. exfalso.
    (* a Ready job of an uncommitted update is in update 1, which would have been committed before [ug] *)
    pose proof (d_jobs _ D x Hx) as Ok. unfold job_ok, jcommitted in Ok. rewrite Hxc in Ok. destruct Ok as [_ Ok].
    destruct (j_update x =? 1) eqn:U1; [|rewrite Ok in Hr; discriminate]. assert (Eu : j_update x = 1) by lia.
    destruct (d_jrange _ D x Hx) as (u1 & F1 & _). rewrite Eu in F1. replace (j_batch x) with b in F1 by lia.
    unfold jcommitted in Hxc. rewrite Eu in Hxc. replace (j_batch x) with b in Hxc by lia.
    unfold committed in Hxc, Cug. rewrite F1 in Hxc.
    destruct (find_update s b ug) as [uu|] eqn:Fu; [|discriminate].
    apply find_update_in in F1. destruct F1 as (H1 & B1 & I1). apply find_update_in in Fu. destruct Fu as (Hu & Bu & Iu).
    destruct (d_upos _ D uu Hu) as (_ & _ & Pos).
    destruct (Z.eq_dec ug 1) as [->|Hne].
    - assert (E : uu = u1).
      { apply (NoDup_map_inj uk (updates s) uu u1 (d_ukeys _ D) Hu H1). unfold uk. congruence. }
      subst uu. congruence.
    - assert (Cu1 : u_committed u1 = true) by (apply (c_pref _ C u1 uu H1 Hu); [congruence | lia | exact Cug]).
      congruence.
  Qed.

  Lemma CInv_cancel_proc : CInv s'.
  Proof.
    constructor.
    - unfold s'. rewrite cancel_proc_cancellable by exact Hg. apply shaped_cp_outer; [apply shaped_filter|]; apply (c_shc _ C).
    - unfold s'. rewrite cancel_proc_staging. apply (c_shs _ C).
    - apply (AInv_ext s); [apply cancel_proc_ancestors | apply (c_anc _ C)].
    - apply (PInv_ext s); [apply cancel_proc_updates | apply (c_pref _ C)].
    - exact cn_RInv.
    - exact cn_UInv.
    - exact cn_GInvC.
    - intros b' u' ic i Hu. rewrite cn_committed in Hu. unfold s'. rewrite cancel_proc_staging, cancel_proc_jobs.
      apply (c_stg _ C). exact Hu.
  Qed.
End Cancel.

Lemma CInv_cancel_proc_any s b g :
  DInv s -> CInv s -> (g = 0 \/ exists ug, committed s b ug = true) -> CInv (cancel_proc s b g).
Proof.
  intros D C H. destruct (group_cancelled s b g) eqn:Hg.
  - unfold cancel_proc. rewrite Hg. exact C.
  - apply CInv_cancel_proc; assumption.
Qed.

Lemma CInv_cancel_group s b g : DInv s -> CInv s -> CInv (fst (do_cancel_group s b g)).
Proof.
  intros D C. unfold do_cancel_group. destruct (find_group s b g) as [gr|]; [|exact C].
  destruct (find_batch s b) as [bt|]; [|exact C].
  match goal with |- context [if ?c then _ else _] => destruct c eqn:Cond end; cbn [fst]; [exact C|].
  apply CInv_cancel_proc_any; auto.
  apply orb_false_iff in Cond. destruct Cond as [_ Cond]. apply negb_false_iff in Cond.
  apply orb_true_iff in Cond. destruct Cond as [Cm|G0]; [|left; lia].
  right. destruct (g_update gr) as [ug|]; [|discriminate]. exists ug. exact Cm.
Qed.

Lemma CInv_delete_batch s b : DInv s -> CInv s -> CInv (fst (do_delete_batch s b)).
Proof.
  intros D C. unfold do_delete_batch. destruct (find_batch s b) as [bt|]; [|exact C].
  destruct (b_deleted bt); [exact C|]. cbn [fst].
  apply (CInv_ceq (cancel_proc s b 0)).
  - apply ceq_batches_map. intros x. destruct (b_id x =? b); split; reflexivity.
  - apply CInv_cancel_proc_any; auto.
Qed.
