(** Jobs table: unique keys, immutable columns, and how [step] may change it.

    [Kjobs s]      the (batch, job) keys of the jobs table are pairwise distinct;
    [static x y]   the immutable columns of a job agree (batch, id, update, group, always_run, cores, inst_coll);
    [evolve s s']  every job of [s] still exists in [s'] with the same immutable columns. *)
From HailV Require Import Common.Prelude BatchDB.Model BatchDB.Tables.
From RecordUpdate Require Import RecordSet.
Import RecordSetNotations.
Open Scope Z_scope.

Definition jk (x : job) : Z * Z := (j_batch x, j_id x).
Definition Kjobs_list (l : list job) : Prop := NoDup (map jk l).
Definition Kjobs (s : state) : Prop := Kjobs_list (jobs s).

Definition static (x y : job) : Prop :=
  j_batch x = j_batch y /\ j_id x = j_id y /\ j_update x = j_update y /\ j_group x = j_group y /\
  j_always x = j_always y /\ j_cores x = j_cores y /\ j_ic x = j_ic y.

Lemma static_refl x : static x x.
Proof. repeat split. Qed.
Lemma static_trans x y z : static x y -> static y z -> static x z.
Proof. unfold static; intuition congruence. Qed.
Lemma static_sym x y : static x y -> static y x.
Proof. unfold static; intuition congruence. Qed.

Lemma jkey_true b j x : jkey b j x = true <-> j_batch x = b /\ j_id x = j.
Proof. unfold jkey. rewrite andb_true_iff, !Z.eqb_eq. tauto. Qed.
Lemma jkey_self x : jkey (j_batch x) (j_id x) x = true.
Proof. apply jkey_true; split; reflexivity. Qed.
Lemma jkey_static b j x y : static x y -> jkey b j x = jkey b j y.
Proof. intros (H1 & H2 & _). unfold jkey. rewrite H1, H2. reflexivity. Qed.
Lemma jkey_jk b j x : jkey b j x = true <-> jk x = (b, j).
Proof. rewrite jkey_true. unfold jk. split; [intros [-> ->]; reflexivity | intros H; injection H; auto]. Qed.

Lemma static_set_state x v : static x (x <| j_state := v |>).
Proof. destruct x; repeat split. Qed.
Lemma static_set_attempt x v : static x (x <| j_attempt := v |>).
Proof. destruct x; repeat split. Qed.
Lemma static_set_npp x v : static x (x <| j_npp := v |>).
Proof. destruct x; repeat split. Qed.
Lemma static_set_cancelled x v : static x (x <| j_cancelled := v |>).
Proof. destruct x; repeat split. Qed.

(* ------------------------------------------------------------------ keys *)

Lemma find_jkey_in l x : Kjobs_list l -> In x l -> find (jkey (j_batch x) (j_id x)) l = Some x.
Proof.
  unfold Kjobs_list. induction l as [|y l IH]; intros K Hin; [contradiction|].
  cbn [map] in K. inversion K as [|? ? Hn K']; subst. cbn [find].
  destruct Hin as [-> | Hin].
  - rewrite jkey_self. reflexivity.
  - destruct (jkey (j_batch x) (j_id x) y) eqn:E.
    + exfalso. apply jkey_jk in E. apply Hn. rewrite E. apply in_map_iff. exists x. split; [reflexivity | exact Hin].
    + apply IH; assumption.
Qed.

Lemma find_jkey_none l b j : find (jkey b j) l = None <-> ~ In (b, j) (map jk l).
Proof.
  split.
  - intros F Hin. apply in_map_iff in Hin. destruct Hin as (x & Hx & Hin).
    pose proof (find_none _ _ F x Hin) as E. apply jkey_jk in Hx. congruence.
  - intros Hn. destruct (find (jkey b j) l) eqn:F; [|reflexivity].
    exfalso. apply find_jkey_sound in F. destruct F as (Hin & H1 & H2).
    apply Hn. apply in_map_iff. exists j0. split; [unfold jk; congruence | exact Hin].
Qed.

Lemma map_jk_replace n l : map jk (replace_job n l) = map jk l.
Proof.
  unfold replace_job. rewrite map_map. apply map_ext_in. intros x _.
  destruct ((j_batch x =? j_batch n) && (j_id x =? j_id n)) eqn:E; [|reflexivity].
  apply andb_true_iff in E. destruct E as [E1 E2]. unfold jk. f_equal; lia.
Qed.

Lemma Kjobs_replace n l : Kjobs_list l -> Kjobs_list (replace_job n l).
Proof. unfold Kjobs_list. rewrite map_jk_replace. auto. Qed.

Lemma Kjobs_update_job s o n : Kjobs s -> Kjobs (update_job s o n).
Proof. unfold Kjobs. rewrite update_job_jobs. apply Kjobs_replace. Qed.

(* ------------------------------------------------------------------ evolution *)

Definition evolve (s s' : state) : Prop :=
  forall b j x, find_job s b j = Some x -> exists x', find_job s' b j = Some x' /\ static x x'.

Lemma evolve_refl s : evolve s s.
Proof. intros b j x H. exists x. split; [exact H | apply static_refl]. Qed.

Lemma evolve_trans s1 s2 s3 : evolve s1 s2 -> evolve s2 s3 -> evolve s1 s3.
Proof.
  intros H12 H23 b j x Hx. destruct (H12 _ _ _ Hx) as (y & Hy & Sy). destruct (H23 _ _ _ Hy) as (z & Hz & Sz).
  exists z. split; [exact Hz | eapply static_trans; eassumption].
Qed.

Lemma evolve_same_jobs s s' : jobs s' = jobs s -> evolve s s'.
Proof. intros E b j x H. exists x. unfold find_job in *. rewrite E. split; [exact H | apply static_refl]. Qed.

(* replacing a row by one with the same immutable columns *)
Lemma evolve_update_job s o n :
  (forall x, find_job s (j_batch n) (j_id n) = Some x -> static x n) ->
  evolve s (update_job s o n).
Proof.
  intros Hs b j x Hx. rewrite find_job_update_job.
  destruct (jkey b j n) eqn:E.
  - rewrite Hx. cbn. exists n. split; [reflexivity|].
    apply jkey_true in E. destruct E as [<- <-]. apply Hs. exact Hx.
  - exists x. split; [exact Hx | apply static_refl].
Qed.

(* the common pattern: the row that is written is a modification of the row that is there *)
Lemma evolve_update_job_found s o n x :
  find_job s (j_batch n) (j_id n) = Some x -> static x n -> evolve s (update_job s o n).
Proof. intros F S. apply evolve_update_job. intros y Fy. congruence. Qed.

Lemma evolve_append s s' new :
  jobs s' = jobs s ++ new -> evolve s s'.
Proof.
  intros E b j x H. exists x. split; [|apply static_refl].
  rewrite find_job_eq in *. rewrite E, find_jkey_app, H. reflexivity.
Qed.

Lemma find_job_static_key s b j x : find_job s b j = Some x -> j_batch x = b /\ j_id x = j.
Proof. intros H. apply find_jkey_sound in H. tauto. Qed.
