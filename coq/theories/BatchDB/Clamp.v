(** C03: the attempts_before_update clamp — billed time is monotone and bounded.

    Everything here is about [Model.clamp4] (a transcription of the trigger as redefined by
    batch/sql/124-attempts-before-update-timeout-after-reason.sql; the translation of the live trigger text is
    proved equal to it in ClampTie.v; [clamp4_unfixed] below is the 067 definition, kept as the regression witness) and about sequences of update requests of the shapes the service issues. *)
From HailV Require Import Common.Prelude BatchDB.Model.
Open Scope Z_scope.

(** The four shapes of `UPDATE attempts SET ...` in the service (DESIGN §5.A / C03):
    creating/started reports, complete reports, unschedule/deactivation, billing heartbeats. *)
Inductive request :=
| RStarted (t : Z)                                   (* start_time = t, rollup_time = t *)
| RCompleted (start : option Z) (e : Z) (reason : Z) (* start_time, rollup_time = end_time = e, reason *)
| REnded (t : Z) (reason : Z)                        (* rollup_time = end_time = t, reason *)
| RHeartbeat (t : Z).                                (* rollup_time = t *)

Definition apply_request (o : times) (r : request) : times :=
  let '(os, orl, oe, ors) := o in
  match r with
  | RStarted t => (Some t, Some t, oe, ors)
  | RCompleted st e rs => (st, Some e, Some e, Some rs)
  | REnded t rs => (os, Some t, Some t, Some rs)
  | RHeartbeat t => (os, Some t, oe, ors)
  end.

Definition clamp_apply (o : times) (r : request) : times := clamp4 o (apply_request o r).

Definition t_start (t : times) := let '(s, _, _, _) := t in s.
Definition t_rollup (t : times) := let '(_, r, _, _) := t in r.
Definition t_end (t : times) := let '(_, _, e, _) := t in e.
Definition t_reason (t : times) := let '(_, _, _, rs) := t in rs.

Definition billed4 (t : times) : Z :=
  match t_rollup t, t_start t with Some r, Some s => Z.max (r - s) 0 | _, _ => 0 end.

Lemma billed_billed4 a : billed a = billed4 (times_of a).
Proof. reflexivity. Qed.

(** Invariant of an attempt row. *)
Definition AInv (a : times) : Prop :=
  (forall r e, t_rollup a = Some r -> t_end a = Some e -> r <= e) /\      (* rollup never after the end *)
  (t_end a = None <-> t_reason a = None) /\                                (* end time and end reason come together *)
  (t_reason a = Some REASON_ACTIVATION_TIMEOUT -> t_start a = None).       (* a timed-out attempt has no start: it bills nothing *)

Definition fresh : times := (None, None, None, None).

Lemma fresh_inv : AInv fresh.
Proof. repeat split; cbn; try discriminate; tauto. Qed.

Ltac open_times o := destruct o as [[[os orl] oe] ors]; destruct os as [os|], orl as [orl|], oe as [oe|], ors as [ors|].

Ltac kill_inv H2 := try (exfalso; cbn in H2; destruct H2 as [Ha Hb]; (specialize (Ha eq_refl) || specialize (Hb eq_refl)); discriminate).

Ltac unfold_clamp :=
  unfold clamp_apply, apply_request, clamp4, olt, oeqb, billed4, t_start, t_rollup, t_end, t_reason, REASON_ACTIVATION_TIMEOUT in *.

Ltac ifs := repeat match goal with |- context [if ?c then _ else _] => destruct c eqn:? end.

(* the third clause: a row with a start does not carry the timeout reason (case split on the stored reason) *)
Ltac kill_timeout H3 :=
  cbn in H3;
  try match type of H3 with
      | Some ?x = Some _ -> Some _ = None =>
          destruct (Z.eq_dec x 1) as [-> | ?]; [exfalso; specialize (H3 eq_refl); discriminate | clear H3]
      end.

Lemma clamp_inv_step o r : AInv o -> AInv (clamp_apply o r).
Proof.
  intros (H1 & H2 & H3); open_times o; kill_inv H2;
  destruct r as [t | st e rs | t rs | t]; try destruct st as [st|];
  unfold AInv; unfold_clamp; ifs;
  (split; [ intros r0 e0 Hr He; cbn in *;
            try specialize (H1 _ _ eq_refl eq_refl);
            repeat match goal with H : Some _ = Some _ |- _ => injection H as H; subst end;
            try discriminate; lia
          | split; [ cbn; split; intros; congruence
                   | cbn; intros Hq; try reflexivity; try discriminate; exfalso;
                     injection Hq as Hq; lia ] ]).
Qed.

Theorem clamp_inv_reachable rs : AInv (fold_left clamp_apply rs fresh).
Proof.
  assert (H : forall o, AInv o -> AInv (fold_left clamp_apply rs o)).
  { induction rs as [|r rs IH]; intros o Ho; cbn [fold_left]; [exact Ho | apply IH, clamp_inv_step, Ho]. }
  apply H, fresh_inv.
Qed.

(** (1) never negative. *)
Lemma billed4_nonneg t : 0 <= billed4 t.
Proof. destruct t as [[[s r] e] rs]; unfold billed4; cbn; destruct r, s; lia. Qed.

(** (2) once the attempt has ended, billed time is at most end - start (and 0 when that is negative). *)
Lemma billed4_bounded t : AInv t ->
  forall e, t_end t = Some e ->
  billed4 t <= match t_start t with Some s => Z.max (e - s) 0 | None => 0 end.
Proof.
  intros (H1 & _) e He; destruct t as [[[s r] e'] rs]; cbn in *; subst e'.
  unfold billed4; cbn. destruct r as [r|], s as [s|]; try lia.
  specialize (H1 r e eq_refl eq_refl); lia.
Qed.

(** The request carries the reason activation_timeout ... *)
Definition request_is_timeout (r : request) : bool :=
  match r with
  | RCompleted _ _ rs | REnded _ rs => rs =? REASON_ACTIVATION_TIMEOUT
  | _ => false
  end.

(** ... and it MARKS the timeout when the row carries that reason after it.  (A timeout request that arrives after the
    attempt has ended with an earlier-or-equal end is ignored like any other late end: the stored end and reason win.) *)
Definition marks_timeout (o : times) (r : request) : Prop :=
  request_is_timeout r = true /\ t_reason (clamp_apply o r) = Some REASON_ACTIVATION_TIMEOUT.

(** An attempt that carries the reason activation_timeout bills nothing. *)
Lemma timeout_row_bills_nothing t : AInv t -> t_reason t = Some REASON_ACTIVATION_TIMEOUT -> t_start t = None /\ billed4 t = 0.
Proof.
  intros (_ & _ & H3) Hr. specialize (H3 Hr). split; [exact H3|].
  destruct t as [[[s r] e] rs]; cbn in H3; subst s. unfold billed4; cbn. destruct r; reflexivity.
Qed.

(** Whatever the row was (no invariant needed): after a report that leaves the reason activation_timeout, nothing is billed. *)
Lemma clamp_timeout_no_start o n : t_reason (clamp4 o n) = Some REASON_ACTIVATION_TIMEOUT -> t_start (clamp4 o n) = None.
Proof.
  destruct o as [[[os orl] oe] ors], n as [[[ns nrl] ne] nrs].
  unfold clamp4, t_reason, t_start. cbv zeta.
  match goal with |- context [if ?k then ors else nrs] => destruct k end; intros ->; reflexivity.
Qed.

Lemma timeout_bills_nothing o r : t_reason (clamp_apply o r) = Some REASON_ACTIVATION_TIMEOUT -> billed4 (clamp_apply o r) = 0.
Proof.
  intros H. pose proof (clamp_timeout_no_start _ _ H) as Hs. fold (clamp_apply o r) in Hs.
  destruct (clamp_apply o r) as [[[s rl] e] rs]; cbn in Hs; subst s. unfold billed4; cbn. destruct rl; reflexivity.
Qed.

(** A timeout request on an attempt that has not ended is always accepted (it marks the timeout). *)
Lemma timeout_request_marks o r : t_reason o = None -> request_is_timeout r = true -> marks_timeout o r.
Proof.
  intros Ho Hr; split; [exact Hr|].
  open_times o; cbn in Ho; try discriminate;
  destruct r as [t | st e rs | t rs | t]; try destruct st as [st|];
  unfold request_is_timeout in Hr; try discriminate; apply Z.eqb_eq in Hr; subst rs; reflexivity.
Qed.

(** (3) a report never decreases the billed time unless it marks an activation timeout or leaves the
    attempt with an end time that lies before the time already billed (the end is corrected to an
    earlier time). *)
Lemma billed4_monotone o r : AInv o ->
  billed4 (clamp_apply o r) < billed4 o ->
  marks_timeout o r \/
  (exists e ro, t_end (clamp_apply o r) = Some e /\ t_rollup o = Some ro /\ e < ro).
Proof.
  intros (H1 & H2 & H3); open_times o; kill_inv H2; kill_timeout H3;
  destruct r as [t | st e rs | t rs | t]; try destruct st as [st|];
  unfold marks_timeout, request_is_timeout; unfold_clamp; cbn;
  ifs; cbn; intros Hlt;
  try (specialize (H1 _ _ eq_refl eq_refl));
  try lia;
  try (left; split; [lia | f_equal; lia]);
  try (right; do 2 eexists; repeat split; try reflexivity; lia).
Qed.

(** (4) the start time only ever moves earlier; only a report that marks an activation timeout erases it
    (then nothing is billed). *)
Lemma start_only_earlier o r s : AInv o -> t_start o = Some s ->
  match t_start (clamp_apply o r) with
  | Some s' => s' <= s
  | None => marks_timeout o r
  end.
Proof.
  intros (H1 & H2 & H3); open_times o; kill_inv H2; kill_timeout H3;
  destruct r as [t | st e rs | t rs | t]; try destruct st as [st|];
  unfold marks_timeout, request_is_timeout; unfold_clamp; cbn; intros Hs; try discriminate; injection Hs as <-; ifs; cbn;
  try lia; try (split; [lia | f_equal; lia]).
Qed.

(** (5) once an attempt has an end reason, a later report can only replace its end time with an earlier
    one; the reason stays set. *)
Lemma end_only_earlier o r e : AInv o -> t_end o = Some e ->
  (exists e', t_end (clamp_apply o r) = Some e' /\ e' <= e) /\ t_reason (clamp_apply o r) <> None.
Proof.
  intros (H1 & H2 & _); open_times o; kill_inv H2;
  destruct r as [t | st e0 rs | t rs | t]; try destruct st as [st|];
  unfold_clamp; cbn; intros He; try discriminate; injection He as <-; ifs; cbn;
  (split; [eexists; split; [reflexivity | lia] | discriminate]).
Qed.

(** ... and unless the end is replaced by a strictly earlier one, end time and reason are exactly kept. *)
Lemma end_kept_or_earlier o r e : AInv o -> t_end o = Some e ->
  (t_end (clamp_apply o r) = Some e /\ t_reason (clamp_apply o r) = t_reason o) \/
  (exists e', t_end (clamp_apply o r) = Some e' /\ e' < e).
Proof.
  intros (H1 & H2 & _); open_times o; kill_inv H2;
  destruct r as [t | st e0 rs | t rs | t]; try destruct st as [st|];
  unfold_clamp; cbn; intros He; try discriminate; injection He as <-; ifs; cbn;
  first [ left; split; reflexivity | right; eexists; split; [reflexivity | lia] ].
Qed.

(* ------------------------------------------------------------------ the trigger BEFORE migration 124 (regression witness) *)

(** The clamp of batch/sql/067-add-real-time-billing.sql: the activation-timeout block came BEFORE the block that restores
    the stored end time and reason, so it tested the reason of the REQUEST (which every UPDATE that does not set the column
    inherits from the stored row), not the reason the row will carry. *)
Definition clamp4_unfixed (o n : times) : times :=
  let '(os, orl, oe, ors) := o in
  let '(ns, nrl, ne, nrs) := n in
  let ns1 := match os with
             | Some x => match ns with None => os | Some y => if x <? y then os else ns end
             | None => ns end in
  let ns2 := if oeqb nrs (Some REASON_ACTIVATION_TIMEOUT) then None else ns1 in
  let keep := match ors with
              | Some _ => match oe, ne with Some a, Some b => a <=? b | _, _ => true end
              | None => false end in
  let ne3 := if keep then oe else ne in
  let nrs3 := if keep then ors else nrs in
  let nrl4 := if olt nrl orl then orl else nrl in
  let nrl5 := if olt nrl4 ns2 then orl else nrl4 in
  let nrl6 := if olt ne3 nrl5 then ne3 else nrl5 in
  (ns2, nrl6, ne3, nrs3).

Definition clamp_apply_unfixed (o : times) (r : request) : times := clamp4_unfixed o (apply_request o r).

(** With that order the full statements (3) and (4) are FALSE: an attempt that was ended with an activation timeout keeps
    that reason, a late complete report (later end, so the old end and reason are kept) still installs its start time and
    thereby bills time (although the attempt carries the timeout reason), and the next heartbeat erases the start again
    (NEW.reason is still 'activation_timeout'): billed time drops from 7 to 0 and the start goes from 3 to NULL on a report
    that is neither a timeout nor an end correction.  The same sequence through the repaired clamp: nothing is ever billed. *)
Definition refute_history : list request := [REnded 10 REASON_ACTIVATION_TIMEOUT; RCompleted (Some 3) 12 2].

Lemma unfixed_trigger_refuted :
  let o := fold_left clamp_apply_unfixed refute_history fresh in
  let r := RHeartbeat 11 in
  t_reason o = Some REASON_ACTIVATION_TIMEOUT /\ 0 < billed4 o /\                       (* a timed-out attempt is billed *)
  billed4 (clamp_apply_unfixed o r) < billed4 o /\ request_is_timeout r = false /\       (* (3) fails *)
  ~ (exists e ro, t_end (clamp_apply_unfixed o r) = Some e /\ t_rollup o = Some ro /\ e < ro) /\
  t_start o = Some 3 /\ t_start (clamp_apply_unfixed o r) = None.                        (* (4) fails *)
Proof.
  vm_compute. repeat split; try reflexivity.
  intros (e & ro & He & Hr & Hlt). injection He as <-; injection Hr as <-. discriminate Hlt.
Qed.

Lemma fixed_trigger_on_refute_history :
  let o := fold_left clamp_apply refute_history fresh in
  o = (None, Some 10, Some 10, Some REASON_ACTIVATION_TIMEOUT) /\ clamp_apply o (RHeartbeat 11) = o.
Proof. vm_compute. split; reflexivity. Qed.

(** The two clamps differ only there: they agree on every request to a row that satisfies the invariant and whose
    stored reason is not activation_timeout, unless the request is a timeout request that is ignored (late). *)
Lemma unfixed_agrees o r : t_reason o = None -> clamp_apply_unfixed o r = clamp_apply o r.
Proof.
  open_times o; cbn; intros Ho; try discriminate;
  destruct r as [t | st e rs | t rs | t]; try destruct st as [st|]; reflexivity.
Qed.

(** Non-vacuity: a concrete sequence (start, heartbeat, late earlier end) that meets every hypothesis and
    exercises the clamp: the end at 8 cuts the heartbeat at 10. *)
Example clamp_example :
  fold_left clamp_apply [RStarted 5; RHeartbeat 10; REnded 8 2; RHeartbeat 20; RStarted 3] fresh
  = (Some 3, Some 8, Some 8, Some 2).
Proof. vm_compute. reflexivity. Qed.
