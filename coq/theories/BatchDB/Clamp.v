(** C03: the attempts_before_update clamp — billed time is monotone and bounded.

    Everything here is about [Model.clamp4] (a transcription of the trigger in
    batch/sql/067-add-real-time-billing.sql; the translation of the live trigger text is proved equal to
    it in ClampGen.v) and about sequences of update requests of the shapes the service issues. *)
From HailV Require Import Common.Prelude BatchDB.Model.
Open Scope Z_scope.

(** The four shapes of `UPDATE attempts SET ...` in the service (DESIGN §5.A / C03):
    creating/started reports, complete reports, unschedule/deactivation, billing heartbeats. *)
Inductive request :=
| RStarted (t : Z)                                   (* start_time = t, rollup_time = t *)
| RCompleted (start : option Z) (e : Z) (reason : Z) (* start_time, rollup_time = end_time = e, reason *)
| REnded (t : Z) (reason : Z)                        (* rollup_time = end_time = t, reason *)
| RHeartbeat (t : Z).                                (* rollup_time = t *)

Definition apply_request (o : times) (r : request) : times :=
  let '(os, orl, oe, ors) := o in
  match r with
  | RStarted t => (Some t, Some t, oe, ors)
  | RCompleted st e rs => (st, Some e, Some e, Some rs)
  | REnded t rs => (os, Some t, Some t, Some rs)
  | RHeartbeat t => (os, Some t, oe, ors)
  end.

Definition clamp_apply (o : times) (r : request) : times := clamp4 o (apply_request o r).

Definition t_start (t : times) := let '(s, _, _, _) := t in s.
Definition t_rollup (t : times) := let '(_, r, _, _) := t in r.
Definition t_end (t : times) := let '(_, _, e, _) := t in e.
Definition t_reason (t : times) := let '(_, _, _, rs) := t in rs.

Definition billed4 (t : times) : Z :=
  match t_rollup t, t_start t with Some r, Some s => Z.max (r - s) 0 | _, _ => 0 end.

Lemma billed_billed4 a : billed a = billed4 (times_of a).
Proof. reflexivity. Qed.

(** Invariant of an attempt row. *)
Definition AInv (a : times) : Prop :=
  (forall r e, t_rollup a = Some r -> t_end a = Some e -> r <= e) /\      (* rollup never after the end *)
  (t_end a = None <-> t_reason a = None).                                  (* end time and end reason come together *)

Definition fresh : times := (None, None, None, None).

Lemma fresh_inv : AInv fresh.
Proof. split; cbn; [discriminate | tauto]. Qed.

Ltac open_times o := destruct o as [[[os orl] oe] ors]; destruct os as [os|], orl as [orl|], oe as [oe|], ors as [ors|].

Ltac kill_inv H2 := try (exfalso; cbn in H2; destruct H2 as [Ha Hb]; (specialize (Ha eq_refl) || specialize (Hb eq_refl)); discriminate).

Ltac unfold_clamp :=
  unfold clamp_apply, apply_request, clamp4, olt, oeqb, billed4, t_start, t_rollup, t_end, t_reason, REASON_ACTIVATION_TIMEOUT in *.

Ltac ifs := repeat match goal with |- context [if ?c then _ else _] => destruct c eqn:? end.

Lemma clamp_inv_step o r : AInv o -> AInv (clamp_apply o r).
Proof.
  intros [H1 H2]; open_times o; kill_inv H2;
  destruct r as [t | st e rs | t rs | t]; try destruct st as [st|];
  unfold_clamp; ifs;
  (split; [ intros r0 e0 Hr He; cbn in *;
            try specialize (H1 _ _ eq_refl eq_refl);
            repeat match goal with H : Some _ = Some _ |- _ => injection H as H; subst end;
            try discriminate; lia
          | cbn; split; intros; congruence ]).
Qed.

Theorem clamp_inv_reachable rs : AInv (fold_left clamp_apply rs fresh).
Proof.
  assert (H : forall o, AInv o -> AInv (fold_left clamp_apply rs o)).
  { induction rs as [|r rs IH]; intros o Ho; cbn [fold_left]; [exact Ho | apply IH, clamp_inv_step, Ho]. }
  apply H, fresh_inv.
Qed.

(** (1) never negative. *)
Lemma billed4_nonneg t : 0 <= billed4 t.
Proof. destruct t as [[[s r] e] rs]; unfold billed4; cbn; destruct r, s; lia. Qed.

(** (2) once the attempt has ended, billed time is at most end - start (and 0 when that is negative). *)
Lemma billed4_bounded t : AInv t ->
  forall e, t_end t = Some e ->
  billed4 t <= match t_start t with Some s => Z.max (e - s) 0 | None => 0 end.
Proof.
  intros [H1 _] e He; destruct t as [[[s r] e'] rs]; cbn in *; subst e'.
  unfold billed4; cbn. destruct r as [r|], s as [s|]; try lia.
  specialize (H1 r e eq_refl eq_refl); lia.
Qed.

Definition request_is_timeout (r : request) : bool :=
  match r with
  | RCompleted _ _ rs | REnded _ rs => rs =? REASON_ACTIVATION_TIMEOUT
  | _ => false
  end.

(** (3) a report never decreases the billed time unless it marks an activation timeout or leaves the
    attempt with an end time that lies before the time already billed (the end is corrected to an
    earlier time). *)
Lemma billed4_monotone o r : AInv o ->
  t_reason o <> Some REASON_ACTIVATION_TIMEOUT ->
  billed4 (clamp_apply o r) < billed4 o ->
  request_is_timeout r = true \/
  (exists e ro, t_end (clamp_apply o r) = Some e /\ t_rollup o = Some ro /\ e < ro).
Proof.
  intros [H1 H2] Hnt; open_times o; kill_inv H2;
  destruct r as [t | st e rs | t rs | t]; try destruct st as [st|];
  unfold request_is_timeout; unfold_clamp; cbn in Hnt |- *;
  ifs; cbn; intros Hlt;
  try (exfalso; apply Hnt; f_equal; lia);
  try (specialize (H1 _ _ eq_refl eq_refl));
  try lia;
  try (left; lia);
  try (right; do 2 eexists; repeat split; try reflexivity; lia).
Qed.

(** (4) the start time only ever moves earlier (an activation timeout erases it: nothing is billed). *)
Lemma start_only_earlier o r s : t_reason o <> Some REASON_ACTIVATION_TIMEOUT -> t_start o = Some s ->
  match t_start (clamp_apply o r) with
  | Some s' => s' <= s
  | None => request_is_timeout r = true
  end.
Proof.
  open_times o; destruct r as [t | st e rs | t rs | t]; try destruct st as [st|];
  unfold request_is_timeout; unfold_clamp; cbn; intros Hnt Hs; try discriminate; injection Hs as <-; ifs; cbn;
  try lia; exfalso; apply Hnt; f_equal; lia.
Qed.

(** (5) once an attempt has an end reason, a later report can only replace its end time with an earlier
    one; the reason stays set. *)
Lemma end_only_earlier o r e : AInv o -> t_end o = Some e ->
  (exists e', t_end (clamp_apply o r) = Some e' /\ e' <= e) /\ t_reason (clamp_apply o r) <> None.
Proof.
  intros [H1 H2]; open_times o; kill_inv H2;
  destruct r as [t | st e0 rs | t rs | t]; try destruct st as [st|];
  unfold_clamp; cbn; intros He; try discriminate; injection He as <-; ifs; cbn;
  (split; [eexists; split; [reflexivity | lia] | discriminate]).
Qed.

(** The unguarded form of (3) is FALSE for the trigger as it stands: an attempt that was ended with an
    activation timeout keeps that reason, a late complete report (later end, so the old end and reason are
    kept) still installs its start time and thereby bills time, and the next heartbeat erases the start
    again (NEW.reason is still 'activation_timeout'): billed time drops from 7 to 0 on a report that is
    neither a timeout nor an end correction.  Replayed on the real trigger by the C03 oracle. *)
Definition refute_history : list request := [REnded 10 REASON_ACTIVATION_TIMEOUT; RCompleted (Some 3) 12 2].

Lemma billed4_monotone_refuted :
  exists o r, AInv o /\ (exists rs, o = fold_left clamp_apply rs fresh) /\
    billed4 (clamp_apply o r) < billed4 o /\ request_is_timeout r = false /\
    ~ (exists e ro, t_end (clamp_apply o r) = Some e /\ t_rollup o = Some ro /\ e < ro).
Proof.
  exists (fold_left clamp_apply refute_history fresh), (RHeartbeat 11).
  split; [apply clamp_inv_reachable|]. split; [eexists; reflexivity|].
  vm_compute. split; [reflexivity|]. split; [reflexivity|].
  intros (e & ro & He & Hr & Hlt). injection He as <-; injection Hr as <-. discriminate Hlt.
Qed.

(** Non-vacuity: a concrete sequence (start, heartbeat, late earlier end) that meets every hypothesis and
    exercises the clamp: the end at 8 cuts the heartbeat at 10. *)
Example clamp_example :
  fold_left clamp_apply [RStarted 5; RHeartbeat 10; REnded 8 2; RHeartbeat 20; RStarted 3] fresh
  = (Some 3, Some 8, Some 8, Some 2).
Proof. vm_compute. reflexivity. Qed.
