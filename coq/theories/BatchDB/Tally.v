(** The tally invariant [TInv] of the batch database (C06, and the "counted exactly once" half of C04): definitions,
    counting lemmas and the transfer of [TInv] along every transaction that rewrites job rows without changing
    their immutable columns or their outcome class.

    For a group [g] of batch [b], [subtree] = the jobs [x] of batch [b] such that [g] is an ancestor-or-self of
    [j_group x] ([in_sub]).  [cnt s b g q] counts the COMMITTED jobs of the subtree whose state satisfies [q].
    [TInv s] says, for every group row:
      n_jobs = cnt all, n_completed = cnt terminal, n_succeeded = cnt Success, n_failed = cnt (Error|Failed),
      n_cancelled = cnt Cancelled, and state = 'complete' (g_running = false) iff n_completed = n_jobs;
    the batch row mirrors its root group (n_jobs, state); for every uncommitted update the staging counter of
    every group equals the number of the update's jobs in that group's subtree; ancestor lists have no duplicates
    and name existing groups. *)
From HailV Require Import Common.Prelude BatchDB.Model BatchDB.Tables BatchDB.CMap BatchDB.JobsWF BatchDB.StepCore
  BatchDB.JobFold BatchDB.Legal BatchDB.DepsDef BatchDB.DepsEasy BatchDB.DepsMap BatchDB.DepsDriver BatchDB.DepsDeactivate
  BatchDB.DepsStruct.
From RecordUpdate Require Import RecordSet.
Import RecordSetNotations.
Open Scope Z_scope.

(* ------------------------------------------------------------------ outcome classes *)

(** 0 = not finished, 1 = succeeded, 2 = failed (Failed or Error), 3 = cancelled: the classification of
    mark_job_complete (116). *)
Definition jclass (st : jstate) : Z :=
  match st with Success => 1 | Failed | Error => 2 | Cancelled => 3 | _ => 0 end.

Definition q_all (_ : jstate) : bool := true.
Definition q_succ (st : jstate) : bool := jstate_eqb st Success.
Definition q_fail (st : jstate) : bool := jstate_eqb st Error || jstate_eqb st Failed.
Definition q_canc (st : jstate) : bool := jstate_eqb st Cancelled.

Definition cls_ok (q : jstate -> bool) : Prop := forall a b, jclass a = jclass b -> q a = q b.

Lemma cls_all : cls_ok q_all. Proof. intros a b _. reflexivity. Qed.
Lemma cls_term : cls_ok terminal. Proof. intros a b; destruct a, b; cbn; intros H; try reflexivity; discriminate. Qed.
Lemma cls_succ : cls_ok q_succ. Proof. intros a b; destruct a, b; cbn; intros H; try reflexivity; discriminate. Qed.
Lemma cls_fail : cls_ok q_fail. Proof. intros a b; destruct a, b; cbn; intros H; try reflexivity; discriminate. Qed.
Lemma cls_canc : cls_ok q_canc. Proof. intros a b; destruct a, b; cbn; intros H; try reflexivity; discriminate. Qed.

Lemma jclass_live st : terminal st = false <-> jclass st = 0.
Proof. destruct st; cbn; split; intros H; try reflexivity; discriminate. Qed.

(* ------------------------------------------------------------------ subtrees and counts *)

Definition in_sub (s : state) (b g : Z) (x : job) : bool :=
  (j_batch x =? b) && existsb (Z.eqb g) (anc_ids s b (j_group x)).

Definition sel (s : state) (b g : Z) (q : jstate -> bool) (x : job) : bool :=
  in_sub s b g x && jcommitted s x && q (j_state x).

Definition cnt (s : state) (b g : Z) (q : jstate -> bool) : Z :=
  Z.of_nat (length (filter (sel s b g q) (jobs s))).

Definition gstaged (s : state) (b u g : Z) : Z :=
  cval (fun k => key_eqb (firstn 3 k) [b; u; g]) 0 (staging s).

Definition usel (s : state) (b u g : Z) (x : job) : bool := in_sub s b g x && (j_update x =? u).

Definition n_sub_upd (s : state) (b u g : Z) : Z :=
  Z.of_nat (length (filter (usel s b u g) (jobs s))).

Record group_ok (s : state) (gr : group) : Prop := {
  go_njobs : g_njobs gr = cnt s (g_batch gr) (g_id gr) q_all;
  go_ncomp : g_ncompleted gr = cnt s (g_batch gr) (g_id gr) terminal;
  go_nsucc : g_nsucc gr = cnt s (g_batch gr) (g_id gr) q_succ;
  go_nfail : g_nfailed gr = cnt s (g_batch gr) (g_id gr) q_fail;
  go_ncanc : g_ncancelled gr = cnt s (g_batch gr) (g_id gr) q_canc;
  go_run : g_running gr = negb (g_ncompleted gr =? g_njobs gr) }.

Record TInv (s : state) : Prop := {
  t_groups : forall gr, In gr (groups s) -> group_ok s gr;
  t_batch : forall bt gr, In bt (batches s) -> In gr (groups s) -> g_batch gr = b_id bt -> g_id gr = 0 ->
              b_njobs bt = g_njobs gr /\ b_running bt = g_running gr;
  t_broot : forall bt, In bt (batches s) -> find_group s (b_id bt) 0 <> None;
  t_staged : forall b u g, committed s b u = false -> gstaged s b u g = n_sub_upd s b u g;
  t_ancnd : forall b g, NoDup (anc_ids s b g);
  t_ancex : forall b g a l, In (b, g, a, l) (ancestors s) -> find_group s b a <> None }.

Lemma TInv_init : TInv init.
Proof.
  constructor; cbn; try (intros; contradiction).
  - intros b u g _. reflexivity.
  - intros b g. constructor.
Qed.

(* ------------------------------------------------------------------ list counting *)

Lemma len_filter_map {A B} (h : A -> B) (q' : B -> bool) (q : A -> bool) l :
  (forall y, In y l -> q' (h y) = q y) -> length (filter q' (map h l)) = length (filter q l).
Proof.
  induction l as [|a l IH]; intros H; [reflexivity|]. cbn [map filter].
  rewrite (H a (or_introl eq_refl)). specialize (IH (fun y Hy => H y (or_intror Hy))).
  destruct (q a); cbn [length]; rewrite IH; reflexivity.
Qed.

Lemma len_filter_ext_in {A} (q' q : A -> bool) l :
  (forall y, In y l -> q' y = q y) -> length (filter q' l) = length (filter q l).
Proof. intros H. pose proof (len_filter_map (fun y : A => y) q' q l H) as E. rewrite map_id in E. exact E. Qed.

Lemma len_filter_le {A} (q' q : A -> bool) l :
  (forall y, In y l -> q' y = true -> q y = true) -> (length (filter q' l) <= length (filter q l))%nat.
Proof.
  induction l as [|a l IH]; intros H; [apply le_n|]. cbn [filter].
  specialize (IH (fun y Hy => H y (or_intror Hy))). pose proof (H a (or_introl eq_refl)) as Ha.
  destruct (q' a), (q a); cbn [length]; try lia.
Qed.

Lemma len_filter_zero {A} (q : A -> bool) l : (forall y, In y l -> q y = false) -> length (filter q l) = 0%nat.
Proof. intros H. rewrite (filter_all_false q l H). reflexivity. Qed.

(* a disjoint disjunction splits a count *)
Lemma len_filter_split {A} (q q1 q2 : A -> bool) l :
  (forall y, In y l -> q y = q1 y || q2 y) -> (forall y, In y l -> q1 y && q2 y = false) ->
  length (filter q l) = (length (filter q1 l) + length (filter q2 l))%nat.
Proof.
  induction l as [|a l IH]; intros H D; [reflexivity|]. cbn [filter].
  rewrite (H a (or_introl eq_refl)). pose proof (D a (or_introl eq_refl)) as Da.
  specialize (IH (fun y Hy => H y (or_intror Hy)) (fun y Hy => D y (or_intror Hy))).
  destruct (q1 a), (q2 a); cbn [orb length] in *; try discriminate; lia.
Qed.

(* exactly one element of a duplicate-free list changes its membership *)
Lemma len_filter_map_one {A} (h : A -> A) (q' q : A -> bool) (x : A) l :
  NoDup l -> In x l -> (forall y, In y l -> y <> x -> q' (h y) = q y) ->
  Z.of_nat (length (filter q' (map h l))) = Z.of_nat (length (filter q l)) + ind (q' (h x)) - ind (q x).
Proof.
  intros ND Hin H. apply in_split in Hin. destruct Hin as (l1 & l2 & ->).
  pose proof (NoDup_remove_2 _ _ _ ND) as Hn.
  assert (H1 : forall y, In y l1 -> q' (h y) = q y).
  { intros y Hy. apply H; [apply in_or_app; left; exact Hy|]. intros ->. apply Hn. apply in_or_app. left; exact Hy. }
  assert (H2 : forall y, In y l2 -> q' (h y) = q y).
  { intros y Hy. apply H; [apply in_or_app; right; right; exact Hy|]. intros ->. apply Hn. apply in_or_app. right; exact Hy. }
  rewrite map_app, !filter_app, !app_length. cbn [map filter].
  pose proof (len_filter_map h q' q l1 H1) as E1. pose proof (len_filter_map h q' q l2 H2) as E2.
  destruct (q' (h x)), (q x); cbn [length ind]; lia.
Qed.

Lemma NoDup_of_map {A B} (f : A -> B) l : NoDup (map f l) -> NoDup l.
Proof.
  induction l as [|a l IH]; intros N; [constructor|]. cbn [map] in N. inversion N as [|? ? Hn N']; subst.
  constructor; [|apply IH; exact N']. intros Hin. apply Hn. apply in_map. exact Hin.
Qed.

Lemma count_nodup g l : NoDup l -> Z.of_nat (length (filter (Z.eqb g) l)) = ind (existsb (Z.eqb g) l).
Proof.
  induction l as [|a l IH]; intros N; [reflexivity|]. inversion N as [|? ? Hn N']; subst. cbn [filter existsb].
  destruct (g =? a) eqn:E.
  - assert (g = a) by lia. subst a. cbn [orb length ind].
    rewrite (filter_all_false (Z.eqb g) l); [reflexivity|].
    intros y Hy. apply Z.eqb_neq. intros ->. contradiction.
  - cbn [orb]. apply IH. exact N'.
Qed.

(* ------------------------------------------------------------------ counts only depend on a few columns *)

Lemma anc_ids_ext s s' b g : ancestors s' = ancestors s -> anc_ids s' b g = anc_ids s b g.
Proof. intros E. unfold anc_ids, anc_rows. rewrite E. reflexivity. Qed.

Lemma in_sub_static s s' b g y y' :
  static y y' -> (j_batch y = b -> anc_ids s' b (j_group y) = anc_ids s b (j_group y)) -> in_sub s' b g y' = in_sub s b g y.
Proof.
  intros (S1 & _ & _ & S4 & _) Ha. unfold in_sub. rewrite <- S1, <- S4.
  destruct (j_batch y =? b) eqn:E; [|reflexivity]. cbn [andb]. rewrite Ha by lia. reflexivity.
Qed.

Lemma jcommitted_static s s' y y' :
  static y y' -> (forall b u, committed s' b u = committed s b u) -> jcommitted s' y' = jcommitted s y.
Proof. intros (S1 & _ & S3 & _) Hc. unfold jcommitted. rewrite <- S1, <- S3. apply Hc. Qed.

Lemma cnt_map s s' h b g q :
  jobs s' = map h (jobs s) -> (forall y, In y (jobs s) -> sel s' b g q (h y) = sel s b g q y) ->
  cnt s' b g q = cnt s b g q.
Proof. intros Ej H. unfold cnt. rewrite Ej. f_equal. apply len_filter_map. exact H. Qed.

Lemma n_sub_upd_map s s' h b u g :
  jobs s' = map h (jobs s) -> (forall y, In y (jobs s) -> usel s' b u g (h y) = usel s b u g y) ->
  n_sub_upd s' b u g = n_sub_upd s b u g.
Proof. intros Ej H. unfold n_sub_upd. rewrite Ej. f_equal. apply len_filter_map. exact H. Qed.

Lemma cnt_le s b g q : cnt s b g q <= cnt s b g q_all.
Proof.
  unfold cnt. apply inj_le. apply len_filter_le. intros y _. unfold sel, q_all.
  intros H. apply andb_true_iff in H. destruct H as [H _]. rewrite H. reflexivity.
Qed.

Lemma group_ok_cnt s s' gr :
  (forall q, cnt s' (g_batch gr) (g_id gr) q = cnt s (g_batch gr) (g_id gr) q) -> group_ok s gr -> group_ok s' gr.
Proof. intros H [G1 G2 G3 G4 G5 G6]. constructor; rewrite ?H; assumption. Qed.

Lemma cnt_nonneg s b g q : 0 <= cnt s b g q.
Proof. unfold cnt. lia. Qed.
Lemma n_sub_upd_nonneg s b u g : 0 <= n_sub_upd s b u g.
Proof. unfold n_sub_upd. lia. Qed.

(* ------------------------------------------------------------------ batches seen through (id, n_jobs, state) *)

Definition bview (bt : batch) : Z * Z * bool := (b_id bt, b_njobs bt, b_running bt).

Lemma bview_in l l' bt' : map bview l' = map bview l -> In bt' l' -> exists bt, In bt l /\ bview bt = bview bt'.
Proof.
  intros E Hin. assert (H : In (bview bt') (map bview l)) by (rewrite <- E; apply in_map; exact Hin).
  apply in_map_iff in H. destruct H as (bt & Hb & Hbt). exists bt. auto.
Qed.

(* ------------------------------------------------------------------ the transfer lemma *)

(** [jobs s' = map h (jobs s)] where [h] keeps the immutable columns and the outcome class; updates, staging,
    ancestors and groups unchanged; batches unchanged up to (id, n_jobs, state). *)
Section Transfer.
  Variables (s s' : state) (h : job -> job).
  Hypothesis Hjobs : jobs s' = map h (jobs s).
  Hypothesis Hstatic : forall y, In y (jobs s) -> static y (h y).
  Hypothesis Hclass : forall y, In y (jobs s) -> jclass (j_state (h y)) = jclass (j_state y).
  Hypothesis Hcom : forall b u, committed s' b u = committed s b u.
  Hypothesis Hstg : forall b u g, committed s b u = false -> gstaged s' b u g = gstaged s b u g.
  Hypothesis Hanc : ancestors s' = ancestors s.
  Hypothesis Hgrp : groups s' = groups s.
  Hypothesis Hbat : map bview (batches s') = map bview (batches s).

  Lemma tr_in_sub b g y : In y (jobs s) -> in_sub s' b g (h y) = in_sub s b g y.
  Proof. intros Hy. apply in_sub_static; [apply Hstatic; exact Hy | intros _; apply anc_ids_ext; exact Hanc]. Qed.

  Lemma tr_sel b g q y : cls_ok q -> In y (jobs s) -> sel s' b g q (h y) = sel s b g q y.
  Proof.
    intros Hq Hy. unfold sel. rewrite (tr_in_sub b g y Hy), (jcommitted_static s s' y (h y) (Hstatic y Hy) Hcom).
    rewrite (Hq _ _ (Hclass y Hy)). reflexivity.
  Qed.

  Lemma tr_cnt b g q : cls_ok q -> cnt s' b g q = cnt s b g q.
  Proof. intros Hq. apply (cnt_map s s' h); [exact Hjobs | intros y Hy; apply tr_sel; assumption]. Qed.

  Lemma tr_n_sub_upd b u g : n_sub_upd s' b u g = n_sub_upd s b u g.
  Proof.
    apply (n_sub_upd_map s s' h); [exact Hjobs|]. intros y Hy. unfold usel. rewrite (tr_in_sub b g y Hy).
    destruct (Hstatic y Hy) as (_ & _ & S3 & _). rewrite <- S3. reflexivity.
  Qed.

  Lemma tr_find_group b g : find_group s' b g = find_group s b g.
  Proof. unfold find_group. rewrite Hgrp. reflexivity. Qed.

  Lemma TInv_transfer : TInv s -> TInv s'.
  Proof.
    intros [T1 T2 T3 T4 T6 T7]. constructor.
    - rewrite Hgrp. intros gr Hg. destruct (T1 gr Hg) as [G1 G2 G3 G4 G5 G6].
      constructor; rewrite ?tr_cnt; auto using cls_all, cls_term, cls_succ, cls_fail, cls_canc.
    - rewrite Hgrp. intros bt' gr Hb Hg E1 E2. destruct (bview_in _ _ _ Hbat Hb) as (bt & Hbt & V).
      unfold bview in V. injection V as V1 V2 V3. rewrite <- V2, <- V3. apply (T2 bt gr Hbt Hg); congruence.
    - intros bt' Hb. destruct (bview_in _ _ _ Hbat Hb) as (bt & Hbt & V). unfold bview in V. injection V as V1 V2 V3.
      rewrite tr_find_group, <- V1. apply T3. exact Hbt.
    - intros b u g Hc. rewrite Hcom in Hc. rewrite (Hstg b u g Hc), tr_n_sub_upd. apply (T4 b u g Hc).
    - intros b g. rewrite (anc_ids_ext s s' b g Hanc). apply T6.
    - rewrite Hanc. intros b g a l Hin. rewrite tr_find_group. apply (T7 b g a l Hin).
  Qed.
End Transfer.

(** no job row changes at all *)
Lemma TInv_same s s' :
  jobs s' = jobs s -> updates s' = updates s -> staging s' = staging s -> ancestors s' = ancestors s ->
  groups s' = groups s -> map bview (batches s') = map bview (batches s) -> TInv s -> TInv s'.
Proof.
  intros Ej Eu Es Ea Eg Eb. apply (TInv_transfer s s' (fun y => y)); auto.
  - rewrite map_id. exact Ej.
  - intros; apply static_refl.
  - intros b u. unfold committed, find_update. rewrite Eu. reflexivity.
  - intros b u g _. unfold gstaged. rewrite Es. reflexivity.
Qed.

Lemma TInv_core s s' : core_eq s s' -> TInv s -> TInv s'.
Proof. intros (E1&E2&E3&E4&E5&E6&E7&E8&E9). apply TInv_same; auto. rewrite E1. reflexivity. Qed.

Lemma TInv_same_core s s' : same_core s s' -> TInv s -> TInv s'.
Proof. intros (E1&E2&E3&E4&E5&E6&E7&E8). apply TInv_same; auto. rewrite E7. reflexivity. Qed.

(* ------------------------------------------------------------------ one row rewritten within its class *)

Lemma TInv_update_job_class s s1 x n b j :
  DInv s -> core_eq s s1 -> find_job s b j = Some x -> static x n -> jclass (j_state n) = jclass (j_state x) ->
  TInv s -> TInv (update_job s1 x n).
Proof.
  intros D (E1&E2&E3&E4&E5&E6&E7&E8&E9) F St Cl T.
  pose proof (find_jkey_sound _ _ _ _ F) as (Hx & Hb & Hj). pose proof St as (S1 & S2 & _).
  assert (Hk : forall y, In y (jobs s) -> jkey (j_batch n) (j_id n) y = true -> y = x).
  { intros y Hy K. pose proof (find_jkey_in _ y (d_jkeys _ D) Hy) as Fy.
    apply jkey_true in K. destruct K as [K1 K2].
    rewrite <- find_job_eq in Fy. rewrite K1, K2, <- S1, <- S2, Hb, Hj, F in Fy. congruence. }
  apply (TInv_transfer s (update_job s1 x n) (fun y => if jkey (j_batch n) (j_id n) y then n else y)); autorewrite with frame; auto.
  - rewrite E6. apply replace_job_map.
  - intros y Hy. destruct (jkey (j_batch n) (j_id n) y) eqn:K; [|apply static_refl]. rewrite (Hk y Hy K). exact St.
  - intros y Hy. destruct (jkey (j_batch n) (j_id n) y) eqn:K; [|reflexivity]. rewrite (Hk y Hy K). exact Cl.
  - intros b' u. unfold committed. rewrite find_update_update_job. unfold find_update. rewrite E2. reflexivity.
  - intros b' u g _. unfold gstaged. autorewrite with frame. rewrite E8. reflexivity.
  - rewrite E1. reflexivity.
Qed.

Lemma class_active a b : terminal a = false -> terminal b = false -> jclass a = jclass b.
Proof. intros Ha Hb. apply jclass_live in Ha. apply jclass_live in Hb. congruence. Qed.
