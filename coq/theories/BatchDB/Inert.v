(** C41 — (N1) the "never counted" clauses as corollaries of the counter invariant (C01) and the tally invariant (C06),
    stated over the list of jobs of COMMITTED updates only, and (N2) the history form of inertness: the row of a job of an
    update that is still open at the end of a good history has not been touched since it was inserted.

    [cjobs s]   the jobs of committed updates ("committed jobs").  Every recount below is a function of [cjobs s] (and of
                the batch owner / cancellation marks / ancestor rows of THOSE jobs): rows of open updates can be added to or
                removed from the jobs table without changing any of them. *)
From HailV Require Import Common.Prelude BatchDB.Model BatchDB.Tables BatchDB.CMap BatchDB.JobsWF BatchDB.StepCore
  BatchDB.Legal BatchDB.DepsDef BatchDB.DepsStruct BatchDB.DepsAux BatchDB.Deps BatchDB.DepsCorollaries
  BatchDB.Pick BatchDB.JobChange BatchDB.Counters BatchDB.Tally BatchDB.TallyInv.
From HailV Require BatchDB.StepFrame BatchDB.Cancel.
From RecordUpdate Require Import RecordSet.
Import RecordSetNotations.
Open Scope Z_scope.

Local Notation run_from := Cancel.run_from.

Definition cjobs (s : state) : list job := filter (jcommitted s) (jobs s).

Lemma in_cjobs s x : In x (cjobs s) <-> In x (jobs s) /\ jcommitted s x = true.
Proof. unfold cjobs. apply filter_In. Qed.

Lemma filter_filter_imp {A} (p q : A -> bool) l : (forall x, p x = true -> q x = true) -> filter p (filter q l) = filter p l.
Proof.
  intros H. induction l as [|x l IH]; [reflexivity|]. cbn [filter].
  destruct (q x) eqn:Q; cbn [filter]; [rewrite IH; reflexivity|].
  destruct (p x) eqn:P; [rewrite (H x P) in Q; discriminate | exact IH].
Qed.

Lemma ccount_cjobs s p : (forall x, p x = true -> jcommitted s x = true) -> Counters.count p (jobs s) = Counters.count p (cjobs s).
Proof. intros H. unfold Counters.count, cjobs. rewrite filter_filter_imp; [reflexivity | exact H]. Qed.

Lemma ccores_cjobs s p : (forall x, p x = true -> jcommitted s x = true) -> cores p (jobs s) = cores p (cjobs s).
Proof. intros H. unfold cores, cjobs. rewrite filter_filter_imp; [reflexivity | exact H]. Qed.

(* ------------------------------------------------------------------ N1 (a): scheduling counters *)

Lemma user_sel_committed s usr ic st c x : user_job s usr ic x && (in_state x st && c x) = true -> jcommitted s x = true.
Proof. unfold user_job, jcommitted. intros H. apply andb_true_iff in H. destruct H as [H _]. apply andb_true_iff in H. tauto. Qed.

(** user_inst_coll_resources: all eight columns are recounts over the jobs of committed updates only. *)
Theorem user_counters_committed_only ops :
  good_history ops -> let s := run ops in forall usr ic,
    let v i := cval (key_eqb [usr; ic]) i (user_res s) in
    let sel st c x := user_job s usr ic x && (in_state x st && c x) in
    let live x := negb (eff_cancelled s x) in
    v 0%nat = Counters.count (sel Ready live) (cjobs s) /\ v 1%nat = cores (sel Ready live) (cjobs s) /\
    v 2%nat = Counters.count (sel Running live) (cjobs s) /\ v 3%nat = cores (sel Running live) (cjobs s) /\
    v 4%nat = Counters.count (sel Creating live) (cjobs s) /\
    v 5%nat = Counters.count (sel Ready (eff_cancelled s)) (cjobs s) /\
    v 6%nat = Counters.count (sel Running (eff_cancelled s)) (cjobs s) /\
    v 7%nat = Counters.count (sel Creating (eff_cancelled s)) (cjobs s).
Proof.
  intros G s usr ic v sel live.
  destruct (user_counters_history ops G usr ic) as (H0 & H1 & H2 & H3 & H4 & H5 & H6 & H7).
  fold s in H0, H1, H2, H3, H4, H5, H6, H7.
  assert (C : forall st c x, sel st c x = true -> jcommitted s x = true) by (intros st c x; apply user_sel_committed).
  rewrite <- !(ccount_cjobs s _ (C _ _)), <- !(ccores_cjobs s _ (C _ _)). subst v; cbv beta.
  repeat split; assumption.
Qed.

Lemma subtree_sel_committed s b u g ic (c : job -> bool) x :
  committed s b u = true -> subtree_job s b u g ic x && c x = true -> jcommitted s x = true.
Proof.
  unfold subtree_job, jcommitted. intros C H. apply andb_true_iff in H. destruct H as [H _].
  repeat (apply andb_true_iff in H; destruct H as [H ?]).
  replace (j_batch x) with b by lia. replace (j_update x) with u by lia. exact C.
Qed.

(** job_group_inst_coll_cancellable_resources of a COMMITTED update and a group that is not cancelled: recounts over the
    jobs of committed updates only. *)
Theorem group_cancellable_committed_only ops :
  good_history ops -> let s := run ops in forall b u g ic,
    committed s b u = true -> group_cancelled s b g = false ->
    let v i := cval (key_eqb [b; u; g; ic]) i (cancellable s) in
    let sel st x := subtree_job s b u g ic x && (in_state x st && cancellable_job s x) in
    v 0%nat = Counters.count (sel Ready) (cjobs s) /\ v 1%nat = cores (sel Ready) (cjobs s) /\
    v 2%nat = Counters.count (sel Creating) (cjobs s) /\
    v 3%nat = Counters.count (sel Running) (cjobs s) /\ v 4%nat = cores (sel Running) (cjobs s).
Proof.
  intros G s b u g ic Cu Gc v sel.
  destruct (group_cancellable_history ops G b u g ic Gc) as (H0 & H1 & H2 & H3 & H4).
  fold s in H0, H1, H2, H3, H4.
  assert (C : forall st x, sel st x = true -> jcommitted s x = true)
    by (intros st x; apply (subtree_sel_committed s b u g ic (fun x => in_state x st && cancellable_job s x) x Cu)).
  rewrite <- !(ccount_cjobs s _ (C _)), <- !(ccores_cjobs s _ (C _)). subst v; cbv beta.
  repeat split; assumption.
Qed.

(* ------------------------------------------------------------------ N1 (b): tallies and completeness *)

Definition csub (s : state) (b g : Z) : list job := filter (in_sub s b g) (cjobs s).

Lemma subtree_csub s b g : subtree s b g = csub s b g.
Proof.
  unfold subtree, csub, cjobs. induction (jobs s) as [|x l IH]; [reflexivity|]. cbn [filter].
  destruct (jcommitted s x); cbn [filter]; [destruct (in_sub s b g x); cbn [andb]; [rewrite IH; reflexivity | exact IH]|].
  rewrite andb_false_r. exact IH.
Qed.

(** The five tallies of every job group, and whether it is complete, are functions of the committed jobs only. *)
Theorem tallies_committed_only ops :
  good_history ops -> let s := run ops in
  forall gr, In gr (groups s) ->
    let sub := csub s (g_batch gr) (g_id gr) in
    g_njobs gr = Z.of_nat (length sub) /\ g_ncompleted gr = TallyInv.count terminal sub /\ g_nsucc gr = TallyInv.count q_succ sub /\
    g_nfailed gr = TallyInv.count q_fail sub /\ g_ncancelled gr = TallyInv.count q_canc sub /\
    (g_running gr = false <-> forall x, In x sub -> terminal (j_state x) = true).
Proof.
  intros G s gr Hgr sub. subst sub. rewrite <- subtree_csub.
  destruct (reach_counts ops G gr Hgr) as (H0 & H1 & H2 & H3 & H4).
  destruct (reach_complete_iff ops G) as (Hc & _).
  repeat split; try assumption; apply (Hc gr Hgr).
Qed.

Definition cbatch (s : state) (b : Z) : list job := filter (fun x => j_batch x =? b) (cjobs s).

Lemma batch_jobs_cbatch s b : batch_jobs s b = cbatch s b.
Proof.
  unfold batch_jobs, cbatch, cjobs. induction (jobs s) as [|x l IH]; [reflexivity|]. cbn [filter].
  destruct (jcommitted s x); cbn [filter]; [destruct (j_batch x =? b); cbn [andb]; [rewrite IH; reflexivity | exact IH]|].
  rewrite andb_false_r. exact IH.
Qed.

Theorem batch_tally_committed_only ops :
  good_history ops -> let s := run ops in
  forall bt, In bt (batches s) ->
    b_njobs bt = Z.of_nat (length (cbatch s (b_id bt))) /\
    (b_running bt = false <-> forall x, In x (cbatch s (b_id bt)) -> terminal (j_state x) = true).
Proof.
  intros G s bt Hbt. rewrite <- batch_jobs_cbatch.
  destruct (reach_batch ops G bt Hbt) as (H0 & _).
  destruct (reach_complete_iff ops G) as (_ & Hc).
  split; [exact H0 | apply (Hc bt Hbt)].
Qed.

(** A job group none of whose subtree jobs is committed (in particular a group created by an open update into which no
    other update put jobs) has all tallies 0 and is complete ('running' is only entered by a commit). *)
Theorem group_without_committed_jobs ops :
  good_history ops -> let s := run ops in
  forall gr, In gr (groups s) ->
    (forall x, In x (jobs s) -> j_batch x = g_batch gr -> In (g_id gr) (anc_ids s (g_batch gr) (j_group x)) -> jcommitted s x = false) ->
    g_njobs gr = 0 /\ g_ncompleted gr = 0 /\ g_nsucc gr = 0 /\ g_nfailed gr = 0 /\ g_ncancelled gr = 0 /\ g_running gr = false.
Proof.
  intros G s gr Hgr Hnone.
  assert (E : subtree s (g_batch gr) (g_id gr) = []).
  { destruct (subtree s (g_batch gr) (g_id gr)) as [|x l] eqn:E; [reflexivity|]. exfalso.
    assert (Hx : In x (subtree s (g_batch gr) (g_id gr))) by (rewrite E; left; reflexivity).
    apply in_subtree in Hx. destruct Hx as (H1 & H2 & H3 & H4). rewrite (Hnone x H1 H2 H3) in H4. discriminate. }
  destruct (reach_counts ops G gr Hgr) as (H0 & H1 & H2 & H3 & H4).
  destruct (reach_complete_iff ops G) as (Hc & _).
  fold s in H0, H1, H2, H3, H4, Hc. rewrite E in *. cbn in H0, H1, H2, H3, H4.
  repeat split; try assumption. apply (Hc gr Hgr). rewrite E. intros x [].
Qed.

(* ------------------------------------------------------------------ N2: history form of inertness *)

Lemma committed_from s ops b u : committed s b u = true -> committed (run_from s ops) b u = true.
Proof.
  revert s. induction ops as [|o r IH]; intros s C; cbn [Cancel.run_from fold_left]; [exact C|].
  apply IH. apply committed_step. exact C.
Qed.

(** a commit request after which the update is not committed did nothing *)
Lemma commit_failed_noop s b u us : committed (fst (do_commit s b u us)) b u = false -> fst (do_commit s b u us) = s.
Proof.
  unfold do_commit. destruct (find_batch s b) as [bt|]; [|reflexivity].
  destruct (find_update s b u) as [up0|] eqn:Fu; [|reflexivity].
  destruct (_ || _); [reflexivity|]. destruct (marked s b 0); [reflexivity|].
  destruct (do_commit_proc_shape s b u) as [-> | (up & s3 & _ & U & _ & _ & [U' _ _])]; [reflexivity|].
  intros C. exfalso. unfold committed, find_update in *. rewrite U', U in C.
  rewrite (find_update_commit_fl _ _ _ _ _ _ Fu), commit_fl_committed in C.
  apply find_some in Fu. destruct Fu as (_ & K). rewrite K in C. discriminate.
Qed.

Lemma frozen_from ext : forall s b j x,
  DInv s -> DAux s -> good_from s ext -> find_job s b j = Some x ->
  committed (run_from s ext) b (j_update x) = false ->
  find_job (run_from s ext) b j = Some x.
Proof.
  induction ext as [|o r IH]; intros s b j x D A G F C; [exact F|].
  change (run_from s (o :: r)) with (run_from (fst (step s o)) r) in *. cbn [good_from] in G.
  destruct G as [Go Gr].
  assert (C1 : committed (fst (step s o)) b (j_update x) = false).
  { destruct (committed (fst (step s o)) b (j_update x)) eqn:E; [|reflexivity].
    rewrite (committed_from _ r _ _ E) in C. discriminate. }
  assert (C0 : jcommitted s x = false).
  { unfold jcommitted. rewrite (proj1 (find_job_static_key _ _ _ _ F)).
    destruct (committed s b (j_update x)) eqn:E; [|reflexivity].
    rewrite (committed_step s o _ _ E) in C1. discriminate. }
  destruct (uncommitted_inert_step s o b j x D A Go F C0) as (_ & _ & x' & F' & _ & _ & _ & [E | E]).
  - subst x'. apply IH; try assumption; [apply DInv_step; assumption | apply DAux_step; exact A].
  - assert (Ho : exists us, o = Commit b (j_update x) us) by (destruct o; cbn in E; try contradiction; destruct E as [-> ->]; eauto).
    destruct Ho as (us & ->). cbn [step] in *.
    rewrite (commit_failed_noop s b (j_update x) us C1) in *.
    apply IH; assumption.
Qed.

(** N2.  A job row of an update that is still open after [ops ++ ext] is, after [ops ++ ext], exactly the row it was after
    [ops]; it has no attempt and is Pending or Ready. *)
Theorem uncommitted_row_frozen ops ext b j x :
  good_history (ops ++ ext) -> find_job (run ops) b j = Some x ->
  committed (run (ops ++ ext)) b (j_update x) = false ->
  find_job (run (ops ++ ext)) b j = Some x /\ j_attempt x = None /\ (j_state x = Pending \/ j_state x = Ready).
Proof.
  intros G F C. destruct (good_history_split _ _ G) as (D & A & Ge). rewrite Cancel.run_app in *.
  pose proof (frozen_from ext _ b j x D A Ge F C) as F'. split; [exact F'|].
  assert (G' : good_history (ops ++ ext)) by exact G.
  pose proof (DInv_reachable _ G') as D'. rewrite Cancel.run_app in D'.
  destruct (find_job_static_key _ _ _ _ F') as (B & _).
  assert (C' : jcommitted (run_from (run ops) ext) x = false) by (unfold jcommitted; rewrite B; exact C).
  rewrite find_job_eq in F'. apply find_jkey_sound in F'.
  destruct (uncommitted_job_inert _ D' x (proj1 F') C') as (Na & St). split; [exact Na | tauto].
Qed.

(** ... in particular between any two points of a good history at which the update is open the row is the same: a job of
    an update that is never committed keeps the row [_create_jobs] inserted. *)
Corollary uncommitted_row_constant ops ext1 ext2 b j x y :
  good_history (ops ++ ext1 ++ ext2) -> find_job (run ops) b j = Some x ->
  find_job (run (ops ++ ext1)) b j = Some y ->
  committed (run (ops ++ ext1 ++ ext2)) b (j_update x) = false -> y = x.
Proof.
  intros G F Fy C.
  assert (G1 : good_history (ops ++ ext1)).
  { unfold good_history in *. rewrite app_assoc in G. apply good_from_app in G. tauto. }
  assert (C1 : committed (run (ops ++ ext1)) b (j_update x) = false).
  { destruct (committed (run (ops ++ ext1)) b (j_update x)) eqn:E; [|reflexivity].
    rewrite app_assoc, Cancel.run_app in C. rewrite (committed_from _ ext2 _ _ E) in C. discriminate. }
  destruct (uncommitted_row_frozen ops ext1 b j x G1 F C1) as (F1 & _). congruence.
Qed.

(* ------------------------------------------------------------------ groups of an open update *)

(** The analogous statement for the job GROUPS of an open update is false without a further assumption: while update 2
    is open, jobs of update 1 may be put into a group created by update 2, and the commit of update 1 then makes that
    group 'running' with n_jobs = 1.  (With a client that opens one update at a time this cannot happen:
    [group_without_committed_jobs].) *)
Definition open_group_history : list op :=
  [CreateBatch 1 1 1 true; CreateUpdate 1 1 10 1 0; CreateUpdate 1 1 11 0 1;
   CreateGroups 1 2 1 [mkGspec 1 (Some 0) 0];
   CreateJobs 1 1 1 [mkJspec 1 (Some 1) 0 [] [] false 1000 1];
   Commit 1 1 1].

Theorem open_update_group_running_refuted :
  good_history open_group_history /\
  let s := run open_group_history in
  committed s 1 2 = false /\
  find_group s 1 1 = Some (mkGroup 1 1 true 1 0 0 0 0 (Some 2)).
Proof. split; [apply good_fromb_sound; vm_compute; reflexivity | vm_compute; auto]. Qed.

(* ------------------------------------------------------------------ non-vacuity *)

(** [demo_history] up to the insertion of update 2's job (10 ops), extended by the completion of its parent (op 11):
    update 2 is open throughout, its job row is unchanged, and the counters / tallies do not see it. *)
Example frozen_nonvacuous :
  good_history (firstn 10 demo_history ++ [nth 10 demo_history CleanupStaging]) /\
  find_job (run (firstn 10 demo_history)) 1 3 = Some (mkJob 1 3 2 0 Pending true 1000 1 false None 1) /\
  committed (run (firstn 11 demo_history)) 1 2 = false /\
  length (jobs (run (firstn 11 demo_history))) = 3%nat /\ length (cjobs (run (firstn 11 demo_history))) = 2%nat.
Proof. split; [apply good_fromb_sound; vm_compute; reflexivity | vm_compute; auto]. Qed.
