(** C08 — accepted job graphs can always finish.  Property theorems only. *)
From HailV Require Import Common.Prelude BatchDB.Model BatchDB.Legal BatchDB.DepsDef BatchDB.Deps BatchDB.DepsCorollaries.
Open Scope Z_scope.

(** Every dependency of a job of a committed update names a job that exists, belongs to a committed update and has
    a smaller id (so dependency chains are finite and acyclic). *)
Theorem C08_accepted_is_wellfounded : forall ops, good_history ops ->
  let s := run ops in
  forall x p, In x (jobs s) -> jcommitted s x = true -> In p (parents_of s (j_batch x) (j_id x)) ->
    exists y, find_job s (j_batch x) p = Some y /\ jcommitted s y = true /\ 1 <= p < j_id x.
Proof. intros ops G s x p. apply accepted_parents_exist. apply DInv_reachable. exact G. Qed.
Print Assumptions C08_accepted_is_wellfounded.

(** Every accepted job id lies inside the id range reserved by its update. *)
Theorem C08_ids_in_reserved_range : forall ops, good_history ops ->
  let s := run ops in
  forall x, In x (jobs s) ->
    exists up, find_update s (j_batch x) (j_update x) = Some up /\ u_start_job up <= j_id x < u_start_job up + u_njobs up.
Proof. intros ops G s x. apply job_in_reserved_range. apply DInv_reachable. exact G. Qed.
Print Assumptions C08_ids_in_reserved_range.

(** A committed batch can always make progress: a Pending job of a committed update waits for a committed,
    existing, non-terminal parent with a smaller id; hence the committed non-terminal job with the least id is never
    Pending (it is Ready, Creating or Running), and once jobs finish the batch completes. *)
Theorem C08_pending_waits_for_live_parent : forall ops, good_history ops ->
  let s := run ops in
  forall x, In x (jobs s) -> jcommitted s x = true -> j_state x = Pending ->
    exists p y, In p (parents_of s (j_batch x) (j_id x)) /\ find_job s (j_batch x) p = Some y /\
                jcommitted s y = true /\ terminal (j_state y) = false /\ j_id y < j_id x.
Proof. intros ops G s x. apply pending_has_live_parent. apply DInv_reachable. exact G. Qed.
Print Assumptions C08_pending_waits_for_live_parent.

Theorem C08_no_deadlock : forall ops, good_history ops ->
  let s := run ops in
  forall x, In x (jobs s) -> jcommitted s x = true -> terminal (j_state x) = false ->
    (forall y, In y (jobs s) -> j_batch y = j_batch x -> jcommitted s y = true -> terminal (j_state y) = false -> j_id x <= j_id y) ->
    j_state x <> Pending.
Proof. intros ops G s x. apply least_live_job_not_pending. apply DInv_reachable. exact G. Qed.
Print Assumptions C08_no_deadlock.

(** A bunch that names a self, later or missing dependency, a dependency in an uncommitted earlier update, or a job
    id outside its update's reserved range, is rejected; and EVERY rejected bunch leaves the database unchanged. *)
Theorem C08_bad_bunch_rejected : forall s b u user jss up bt,
  find_update s b u = Some up -> find_batch s b = Some bt ->
  forallb (spec_ok s b up) jss = false ->
  fst (snd (do_create_jobs s b u user jss)) <> 0.
Proof.
  intros s b u user jss up bt Fu Fb Bad. unfold do_create_jobs.
  destruct (is_nil jss); [cbn; lia|]. rewrite Fu, Fb.
  destruct (_ || _); [cbn; lia|]. destruct (u_committed up); [cbn; lia|].
  destruct jss as [|j0 jr]; [cbn; lia|].
  destruct (contiguous _); cbn [negb]; [|cbn; lia]. rewrite Bad. cbn. lia.
Qed.
Print Assumptions C08_bad_bunch_rejected.

Theorem C08_rejected_unchanged : forall s b u user jss,
  fst (snd (do_create_jobs s b u user jss)) <> 0 -> fst (do_create_jobs s b u user jss) = s.
Proof.
  intros s b u user jss. unfold do_create_jobs.
  destruct (is_nil jss); [reflexivity|].
  destruct (find_update s b u) as [up|]; [|reflexivity]. destruct (find_batch s b) as [bt|]; [|reflexivity].
  destruct (_ || _); [reflexivity|]. destruct (u_committed up); [reflexivity|].
  destruct jss as [|j0 jr]; [reflexivity|].
  destruct (negb (contiguous _)); [reflexivity|]. destruct (negb (forallb _ _)); [reflexivity|].
  destruct (insert_verdict _ _ _ _) as [|p|p];
    repeat (match goal with |- context [match ?q with xI _ => _ | xO _ => _ | xH => _ end] => is_var q; destruct q end);
    try reflexivity;
    try (destruct (existsb _ _); [reflexivity | cbn; intros H; exfalso; apply H; reflexivity]).
Qed.
Print Assumptions C08_rejected_unchanged.

(** Non-vacuity: the four bad shapes are rejected in a concrete state (update 1 of batch 1 reserves ids 1..2). *)
Theorem C08_example :
  let s := run [CreateBatch 1 1 1 true; CreateUpdate 1 1 10 2 0] in
  map (fun js => fst (snd (do_create_jobs s 1 1 1 js)))
    [ [mkJspec 1 (Some 0) 0 [] [1] false 1000 1];            (* depends on itself *)
      [mkJspec 1 (Some 0) 0 [] [2] false 1000 1];            (* depends on a later job *)
      [mkJspec 1 (Some 0) 0 [7] [] false 1000 1];            (* depends on a missing job *)
      [mkJspec 3 (Some 0) 0 [] [] false 1000 1];             (* id outside the reserved range 1..2 *)
      [mkJspec 1 (Some 0) 0 [] [] false 1000 1; mkJspec 2 (Some 0) 0 [] [1] false 1000 1] ]   (* fine *)
  = [2; 2; 2; 2; 0].
Proof. vm_compute. reflexivity. Qed.
Print Assumptions C08_example.
