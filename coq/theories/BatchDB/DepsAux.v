(** The auxiliary invariant [DAux] (DepsStruct.v) is preserved by EVERY op of the model, without any
    legality or client-side assumption: [DAux_step], [DAux_run]. *)
From HailV Require Import Common.Prelude BatchDB.Model BatchDB.Tables BatchDB.CMap BatchDB.JobsWF BatchDB.StepCore
  BatchDB.JobFold BatchDB.Legal BatchDB.DepsDef BatchDB.DepsEasy BatchDB.DepsStruct BatchDB.DepsCreateJobs.
From RecordUpdate Require Import RecordSet.
Import RecordSetNotations.
Open Scope Z_scope.

(* [DAux] only looks at updates and staging *)
Definition us_eq (s s' : state) : Prop := updates s' = updates s /\ staging s' = staging s.

Lemma us_eq_refl s : us_eq s s.
Proof. split; reflexivity. Qed.
Lemma us_eq_trans s1 s2 s3 : us_eq s1 s2 -> us_eq s2 s3 -> us_eq s1 s3.
Proof. unfold us_eq. intuition congruence. Qed.
Lemma us_eq_core s s' : core_eq s s' -> us_eq s s'.
Proof. intros (_&E2&_&_&_&_&_&E8&_). split; assumption. Qed.
Lemma us_eq_update_job s o n : us_eq s (update_job s o n).
Proof. split; autorewrite with frame; reflexivity. Qed.
Lemma us_eq_fold {A} (f : state -> A -> state) l s : (forall st x, us_eq st (f st x)) -> us_eq s (fold_left f l s).
Proof.
  intros H. revert s. induction l as [|x l IH]; intros s; cbn [fold_left]; [apply us_eq_refl|].
  eapply us_eq_trans; [apply H | apply IH].
Qed.
Lemma DAux_us_eq s s' : us_eq s s' -> DAux s -> DAux s'.
Proof. intros [E1 E2]. apply DAux_ext; assumption. Qed.

(* ------------------------------------------------------------------ driver ops *)

Lemma us_eq_schedule s b j a i : us_eq s (fst (do_schedule s b j a i)).
Proof.
  unfold do_schedule. destruct (find_job s b j) as [x|]; [|apply us_eq_refl].
  destruct (is_job_cancelled s x); [|apply us_eq_refl].
  destruct (add_attempt s b j a i (j_cores x)) as [[s1 d0]|] eqn:A; [|apply us_eq_refl].
  pose proof (us_eq_core _ _ (core_eq_add_attempt _ _ _ _ _ _ _ _ A)) as C1.
  match goal with |- context [if ?c then _ else _] => destruct c end; cbn [fst]; [|exact C1].
  eapply us_eq_trans; [exact C1 | apply us_eq_update_job].
Qed.

Lemma us_eq_creating_started c s b j a i t : us_eq s (fst (do_mark_creating_or_started c s b j a i t)).
Proof.
  unfold do_mark_creating_or_started. destruct (find_job s b j) as [x|]; [|apply us_eq_refl].
  destruct (is_job_cancelled s x); [|apply us_eq_refl].
  destruct (add_attempt s b j a i (j_cores x)) as [[s1 d0]|] eqn:A; [|apply us_eq_refl].
  pose proof (core_eq_add_attempt _ _ _ _ _ _ _ _ A) as C1.
  pose proof (us_eq_core _ _ (core_eq_trans _ _ _ C1 (core_eq_set_times s1 b j a t))) as C2.
  match goal with |- context [if ?c then _ else _] => destruct c end; cbn [fst]; [|exact C2].
  eapply us_eq_trans; [exact C2 | apply us_eq_update_job].
Qed.

Lemma us_eq_unschedule s b j a i t r : us_eq s (fst (do_unschedule s b j a i t r)).
Proof.
  unfold do_unschedule. destruct (find_job s b j) as [x|].
  2:{ match goal with |- context [if ?c then _ else _] => destruct c end; apply us_eq_refl. }
  set (s1 := match find_attempt s b j a with Some c => update_attempt s c _ | None => s end).
  assert (C1 : core_eq s s1).
  { subst s1. destruct (find_attempt s b j a); [apply core_eq_update_attempt | apply core_eq_refl]. }
  match goal with |- context [if ?g then match find_inst s1 i with _ => _ end else s1] =>
    set (s2 := if g then match find_inst s1 i with Some y => s1 <| insts ::= replace_inst (y <| i_free := i_free y + j_cores x |>) |> | None => s1 end else s1) end.
  assert (C2 : core_eq s s2).
  { subst s2. match goal with |- context [if ?g then _ else _] => destruct g end; [|exact C1].
    destruct (find_inst s1 i); [|exact C1]. eapply core_eq_trans; [exact C1 | apply core_eq_insts]. }
  match goal with |- context [if ?c then (update_job _ _ _, _) else _] => destruct c end; cbn [fst].
  - eapply us_eq_trans; [apply us_eq_core; exact C2 | apply us_eq_update_job].
  - apply us_eq_core; exact C2.
Qed.

Lemma us_eq_deactivate s name reason time : us_eq s (fst (do_deactivate s name reason time)).
Proof.
  unfold do_deactivate. destruct (find_inst s name) as [x|]; [|apply us_eq_refl].
  destruct (ilive (i_state x)); [|apply us_eq_refl]. cbn [fst].
  match goal with |- context [fold_left ?g (attempts s) s] => set (s1 := fold_left g (attempts s) s) end.
  assert (C1 : us_eq s s1).
  { subst s1. apply us_eq_fold. intros st a. destruct (a_inst a =? name); [|apply us_eq_refl].
    destruct (find_attempt st _ _ _); [apply us_eq_core, core_eq_update_attempt | apply us_eq_refl]. }
  match goal with |- context [fold_left ?g (jobs s1) s1] => set (s2 := fold_left g (jobs s1) s1) end.
  assert (C2 : us_eq s1 s2).
  { subst s2. apply us_eq_fold. intros st j. destruct (j_attempt j); [|apply us_eq_refl].
    destruct (find_attempt st _ _ _); [|apply us_eq_refl].
    destruct (_ && _); [apply us_eq_update_job | apply us_eq_refl]. }
  eapply us_eq_trans; [exact C1|]. eapply us_eq_trans; [exact C2|]. split; reflexivity.
Qed.

Lemma us_eq_release_children s b j succ : us_eq s (release_children s b j succ).
Proof.
  unfold release_children. apply us_eq_fold. intros st c.
  destruct (find_job st b c); [|apply us_eq_refl].
  destruct (negb _); [apply us_eq_refl | apply us_eq_update_job].
Qed.

Lemma us_eq_mark_complete s b j a i ns st en rs : us_eq s (fst (do_mark_complete s b j a i ns st en rs)).
Proof.
  unfold do_mark_complete. destruct (find_job s b j) as [x|].
  2:{ destruct (a =? -1); apply us_eq_refl. }
  destruct (if a =? -1 then Some (s, 0) else add_attempt s b j a i (j_cores x)) as [[s1 d0]|] eqn:A; [|apply us_eq_refl].
  assert (C1 : core_eq s s1).
  { destruct (a =? -1); [injection A as <- _; apply core_eq_refl | apply (core_eq_add_attempt _ _ _ _ _ _ _ _ A)]. }
  cbv zeta.
  set (cur := if a =? -1 then None else find_attempt s1 b j a).
  set (s2 := match cur with Some c => update_attempt s1 c _ | None => s1 end).
  assert (C2 : core_eq s s2).
  { subst s2. destruct cur; [eapply core_eq_trans; [exact C1 | apply core_eq_update_attempt] | exact C1]. }
  match goal with |- context [if ?g then match find_inst s2 i with _ => _ end else s2] =>
    set (s3 := if g then match find_inst s2 i with Some y => s2 <| insts ::= replace_inst (y <| i_free := i_free y + j_cores x |>) |> | None => s2 end else s2) end.
  assert (C3 : us_eq s s3).
  { apply us_eq_core. subst s3. match goal with |- context [if ?g then _ else _] => destruct g end; [|exact C2].
    destruct (find_inst s2 i); [|exact C2]. eapply core_eq_trans; [exact C2 | apply core_eq_insts]. }
  match goal with |- context [if ?c then (s3, _) else _] => destruct c end; cbn [fst]; [exact C3|].
  match goal with |- context [if ?c then _ else _] => destruct c end; cbn [fst].
  - eapply us_eq_trans; [exact C3|].
    eapply us_eq_trans; [|apply us_eq_release_children].
    match goal with |- context [update_job s3 x ?n] => set (s4 := update_job s3 x n) end.
    apply (us_eq_trans s3 s4); [apply us_eq_update_job|].
    unfold finish_groups. match goal with |- context [if ?c then _ else _] => destruct c end; split; reflexivity.
  - destruct (terminal (j_state x)); exact C3.
Qed.

(* ------------------------------------------------------------------ commit *)

Lemma DAux_set_committed s b u :
  DAux s ->
  DAux (s <| updates ::= map (fun x => if (u_batch x =? b) && (u_id x =? u) then x <| u_committed := true |> else x) |>).
Proof.
  intros [A1 A2]. set (f := fun x => if (u_batch x =? b) && (u_id x =? u) then x <| u_committed := true |> else x).
  assert (Hk : forall x, u_batch (f x) = u_batch x /\ u_id (f x) = u_id x /\ u_start_group (f x) = u_start_group x /\ u_ngroups (f x) = u_ngroups x).
  { intros x. unfold f. destruct (_ && _); repeat split. }
  constructor.
  - cbn. intros x Hx. apply in_map_iff in Hx. destruct Hx as (y & <- & Hy). destruct (Hk y) as (_ & _ & -> & ->). apply (A1 y Hy).
  - intros b' u' F. change (root_staged _ b' u') with (root_staged s b' u'). apply A2.
    unfold find_update in *. cbn in F. apply find_none_iff. intros x Hx.
    pose proof (proj1 (find_none_iff _ _) F (f x) (in_map f _ _ Hx)) as E. cbv beta in E.
    destruct (Hk x) as (-> & -> & _) in E. exact E.
Qed.

Lemma DAux_commit s b u user : DAux s -> DAux (fst (do_commit s b u user)).
Proof.
  intros A. unfold do_commit. destruct (find_batch s b) as [bt|]; [|exact A].
  destruct (find_update s b u) as [up0|] eqn:Fu0; [|exact A].
  destruct (_ || _); [exact A|]. destruct (marked s b 0); [exact A|].
  unfold do_commit_proc. rewrite Fu0. destruct (u_committed up0); [exact A|]. cbv zeta.
  destruct (negb (_ =? u_njobs up0)); [exact A|].
  set (s1 := s <| updates ::= map (fun x => if (u_batch x =? b) && (u_id x =? u) then x <| u_committed := true |> else x) |>).
  assert (A1 : DAux s1) by (apply DAux_set_committed; exact A).
  destruct (negb (0 <? u_njobs up0)); cbn [fst]; [exact A1|].
  match goal with |- context [fold_left ?g (staging s) ?s3] => set (s4 := fold_left g (staging s) s3) end.
  assert (C4 : us_eq s1 s4).
  { subst s4. eapply us_eq_trans; [|apply us_eq_fold].
    - split; reflexivity.
    - intros st kv. destruct kv as [k v].
      destruct k as [|b' [|u' [|g' [|ic [|? ?]]]]]; try apply us_eq_refl.
      destruct v as [|x0 [|nr [|rc [|? ?]]]]; try apply us_eq_refl.
      destruct (_ && _); [split; reflexivity | apply us_eq_refl]. }
  destruct (u =? 1); cbn [fst]; [apply (DAux_us_eq s1); assumption|].
  apply (DAux_us_eq s1); [|exact A1]. eapply us_eq_trans; [exact C4|].
  apply us_eq_fold. intros st on. apply us_eq_update_job.
Qed.

(* ------------------------------------------------------------------ create groups / create jobs, unconditionally *)

Lemma us_eq_create_one_group b u sg s gs s' : create_one_group b u sg (Some s) gs = Some s' -> us_eq s s'.
Proof.
  unfold create_one_group. cbv zeta. destruct (group_cancelled _ _ _); [discriminate|].
  destruct (find_group _ _ _); [discriminate|]. destruct (negb _); [discriminate|].
  destruct (MAX_JOB_GROUPS_DEPTH <? _); [discriminate|]. intros E. injection E as <-. split; reflexivity.
Qed.

Lemma us_eq_fold_create_groups b u sg : forall gss s s',
  fold_left (create_one_group b u sg) gss (Some s) = Some s' -> us_eq s s'.
Proof.
  induction gss as [|g0 r IH]; intros s s' Hf; cbn [fold_left] in Hf.
  - injection Hf as <-. apply us_eq_refl.
  - destruct (create_one_group b u sg (Some s) g0) as [s1|] eqn:E1.
    + eapply us_eq_trans; [apply (us_eq_create_one_group _ _ _ _ _ _ E1) | apply IH; exact Hf].
    + rewrite fold_create_one_group_none in Hf. discriminate.
Qed.

Lemma us_eq_create_groups s b u user gss : us_eq s (fst (do_create_groups s b u user gss)).
Proof.
  destruct (do_create_groups_cases s b u user gss) as [->|(up & g0 & r & s' & Fu & Fb & -> & Hm & Hf & ->)]; [apply us_eq_refl|].
  apply (us_eq_fold_create_groups _ _ _ _ _ _ Hf).
Qed.

Lemma root_staged_fold_stage_other l b' u' : forall st,
  (forall x, In x l -> (j_batch x =? b') && (j_update x =? u') = false) ->
  root_staged (fold_left stage_job l st) b' u' = root_staged st b' u'.
Proof.
  induction l as [|x l IH]; intros st H; cbn [fold_left]; [reflexivity|].
  rewrite IH by (intros y Hy; apply H; right; exact Hy).
  rewrite root_staged_stage_job, (H x (or_introl eq_refl)). lia.
Qed.

Lemma DAux_create_jobs_uncond s b u user jss : DAux s -> DAux (fst (do_create_jobs s b u user jss)).
Proof.
  intros A. destruct (do_create_jobs_cases s b u user jss) as [->|(up & Fu & Hunc & Hspec & Hv & Hd & ->)]; [exact A|].
  destruct A as [A1 A2].
  match goal with |- DAux (fold_left stage_job ?l ?s1) => set (st1 := s1); set (nj := l) end.
  pose proof (fold_stage_job_frame nj st1) as (E1 & E2 & E3 & E4 & E5 & E6 & E7).
  constructor.
  - rewrite E3. exact A1.
  - intros b' u' F. unfold find_update in F. rewrite E3 in F. change (updates st1) with (updates s) in F.
    rewrite root_staged_fold_stage_other; [apply A2; exact F|].
    intros x Hx. unfold nj in Hx. rewrite map_map in Hx. apply in_map_iff in Hx. destruct Hx as (jsx & <- & _).
    cbn [fst job_of_spec j_batch j_update].
    destruct ((b =? b') && (u =? u')) eqn:K; [|reflexivity]. exfalso.
    apply andb_true_iff in K. destruct K as [K1 K2]. unfold find_update in Fu.
    replace b' with b in F by lia. replace u' with u in F by lia. congruence.
Qed.

(* ------------------------------------------------------------------ every step *)

Theorem DAux_step s o : DAux s -> DAux (fst (step s o)).
Proof.
  intros A. destruct o; cbn [step].
  - apply DAux_create_batch; exact A.
  - apply DAux_create_update; exact A.
  - apply (DAux_us_eq s); [apply us_eq_create_groups | exact A].
  - apply DAux_create_jobs_uncond; exact A.
  - apply DAux_commit; exact A.
  - apply DAux_cancel_group; exact A.
  - apply DAux_delete_batch; exact A.
  - apply (DAux_us_eq s); [apply us_eq_core, core_eq_new_instance | exact A].
  - apply (DAux_us_eq s); [apply us_eq_core, core_eq_activate | exact A].
  - apply (DAux_us_eq s); [apply us_eq_deactivate | exact A].
  - apply (DAux_us_eq s); [apply us_eq_core, core_eq_mark_deleted | exact A].
  - apply (DAux_us_eq s); [apply us_eq_schedule | exact A].
  - apply (DAux_us_eq s); [apply us_eq_unschedule | exact A].
  - apply (DAux_us_eq s); [apply us_eq_creating_started | exact A].
  - apply (DAux_us_eq s); [apply us_eq_creating_started | exact A].
  - apply (DAux_us_eq s); [apply us_eq_mark_complete | exact A].
  - apply (DAux_us_eq s); [apply us_eq_core, core_eq_add_resources | exact A].
  - apply (DAux_us_eq s); [apply us_eq_core, core_eq_billing_update | exact A].
  - apply DAux_cleanup_staging; exact A.
  - apply (DAux_us_eq s); [apply us_eq_core, core_eq_cleanup_cancellable | exact A].
Qed.

Theorem DAux_run ops : DAux (run ops).
Proof. apply run_invariant; [apply DAux_init | intros s o; apply DAux_step]. Qed.
