(** C01 — [CInv] is preserved by commit_batch_update: the update becomes committed, the staged ready counts of the
    root group are added to the user's counters, and (for updates after the first) the jobs of the update are
    recomputed from their parents, one trigger firing per row. *)
From HailV Require Import BatchDB.StepFrame.
From HailV Require Import Common.Prelude BatchDB.Model BatchDB.Tables BatchDB.CMap BatchDB.JobsWF BatchDB.StepCore BatchDB.JobFold
  BatchDB.Legal BatchDB.DepsDef BatchDB.DepsEasy BatchDB.DepsMap BatchDB.DepsStruct BatchDB.DepsCommit1 BatchDB.DepsCommit2 BatchDB.DepsCommit3
  BatchDB.CountersAlg BatchDB.CountersInv BatchDB.CountersDriver.
From RecordUpdate Require Import RecordSet.
Import RecordSetNotations.
Open Scope Z_scope.

(* ------------------------------------------------------------------ setting the committed flag *)

Definition cl (l : list update) (b u : Z) : bool :=
  match find (fun x => (u_batch x =? b) && (u_id x =? u)) l with Some x => u_committed x | None => false end.

Lemma cl_map_other b u l b' u' : (b' =? b) && (u' =? u) = false -> cl (map (commit_fl b u) l) b' u' = cl l b' u'.
Proof.
  intros Hne. unfold cl. induction l as [|x l IH]; [reflexivity|]. cbn [map find].
  destruct (commit_fl_fields b u x) as (E1 & E2 & _). rewrite E1, E2.
  destruct ((u_batch x =? b') && (u_id x =? u')) eqn:K; [|exact IH].
  unfold commit_fl. destruct ((u_batch x =? b) && (u_id x =? u)) eqn:K2; [|reflexivity].
  exfalso. apply andb_true_iff in K. apply andb_true_iff in K2. apply andb_false_iff in Hne. lia.
Qed.

Lemma cl_map_self b u l up :
  find (fun x => (u_batch x =? b) && (u_id x =? u)) l = Some up -> cl (map (commit_fl b u) l) b u = true.
Proof.
  unfold cl. induction l as [|x l IH]; [discriminate|]. cbn [map find].
  destruct (commit_fl_fields b u x) as (E1 & E2 & _). rewrite E1, E2.
  destruct ((u_batch x =? b) && (u_id x =? u)) eqn:K.
  - intros _. unfold commit_fl. rewrite K. destruct x; reflexivity.
  - exact IH.
Qed.

Lemma committed_commit_fl s s' b u up b' u' :
  updates s' = map (commit_fl b u) (updates s) -> find_update s b u = Some up ->
  committed s' b' u' = committed s b' u' || ((b' =? b) && (u' =? u)).
Proof.
  intros E F. change (committed s' b' u') with (cl (updates s') b' u'). change (committed s b' u') with (cl (updates s) b' u').
  rewrite E. destruct ((b' =? b) && (u' =? u)) eqn:K.
  - apply andb_true_iff in K. destruct K as [K1 K2]. replace b' with b by lia. replace u' with u by lia.
    rewrite (cl_map_self b u _ up F). rewrite orb_true_r. reflexivity.
  - rewrite (cl_map_other b u _ b' u' K), orb_false_r. reflexivity.
Qed.

Lemma PInv_commit_fl s s' b u :
  updates s' = map (commit_fl b u) (updates s) -> PInv s -> earlier_committed s b u = true -> PInv s'.
Proof.
  intros E P Early x y Hx Hy Eb Lt Cy. rewrite E in Hx, Hy.
  apply in_map_iff in Hx. destruct Hx as (x0 & <- & Hx0). apply in_map_iff in Hy. destruct Hy as (y0 & <- & Hy0).
  destruct (commit_fl_fields b u x0) as (X1 & X2 & _ & _ & X5 & _).
  destruct (commit_fl_fields b u y0) as (Y1 & Y2 & _).
  rewrite X1, Y1 in Eb. rewrite X2, Y2 in Lt. apply X5.
  unfold commit_fl in Cy. destruct ((u_batch y0 =? b) && (u_id y0 =? u)) eqn:K.
  - apply andb_true_iff in K. destruct K as [K1 K2].
    unfold earlier_committed in Early. rewrite forallb_forall in Early. specialize (Early x0 Hx0).
    replace (u_batch x0 =? b) with true in Early by lia. replace (u_id x0 <? u) with true in Early by lia. exact Early.
  - apply (P x0 y0); assumption.
Qed.

(* ------------------------------------------------------------------ the user_inst_coll_resources fold *)

Definition cm_F (b u user : Z) (m : cmap) (kv : list Z * list Z) : cmap :=
  match kv with
  | ([b'; u'; g'; ic], [_; nr; rc]) =>
      if (b' =? b) && (u' =? u) && (g' =? 0) then cadd [user; ic] [nr; rc; 0; 0; 0; 0; 0; 0] m else m
  | _ => m
  end.

Lemma fold_user_res {A} (f : state -> A -> state) (F : cmap -> A -> cmap) l :
  (forall st a, user_res (f st a) = F (user_res st) a) ->
  forall st, user_res (fold_left f l st) = fold_left F l (user_res st).
Proof.
  intros H. induction l as [|a l IH]; intros st; cbn [fold_left]; [reflexivity|]. rewrite IH, H. reflexivity.
Qed.

Lemma nth2 a b i : nth i [a; b; 0; 0; 0; 0; 0; 0] 0 = match i with O => a | S O => b | _ => 0 end.
Proof. do 8 (destruct i as [|i]; [reflexivity|]). destruct i; reflexivity. Qed.

Lemma cm_F_cval b u user usr ic0 i : forall rows m,
  shaped 4 3 rows ->
  cval (key_eqb [usr; ic0]) i (fold_left (cm_F b u user) rows m) =
  cval (key_eqb [usr; ic0]) i m +
  (if usr =? user
   then nth i [cval (key_eqb [b; u; 0; ic0]) 1 rows; cval (key_eqb [b; u; 0; ic0]) 2 rows; 0; 0; 0; 0; 0; 0] 0 else 0).
Proof.
  induction rows as [|[k v] rows IH]; intros m Sh; cbn [fold_left].
  - rewrite nth2. unfold cval at 3 4. cbn [csum nth]. destruct (usr =? user); [|lia].
    destruct i as [|[|i]]; lia.
  - pose proof (Forall_inv Sh) as [Hk Hv]. pose proof (Forall_inv_tail Sh) as Sh'. cbn [fst snd] in Hk, Hv.
    destruct k as [|b' [|u' [|g' [|ic [|]]]]]; try discriminate.
    destruct v as [|n0 [|nr [|rc [|]]]]; try discriminate.
    set (P := key_eqb [usr; ic0]) in *. set (K := key_eqb [b; u; 0; ic0]) in *.
    assert (HK : K [b'; u'; g'; ic] = (b' =? b) && (u' =? u) && (g' =? 0) && (ic0 =? ic)).
    { unfold K. cbn [key_eqb]. rewrite (Z.eqb_sym b b'), (Z.eqb_sym u u'), (Z.eqb_sym 0 g'), andb_true_r, !andb_assoc. reflexivity. }
    assert (HP : P [user; ic] = (usr =? user) && (ic0 =? ic)).
    { unfold P. cbn [key_eqb]. rewrite andb_true_r. reflexivity. }
    assert (HKc : forall j, cval K j (([b'; u'; g'; ic], [n0; nr; rc]) :: rows) =
                            (if K [b'; u'; g'; ic] then nth j [n0; nr; rc] 0 else 0) + cval K j rows).
    { intros j. unfold cval. cbn [csum fst snd]. destruct (K [b'; u'; g'; ic]); [rewrite nth_vadd|]; lia. }
    rewrite (IH _ Sh'), !nth2, !HKc, HK. unfold cm_F.
    destruct ((b' =? b) && (u' =? u) && (g' =? 0)) eqn:Cond; cbn [andb].
    + rewrite cval_cadd. fold P. rewrite HP, nth2.
      destruct (usr =? user), (ic0 =? ic); cbn [andb]; destruct i as [|[|i]]; cbn [nth]; lia.
    + destruct (usr =? user); destruct i as [|[|i]]; lia.
Qed.

(* ------------------------------------------------------------------ the state after the counters were moved *)

Lemma no_marked_not_cancelled s b g :
  (forall a, In a (anc_ids s b g) -> marked s b a = true -> False) -> group_cancelled s b g = false.
Proof.
  intros H. unfold group_cancelled, n_cancelled_anc.
  rewrite filter_all_false; [reflexivity|]. intros a Ha. destruct (marked s b a) eqn:M; [exfalso; eauto | reflexivity].
Qed.

Section CommitCore.
  Variables (s s4 : state) (b u : Z) (up : update).
  Hypothesis D : DInv s.
  Hypothesis C : CInv s.
  Hypothesis Fup : find_update s b u = Some up.
  Hypothesis Hunc : u_committed up = false.
  Hypothesis Hroot : marked s b 0 = false.
  Hypothesis Early : earlier_committed s b u = true.
  Hypothesis Ej : jobs s4 = jobs s.
  Hypothesis Ec : cancellable s4 = cancellable s.
  Hypothesis Es : staging s4 = staging s.
  Hypothesis Em : marks s4 = marks s.
  Hypothesis Ea : ancestors s4 = ancestors s.
  Hypothesis Ebu : forall b', batch_user s4 b' = batch_user s b'.
  Hypothesis Eup : updates s4 = map (commit_fl b u) (updates s).
  Hypothesis Eur : forall usr ic i,
    cval (key_eqb [usr; ic]) i (user_res s4) =
    cval (key_eqb [usr; ic]) i (user_res s) +
    (if usr =? batch_user s b
     then nth i [cval (key_eqb [b; u; 0; ic]) 1 (staging s); cval (key_eqb [b; u; 0; ic]) 2 (staging s); 0; 0; 0; 0; 0; 0] 0 else 0).

  Lemma cc_committed b' u' : committed s4 b' u' = committed s b' u' || ((b' =? b) && (u' =? u)).
  Proof. apply (committed_commit_fl s s4 b u up); assumption. Qed.

  Lemma cc_unc : committed s b u = false.
  Proof. unfold committed. rewrite Fup. exact Hunc. Qed.

  Lemma cc_gc b' g' : group_cancelled s4 b' g' = group_cancelled s b' g'.
  Proof. apply group_cancelled_ext; assumption. Qed.

  (* a job of the update being committed counts as (not cancelled) Ready or not at all *)
  Lemma cc_new_job x i :
    In x (jobs s) -> j_batch x = b -> j_update x = u ->
    nth i (uvec (jgc s x) x) 0 = nth i [nth 1 (svec x) 0; nth 2 (svec x) 0; 0; 0; 0; 0; 0; 0] 0.
  Proof.
    intros Hx Eb Eu.
    assert (Hxc : jcommitted s x = false) by (unfold jcommitted; rewrite Eb, Eu; exact cc_unc).
    pose proof (d_jobs _ D x Hx) as Ok. unfold job_ok in Ok. rewrite Hxc in Ok. destruct Ok as [_ Ok].
    assert (St : j_state x = Ready \/ j_state x = Pending).
    { destruct (j_update x =? 1); [destruct Ok as [_ ->]; destruct (is_nil _); auto | auto]. }
    destruct St as [St|St].
    - destruct (c_rdy _ C x Hx Hxc St) as [Nc Mk].
      assert (Gc : jgc s x = false).
      { unfold jgc. apply no_marked_not_cancelled. intros a Ha Hm. rewrite (Mk a Ha Hm) in Hm. rewrite Eb in Hm. congruence. }
      rewrite Gc. unfold uvec, svec, effc, isst. cbv zeta. rewrite St, Nc. cbn [jstate_eqb orb andb negb ind].
      rewrite andb_false_r. cbn [negb ind nth].
      do 8 (destruct i as [|i]; [cbn [nth]; lia|]). destruct i; reflexivity.
    - rewrite uvec_inactive by (apply isst_pending; [exact St | discriminate]).
      unfold svec, isst. rewrite St. cbn [jstate_eqb ind nth].
      do 8 (destruct i as [|i]; [cbn [nth]; lia|]). destruct i; reflexivity.
  Qed.

  Lemma cc_UInv : UInv s4.
  Proof.
    intros usr ic i. rewrite Eur, Ej, (c_user _ C usr ic i).
    rewrite !(c_stg _ C b u ic _ cc_unc).
    (* split the new recount into the old one and the jobs of the committed update *)
    rewrite (zsum_ext_in (uw s4 usr ic i)
               (fun x => uw s usr ic i x +
                         (if ssel b u ic x && (batch_user s b =? usr)
                          then nth i [nth 1 (svec x) 0; nth 2 (svec x) 0; 0; 0; 0; 0; 0; 0] 0 else 0))).
    2:{ intros x Hx. unfold uw, usel, jgc. rewrite Ebu, cc_committed, cc_gc. unfold ssel.
        destruct ((j_batch x =? b) && (j_update x =? u)) eqn:K.
        - apply andb_true_iff in K. destruct K as [K1 K2]. assert (Eb : j_batch x = b) by lia. assert (Eu : j_update x = u) by lia.
          rewrite Eb, Eu, cc_unc. cbn [orb]. rewrite andb_false_r, andb_true_r. cbn [andb].
          rewrite (Z.eqb_sym (j_ic x) ic), (andb_comm (batch_user s b =? usr)).
          rewrite <- Eb at 2. fold (jgc s x). rewrite (cc_new_job x i Hx Eb Eu).
          rewrite (Z.eqb_sym ic (j_ic x)). lia.
        - rewrite orb_false_r. cbn [andb]. lia. }
    rewrite zsum_plus. f_equal. rewrite (Z.eqb_sym usr).
    destruct (batch_user s b =? usr).
    - destruct i as [|[|i]].
      + cbn [nth]. apply zsum_ext_in. intros x _. unfold sw. rewrite andb_true_r. reflexivity.
      + cbn [nth]. apply zsum_ext_in. intros x _. unfold sw. rewrite andb_true_r. reflexivity.
      + symmetry. transitivity 0.
        * apply zsum_zero. intros x _. destruct (ssel b u ic x && true); [|reflexivity].
          do 6 (destruct i as [|i]; [reflexivity|]). destruct i; reflexivity.
        * do 6 (destruct i as [|i]; [reflexivity|]). destruct i; reflexivity.
    - symmetry. apply zsum_zero. intros x _. rewrite andb_false_r. reflexivity.
  Qed.

  Lemma CInv_commit_core : CInv s4.
  Proof.
    constructor.
    - rewrite Ec. apply (c_shc _ C).
    - rewrite Es. apply (c_shs _ C).
    - apply (AInv_ext s); [exact Ea | apply (c_anc _ C)].
    - apply (PInv_commit_fl s s4 b u); [exact Eup | apply (c_pref _ C) | exact Early].
    - intros x Hx Hc Hr. rewrite Ej in Hx. unfold jcommitted in Hc. rewrite cc_committed in Hc.
      apply orb_false_iff in Hc. destruct Hc as [Hc _].
      destruct (c_rdy _ C x Hx Hc Hr) as [R1 R2]. split; [exact R1|]. intros a Ha Hm.
      rewrite (anc_ids_ext _ _ _ _ Ea) in Ha. rewrite (marked_ext _ _ _ _ Em) in Hm. auto.
    - exact cc_UInv.
    - intros b' g' Hg Q i. rewrite cc_gc in Hg. rewrite Ec, Ej, (c_grp _ C b' g' Hg Q i).
      apply zsum_ext_in. intros x _. unfold gw, insub, jgc. rewrite cc_gc, (anc_ids_ext _ _ _ _ Ea). reflexivity.
    - intros b' u' ic i Hu. rewrite cc_committed in Hu. apply orb_false_iff in Hu. destruct Hu as [Hu _].
      rewrite Es, Ej. apply (c_stg _ C). exact Hu.
  Qed.
End CommitCore.

(* ------------------------------------------------------------------ the recomputation of the update's rows *)

Lemma NoDup_map_filter {A B} (f : A -> B) (p : A -> bool) l : NoDup (map f l) -> NoDup (map f (filter p l)).
Proof.
  induction l as [|a l IH]; intros ND; cbn [filter map]; [constructor|].
  cbn [map] in ND. inversion ND as [|? ? Hn ND']; subst.
  destruct (p a); [|apply IH; exact ND']. cbn [map]. constructor; [|apply IH; exact ND'].
  intros Hin. apply Hn. apply in_map_iff in Hin. destruct Hin as (y & E & Hy). apply filter_In in Hy.
  apply in_map_iff. exists y. tauto.
Qed.

Lemma CInv_recompute_fold s4 (h : job -> job) targets :
  Kjobs s4 -> CInv s4 -> (forall y, static y (h y)) ->
  NoDup (map jk targets) -> (forall y, In y targets -> In y (jobs s4) /\ jcommitted s4 y = true) ->
  CInv (fold_left (fun st x => update_job st x (h x)) targets s4).
Proof.
  intros K C Hs ND Ht.
  set (I := fun st => Kjobs st /\ CInv st /\ updates st = updates s4).
  set (P := fun y : job => jcommitted s4 y = true).
  assert (HI : I (fold_left (fun st x => update_job st x (h x)) targets s4)).
  { apply (fold_rows_inv I P).
    - intros st y Py (Kst & Cst & Ust) Hy. right. exists (h y). split; [reflexivity|]. split; [apply Hs|].
      split; [apply Kjobs_update_job; exact Kst|]. split; [|rewrite update_job_updates; exact Ust].
      apply CInv_update_job; auto. unfold jcommitted. rewrite (committed_ext s4 st _ _ Ust). exact Py.
    - exact ND.
    - intros y Hy. destruct (Ht y Hy). split; assumption.
    - split; [exact K|]. split; [exact C | reflexivity]. }
  apply HI.
Qed.

(* ------------------------------------------------------------------ commit *)

Lemma CInv_commit s b u user :
  DInv s -> CInv s -> earlier_committed s b u = true -> CInv (fst (do_commit s b u user)).
Proof.
  intros D C Early. unfold do_commit. destruct (find_batch s b) as [bt|]; [|exact C].
  destruct (find_update s b u) as [up0|] eqn:Fup0; [|exact C].
  destruct (_ || _); [exact C|]. destruct (marked s b 0) eqn:Hroot; [exact C|].
  unfold do_commit_proc. rewrite Fup0. rename up0 into up. rename Fup0 into Fup.
  destruct (u_committed up) eqn:Hunc; [exact C|].
  set (staged_n := nth 0 (csum (fun k => key_eqb (firstn 3 k) [b; u; 0]) (staging s)) 0).
  destruct (staged_n =? u_njobs up) eqn:Hst; cbn [negb]; [|exact C].
  set (s1 := s <| updates ::= map _ |>).
  assert (U1 : updates s1 = map (commit_fl b u) (updates s)) by reflexivity.
  pose proof (find_update_in _ _ _ _ Fup) as (Hup & Ub & Uu).
  (* the generic finish *)
  assert (Core : forall s4, jobs s4 = jobs s -> cancellable s4 = cancellable s -> staging s4 = staging s -> marks s4 = marks s ->
            ancestors s4 = ancestors s -> (forall b', batch_user s4 b' = batch_user s b') ->
            updates s4 = map (commit_fl b u) (updates s) ->
            (forall usr ic i, cval (key_eqb [usr; ic]) i (user_res s4) =
               cval (key_eqb [usr; ic]) i (user_res s) +
               (if usr =? batch_user s b
                then nth i [cval (key_eqb [b; u; 0; ic]) 1 (staging s); cval (key_eqb [b; u; 0; ic]) 2 (staging s); 0; 0; 0; 0; 0; 0] 0 else 0)) ->
            CInv s4).
  { intros s4 E1 E2 E3 E4 E5 E6 E7 E8. apply (CInv_commit_core s s4 b u up); assumption. }
  destruct (0 <? u_njobs up) eqn:Hpos; cbn [negb fst].
  2:{ (* an empty update: nothing is staged *)
      apply Core; try reflexivity. intros usr ic i. change (user_res s1) with (user_res s).
      assert (Z0 : forall k, cval (key_eqb [b; u; 0; ic]) k (staging s) = 0).
      { intros k. rewrite (c_stg _ C b u ic k) by (unfold committed; rewrite Fup; exact Hunc).
        apply zsum_zero. intros x Hx. unfold sw, ssel.
        destruct ((j_batch x =? b) && (j_update x =? u)) eqn:K; [|reflexivity]. exfalso.
        apply andb_true_iff in K. destruct K as [K1 K2].
        destruct (d_jrange _ D x Hx) as (ux & Fx & Rx).
        replace (j_batch x) with b in Fx by lia. replace (j_update x) with u in Fx by lia. rewrite Fup in Fx. injection Fx as <-. lia. }
      rewrite !Z0. destruct (usr =? batch_user s b); [|lia].
      do 8 (destruct i as [|i]; [cbn [nth]; lia|]). destruct i; cbn [nth]; lia. }
  set (s2 := s1 <| batches ::= map _ |>).
  set (s3 := s2 <| groups ::= map _ |>).
  match goal with |- context [fold_left ?f (staging s) s3] => set (fu := f); set (s4 := fold_left fu (staging s) s3) end.
  assert (Bu3 : forall b', batch_user s3 b' = batch_user s b').
  { intros b'. change (batch_user s3 b') with (batch_user s2 b'). unfold s2.
    rewrite batch_user_map_batches; [reflexivity|]. intros x. destruct (b_id x =? b); split; reflexivity. }
  pose proof (commit_user_res_fold_core fu (staging s) s3) as F4. cbv zeta in F4. fold s4 in F4.
  destruct F4 as (F1 & F2 & F3 & F4 & F5 & F6 & F7 & F8 & F9 & F10 & F11 & F12).
  { intros st [k v]. subst fu. cbv beta.
    destruct k as [|b' [|u' [|g' [|ic [|]]]]]; auto. destruct v as [|v0 [|nr [|rc [|]]]]; auto.
    match goal with |- context [if ?c then _ else _] => destruct c end; eauto. }
  assert (Ur4 : user_res s4 = fold_left (cm_F b u (batch_user s b)) (staging s) (user_res s)).
  { unfold s4. rewrite (fold_user_res fu (cm_F b u (batch_user s b))); [reflexivity|].
    intros st [k v]. subst fu. cbv beta. unfold cm_F.
    destruct k as [|b' [|u' [|g' [|ic [|]]]]]; try reflexivity. destruct v as [|v0 [|nr [|rc [|]]]]; try reflexivity.
    match goal with |- context [if ?c then _ else _] => destruct c end; reflexivity. }
  assert (C4 : CInv s4).
  { apply Core; try assumption.
    - intros b'. unfold batch_user, find_batch. rewrite F1. apply Bu3.
    - intros usr ic i. rewrite Ur4. apply cm_F_cval. apply (c_shs _ C). }
  destruct (u =? 1) eqn:U1'; cbn [fst]; [exact C4|].
  rewrite fold_left_map. cbn [fst snd].
  apply CInv_recompute_fold.
  - unfold Kjobs. rewrite F6. apply (d_jkeys _ D).
  - exact C4.
  - intros y. apply recompute_job_static.
  - apply NoDup_map_filter. rewrite F6. apply (d_jkeys _ D).
  - intros y Hy. apply filter_In in Hy. destruct Hy as (Hy & T). split; [exact Hy|].
    rewrite F6 in Hy. change (jobs s3) with (jobs s) in Hy.
    apply andb_true_iff in T. destruct T as [T T3]. apply andb_true_iff in T. destruct T as [T1 T2].
    assert (Eu : j_update y = u).
    { rewrite <- Uu. apply (job_owner s y up D Hy Hup); lia. }
    unfold jcommitted. rewrite (committed_commit_fl s s4 b u up) by (try exact Fup; rewrite F2; exact U1).
    replace (j_batch y =? b) with true by lia. replace (j_update y =? u) with true by lia. apply orb_true_r.
Qed.
