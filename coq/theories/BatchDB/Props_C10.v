(** C10 — instance free-core accounting is exact.  Property theorems only (proofs: BatchDB/Cores.v).

    Quantification: ALL legal histories [ops] of the batch-database model ([Legal.legal_history]: driver/worker messages
    name jobs of committed updates, a message about an existing attempt names that attempt's instance, an unschedule names
    an existing attempt, worker completions carry an end time) whose attempt-less completions (attempt id NULL = -1: the
    canceller completing a Ready job) name no instance ([Cores.names_attempt], NOT part of Legal.v; see
    C10_needs_completions_to_name_an_attempt).  Duplicated, late, stale and reordered schedule / creating / started /
    complete / unschedule / heartbeat / deactivation messages are all legal.

    [jc s a] = cores of the job of attempt [a]; [is_open a] = its end time is NULL; -1 = SQL NULL is not an instance name. *)
From HailV Require Import Common.Prelude BatchDB.Model BatchDB.Legal BatchDB.Cores BatchDB.MemCores.
Open Scope Z_scope.

(** A live (pending or active) instance reports its total cores minus the cores of the attempts placed on it that have
    not ended; an inactive or deleted instance reports all its cores. *)
Theorem C10_free_exact : forall ops,
  legal_history ops -> Forall names_attempt ops ->
  forall x, In x (insts (run ops)) -> i_name x <> -1 ->
  i_free x = if ilive (i_state x)
             then i_cores x - zsum (jc (run ops)) (filter (fun a => (a_inst a =? i_name x) && is_open a) (attempts (run ops)))
             else i_cores x.
Proof. exact free_cores_exact. Qed.
Print Assumptions C10_free_exact.

Theorem C10_inactive_all_free : forall ops,
  legal_history ops -> Forall names_attempt ops ->
  forall x, In x (insts (run ops)) -> i_name x <> -1 -> ilive (i_state x) = false -> i_free x = i_cores x.
Proof. exact inactive_all_free. Qed.
Print Assumptions C10_inactive_all_free.

(** The formula is about keyed tables: instance names, attempt keys and job keys are unique, the job of every attempt
    exists, the instance of every attempt exists or is NULL. *)
Theorem C10_tables_keyed : forall ops,
  legal_history ops -> Forall names_attempt ops ->
  let s := run ops in
  NoDup (map i_name (insts s)) /\ NoDup (map ak (attempts s)) /\ NoDup (map jk (jobs s)) /\
  (forall a, In a (attempts s) -> find_job s (a_batch a) (a_job a) <> None) /\
  (forall a, In a (attempts s) -> a_inst a = -1 \/ In (a_inst a) (map i_name (insts s))).
Proof. exact tables_keyed. Qed.
Print Assumptions C10_tables_keyed.

(** The step form: the invariant (keyed tables, "no end time => no end reason" for attempts on real instances, and the
    formula for every instance) is preserved by every legal message from ANY state that satisfies it. *)
Theorem C10_step : forall s o, CInv s -> legal s o -> names_attempt o -> CInv (fst (step s o)).
Proof. exact step_cinv. Qed.
Print Assumptions C10_step.

(** Why Legal.v's "an unschedule names an existing attempt" is needed: from a reachable state, an unschedule for an
    attempt id that was never created (legal in every other respect) makes a live instance report MORE free cores than
    its total minus its open attempts.  The SQL procedure behaves the same (harness/batchdb/README: found only with forged ids). *)
Theorem C10_needs_unschedule_of_existing_attempt :
  let s := run setup in
  let o := UnscheduleJob 1 1 99 7 50 3 in
  job_committed s 1 1 = true /\ find_attempt s 1 1 99 = None /\ names_attempt o /\ bad_free (fst (step s o)).
Proof. exact forged_unschedule_breaks_formula. Qed.
Print Assumptions C10_needs_unschedule_of_existing_attempt.

(** Why [names_attempt] is needed: a completion without attempt id that names a live instance is legal for Legal.v and
    releases cores although no attempt ended.  The real callers pass instance NULL whenever the attempt id is NULL
    (canceller.cancel_cancelled_ready_jobs, job.mark_job_errored). *)
Theorem C10_needs_completions_to_name_an_attempt :
  let s := run setup in
  let o := MarkComplete 1 1 (-1) 7 Cancelled None (Some 5) 3 in
  legal s o /\ ~ names_attempt o /\ bad_free (fst (step s o)).
Proof. exact attemptless_complete_breaks_formula. Qed.
Print Assumptions C10_needs_completions_to_name_an_attempt.

(** The driver's in-memory copy around [CALL schedule_job] on a live POOL instance (the pool scheduler has reserved the job's
    cores in memory before the call): from ANY state, for EVERY answer [rc; delta] of the procedure — rc = 0 and rc = 1
    alike — the database's new free cores are exactly  old free - cores + delta.  Hence "in-memory = database" is kept by
    the call iff the driver adds the answered delta on both branches (the in-memory object itself is not modelled: that
    the real schedule_job does so is checked by the run, oracle clause C10:in-memory-free-cores). *)
Theorem C10_pool_schedule_delta_exact : forall s b j a i x y s' rc delta,
  find_job s b j = Some x -> find_inst s i = Some y -> i_pool y = true -> ilive (i_state y) = true ->
  do_schedule s b j a i = (s', ok [rc; delta]) ->
  free_of s' i = Some (i_free y - j_cores x + delta) /\ (rc = 0 \/ rc = 1).
Proof. exact pool_schedule_delta_exact. Qed.
Print Assumptions C10_pool_schedule_delta_exact.

(** The hypotheses are satisfiable by a history that exercises schedule, duplicate schedule, start, completion, late
    duplicate completion and deactivation. *)
Theorem C10_hypotheses_satisfiable : legal_history demo /\ Forall names_attempt demo.
Proof. exact demo_legal. Qed.
Print Assumptions C10_hypotheses_satisfiable.
