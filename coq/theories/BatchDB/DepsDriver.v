(** [DInv] is preserved by the driver's "soft" job messages: schedule, creating, started, unschedule and
    instance deactivation. *)
From HailV Require Import Common.Prelude BatchDB.Model BatchDB.Tables BatchDB.CMap BatchDB.JobsWF BatchDB.StepCore
  BatchDB.JobFold BatchDB.Legal BatchDB.DepsDef BatchDB.DepsEasy.
From RecordUpdate Require Import RecordSet.
Import RecordSetNotations.
Open Scope Z_scope.

Lemma jstate_eqb_eq a b : jstate_eqb a b = true <-> a = b.
Proof. destruct a, b; cbn; split; intros H; try reflexivity; try discriminate. Qed.

(* a committed job that is not Pending, moved to a non-Pending non-terminal state, is a soft move *)
Lemma soft_to_active x st att :
  terminal (j_state x) = false -> j_state x <> Pending ->
  terminal st = false -> st <> Pending ->
  soft x (x <| j_state := st |> <| j_attempt := att |>).
Proof.
  intros T1 P1 T2 P2. unfold soft. destruct x as [xb xi xu xg xs xa xc xn xcn xat xic]; cbn in *.
  split; [repeat split|]. split; [reflexivity|]. split; [reflexivity|].
  split; [split; intros H; [contradiction | contradiction]|].
  split; [congruence|].
  destruct xs, st; cbn in *; congruence.
Qed.

Lemma legal_job_committed s b j x : job_committed s b j = true -> find_job s b j = Some x -> jcommitted s x = true.
Proof.
  unfold job_committed, jcommitted. intros H F. rewrite F in H.
  apply find_jkey_sound in F. destruct F as (_ & <- & _). exact H.
Qed.

Lemma DInv_schedule s b j a i : DInv s -> legal s (ScheduleJob b j a i) -> DInv (fst (do_schedule s b j a i)).
Proof.
  intros D L. unfold legal, legalb in L. apply andb_true_iff in L. destruct L as [Lc _].
  unfold do_schedule. destruct (find_job s b j) as [x|] eqn:F; [|exact D].
  destruct (is_job_cancelled s x); [|exact D].
  destruct (add_attempt s b j a i (j_cores x)) as [[s1 d0]|] eqn:A; [|exact D].
  pose proof (core_eq_add_attempt _ _ _ _ _ _ _ _ A) as C1.
  match goal with |- context [if ?c then _ else _] => destruct c eqn:Cond end; cbn [fst].
  - apply (DInv_update_job_soft s s1 x _ b j D C1 F (legal_job_committed _ _ _ _ Lc F)).
    apply andb_true_iff in Cond. destruct Cond as [Cond _]. apply andb_true_iff in Cond. destruct Cond as [Cond _].
    apply soft_to_active; try reflexivity; try discriminate.
    + apply orb_true_iff in Cond. destruct Cond as [E|E]; apply jstate_eqb_eq in E; rewrite E; reflexivity.
    + apply orb_true_iff in Cond. destruct Cond as [E|E]; apply jstate_eqb_eq in E; rewrite E; discriminate.
  - apply (DInv_core s s1 C1 D).
Qed.

Lemma DInv_creating_started c s b j a i t :
  DInv s -> job_committed s b j = true -> DInv (fst (do_mark_creating_or_started c s b j a i t)).
Proof.
  intros D Lc. unfold do_mark_creating_or_started.
  destruct (find_job s b j) as [x|] eqn:F; [|exact D].
  destruct (is_job_cancelled s x); [|exact D].
  destruct (add_attempt s b j a i (j_cores x)) as [[s1 d0]|] eqn:A; [|exact D].
  pose proof (core_eq_add_attempt _ _ _ _ _ _ _ _ A) as C1.
  pose proof (core_eq_trans _ _ _ C1 (core_eq_set_times s1 b j a t)) as C2.
  match goal with |- context [if ?c then _ else _] => destruct c eqn:Cond end; cbn [fst].
  - apply (DInv_update_job_soft s _ x _ b j D C2 F (legal_job_committed _ _ _ _ Lc F)).
    apply andb_true_iff in Cond. destruct Cond as [Cond _]. apply andb_true_iff in Cond. destruct Cond as [Cond _].
    apply jstate_eqb_eq in Cond.
    apply soft_to_active; try (rewrite Cond; reflexivity); try (rewrite Cond; discriminate); destruct c; try reflexivity; discriminate.
  - apply (DInv_core s _ C2 D).
Qed.

Lemma DInv_unschedule s b j a i t r :
  DInv s -> job_committed s b j = true -> DInv (fst (do_unschedule s b j a i t r)).
Proof.
  intros D Lc. unfold do_unschedule.
  destruct (find_job s b j) as [x|] eqn:F.
  2:{ match goal with |- context [if ?c then _ else _] => destruct c end; exact D. }
  set (s1 := match find_attempt s b j a with Some c => update_attempt s c _ | None => s end).
  assert (C1 : core_eq s s1).
  { subst s1. destruct (find_attempt s b j a); [apply core_eq_update_attempt | apply core_eq_refl]. }
  match goal with |- context [if ?g then match find_inst s1 i with _ => _ end else s1] =>
    set (s2 := if g then match find_inst s1 i with Some y => s1 <| insts ::= replace_inst (y <| i_free := i_free y + j_cores x |>) |> | None => s1 end else s1) end.
  assert (C2 : core_eq s s2).
  { subst s2. match goal with |- context [if ?g then _ else _] => destruct g end; [|exact C1].
    destruct (find_inst s1 i); [|exact C1]. eapply core_eq_trans; [exact C1 | apply core_eq_insts]. }
  match goal with |- context [if ?c then (update_job _ _ _, _) else _] => destruct c eqn:Cond end; cbn [fst].
  - apply (DInv_update_job_soft s s2 x _ b j D C2 F (legal_job_committed _ _ _ _ Lc F)).
    apply andb_true_iff in Cond. destruct Cond as [Cond _].
    apply soft_to_active; try reflexivity; try discriminate.
    + apply orb_true_iff in Cond. destruct Cond as [E|E]; apply jstate_eqb_eq in E; rewrite E; reflexivity.
    + apply orb_true_iff in Cond. destruct Cond as [E|E]; apply jstate_eqb_eq in E; rewrite E; discriminate.
  - apply (DInv_core s s2 C2 D).
Qed.
