(** Which tables each transaction of the model can touch (used by C07 / C09).

    [same_core s s']   the tables other than attempts / instances / billing are unchanged: what the attempt bookkeeping
                       sub-procedures ([add_attempt], [update_attempt], [set_times], [bill]) guarantee;
    [same_tree s s']   marks, ancestor rows and the keys of groups / batches / updates are unchanged (tactic [tree]);
    [grow s s']        they are only appended to: holds for every transaction ([step_grow]);
    [jrel P l0 l]      how a transaction rewrites the jobs table; [step_jobs]: every transaction, every state;
    shape lemmas       for the large transactions (Schedule, MarkCreating/Started, MarkComplete, CreateJobs, CreateGroups). *)
From HailV Require Import Common.Prelude BatchDB.Model BatchDB.Tables BatchDB.CMap BatchDB.Legal.
From RecordUpdate Require Import RecordSet.
Import RecordSetNotations.
Open Scope Z_scope.

Lemma fold_keeps {A T} (F : state -> T) (g : state -> A -> state) l s :
  (forall st a, F (g st a) = F st) -> F (fold_left g l s) = F s.
Proof. intros H; revert s; induction l as [|a l IH]; intros s; cbn [fold_left]; [reflexivity | rewrite IH, H; reflexivity]. Qed.

Lemma fold_rel {A} (R : state -> state -> Prop) (g : state -> A -> state) l s :
  (forall st, R st st) -> (forall s1 s2 s3, R s1 s2 -> R s2 s3 -> R s1 s3) ->
  (forall st a, R st (g st a)) -> R s (fold_left g l s).
Proof.
  intros Hr Ht H; revert s; induction l as [|a l IH]; intros s; cbn [fold_left]; [apply Hr | eapply Ht; [apply H | apply IH]].
Qed.

Section UA.
  Variables (s : state) (o r : attempt).
  Let F := update_attempt_frame s o r.
  Lemma update_attempt_batches : batches (update_attempt s o r) = batches s. Proof. apply F. Qed.
  Lemma update_attempt_updates : updates (update_attempt s o r) = updates s. Proof. apply F. Qed.
  Lemma update_attempt_groups : groups (update_attempt s o r) = groups s. Proof. apply F. Qed.
  Lemma update_attempt_ancestors : ancestors (update_attempt s o r) = ancestors s. Proof. apply F. Qed.
  Lemma update_attempt_marks : marks (update_attempt s o r) = marks s. Proof. apply F. Qed.
  Lemma update_attempt_jobs : jobs (update_attempt s o r) = jobs s. Proof. apply F. Qed.
  Lemma update_attempt_parents : parents (update_attempt s o r) = parents s. Proof. apply F. Qed.
  Lemma update_attempt_user_res : user_res (update_attempt s o r) = user_res s. Proof. apply F. Qed.
  Lemma update_attempt_cancellable : cancellable (update_attempt s o r) = cancellable s. Proof. apply F. Qed.
  Lemma update_attempt_staging : staging (update_attempt s o r) = staging s. Proof. apply F. Qed.
  Lemma update_attempt_insts : insts (update_attempt s o r) = insts s. Proof. apply F. Qed.
  Lemma update_attempt_next_batch : next_batch (update_attempt s o r) = next_batch s. Proof. apply F. Qed.
End UA.
#[export] Hint Rewrite update_attempt_batches update_attempt_updates update_attempt_groups update_attempt_ancestors
  update_attempt_marks update_attempt_jobs update_attempt_parents update_attempt_user_res update_attempt_cancellable
  update_attempt_staging update_attempt_insts update_attempt_next_batch : frame.

(* ------------------------------------------------------------------ tactics *)

(* destruct the scrutinee of an innermost match of the goal *)
Ltac dmatch :=
  match goal with
  | |- context [match ?x with _ => _ end] =>
      lazymatch x with
      | context [match _ with _ => _ end] => fail
      | _ => destruct x eqn:?
      end
  end.

Ltac scbn := cbn [set fst snd batches updates groups ancestors marks jobs parents user_res cancellable staging attempts insts
                  attempt_res agg_job agg_group agg_bp agg_date next_batch].
Tactic Notation "scbn" "in" hyp(H) :=
  cbn [set fst snd batches updates groups ancestors marks jobs parents user_res cancellable staging attempts insts
       attempt_res agg_job agg_group agg_bp agg_date next_batch] in H.
Tactic Notation "scbn" "in" "*" :=
  cbn [set fst snd batches updates groups ancestors marks jobs parents user_res cancellable staging attempts insts
       attempt_res agg_job agg_group agg_bp agg_date next_batch] in *.

(* ------------------------------------------------------------------ same_core *)

Record same_core (s s' : state) : Prop := mk_same_core {
  sc_batches : batches s' = batches s;
  sc_updates : updates s' = updates s;
  sc_groups : groups s' = groups s;
  sc_ancestors : ancestors s' = ancestors s;
  sc_marks : marks s' = marks s;
  sc_jobs : jobs s' = jobs s;
  sc_parents : parents s' = parents s;
  sc_user_res : user_res s' = user_res s;
  sc_cancellable : cancellable s' = cancellable s;
  sc_staging : staging s' = staging s;
  sc_next_batch : next_batch s' = next_batch s }.

Lemma same_core_refl s : same_core s s.
Proof. constructor; reflexivity. Qed.

Lemma same_core_trans s1 s2 s3 : same_core s1 s2 -> same_core s2 s3 -> same_core s1 s3.
Proof. intros [] []. constructor; congruence. Qed.

Lemma same_core_update_attempt s o r : same_core s (update_attempt s o r).
Proof. constructor; autorewrite with frame; reflexivity. Qed.

Lemma same_core_set_times s b j a t : same_core s (set_times s b j a t).
Proof. unfold set_times. destruct (find_attempt s b j a); [apply same_core_update_attempt | apply same_core_refl]. Qed.

Lemma same_core_add_attempt s b j a i c s1 d : add_attempt s b j a i c = Some (s1, d) -> same_core s s1.
Proof.
  unfold add_attempt. destruct (find_attempt s b j a).
  - intros H; injection H as E1 E2; subst s1. apply same_core_refl.
  - cbv zeta. match goal with |- context [find_inst ?st i] => destruct (find_inst st i) as [x|] end.
    + intros H; injection H as E1 E2; subst s1. destruct (ilive (i_state x)); constructor; reflexivity.
    + destruct (i =? -1); [|discriminate]. intros H; injection H as E1 E2; subst s1. constructor; reflexivity.
Qed.

Lemma same_core_insts s f : same_core s (s <| insts ::= f |>).
Proof. constructor; reflexivity. Qed.
Lemma same_core_attempts s f : same_core s (s <| attempts ::= f |>).
Proof. constructor; reflexivity. Qed.

Lemma same_core_bill s b j d rq : same_core s (bill s b j d rq).
Proof.
  pose proof (bill_frame s b j d rq) as F. cbv zeta in F.
  destruct F as (F1&F2&F3&F4&F5&F6&F7&F8&F9&F10&F11&F12&F13&F14). constructor; assumption.
Qed.

Lemma same_core_add_one_resource b j a s rq : same_core s (add_one_resource b j a s rq).
Proof.
  unfold add_one_resource. destruct rq as [r q].
  destruct (existsb _ _); [apply same_core_refl|]. cbv zeta.
  match goal with |- context [if ?c then _ else _] => destruct c end.
  - constructor; reflexivity.
  - eapply same_core_trans; [|apply same_core_bill]. constructor; reflexivity.
Qed.

Lemma same_core_fold {A} (f : state -> A -> state) l s :
  (forall st x, same_core st (f st x)) -> same_core s (fold_left f l s).
Proof. apply fold_rel; [apply same_core_refl | apply same_core_trans]. Qed.

(* lookups only depend on the core tables *)
Section Lookups.
  Variables (s s' : state).
  Hypothesis H : same_core s s'.
  Lemma sc_find_job b j : find_job s' b j = find_job s b j.
  Proof. unfold find_job. rewrite (sc_jobs _ _ H). reflexivity. Qed.
  Lemma sc_find_update b u : find_update s' b u = find_update s b u.
  Proof. unfold find_update. rewrite (sc_updates _ _ H). reflexivity. Qed.
  Lemma sc_find_batch b : find_batch s' b = find_batch s b.
  Proof. unfold find_batch. rewrite (sc_batches _ _ H). reflexivity. Qed.
  Lemma sc_find_group b g : find_group s' b g = find_group s b g.
  Proof. unfold find_group. rewrite (sc_groups _ _ H). reflexivity. Qed.
  Lemma sc_anc_rows b g : anc_rows s' b g = anc_rows s b g.
  Proof. unfold anc_rows. rewrite (sc_ancestors _ _ H). reflexivity. Qed.
  Lemma sc_anc_ids b g : anc_ids s' b g = anc_ids s b g.
  Proof. unfold anc_ids. rewrite sc_anc_rows. reflexivity. Qed.
  Lemma sc_marked b g : marked s' b g = marked s b g.
  Proof. unfold marked. rewrite (sc_marks _ _ H). reflexivity. Qed.
  Lemma sc_group_cancelled b g : group_cancelled s' b g = group_cancelled s b g.
  Proof.
    unfold group_cancelled, n_cancelled_anc. rewrite sc_anc_ids.
    erewrite filter_ext; [reflexivity|]. intros a. apply sc_marked.
  Qed.
  Lemma sc_batch_user b : batch_user s' b = batch_user s b.
  Proof. unfold batch_user. rewrite sc_find_batch. reflexivity. Qed.
End Lookups.

(* ------------------------------------------------------------------ the small transactions keep the core *)

Ltac core_step :=
  first [ apply same_core_refl
        | apply same_core_update_attempt
        | apply same_core_set_times
        | apply same_core_insts
        | apply same_core_attempts
        | apply same_core_bill
        | apply same_core_add_one_resource
        | (eapply same_core_add_attempt; eassumption) ].

Lemma do_new_instance_core s n ic c p : same_core s (fst (do_new_instance s n ic c p)).
Proof. unfold do_new_instance. repeat dmatch; scbn; core_step. Qed.
Lemma do_activate_core s n : same_core s (fst (do_activate s n)).
Proof. unfold do_activate. repeat dmatch; scbn; core_step. Qed.
Lemma do_mark_deleted_core s n : same_core s (fst (do_mark_deleted s n)).
Proof. unfold do_mark_deleted. repeat dmatch; scbn; core_step. Qed.
Lemma do_add_resources_core s b j a rs : same_core s (fst (do_add_resources s b j a rs)).
Proof.
  unfold do_add_resources. repeat dmatch; scbn; try core_step.
  apply same_core_fold. intros; core_step.
Qed.
Lemma do_billing_update_core s t atts : same_core s (fst (do_billing_update s t atts)).
Proof.
  unfold do_billing_update. scbn. apply same_core_fold. intros st [[b j] a].
  destruct (find_attempt st b j a); core_step.
Qed.

(* ------------------------------------------------------------------ the jobs table along a transaction *)

Definition jk (x : job) : Z * Z := (j_batch x, j_id x).
Definition jobs_unique (s : state) : Prop := NoDup (map jk (jobs s)).

(* the immutable columns of a job *)
Definition static_eq (x y : job) : Prop :=
  j_batch x = j_batch y /\ j_id x = j_id y /\ j_update x = j_update y /\ j_group x = j_group y /\
  j_always x = j_always y /\ j_cores x = j_cores y /\ j_ic x = j_ic y.

Lemma static_eq_refl x : static_eq x x.
Proof. repeat split. Qed.
Lemma static_eq_trans x y z : static_eq x y -> static_eq y z -> static_eq x z.
Proof. unfold static_eq; intuition congruence. Qed.
Lemma static_eq_sym x y : static_eq x y -> static_eq y x.
Proof. unfold static_eq; intuition congruence. Qed.

Ltac solve_static := unfold static_eq; cbn; repeat split; reflexivity.

Lemma jkey_true b j x : jkey b j x = true <-> j_batch x = b /\ j_id x = j.
Proof. unfold jkey. rewrite andb_true_iff, !Z.eqb_eq. tauto. Qed.
Lemma jkey_self x : jkey (j_batch x) (j_id x) x = true.
Proof. apply jkey_true; split; reflexivity. Qed.
Lemma jkey_jk b j x : jkey b j x = true <-> jk x = (b, j).
Proof. rewrite jkey_true. unfold jk. split; [intros [-> ->]; reflexivity | intros H; injection H; auto]. Qed.
Lemma jkey_static b j x y : static_eq x y -> jkey b j x = jkey b j y.
Proof. intros (H1 & H2 & _). unfold jkey. rewrite H1, H2. reflexivity. Qed.

Lemma map_jk_replace n l : map jk (replace_job n l) = map jk l.
Proof.
  unfold replace_job. rewrite map_map. apply map_ext_in. intros x _.
  destruct ((j_batch x =? j_batch n) && (j_id x =? j_id n)) eqn:E; [|reflexivity].
  apply andb_true_iff in E. destruct E as [E1 E2]. unfold jk. f_equal; lia.
Qed.

Lemma find_jkey_in l x : NoDup (map jk l) -> In x l -> find (jkey (j_batch x) (j_id x)) l = Some x.
Proof.
  induction l as [|y l IH]; intros K Hin; [contradiction|].
  cbn [map] in K. inversion K as [|? ? Hn K']; subst. cbn [find].
  destruct Hin as [-> | Hin].
  - rewrite jkey_self. reflexivity.
  - destruct (jkey (j_batch x) (j_id x) y) eqn:E.
    + exfalso. apply jkey_jk in E. apply Hn. rewrite E. apply in_map_iff. exists x. split; [reflexivity | exact Hin].
    + apply IH; assumption.
Qed.

Lemma find_jkey_none l b j : find (jkey b j) l = None <-> ~ In (b, j) (map jk l).
Proof.
  split.
  - intros F Hin. apply in_map_iff in Hin. destruct Hin as (x & Hx & Hin).
    pose proof (find_none _ _ F x Hin) as E. apply jkey_jk in Hx. congruence.
  - intros Hn. destruct (find (jkey b j) l) as [y|] eqn:F; [|reflexivity].
    exfalso. apply find_jkey_sound in F. destruct F as (Hin & H1 & H2).
    apply Hn. apply in_map_iff. exists y. split; [unfold jk; congruence | exact Hin].
Qed.

(** [jrel P l0 l]: [l] is [l0] with some rows rewritten (same keys at the same positions);
    a row looked up by key is the old one or satisfies [P]; every row keeps the immutable columns of a row of [l0]. *)
Definition jrel (P : job -> Prop) (l0 l : list job) : Prop :=
  map jk l = map jk l0 /\
  (forall b j y, find (jkey b j) l = Some y -> exists x, find (jkey b j) l0 = Some x /\ (y = x \/ P y)) /\
  (forall y, In y l -> exists x, In x l0 /\ static_eq x y).

Lemma jrel_refl P l : jrel P l l.
Proof.
  split; [reflexivity|]. split.
  - intros b j y H. exists y. auto.
  - intros y H. exists y. split; [exact H | apply static_eq_refl].
Qed.

Lemma jrel_weaken (P Q : job -> Prop) l0 l : (forall y, P y -> Q y) -> jrel P l0 l -> jrel Q l0 l.
Proof.
  intros HPQ (K & Hf & Hs). split; [exact K|]. split; [|exact Hs].
  intros b j y H. destruct (Hf _ _ _ H) as (x & Hx & [E|Py]); exists x; auto.
Qed.

Lemma jrel_replace_orig P l0 l n :
  jrel P l0 l -> P n -> (exists o, In o l0 /\ static_eq o n) -> jrel P l0 (replace_job n l).
Proof.
  intros (K & Hf & Hs) Pn (o & Ho & So). split; [rewrite map_jk_replace; exact K|]. split.
  - intros b j y H. rewrite find_jkey_replace in H. destruct (jkey b j n) eqn:E.
    + destruct (find (jkey b j) l) as [z|] eqn:Fz; [|discriminate]. cbn in H. injection H as <-.
      destruct (Hf _ _ _ Fz) as (x & Hx & _). exists x. auto.
    + apply Hf. exact H.
  - intros y H. apply in_replace_job in H. destruct H as [-> | H]; [exists o; auto | apply Hs; exact H].
Qed.

Lemma jrel_replace_cur P l0 l n :
  jrel P l0 l -> P n -> (exists o, In o l /\ static_eq o n) -> jrel P l0 (replace_job n l).
Proof.
  intros R Pn (o & Ho & So). apply jrel_replace_orig; [exact R | exact Pn|].
  destruct R as (_ & _ & Hs). destruct (Hs _ Ho) as (x & Hx & Sx). exists x. split; [exact Hx | eapply static_eq_trans; eassumption].
Qed.

Lemma jrel_trans P l0 l1 l2 : jrel P l0 l1 -> jrel P l1 l2 -> jrel P l0 l2.
Proof.
  intros (K1 & F1 & S1) (K2 & F2 & S2). split; [congruence|]. split.
  - intros b j z H. destruct (F2 _ _ _ H) as (y & Hy & Hz). destruct (F1 _ _ _ Hy) as (x & Hx & Hyx).
    exists x. split; [exact Hx|]. destruct Hz as [-> | Pz]; auto.
  - intros z H. destruct (S2 _ H) as (y & Hy & Sy). destruct (S1 _ Hy) as (x & Hx & Sx).
    exists x. split; [exact Hx | eapply static_eq_trans; eassumption].
Qed.

(* what [jrel] gives for a table with unique keys *)
Lemma jrel_unique P l0 l : jrel P l0 l -> NoDup (map jk l0) -> NoDup (map jk l).
Proof. intros (K & _) H. rewrite K. exact H. Qed.

Lemma jrel_found P l0 l b j x :
  jrel P l0 l -> NoDup (map jk l0) -> find (jkey b j) l0 = Some x ->
  exists y, find (jkey b j) l = Some y /\ static_eq x y /\ (y = x \/ P y).
Proof.
  intros R ND Fx. pose proof R as (K & Hf & Hs).
  destruct (find (jkey b j) l) as [y|] eqn:Fy.
  - exists y. split; [reflexivity|]. destruct (Hf _ _ _ Fy) as (x' & Hx' & Hy). rewrite Fx in Hx'. injection Hx' as <-.
    split; [|exact Hy].
    apply find_jkey_sound in Fy. destruct Fy as (Hin & B & J).
    destruct (Hs _ Hin) as (x0 & Hx0 & S0).
    pose proof (find_jkey_in _ _ ND Hx0) as F0.
    destruct S0 as (S1 & S2 & S3). rewrite S1, S2, B, J in F0. rewrite Fx in F0. injection F0 as ->.
    repeat split; tauto.
  - exfalso. apply find_jkey_none in Fy. rewrite K in Fy. apply Fy.
    apply find_jkey_sound in Fx. destruct Fx as (Hin & B & J). apply in_map_iff. exists x. split; [unfold jk; congruence | exact Hin].
Qed.

Definition idle (y : job) : Prop := j_state y <> Creating /\ j_state y <> Running.

Lemma jrel_update_job (P : job -> Prop) l0 st o n :
  jrel P l0 (jobs st) -> P n -> (exists x, (In x l0 \/ In x (jobs st)) /\ static_eq x n) -> jrel P l0 (jobs (update_job st o n)).
Proof.
  intros R Pn (x & [Hx|Hx] & Sx); rewrite update_job_jobs; [apply jrel_replace_orig | apply jrel_replace_cur]; eauto.
Qed.

(* ------------------------------------------------------------------ effect of each transaction on the jobs table *)

Lemma do_deactivate_jobs s name reason time : jrel idle (jobs s) (jobs (fst (do_deactivate s name reason time))).
Proof.
  unfold do_deactivate. destruct (find_inst s name) as [x|]; [|apply jrel_refl].
  destruct (ilive (i_state x)); [|apply jrel_refl]. scbn.
  match goal with |- context [fold_left ?g (jobs ?s1) ?s1] => set (s1' := s1); set (g' := g) end.
  assert (C : same_core s s1').
  { subst s1'. apply same_core_fold. intros st a. destruct (a_inst a =? name); [|core_step]. destruct (find_attempt _ _ _ _); core_step. }
  rewrite <- (sc_jobs _ _ C).
  assert (G : forall l st, (forall j, In j l -> In j (jobs s1')) -> jrel idle (jobs s1') (jobs st) -> jrel idle (jobs s1') (jobs (fold_left g' l st))).
  { induction l as [|j l IH]; intros st Hl R; cbn [fold_left]; [exact R|].
    apply IH; [intros j' Hj'; apply Hl; right; exact Hj'|].
    subst g'. cbv beta. destruct (j_attempt j); [|exact R].
    destruct (find_attempt st _ _ _); [|exact R].
    match goal with |- context [if ?c then _ else _] => destruct c end; [|exact R].
    apply jrel_update_job; [exact R | split; cbn; discriminate |].
    exists j. split; [left; apply Hl; left; reflexivity | solve_static]. }
  apply G; [auto | apply jrel_refl].
Qed.

Lemma do_unschedule_jobs s b j a i t reason : jrel idle (jobs s) (jobs (fst (do_unschedule s b j a i t reason))).
Proof.
  unfold do_unschedule. destruct (find_job s b j) as [x|] eqn:Fx.
  2:{ match goal with |- context [if ?c then _ else _] => destruct c end; apply jrel_refl. }
  cbv zeta.
  match goal with |- context [update_job ?st x _] => set (s2 := st) end.
  assert (C : same_core s s2).
  { subst s2. destruct (find_attempt s b j a) as [c|].
    - match goal with |- context [if ?c then _ else _] => destruct c end; [|core_step].
      match goal with |- context [match ?c with Some _ => _ | None => _ end] => destruct c end; [|core_step].
      eapply same_core_trans; [apply same_core_update_attempt | apply same_core_insts].
    - match goal with |- context [if ?c then _ else _] => destruct c end; [|core_step].
      match goal with |- context [match ?c with Some _ => _ | None => _ end] => destruct c end; core_step. }
  match goal with |- context [if ?c then _ else _] => destruct c end; scbn.
  - rewrite <- (sc_jobs _ _ C) at 1. apply jrel_update_job; [apply jrel_refl | split; cbn; discriminate|].
    exists x. split; [right; rewrite (sc_jobs _ _ C); apply find_jkey_sound in Fx; tauto | solve_static].
  - rewrite (sc_jobs _ _ C). apply jrel_refl.
Qed.

Lemma jstate_eqb_eq a b : jstate_eqb a b = true <-> a = b.
Proof. destruct a, b; cbn; split; intros H; try reflexivity; try discriminate. Qed.

Definition runnable (s : state) (x : job) : Prop :=
  j_always x = true \/ (j_cancelled x = false /\ group_cancelled s (j_batch x) (j_group x) = false).

Lemma not_cancelled_runnable s x : is_job_cancelled s x = Some false -> runnable s x.
Proof.
  unfold is_job_cancelled, runnable. intros H. injection H as H. fold (group_cancelled s (j_batch x) (j_group x)) in H.
  destruct (j_always x); [left; reflexivity|]. right. cbn in H. apply orb_false_iff in H. exact H.
Qed.

Lemma do_schedule_shape s b j a i :
  let s' := fst (do_schedule s b j a i) in
  same_core s s' \/
  exists x s1, find_job s b j = Some x /\ same_core s s1 /\ runnable s x /\ (j_state x = Ready \/ j_state x = Creating) /\
               s' = update_job s1 x (x <| j_state := Running |> <| j_attempt := Some a |>).
Proof.
  cbv zeta. unfold do_schedule. destruct (find_job s b j) as [x|] eqn:Fx; [|left; core_step].
  destruct (is_job_cancelled s x) as [cancel|] eqn:Ic; [|left; core_step].
  destruct (add_attempt s b j a i (j_cores x)) as [[s1 d0]|] eqn:Aa; [|left; core_step].
  pose proof (same_core_add_attempt _ _ _ _ _ _ _ _ Aa) as C.
  match goal with |- context [if ?c then _ else _] => destruct c eqn:Cond end; scbn; [|left; exact C].
  right. exists x, s1. apply andb_true_iff in Cond. destruct Cond as [Cond _]. apply andb_true_iff in Cond. destruct Cond as [St Nc].
  destruct cancel; [discriminate|].
  split; [reflexivity|]. split; [exact C|]. split; [apply not_cancelled_runnable; exact Ic|]. split; [|reflexivity].
  apply orb_true_iff in St. destruct St as [St|St]; apply jstate_eqb_eq in St; auto.
Qed.

Lemma do_mcs_shape creating s b j a i t :
  let s' := fst (do_mark_creating_or_started creating s b j a i t) in
  same_core s s' \/
  exists x s2, find_job s b j = Some x /\ same_core s s2 /\ runnable s x /\ j_state x = Ready /\
               s' = update_job s2 x (x <| j_state := (if creating then Creating else Running) |> <| j_attempt := Some a |>).
Proof.
  cbv zeta. unfold do_mark_creating_or_started. destruct (find_job s b j) as [x|] eqn:Fx; [|left; core_step].
  destruct (is_job_cancelled s x) as [cancel|] eqn:Ic; [|left; core_step].
  destruct (add_attempt s b j a i (j_cores x)) as [[s1 d0]|] eqn:Aa; [|left; core_step].
  pose proof (same_core_add_attempt _ _ _ _ _ _ _ _ Aa) as C1.
  assert (C : same_core s (set_times s1 b j a t)) by (eapply same_core_trans; [exact C1 | apply same_core_set_times]).
  cbv zeta.
  match goal with |- context [if ?c then _ else _] => destruct c eqn:Cond end; scbn; [|left; exact C].
  right. exists x, (set_times s1 b j a t). apply andb_true_iff in Cond. destruct Cond as [Cond _]. apply andb_true_iff in Cond. destruct Cond as [St Nc].
  destruct cancel; [discriminate|].
  split; [reflexivity|]. split; [exact C|]. split; [apply not_cancelled_runnable; exact Ic|]. split; [|reflexivity].
  apply jstate_eqb_eq in St; exact St.
Qed.

(* the part of mark_job_complete after the attempt bookkeeping (copied from [do_mark_complete]) *)
Definition mc_finish (s3 : state) (x : job) (b j a : Z) (ns : jstate) (total : Z) : state :=
  let s4 := update_job s3 x (x <| j_state := ns |> <| j_attempt := (if a =? -1 then None else Some a) |>) in
  let ancs := anc_ids s4 b (j_group x) in
  let isc := jstate_eqb ns Cancelled in
  let isf := jstate_eqb ns Error || jstate_eqb ns Failed in
  let s5 := s4 <| groups ::= map (fun g => if (g_batch g =? b) && existsb (Z.eqb (g_id g)) ancs
                 then g <| g_ncompleted := g_ncompleted g + 1 |> <| g_ncancelled := g_ncancelled g + ind isc |>
                        <| g_nfailed := g_nfailed g + ind isf |> <| g_nsucc := g_nsucc g + ind (negb isc && negb isf) |>
                 else g) |> in
  let root_done := match find_group s5 b 0 with Some g => g_ncompleted g | None => 0 end in
  let s6 := if root_done =? total
            then s5 <| batches ::= map (fun bt => if b_id bt =? b then bt <| b_running := false |> else bt) |> else s5 in
  let s7 := finish_groups s6 b (j_group x) in
  release_children s7 b j (jstate_eqb ns Success).

(* the attempt bookkeeping of mark_job_complete (copied from [do_mark_complete]) *)
Definition mc_s3 (s1 : state) (x : job) (b j a i : Z) (start endt : option Z) (reason : Z) : state :=
  let cur := if a =? -1 then None else find_attempt s1 b j a in
  let cur_end := match cur with Some c => a_end c | None => None end in
  let s2 := match cur with
            | Some c => update_attempt s1 c (c <| a_start := start |> <| a_rollup := endt |> <| a_end := endt |> <| a_reason := Some reason |>)
            | None => s1 end in
  let give := inst_live (inst_state s2 i) && match cur_end with None => true | Some _ => false end in
  if give then match find_inst s2 i with
               | Some y => s2 <| insts ::= replace_inst (y <| i_free := i_free y + j_cores x |>) |>
               | None => s2 end else s2.

Lemma mc_s3_core s1 x b j a i st en rs : same_core s1 (mc_s3 s1 x b j a i st en rs).
Proof.
  unfold mc_s3. cbv zeta.
  match goal with |- same_core s1 (if _ then match _ with Some _ => ?s2 <| insts ::= _ |> | None => _ end else _) =>
    assert (C2 : same_core s1 s2) by (destruct (if a =? -1 then None else find_attempt s1 b j a); core_step) end.
  match goal with |- context [if ?c then _ else _] => destruct c end; [|exact C2].
  match goal with |- context [match ?c with Some _ => _ | None => _ end] => destruct c end; [|exact C2].
  eapply same_core_trans; [exact C2 | apply same_core_insts].
Qed.

Definition mc_stale (x : job) (a : Z) : bool := match j_attempt x with Some e => negb (a =? -1) && negb (e =? a) | None => false end.
Definition mc_active (x : job) : bool := jstate_eqb (j_state x) Ready || jstate_eqb (j_state x) Creating || jstate_eqb (j_state x) Running.

Lemma do_mark_complete_unfold s b j a i ns st en rs :
  fst (do_mark_complete s b j a i ns st en rs) =
  match find_job s b j with
  | None => s
  | Some x =>
      match (if a =? -1 then Some (s, 0) else add_attempt s b j a i (j_cores x)) with
      | None => s
      | Some (s1, _) =>
          let s3 := mc_s3 s1 x b j a i st en rs in
          if mc_stale x a then s3
          else if mc_active x then mc_finish s3 x b j a ns (match find_batch s b with Some bt => b_njobs bt | None => 0 end)
          else s3
      end
  end.
Proof.
  unfold do_mark_complete, mc_stale, mc_active. destruct (find_job s b j) as [x|]; [|destruct (a =? -1); reflexivity].
  lazymatch goal with |- context [match ?e with Some _ => _ | None => (s, sql_error 1452) end] => destruct e as [[s1 d0]|] end; [|reflexivity].
  destruct (match j_attempt x with Some e => negb (a =? -1) && negb (e =? a) | None => false end).
  reflexivity.
  destruct (jstate_eqb (j_state x) Ready || jstate_eqb (j_state x) Creating || jstate_eqb (j_state x) Running).
  (unfold mc_finish, mc_s3; cbv zeta; cbn [fst]).
  reflexivity.
  destruct (terminal (j_state x)); reflexivity.
Qed.

Lemma do_mark_complete_shape s b j a i ns st en rs :
  let s' := fst (do_mark_complete s b j a i ns st en rs) in
  same_core s s' \/
  exists x s3, find_job s b j = Some x /\ same_core s s3 /\
               (j_state x = Ready \/ j_state x = Creating \/ j_state x = Running) /\
               s' = mc_finish s3 x b j a ns (match find_batch s b with Some bt => b_njobs bt | None => 0 end).
Proof.
  intros s'. subst s'. rewrite do_mark_complete_unfold.
  destruct (find_job s b j) as [x|] eqn:Fx; [|left; core_step].
  destruct (if a =? -1 then Some (s, 0) else add_attempt s b j a i (j_cores x)) as [[s1 d0]|] eqn:Aa; [|left; core_step].
  assert (C1 : same_core s s1).
  { destruct (a =? -1); [injection Aa as <- _; core_step | core_step]. }
  pose proof (mc_s3_core s1 x b j a i st en rs) as C3.
  pose proof (same_core_trans _ _ _ C1 C3) as C.
  cbv zeta. destruct (mc_stale x a); [left; exact C|].
  destruct (mc_active x) eqn:St; [|left; exact C].
  right. exists x, (mc_s3 s1 x b j a i st en rs). split; [reflexivity|]. split; [exact C|]. split; [|reflexivity].
  unfold mc_active in St.
  apply orb_true_iff in St. destruct St as [St|St]; [apply orb_true_iff in St; destruct St as [St|St]|]; apply jstate_eqb_eq in St; auto.
Qed.

Lemma jrel_fold {A} (P : job -> Prop) l0 (g : state -> A -> state) l :
  (forall st a, jrel P l0 (jobs st) -> jrel P l0 (jobs (g st a))) ->
  forall st, jrel P l0 (jobs st) -> jrel P l0 (jobs (fold_left g l st)).
Proof. intros H. induction l as [|a l IH]; intros st R; cbn [fold_left]; [exact R | apply IH, H, R]. Qed.

Lemma release_children_jobs (P : job -> Prop) l0 st b j succ :
  (forall y, idle y -> P y) -> jrel P l0 (jobs st) -> jrel P l0 (jobs (release_children st b j succ)).
Proof.
  intros HP R. unfold release_children. cbv zeta. apply jrel_fold; [|exact R].
  intros st' c R'. destruct (find_job st' b c) as [x|] eqn:Fx; [|exact R'].
  match goal with |- context [if ?c then _ else _] => destruct c end; [exact R'|].
  apply jrel_update_job; [exact R'| |].
  - apply HP. split; cbn; destruct (j_npp x =? 1); discriminate.
  - exists x. split; [right; apply find_jkey_sound in Fx; tauto | solve_static].
Qed.

Lemma finish_groups_jobs s b g : jobs (finish_groups s b g) = jobs s.
Proof. reflexivity. Qed.

Lemma mc_finish_jobs (P : job -> Prop) l0 s3 x b j a ns total :
  (forall y, idle y -> P y) -> (forall att, P (x <| j_state := ns |> <| j_attempt := att |>)) -> In x (jobs s3) ->
  jrel P l0 (jobs s3) -> jrel P l0 (jobs (mc_finish s3 x b j a ns total)).
Proof.
  intros HP Pn Hx R. unfold mc_finish. cbv zeta. apply release_children_jobs; [exact HP|].
  rewrite finish_groups_jobs.
  match goal with |- context [if ?c then _ else _] => destruct c end; scbn;
    (apply jrel_update_job; [exact R | apply Pn | exists x; split; [right; exact Hx | solve_static]]).
Qed.

Lemma do_mark_complete_jobs (P : job -> Prop) s b j a i ns st en rs :
  (forall y, idle y -> P y) -> (forall x att, P (x <| j_state := ns |> <| j_attempt := att |>)) ->
  jrel P (jobs s) (jobs (fst (do_mark_complete s b j a i ns st en rs))).
Proof.
  intros HP Pn. destruct (do_mark_complete_shape s b j a i ns st en rs) as [C | (x & s3 & Fx & C & _ & E)].
  - rewrite (sc_jobs _ _ C). apply jrel_refl.
  - rewrite E. rewrite <- (sc_jobs _ _ C) at 1. apply mc_finish_jobs; auto using jrel_refl.
    rewrite (sc_jobs _ _ C). apply find_jkey_sound in Fx. tauto.
Qed.

(* ------------------------------------------------------------------ Commit *)

Lemma recompute_job_static s x : static_eq x (recompute_job s x).
Proof. unfold recompute_job. cbv zeta. solve_static. Qed.

Lemma recompute_job_idle s x : idle (recompute_job s x).
Proof. unfold recompute_job. cbv zeta. split; cbn; match goal with |- context [if ?c then _ else _] => destruct c end; discriminate. Qed.

Lemma commit_user_res_fold_core (f : state -> list Z * list Z -> state) l s :
  (forall st kv, f st kv = st \/ exists g, f st kv = st <| user_res ::= g |>) ->
  let s' := fold_left f l s in
  batches s' = batches s /\ updates s' = updates s /\ groups s' = groups s /\ ancestors s' = ancestors s /\ marks s' = marks s /\
  jobs s' = jobs s /\ parents s' = parents s /\ cancellable s' = cancellable s /\ staging s' = staging s /\ next_batch s' = next_batch s /\
  attempts s' = attempts s /\ insts s' = insts s.
Proof.
  intros H. revert s. induction l as [|kv l IH]; intros s; cbn [fold_left].
  - repeat split; reflexivity.
  - specialize (IH (f s kv)). cbv zeta in IH. destruct IH as (I1&I2&I3&I4&I5&I6&I7&I8&I9&I10&I11&I12).
    destruct (H s kv) as [E | (g & E)]; rewrite E in *; repeat split; assumption.
Qed.

Lemma do_commit_jobs s b u user : jrel idle (jobs s) (jobs (fst (do_commit s b u user))).
Proof.
  unfold do_commit. destruct (find_batch s b) as [bt|]; [|apply jrel_refl].
  destruct (find_update s b u) as [up0|]; [|apply jrel_refl].
  match goal with |- context [if ?c then _ else _] => destruct c end; [apply jrel_refl|].
  destruct (marked s b 0); [apply jrel_refl|].
  unfold do_commit_proc. destruct (find_update s b u) as [up|]; [|apply jrel_refl].
  destruct (u_committed up); [apply jrel_refl|]. cbv zeta.
  match goal with |- context [if ?c then _ else _] => destruct c end; [apply jrel_refl|].
  match goal with |- context [if ?c then _ else _] => destruct c end; [apply jrel_refl|].
  match goal with |- context [fold_left ?f (staging s) ?s3] => set (s4 := fold_left f (staging s) s3) end.
  assert (J4 : jobs s4 = jobs s).
  { subst s4. match goal with |- context [fold_left ?f (staging s) ?s3] => pose proof (commit_user_res_fold_core f (staging s) s3) as F end.
    cbv zeta in F. destruct F as (_&_&_&_&_&F&_); [|exact F].
    intros st [k v]. destruct k as [|b' [|u' [|g' [|ic [|]]]]]; auto. destruct v as [|v0 [|nr [|rc [|]]]]; auto.
    match goal with |- context [if ?c then _ else _] => destruct c end; eauto. }
  destruct (u =? 1); scbn; [rewrite J4; apply jrel_refl|].
  rewrite <- J4 at 1.
  match goal with |- context [fold_left ?g (map ?h ?targets) s4] => set (tg := targets); set (g' := g); set (h' := h) end.
  assert (G : forall l st, (forall x, In x l -> In x (jobs s4)) -> jrel idle (jobs s4) (jobs st) -> jrel idle (jobs s4) (jobs (fold_left g' (map h' l) st))).
  { induction l as [|x l IH]; intros st Hl R; cbn [fold_left map]; [exact R|].
    apply IH; [intros x' Hx'; apply Hl; right; exact Hx'|].
    subst g' h'. cbn [fst snd]. apply jrel_update_job; [exact R | apply recompute_job_idle|].
    exists x. split; [left; apply Hl; left; reflexivity | apply recompute_job_static]. }
  apply G; [|apply jrel_refl]. subst tg. intros x Hx. apply filter_In in Hx. tauto.
Qed.

(* ------------------------------------------------------------------ CreateJobs *)

Definition cj_specs (b u : Z) (up : update) (jss : list jspec) : list (job * list Z) :=
  map (job_of_spec b u (u_start_job up) (u_start_group up)) jss.

Definition cj_insert (s : state) (b : Z) (js : list (job * list Z)) : state :=
  fold_left stage_job (map fst js)
    (s <| jobs ::= fun l => l ++ map fst js |>
       <| parents ::= fun l => l ++ flat_map (fun jp => map (fun p => (b, j_id (fst jp), p)) (snd jp)) js |>).

Lemma insert_verdict_range s b js seen :
  let v := insert_verdict s b js seen in v = 0 \/ v = 1 \/ v = 2 \/ v = 3.
Proof.
  cbv zeta. revert seen. induction js as [|x r IH]; intros seen; cbn [insert_verdict]; [auto|].
  destruct (group_cancelled s b (j_group x)); [auto|].
  match goal with |- context [if ?c then _ else _] => destruct c end; [auto|].
  destruct (find_group s b (j_group x)); [apply IH | auto].
Qed.

Lemma do_create_jobs_shape_res s b u user jss :
  let r := do_create_jobs s b u user jss in
  (fst r = s /\ (snd r <> ok [] \/ exists up, find_update s b u = Some up /\ insert_verdict s b (map fst (cj_specs b u up jss)) [] = 2)) \/
  exists up bt, find_update s b u = Some up /\ find_batch s b = Some bt /\ u_committed up = false /\
                insert_verdict s b (map fst (cj_specs b u up jss)) [] = 0 /\
                r = (cj_insert s b (cj_specs b u up jss), ok []).
Proof.
  cbv zeta. unfold do_create_jobs.
  destruct (is_nil jss); [left; split; [reflexivity | left; discriminate]|].
  destruct (find_update s b u) as [up|]; [|left; split; [reflexivity | left; discriminate]].
  destruct (find_batch s b) as [bt|]; [|left; split; [reflexivity | left; discriminate]].
  match goal with |- context [if ?c then _ else _] => destruct c end; [left; split; [reflexivity | left; discriminate]|].
  destruct (u_committed up) eqn:Cm; [left; split; [reflexivity | left; discriminate]|].
  cbv zeta. destruct jss as [|j0 jss']; [left; split; [reflexivity | left; discriminate]|]. set (jss := j0 :: jss') in *.
  match goal with |- context [if ?c then _ else _] => destruct c end; [left; split; [reflexivity | left; discriminate]|].
  match goal with |- context [if ?c then _ else _] => destruct c end; [left; split; [reflexivity | left; discriminate]|].
  fold (cj_specs b u up jss).
  pose proof (insert_verdict_range s b (map fst (cj_specs b u up jss)) []) as V. cbv zeta in V.
  destruct V as [V|[V|[V|V]]]; rewrite V; try (left; split; [reflexivity | left; discriminate]).
  - match goal with |- context [if ?c then _ else _] => destruct c end; [left; split; [reflexivity | left; discriminate]|].
    right. exists up, bt. repeat split; auto.
  - left. split; [reflexivity|]. right. exists up. auto.
Qed.

Lemma do_create_jobs_shape s b u user jss :
  let r := do_create_jobs s b u user jss in
  fst r = s \/
  exists up bt, find_update s b u = Some up /\ find_batch s b = Some bt /\ u_committed up = false /\
                insert_verdict s b (map fst (cj_specs b u up jss)) [] = 0 /\
                r = (cj_insert s b (cj_specs b u up jss), ok []).
Proof. cbv zeta. destruct (do_create_jobs_shape_res s b u user jss) as [[E _] | H]; [left; exact E | right; exact H]. Qed.

Lemma stage_job_jobs s x : jobs (stage_job s x) = jobs s.
Proof. reflexivity. Qed.

Lemma cj_insert_jobs s b js : jobs (cj_insert s b js) = jobs s ++ map fst js.
Proof. unfold cj_insert. rewrite fold_keeps by (intros; apply stage_job_jobs). reflexivity. Qed.

(* verdict 0: every row's group exists and is not cancelled, the keys are new and pairwise distinct *)
Lemma insert_verdict_ok s b js seen :
  (forall x, In x js -> j_batch x = b) ->
  insert_verdict s b js seen = 0 ->
  Forall (fun x => group_cancelled s b (j_group x) = false /\ find_group s b (j_group x) <> None /\ find_job s b (j_id x) = None
                   /\ ~ In (j_id x) seen) js /\
  NoDup (map j_id js).
Proof.
  intros Hb. revert seen. induction js as [|x r IH]; intros seen V; cbn [insert_verdict] in V; [split; constructor|].
  destruct (group_cancelled s b (j_group x)) eqn:Gc; [discriminate|].
  match type of V with (if ?c then _ else _) = _ => destruct c eqn:Dup end; [discriminate|].
  destruct (find_group s b (j_group x)) eqn:Fg; [|discriminate].
  apply orb_false_iff in Dup. destruct Dup as [D1 D2].
  assert (Hseen : ~ In (j_id x) seen).
  { intros Hin. assert (E : existsb (Z.eqb (j_id x)) seen = true) by (apply existsb_exists; exists (j_id x); split; [exact Hin | apply Z.eqb_refl]). congruence. }
  destruct (IH (fun y Hy => Hb y (or_intror Hy)) _ V) as (F & ND). split.
  - constructor.
    + repeat split; auto; [congruence | destruct (find_job s b (j_id x)); [discriminate | reflexivity]].
    + eapply Forall_impl; [|exact F]. cbv beta. intros y (A1 & A2 & A3 & A4). repeat split; auto. intros Hin. apply A4. right. exact Hin.
  - cbn [map]. constructor; [|exact ND]. intros Hin. apply in_map_iff in Hin. destruct Hin as (y & Ey & Hy).
    rewrite Forall_forall in F. destruct (F y Hy) as (_ & _ & _ & A4). apply A4. left. symmetry. exact Ey.
Qed.

Lemma cj_specs_batch b u up jss x : In x (map fst (cj_specs b u up jss)) -> j_batch x = b /\ j_update x = u /\ (j_state x = Ready \/ j_state x = Pending).
Proof.
  unfold cj_specs. rewrite map_map. intros H. apply in_map_iff in H. destruct H as (sp & <- & _).
  unfold job_of_spec. cbn. repeat split. match goal with |- context [if ?c then _ else _] => destruct c end; auto.
Qed.

(* ------------------------------------------------------------------ the group tree / update list / batch list along a transaction *)

Definition gk (g : group) : Z * Z := (g_batch g, g_id g).
Definition bkey (x : batch) : Z * Z * Z * Z := (b_id x, b_user x, b_token x, b_bp x).
Definition ukey (x : update) : list Z := [u_batch x; u_id x; u_token x; u_start_job x; u_njobs x; u_start_group x; u_ngroups x].

(** [same_tree s s']: no group / batch / update was added, the group tree and the cancellation marks are the same. *)
Record same_tree (s s' : state) : Prop := mk_same_tree {
  st_marks : marks s' = marks s;
  st_ancestors : ancestors s' = ancestors s;
  st_groups : map gk (groups s') = map gk (groups s);
  st_batches : map bkey (batches s') = map bkey (batches s);
  st_updates : map ukey (updates s') = map ukey (updates s);
  st_next_batch : next_batch s' = next_batch s }.

Lemma same_tree_refl s : same_tree s s.
Proof. constructor; reflexivity. Qed.
Lemma same_tree_trans s1 s2 s3 : same_tree s1 s2 -> same_tree s2 s3 -> same_tree s1 s3.
Proof. intros [] []. constructor; congruence. Qed.
Lemma same_core_tree s s' : same_core s s' -> same_tree s s'.
Proof. intros []. constructor; congruence. Qed.
Lemma same_tree_update_job s o n : same_tree s (update_job s o n).
Proof. constructor; autorewrite with frame; reflexivity. Qed.
Lemma same_tree_fold {A} (f : state -> A -> state) l s :
  (forall st x, same_tree st (f st x)) -> same_tree s (fold_left f l s).
Proof. apply fold_rel; [apply same_tree_refl | apply same_tree_trans]. Qed.
Lemma same_tree_groups_map s f : (forall g, gk (f g) = gk g) -> same_tree s (s <| groups ::= map f |>).
Proof. intros H. constructor; scbn; try reflexivity. rewrite map_map. apply map_ext. exact H. Qed.
Lemma same_tree_batches_map s f : (forall g, bkey (f g) = bkey g) -> same_tree s (s <| batches ::= map f |>).
Proof. intros H. constructor; scbn; try reflexivity. rewrite map_map. apply map_ext. exact H. Qed.
Lemma same_tree_updates_map s f : (forall g, ukey (f g) = ukey g) -> same_tree s (s <| updates ::= map f |>).
Proof. intros H. constructor; scbn; try reflexivity. rewrite map_map. apply map_ext. exact H. Qed.

(* lookups that only depend on the tree *)
Section TreeLookups.
  Variables (s s' : state).
  Hypothesis H : same_tree s s'.
  Lemma st_anc_rows b g : anc_rows s' b g = anc_rows s b g.
  Proof. unfold anc_rows. rewrite (st_ancestors _ _ H). reflexivity. Qed.
  Lemma st_anc_ids b g : anc_ids s' b g = anc_ids s b g.
  Proof. unfold anc_ids. rewrite st_anc_rows. reflexivity. Qed.
  Lemma st_marked b g : marked s' b g = marked s b g.
  Proof. unfold marked. rewrite (st_marks _ _ H). reflexivity. Qed.
  Lemma st_group_cancelled b g : group_cancelled s' b g = group_cancelled s b g.
  Proof.
    unfold group_cancelled, n_cancelled_anc. rewrite st_anc_ids.
    erewrite filter_ext; [reflexivity|]. intros a. apply st_marked.
  Qed.
End TreeLookups.

Ltac key_side := intros ?; repeat lazymatch goal with |- _ (if ?c then _ else _) = _ => destruct c end; reflexivity.

(* peel the outermost state transformer of [E] in a goal [same_tree s E] *)
Ltac tree :=
  lazymatch goal with
  | |- same_tree ?s ?s => apply same_tree_refl
  | |- same_tree ?s (update_job ?st _ _) => apply (same_tree_trans s st); [tree | apply same_tree_update_job]
  | |- same_tree ?s (update_attempt ?st _ _) => apply (same_tree_trans s st); [tree | apply same_core_tree, same_core_update_attempt]
  | |- same_tree ?s (set_times ?st _ _ _ _) => apply (same_tree_trans s st); [tree | apply same_core_tree, same_core_set_times]
  | |- same_tree ?s (finish_groups ?st _ _) =>
      apply (same_tree_trans s st); [tree | unfold finish_groups; apply same_tree_groups_map; key_side]
  | |- same_tree ?s (fold_left ?g ?l ?st) =>
      apply (same_tree_trans s st); [tree | apply same_tree_fold; intros ? ?; tree]
  | |- same_tree ?s (set groups (map _) ?st) =>
      apply (same_tree_trans s st); [tree | apply same_tree_groups_map; key_side]
  | |- same_tree ?s (set batches (map _) ?st) =>
      apply (same_tree_trans s st); [tree | apply same_tree_batches_map; key_side]
  | |- same_tree ?s (set updates (map _) ?st) =>
      apply (same_tree_trans s st); [tree | apply same_tree_updates_map; key_side]
  | |- same_tree ?s (set _ _ ?st) =>
      apply (same_tree_trans s st); [tree | constructor; reflexivity]
  | |- same_tree ?s (fst (_, _)) => cbn [fst]; tree
  | |- same_tree ?s (let _ := _ in _) => cbv zeta; tree
  | |- same_tree ?s (let '(_, _) := ?p in _) => destruct p; tree
  | |- same_tree ?s (fst (let '(_, _) := ?p in _)) => destruct p; tree
  | |- same_tree ?s (fst (match ?c with _ => _ end)) => destruct c eqn:?; tree
  | |- same_tree ?s (match ?c with _ => _ end) => destruct c eqn:?; tree
  | |- same_tree ?s ?st => try (apply same_core_tree; assumption)
  end.

Lemma release_children_tree s b j succ : same_tree s (release_children s b j succ).
Proof. unfold release_children. cbv zeta. tree. Qed.

Lemma mc_finish_tree s3 x b j a ns total : same_tree s3 (mc_finish s3 x b j a ns total).
Proof.
  unfold mc_finish. cbv zeta.
  match goal with |- same_tree _ (release_children ?st _ _ _) => apply (same_tree_trans _ st); [|apply release_children_tree] end.
  tree.
Qed.

Lemma cj_insert_tree s b js : same_tree s (cj_insert s b js).
Proof.
  unfold cj_insert. match goal with |- same_tree s (fold_left _ _ ?st) => apply (same_tree_trans s st) end.
  - constructor; reflexivity.
  - apply same_tree_fold. intros st x. unfold stage_job. constructor; reflexivity.
Qed.

Lemma do_commit_tree s b u user : same_tree s (fst (do_commit s b u user)).
Proof. unfold do_commit, do_commit_proc. tree. Qed.

Lemma do_deactivate_tree s n r t : same_tree s (fst (do_deactivate s n r t)).
Proof. unfold do_deactivate. tree. Qed.

Lemma do_unschedule_tree s b j a i t r : same_tree s (fst (do_unschedule s b j a i t r)).
Proof. unfold do_unschedule. tree. Qed.

Lemma step_same_tree s o :
  match o with
  | CreateBatch _ _ _ _ | CreateUpdate _ _ _ _ _ | CreateGroups _ _ _ _ | CancelGroup _ _ | DeleteBatch _ => True
  | _ => same_tree s (fst (step s o))
  end.
Proof.
  destruct o; try exact I; cbn [step].
  - destruct (do_create_jobs_shape s b u user js) as [E | (up & bt & _ & _ & _ & _ & E)]; rewrite E; [apply same_tree_refl | apply cj_insert_tree].
  - apply do_commit_tree.
  - apply same_core_tree, do_new_instance_core.
  - apply same_core_tree, do_activate_core.
  - apply do_deactivate_tree.
  - apply same_core_tree, do_mark_deleted_core.
  - destruct (do_schedule_shape s b j att inst) as [C | (x & s1 & _ & C & _ & _ & E)]; [apply same_core_tree, C|].
    rewrite E. eapply same_tree_trans; [apply same_core_tree, C | apply same_tree_update_job].
  - apply do_unschedule_tree.
  - destruct (do_mcs_shape true s b j att inst time) as [C | (x & s1 & _ & C & _ & _ & E)]; [apply same_core_tree, C|].
    rewrite E. eapply same_tree_trans; [apply same_core_tree, C | apply same_tree_update_job].
  - destruct (do_mcs_shape false s b j att inst time) as [C | (x & s1 & _ & C & _ & _ & E)]; [apply same_core_tree, C|].
    rewrite E. eapply same_tree_trans; [apply same_core_tree, C | apply same_tree_update_job].
  - destruct (do_mark_complete_shape s b j att inst new_state start endt reason) as [C | (x & s3 & _ & C & _ & E)]; [apply same_core_tree, C|].
    rewrite E. eapply same_tree_trans; [apply same_core_tree, C | apply mc_finish_tree].
  - apply same_core_tree, do_add_resources_core.
  - apply same_core_tree, do_billing_update_core.
  - unfold do_cleanup_staging. tree.
  - unfold do_cleanup_cancellable. tree.
Qed.

(* ------------------------------------------------------------------ the transactions that add batches / updates / groups / marks *)

(** [grow s s']: marks, ancestor rows, groups, batches and updates are only ever appended. *)
Record grow (s s' : state) : Prop := mk_grow {
  gr_marks : exists m, marks s' = marks s ++ m;
  gr_ancestors : exists a, ancestors s' = ancestors s ++ a;
  gr_groups : exists g, map gk (groups s') = map gk (groups s) ++ g;
  gr_batches : exists b, map bkey (batches s') = map bkey (batches s) ++ b;
  gr_updates : exists u, map ukey (updates s') = map ukey (updates s) ++ u;
  gr_next_batch : next_batch s <= next_batch s' }.

Lemma same_tree_grow s s' : same_tree s s' -> grow s s'.
Proof. intros []. constructor; try (exists []; rewrite app_nil_r; assumption). lia. Qed.

Lemma grow_refl s : grow s s.
Proof. apply same_tree_grow, same_tree_refl. Qed.

Lemma grow_trans s1 s2 s3 : grow s1 s2 -> grow s2 s3 -> grow s1 s3.
Proof.
  intros [(m1 & M1) (a1 & A1) (g1 & G1) (b1 & B1) (u1 & U1) N1] [(m2 & M2) (a2 & A2) (g2 & G2) (b2 & B2) (u2 & U2) N2].
  constructor; [exists (m1 ++ m2) | exists (a1 ++ a2) | exists (g1 ++ g2) | exists (b1 ++ b2) | exists (u1 ++ u2) | lia];
    rewrite app_assoc; congruence.
Qed.

Lemma create_group_rows_grow s b g upd p root : grow s (create_group_rows s b g upd p root).
Proof.
  unfold create_group_rows. constructor; scbn; try (exists []; rewrite app_nil_r; reflexivity).
  - eexists; reflexivity.
  - rewrite map_app. eexists; reflexivity.
  - lia.
Qed.

Lemma cog_fold_none b u sg l : fold_left (create_one_group b u sg) l None = None.
Proof. induction l as [|x l IH]; cbn [fold_left create_one_group]; auto. Qed.

Lemma cog_fold_rel (R : state -> state -> Prop) b u sg :
  (forall st, R st st) -> (forall s1 s2 s3, R s1 s2 -> R s2 s3 -> R s1 s3) ->
  (forall st gs st', create_one_group b u sg (Some st) gs = Some st' -> R st st') ->
  forall l s s', fold_left (create_one_group b u sg) l (Some s) = Some s' -> R s s'.
Proof.
  intros Hr Ht H. induction l as [|x l IH]; intros s s' E; cbn [fold_left] in E.
  - injection E as <-. apply Hr.
  - destruct (create_one_group b u sg (Some s) x) as [st|] eqn:C; [|rewrite cog_fold_none in E; discriminate].
    eapply Ht; [eapply H; exact C | apply IH; exact E].
Qed.

(* one accepted group of a bunch *)
Lemma create_one_group_some b u sg st gs st' :
  create_one_group b u sg (Some st) gs = Some st' ->
  let g := sg + gs_id gs - 1 in
  let parent := match gs_parent_abs gs with Some p => p | None => sg + gs_parent_rel gs - 1 end in
  group_cancelled st b parent = false /\ find_group st b g = None /\ parent < g /\
  st' = create_group_rows st b g (Some u) parent false.
Proof.
  cbv zeta. unfold create_one_group.
  destruct (group_cancelled st b _) eqn:Gc; [discriminate|].
  destruct (find_group st b _) eqn:Fg; [discriminate|].
  match goal with |- context [if negb ?c then _ else _] => destruct c eqn:Lt end; cbn [negb]; [|discriminate].
  match goal with |- context [if ?c then _ else _] => destruct c end; [discriminate|].
  intros E; injection E as <-. repeat split; auto. lia.
Qed.

Lemma do_create_groups_shape s b u user gss :
  let r := do_create_groups s b u user gss in
  (fst r = s /\ snd r <> ok []) \/
  exists up, find_update s b u = Some up /\ fold_left (create_one_group b u (u_start_group up)) gss (Some s) = Some (fst r) /\ snd r = ok [] /\
             find_batch s b <> None.
Proof.
  cbv zeta. unfold do_create_groups.
  destruct (is_nil gss); [left; split; [reflexivity | discriminate]|].
  destruct (find_update s b u) as [up|]; [|left; split; [reflexivity | discriminate]].
  destruct (find_batch s b) as [bt|]; [|left; split; [reflexivity | discriminate]].
  match goal with |- context [if ?c then _ else _] => destruct c end; [left; split; [reflexivity | discriminate]|].
  destruct (u_committed up); [left; split; [reflexivity | discriminate]|].
  destruct gss as [|g0 gss']; [left; split; [reflexivity | discriminate]|].
  match goal with |- context [if ?c then _ else _] => destruct c end; [left; split; [reflexivity | discriminate]|].
  match goal with |- context [match ?c with Some _ => _ | None => _ end] => destruct c as [s'|] eqn:F end; [|left; split; [reflexivity | discriminate]].
  right. exists up. cbn [fst snd]. repeat split; auto. discriminate.
Qed.

Lemma do_create_groups_grow s b u user gss : grow s (fst (do_create_groups s b u user gss)).
Proof.
  destruct (do_create_groups_shape s b u user gss) as [[E _] | (up & _ & F & _ & _)]; [rewrite E; apply grow_refl|].
  eapply (cog_fold_rel grow); [apply grow_refl | apply grow_trans | | exact F].
  intros st gs st' C. apply create_one_group_some in C. cbv zeta in C. destruct C as (_ & _ & _ & ->). apply create_group_rows_grow.
Qed.

Lemma cancel_proc_marks s b g : marks (cancel_proc s b g) = marks s ++ (if group_cancelled s b g then [] else [(b, g)]).
Proof.
  unfold cancel_proc. destruct (group_cancelled s b g); [rewrite app_nil_r; reflexivity|]. cbv zeta. scbn.
  rewrite fold_keeps; [reflexivity|]. intros st kv. repeat dmatch; reflexivity.
Qed.

Section CancelFrame.
  Variables (s : state) (b g : Z).
  Let s' := cancel_proc s b g.
  Ltac cp := subst s'; unfold cancel_proc; destruct (group_cancelled s b g); [reflexivity|]; cbv zeta; scbn;
             (rewrite fold_keeps; [reflexivity|]; intros st kv; repeat dmatch; reflexivity).
  Lemma cancel_proc_batches : batches s' = batches s. Proof. cp. Qed.
  Lemma cancel_proc_updates : updates s' = updates s. Proof. cp. Qed.
  Lemma cancel_proc_groups : groups s' = groups s. Proof. cp. Qed.
  Lemma cancel_proc_ancestors : ancestors s' = ancestors s. Proof. cp. Qed.
  Lemma cancel_proc_jobs : jobs s' = jobs s. Proof. cp. Qed.
  Lemma cancel_proc_parents : parents s' = parents s. Proof. cp. Qed.
  Lemma cancel_proc_staging : staging s' = staging s. Proof. cp. Qed.
  Lemma cancel_proc_attempts : attempts s' = attempts s. Proof. cp. Qed.
  Lemma cancel_proc_insts : insts s' = insts s. Proof. cp. Qed.
  Lemma cancel_proc_attempt_res : attempt_res s' = attempt_res s. Proof. cp. Qed.
  Lemma cancel_proc_agg_job : agg_job s' = agg_job s. Proof. cp. Qed.
  Lemma cancel_proc_agg_group : agg_group s' = agg_group s. Proof. cp. Qed.
  Lemma cancel_proc_agg_bp : agg_bp s' = agg_bp s. Proof. cp. Qed.
  Lemma cancel_proc_agg_date : agg_date s' = agg_date s. Proof. cp. Qed.
  Lemma cancel_proc_next_batch : next_batch s' = next_batch s. Proof. cp. Qed.
End CancelFrame.

Lemma cancel_proc_grow s b g : grow s (cancel_proc s b g).
Proof.
  constructor.
  - eexists. apply cancel_proc_marks.
  - exists []. rewrite app_nil_r, cancel_proc_ancestors. reflexivity.
  - exists []. rewrite app_nil_r, cancel_proc_groups. reflexivity.
  - exists []. rewrite app_nil_r, cancel_proc_batches. reflexivity.
  - exists []. rewrite app_nil_r, cancel_proc_updates. reflexivity.
  - rewrite cancel_proc_next_batch. lia.
Qed.

Lemma step_grow s o : grow s (fst (step s o)).
Proof.
  pose proof (step_same_tree s o) as T.
  destruct o; try (apply same_tree_grow; exact T); cbn [step]; clear T.
  - unfold do_create_batch. destruct (negb member); [apply grow_refl|].
    match goal with |- context [match ?c with Some _ => _ | None => _ end] => destruct c end; [apply grow_refl|]. cbv zeta. cbn [fst].
    eapply grow_trans; [|apply create_group_rows_grow].
    constructor; scbn; try (exists []; rewrite app_nil_r; reflexivity); try lia. rewrite map_app. eexists; reflexivity.
  - unfold do_create_update. repeat (dmatch; try apply grow_refl).
    all: cbn [fst]; constructor; scbn; try (exists []; rewrite app_nil_r; reflexivity); try lia; rewrite map_app; eexists; reflexivity.
  - apply do_create_groups_grow.
  - unfold do_cancel_group. repeat (dmatch; try apply grow_refl). all: cbn [fst]; apply cancel_proc_grow.
  - unfold do_delete_batch. repeat (dmatch; try apply grow_refl).
    all: cbn [fst]; (eapply grow_trans; [apply cancel_proc_grow|]); apply same_tree_grow; apply same_tree_batches_map; key_side.
Qed.

(* ------------------------------------------------------------------ the jobs table along any transaction *)

Lemma step_jobs_same s o :
  match o with
  | CreateJobs _ _ _ _ | Commit _ _ _ | DeactivateInstance _ _ _ | ScheduleJob _ _ _ _ | UnscheduleJob _ _ _ _ _ _
  | MarkCreating _ _ _ _ _ | MarkStarted _ _ _ _ _ | MarkComplete _ _ _ _ _ _ _ _ => True
  | _ => jobs (fst (step s o)) = jobs s
  end.
Proof.
  destruct o; try exact I; cbn [step].
  - unfold do_create_batch, create_group_rows. repeat (dmatch; try reflexivity).
  - unfold do_create_update. repeat (dmatch; try reflexivity).
  - destruct (do_create_groups_shape s b u user gs) as [[E _] | (up & _ & F & _ & _)]; [rewrite E; reflexivity|].
    eapply (cog_fold_rel (fun st st' => jobs st' = jobs st)); [reflexivity | intros; congruence | | exact F].
    intros st g st' C. apply create_one_group_some in C. cbv zeta in C. destruct C as (_ & _ & _ & ->). reflexivity.
  - unfold do_cancel_group. repeat (dmatch; try reflexivity). all: cbn [fst]; apply cancel_proc_jobs.
  - unfold do_delete_batch. repeat (dmatch; try reflexivity). all: cbn [fst]; scbn; apply cancel_proc_jobs.
  - apply (sc_jobs _ _ (do_new_instance_core s name ic cores pool)).
  - apply (sc_jobs _ _ (do_activate_core s name)).
  - apply (sc_jobs _ _ (do_mark_deleted_core s name)).
  - apply (sc_jobs _ _ (do_add_resources_core s b j att rs)).
  - apply (sc_jobs _ _ (do_billing_update_core s time atts)).
  - reflexivity.
  - reflexivity.
Qed.

Definition op_terminal (o : op) : Prop :=
  match o with MarkComplete _ _ _ _ ns _ _ _ => terminal ns = true | _ => True end.

Lemma legal_op_terminal s o : legal s o -> op_terminal o.
Proof.
  destruct o; try exact (fun _ => I). unfold legal, legalb, op_terminal. intros H.
  repeat (apply andb_true_iff in H; destruct H as [H ?]). assumption.
Qed.

(** a job may enter Creating / Running only if the row that was there was runnable (always_run, or neither itself nor a group above it cancelled) *)
Definition entered_ok (s : state) (y : job) : Prop :=
  idle y \/ exists x, find_job s (j_batch y) (j_id y) = Some x /\ runnable s x /\ static_eq x y.

Definition fresh_job (s : state) (y : job) : Prop :=
  (j_state y = Ready \/ j_state y = Pending) /\ find_job s (j_batch y) (j_id y) = None /\
  group_cancelled s (j_batch y) (j_group y) = false /\ find_group s (j_batch y) (j_group y) <> None.

Definition entered_ok_if (s : state) (o : op) (y : job) : Prop := op_terminal o -> entered_ok s y.

Theorem step_jobs s o :
  exists l new, jobs (fst (step s o)) = l ++ new /\ jrel (entered_ok_if s o) (jobs s) l /\
                Forall (fresh_job s) new /\ NoDup (map jk new).
Proof.
  assert (Same : jobs (fst (step s o)) = jobs s ->
                 exists l new, jobs (fst (step s o)) = l ++ new /\ jrel (entered_ok_if s o) (jobs s) l /\ Forall (fresh_job s) new /\ NoDup (map jk new)).
  { intros E. exists (jobs s), []. rewrite E, app_nil_r. split; [reflexivity|]. split; [apply jrel_refl|]. split; constructor. }
  assert (Idle : jrel (entered_ok_if s o) (jobs s) (jobs (fst (step s o))) ->
                 exists l new, jobs (fst (step s o)) = l ++ new /\ jrel (entered_ok_if s o) (jobs s) l /\ Forall (fresh_job s) new /\ NoDup (map jk new)).
  { intros R. exists (jobs (fst (step s o))), []. rewrite app_nil_r. split; [reflexivity|]. split; [exact R|split; constructor]. }
  assert (IdleP : forall y, idle y -> entered_ok_if s o y) by (intros y Hy _; left; exact Hy).
  assert (Upd : forall x s1 n, find_job s (j_batch n) (j_id n) = Some x -> same_core s s1 -> runnable s x -> static_eq x n ->
                 fst (step s o) = update_job s1 x n ->
                 exists l new, jobs (fst (step s o)) = l ++ new /\ jrel (entered_ok_if s o) (jobs s) l /\ Forall (fresh_job s) new /\ NoDup (map jk new)).
  { intros x s1 n Fx C Rn Sx E. apply Idle.
    rewrite E. rewrite <- (sc_jobs _ _ C) at 1. apply jrel_update_job; [apply jrel_refl | |].
    - intros _. right. exists x. auto.
    - exists x. split; [|exact Sx]. left. rewrite (sc_jobs _ _ C). apply find_jkey_sound in Fx. tauto. }
  pose proof (step_jobs_same s o) as SJ.
  destruct o; try (apply Same; exact SJ); clear SJ; cbn [step] in *.
  - (* CreateJobs *)
    destruct (do_create_jobs_shape s b u user js) as [E | (up & bt & Fu & Fb & Cm & V & E)].
    + apply Same. cbn [step]. rewrite E. reflexivity.
    + rewrite E. cbn [fst]. rewrite cj_insert_jobs. exists (jobs s), (map fst (cj_specs b u up js)).
      split; [reflexivity|]. split; [apply jrel_refl|].
      pose proof (fun x H => proj1 (cj_specs_batch b u up js x H)) as Hb.
      destruct (insert_verdict_ok s b _ [] Hb V) as (F & ND). split.
      * rewrite Forall_forall in *. intros y Hy. destruct (F y Hy) as (A1 & A2 & A3 & _).
        destruct (cj_specs_batch b u up js y Hy) as (B1 & _ & B3). unfold fresh_job. rewrite B1. auto.
      * assert (Ek : map jk (map fst (cj_specs b u up js)) = map (fun i => (b, i)) (map j_id (map fst (cj_specs b u up js)))).
        { rewrite !map_map. apply map_ext_in. intros [y ps] Hy. cbn [fst]. unfold jk. f_equal. apply Hb. apply in_map_iff. exists (y, ps). auto. }
        rewrite Ek. clear Ek F. induction ND as [|i l Hn ND IH]; cbn [map]; constructor; [|exact IH].
        intros Hin. apply in_map_iff in Hin. destruct Hin as (i' & Ei & Hi'). injection Ei as ->. contradiction.
  - apply Idle. eapply jrel_weaken; [exact IdleP | apply do_commit_jobs].
  - apply Idle. eapply jrel_weaken; [exact IdleP | apply do_deactivate_jobs].
  - destruct (do_schedule_shape s b j att inst) as [C | (x & s1 & Fx & C & Rn & _ & E)]; [apply Same, (sc_jobs _ _ C)|].
    pose proof (find_jkey_sound _ _ _ _ Fx) as (_ & B & J).
    eapply (Upd x s1); [| exact C | exact Rn | | exact E]; [cbn; rewrite B, J; exact Fx | solve_static].
  - apply Idle. eapply jrel_weaken; [exact IdleP | apply do_unschedule_jobs].
  - destruct (do_mcs_shape true s b j att inst time) as [C | (x & s1 & Fx & C & Rn & _ & E)]; [apply Same, (sc_jobs _ _ C)|].
    pose proof (find_jkey_sound _ _ _ _ Fx) as (_ & B & J).
    eapply (Upd x s1); [| exact C | exact Rn | | exact E]; [cbn; rewrite B, J; exact Fx | solve_static].
  - destruct (do_mcs_shape false s b j att inst time) as [C | (x & s1 & Fx & C & Rn & _ & E)]; [apply Same, (sc_jobs _ _ C)|].
    pose proof (find_jkey_sound _ _ _ _ Fx) as (_ & B & J).
    eapply (Upd x s1); [| exact C | exact Rn | | exact E]; [cbn; rewrite B, J; exact Fx | solve_static].
  - apply Idle. apply do_mark_complete_jobs; [exact IdleP|].
    intros x a T. left. unfold op_terminal in T. split; cbn; intros E; rewrite E in T; discriminate.
Qed.
