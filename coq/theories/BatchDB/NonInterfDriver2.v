(** C41, non-interference: mark_job_complete and deactivate_instance commute with the projection. *)
From HailV Require Import Common.Prelude BatchDB.Model BatchDB.Tables BatchDB.CMap BatchDB.JobsWF BatchDB.StepCore
  BatchDB.Legal BatchDB.DepsDef BatchDB.DepsStruct BatchDB.DepsAux BatchDB.Deps BatchDB.Pick BatchDB.Cores BatchDB.Attempts
  BatchDB.StepFrame BatchDB.NonInterfDef BatchDB.NonInterfInv BatchDB.NonInterfDriver.
From RecordUpdate Require Import RecordSet.
Import RecordSetNotations.
Open Scope Z_scope.

Section Driver2.
  Variables (B U sj G0 : Z).
  Local Notation P := (proj B U sj G0).
  Local Notation jfree := (jfree B sj).
  Local Notation gfree := (gfree B G0).
  Local Notation ufree := (ufree B U).
  Local Notation SI := (SI B U sj G0).

  (** the immutable columns of a job row agree with the simulation invariant *)
  Definition jok (y : job) : Prop :=
    j_batch y = B -> (j_update y = U <-> sj <= j_id y) /\ (j_update y <> U -> j_group y < G0).

  Lemma SI_jok st y : SI st -> In y (jobs st) -> jok y.
  Proof. intros S Hy Hb. split; [apply (si_jr _ _ _ _ _ S y Hy Hb) | apply (si_jg _ _ _ _ _ S y Hy Hb)]. Qed.

  Lemma SI_update_job' st o n : jok n -> SI st -> SI (update_job st o n).
  Proof.
    intros Jn [H1 H2 H3 H4 H5]. constructor; [exact H1 | | | |].
    - unfold committed. rewrite find_update_update_job. exact H2.
    - rewrite update_job_jobs. intros z Hz. apply in_replace_job in Hz. destruct Hz as [-> | Hz]; [|apply H3; exact Hz].
      intros Hb. apply (Jn Hb).
    - rewrite update_job_jobs. intros z Hz. apply in_replace_job in Hz. destruct Hz as [-> | Hz]; [|apply H4; exact Hz].
      intros Hb. apply (Jn Hb).
    - rewrite update_job_attempts. exact H5.
  Qed.

  Lemma jok_free y : jok y -> jU B sj y = false -> 0 < G0 -> gfree (j_batch y) (j_group y) /\ ufree (j_batch y) (j_update y).
  Proof.
    intros J Hf HG. unfold jU in Hf. unfold NonInterfDef.gfree, NonInterfDef.ufree.
    destruct (j_batch y =? B) eqn:Eb; cbn [andb] in *; [|auto]. apply Z.eqb_eq in Eb. destruct (J Eb) as (J1 & J2).
    assert (Nu : j_update y <> U) by (intros E; apply J1 in E; lia). specialize (J2 Nu). split; lia.
  Qed.

  Lemma fold_keep_proj_in {A} (p : A -> bool) (g : state -> A -> state) (I : state -> Prop) l :
    (forall st a, In a l -> I st -> I (g st a)) ->
    (forall st a, In a l -> I st -> p a = true -> P (g st a) = P st) ->
    (forall st a, In a l -> I st -> p a = false -> P (g st a) = g (P st) a) ->
    forall st, I st -> P (fold_left g l st) = fold_left g (keep p l) (P st).
  Proof.
    induction l as [|a l IH]; intros HI Hown Hfree st Ist; [reflexivity|]. unfold keep in *. cbn [fold_left filter].
    assert (IH' : forall st, I st -> P (fold_left g l st) = fold_left g (filter (fun x => negb (p x)) l) (P st)).
    { apply IH; intros; [apply HI | apply Hown | apply Hfree]; auto; right; assumption. }
    destruct (p a) eqn:E; cbn [negb fold_left].
    - rewrite IH'; [rewrite Hown; auto; left; reflexivity | apply HI; auto; left; reflexivity].
    - rewrite IH'; [rewrite Hfree; auto; left; reflexivity | apply HI; auto; left; reflexivity].
  Qed.

  Lemma fold_left_map_eq {A C} (g : state -> C -> state) (f : A -> C) l : forall st,
    fold_left g (map f l) st = fold_left (fun st a => g st (f a)) l st.
  Proof. induction l as [|a l IH]; intros st; cbn [map fold_left]; [reflexivity | apply IH]. Qed.

  Lemma fold_left_ext_fun {A} (g g' : state -> A -> state) : (forall st a, g st a = g' st a) ->
    forall l st, fold_left g l st = fold_left g' l st.
  Proof. intros H. induction l as [|a l IH]; intros st; cbn [fold_left]; [reflexivity | rewrite H; apply IH]. Qed.

  Lemma proj_set_groups_map s f : (forall g, gU B G0 (f g) = gU B G0 g) -> P (s <| groups ::= map f |>) = P s <| groups ::= map f |>.
  Proof. intros H. unfold proj. scbn. rewrite keep_map; [reflexivity | exact H]. Qed.

  (* -------------------------------------------------------------- release_children *)

  Definition rc_step (s0 : state) (b : Z) (succ : bool) (st : state) (c : Z) : state :=
    match find_job st b c with
    | Some x => if negb (match find_update s0 b (j_update x) with Some y => u_committed y | None => false end) then st
                else update_job st x (x <| j_state := if j_npp x =? 1 then Ready else Pending |>
                                        <| j_npp := j_npp x - 1 |>
                                        <| j_cancelled := if succ then j_cancelled x else true |>)
    | None => st
    end.

  Lemma release_children_eq s b j succ :
    release_children s b j succ =
    fold_left (rc_step s b succ) (map (fun r => let '(_, c, _) := r in c)
                                      (filter (fun r => let '(b', _, p) := r in (b' =? b) && (p =? j)) (parents s))) s.
  Proof. reflexivity. Qed.

  Lemma rc_step_proj_s0 s0 b succ st c : SI s0 -> rc_step (P s0) b succ st c = rc_step s0 b succ st c.
  Proof.
    intros S. unfold rc_step. destruct (find_job st b c) as [x|]; [|reflexivity].
    change (match find_update (P s0) b (j_update x) with Some y => u_committed y | None => false end) with (committed (P s0) b (j_update x)).
    rewrite (committed_proj_all B U sj G0 s0 _ _ (si_unc _ _ _ _ _ S)). reflexivity.
  Qed.

  Lemma proj_release_children s b j succ : SI s -> P (release_children s b j succ) = release_children (P s) b j succ.
  Proof.
    intros S. rewrite !release_children_eq.
    change (parents (P s)) with (keep (pU B sj) (parents s)). rewrite filter_keep_comm, !fold_left_map_eq.
    set (l := filter (fun r => let '(b', _, p) := r in (b' =? b) && (p =? j)) (parents s)).
    assert (Hl : forall r, In r l -> fst (fst r) = b).
    { intros [[b' c] p] Hr. subst l. apply filter_In in Hr. destruct Hr as [_ Hr]. apply andb_true_iff in Hr. cbn. lia. }
    rewrite (fold_left_ext_fun (fun st (a : Z * Z * Z) => rc_step (P s) b succ st (let '(_, c, _) := a in c))
                               (fun st a => rc_step s b succ st (let '(_, c, _) := a in c)));
      [|intros st a; apply rc_step_proj_s0; exact S].
    apply (fold_keep_proj_in (pU B sj) _ (fun st => SI st /\ updates st = updates s)).
    - intros st [[b' c] p] Hr [Sst Eu]. unfold rc_step. destruct (find_job st b c) as [x|] eqn:F; [|auto].
      destruct (negb _); [auto|]. split; [|autorewrite with frame; exact Eu].
      apply SI_update_job'; [|exact Sst]. destruct (si_found B U sj G0 st b c x Sst F) as (Hx & _).
      pose proof (SI_jok st x Sst Hx) as J. exact J.
    - intros st [[b' c] p] Hr [Sst Eu] Own. pose proof (Hl _ Hr) as Eb. cbn in Eb. subst b'. cbn in Own.
      unfold rc_step. destruct (find_job st b c) as [x|] eqn:F; [|reflexivity].
      assert (Cx : committed st b (j_update x) = false) by (apply (si_own_uncommitted B U sj G0 st b c x Sst F Own)).
      unfold committed, find_update in Cx. rewrite Eu in Cx. unfold find_update. rewrite Cx. reflexivity.
    - intros st [[b' c] p] Hr [Sst Eu] Free. pose proof (Hl _ Hr) as Eb. cbn in Eb. subst b'. cbn in Free.
      unfold rc_step. rewrite (find_job_proj B U sj G0 st b c Free).
      destruct (find_job st b c) as [x|] eqn:F; [|reflexivity].
      destruct (negb _); [reflexivity|].
      apply (proj_update_job_found B U sj G0 st st b c x _ Sst F Free); reflexivity.
    - split; [exact S | reflexivity].
  Qed.
  (* -------------------------------------------------------------- mark_job_complete *)

  Lemma proj_finish_groups s b g : gfree b g -> P (finish_groups s b g) = finish_groups (P s) b g.
  Proof.
    intros Hg. unfold finish_groups. rewrite (anc_ids_proj B U sj G0 s b g Hg). apply proj_set_groups_map.
    intros x. match goal with |- gU _ _ (if ?c then _ else _) = _ => destruct c end; reflexivity.
  Qed.

  Lemma proj_mc_finish s3 x b j a ns total : SI s3 -> find_job s3 b j = Some x -> jfree b j ->
    P (mc_finish s3 x b j a ns total) = mc_finish (P s3) x b j a ns total.
  Proof.
    intros S F Hj. destruct (si_found B U sj G0 s3 b j x S F) as (Hx & Hb & _ & H). destruct (H Hj) as (Hg & Hu).
    unfold mc_finish. cbv zeta.
    set (n := x <| j_state := ns |> <| j_attempt := (if a =? -1 then None else Some a) |>).
    set (s4 := update_job s3 x n).
    assert (E4 : update_job (P s3) x n = P s4).
    { symmetry. apply (proj_update_job_found B U sj G0 s3 s3 b j x n S F Hj); reflexivity. }
    assert (S4 : SI s4) by (apply SI_update_job'; [exact (SI_jok s3 x S Hx) | exact S]).
    rewrite E4. rewrite (anc_ids_proj B U sj G0 s4 b (j_group x) Hg).
    match goal with |- context [set groups (map ?f) s4] => set (fg := f) end.
    set (s5 := s4 <| groups ::= map fg |>).
    assert (E5 : P s4 <| groups ::= map fg |> = P s5).
    { symmetry. apply proj_set_groups_map. intros g. subst fg. cbv beta.
      match goal with |- gU _ _ (if ?c then _ else _) = _ => destruct c end; reflexivity. }
    rewrite E5.
    assert (S5 : SI s5) by (apply (SI_core B U sj G0 s4); auto).
    rewrite (find_group_proj B U sj G0 s5 b 0 (sim_gfree_root B G0 b (si_G0 _ _ _ _ _ S))).
    match goal with |- context [if ?c then set batches ?f s5 else s5] => set (cnd := c); set (fb := f) end.
    set (s6 := if cnd then s5 <| batches ::= fb |> else s5).
    assert (E6 : (if cnd then P s5 <| batches ::= fb |> else P s5) = P s6) by (subst s6; destruct cnd; reflexivity).
    rewrite E6.
    assert (S6 : SI s6) by (subst s6; destruct cnd; [apply (SI_core B U sj G0 s5); auto | exact S5]).
    rewrite <- (proj_finish_groups s6 b (j_group x) Hg).
    apply proj_release_children. apply (SI_core B U sj G0 s6); auto.
  Qed.

  Lemma proj_mc_s3 s1 x b j a i st en rs : SI s1 -> P (mc_s3 s1 x b j a i st en rs) = mc_s3 (P s1) x b j a i st en rs.
  Proof.
    intros S. unfold mc_s3. cbv zeta. rewrite find_attempt_proj.
    set (cur := if a =? -1 then None else find_attempt s1 b j a).
    set (s2 := match cur with Some c => update_attempt s1 c (c <| a_start := st |> <| a_rollup := en |> <| a_end := en |> <| a_reason := Some rs |>) | None => s1 end).
    assert (E2 : match cur with Some c => update_attempt (P s1) c (c <| a_start := st |> <| a_rollup := en |> <| a_end := en |> <| a_reason := Some rs |>) | None => P s1 end = P s2).
    { subst s2. destruct cur as [c|] eqn:Ec; [|reflexivity]. symmetry.
      assert (Fa : find_attempt s1 b j a = Some c) by (subst cur; destruct (a =? -1); [discriminate | exact Ec]).
      apply (proj_update_attempt_found B U sj G0 s1 b j a c _ S Fa); reflexivity. }
    rewrite E2. rewrite inst_state_proj, find_inst_proj. repeat dmatch; reflexivity.
  Qed.

  Lemma SI_mc_s3 s1 x b j a i st en rs : SI s1 -> SI (mc_s3 s1 x b j a i st en rs).
  Proof.
    intros S. unfold mc_s3. cbv zeta.
    set (s2 := match (if a =? -1 then None else find_attempt s1 b j a) with Some c => update_attempt s1 c _ | None => s1 end).
    assert (S2 : SI s2) by (subst s2; destruct (if a =? -1 then None else find_attempt s1 b j a); [apply SI_update_attempt|]; exact S).
    repeat dmatch; try exact S2; apply (SI_core B U sj G0 s2); auto.
  Qed.

  Lemma proj_mark_complete s b j a i ns st en rs : SI s -> job_committed s b j = true ->
    fst (do_mark_complete (P s) b j a i ns st en rs) = P (fst (do_mark_complete s b j a i ns st en rs)).
  Proof.
    intros S C. pose proof (si_job_committed_free B U sj G0 s b j S C) as Hj.
    rewrite !do_mark_complete_unfold. rewrite (find_job_proj B U sj G0 s b j Hj), find_batch_proj.
    destruct (find_job s b j) as [x|] eqn:F; [|reflexivity].
    assert (Ea : (if a =? -1 then Some (P s, 0) else add_attempt (P s) b j a i (j_cores x)) =
                 option_map (fun p => (P (fst p), snd p)) (if a =? -1 then Some (s, 0) else add_attempt s b j a i (j_cores x))).
    { destruct (a =? -1); [reflexivity | apply proj_add_attempt]. }
    rewrite Ea.
    destruct (if a =? -1 then Some (s, 0) else add_attempt s b j a i (j_cores x)) as [[s1 d0]|] eqn:Aa; cbn [option_map fst snd]; [|reflexivity].
    assert (S1 : SI s1).
    { destruct (a =? -1); [injection Aa as <- _; exact S | apply (SI_add_attempt B U sj G0 s b j a i _ s1 d0 Hj Aa S)]. }
    assert (F1 : find_job s1 b j = Some x).
    { destruct (a =? -1); [injection Aa as <- _; exact F|]. rewrite (sc_find_job _ _ (same_core_add_attempt _ _ _ _ _ _ _ _ Aa)). exact F. }
    cbv zeta. rewrite <- (proj_mc_s3 s1 x b j a i st en rs S1).
    destruct (mc_stale x a); [reflexivity|]. destruct (mc_active x); [|reflexivity].
    symmetry. apply proj_mc_finish; [apply SI_mc_s3; exact S1 | | exact Hj].
    rewrite (sc_find_job _ _ (mc_s3_core s1 x b j a i st en rs)). exact F1.
  Qed.

  (* -------------------------------------------------------------- deactivate_instance *)

  Definition da_step (name reason time : Z) (st : state) (a : attempt) : state :=
    if a_inst a =? name then
      match find_attempt st (a_batch a) (a_job a) (a_id a) with
      | Some cur => update_attempt st cur (cur <| a_rollup := Some time |> <| a_end := Some time |> <| a_reason := Some reason |>)
      | None => st end
    else st.

  Definition dj_step (name : Z) (st : state) (j : job) : state :=
    match j_attempt j with
    | Some a =>
        match find_attempt st (j_batch j) (j_id j) a with
        | Some at_ =>
            if (a_inst at_ =? name) && (jstate_eqb (j_state j) Running || jstate_eqb (j_state j) Creating)
            then update_job st j (j <| j_state := Ready |> <| j_attempt := None |>) else st
        | None => st end
    | None => st end.

  Lemma do_deactivate_eq s name reason time :
    fst (do_deactivate s name reason time) =
    match find_inst s name with
    | Some x => if ilive (i_state x) then
                  let s1 := fold_left (da_step name reason time) (attempts s) s in
                  let s2 := fold_left (dj_step name) (jobs s1) s1 in
                  s2 <| insts ::= replace_inst (x <| i_state := IInactive |> <| i_free := i_cores x |>) |>
                else s
    | None => s
    end.
  Proof. unfold do_deactivate. destruct (find_inst s name) as [x|]; [|reflexivity]. destruct (ilive (i_state x)); reflexivity. Qed.

  Lemma SI_da_step name reason time st a : SI st -> SI (da_step name reason time st a).
  Proof. intros S. unfold da_step. repeat dmatch; try exact S. apply SI_update_attempt; exact S. Qed.

  Lemma proj_deactivate s name reason time : SI s ->
    fst (do_deactivate (P s) name reason time) = P (fst (do_deactivate s name reason time)).
  Proof.
    intros S. rewrite !do_deactivate_eq. rewrite find_inst_proj.
    destruct (find_inst s name) as [x|]; [|reflexivity]. destruct (ilive (i_state x)); [|reflexivity]. cbv zeta.
    change (attempts (P s)) with (attempts s).
    set (s1 := fold_left (da_step name reason time) (attempts s) s).
    assert (S1 : SI s1) by (apply (fold_I (da_step name reason time) SI); [intros; apply SI_da_step; assumption | exact S]).
    assert (E1 : fold_left (da_step name reason time) (attempts s) (P s) = P s1).
    { symmetry. apply (fold_proj B U sj G0 _ SI); [intros; apply SI_da_step; assumption | | exact S].
      intros st a Sst. unfold da_step. destruct (a_inst a =? name); [|reflexivity]. rewrite find_attempt_proj.
      destruct (find_attempt st (a_batch a) (a_job a) (a_id a)) as [c|] eqn:Fa; [|reflexivity].
      apply (proj_update_attempt_found B U sj G0 st _ _ _ c _ Sst Fa); reflexivity. }
    rewrite E1. change (jobs (P s1)) with (keep (jU B sj) (jobs s1)).
    assert (E2 : fold_left (dj_step name) (keep (jU B sj) (jobs s1)) (P s1) = P (fold_left (dj_step name) (jobs s1) s1)).
    { symmetry. apply (fold_keep_proj_in (jU B sj) (dj_step name) SI).
      - intros st j Hj Sst. unfold dj_step. repeat dmatch; try exact Sst.
        apply SI_update_job'; [|exact Sst]. exact (SI_jok s1 j S1 Hj).
      - intros st j Hj Sst Own. unfold dj_step. destruct (j_attempt j) as [a|]; [|reflexivity].
        destruct (find_attempt st (j_batch j) (j_id j) a) as [c|] eqn:Fa; [|reflexivity].
        destruct (si_attempt B U sj G0 st _ _ _ c Sst Fa) as (_ & _ & Hf). unfold jU in Own. unfold NonInterfDef.jfree in Hf.
        rewrite Hf in Own. discriminate.
      - intros st j Hj Sst Free. unfold dj_step. destruct (j_attempt j) as [a|]; [|reflexivity]. rewrite find_attempt_proj.
        destruct (find_attempt st (j_batch j) (j_id j) a) as [c|]; [|reflexivity].
        destruct (_ && _); [|reflexivity].
        destruct (jok_free j (SI_jok s1 j S1 Hj) Free (si_G0 _ _ _ _ _ S)) as (Hg & Hu).
        apply proj_update_job; assumption.
      - exact S1. }
    rewrite E2. reflexivity.
  Qed.
End Driver2.
