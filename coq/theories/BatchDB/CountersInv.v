(** C01 — the counter invariant [CInv]: definitions, transfer along unchanged tables, preservation by one
    [update_job] on a committed job and by folds of such updates.

    [UInv]  user_inst_coll_resources: for every (user, inst_coll) the eight summed columns equal the recount over the
            jobs of COMMITTED updates of that user's batches;
    [GInvC] job_group_inst_coll_cancellable_resources: for every batch b and group g that is not cancelled, and every
            selection Q of (update, inst_coll) pairs, the five columns summed over the rows [b; u; g; ic] with Q u ic
            equal the recount over the cancellable jobs of the subtree of g with Q (update, inst_coll)
            (Q = one update and one inst_coll gives the per-row statement, Q = committed updates and one inst_coll
            is what cancel_job_group moves);
    [SInv]  job_groups_inst_coll_staging: for every update that is not committed, the root-group rows per inst_coll
            hold (number of jobs, number of Ready jobs, cores of the Ready jobs);
    [AInv]  the ancestor table is a forest: no duplicates, transitive, chains, reflexive on what occurs;
    [PInv]  updates of a batch are committed in order (from the legality of Commit);
    [RInv]  a Ready job of an uncommitted update is not cancelled and only the root group above it may be cancelled. *)
From HailV Require Import Common.Prelude BatchDB.Model BatchDB.Tables BatchDB.CMap BatchDB.JobsWF BatchDB.StepCore BatchDB.JobFold
  BatchDB.Legal BatchDB.DepsDef BatchDB.CountersAlg.
From RecordUpdate Require Import RecordSet.
Import RecordSetNotations.
Open Scope Z_scope.

(* ------------------------------------------------------------------ definitions *)

Definition jgc (s : state) (x : job) : bool := group_cancelled s (j_batch x) (j_group x).

Definition usel (s : state) (usr ic : Z) (x : job) : bool :=
  (batch_user s (j_batch x) =? usr) && (j_ic x =? ic) && committed s (j_batch x) (j_update x).
Definition uw (s : state) (usr ic : Z) (i : nat) (x : job) : Z :=
  if usel s usr ic x then nth i (uvec (jgc s x) x) 0 else 0.

Definition gsel (b g : Z) (Q : Z -> Z -> bool) (k : list Z) : bool :=
  match k with [b'; u'; g'; ic'] => (b' =? b) && (g' =? g) && Q u' ic' | _ => false end.
Definition insub (s : state) (b g : Z) (x : job) : bool := (j_batch x =? b) && mem g (anc_ids s b (j_group x)).
Definition gw (s : state) (b g : Z) (Q : Z -> Z -> bool) (i : nat) (x : job) : Z :=
  if insub s b g x && Q (j_update x) (j_ic x) then nth i (cvec (jgc s x) x) 0 else 0.

Definition ssel (b u ic : Z) (x : job) : bool := (j_batch x =? b) && (j_update x =? u) && (j_ic x =? ic).
Definition sw (b u ic : Z) (i : nat) (x : job) : Z := if ssel b u ic x then nth i (svec x) 0 else 0.

Definition UInv (s : state) : Prop :=
  forall usr ic i, cval (key_eqb [usr; ic]) i (user_res s) = zsum (uw s usr ic i) (jobs s).
Definition GInvC (s : state) : Prop :=
  forall b g, group_cancelled s b g = false ->
  forall Q i, cval (gsel b g Q) i (cancellable s) = zsum (gw s b g Q i) (jobs s).
Definition SInv (s : state) : Prop :=
  forall b u ic i, committed s b u = false ->
    cval (key_eqb [b; u; 0; ic]) i (staging s) = zsum (sw b u ic i) (jobs s).

Record AInv (s : state) : Prop := {
  a_nodup : forall b h, NoDup (anc_ids s b h);
  a_trans : forall b h g a, In g (anc_ids s b h) -> In a (anc_ids s b g) -> In a (anc_ids s b h);
  a_chain : forall b h a g, In a (anc_ids s b h) -> In g (anc_ids s b h) -> In a (anc_ids s b g) \/ In g (anc_ids s b a);
  a_self : forall b h a, In a (anc_ids s b h) -> In a (anc_ids s b a) }.

Definition PInv (s : state) : Prop :=
  forall x y, In x (updates s) -> In y (updates s) -> u_batch x = u_batch y -> u_id x < u_id y ->
    u_committed y = true -> u_committed x = true.

Definition RInv (s : state) : Prop :=
  forall x, In x (jobs s) -> jcommitted s x = false -> j_state x = Ready ->
    j_cancelled x = false /\
    forall a, In a (anc_ids s (j_batch x) (j_group x)) -> marked s (j_batch x) a = true -> a = 0.

Record CInv (s : state) : Prop := {
  c_shc : shaped 4 5 (cancellable s);
  c_shs : shaped 4 3 (staging s);
  c_anc : AInv s;
  c_pref : PInv s;
  c_rdy : RInv s;
  c_user : UInv s;
  c_grp : GInvC s;
  c_stg : SInv s }.

Lemma CInv_init : CInv init.
Proof.
  constructor; try apply shaped_nil.
  - constructor; cbn; intros; try constructor; contradiction.
  - intros x y [].
  - intros x [].
  - intros usr ic i. cbn. destruct i; reflexivity.
  - intros b g _ Q i. cbn. destruct i; reflexivity.
  - intros b u ic i _. cbn. destruct i; reflexivity.
Qed.

(* ------------------------------------------------------------------ transfer along unchanged tables *)

(** everything [CInv] looks at *)
Record ceq (s s' : state) : Prop := {
  ce_jobs : jobs s' = jobs s;
  ce_user : user_res s' = user_res s;
  ce_canc : cancellable s' = cancellable s;
  ce_stag : staging s' = staging s;
  ce_upd : updates s' = updates s;
  ce_marks : marks s' = marks s;
  ce_anc : ancestors s' = ancestors s;
  ce_bu : forall b, batch_user s' b = batch_user s b }.

Lemma ceq_refl s : ceq s s.
Proof. constructor; reflexivity. Qed.
Lemma ceq_trans s1 s2 s3 : ceq s1 s2 -> ceq s2 s3 -> ceq s1 s3.
Proof. intros [] []. constructor; try congruence; intros b; rewrite ce_bu1; apply ce_bu0. Qed.

Lemma anc_ids_ext s s' b g : ancestors s' = ancestors s -> anc_ids s' b g = anc_ids s b g.
Proof. intros E. unfold anc_ids, anc_rows. rewrite E. reflexivity. Qed.
Lemma marked_ext s s' b g : marks s' = marks s -> marked s' b g = marked s b g.
Proof. intros E. unfold marked. rewrite E. reflexivity. Qed.
Lemma group_cancelled_ext s s' b g :
  ancestors s' = ancestors s -> marks s' = marks s -> group_cancelled s' b g = group_cancelled s b g.
Proof.
  intros E1 E2. unfold group_cancelled, n_cancelled_anc. rewrite (anc_ids_ext _ _ _ _ E1).
  erewrite filter_ext; [reflexivity|]. intros a. apply marked_ext. exact E2.
Qed.
Lemma committed_ext s s' b u : updates s' = updates s -> committed s' b u = committed s b u.
Proof. intros E. unfold committed, find_update. rewrite E. reflexivity. Qed.

Lemma AInv_ext s s' : ancestors s' = ancestors s -> AInv s -> AInv s'.
Proof.
  intros E [A1 A2 A3 A4].
  constructor; intros; rewrite ?(anc_ids_ext s s' _ _ E) in *; eauto.
Qed.

Lemma PInv_ext s s' : updates s' = updates s -> PInv s -> PInv s'.
Proof. intros E P. unfold PInv. rewrite E. exact P. Qed.

Section Transfer.
  Variables s s' : state.
  Hypothesis H : ceq s s'.

  Lemma ceq_committed b u : committed s' b u = committed s b u.
  Proof. apply committed_ext, (ce_upd _ _ H). Qed.
  Lemma ceq_anc_ids b g : anc_ids s' b g = anc_ids s b g.
  Proof. apply anc_ids_ext, (ce_anc _ _ H). Qed.
  Lemma ceq_marked b g : marked s' b g = marked s b g.
  Proof. apply marked_ext, (ce_marks _ _ H). Qed.
  Lemma ceq_gc b g : group_cancelled s' b g = group_cancelled s b g.
  Proof. apply group_cancelled_ext; [apply (ce_anc _ _ H) | apply (ce_marks _ _ H)]. Qed.

  Lemma ceq_uw usr ic i x : uw s' usr ic i x = uw s usr ic i x.
  Proof. unfold uw, usel, jgc. rewrite (ce_bu _ _ H), ceq_committed, ceq_gc. reflexivity. Qed.
  Lemma ceq_gw b g Q i x : gw s' b g Q i x = gw s b g Q i x.
  Proof. unfold gw, insub, jgc. rewrite ceq_anc_ids, ceq_gc. reflexivity. Qed.

  Lemma CInv_ceq : CInv s -> CInv s'.
  Proof.
    intros [C1 C2 C3 C4 C5 C6 C7 C8]. constructor.
    - rewrite (ce_canc _ _ H). exact C1.
    - rewrite (ce_stag _ _ H). exact C2.
    - apply (AInv_ext s); [apply (ce_anc _ _ H) | exact C3].
    - apply (PInv_ext s); [apply (ce_upd _ _ H) | exact C4].
    - intros x Hx Hc Hr. rewrite (ce_jobs _ _ H) in Hx. unfold jcommitted in Hc. rewrite ceq_committed in Hc.
      destruct (C5 x Hx Hc Hr) as [R1 R2]. split; [exact R1|]. intros a Ha Hm.
      rewrite ceq_anc_ids in Ha. rewrite ceq_marked in Hm. auto.
    - intros usr ic i. rewrite (ce_user _ _ H), (ce_jobs _ _ H), C6. apply zsum_ext_in. intros x _. symmetry. apply ceq_uw.
    - intros b g Hg Q i. rewrite ceq_gc in Hg. rewrite (ce_canc _ _ H), (ce_jobs _ _ H), (C7 b g Hg Q i).
      apply zsum_ext_in. intros x _. symmetry. apply ceq_gw.
    - intros b u ic i Hc. rewrite ceq_committed in Hc. rewrite (ce_stag _ _ H), (ce_jobs _ _ H). apply C8. exact Hc.
  Qed.
End Transfer.

(* ------------------------------------------------------------------ one update_job *)

Lemma committed_update_job s o n b u : committed (update_job s o n) b u = committed s b u.
Proof. apply committed_ext, update_job_updates. Qed.

Lemma batch_user_update_job s o n b : batch_user (update_job s o n) b = batch_user s b.
Proof. unfold batch_user. rewrite find_batch_update_job. reflexivity. Qed.

Lemma filter_guard (c1 c2 : bool) (g : Z) (l : list Z) :
  Z.of_nat (length (filter (fun a => c1 && (a =? g) && c2) l)) =
  if c1 && c2 then Z.of_nat (length (filter (fun a => a =? g) l)) else 0.
Proof.
  destruct c1, c2; cbn [andb].
  - f_equal. f_equal. apply filter_ext. intros a. rewrite andb_true_r. reflexivity.
  - rewrite (filter_ext _ (fun _ => false)) by (intros a; apply andb_false_r).
    induction l; [reflexivity | assumption].
  - induction l; [reflexivity | assumption].
  - induction l; [reflexivity | assumption].
Qed.

Section UpdateJob.
  Variables (s : state) (o n : job).
  Hypothesis K : Kjobs s.
  Hypothesis Hin : In o (jobs s).
  Hypothesis St : static o n.
  Hypothesis Hc : jcommitted s o = true.
  Let s' := update_job s o n.

  Lemma uj_uw usr ic i x : uw s' usr ic i x = uw s usr ic i x.
  Proof.
    unfold uw, usel, jgc, s'. rewrite batch_user_update_job, committed_update_job, group_cancelled_update_job. reflexivity.
  Qed.
  Lemma uj_gw b g Q i x : gw s' b g Q i x = gw s b g Q i x.
  Proof. unfold gw, insub, jgc, s'. rewrite anc_ids_update_job, group_cancelled_update_job. reflexivity. Qed.

  Lemma UInv_update_job : UInv s -> UInv s'.
  Proof.
    intros U usr ic i. destruct St as (S1 & S2 & S3 & S4 & S5 & S6 & S7).
    unfold s'. rewrite cval_user_res_update_job by congruence. cbv zeta.
    rewrite update_job_jobs. rewrite (zsum_ext_in _ (uw s usr ic i)) by (intros x _; apply uj_uw).
    rewrite (zsum_replace_job _ _ o n K Hin) by congruence. rewrite (U usr ic i).
    unfold uw, usel, jgc. rewrite <- S1, <- S3, <- S4, <- S7.
    unfold jcommitted in Hc. rewrite Hc. cbn [key_eqb].
    rewrite (Z.eqb_sym usr), (Z.eqb_sym ic), !andb_true_r.
    destruct ((batch_user s (j_batch o) =? usr) && (j_ic o =? ic)); lia.
  Qed.

  Lemma GInvC_update_job : AInv s -> GInvC s -> GInvC s'.
  Proof.
    intros A G b g Hg Q i. destruct St as (S1 & S2 & S3 & S4 & S5 & S6 & S7).
    unfold s' in Hg. rewrite group_cancelled_update_job in Hg.
    unfold s'. rewrite cval_cancellable_update_job by congruence. cbv zeta.
    rewrite update_job_jobs. rewrite (zsum_ext_in _ (gw s b g Q i)) by (intros x _; apply uj_gw).
    rewrite (zsum_replace_job _ _ o n K Hin) by congruence. rewrite (G b g Hg Q i).
    unfold gsel. rewrite filter_guard.
    rewrite (count_nodup g _ (a_nodup _ A (j_batch n) (j_group n))).
    unfold gw, insub, jgc. rewrite <- S1, <- S3, <- S4, <- S7.
    destruct (j_batch o =? b) eqn:Eb; cbn [andb]; [|lia].
    assert (j_batch o = b) by lia. subst b.
    destruct (Q (j_update o) (j_ic o)); rewrite ?andb_true_r, ?andb_false_r; [|lia].
    destruct (mem g (anc_ids s (j_batch o) (j_group o))); cbn [ind]; lia.
  Qed.

  Lemma SInv_update_job : SInv s -> SInv s'.
  Proof.
    intros S b u ic i Hu. destruct St as (S1 & S2 & S3 & S4 & S5 & S6 & S7).
    unfold s' in Hu. rewrite committed_update_job in Hu.
    unfold s'. rewrite update_job_staging, update_job_jobs.
    rewrite (zsum_replace_job _ _ o n K Hin) by congruence. rewrite (S b u ic i Hu).
    unfold sw, ssel. rewrite <- S1, <- S3, <- S7.
    destruct ((j_batch o =? b) && (j_update o =? u)) eqn:E; cbn [andb]; [|lia].
    exfalso. apply andb_true_iff in E. destruct E as [E1 E2]. unfold jcommitted in Hc.
    replace (j_batch o) with b in Hc by lia. replace (j_update o) with u in Hc by lia. congruence.
  Qed.

  Lemma RInv_update_job : RInv s -> RInv s'.
  Proof.
    intros R x Hx Hxc Hr. destruct St as (S1 & S2 & S3 & S4 & S5 & S6 & S7).
    unfold s' in *. rewrite update_job_jobs in Hx. unfold jcommitted in Hxc. rewrite committed_update_job in Hxc.
    apply in_replace_job in Hx. destruct Hx as [-> | Hx].
    - exfalso. unfold jcommitted in Hc. rewrite S1, S3 in Hc. congruence.
    - destruct (R x Hx Hxc Hr) as [R1 R2]. split; [exact R1|]. intros a Ha Hm.
      rewrite anc_ids_update_job in Ha. rewrite marked_update_job in Hm. auto.
  Qed.

  Lemma CInv_update_job : CInv s -> CInv s'.
  Proof.
    intros [C1 C2 C3 C4 C5 C6 C7 C8]. constructor.
    - unfold s'. rewrite update_job_cancellable. apply shaped_fold_cadd; [reflexivity | reflexivity | exact C1].
    - unfold s'. rewrite update_job_staging. exact C2.
    - apply (AInv_ext s); [apply update_job_ancestors | exact C3].
    - apply (PInv_ext s); [apply update_job_updates | exact C4].
    - apply RInv_update_job; exact C5.
    - apply UInv_update_job; exact C6.
    - apply GInvC_update_job; assumption.
    - apply SInv_update_job; exact C8.
  Qed.
End UpdateJob.

(* ------------------------------------------------------------------ folds of update_job over distinct rows *)

Lemma in_replace_job_other n l y :
  In y l -> jk y <> jk n -> In y (replace_job n l).
Proof.
  intros Hy Hne. unfold replace_job. apply in_map_iff. exists y. split; [|exact Hy].
  destruct ((j_batch y =? j_batch n) && (j_id y =? j_id n)) eqn:E; [|reflexivity].
  exfalso. apply Hne. apply andb_true_iff in E. destruct E as [E1 E2]. unfold jk. f_equal; lia.
Qed.

(** [I] is an invariant of states; each step either leaves the state alone or rewrites the row [j] it is given
    (which satisfies [P], is still in the table, untouched) keeping the immutable columns. *)
Section FoldRows.
  Variable I : state -> Prop.
  Variable P : job -> Prop.
  Variable step_fn : state -> job -> state.
  Hypothesis step_ok : forall st j, P j -> I st -> In j (jobs st) ->
    step_fn st j = st \/ exists n, step_fn st j = update_job st j n /\ static j n /\ I (update_job st j n).

  Lemma fold_rows_inv : forall L st,
    NoDup (map jk L) -> (forall y, In y L -> P y /\ In y (jobs st)) -> I st -> I (fold_left step_fn L st).
  Proof.
    induction L as [|j L IH]; intros st ND Hin HI; cbn [fold_left]; [exact HI|].
    cbn [map] in ND. inversion ND as [|? ? Hn ND']; subst.
    destruct (Hin j (or_introl eq_refl)) as [Pj Hj].
    destruct (step_ok st j Pj HI Hj) as [E | (n & E & Sn & In')]; rewrite E.
    - apply IH; [exact ND' | intros y Hy; apply Hin; right; exact Hy | exact HI].
    - apply IH; [exact ND' | | exact In'].
      intros y Hy. destruct (Hin y (or_intror Hy)) as [Py Hyj]. split; [exact Py|].
      rewrite update_job_jobs. apply in_replace_job_other; [exact Hyj|].
      intros Ek. apply Hn. destruct Sn as (S1 & S2 & _).
      replace (jk j) with (jk y); [apply in_map; exact Hy|]. rewrite Ek. unfold jk. rewrite S1, S2. reflexivity.
  Qed.
End FoldRows.
