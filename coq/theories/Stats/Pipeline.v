(** C37 — executable exact pipeline (definitions only): finite distributions, the class state LeveneHaldane.apply builds
    (mode, stream prefixes, pN), the distribution it stands for, and the Hardy-Weinberg test assembled from the GENERATED pieces
    (stream recurrences, mode, class methods LH_*, hwe_pvalue) the way LeveneHaldane.apply / hardyWeinbergTest assemble them
    (exact sums, no cut-offs, exact ties; exactMidP is the hand model [exact_midp]). *)
From HailV Require Import Common.Prelude CallPacking.Model Stats.Model.
From Coq Require Import QArith Qabs.
From HailG Require Import C37.Gen.
Open Scope Z_scope.

Section Dist.
  Variable dist : list (Z * Q).                  (* (outcome, mass) pairs *)

  Definition massp (f : Z * Q -> bool) : Q := qsum (map snd (filter f dist)).
  Definition mass (f : Z -> bool) : Q := massp (fun vp => f (fst vp)).
  Definition total : Q := qsum (map snd dist).

  Definition ex_prob (x : Z) : option Q := Some (mass (fun y => Z.eqb y x)).
  Definition ex_cdf2 (n0 n1 : Z) : option Q := Some (mass (fun y => Z.ltb n0 y && Z.leb y n1)).   (* P(n0 < X <= n1) *)

  (** exactMidP, hand model of the stream code with exact ties instead of the 1e-12 tolerance: half the mass of the outcomes
      exactly as probable as the observed one plus the mass of the strictly less probable ones *)
  Definition exact_midp (x : Z) : Q :=
    let px := mass (fun y => Z.eqb y x) in
    ((1 # 2) * massp (fun vp => Qeq_bool (snd vp) px) + massp (fun vp => q_ltb (snd vp) px))%Q.
End Dist.

Fixpoint index_from (i step : Z) (l : list Q) : list (Z * Q) :=
  match l with [] => [] | w :: r => (i, w) :: index_from (i + step) step r end.

(** next-value functions with reduced fractions (same value, keeps the numbers small) *)
Definition red_next (f : Z -> Q -> option Q) (i : Z) (p : Q) : option Q :=
  match f i p with Some v => Some (Qred v) | None => None end.

(** The distribution a class instance LeveneHaldane(nA, mode, pRU, pLU, pN) stands for, given the prefixes R of pRU and L of pLU
    that reach the two ends of the support: outcome mode + 2i has mass R[i] / pN, outcome mode - 2i (i >= 1) has mass L[i] / pN. *)
Definition lh_support (mode : Z) (R L : list Q) : list (Z * Q) := index_from mode 2 R ++ index_from (mode - 2) (-2) (tl L).
Definition lh_norm (mode : Z) (R L : list Q) (pN : Q) : list (Z * Q) :=
  map (fun vp => (fst vp, Qred (snd vp / pN))) (lh_support mode R L).

(** LeveneHaldane.apply(n, nA): mode, the two streams up to the ends of the support, pN (exact sums, no cut-off) *)
Definition lh_state (n nA : Z) : option (Z * list Q * list Q * Q) :=
  bind (lh_args unit n nA tt) (fun '(nB, parity) =>
  bind (lh_mode n nA nB parity) (fun mode =>
  bind (stream_prefix (pRU_next_idx n nA nB) (red_next (pRU_next_val n nA nB)) (Z.to_nat ((nA - mode) / 2)) mode 1%Q) (fun R =>
  bind (stream_prefix (pLU_next_idx n nA nB) (red_next (pLU_next_val n nA nB)) (Z.to_nat ((mode - parity) / 2)) mode 1%Q) (fun L =>
    Some (mode, R, L, Qred (qsum R + qsum L - 1)%Q))))).

(** ... and the normalised distribution *)
Definition lh_dist (n nA : Z) : option (Z * list (Z * Q)) :=
  bind (lh_state n nA) (fun '(mode, R, L, pN) => Some (mode, lh_norm mode R L pN)).

(** the class invariant the theorems about the class methods assume, as a computable test (checked on every evaluated (n, nA)) *)
Definition q_is_one (q : Q) : bool := (Qnum q =? 1) && Pos.eqb (Qden q) 1.      (* the literal 1.0 both streams start with *)
Definition lh_state_wf (nA : Z) (st : Z * list Q * list Q * Q) : bool :=
  let '(mode, R, L, pN) := st in
  (0 <=? mode) && (mode <=? nA) && ((nA - mode) mod 2 =? 0) &&
  (Z.of_nat (length R) =? (nA - mode) / 2 + 1) && (Z.of_nat (length L) =? mode / 2 + 1) &&
  match R, L with
  | r0 :: R', l0 :: L' => q_is_one r0 && q_is_one l0 && forallb (Qle_bool 0) R' && forallb (Qle_bool 0) L'
                          && Qeq_bool pN (qsum R + qsum L - 1)
  | _, _ => false
  end.

(** hardyWeinbergTest(nHomRef, nHet, nHomVar, oneSided) = (het_freq_hwe, p_value) in exact arithmetic: the GENERATED class methods
    (probability, cumulativeProbability, survivalFunction, rightMidP and the dispatch hwe_pvalue) run on the streams' prefixes;
    exactMidP is the hand model [exact_midp]. *)
Definition hwe_model (r h v : Z) (one_sided : bool) : option (Q * Q) :=
  bind (hwe_args r h v one_sided) (fun '(n, nAB, nA) =>
  bind (lh_state n nA) (fun '(mode, R, L, pN) =>
  bind (numericalMean n nA (2 * n - nA)) (fun mean =>
  bind (q_div mean (inject_Z n)) (fun het =>
  bind (hwe_pvalue (LH_rightMidP nA mode (s_of_list R) (s_of_list L) pN)
                   (fun x => Some (exact_midp (lh_norm mode R L pN) x)) one_sided nAB) (fun p => Some (Qred het, Qred p)))))).

(** every class method at once, for the model-level search: (wf, probability, cdf(-1, x], survival, rightMidP, leftMidP, exactMidP) at x *)
Definition q_pair (o : option Q) : option (Z * Z) :=
  match o with Some q => Some (Qnum (Qred q), Z.pos (Qden (Qred q))) | None => None end.
Definition lh_methods (n nA : Z) (xs : list Z) : option (bool * Z * list (list (option (Z * Z)))) :=
  bind (lh_state n nA) (fun '(mode, R, L, pN) =>
    let pRU := s_of_list R in let pLU := s_of_list L in
    Some (lh_state_wf nA (mode, R, L, pN), mode,
          map (fun x => [q_pair (LH_probability nA mode pRU pLU pN x); q_pair (LH_cdf1 nA mode pRU pLU pN x);
                         q_pair (LH_survival nA mode pRU pLU pN x); q_pair (LH_rightMidP nA mode pRU pLU pN x);
                         q_pair (LH_leftMidP nA mode pRU pLU pN x); q_pair (Some (exact_midp (lh_norm mode R L pN) x))]) xs)).
(** cumulativeProbability(n0, n1) on a list of (n0, n1) pairs *)
Definition lh_cdf2_grid (n nA : Z) (pts : list (Z * Z)) : option (list (option (Z * Z))) :=
  bind (lh_state n nA) (fun '(mode, R, L, pN) =>
    Some (map (fun p => q_pair (LH_cdf2 nA mode (s_of_list R) (s_of_list L) pN (fst p) (snd p))) pts)).

(** |x - y| <= tol * |y| *)
Definition close_to (x y tol : Q) : bool := Qle_bool (Qabs (x - y)) (tol * Qabs y).
