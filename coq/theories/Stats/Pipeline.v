(** C37 — executable exact pipeline (definitions only): finite distributions, the mid-p combinations with the opaque callees
    of the generated code instantiated, and the Hardy-Weinberg test assembled from the GENERATED pieces the way
    LeveneHaldane.apply / hardyWeinbergTest assemble them (exact sums, no cut-offs, exact ties). *)
From HailV Require Import Common.Prelude CallPacking.Model Stats.Model.
From Coq Require Import QArith Qabs.
From HailG Require Import C37.Gen.
Open Scope Z_scope.

Section Dist.
  Variable dist : list (Z * Q).                  (* (outcome, mass) pairs *)

  Definition massp (f : Z * Q -> bool) : Q := qsum (map snd (filter f dist)).
  Definition mass (f : Z -> bool) : Q := massp (fun vp => f (fst vp)).
  Definition total : Q := qsum (map snd dist).

  Definition ex_prob (x : Z) : option Q := Some (mass (fun y => Z.eqb y x)).
  Definition ex_cdf2 (n0 n1 : Z) : option Q := Some (mass (fun y => Z.ltb n0 y && Z.leb y n1)).   (* P(n0 < X <= n1) *)

  (** exactMidP, hand model of the stream code with exact ties instead of the 1e-12 tolerance: half the mass of the outcomes
      exactly as probable as the observed one plus the mass of the strictly less probable ones *)
  Definition exact_midp (x : Z) : Q :=
    let px := mass (fun y => Z.eqb y x) in
    ((1 # 2) * massp (fun vp => Qeq_bool (snd vp) px) + massp (fun vp => q_ltb (snd vp) px))%Q.
End Dist.

Fixpoint index_from (i step : Z) (l : list Q) : list (Z * Q) :=
  match l with [] => [] | w :: r => (i, w) :: index_from (i + step) step r end.

(** next-value functions with reduced fractions (same value, keeps the numbers small) *)
Definition red_next (f : Z -> Q -> option Q) (i : Z) (p : Q) : option Q :=
  match f i p with Some v => Some (Qred v) | None => None end.

(** LeveneHaldane(n, nA): mode, the two streams to the ends of the support, pN, the normalised distribution *)
Definition lh_dist (n nA : Z) : option (Z * list (Z * Q)) :=
  bind (lh_args unit n nA tt) (fun '(nB, parity) =>
  bind (lh_mode n nA nB parity) (fun mode =>
  bind (stream_prefix (pRU_next_idx n nA nB) (red_next (pRU_next_val n nA nB)) (Z.to_nat ((nA - mode) / 2)) mode 1%Q) (fun R =>
  bind (stream_prefix (pLU_next_idx n nA nB) (red_next (pLU_next_val n nA nB)) (Z.to_nat ((mode - parity) / 2)) mode 1%Q) (fun L =>
    let pN := Qred (qsum R + qsum L - 1)%Q in
    Some (mode, map (fun vp => (fst vp, Qred (snd vp / pN))) (index_from mode 2 R ++ index_from (mode - 2) (-2) (tl L))))))).

(** hardyWeinbergTest(nHomRef, nHet, nHomVar, oneSided) = (het_freq_hwe, p_value) in exact arithmetic *)
Definition hwe_model (r h v : Z) (one_sided : bool) : option (Q * Q) :=
  bind (hwe_args r h v one_sided) (fun '(n, nAB, nA) =>
  bind (lh_dist n nA) (fun '(mode, dist) =>
  bind (numericalMean n nA (2 * n - nA)) (fun mean =>
  bind (q_div mean (inject_Z n)) (fun het =>
  bind (if one_sided then rightMidP (survivalFunction (ex_cdf2 dist) nA) (ex_prob dist) nAB
        else Some (exact_midp dist nAB)) (fun p => Some (Qred het, Qred p)))))).

(** |x - y| <= tol * |y| *)
Definition close_to (x y tol : Q) : bool := Qle_bool (Qabs (x - y)) (tol * Qabs y).
