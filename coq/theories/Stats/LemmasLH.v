(** C37 — part 2: the Levene-Haldane recurrences, mean, normalisation and mid-p combinations (exact arithmetic). *)
From HailV Require Import Common.Prelude CallPacking.Model CallPacking.Arith Stats.Model Stats.Lemmas Stats.Pipeline.
From Coq Require Import QArith Qround Qabs.
From HailG Require Import C37.Gen.
Open Scope Z_scope.

(* ---------------------------------------------------------------- factorials and the Levene-Haldane weight *)
Definition zfact (z : Z) : Z := Z.of_nat (fact (Z.to_nat z)).

Lemma zfact_pos k : 0 < zfact k.
Proof. unfold zfact. pose proof (lt_O_fact (Z.to_nat k)). lia. Qed.

Lemma zfact_succ k : 0 <= k -> zfact (k + 1) = (k + 1) * zfact k.
Proof.
  intros H. unfold zfact. rewrite Z2Nat.inj_add by lia. change (Z.to_nat 1) with 1%nat. rewrite Nat.add_1_r.
  cbn [fact]. rewrite Nat2Z.inj_mul, Nat2Z.inj_succ. rewrite Z2Nat.id by lia. lia.
Qed.

Open Scope Q_scope.

Definition qfact (z : Z) : Q := inject_Z (zfact z).

Lemma qfact_nz k : ~ qfact k == 0.
Proof. unfold qfact. apply inject_Z_pos. apply zfact_pos. Qed.

Lemma qfact_succ k : (0 <= k)%Z -> qfact (k + 1) == inject_Z (k + 1) * qfact k.
Proof. intros H. unfold qfact. rewrite zfact_succ by exact H. rewrite inject_Z_mult. reflexivity. Qed.

(** Unnormalised Levene-Haldane probability of nAB heterozygotes given allele counts nA, nB (nAB = nA = nB mod 2):
    P(nAB) = [n! nA! nB! / (2n)!] * 2^nAB / (((nA-nAB)/2)! nAB! ((nB-nAB)/2)!)  - the bracket does not depend on nAB. *)
Definition lh_weight (nA nB nAB : Z) : Q :=
  inject_Z (2 ^ nAB) / (qfact ((nA - nAB) / 2) * qfact nAB * qfact ((nB - nAB) / 2)).

Lemma pow2_nz k : (0 <= k)%Z -> ~ inject_Z (2 ^ k) == 0.
Proof. intros H. apply inject_Z_pos. apply Z.pow_pos_nonneg; lia. Qed.

Lemma lh_weight_nz nA nB nAB : (0 <= nAB)%Z -> ~ lh_weight nA nB nAB == 0.
Proof.
  intros H E. unfold lh_weight in E.
  assert (D : ~ qfact ((nA - nAB) / 2) * qfact nAB * qfact ((nB - nAB) / 2) == 0).
  { intros Z0. apply Qmult_integral in Z0 as [Z0 | Z0]; [apply Qmult_integral in Z0 as [Z0 | Z0]|]; revert Z0; apply qfact_nz. }
  apply (pow2_nz nAB H). rewrite <- (Qmult_div_r _ _ D). rewrite E. ring.
Qed.

Ltac w32' := unfold i_add, i_sub, i_mul;
  repeat match goal with |- context [wrap32 ?x] => rewrite (wrap32_small x) by (change (2 ^ 31) with 2147483648%Z; lia) end.

(** Going right from nAB: the generated next value multiplies by  P(nAB + 2) / P(nAB). *)
Lemma lh_ratio_right n nA nB nAB p :
  (0 <= nAB)%Z -> (nAB + 2 <= nA)%Z -> (nAB + 2 <= nB)%Z -> (nB < 2 ^ 31)%Z -> (nA < 2 ^ 31)%Z ->
  ((nA - nAB) mod 2 = 0)%Z -> ((nB - nAB) mod 2 = 0)%Z ->
  exists v, pRU_next_val n nA nB nAB p = Some v /\ pRU_next_idx n nA nB nAB = Some (nAB + 2)%Z /\
            v == p * (lh_weight nA nB (nAB + 2) / lh_weight nA nB nAB).
Proof.
  intros H0 HA HB HbB HbA PA PB. change (2 ^ 31)%Z with 2147483648%Z in *.
  set (aa := ((nA - nAB) / 2)%Z). set (bb := ((nB - nAB) / 2)%Z).
  assert (Ea : (nA - nAB = 2 * aa)%Z) by (unfold aa; lia). assert (Eb : (nB - nAB = 2 * bb)%Z) by (unfold bb; lia).
  assert (Ha1 : (1 <= aa)%Z) by lia. assert (Hb1 : (1 <= bb)%Z) by lia.
  unfold pRU_next_val, pRU_next_idx. msimp. w32'. unfold q_of_int, q_mul, q_add.
  assert (Dn : ~ (inject_Z nAB + (2 # 1)) * inject_Z (nAB + 1) == 0).
  { change (2 # 1) with (inject_Z 2). rewrite <- inject_Z_plus, <- inject_Z_mult. apply inject_Z_pos. nia. }
  rewrite (q_div_ok _ _ Dn). eexists. split; [reflexivity|]. split; [reflexivity|].
  unfold lh_weight.
  replace ((nA - (nAB + 2)) / 2)%Z with (aa - 1)%Z by lia. replace ((nB - (nAB + 2)) / 2)%Z with (bb - 1)%Z by lia.
  fold aa bb.
  assert (Fa : qfact aa == inject_Z aa * qfact (aa - 1)).
  { replace aa with (aa - 1 + 1)%Z at 1 2 by lia. apply qfact_succ. lia. }
  assert (Fb : qfact bb == inject_Z bb * qfact (bb - 1)).
  { replace bb with (bb - 1 + 1)%Z at 1 2 by lia. apply qfact_succ. lia. }
  assert (Fn : qfact (nAB + 2) == inject_Z (nAB + 2) * (inject_Z (nAB + 1) * qfact nAB)).
  { replace (nAB + 2)%Z with (nAB + 1 + 1)%Z at 1 2 by lia. rewrite qfact_succ by lia. rewrite (qfact_succ nAB) by lia.
    replace (nAB + 1 + 1)%Z with (nAB + 2)%Z by lia. reflexivity. }
  assert (Pw : inject_Z (2 ^ (nAB + 2)) == 4 * inject_Z (2 ^ nAB)).
  { rewrite Z.pow_add_r by lia. rewrite inject_Z_mult. change (2 ^ 2)%Z with 4%Z. change (inject_Z 4) with 4. ring. }
  rewrite Ea, Eb, Fa, Fb, Fn, Pw. rewrite !inject_Z_mult, !inject_Z_plus.
  change (inject_Z 2) with 2. change (inject_Z 1) with 1. change (2 # 1) with 2.
  pose proof (qfact_nz (aa - 1)) as N1. pose proof (qfact_nz (bb - 1)) as N2. pose proof (qfact_nz nAB) as N3.
  pose proof (pow2_nz nAB H0) as N4.
  assert (N5 : ~ inject_Z aa == 0) by (apply inject_Z_pos; lia).
  assert (N6 : ~ inject_Z bb == 0) by (apply inject_Z_pos; lia).
  assert (N7 : ~ inject_Z nAB + 2 == 0).
  { change 2 with (inject_Z 2). rewrite <- inject_Z_plus. apply inject_Z_pos. lia. }
  assert (N8 : ~ inject_Z nAB + 1 == 0).
  { change 1 with (inject_Z 1). rewrite <- inject_Z_plus. apply inject_Z_pos. lia. }
  field. repeat split; assumption.
Qed.

(** Going left from nAB: the generated next value multiplies by  P(nAB - 2) / P(nAB). *)
Lemma lh_ratio_left n nA nB nAB p :
  (2 <= nAB)%Z -> (nAB <= nA)%Z -> (nAB <= nB)%Z -> (nB < 2 ^ 31 - 2)%Z -> (nA < 2 ^ 31 - 2)%Z ->
  ((nA - nAB) mod 2 = 0)%Z -> ((nB - nAB) mod 2 = 0)%Z ->
  exists v, pLU_next_val n nA nB nAB p = Some v /\ pLU_next_idx n nA nB nAB = Some (nAB - 2)%Z /\
            v == p * (lh_weight nA nB (nAB - 2) / lh_weight nA nB nAB).
Proof.
  intros H0 HA HB HbB HbA PA PB. change (2 ^ 31)%Z with 2147483648%Z in *.
  set (aa := ((nA - nAB) / 2)%Z). set (bb := ((nB - nAB) / 2)%Z).
  assert (Ea : (nA - nAB = 2 * aa)%Z) by (unfold aa; lia). assert (Eb : (nB - nAB = 2 * bb)%Z) by (unfold bb; lia).
  assert (Ha1 : (0 <= aa)%Z) by lia. assert (Hb1 : (0 <= bb)%Z) by lia.
  unfold pLU_next_val, pLU_next_idx. msimp. w32'. unfold q_of_int, q_mul, q_add.
  assert (Dn : ~ (inject_Z (nA - nAB) + (2 # 1)) * inject_Z (nB - nAB + 2) == 0).
  { change (2 # 1) with (inject_Z 2). rewrite <- inject_Z_plus, <- inject_Z_mult. apply inject_Z_pos. nia. }
  rewrite (q_div_ok _ _ Dn). eexists. split; [reflexivity|]. split; [reflexivity|].
  unfold lh_weight.
  replace ((nA - (nAB - 2)) / 2)%Z with (aa + 1)%Z by lia. replace ((nB - (nAB - 2)) / 2)%Z with (bb + 1)%Z by lia.
  fold aa bb.
  assert (Fa : qfact (aa + 1) == inject_Z (aa + 1) * qfact aa) by (apply qfact_succ; lia).
  assert (Fb : qfact (bb + 1) == inject_Z (bb + 1) * qfact bb) by (apply qfact_succ; lia).
  assert (Fn : qfact nAB == inject_Z nAB * (inject_Z (nAB - 1) * qfact (nAB - 2))).
  { replace nAB with (nAB - 1 + 1)%Z at 1 by lia. rewrite qfact_succ by lia.
    replace (nAB - 1)%Z with (nAB - 2 + 1)%Z at 2 by lia. rewrite (qfact_succ (nAB - 2)) by lia.
    replace (nAB - 1 + 1)%Z with nAB by lia. replace (nAB - 2 + 1)%Z with (nAB - 1)%Z by lia. reflexivity. }
  assert (Pw : inject_Z (2 ^ nAB) == 4 * inject_Z (2 ^ (nAB - 2))).
  { replace nAB with (nAB - 2 + 2)%Z at 1 by lia. rewrite Z.pow_add_r by lia. rewrite inject_Z_mult.
    change (2 ^ 2)%Z with 4%Z. change (inject_Z 4) with 4. ring. }
  replace (nB - nAB + 2)%Z with (2 * (bb + 1))%Z by lia. rewrite Ea.
  rewrite Fa, Fb, Fn, Pw. rewrite !inject_Z_mult, !inject_Z_plus.
  change (inject_Z 2) with 2. change (inject_Z 1) with 1. change (2 # 1) with 2.
  pose proof (qfact_nz aa) as N1. pose proof (qfact_nz bb) as N2. pose proof (qfact_nz (nAB - 2)) as N3.
  pose proof (pow2_nz (nAB - 2) ltac:(lia)) as N4.
  assert (N5 : ~ inject_Z aa + 1 == 0).
  { change 1 with (inject_Z 1). rewrite <- inject_Z_plus. apply inject_Z_pos. lia. }
  assert (N6 : ~ inject_Z bb + 1 == 0).
  { change 1 with (inject_Z 1). rewrite <- inject_Z_plus. apply inject_Z_pos. lia. }
  assert (N7 : ~ inject_Z nAB == 0) by (apply inject_Z_pos; lia).
  assert (N8 : ~ inject_Z (nAB - 1) == 0) by (apply inject_Z_pos; lia).
  assert (N9 : ~ 2 * inject_Z aa + 2 == 0).
  { change 2 with (inject_Z 2). rewrite <- inject_Z_mult, <- inject_Z_plus. apply inject_Z_pos. lia. }
  field. repeat split; assumption.
Qed.

(** The right stream stops by itself: at nAB = nA the next value is 0 (nothing beyond the support). *)
Lemma lh_right_end n nA nB p : (0 <= nA)%Z -> (nA < 2 ^ 31 - 2)%Z -> (nB < 2 ^ 31)%Z -> (0 <= nB)%Z ->
  exists v, pRU_next_val n nA nB nA p = Some v /\ v == 0.
Proof.
  intros H0 HA HB HB0. change (2 ^ 31)%Z with 2147483648%Z in *.
  unfold pRU_next_val. msimp. w32'. unfold q_of_int, q_mul, q_add.
  assert (Dn : ~ (inject_Z nA + (2 # 1)) * inject_Z (nA + 1) == 0).
  { change (2 # 1) with (inject_Z 2). rewrite <- inject_Z_plus, <- inject_Z_mult. apply inject_Z_pos. nia. }
  rewrite (q_div_ok _ _ Dn). eexists. split; [reflexivity|].
  replace (nA - nA)%Z with 0%Z by lia. change (inject_Z 0) with 0. field.
  split; intros E; apply Dn; rewrite E; ring.
Qed.

(* ---------------------------------------------------------------- mean (het_freq_hwe = mean / n) *)
Lemma lh_mean n nA nB : (1 <= n)%Z -> (2 * n < 2 ^ 31)%Z ->
  numericalMean n nA nB = Some (1 * inject_Z nA * inject_Z nB / inject_Z (2 * n - 1)).
Proof.
  intros H1 H2. change (2 ^ 31)%Z with 2147483648%Z in *. unfold numericalMean. msimp. w32'.
  unfold q_of_int, q_mul. rewrite q_div_ok by (apply inject_Z_pos; lia). reflexivity.
Qed.

(* ---------------------------------------------------------------- finite distributions: normalisation and mid-p *)
Lemma qsum_cons x l : qsum (x :: l) == x + qsum l.
Proof. cbn [qsum]. apply Qred_correct. Qed.

Section Dist.
  (** a finite distribution as (outcome, mass) pairs; massp / mass / total / ex_prob / ex_cdf2 / exact_midp: Stats.Pipeline *)
  Variable dist : list (Z * Q).
  Hypothesis nonneg : Forall (fun vp => 0 <= snd vp) dist.

  Lemma massp_nonneg f : 0 <= massp dist f.
  Proof.
    unfold massp. induction dist as [|[x w] l IH]; cbn [filter map]; [apply Qle_refl|].
    inversion nonneg as [|? ? Hw Hl]; subst. cbn [fst snd] in *.
    destruct (f (x, w)); cbn [map snd]; [|apply IH; exact Hl].
    rewrite qsum_cons. rewrite <- (Qplus_0_r 0). apply Qplus_le_compat; [exact Hw | apply IH; exact Hl].
  Qed.

  Lemma massp_disjoint_le f g : (forall vp, f vp && g vp = false) -> massp dist f + massp dist g <= total dist.
  Proof.
    intros D. unfold massp, total. induction dist as [|[x w] l IH]; cbn [filter map]; [cbn; discriminate|].
    inversion nonneg as [|? ? Hw Hl]; subst. cbn [fst snd] in *. specialize (IH Hl). specialize (D (x, w)).
    destruct (f (x, w)), (g (x, w)); cbn [map snd]; rewrite ?qsum_cons; try discriminate.
    - rewrite <- Qplus_assoc. apply Qplus_le_compat; [apply Qle_refl | exact IH].
    - rewrite (Qplus_comm (qsum _) (w + _)). rewrite <- Qplus_assoc. apply Qplus_le_compat; [apply Qle_refl|].
      rewrite Qplus_comm. exact IH.
    - rewrite <- (Qplus_0_l (_ + _)). apply Qplus_le_compat; [exact Hw | exact IH].
  Qed.

  Lemma massp_false : massp dist (fun _ => false) == 0.
  Proof. unfold massp. clear nonneg. induction dist as [|[x w] l IH]; cbn; [reflexivity | exact IH]. Qed.

  Lemma massp_le_total f : massp dist f <= total dist.
  Proof.
    pose proof (massp_disjoint_le f (fun _ => false) ltac:(intros; apply andb_false_r)) as H.
    rewrite massp_false, Qplus_0_r in H. exact H.
  Qed.

  (** the combinations of LeveneHaldane.scala, with the opaque callees instantiated by the exact distribution *)
  Hypothesis normalised : total dist == 1.
  Variable nA : Z.
  Hypothesis support : Forall (fun vp => (0 <= fst vp <= nA)%Z) dist.

  Lemma rightMidP_unit x :
    exists v, rightMidP (survivalFunction (ex_cdf2 dist) nA) (ex_prob dist) x = Some v /\ 0 <= v <= 1.
  Proof.
    unfold rightMidP, survivalFunction, ex_cdf2, ex_prob. msimp. unfold q_add, q_mul. eexists. split; [reflexivity|].
    set (S := mass dist (fun y => (x <? y)%Z && (y <=? nA)%Z)). set (P := mass dist (fun y => (y =? x)%Z)).
    assert (HS : 0 <= S) by apply massp_nonneg. assert (HP : 0 <= P) by apply massp_nonneg.
    assert (HSP : S + P <= 1).
    { rewrite <- normalised. apply massp_disjoint_le. intros [y w]. cbn [fst].
      destruct (x <? y)%Z eqn:E1, (y =? x)%Z eqn:E2; cbn; try reflexivity; try apply andb_false_r. lia. }
    split.
    - rewrite <- (Qplus_0_r 0). apply Qplus_le_compat; [exact HS|]. apply Qmult_le_0_compat; [discriminate | exact HP].
    - apply Qle_trans with (S + P); [|exact HSP]. apply Qplus_le_compat; [apply Qle_refl|].
      rewrite <- (Qmult_1_l P) at 2. apply Qmult_le_compat_r; [discriminate | exact HP].
  Qed.

  Lemma leftMidP_unit x :
    exists v, leftMidP (ex_prob dist) (cumulativeProbability1 (ex_cdf2 dist)) x = Some v /\ 0 <= v <= 1.   (* argument order: probability, cdf *)
  Proof.
    unfold leftMidP, cumulativeProbability1, ex_cdf2, ex_prob. msimp. unfold q_sub, q_mul. eexists. split; [reflexivity|].
    change (i_neg 1) with (-1)%Z.
    set (C := mass dist (fun y => (-1 <? y)%Z && (y <=? x)%Z)). set (P := mass dist (fun y => (y =? x)%Z)).
    assert (HC : 0 <= C) by apply massp_nonneg. assert (HP : 0 <= P) by apply massp_nonneg.
    assert (HC1 : C <= 1) by (rewrite <- normalised; apply massp_le_total).
    assert (HPC : P <= C).
    { (* an outcome equal to x lies in the support, hence is > -1 *)
      unfold P, C, mass, massp. clear HC HP HC1 normalised. induction dist as [|[y w] l IH]; cbn [filter map]; [apply Qle_refl|].
      inversion nonneg as [|? ? Hw Hl]; subst. inversion support as [|? ? Hs Hsl]; subst. cbn [fst snd] in *.
      specialize (IH Hl Hsl).
      destruct (y =? x)%Z eqn:E; cbn [map snd].
      - replace ((-1 <? y)%Z && (y <=? x)%Z) with true by lia. cbn [map snd]. rewrite !qsum_cons.
        apply Qplus_le_compat; [apply Qle_refl | exact IH].
      - destruct ((-1 <? y)%Z && (y <=? x)%Z); cbn [map snd]; [|exact IH]. rewrite qsum_cons.
        rewrite <- (Qplus_0_l (qsum _)). apply Qplus_le_compat; [exact Hw | exact IH]. }
    split.
    - apply Qle_trans with (P - (1 # 2) * P).
      + setoid_replace (P - (1 # 2) * P) with ((1 # 2) * P) by ring. apply Qmult_le_0_compat; [discriminate | exact HP].
      + unfold Qminus. apply Qplus_le_compat; [exact HPC | apply Qle_refl].
    - apply Qle_trans with C; [|exact HC1]. unfold Qminus.
      rewrite <- (Qplus_0_r C) at 2. apply Qplus_le_compat; [apply Qle_refl|].
      apply (Qopp_le_compat 0). apply Qmult_le_0_compat; [discriminate | exact HP].
  Qed.

  Lemma exact_midp_unit x : 0 <= exact_midp dist x <= 1.
  Proof.
    unfold exact_midp. cbv zeta.
    set (px := mass dist (fun y => (y =? x)%Z)).
    set (E := massp dist (fun vp => Qeq_bool (snd vp) px)).
    set (L := massp dist (fun vp => q_ltb (snd vp) px)).
    assert (HE : 0 <= E) by apply massp_nonneg. assert (HL : 0 <= L) by apply massp_nonneg.
    assert (HEL : E + L <= 1).
    { rewrite <- normalised. apply massp_disjoint_le. intros [y w]. cbn [snd]. unfold q_ltb.
      destruct (Qeq_bool w px) eqn:E1; [|reflexivity].
      apply Qeq_bool_eq in E1. rewrite (proj1 (Qeq_alt _ _) E1). reflexivity. }
    split.
    - rewrite <- (Qplus_0_r 0). apply Qplus_le_compat; [|exact HL]. apply Qmult_le_0_compat; [discriminate | exact HE].
    - apply Qle_trans with (E + L); [|exact HEL]. apply Qplus_le_compat; [|apply Qle_refl].
      rewrite <- (Qmult_1_l E) at 2. apply Qmult_le_compat_r; [discriminate | exact HE].
  Qed.
End Dist.

(** Normalisation as LeveneHaldane.apply does it: pN = sum(right stream) + sum(left stream) - 1 (the mode is the head of
    both streams); dividing every term by pN gives total mass 1. *)
Lemma normalised_sums_to_one (R L : list Q) :
  Forall (fun w => 0 <= w) R -> Forall (fun w => 0 <= w) L ->
  let pN := qsum (1 :: R) + qsum (1 :: L) - 1 in
  0 < pN /\ qsum (map (fun w => w / pN) ((1 :: R) ++ L)) == 1.
Proof.
  intros HR HL pN.
  assert (Hs : forall l, Forall (fun w => 0 <= w) l -> 0 <= qsum l).
  { induction l as [|w l IH]; intros H; [apply Qle_refl|]. rewrite qsum_cons. inversion H; subst.
    rewrite <- (Qplus_0_r 0). apply Qplus_le_compat; [assumption | apply IH; assumption]. }
  assert (Hd : forall (l : list Q) c, qsum (map (fun w => w / c) l) == qsum l / c).
  { induction l as [|w l IH]; intros c; cbn [map]; [cbn; unfold Qdiv; ring|]. rewrite !qsum_cons, IH. unfold Qdiv. ring. }
  assert (Ha : forall l1 l2, qsum (l1 ++ l2) == qsum l1 + qsum l2).
  { induction l1 as [|w l IH]; intros l2; cbn [app]; [cbn; ring|]. rewrite !qsum_cons, IH. ring. }
  assert (Ep : pN == 1 + qsum R + qsum L) by (unfold pN; rewrite !qsum_cons; ring).
  assert (Hp : 0 < pN).
  { rewrite Ep. apply Qlt_le_trans with 1; [reflexivity|].
    rewrite <- (Qplus_0_r 1) at 1. rewrite <- Qplus_assoc. apply Qplus_le_compat; [apply Qle_refl|].
    rewrite <- (Qplus_0_r 0). apply Qplus_le_compat; [apply Hs; exact HR | apply Hs; exact HL]. }
  split; [exact Hp|].
  assert (Nz : ~ pN == 0) by (intros E; rewrite E in Hp; apply (Qlt_irrefl 0); exact Hp).
  rewrite Hd, Ha. rewrite qsum_cons.
  setoid_replace (1 + qsum R + qsum L) with pN by (symmetry; exact Ep).
  field. exact Nz.
Qed.
