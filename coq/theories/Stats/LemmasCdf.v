(** C37 — part 3: the class methods of LeveneHaldane with their branch structure (GENERATED: LH_probability, LH_cdf2, LH_cdf1,
    LH_survival, LH_rightMidP, LH_leftMidP, hwe_pvalue) equal their definitions over the distribution the class instance stands for.

    A class instance is (nA, mode, pRU, pLU, pN); R and L are the prefixes of the two streams that reach the ends of the support
    ([prefix_of]: forcing element i < length yields the i-th element).  The round-off cut-offs (takeWhile(_ > 1e-16 ...)) are the
    identity in the exact model ([l_cut]); sums are exact rational sums. *)
From HailV Require Import Common.Prelude CallPacking.Model CallPacking.Arith Stats.Model Stats.Lemmas Stats.Pipeline Stats.LemmasLH.
From Coq Require Import QArith Qround Qabs.
From HailG Require Import C37.Gen.
Open Scope Z_scope.

(* ---------------------------------------------------------------- lists and sums *)
Lemma qsum_app (l1 l2 : list Q) : (qsum (l1 ++ l2) == qsum l1 + qsum l2)%Q.
Proof. induction l1 as [|w l IH]; cbn [app]; [cbn; ring|]. rewrite !qsum_cons, IH. ring. Qed.

Lemma mass_nil f : (mass [] f == 0)%Q.
Proof. reflexivity. Qed.

Lemma mass_cons k w l f : (mass ((k, w) :: l) f == (if f k then w else 0) + mass l f)%Q.
Proof.
  unfold mass, massp. cbn [filter fst]. destruct (f k); cbn [map snd]; [apply qsum_cons | ring].
Qed.

Lemma mass_app l1 l2 f : (mass (l1 ++ l2) f == mass l1 f + mass l2 f)%Q.
Proof.
  induction l1 as [|[k w] l IH]; cbn [app]; [rewrite mass_nil; ring|]. rewrite !mass_cons, IH. ring.
Qed.

Lemma mass_norm (c : Q) l f : (mass (map (fun vp => (fst vp, Qred (snd vp / c))) l) f == mass l f / c)%Q.
Proof.
  induction l as [|[k w] l IH]; cbn [map fst snd]; [rewrite !mass_nil; unfold Qdiv; ring|].
  rewrite !mass_cons, IH. destruct (f k); rewrite ?Qred_correct; unfold Qdiv; ring.
Qed.

Lemma mass_ext l f g : Forall (fun vp => f (fst vp) = g (fst vp)) l -> (mass l f == mass l g)%Q.
Proof.
  induction 1 as [|[k w] l Hk Hl IH]; [reflexivity|]. cbn [fst] in Hk. rewrite !mass_cons, IH, Hk. reflexivity.
Qed.

Lemma skipn_tl {A} (l : list A) a : skipn a (tl l) = skipn (S a) l.
Proof. destruct l; cbn [tl skipn]; [apply skipn_nil | reflexivity]. Qed.

Lemma skipn_nth {A} (l : list A) : forall a x, nth_error l a = Some x -> skipn a l = x :: skipn (S a) l.
Proof.
  induction l as [|y l IH]; intros [|a] x H; cbn in H; try discriminate.
  - inversion H; reflexivity.
  - cbn [skipn]. rewrite (IH a x H). reflexivity.
Qed.

(** the outcomes start, start + step, ... carry the weights of [l]: a predicate that holds exactly at the positions a <= i < b
    selects the slice [a, b) *)
Lemma mass_index_from f step : forall (l : list Q) start (a b : nat),
  (forall i, (i < length l)%nat -> f (start + step * Z.of_nat i) = ((a <=? i)%nat && (i <? b)%nat)) ->
  (mass (index_from start step l) f == qsum (firstn (b - a) (skipn a l)))%Q.
Proof.
  induction l as [|x r IH]; intros start a b H.
  - cbn [index_from]. rewrite skipn_nil, firstn_nil. reflexivity.
  - cbn [index_from]. rewrite mass_cons.
    pose proof (H 0%nat ltac:(cbn; lia)) as H0. rewrite Z.mul_0_r, Z.add_0_r in H0.
    assert (Ht : forall a' b', (forall i, (i < length (x :: r))%nat -> ((a <=? S i)%nat && (S i <? b)%nat) = ((a' <=? i)%nat && (i <? b')%nat)) ->
                 (mass (index_from (start + step) step r) f == qsum (firstn (b' - a') (skipn a' r)))%Q).
    { intros a' b' E. apply IH. intros i Hi. rewrite <- E by (cbn [length]; lia). rewrite <- H by (cbn [length]; lia).
      f_equal. lia. }
    destruct a as [|a'].
    + destruct b as [|b'].
      * rewrite H0. replace ((0 <=? 0)%nat && (0 <? 0)%nat) with false by lia.
        rewrite (Ht 0%nat 0%nat) by (intros; lia). cbn. ring.
      * rewrite H0. replace ((0 <=? 0)%nat && (0 <? S b')%nat) with true by lia.
        rewrite (Ht 0%nat b') by (intros; lia). cbn [Nat.sub skipn firstn]. rewrite Nat.sub_0_r, qsum_cons. reflexivity.
    + rewrite H0. replace ((S a' <=? 0)%nat && (0 <? b)%nat) with false by lia.
      rewrite (Ht a' (b - 1)%nat) by (intros; lia). cbn [skipn]. replace (b - 1 - a')%nat with (b - S a')%nat by lia. ring.
Qed.

(* ---------------------------------------------------------------- streams and their prefixes *)
Definition prefix_of (s : stream) (l : list Q) : Prop := forall i : nat, (i < length l)%nat -> s (Z.of_nat i) = nth_error l i.

Lemma prefix_of_list l : prefix_of (s_of_list l) l.
Proof. intros i Hi. unfold s_of_list. replace (Z.of_nat i <? 0) with false by lia. rewrite Nat2Z.id. reflexivity. Qed.

Lemma s_take_prefix s l : prefix_of s l -> forall k a, (a + k <= length l)%nat -> s_take s k (Z.of_nat a) = Some (firstn k (skipn a l)).
Proof.
  intros P. induction k as [|k IH]; intros a H; cbn [s_take]; [reflexivity|].
  rewrite (P a) by lia. destruct (nth_error l a) as [x|] eqn:E; [|apply nth_error_None in E; lia].
  replace (Z.of_nat a + 1) with (Z.of_nat (S a)) by lia. rewrite IH by lia. rewrite (skipn_nth l a x E). reflexivity.
Qed.

Lemma s_slice_prefix s l a b : prefix_of s l -> 0 <= a -> b <= Z.of_nat (length l) ->
  s_slice s a b = Some (firstn (Z.to_nat b - Z.to_nat a) (skipn (Z.to_nat a) l)).
Proof.
  intros P Ha Hb. unfold s_slice. replace (Z.max a 0) with a by lia.
  replace (Z.to_nat (b - a)) with (Z.to_nat b - Z.to_nat a)%nat by lia.
  destruct (Z.to_nat b - Z.to_nat a)%nat as [|k] eqn:E; [reflexivity|].
  pose proof (s_take_prefix s l P (S k) (Z.to_nat a)) as T. rewrite Z2Nat.id in T by exact Ha. apply T. lia.
Qed.

Lemma s_at_prefix s l i : prefix_of s l -> 0 <= i < Z.of_nat (length l) -> exists x, s_at s i = Some x /\ nth_error l (Z.to_nat i) = Some x.
Proof.
  intros P Hi. unfold s_at. replace (i <? 0) with false by lia.
  pose proof (P (Z.to_nat i) ltac:(lia)) as T. rewrite Z2Nat.id in T by lia. rewrite T.
  destruct (nth_error l (Z.to_nat i)) as [x|] eqn:E; [exists x; split; reflexivity | apply nth_error_None in E; lia].
Qed.

(** mass of the distribution (mode, R, L, pN) stands for: a predicate that selects the positions [aR, bR) of R and [aL, bL) of L *)
Lemma mass_dist_split0 (mode : Z) (pN : Q) (R L : list Q) f (aR bR aL bL : nat) :
  (forall i, (i < length R)%nat -> f (mode + 2 * Z.of_nat i) = ((aR <=? i)%nat && (i <? bR)%nat)) ->
  (forall j, (1 <= j < length L)%nat -> f (mode - 2 * Z.of_nat j) = ((aL <=? j)%nat && (j <? bL)%nat)) -> (1 <= aL)%nat ->
  (mass (lh_norm mode R L pN) f == (qsum (firstn (bR - aR) (skipn aR R)) + qsum (firstn (bL - aL) (skipn aL L))) / pN)%Q.
Proof.
  intros H1 H2 Ha. unfold lh_norm, lh_support. rewrite mass_norm, mass_app.
  rewrite (mass_index_from f 2 R mode aR bR) by exact H1.
  rewrite (mass_index_from f (-2) (tl L) (mode - 2) (aL - 1) (bL - 1)).
  - rewrite skipn_tl. replace (S (aL - 1)) with aL by lia. replace (bL - 1 - (aL - 1))%nat with (bL - aL)%nat by lia. reflexivity.
  - intros i Hi. assert (Hl : (S i < length L)%nat) by (destruct L; cbn [tl length] in *; lia).
    replace (mode - 2 + -2 * Z.of_nat i) with (mode - 2 * Z.of_nat (S i)) by lia. rewrite H2 by lia. lia.
Qed.

(* ---------------------------------------------------------------- the class methods *)
Section LH.
  Variables (nA mode : Z) (pRU pLU : stream) (pN : Q) (R L : list Q).
  Hypothesis Hmode : 0 <= mode <= nA.
  Hypothesis Hpar : (nA - mode) mod 2 = 0.
  Hypothesis HnA : nA < 2 ^ 30.
  Hypothesis HR : prefix_of pRU R.
  Hypothesis HL : prefix_of pLU L.
  Hypothesis HlenR : Z.of_nat (length R) = (nA - mode) / 2 + 1.
  Hypothesis HlenL : Z.of_nat (length L) = mode / 2 + 1.
  Hypothesis HpN : ~ (pN == 0)%Q.

  Definition mass_dist_split := mass_dist_split0 mode pN R L.

  Lemma i_rem2 x : 0 <= x -> i_rem x 2 = Some (x mod 2).
  Proof. intros H. unfold i_rem. change (2 =? 0) with false. cbv iota. rewrite Z.rem_mod_nonneg by lia. reflexivity. Qed.

  Lemma i_div2 x : - 2 ^ 31 <= x < 2 ^ 31 -> i_div x 2 = Some (Z.quot x 2).
  Proof.
    intros H. unfold i_div. change (2 =? 0) with false. cbv iota. rewrite wrap32_small; [reflexivity|].
    change (2 ^ 31) with 2147483648 in *. lia.
  Qed.

  Ltac i32 := unfold i_add, i_sub, i_neg;
    repeat match goal with |- context [wrap32 ?x] => rewrite (wrap32_small x) by (change (2 ^ 31) with 2147483648; lia) end.

  (** cumulativeProbability(n0, n1) = P(n0 < X <= n1); [f] is any predicate that is "n0 < y <= n1" on 0..nA *)
  Lemma cdf2_gen n0 n1 f : -1 <= n0 -> n1 <= nA -> - 2 ^ 31 <= n1 ->
    (forall y, 0 <= y <= nA -> f y = (n0 <? y) && (y <=? n1)) ->
    exists v, LH_cdf2 nA mode pRU pLU pN n0 n1 = Some v /\ (v == mass (lh_norm mode R L pN) f)%Q.
  Proof.
    intros H0 H1 H1' Hg. change (2 ^ 30) with 1073741824 in HnA. change (2 ^ 31) with 2147483648 in H1'.
    assert (Zero : forall v : Q, (v == 0)%Q -> (n0 >= n1 \/ n0 >= nA \/ n1 < nA mod 2) -> (v == mass (lh_norm mode R L pN) f)%Q).
    { intros v Ev Hz. rewrite (mass_dist_split f 0 0 1 1); [cbn [Nat.sub firstn qsum]; rewrite Ev; field; exact HpN | | | lia].
      - intros i Hi. rewrite Hg by lia. lia.
      - intros j Hj. rewrite Hg by lia. lia. }
    unfold LH_cdf2. msimp. rewrite (i_rem2 nA) by lia. msimp.
    destruct (n0 >=? n1) eqn:E1; cbv iota; [eexists; split; [reflexivity | apply Zero; [reflexivity | lia]]|].
    destruct (n0 >=? nA) eqn:E2; cbv iota; [eexists; split; [reflexivity | apply Zero; [reflexivity | lia]]|].
    destruct (n1 <? nA mod 2) eqn:E3; cbv iota; [eexists; split; [reflexivity | apply Zero; [reflexivity | lia]]|].
    destruct (n0 >=? mode) eqn:E4; cbv iota; [|destruct (n1 <? mode) eqn:E5; cbv iota].
    - (* the interval lies to the right of the mode: pRU[(n0-mode)/2+1 .. (n1-mode)/2] *)
      i32. rewrite (i_div2 (n0 - mode)), (i_div2 (n1 - mode)) by (change (2 ^ 31) with 2147483648; lia). msimp. i32.
      destruct (s_at_prefix pRU R (Z.quot (n0 - mode) 2 + 1) HR ltac:(lia)) as (x & Ex & _). rewrite Ex. msimp.
      rewrite (s_slice_prefix pRU R _ _ HR) by lia. msimp. unfold l_cut. rewrite q_div_ok by exact HpN.
      eexists; split; [reflexivity|].
      rewrite (mass_dist_split f (Z.to_nat (Z.quot (n0 - mode) 2 + 1)) (Z.to_nat (Z.quot (n1 - mode) 2 + 1)) 1 1);
        [cbn [Nat.sub firstn qsum]; field; exact HpN | | | lia].
      + intros i Hi. rewrite Hg by lia. lia.
      + intros j Hj. rewrite Hg by lia. lia.
    - (* the interval lies to the left of the mode: pLU[(mode-n1+1)/2 .. (mode-n0+1)/2 - 1] *)
      i32. rewrite (i_div2 (mode - n1 + 1)), (i_div2 (mode - n0 + 1)) by (change (2 ^ 31) with 2147483648; lia). msimp.
      destruct (s_at_prefix pLU L (Z.quot (mode - n1 + 1) 2) HL ltac:(lia)) as (x & Ex & _). rewrite Ex. msimp.
      rewrite (s_slice_prefix pLU L _ _ HL) by lia. msimp. unfold l_cut. rewrite q_div_ok by exact HpN.
      eexists; split; [reflexivity|].
      rewrite (mass_dist_split f 0 0 (Z.to_nat (Z.quot (mode - n1 + 1) 2)) (Z.to_nat (Z.quot (mode - n0 + 1) 2)));
        [cbn [Nat.sub firstn qsum]; field; exact HpN | | | lia].
      + intros i Hi. rewrite Hg by lia. lia.
      + intros j Hj. rewrite Hg by lia. lia.
    - (* the interval straddles the mode: pLU[1 .. (mode-n0+1)/2 - 1] and pRU[0 .. (n1-mode)/2] *)
      i32. rewrite (i_div2 (mode - n0 + 1)), (i_div2 (n1 - mode)) by (change (2 ^ 31) with 2147483648; lia). msimp. i32.
      rewrite (s_slice_prefix pLU L _ _ HL) by lia. rewrite (s_slice_prefix pRU R _ _ HR) by lia. msimp.
      unfold l_cut, q_add. rewrite q_div_ok by exact HpN.
      eexists; split; [reflexivity|].
      rewrite (mass_dist_split f 0 (Z.to_nat (Z.quot (n1 - mode) 2 + 1)) 1 (Z.to_nat (Z.quot (mode - n0 + 1) 2)));
        [change (Z.to_nat 0) with 0%nat; change (Z.to_nat 1) with 1%nat; field; exact HpN | | | lia].
      + intros i Hi. rewrite Hg by lia. lia.
      + intros j Hj. rewrite Hg by lia. lia.
  Qed.

  Let dist := lh_norm mode R L pN.

  Lemma cdf2_ok n0 n1 : -1 <= n0 -> n1 <= nA -> - 2 ^ 31 <= n1 ->
    exists v, LH_cdf2 nA mode pRU pLU pN n0 n1 = Some v /\ (v == mass dist (fun y => (n0 <? y) && (y <=? n1)))%Q.
  Proof. intros H0 H1 H1'. apply cdf2_gen; try assumption. reflexivity. Qed.

  (** survivalFunction(n0) = P(X > n0) *)
  Lemma survival_ok n0 : -1 <= n0 ->
    exists v, LH_survival nA mode pRU pLU pN n0 = Some v /\ (v == mass dist (fun y => n0 <? y))%Q.
  Proof.
    intros H0. unfold LH_survival. msimp. change (2 ^ 30) with 1073741824 in HnA.
    apply cdf2_gen; [exact H0 | lia | change (2 ^ 31) with 2147483648; lia | intros y Hy; lia].
  Qed.

  (** cumulativeProbability(n1) = P(X <= n1) *)
  Lemma cdf1_ok n1 : n1 <= nA -> - 2 ^ 31 <= n1 ->
    exists v, LH_cdf1 nA mode pRU pLU pN n1 = Some v /\ (v == mass dist (fun y => y <=? n1))%Q.
  Proof.
    intros H1 H1'. unfold LH_cdf1. msimp. change (i_neg 1) with (-1).
    apply cdf2_gen; [lia | exact H1 | exact H1' | intros y Hy; lia].
  Qed.

  (** probability(x) = P(X = x), for every Int x *)
  Lemma prob_ok x : - 2 ^ 31 <= x < 2 ^ 31 ->
    exists v, LH_probability nA mode pRU pLU pN x = Some v /\ (v == mass dist (fun y => y =? x))%Q.
  Proof.
    intros Hx. change (2 ^ 30) with 1073741824 in HnA. change (2 ^ 31) with 2147483648 in Hx.
    set (f := fun y => y =? x).
    assert (Zero : forall v : Q, (v == 0)%Q -> (x < 0 \/ x > nA \/ x mod 2 <> nA mod 2) -> (v == mass dist f)%Q).
    { intros v Ev Hz. unfold dist. rewrite (mass_dist_split f 0 0 1 1); [cbn [Nat.sub firstn qsum]; rewrite Ev; field; exact HpN | | | lia].
      - intros i Hi. unfold f. lia.
      - intros j Hj. unfold f. lia. }
    unfold LH_probability. msimp.
    destruct (x <? 0) eqn:E1; cbv iota; [eexists; split; [reflexivity | apply Zero; [reflexivity | lia]]|].
    destruct (x >? nA) eqn:E2; cbv iota; [eexists; split; [reflexivity | apply Zero; [reflexivity | lia]]|].
    rewrite (i_rem2 x), (i_rem2 nA) by lia. msimp.
    destruct (neqb (x mod 2) (nA mod 2)) eqn:E3; cbv iota; [eexists; split; [reflexivity | apply Zero; [reflexivity | unfold neqb in E3; lia]]|].
    unfold neqb in E3.
    destruct (x >=? mode) eqn:E4; cbv iota.
    - i32. rewrite (i_div2 (x - mode)) by (change (2 ^ 31) with 2147483648; lia). msimp.
      destruct (s_at_prefix pRU R (Z.quot (x - mode) 2) HR ltac:(lia)) as (w & Ew & En). rewrite Ew. msimp.
      rewrite q_div_ok by exact HpN. eexists; split; [reflexivity|]. unfold dist.
      rewrite (mass_dist_split f (Z.to_nat (Z.quot (x - mode) 2)) (S (Z.to_nat (Z.quot (x - mode) 2))) 1 1);
        [ | | | lia].
      + rewrite (skipn_nth R _ w En). replace (S (Z.to_nat (Z.quot (x - mode) 2)) - Z.to_nat (Z.quot (x - mode) 2))%nat with 1%nat by lia.
        cbn [Nat.sub firstn]. rewrite qsum_cons. cbn [qsum]. field. exact HpN.
      + intros i Hi. unfold f. lia.
      + intros j Hj. unfold f. lia.
    - i32. rewrite (i_div2 (mode - x)) by (change (2 ^ 31) with 2147483648; lia). msimp.
      destruct (s_at_prefix pLU L (Z.quot (mode - x) 2) HL ltac:(lia)) as (w & Ew & En). rewrite Ew. msimp.
      rewrite q_div_ok by exact HpN. eexists; split; [reflexivity|]. unfold dist.
      rewrite (mass_dist_split f 0 0 (Z.to_nat (Z.quot (mode - x) 2)) (S (Z.to_nat (Z.quot (mode - x) 2))));
        [ | | | lia].
      + rewrite (skipn_nth L _ w En). replace (S (Z.to_nat (Z.quot (mode - x) 2)) - Z.to_nat (Z.quot (mode - x) 2))%nat with 1%nat by lia.
        cbn [Nat.sub firstn]. rewrite qsum_cons. cbn [qsum]. field. exact HpN.
      + intros i Hi. unfold f. lia.
      + intros j Hj. unfold f. lia.
  Qed.

  (** rightMidP(x) = P(X > x) + P(X = x) / 2   and   leftMidP(x) = P(X <= x) - P(X = x) / 2 *)
  Lemma rightMidP_ok x : -1 <= x < 2 ^ 31 ->
    exists v, LH_rightMidP nA mode pRU pLU pN x = Some v /\
              (v == mass dist (fun y => x <? y) + (1 # 2) * mass dist (fun y => y =? x))%Q.
  Proof.
    intros Hx. destruct (survival_ok x ltac:(lia)) as (s & Es & Hs). destruct (prob_ok x ltac:(lia)) as (p & Ep & Hp).
    unfold LH_rightMidP. msimp. rewrite Es, Ep. msimp. eexists; split; [reflexivity|]. unfold q_add, q_mul. rewrite Hs, Hp. reflexivity.
  Qed.

  Lemma leftMidP_ok x : - 2 ^ 31 <= x <= nA ->
    exists v, LH_leftMidP nA mode pRU pLU pN x = Some v /\
              (v == mass dist (fun y => y <=? x) - (1 # 2) * mass dist (fun y => y =? x))%Q.
  Proof.
    intros Hx. change (2 ^ 30) with 1073741824 in HnA.
    destruct (cdf1_ok x ltac:(lia) ltac:(lia)) as (c & Ec & Hc).
    destruct (prob_ok x ltac:(change (2 ^ 31) with 2147483648 in *; lia)) as (p & Ep & Hp).
    unfold LH_leftMidP. msimp. rewrite Ec, Ep. msimp. eexists; split; [reflexivity|]. unfold q_sub, q_mul. rewrite Hc, Hp. reflexivity.
  Qed.
End LH.

(* ---------------------------------------------------------------- normalisation: the mid-p values are probabilities *)
Lemma index_from_Forall (P : Q -> Prop) : forall l s st, Forall P l -> Forall (fun vp => P (snd vp)) (index_from s st l).
Proof. induction l as [|w l IH]; intros s st H; cbn [index_from]; [constructor|]. inversion H; subst. constructor; [assumption | apply IH; assumption]. Qed.

Lemma total_mass l : (total l == mass l (fun _ => true))%Q.
Proof.
  induction l as [|[k w] l IH]; [reflexivity|]. rewrite mass_cons, <- IH. unfold total. cbn [map snd]. apply qsum_cons.
Qed.

Lemma massp_mono dist (f g : Z * Q -> bool) : Forall (fun vp => 0 <= snd vp)%Q dist ->
  (forall vp, f vp = true -> g vp = true) -> (massp dist f <= massp dist g)%Q.
Proof.
  intros Hn Hi. unfold massp. induction dist as [|[k w] l IH]; cbn [filter map]; [apply Qle_refl|].
  inversion Hn as [|? ? Hw Hl]; subst. cbn [snd] in Hw. specialize (IH Hl). specialize (Hi (k, w)).
  destruct (f (k, w)) eqn:Ef.
  - rewrite (Hi eq_refl). cbn [map snd]. rewrite !qsum_cons. apply Qplus_le_compat; [apply Qle_refl | exact IH].
  - destruct (g (k, w)); cbn [map snd]; [|exact IH]. rewrite qsum_cons. rewrite <- (Qplus_0_l (qsum _)) at 1.
    apply Qplus_le_compat; [exact Hw | exact IH].
Qed.

Section LHUnit.
  Variables (nA mode : Z) (pRU pLU : stream) (pN : Q) (R' L' : list Q).
  Let R := 1%Q :: R'.
  Let L := 1%Q :: L'.
  Hypothesis Hmode : 0 <= mode <= nA.
  Hypothesis Hpar : (nA - mode) mod 2 = 0.
  Hypothesis HnA : nA < 2 ^ 30.
  Hypothesis HR : prefix_of pRU R.
  Hypothesis HL : prefix_of pLU L.
  Hypothesis HlenR : Z.of_nat (length R) = (nA - mode) / 2 + 1.
  Hypothesis HlenL : Z.of_nat (length L) = mode / 2 + 1.
  Hypothesis HRn : Forall (fun w => 0 <= w)%Q R'.
  Hypothesis HLn : Forall (fun w => 0 <= w)%Q L'.
  Hypothesis HpNdef : (pN == qsum R + qsum L - 1)%Q.

  Let dist := lh_norm mode R L pN.

  Lemma pN_pos : (0 < pN)%Q.
  Proof. rewrite HpNdef. exact (proj1 (normalised_sums_to_one R' L' HRn HLn)). Qed.

  Lemma pN_nz : ~ (pN == 0)%Q.
  Proof. intros E. pose proof pN_pos as P. rewrite E in P. exact (Qlt_irrefl 0 P). Qed.

  Lemma dist_nonneg : Forall (fun vp => 0 <= snd vp)%Q dist.
  Proof.
    unfold dist, lh_norm. apply Forall_map. cbn [snd].
    assert (H : Forall (fun vp => 0 <= snd vp)%Q (lh_support mode R L)).
    { unfold lh_support. apply Forall_app. split; apply index_from_Forall with (P := fun w => (0 <= w)%Q).
      - constructor; [discriminate | exact HRn].
      - exact HLn. }
    eapply Forall_impl; [|exact H]. intros [k w] Hw. cbn [snd] in *. rewrite Qred_correct.
    apply Qle_shift_div_l; [exact pN_pos|]. rewrite Qmult_0_l. exact Hw.
  Qed.

  Lemma dist_total : (total dist == 1)%Q.
  Proof.
    rewrite total_mass. unfold dist.
    rewrite (mass_dist_split0 mode pN R L (fun _ => true) 0 (length R) 1 (length L)); [ | intros; lia | intros; lia | lia].
    replace (length R - 0)%nat with (length R) by lia. change (skipn 0 R) with R. rewrite firstn_all.
    change (skipn 1 L) with L'. replace (length L - 1)%nat with (length L') by (unfold L; cbn [length]; lia). rewrite firstn_all.
    rewrite HpNdef. unfold L. rewrite (qsum_cons 1 L'). field.
    intros E. apply pN_nz. rewrite HpNdef. unfold L. rewrite (qsum_cons 1 L'). rewrite <- E. ring.
  Qed.

  Lemma LH_rightMidP_unit x : -1 <= x < 2 ^ 31 ->
    exists v, LH_rightMidP nA mode pRU pLU pN x = Some v /\ (0 <= v <= 1)%Q.
  Proof.
    intros Hx. destruct (rightMidP_ok nA mode pRU pLU pN R L Hmode Hpar HnA HR HL HlenR HlenL pN_nz x Hx) as (v & Ev & Hv).
    exists v. split; [exact Ev|]. fold dist in Hv. rewrite Hv.
    set (S := mass dist (fun y => (x <? y))). set (P := mass dist (fun y => (y =? x))).
    assert (HS : (0 <= S)%Q) by (apply massp_nonneg; exact dist_nonneg).
    assert (HP : (0 <= P)%Q) by (apply massp_nonneg; exact dist_nonneg).
    assert (HSP : (S + P <= 1)%Q).
    { rewrite <- dist_total. apply massp_disjoint_le; [exact dist_nonneg|]. intros [y w]. cbn [fst]. lia. }
    split.
    - rewrite <- (Qplus_0_r 0). apply Qplus_le_compat; [exact HS|]. apply Qmult_le_0_compat; [discriminate | exact HP].
    - apply Qle_trans with (S + P)%Q; [|exact HSP]. apply Qplus_le_compat; [apply Qle_refl|].
      rewrite <- (Qmult_1_l P) at 2. apply Qmult_le_compat_r; [discriminate | exact HP].
  Qed.

  Lemma LH_leftMidP_unit x : - 2 ^ 31 <= x <= nA ->
    exists v, LH_leftMidP nA mode pRU pLU pN x = Some v /\ (0 <= v <= 1)%Q.
  Proof.
    intros Hx. destruct (leftMidP_ok nA mode pRU pLU pN R L Hmode Hpar HnA HR HL HlenR HlenL pN_nz x Hx) as (v & Ev & Hv).
    exists v. split; [exact Ev|]. fold dist in Hv. rewrite Hv.
    set (C := mass dist (fun y => (y <=? x))). set (P := mass dist (fun y => (y =? x))).
    assert (HP : (0 <= P)%Q) by (apply massp_nonneg; exact dist_nonneg).
    assert (HC1 : (C <= 1)%Q) by (rewrite <- dist_total; apply massp_le_total; exact dist_nonneg).
    assert (HPC : (P <= C)%Q) by (apply massp_mono; [exact dist_nonneg | intros [y w]; cbn [fst]; lia]).
    split.
    - apply Qle_trans with (P - (1 # 2) * P)%Q.
      + setoid_replace (P - (1 # 2) * P)%Q with ((1 # 2) * P)%Q by ring. apply Qmult_le_0_compat; [discriminate | exact HP].
      + unfold Qminus. apply Qplus_le_compat; [exact HPC | apply Qle_refl].
    - apply Qle_trans with C; [|exact HC1]. unfold Qminus.
      rewrite <- (Qplus_0_r C) at 2. apply Qplus_le_compat; [apply Qle_refl|].
      apply (Qopp_le_compat 0). apply Qmult_le_0_compat; [discriminate | exact HP].
  Qed.

  Lemma LH_exact_midp_unit x : (0 <= exact_midp dist x <= 1)%Q.
  Proof. apply exact_midp_unit; [exact dist_nonneg | exact dist_total]. Qed.
End LHUnit.

(** the computable class invariant [lh_state_wf] gives exactly the hypotheses used above *)
Lemma q_is_one_eq q : q_is_one q = true -> q = 1%Q.
Proof.
  destruct q as [a b]. unfold q_is_one. cbn [Qnum Qden]. intros H. apply andb_prop in H as [H1 H2].
  apply Z.eqb_eq in H1. apply Pos.eqb_eq in H2. subst. reflexivity.
Qed.

Lemma forallb_nonneg l : forallb (Qle_bool 0) l = true -> Forall (fun w => 0 <= w)%Q l.
Proof. intros H. apply Forall_forall. intros w Hw. apply Qle_bool_iff. exact (proj1 (forallb_forall _ _) H w Hw). Qed.

Lemma lh_methods_ok (nA mode : Z) (pRU pLU : stream) (pN : Q) (R L : list Q) :
  nA < 2 ^ 30 -> lh_state_wf nA (mode, R, L, pN) = true -> prefix_of pRU R -> prefix_of pLU L ->
  let dist := lh_norm mode R L pN in
  (Forall (fun vp => 0 <= snd vp)%Q dist /\ (total dist == 1)%Q) /\
  (forall n0 n1, -1 <= n0 -> n1 <= nA -> - 2 ^ 31 <= n1 ->
     exists v, LH_cdf2 nA mode pRU pLU pN n0 n1 = Some v /\ (v == mass dist (fun y => (n0 <? y) && (y <=? n1)))%Q) /\
  (forall x, - 2 ^ 31 <= x < 2 ^ 31 ->
     exists v, LH_probability nA mode pRU pLU pN x = Some v /\ (v == mass dist (fun y => y =? x))%Q) /\
  (forall n0, -1 <= n0 -> exists v, LH_survival nA mode pRU pLU pN n0 = Some v /\ (v == mass dist (fun y => n0 <? y))%Q) /\
  (forall n1, - 2 ^ 31 <= n1 <= nA -> exists v, LH_cdf1 nA mode pRU pLU pN n1 = Some v /\ (v == mass dist (fun y => y <=? n1))%Q) /\
  (forall x, -1 <= x < 2 ^ 31 ->
     exists v, LH_rightMidP nA mode pRU pLU pN x = Some v /\
               (v == mass dist (fun y => x <? y) + (1 # 2) * mass dist (fun y => y =? x))%Q /\ (0 <= v <= 1)%Q) /\
  (forall x, - 2 ^ 31 <= x <= nA ->
     exists v, LH_leftMidP nA mode pRU pLU pN x = Some v /\
               (v == mass dist (fun y => y <=? x) - (1 # 2) * mass dist (fun y => y =? x))%Q /\ (0 <= v <= 1)%Q) /\
  (forall x, 0 <= exact_midp dist x <= 1)%Q.
Proof.
  intros HnA Hwf HR HL dist. unfold lh_state_wf in Hwf.
  destruct R as [|r0 R']; [repeat (apply andb_prop in Hwf as [Hwf ?]); discriminate|].
  destruct L as [|l0 L']; [repeat (apply andb_prop in Hwf as [Hwf ?]); discriminate|].
  apply andb_prop in Hwf as [Hwf W6]. apply andb_prop in Hwf as [Hwf W5]. apply andb_prop in Hwf as [Hwf W4].
  apply andb_prop in Hwf as [Hwf W3]. apply andb_prop in Hwf as [W1 W2].
  apply andb_prop in W6 as [W6 W11]. apply andb_prop in W6 as [W6 W10]. apply andb_prop in W6 as [W6 W9].
  apply andb_prop in W6 as [W7 W8].
  apply q_is_one_eq in W7, W8. subst r0 l0. apply forallb_nonneg in W9, W10. apply Qeq_bool_iff in W11.
  assert (Hmode : 0 <= mode <= nA) by lia. assert (Hpar : (nA - mode) mod 2 = 0) by lia.
  assert (HlenR : Z.of_nat (length (1%Q :: R')) = (nA - mode) / 2 + 1) by lia.
  assert (HlenL : Z.of_nat (length (1%Q :: L')) = mode / 2 + 1) by lia.
  pose proof (pN_nz pN R' L' W9 W10 W11) as Nz.
  split; [split; [eapply dist_nonneg; eassumption | eapply dist_total; eassumption]|].
  split; [intros n0 n1; apply cdf2_ok; assumption|].
  split; [intros x; apply prob_ok; assumption|].
  split; [intros n0; apply survival_ok; assumption|].
  split; [intros n1 [Ha Hb]; apply cdf1_ok; assumption|].
  split.
  { intros x Hx. destruct (rightMidP_ok nA mode pRU pLU pN _ _ Hmode Hpar HnA HR HL HlenR HlenL Nz x Hx) as (v & Ev & Hv).
    destruct (LH_rightMidP_unit nA mode pRU pLU pN R' L' Hmode Hpar HnA HR HL HlenR HlenL W9 W10 W11 x Hx) as (v' & Ev' & Hv').
    exists v. rewrite Ev in Ev'. inversion Ev'; subst v'. repeat split; try assumption; apply Hv'. }
  split.
  { intros x Hx. destruct (leftMidP_ok nA mode pRU pLU pN _ _ Hmode Hpar HnA HR HL HlenR HlenL Nz x Hx) as (v & Ev & Hv).
    destruct (LH_leftMidP_unit nA mode pRU pLU pN R' L' Hmode Hpar HnA HR HL HlenR HlenL W9 W10 W11 x Hx) as (v' & Ev' & Hv').
    exists v. rewrite Ev in Ev'. inversion Ev'; subst v'. repeat split; try assumption; apply Hv'. }
  intros x. eapply LH_exact_midp_unit; eassumption.
Qed.

(** hardyWeinbergTest returns rightMidP for the one-sided test and exactMidP otherwise *)
Lemma hwe_pvalue_ok (r e : Z -> option Q) one_sided x : hwe_pvalue r e one_sided x = if one_sided then r x else e x.
Proof. unfold hwe_pvalue. msimp. destruct one_sided; reflexivity. Qed.
