(** C37 — the GENERATED exact-arithmetic core (HailG.C37.Gen) equals the mathematical definitions.
    Part 1: argument handling, dispatch, Fisher support bounds, chi-squared statistic. *)
From HailV Require Import Common.Prelude CallPacking.Model CallPacking.Arith Stats.Model.
From Coq Require Import QArith Qround Qabs.
From HailG Require Import C37.Gen.
Open Scope Z_scope.

Ltac msimp := cbn [ret bind lift1 lift2 call1 call2 call3 call4].
Ltac decide_cond c := first [ replace c with true by lia | replace c with false by lia ].
Ltac bsolve :=
  repeat (match goal with
          | |- context [if ?c then _ else _] => decide_cond c
          end; cbv iota).
Ltac w32 := unfold i_add, i_sub, i_mul;
  repeat match goal with |- context [wrap32 ?x] => rewrite (wrap32_small x) by (change (2 ^ 31) with 2147483648; lia) end.

(* ---------------------------------------------------------------- hardyWeinbergTest: arguments *)
Lemma hwe_args_ok r h v os : 0 <= r -> 0 <= h -> 0 <= v -> r + h + v < 2 ^ 30 ->
  hwe_args r h v os = Some (r + h + v, h, h + 2 * Z.min r v) /\
  0 <= h + 2 * Z.min r v <= r + h + v /\
  (h + 2 * Z.min r v - h) mod 2 = 0 /\
  forall E (rng : E), lh_args E (r + h + v) (h + 2 * Z.min r v) rng
                      = Some (2 * (r + h + v) - (h + 2 * Z.min r v), (h + 2 * Z.min r v) mod 2).
Proof.
  intros Hr Hh Hv Hs. change (2 ^ 30) with 1073741824 in Hs.
  split; [|split; [lia | split; [lia|]]].
  - unfold hwe_args. msimp. bsolve. msimp. w32. reflexivity.
  - intros E rng. unfold lh_args. msimp. bsolve. msimp. w32. unfold i_rem. change (2 =? 0) with false. cbv iota. msimp.
    rewrite Z.rem_mod_nonneg by lia. reflexivity.
Qed.

Lemma hwe_args_negative r h v os : r < 0 \/ h < 0 \/ v < 0 -> hwe_args r h v os = None.
Proof.
  intros H. unfold hwe_args. msimp.
  destruct (r <? 0) eqn:E1; cbv iota; [reflexivity|].
  destruct (h <? 0) eqn:E2; cbv iota; [reflexivity|].
  destruct (v <? 0) eqn:E3; cbv iota; [reflexivity|]. lia.
Qed.

(* ---------------------------------------------------------------- contingencyTableTest: dispatch *)
Lemma dispatch_ok (Ext : Type) (chi fisher : Z -> Z -> Z -> Z -> option Ext) a b c d m :
  contingencyTableTest Ext chi fisher a b c d m =
  if m <? 0 then None
  else if (a >=? m) && (b >=? m) && (c >=? m) && (d >=? m) then chi a b c d else fisher a b c d.
Proof.
  unfold contingencyTableTest. msimp. destruct (m <? 0); cbv iota; [reflexivity|].
  destruct (a >=? m); cbv iota; cbn [andb]; [|reflexivity].
  destruct (b >=? m); cbv iota; cbn [andb]; [|reflexivity].
  destruct (c >=? m); cbv iota; cbn [andb]; [|reflexivity].
  destruct (d >=? m); reflexivity.
Qed.

(* ---------------------------------------------------------------- fisherExactTest: support *)
Lemma fisher_support_ok a b c d : 0 <= a -> 0 <= b -> 0 <= c -> 0 <= d -> a + b + c + d < 2 ^ 31 ->
  let N := a + b + c + d in let K := a + c in let s := a + b in
  let low := Z.max 0 (s - (b + d)) in let high := Z.min s K in
  let degenerate := negb ((N >? 0) && (s >? 0) && (s <? N) && (K >? 0) && (K <? N)) in
  fisher_support a b c d = Some (degenerate, N, K, s, low, high) /\
  low <= a <= high /\
  (forall k, low <= k <= high <-> (0 <= k /\ 0 <= s - k /\ 0 <= K - k /\ 0 <= N - s - K + k)).
Proof.
  intros Ha Hb Hc Hd Hs. change (2 ^ 31) with 2147483648 in Hs. cbv zeta.
  split; [|split; [lia | intros k; lia]].
  unfold fisher_support. msimp. w32. msimp.
  destruct (a + b + c + d >? 0); cbv iota; cbn [andb negb]; [|reflexivity].
  destruct (a + b >? 0); cbv iota; cbn [andb negb]; [|reflexivity].
  destruct (a + b <? a + b + c + d); cbv iota; cbn [andb negb]; [|reflexivity].
  destruct (a + c >? 0); cbv iota; cbn [andb negb]; [|reflexivity].
  destruct (a + c <? a + b + c + d); reflexivity.
Qed.

(* ---------------------------------------------------------------- chiSquaredTest: the statistic *)
Open Scope Q_scope.

Lemma q_div_ok x y : ~ y == 0 -> q_div x y = Some (x / y).
Proof. intros H. unfold q_div. destruct (Qeq_bool y 0) eqn:E; [apply Qeq_bool_eq in E; contradiction | reflexivity]. Qed.

Lemma q_div_zero x y : y == 0 -> q_div x y = None.
Proof. intros H. unfold q_div. rewrite (Qeq_eq_bool _ _ H). reflexivity. Qed.

Lemma inject_Z_pos z : (0 < z)%Z -> ~ inject_Z z == 0.
Proof. intros H E. unfold Qeq in E. cbn in E. lia. Qed.

Definition chisq_textbook (a b c d : Z) : Q :=
  let qa := inject_Z a in let qb := inject_Z b in let qc := inject_Z c in let qd := inject_Z d in
  (qa + qb + qc + qd) * ((qa * qd - qb * qc) * (qa * qd - qb * qc)) / ((qa + qb) * (qc + qd) * (qa + qc) * (qb + qd)).

Lemma chisq_ok a b c d : (0 <= a)%Z -> (0 <= b)%Z -> (0 <= c)%Z -> (0 <= d)%Z ->
  (0 < a + b)%Z -> (0 < c + d)%Z -> (0 < a + c)%Z -> (0 < b + d)%Z ->
  exists v, chisq_statistic a b c d = Some (v, inject_Z a * inject_Z d, inject_Z b * inject_Z c) /\
            v == chisq_textbook a b c d /\ 0 <= v.
Proof.
  intros Ha Hb Hc Hd H1 H2 H3 H4.
  assert (N1 : ~ (inject_Z a + inject_Z b) * (inject_Z c + inject_Z d) == 0).
  { rewrite <- !inject_Z_plus, <- inject_Z_mult. apply inject_Z_pos. nia. }
  assert (N2 : ~ (inject_Z b + inject_Z d) * (inject_Z a + inject_Z c) == 0).
  { rewrite <- !inject_Z_plus, <- inject_Z_mult. apply inject_Z_pos. nia. }
  unfold chisq_statistic. msimp. bsolve. msimp. unfold q_of_int, q_mul, q_add, q_sub.
  rewrite (q_div_ok _ _ N1). msimp. rewrite (q_div_ok _ _ N2). msimp.
  eexists. split; [reflexivity|]. split.
  - unfold chisq_textbook. cbv zeta.
    assert (M1 : ~ inject_Z a + inject_Z b == 0) by (intros E; apply N1; rewrite E; ring).
    assert (M2 : ~ inject_Z c + inject_Z d == 0) by (intros E; apply N1; rewrite E; ring).
    assert (M3 : ~ inject_Z b + inject_Z d == 0) by (intros E; apply N2; rewrite E; ring).
    assert (M4 : ~ inject_Z a + inject_Z c == 0) by (intros E; apply N2; rewrite E; ring).
    field. repeat split; assumption.
  - (* N * (det/x) * (det/y) = N * det^2 / (x*y) >= 0 *)
    set (det := inject_Z a * inject_Z d - inject_Z b * inject_Z c).
    set (x := (inject_Z a + inject_Z b) * (inject_Z c + inject_Z d)) in *.
    set (y := (inject_Z b + inject_Z d) * (inject_Z a + inject_Z c)) in *.
    assert (Hx : 0 < x).
    { unfold x. rewrite <- !inject_Z_plus, <- inject_Z_mult. change 0 with (inject_Z 0). rewrite <- Zlt_Qlt. nia. }
    assert (Hy : 0 < y).
    { unfold y. rewrite <- !inject_Z_plus, <- inject_Z_mult. change 0 with (inject_Z 0). rewrite <- Zlt_Qlt. nia. }
    assert (HN : 0 <= inject_Z a + inject_Z b + inject_Z c + inject_Z d).
    { rewrite <- !inject_Z_plus. change 0 with (inject_Z 0). rewrite <- Zle_Qle. lia. }
    assert (E : (inject_Z a + inject_Z b + inject_Z c + inject_Z d) * (det / x) * (det / y)
                == (inject_Z a + inject_Z b + inject_Z c + inject_Z d) * ((det * det) / (x * y))).
    { field. split; intros Z0; [rewrite Z0 in Hy | rewrite Z0 in Hx]; apply (Qlt_irrefl 0); assumption. }
    rewrite E. apply Qmult_le_0_compat; [exact HN|].
    apply Qle_shift_div_l; [apply Qmult_lt_0_compat; assumption|]. rewrite Qmult_0_l.
    destruct (Qlt_le_dec det 0) as [L | G].
    + setoid_replace (det * det) with ((- det) * (- det)) by ring.
      apply Qmult_le_0_compat; apply Qlt_le_weak; apply (Qopp_lt_compat det 0); exact L.
    + apply Qmult_le_0_compat; exact G.
Qed.

Lemma chisq_nonfinite a b c d : (0 <= a)%Z -> (0 <= b)%Z -> (0 <= c)%Z -> (0 <= d)%Z ->
  (a + b = 0 \/ c + d = 0)%Z -> chisq_statistic a b c d = None.
Proof.
  intros Ha Hb Hc Hd H0.
  unfold chisq_statistic. msimp. bsolve. msimp. unfold q_of_int, q_mul, q_add, q_sub.
  rewrite q_div_zero; [reflexivity|].
  rewrite <- !inject_Z_plus, <- inject_Z_mult. unfold Qeq. cbn. nia.
Qed.
