(** C37 — property theorems (PARTIAL: the exact-arithmetic core only).

    All functions named below without a module prefix are the definitions GENERATED from the current Scala sources
    (HailG.C37.Gen): Double is modelled by exact rationals, Int by 32-bit integers, an exception or a non-finite result is
    [None]. Not covered: floating-point rounding, the stream cut-offs (1e-16) and tolerances (1e-12), the commons-math
    distribution functions (pchisqtail, HypergeometricDistribution), uniroot; nothing of the engine is executed. *)
From HailV Require Import Common.Prelude CallPacking.Model Stats.Model Stats.Pipeline Stats.Lemmas Stats.LemmasLH Stats.LemmasCdf.
From Coq Require Import QArith.
From HailG Require Import C37.Gen.
Open Scope Z_scope.

(** hardyWeinbergTest: negative counts are rejected; for non-negative counts (total < 2^30) the derived numbers are
    n = sum, nAB = nHet, nA = nHet + 2 min(nHomRef, nHomVar), they satisfy LeveneHaldane's own precondition 0 <= nA <= n,
    nA and nAB have the same parity, and LeveneHaldane.apply derives nB = 2n - nA and the parity without overflow. *)
Theorem C37_hwe_arguments : forall r h v os,
  (r < 0 \/ h < 0 \/ v < 0 -> hwe_args r h v os = None) /\
  (0 <= r -> 0 <= h -> 0 <= v -> r + h + v < 2 ^ 30 ->
   hwe_args r h v os = Some (r + h + v, h, h + 2 * Z.min r v) /\
   0 <= h + 2 * Z.min r v <= r + h + v /\
   (h + 2 * Z.min r v - h) mod 2 = 0 /\
   forall E (rng : E), lh_args E (r + h + v) (h + 2 * Z.min r v) rng
                       = Some (2 * (r + h + v) - (h + 2 * Z.min r v), (h + 2 * Z.min r v) mod 2)).
Proof. intros r h v os. split; [apply hwe_args_negative | apply hwe_args_ok]. Qed.
Print Assumptions C37_hwe_arguments.

(** contingencyTableTest: a negative min_cell_count is rejected; otherwise the chi-squared test is used exactly when every
    cell reaches min_cell_count, Fisher's exact test otherwise (both kept opaque). *)
Theorem C37_dispatch : forall (Ext : Type) (chi fisher : Z -> Z -> Z -> Z -> option Ext) a b c d m,
  contingencyTableTest Ext chi fisher a b c d m =
  if m <? 0 then None
  else if (a >=? m) && (b >=? m) && (c >=? m) && (d >=? m) then chi a b c d else fisher a b c d.
Proof. exact dispatch_ok. Qed.
Print Assumptions C37_dispatch.

(** fisherExactTest: population, successes, sample size, the degenerate-table test (NaN result) and the support [low, high]
    of the hypergeometric variable; the observed cell lies in the support and the support is exactly the set of first cells
    for which a table with the same margins has no negative cell. (Total < 2^31: beyond that the Int sums wrap.) *)
Theorem C37_fisher_support : forall a b c d, 0 <= a -> 0 <= b -> 0 <= c -> 0 <= d -> a + b + c + d < 2 ^ 31 ->
  let N := a + b + c + d in let K := a + c in let s := a + b in
  let low := Z.max 0 (s - (b + d)) in let high := Z.min s K in
  let degenerate := negb ((N >? 0) && (s >? 0) && (s <? N) && (K >? 0) && (K <? N)) in
  fisher_support a b c d = Some (degenerate, N, K, s, low, high) /\
  low <= a <= high /\
  (forall k, low <= k <= high <-> (0 <= k /\ 0 <= s - k /\ 0 <= K - k /\ 0 <= N - s - K + k)).
Proof. exact fisher_support_ok. Qed.
Print Assumptions C37_fisher_support.

(** chiSquaredTest: for a table with positive margins the statistic is the textbook
    N (ad - bc)^2 / ((a+b)(c+d)(a+c)(b+d)) and is non-negative; with an empty row the exact value is not finite. *)
Theorem C37_chisq_formula : forall a b c d, 0 <= a -> 0 <= b -> 0 <= c -> 0 <= d ->
  (0 < a + b -> 0 < c + d -> 0 < a + c -> 0 < b + d ->
   exists v, chisq_statistic a b c d = Some (v, (inject_Z a * inject_Z d)%Q, (inject_Z b * inject_Z c)%Q) /\
             (v == chisq_textbook a b c d)%Q /\ (0 <= v)%Q) /\
  (a + b = 0 \/ c + d = 0 -> chisq_statistic a b c d = None).
Proof.
  intros a b c d Ha Hb Hc Hd. split; [intros; apply chisq_ok; assumption | intros; apply chisq_nonfinite; assumption].
Qed.
Print Assumptions C37_chisq_formula.

(** Levene-Haldane: each step of the right / left stream multiplies by the ratio of the Levene-Haldane probabilities
    P(nAB +- 2) / P(nAB), where P(nAB) is proportional to 2^nAB / (((nA-nAB)/2)! nAB! ((nB-nAB)/2)!); the right stream
    reaches 0 exactly past nAB = nA. Hence the streams are the unnormalised Levene-Haldane pmf relative to the mode. *)
Theorem C37_lh_ratio : forall n nA nB nAB p,
  (0 <= nAB -> nAB + 2 <= nA -> nAB + 2 <= nB -> nB < 2 ^ 31 -> nA < 2 ^ 31 ->
   (nA - nAB) mod 2 = 0 -> (nB - nAB) mod 2 = 0 ->
   exists v, pRU_next_val n nA nB nAB p = Some v /\ pRU_next_idx n nA nB nAB = Some (nAB + 2) /\
             (v == p * (lh_weight nA nB (nAB + 2) / lh_weight nA nB nAB))%Q) /\
  (2 <= nAB -> nAB <= nA -> nAB <= nB -> nB < 2 ^ 31 - 2 -> nA < 2 ^ 31 - 2 ->
   (nA - nAB) mod 2 = 0 -> (nB - nAB) mod 2 = 0 ->
   exists v, pLU_next_val n nA nB nAB p = Some v /\ pLU_next_idx n nA nB nAB = Some (nAB - 2) /\
             (v == p * (lh_weight nA nB (nAB - 2) / lh_weight nA nB nAB))%Q) /\
  (0 <= nA -> nA < 2 ^ 31 - 2 -> nB < 2 ^ 31 -> 0 <= nB ->
   exists v, pRU_next_val n nA nB nA p = Some v /\ (v == 0)%Q).
Proof.
  intros n nA nB nAB p. split; [apply lh_ratio_right | split; [apply lh_ratio_left | apply lh_right_end]].
Qed.
Print Assumptions C37_lh_ratio.

(** Mean of the distribution (het_freq_hwe = mean / n): nA nB / (2n - 1). *)
Theorem C37_lh_mean : forall n nA nB, 1 <= n -> 2 * n < 2 ^ 31 ->
  numericalMean n nA nB = Some (1 * inject_Z nA * inject_Z nB / inject_Z (2 * n - 1))%Q.
Proof. exact lh_mean. Qed.
Print Assumptions C37_lh_mean.

(** Normalisation as LeveneHaldane.apply performs it (exact sums, no cut-off): with non-negative stream tails R and L after
    the common head 1, pN = sum(1::R) + sum(1::L) - 1 is positive and the normalised masses sum to one. *)
Theorem C37_lh_sums_to_one : forall R L : list Q,
  Forall (fun w => 0 <= w)%Q R -> Forall (fun w => 0 <= w)%Q L ->
  let pN := (qsum (1 :: R) + qsum (1 :: L) - 1)%Q in
  (0 < pN)%Q /\ (qsum (map (fun w => w / pN) ((1 :: R) ++ L)) == 1)%Q.
Proof. exact normalised_sums_to_one. Qed.
Print Assumptions C37_lh_sums_to_one.

(** Mid-p values lie in [0, 1]: for EVERY finite distribution on 0..nA (non-negative masses summing to one), the generated
    rightMidP = survivalFunction + 0.5 probability and leftMidP = cumulativeProbability - 0.5 probability - with the opaque
    callees instantiated by the exact probabilities - and the hand-modelled exactMidP are between 0 and 1. *)
Theorem C37_midp_in_unit_interval : forall (dist : list (Z * Q)) (nA x : Z),
  Forall (fun vp => 0 <= snd vp)%Q dist -> (total dist == 1)%Q -> Forall (fun vp => 0 <= fst vp <= nA) dist ->
  (exists v, rightMidP (survivalFunction (ex_cdf2 dist) nA) (ex_prob dist) x = Some v /\ (0 <= v <= 1)%Q) /\
  (exists v, leftMidP (ex_prob dist) (cumulativeProbability1 (ex_cdf2 dist)) x = Some v /\ (0 <= v <= 1)%Q) /\
  (0 <= exact_midp dist x <= 1)%Q.
Proof.
  intros dist nA x Hn Ht Hs. split; [apply rightMidP_unit; assumption | split; [apply (leftMidP_unit dist Hn Ht nA Hs) | apply exact_midp_unit; assumption]].
Qed.
Print Assumptions C37_midp_in_unit_interval.

(** The class methods WITH their branch structure (all generated from LeveneHaldane.scala, callees not opaque): for every class
    instance (nA, mode, pRU, pLU, pN) that satisfies the class invariant [lh_state_wf] - mode in the support and of nA's parity,
    R / L the prefixes of pRU / pLU that reach the two ends of the support, both starting with the literal 1.0, non-negative, and
    pN = sum R + sum L - 1 - and with [dist] the distribution it stands for (outcome mode + 2i has mass R[i]/pN, outcome
    mode - 2i has mass L[i]/pN):
      dist is a probability distribution;
      cumulativeProbability(n0, n1) = P(n0 < X <= n1)            for every -1 <= n0 and n1 <= nA (either parity, all four branches);
      probability(x) = P(X = x)                                   for every Int x;
      survivalFunction(n0) = P(X > n0),  cumulativeProbability(n1) = P(X <= n1);
      rightMidP(x) = P(X > x) + P(X = x)/2 (the one-sided p-value) and leftMidP(x) = P(X <= x) - P(X = x)/2, both in [0, 1];
      the hand model of exactMidP is in [0, 1].
    Exact rational sums: the round-off cut-offs takeWhile(_ > ... 1e-16) are the identity in the model (cut-offs are IGNORED);
    Int arithmetic is 32-bit (nA < 2^30 keeps it from wrapping). *)
Theorem C37_lh_class_methods : forall (nA mode : Z) (pRU pLU : stream) (pN : Q) (R L : list Q),
  nA < 2 ^ 30 -> lh_state_wf nA (mode, R, L, pN) = true -> prefix_of pRU R -> prefix_of pLU L ->
  let dist := lh_norm mode R L pN in
  (Forall (fun vp => 0 <= snd vp)%Q dist /\ (total dist == 1)%Q) /\
  (forall n0 n1, -1 <= n0 -> n1 <= nA -> - 2 ^ 31 <= n1 ->
     exists v, LH_cdf2 nA mode pRU pLU pN n0 n1 = Some v /\ (v == mass dist (fun y => (n0 <? y) && (y <=? n1)))%Q) /\
  (forall x, - 2 ^ 31 <= x < 2 ^ 31 ->
     exists v, LH_probability nA mode pRU pLU pN x = Some v /\ (v == mass dist (fun y => y =? x))%Q) /\
  (forall n0, -1 <= n0 -> exists v, LH_survival nA mode pRU pLU pN n0 = Some v /\ (v == mass dist (fun y => n0 <? y))%Q) /\
  (forall n1, - 2 ^ 31 <= n1 <= nA -> exists v, LH_cdf1 nA mode pRU pLU pN n1 = Some v /\ (v == mass dist (fun y => y <=? n1))%Q) /\
  (forall x, -1 <= x < 2 ^ 31 ->
     exists v, LH_rightMidP nA mode pRU pLU pN x = Some v /\
               (v == mass dist (fun y => x <? y) + (1 # 2) * mass dist (fun y => y =? x))%Q /\ (0 <= v <= 1)%Q) /\
  (forall x, - 2 ^ 31 <= x <= nA ->
     exists v, LH_leftMidP nA mode pRU pLU pN x = Some v /\
               (v == mass dist (fun y => y <=? x) - (1 # 2) * mass dist (fun y => y =? x))%Q /\ (0 <= v <= 1)%Q) /\
  (forall x, 0 <= exact_midp dist x <= 1)%Q.
Proof. exact lh_methods_ok. Qed.
Print Assumptions C37_lh_class_methods.

(** ... and the evaluation used by the check (streams given by their prefixes) is an instance: [s_of_list l] has prefix [l]. *)
Theorem C37_lh_prefix_streams : forall l : list Q, prefix_of (s_of_list l) l.
Proof. exact prefix_of_list. Qed.
Print Assumptions C37_lh_prefix_streams.

(** hardyWeinbergTest returns LH.rightMidP(nHet) for the one-sided test and LH.exactMidP(nHet) otherwise. *)
Theorem C37_hwe_pvalue_dispatch : forall (right_midp exact_midp_f : Z -> option Q) one_sided x,
  hwe_pvalue right_midp exact_midp_f one_sided x = if one_sided then right_midp x else exact_midp_f x.
Proof. exact hwe_pvalue_ok. Qed.
Print Assumptions C37_hwe_pvalue_dispatch.

(** An instance satisfying the hypotheses: LeveneHaldane(3, 3) - mode 1, pRU = 1, 2/3, ..., pLU = 1, ..., pN = 5/3. *)
Example C37_lh_class_methods_satisfiable : lh_state_wf 3 (1, [1%Q; (2 # 3)%Q], [1%Q], (5 # 3)%Q) = true.
Proof. vm_compute. reflexivity. Qed.
