(** C37 — vocabulary for the exact-arithmetic core of the engine's statistical tests (definitions only).

    Scala [Double] expressions are modelled over the rationals [Q]: this is the EXACT counterpart of the floating
    point code (no rounding, no cut-offs, a division by zero - NaN/Infinity in floats - is [None]).
    Scala [Int] expressions use the 32-bit primitives of CallPacking.Model. *)
From HailV Require Import Common.Prelude CallPacking.Model.
From Coq Require Import QArith Qround.
Open Scope Z_scope.

Definition q_add (a b : Q) : Q := (a + b)%Q.
Definition q_sub (a b : Q) : Q := (a - b)%Q.
Definition q_mul (a b : Q) : Q := (a * b)%Q.
Definition q_neg (a : Q) : Q := (- a)%Q.
Definition q_div (a b : Q) : option Q := if Qeq_bool b 0 then None else Some (a / b)%Q.   (* x / 0.0 is not a finite number *)
Definition q_ltb (a b : Q) : bool := match (a ?= b)%Q with Lt => true | _ => false end.
Definition q_leb (a b : Q) : bool := match (a ?= b)%Q with Gt => false | _ => true end.
Definition q_eqb (a b : Q) : bool := Qeq_bool a b.
Definition q_of_int (a : Z) : Q := inject_Z a.
(** java.lang.Math.round(double): floor(x + 1/2) *)
Definition q_round (x : Q) : Z := Qfloor (x + (1 # 2))%Q.

(** LazyList defined by  p #:: f(next index, next value):  the first [k+1] elements *)
Fixpoint stream_prefix (next_idx : Z -> option Z) (next_val : Z -> Q -> option Q) (k : nat) (i : Z) (p : Q) : option (list Q) :=
  match k with
  | O => Some [p]
  | S k' =>
      match next_idx i, next_val i p with
      | Some i', Some p' =>
          match stream_prefix next_idx next_val k' i' p' with Some l => Some (p :: l) | None => None end
      | _, _ => None
      end
  end.

(** sum of a list (fractions are reduced after every addition so that evaluation stays fast; same value) *)
Fixpoint qsum (l : list Q) : Q := match l with [] => 0%Q | x :: r => Qred (x + qsum r)%Q end.

(** A LazyList[Double] seen through what the class LeveneHaldane does with it: FORCING element i (0-based) yields a value, or
    [None] when computing it throws / is not finite / is not available.  Only finitely many elements are ever forced. *)
Definition stream := Z -> option Q.
(** s(i): LazyList.apply - a negative index throws *)
Definition s_at (s : stream) (i : Z) : option Q := if i <? 0 then None else s i.
(** elements i, i+1, ..., i+k-1 *)
Fixpoint s_take (s : stream) (k : nat) (i : Z) : option (list Q) :=
  match k with
  | O => Some []
  | S k' => match s i, s_take s k' (i + 1) with Some x, Some l => Some (x :: l) | _, _ => None end
  end.
(** s.slice(from, until): the elements with index max(from, 0) <= i < until (empty when until <= from) *)
Definition s_slice (s : stream) (a b : Z) : option (list Q) := s_take s (Z.to_nat (b - Z.max a 0)) (Z.max a 0).
Definition s_tail (s : stream) : stream := fun i => if i <? 0 then None else s (i + 1).
(** l.takeWhile(_ > cutoff) for a ROUND-OFF cut-off (1e-16 relative): the exact model keeps every term - cut-offs are ignored *)
Definition l_cut (cutoff : Q) (l : list Q) : list Q := l.
(** the stream whose first elements are those of [l]; forcing anything beyond is [None] (used for evaluation: fails closed) *)
Definition s_of_list (l : list Q) : stream := fun i => if i <? 0 then None else nth_error l (Z.to_nat i).
