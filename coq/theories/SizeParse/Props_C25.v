(** C25 — property theorems only.  [C25.Gen] is regenerated on every run from hail/python/hailtop/batch_client/parse.py
    (pattern strings via CPython's own regex parser, the statements under `if match:` via the AST translator, the
    conv_factor dict) and from batch/batch/front_end/validate.py (which compiled object the server checks with).
    [parse_*] are relations  string -> result -> Prop  with result = Ret z | RetNone | Raises.
    [cpu_denotes s q] / [mem_denotes s q] (Model.v) say that the string s, read by the documented grammar
      [+] digits | [+] digits* '.' digits+   followed by the unit,
    denotes the rational q (millicores / bytes).  Strings are lists of arbitrary code points. *)
From Coq Require Import QArith Qround.
From HailV Require Import Common.Prelude Regex.Regex SizeParse.Model SizeParse.LemmasNum SizeParse.Lemmas.
From HailG Require C25.Gen.
Open Scope N_scope.

(** CPU strings parse to exactly the millicores they denote, rounded down (only matters below millicore precision). *)
Theorem C25_cpu_exact : forall (s : list N) (q : Q), cpu_denotes s q ->
  forall r, C25.Gen.parse_cpu_in_mcpu s r <-> r = Ret (Qfloor q).
Proof. intros s q H r. rewrite cpu_rel_iff_spec, (cpu_denotes_spec s q H). reflexivity. Qed.
Print Assumptions C25_cpu_exact.

(** Memory strings parse to exactly the bytes they denote, rounded up. *)
Theorem C25_memory_exact_ceil : forall (s : list N) (q : Q), mem_denotes s q ->
  forall r, C25.Gen.parse_memory_in_bytes s r <-> r = Ret (Qceiling q).
Proof. intros s q H r. rewrite memory_rel_iff_spec, (mem_denotes_spec s q H). reflexivity. Qed.
Print Assumptions C25_memory_exact_ceil.

(** Storage strings likewise. *)
Theorem C25_storage_exact_ceil : forall (s : list N) (q : Q), mem_denotes s q ->
  forall r, C25.Gen.parse_storage_in_bytes s r <-> r = Ret (Qceiling q).
Proof. intros s q H r. rewrite storage_rel_iff_spec, (mem_denotes_spec s q H). reflexivity. Qed.
Print Assumptions C25_storage_exact_ceil.

(** Every other string — any string that denotes nothing under the documented grammar — is answered with None;
    so the functions are total, single-valued and never raise (in particular no KeyError from conv_factor). *)
Theorem C25_others_none : forall s : list N,
  ((~ exists q, cpu_denotes s q) -> forall r, C25.Gen.parse_cpu_in_mcpu s r <-> r = RetNone) /\
  ((~ exists q, mem_denotes s q) -> forall r, (C25.Gen.parse_memory_in_bytes s r <-> r = RetNone) /\
                                              (C25.Gen.parse_storage_in_bytes s r <-> r = RetNone)).
Proof.
  intros s. split.
  - intros H r. apply cpu_spec_none in H. rewrite cpu_rel_iff_spec, H. reflexivity.
  - intros H r. apply mem_spec_none in H. rewrite memory_rel_iff_spec, storage_rel_iff_spec, H. split; reflexivity.
Qed.
Print Assumptions C25_others_none.

(** The generated relations are the graphs of the executable exact parsers (the ones run against the real code). *)
Theorem C25_executable_model : forall (s : list N) (r : pyres),
  (C25.Gen.parse_cpu_in_mcpu s r <-> r = res_of (cpu_spec s)) /\
  (C25.Gen.parse_memory_in_bytes s r <-> r = res_of (mem_spec s)) /\
  (C25.Gen.parse_storage_in_bytes s r <-> r = res_of (mem_spec s)).
Proof. intros s r. split; [apply cpu_rel_iff_spec | split; [apply memory_rel_iff_spec | apply storage_rel_iff_spec]]. Qed.
Print Assumptions C25_executable_model.

(** Client and server accept the same strings: the job validator (fullmatch with the regex object validate.py resolves
    to) accepts s exactly when the client-side parse function returns a number for s. *)
Theorem C25_client_server_same_language : forall s : list N,
  (py_accepts C25.Gen.server_mode C25.Gen.server_cpu_regex s <-> exists z, C25.Gen.parse_cpu_in_mcpu s (Ret z)) /\
  (py_accepts C25.Gen.server_mode C25.Gen.server_memory_regex s <-> exists z, C25.Gen.parse_memory_in_bytes s (Ret z)) /\
  (py_accepts C25.Gen.server_mode C25.Gen.server_storage_regex s <-> exists z, C25.Gen.parse_storage_in_bytes s (Ret z)).
Proof. intros s. split; [apply server_cpu_same | split; [apply server_memory_same | apply server_storage_same]]. Qed.
Print Assumptions C25_client_server_same_language.

(** The cut of each pattern into  [+]? (number) (unit)? ...  used for the capture semantics re-assembles to the full
    regex, and no factor hides a further group. *)
Theorem C25_factorisation_checked :
  (to_re C25.Gen.cpu_factors = C25.Gen.cpu_regex /\ forallb factor_plain C25.Gen.cpu_factors = true) /\
  (to_re C25.Gen.memory_factors = C25.Gen.memory_regex /\ forallb factor_plain C25.Gen.memory_factors = true) /\
  (to_re C25.Gen.storage_factors = C25.Gen.storage_regex /\ forallb factor_plain C25.Gen.storage_factors = true).
Proof. split; [apply cpu_factors_ok | split; [apply memory_factors_ok | apply storage_factors_ok]]. Qed.
Print Assumptions C25_factorisation_checked.
