(** C25 — generic facts: factor/capture semantics vs. the plain regex semantics, digit strings, the lexer of the exact
    parser, rational arithmetic.  Nothing here mentions the generated model. *)
From Coq Require Import QArith Qround.
From HailV Require Import Common.Prelude Regex.Regex Regex.RegexLemmas SizeParse.Model.
Open Scope N_scope.

(** * 1. [FM] (captures) and [M] (acceptance) agree *)

Lemma factor_sound f pre w1 post :
  match f with
  | FPlain r | FGroup _ r => M r pre w1 post
  | FOptGroup _ r => M r pre w1 post \/ w1 = []
  end -> M (factor_re f) pre w1 post.
Proof.
  destruct f as [r | n r | n r]; cbn [factor_re]; intros H.
  - exact H.
  - apply MGroup; exact H.
  - destruct H as [H | ->]; [apply MOptS, MGroup; exact H | apply MOpt0].
Qed.

Lemma FM_sound fs : forall pre w post caps, FM fs pre w post caps -> M (to_re fs) pre w post.
Proof.
  induction fs as [|f fs IH]; intros pre w post caps H.
  - destruct H as [-> _]. constructor.
  - destruct H as (w1 & w2 & -> & H).
    assert (Hf : M (factor_re f) pre w1 (w2 ++ post) /\ exists caps', FM fs (pre ++ w1) w2 post caps').
    { destruct f as [r | n r | n r].
      - destruct H as [H1 H2]. split; [exact H1 | eauto].
      - destruct H as (caps' & _ & H1 & H2). split; [apply MGroup; exact H1 | eauto].
      - destruct H as (caps' & H2 & [[_ H1] | [_ ->]]).
        + split; [apply MOptS, MGroup; exact H1 | eauto].
        + split; [apply MOpt0 | eauto]. }
    destruct Hf as [Hf (caps' & Hrest)].
    cbn [to_re]. destruct fs as [|f' fs'].
    + destruct Hrest as [-> _]. rewrite app_nil_r. cbn [app] in Hf. exact Hf.
    + apply MSeq; [exact Hf | apply (IH _ _ _ _ Hrest)].
Qed.

Lemma factor_complete f pre w1 post :
  M (factor_re f) pre w1 post ->
  match f with
  | FPlain r | FGroup _ r => M r pre w1 post
  | FOptGroup _ r => M r pre w1 post \/ w1 = []
  end.
Proof.
  destruct f as [r | n r | n r]; cbn [factor_re]; intros H.
  - exact H.
  - apply M_group_iff in H; exact H.
  - apply M_opt_iff in H. destruct H as [-> | H]; [right; reflexivity | left; apply M_group_iff in H; exact H].
Qed.

Lemma FM_cons f fs pre w1 w2 post caps' :
  M (factor_re f) pre w1 (w2 ++ post) -> FM fs (pre ++ w1) w2 post caps' ->
  exists caps, FM (f :: fs) pre (w1 ++ w2) post caps.
Proof.
  intros Hf Hrest. apply factor_complete in Hf. destruct f as [r | n r | n r].
  - exists caps', w1, w2. auto.
  - exists (Some w1 :: caps'), w1, w2. split; [reflexivity|]. exists caps'. auto.
  - destruct Hf as [Hf | ->].
    + exists (Some w1 :: caps'), w1, w2. split; [reflexivity|]. exists caps'. auto.
    + exists (None :: caps'), [], w2. split; [reflexivity|]. exists caps'. auto.
Qed.

Lemma FM_complete fs : forall pre w post, M (to_re fs) pre w post -> exists caps, FM fs pre w post caps.
Proof.
  induction fs as [|f fs IH]; intros pre w post H.
  - apply M_eps_iff in H. subst. exists []. split; reflexivity.
  - cbn [to_re] in H. destruct fs as [|f' fs'].
    + rewrite <- (app_nil_r w). apply (FM_cons f [] pre w [] post []).
      * cbn [app]. exact H.
      * split; reflexivity.
    + apply M_seq_iff in H. destruct H as (w1 & w2 & -> & H1 & H2).
      destruct (IH _ _ _ H2) as (caps' & Hrest). eapply FM_cons; eauto.
Qed.

Theorem FM_accepts fs s : py_accepts FullMatch (to_re fs) s <-> exists caps, FM fs [] s [] caps.
Proof.
  cbn [py_accepts]. split; [apply FM_complete | intros (caps & H); eapply FM_sound; exact H].
Qed.

(** * 2. digit strings *)

Definition digit_set : re := RSet false [(48, 57)].

Lemma digit_set_iff pre w post : M digit_set pre w post <-> exists c, w = [c] /\ is_digit c = true.
Proof.
  unfold digit_set. rewrite M_set_iff. unfold set_mem, in_ranges, is_digit; cbn [existsb fst snd].
  split; intros (c & -> & H); exists c; split; try reflexivity;
    rewrite xorb_false_l, orb_false_r in *; exact H.
Qed.

Lemma singletons_digits w :
  (exists ws, w = concat ws /\ Forall (fun x => exists c, x = [c] /\ is_digit c = true) ws) <-> all_digits w.
Proof.
  split.
  - intros (ws & -> & H). induction H as [|x ws (c & -> & Hc) _ IH]; cbn [concat app]; [constructor|].
    constructor; assumption.
  - induction 1 as [|c w Hc _ (ws & -> & Hws)].
    + exists []. split; [reflexivity | constructor].
    + exists ([c] :: ws). split; [reflexivity|]. constructor; [eauto | exact Hws].
Qed.

Lemma digits_star_iff pre w post : M (RStar digit_set) pre w post <-> all_digits w.
Proof.
  rewrite (M_star_concat digit_set _ digit_set_iff). apply singletons_digits.
Qed.

Lemma digits_plus_iff pre w post : M (RPlus digit_set) pre w post <-> all_digits w /\ w <> [].
Proof.
  rewrite (M_plus_concat digit_set _ digit_set_iff). split.
  - intros (w1 & ws & -> & (c & -> & Hc) & Hws). split; [|discriminate].
    constructor; [exact Hc|]. apply singletons_digits. eauto.
  - intros [Hw Hne]. destruct w as [|c w]; [congruence|]. inversion Hw as [|? ? Hc Hw']; subst.
    apply singletons_digits in Hw'. destruct Hw' as (ws & -> & Hws).
    exists [c], ws. repeat split; eauto.
Qed.

(** the number part  (?:[0-9]*[.])?[0-9]+  *)
Definition num_re : re :=
  RSeq (ROpt (RSeq (RStar digit_set) (RSet false [(46, 46)]))) (RPlus digit_set).

Definition numstr (i f : list N) : list N := match f with [] => i | _ => i ++ 46 :: f end.
Definition num_ok (i f : list N) : Prop := all_digits i /\ all_digits f /\ (f = [] -> i <> []).

Lemma dot_set_iff pre w post : M (RSet false [(46, 46)]) pre w post <-> w = [46].
Proof.
  rewrite M_set_iff. unfold set_mem, in_ranges; cbn [existsb fst snd]. split.
  - intros (c & -> & H). rewrite xorb_false_l, orb_false_r in H. f_equal. lia.
  - intros ->. exists 46. split; reflexivity.
Qed.

Lemma num_re_iff pre w post : M num_re pre w post <-> exists i f, num_ok i f /\ w = numstr i f.
Proof.
  unfold num_re. rewrite M_seq_iff. split.
  - intros (w1 & w2 & -> & H1 & H2). apply digits_plus_iff in H2. destruct H2 as [Hd Hne].
    apply M_opt_iff in H1. destruct H1 as [-> | H1].
    + exists w2, []. split; [split; [exact Hd | split; [constructor | intros _; exact Hne]] | reflexivity].
    + apply M_seq_iff in H1. destruct H1 as (i & d & -> & Hi & Hdot).
      apply digits_star_iff in Hi. apply dot_set_iff in Hdot. subst d.
      exists i, w2. split; [split; [exact Hi | split; [exact Hd | intros E; congruence]]|].
      unfold numstr. destruct w2; [congruence|]. rewrite <- app_assoc. reflexivity.
  - intros (i & f & (Hi & Hf & Hne) & ->). unfold numstr. destruct f as [|c f].
    + exists [], i. split; [reflexivity|]. split; [apply MOpt0|].
      apply digits_plus_iff. split; [exact Hi | apply Hne; reflexivity].
    + exists (i ++ [46]), (c :: f). split; [rewrite <- app_assoc; reflexivity|]. split.
      * apply MOptS, M_seq_iff. exists i, [46]. split; [reflexivity|]. split; [apply digits_star_iff; exact Hi | apply dot_set_iff; reflexivity].
      * apply digits_plus_iff. split; [exact Hf | discriminate].
Qed.

(** * 3. the lexer of the exact parser *)

Definition tail_ok (u : list N) : Prop := match u with [] => True | c :: _ => is_digit c = false /\ c <> 46 end.

Lemma span_digits_app d t :
  all_digits d -> match t with [] => True | c :: _ => is_digit c = false end -> span_digits (d ++ t) = (d, t).
Proof.
  intros Hd Ht. induction Hd as [|c d Hc _ IH]; cbn [app].
  - destruct t as [|c t]; [reflexivity|]. cbn [span_digits]. rewrite Ht. reflexivity.
  - cbn [span_digits]. rewrite Hc, IH. reflexivity.
Qed.

Lemma span_digits_inv s : forall d t, span_digits s = (d, t) ->
  s = d ++ t /\ all_digits d /\ match t with [] => True | c :: _ => is_digit c = false end.
Proof.
  induction s as [|c s IH]; intros d t H; cbn [span_digits] in H.
  - injection H as <- <-. repeat split; constructor.
  - destruct (is_digit c) eqn:Hc.
    + destruct (span_digits s) as [d' t'] eqn:E. injection H as <- <-.
      destruct (IH _ _ eq_refl) as (-> & Hd & Ht). repeat split; [constructor; assumption | exact Ht].
    + injection H as <- <-. repeat split; [constructor | exact Hc].
Qed.

Lemma lex_number_numstr i f u :
  num_ok i f -> tail_ok u -> lex_number (numstr i f ++ u) = Some (i, f, u).
Proof.
  intros (Hi & Hf & Hne) Hu. unfold lex_number, numstr. destruct f as [|c f].
  - rewrite (span_digits_app i u Hi) by (destruct u; [exact I | apply Hu]).
    specialize (Hne eq_refl). destruct u as [|x u].
    + destruct i; [congruence | reflexivity].
    + destruct Hu as [_ Hx]. destruct (N.eq_dec x 46) as [->|Hx']; [congruence|].
      destruct i; [congruence|]. destruct x as [|p]; [reflexivity|].
      repeat (destruct p as [p|p|]; try reflexivity). congruence.
  - rewrite <- app_assoc. change ((46 :: c :: f) ++ u) with (46 :: (c :: f) ++ u).
    rewrite (span_digits_app i (46 :: (c :: f) ++ u) Hi) by reflexivity.
    rewrite (span_digits_app (c :: f) u Hf) by (destruct u; [exact I | apply Hu]). reflexivity.
Qed.

Lemma lex_number_inv s i f u : lex_number s = Some (i, f, u) -> s = numstr i f ++ u /\ num_ok i f.
Proof.
  unfold lex_number. destruct (span_digits s) as [i0 r] eqn:E.
  apply span_digits_inv in E. destruct E as (-> & Hi0 & Hr).
  assert (Hnodot : match i0 with [] => None | _ :: _ => Some (i0, [], r) end = Some (i, f, u) ->
                   i0 ++ r = numstr i f ++ u /\ num_ok i f).
  { destruct i0 as [|c i0]; [discriminate|]. intros H. injection H as <- <- <-.
    split; [reflexivity|]. split; [exact Hi0 | split; [constructor | discriminate]]. }
  destruct r as [|x r']; [exact Hnodot|].
  destruct (N.eq_dec x 46) as [->|Hx].
  - destruct (span_digits r') as [f0 t] eqn:E'. apply span_digits_inv in E'. destruct E' as (-> & Hf0 & _).
    destruct f0 as [|c f0]; [exact Hnodot|].
    intros H. injection H as <- <- <-. unfold numstr. rewrite <- app_assoc. split; [reflexivity|].
    split; [exact Hi0 | split; [exact Hf0 | discriminate]].
  - assert (E : match x :: r' with
                | 46 :: r'0 => let (f0, t) := span_digits r'0 in match f0 with [] => match i0 with [] => None | _ :: _ => Some (i0, [], x :: r') end | _ :: _ => Some (i0, f0, t) end
                | _ => match i0 with [] => None | _ :: _ => Some (i0, [], x :: r') end
                end = match i0 with [] => None | _ :: _ => Some (i0, [], x :: r') end).
    { destruct x as [|p]; [reflexivity|]. repeat (destruct p as [p|p|]; try reflexivity). congruence. }
    rewrite E. exact Hnodot.
Qed.

Lemma numstr_head i f : num_ok i f -> match numstr i f with [] => False | c :: _ => c <> 43 end.
Proof.
  intros (Hi & Hf & Hne). unfold numstr. destruct f as [|d f].
  - specialize (Hne eq_refl). destruct i as [|c i]; [congruence|]. inversion Hi; subst. unfold is_digit in *. lia.
  - destruct i as [|c i]; cbn [app]; [lia|]. inversion Hi; subst. unfold is_digit in *. lia.
Qed.

Lemma strip_plus_numstr p i f u :
  opt_plus p -> num_ok i f -> strip_plus (p ++ numstr i f ++ u) = numstr i f ++ u.
Proof.
  intros [-> | ->] Hok; [|reflexivity]. cbn [app]. pose proof (numstr_head i f Hok) as H.
  destruct (numstr i f) as [|c t]; [contradiction|]. cbn [app strip_plus].
  destruct c as [|q]; [reflexivity|]. repeat (destruct q as [q|q|]; try reflexivity). congruence.
Qed.

Lemma strip_plus_inv s : exists p, opt_plus p /\ s = p ++ strip_plus s.
Proof.
  destruct s as [|c s]; [exists []; split; [left|]; reflexivity|].
  destruct (N.eq_dec c 43) as [->|H].
  - exists [43]. split; [right|]; reflexivity.
  - exists []. split; [left; reflexivity|]. cbn [app strip_plus].
    destruct c as [|q]; [reflexivity|]. repeat (destruct q as [q|q|]; try reflexivity). congruence.
Qed.

(** * 4. arithmetic *)

Lemma digit_val_nonneg c : is_digit c = true -> (0 <= digit_val c)%Z.
Proof. unfold is_digit, digit_val. lia. Qed.

Lemma digits_val_nonneg_from l : forall a, (0 <= a)%Z -> all_digits l ->
  (0 <= fold_left (fun a c => (10 * a + digit_val c)%Z) l a)%Z.
Proof.
  induction l as [|c l IH]; intros a Ha Hl; cbn [fold_left]; [exact Ha|].
  inversion Hl; subst. apply IH; [|assumption]. pose proof (digit_val_nonneg c H1). lia.
Qed.

Lemma digits_val_nonneg l : all_digits l -> (0 <= digits_val l)%Z.
Proof. apply digits_val_nonneg_from. lia. Qed.

Lemma num_value_nonneg i f : num_ok i f -> (0 <= num_value i f)%Q.
Proof.
  intros (Hi & Hf & _). unfold num_value, Qle. cbn [Qnum Qden].
  pose proof (digits_val_nonneg i Hi). pose proof (digits_val_nonneg f Hf). nia.
Qed.

Lemma split_dot_digits i : all_digits i -> forall t, split_dot (i ++ t) = (let (a, b) := split_dot t in (i ++ a, b)).
Proof.
  induction 1 as [|c i Hc _ IH]; intros t; cbn [app].
  - destruct (split_dot t); reflexivity.
  - cbn [split_dot]. assert (E : (c =? 46) = false) by (unfold is_digit in Hc; lia).
    rewrite E, IH. destruct (split_dot t); reflexivity.
Qed.

Lemma frac_of_numstr i f : num_ok i f -> frac_of_str (numstr i f) = num_value i f.
Proof.
  intros (Hi & Hf & _). unfold frac_of_str, numstr. destruct f as [|c f].
  - rewrite <- (app_nil_r i) at 1. rewrite (split_dot_digits i Hi []). cbn [split_dot]. rewrite app_nil_r. reflexivity.
  - rewrite (split_dot_digits i Hi (46 :: c :: f)). cbn [split_dot]. rewrite N.eqb_refl, app_nil_r. reflexivity.
Qed.

Lemma py_int_nonneg q : (0 <= q)%Q -> py_int_of_Q q = Qfloor q.
Proof. intros H. unfold py_int_of_Q. apply Qle_bool_iff in H. rewrite H. reflexivity. Qed.

Lemma numeral_numstr num v : numeral num v <-> exists i f, num_ok i f /\ num = numstr i f /\ v = (
  match f with [] => inject_Z (digits_val i) | _ => inject_Z (digits_val i) + (digits_val f # pow10 (length f)) end)%Q.
Proof.
  split.
  - intros [i Hne Hi | i f Hne Hi Hf].
    + exists i, []. repeat split; [exact Hi | constructor | intros _; exact Hne].
    + exists i, f. destruct f as [|c f]; [congruence|]. repeat split; [exact Hi | exact Hf | discriminate].
  - intros (i & f & (Hi & Hf & Hne) & -> & ->). destruct f as [|c f].
    + apply num_int; [apply Hne; reflexivity | exact Hi].
    + apply num_frac; [discriminate | exact Hi | exact Hf].
Qed.

Lemma numeral_value i f :
  (match f with [] => inject_Z (digits_val i) | _ => inject_Z (digits_val i) + (digits_val f # pow10 (length f)) end
   == num_value i f)%Q.
Proof.
  unfold num_value. destruct f as [|c f].
  - cbn [length pow10 digits_val fold_left]. unfold inject_Z, Qeq. cbn [Qnum Qden]. lia.
  - set (F := digits_val (c :: f)). set (p := pow10 (length (c :: f))).
    unfold inject_Z, Qplus, Qeq. cbn [Qnum Qden]. nia.
Qed.
