(** C25 — proofs about the GENERATED model (coq/generated/C25/Gen.v):
    the generated relation of each parse function is the graph of the exact executable parser, which in turn returns
    floor/ceil of the denoted rational for every string of the documented grammar and None for all other strings. *)
From Coq Require Import QArith Qround.
From HailV Require Import Common.Prelude Regex.Regex Regex.RegexLemmas SizeParse.Model SizeParse.LemmasNum.
From HailG Require C25.Gen.
Open Scope N_scope.

(** * 0. the translator's cut into factors re-assembles to the full regex (checked here, not trusted) *)
Lemma cpu_factors_ok : to_re C25.Gen.cpu_factors = C25.Gen.cpu_regex /\ forallb factor_plain C25.Gen.cpu_factors = true.
Proof. split; reflexivity. Qed.
Lemma memory_factors_ok : to_re C25.Gen.memory_factors = C25.Gen.memory_regex /\ forallb factor_plain C25.Gen.memory_factors = true.
Proof. split; reflexivity. Qed.
Lemma storage_factors_ok : to_re C25.Gen.storage_factors = C25.Gen.storage_regex /\ forallb factor_plain C25.Gen.storage_factors = true.
Proof. split; reflexivity. Qed.

(** * 1. small pieces *)
Lemma plus_opt_iff pre w post : M (ROpt (RSet false [(43, 43)])) pre w post <-> opt_plus w.
Proof.
  rewrite M_opt_iff, M_set_iff. unfold opt_plus, set_mem, in_ranges; cbn [existsb fst snd]. split.
  - intros [-> | (c & -> & H)]; [left; reflexivity | right]. rewrite xorb_false_l, orb_false_r in H. f_equal. lia.
  - intros [-> | ->]; [left; reflexivity | right]. exists 43. split; reflexivity.
Qed.

Lemma single_set_iff k pre w post : M (RSet false [(k, k)]) pre w post <-> w = [k].
Proof.
  rewrite M_set_iff. unfold set_mem, in_ranges; cbn [existsb fst snd]. split.
  - intros (c & -> & H). rewrite xorb_false_l, orb_false_r in H. f_equal. lia.
  - intros ->. exists k. split; [reflexivity|]. rewrite xorb_false_l, orb_false_r. lia.
Qed.

Lemma div_mul_1000 v : (v / inject_Z 1000 * inject_Z 1000 == v)%Q.
Proof. field. Qed.

Lemma opt_plus_tail p : opt_plus p -> forall t, p ++ t = match p with [] => t | _ => 43 :: t end.
Proof. intros [-> | ->] t; reflexivity. Qed.

(** * 2. CPU *)
Definition cpu_shape (s g1 : list N) (g2 : option (list N)) : Prop :=
  exists p i f, opt_plus p /\ num_ok i f /\ g1 = numstr i f /\
    ((g2 = None /\ s = p ++ g1) \/ (g2 = Some [109] /\ s = p ++ g1 ++ [109])).

Lemma cpu_FM_iff s caps :
  FM C25.Gen.cpu_factors [] s [] caps <-> exists g1 g2, caps = [Some g1; g2] /\ cpu_shape s g1 g2.
Proof.
  unfold C25.Gen.cpu_factors. cbn [FM]. split.
  - intros (p & t & -> & Hp & g1 & t2 & -> & caps1 & -> & Hnum & w3 & w4 & -> & caps2 & [-> ->] & Hopt).
    apply plus_opt_iff in Hp. apply (num_re_iff) in Hnum. destruct Hnum as (i & f & Hok & ->).
    destruct Hopt as [[-> Hm] | [-> ->]].
    + apply single_set_iff in Hm. subst w3. exists (numstr i f), (Some [109]). split; [reflexivity|].
      exists p, i, f. split; [exact Hp|]. split; [exact Hok|]. split; [reflexivity|]. right.
      split; [reflexivity|]. rewrite !app_nil_r. reflexivity.
    + exists (numstr i f), None. split; [reflexivity|].
      exists p, i, f. split; [exact Hp|]. split; [exact Hok|]. split; [reflexivity|]. left.
      split; [reflexivity|]. rewrite !app_nil_r. reflexivity.
  - intros (g1 & g2 & -> & p & i & f & Hp & Hok & -> & Hs).
    destruct Hs as [[-> ->] | [-> ->]].
    + exists p, (numstr i f). split; [reflexivity|]. split; [apply plus_opt_iff; exact Hp|].
      exists (numstr i f), []. split; [rewrite app_nil_r; reflexivity|]. exists [None]. split; [reflexivity|].
      split; [apply num_re_iff; eauto|].
      exists [], []. split; [reflexivity|]. exists []. split; [split; reflexivity|]. right. split; reflexivity.
    + exists p, (numstr i f ++ [109]). split; [reflexivity|]. split; [apply plus_opt_iff; exact Hp|].
      exists (numstr i f), [109]. split; [reflexivity|]. exists [Some [109]]. split; [reflexivity|].
      split; [apply num_re_iff; eauto|].
      exists [109], []. split; [reflexivity|]. exists []. split; [split; reflexivity|]. left.
      split; [reflexivity | apply single_set_iff; reflexivity].
Qed.

Lemma cpu_accepts_iff s : py_accepts FullMatch C25.Gen.cpu_regex s <-> exists g1 g2, cpu_shape s g1 g2.
Proof.
  rewrite <- (proj1 cpu_factors_ok), FM_accepts. split.
  - intros (caps & H). apply cpu_FM_iff in H. destruct H as (g1 & g2 & _ & H). eauto.
  - intros (g1 & g2 & H). exists [Some g1; g2]. apply cpu_FM_iff. eauto.
Qed.

Lemma cpu_shape_spec s g1 g2 :
  cpu_shape s g1 g2 -> exists z, cpu_spec s = Some z /\ C25.Gen.cpu_body g1 g2 = Ret z.
Proof.
  intros (p & i & f & Hp & Hok & -> & Hs). pose proof (num_value_nonneg i f Hok) as Hnn.
  unfold cpu_spec, C25.Gen.cpu_body. rewrite (frac_of_numstr i f Hok).
  destruct Hs as [[-> ->] | [-> ->]].
  - replace (p ++ numstr i f) with (p ++ numstr i f ++ []) by (rewrite app_nil_r; reflexivity).
    rewrite (strip_plus_numstr p i f [] Hp Hok).
    rewrite (lex_number_numstr i f [] Hok I). cbn [optstr_eqb].
    eexists. split; [reflexivity|]. rewrite py_int_nonneg; [reflexivity|].
    apply Qmult_le_0_compat; [exact Hnn | unfold Qle; cbn; lia].
  - rewrite (strip_plus_numstr p i f [109] Hp Hok).
    rewrite (lex_number_numstr i f [109] Hok) by (cbn; split; [reflexivity | lia]).
    change (optstr_eqb (Some [109]) [109%N]) with true. cbn iota.
    eexists. split; [reflexivity|]. f_equal.
    rewrite py_int_nonneg by (rewrite div_mul_1000; exact Hnn).
    apply Qfloor_comp, div_mul_1000.
Qed.

Lemma cpu_spec_shape s z : cpu_spec s = Some z -> exists g1 g2, cpu_shape s g1 g2.
Proof.
  unfold cpu_spec. destruct (lex_number (strip_plus s)) as [[[i f] rest]|] eqn:E; [|discriminate].
  apply lex_number_inv in E. destruct E as [Es Hok].
  destruct (strip_plus_inv s) as (p & Hp & Ep). rewrite Es in Ep.
  destruct rest as [|c rest].
  - intros _. exists (numstr i f), None, p, i, f. rewrite app_nil_r in Ep. auto 8.
  - destruct rest as [|d rest]; [|destruct c as [|q]; [discriminate|]; repeat (destruct q as [q|q|]; try discriminate)].
    destruct (N.eq_dec c 109) as [->|Hc].
    + intros _. exists (numstr i f), (Some [109]), p, i, f. auto 8.
    + destruct c as [|q]; [discriminate|]. repeat (destruct q as [q|q|]; try discriminate). congruence.
Qed.

Theorem cpu_rel_iff_spec s r : C25.Gen.parse_cpu_in_mcpu s r <-> r = res_of (cpu_spec s).
Proof.
  unfold C25.Gen.parse_cpu_in_mcpu, parse_rel. split.
  - intros [(g1 & g2 & HFM & ->) | [Hn ->]].
    + assert (Hsh : cpu_shape s g1 g2).
      { apply cpu_FM_iff in HFM. destruct HFM as (g1' & g2' & E & H). injection E as <- <-. exact H. }
      destruct (cpu_shape_spec s g1 g2 Hsh) as (z & -> & ->). reflexivity.
    + destruct (cpu_spec s) as [z|] eqn:E; [|reflexivity].
      exfalso. apply Hn, cpu_accepts_iff. eapply cpu_spec_shape; eauto.
  - intros ->. destruct (cpu_spec s) as [z|] eqn:E.
    + destruct (cpu_spec_shape s z E) as (g1 & g2 & Hsh). left. exists g1, g2.
      split; [apply cpu_FM_iff; eauto|].
      destruct (cpu_shape_spec s g1 g2 Hsh) as (z' & Hs & ->). rewrite E in Hs. injection Hs as ->. reflexivity.
    + right. split; [|reflexivity]. intros Hacc. apply cpu_accepts_iff in Hacc. destruct Hacc as (g1 & g2 & Hsh).
      destruct (cpu_shape_spec s g1 g2 Hsh) as (z & Hs & _). congruence.
Qed.

(** the exact parser vs. the documented meaning *)
Lemma cpu_denotes_spec s q : cpu_denotes s q -> cpu_spec s = Some (Qfloor q).
Proof.
  intros (p & num & v & u & -> & Hp & Hnum & Hu).
  apply numeral_numstr in Hnum. destruct Hnum as (i & f & Hok & -> & ->).
  pose proof (numeral_value i f) as Hv. unfold cpu_spec.
  rewrite (strip_plus_numstr p i f u Hp Hok).
  destruct Hu as [[-> Hq] | [-> Hq]].
  - rewrite (lex_number_numstr i f [] Hok I). f_equal. apply Qfloor_comp. rewrite Hq, Hv. reflexivity.
  - rewrite (lex_number_numstr i f [109] Hok) by (cbn; split; [reflexivity | lia]).
    f_equal. apply Qfloor_comp. rewrite Hq, Hv. reflexivity.
Qed.

Lemma cpu_spec_denotes s z : cpu_spec s = Some z -> exists q, cpu_denotes s q /\ z = Qfloor q.
Proof.
  unfold cpu_spec. destruct (lex_number (strip_plus s)) as [[[i f] rest]|] eqn:E; [|discriminate].
  apply lex_number_inv in E. destruct E as [Es Hok].
  destruct (strip_plus_inv s) as (p & Hp & Ep). rewrite Es in Ep.
  pose proof (numeral_value i f) as Hv.
  set (v := match f with [] => inject_Z (digits_val i) | _ => (inject_Z (digits_val i) + (digits_val f # pow10 (length f)))%Q end) in *.
  assert (Hnum : numeral (numstr i f) v) by (apply numeral_numstr; exists i, f; auto).
  destruct rest as [|c rest].
  - intros H. replace z with (Qfloor (num_value i f * inject_Z 1000)) by congruence. clear H.
    exists (v * inject_Z 1000)%Q. split.
    + exists p, (numstr i f), v, []. repeat split; auto. left. split; reflexivity.
    + apply Qfloor_comp. rewrite Hv. reflexivity.
  - destruct rest as [|d rest]; [|destruct c as [|q]; [discriminate|]; repeat (destruct q as [q|q|]; try discriminate)].
    destruct (N.eq_dec c 109) as [->|Hc].
    + intros H. replace z with (Qfloor (num_value i f)) by congruence. clear H. exists v. split.
      * exists p, (numstr i f), v, [109]. repeat split; auto. right. split; reflexivity.
      * apply Qfloor_comp. symmetry. exact Hv.
    + destruct c as [|q]; [discriminate|]. repeat (destruct q as [q|q|]; try discriminate). congruence.
Qed.

Lemma cpu_spec_none s : cpu_spec s = None <-> ~ exists q, cpu_denotes s q.
Proof.
  split.
  - intros H (q & Hq). apply cpu_denotes_spec in Hq. congruence.
  - intros H. destruct (cpu_spec s) as [z|] eqn:E; [|reflexivity].
    exfalso. apply H. destruct (cpu_spec_denotes s z E) as (q & Hq & _). eauto.
Qed.

(** * 3. memory / storage *)
Definition unit_letter (x : N) : Prop := x = 75 \/ x = 77 \/ x = 71 \/ x = 84 \/ x = 80.
Definition suffix_ok (u : list N) : Prop := exists x, unit_letter x /\ (u = [x] \/ u = [x; 105]).
Definition b_ok (b : list N) : Prop := b = [] \/ b = [66].

Definition suffix_re : re :=
  RSeq (RSet false [(75, 75); (77, 77); (71, 71); (84, 84); (80, 80)]) (ROpt (RSet false [(105, 105)])).

Lemma suffix_re_iff pre w post : M suffix_re pre w post <-> suffix_ok w.
Proof.
  unfold suffix_re, suffix_ok. rewrite M_seq_iff. split.
  - intros (w1 & w2 & -> & H1 & H2). apply M_set_iff in H1. destruct H1 as (x & -> & Hx).
    exists x. split.
    + unfold set_mem, in_ranges in Hx; cbn [existsb fst snd] in Hx. unfold unit_letter. lia.
    + apply M_opt_iff in H2. destruct H2 as [-> | H2]; [left; reflexivity | right].
      apply single_set_iff in H2. subst. reflexivity.
  - intros (x & Hx & Hw).
    assert (Hm : set_mem false [(75, 75); (77, 77); (71, 71); (84, 84); (80, 80)] x = true).
    { unfold set_mem, in_ranges; cbn [existsb fst snd]. unfold unit_letter in Hx. lia. }
    destruct Hw as [-> | ->].
    + exists [x], []. repeat split; [apply M_set_iff; eauto | apply MOpt0].
    + exists [x], [105]. repeat split; [apply M_set_iff; eauto | apply MOptS, single_set_iff; reflexivity].
Qed.

Lemma b_opt_iff pre w post : M (ROpt (RSet false [(66, 66)])) pre w post <-> b_ok w.
Proof.
  rewrite M_opt_iff, single_set_iff. reflexivity.
Qed.

Definition mem_shape (s g1 : list N) (g2 : option (list N)) : Prop :=
  exists p i f u b, opt_plus p /\ num_ok i f /\ g1 = numstr i f /\ b_ok b /\
    ((g2 = None /\ u = []) \/ (g2 = Some u /\ suffix_ok u)) /\ s = p ++ g1 ++ u ++ b.

Lemma mem_FM_iff s caps :
  FM C25.Gen.memory_factors [] s [] caps <-> exists g1 g2, caps = [Some g1; g2] /\ mem_shape s g1 g2.
Proof.
  unfold C25.Gen.memory_factors. cbn [FM]. split.
  - intros (p & t & -> & Hp & g1 & t2 & -> & caps1 & -> & Hnum & u & t3 & -> & caps2 & Hrest & Hopt).
    destruct Hrest as (b & t4 & -> & Hb & -> & ->).
    apply plus_opt_iff in Hp. apply num_re_iff in Hnum. destruct Hnum as (i & f & Hok & ->).
    apply b_opt_iff in Hb. rewrite !app_nil_r.
    destruct Hopt as [[-> Hu] | [-> ->]].
    + apply (suffix_re_iff) in Hu. exists (numstr i f), (Some u). split; [reflexivity|].
      exists p, i, f, u, b. split; [exact Hp|]. split; [exact Hok|]. split; [reflexivity|]. split; [exact Hb|].
      split; [right; split; [reflexivity | exact Hu] | reflexivity].
    + exists (numstr i f), None. split; [reflexivity|].
      exists p, i, f, [], b. split; [exact Hp|]. split; [exact Hok|]. split; [reflexivity|]. split; [exact Hb|].
      split; [left; split; reflexivity | reflexivity].
  - intros (g1 & g2 & -> & p & i & f & u & b & Hp & Hok & -> & Hb & Hu & ->).
    exists p, (numstr i f ++ u ++ b). split; [reflexivity|]. split; [apply plus_opt_iff; exact Hp|].
    exists (numstr i f), (u ++ b). split; [reflexivity|]. exists [g2]. split; [reflexivity|].
    split; [apply num_re_iff; eauto|].
    exists u, b. split; [reflexivity|]. exists []. split.
    + exists b, []. split; [rewrite app_nil_r; reflexivity|]. split; [apply b_opt_iff; exact Hb | split; reflexivity].
    + destruct Hu as [[-> ->] | [-> Hu]]; [right; split; reflexivity | left].
      split; [reflexivity | apply suffix_re_iff; exact Hu].
Qed.

Lemma mem_accepts_iff s : py_accepts FullMatch C25.Gen.memory_regex s <-> exists g1 g2, mem_shape s g1 g2.
Proof.
  rewrite <- (proj1 memory_factors_ok), FM_accepts. split.
  - intros (caps & H). apply mem_FM_iff in H. destruct H as (g1 & g2 & _ & H). eauto.
  - intros (g1 & g2 & H). exists [Some g1; g2]. apply mem_FM_iff. eauto.
Qed.

(** every suffix the regex admits has an entry in conv_factor (no KeyError), with the documented value *)
Lemma suffix_tables u b :
  suffix_ok u -> b_ok b ->
  exists k, lookup_str u C25.Gen.conv_factor = Some k /\ unit_factor (u ++ b) = Some k /\ In (u, k) unit_table /\
            tail_ok (u ++ b) /\ optstr_truth (Some u) = true.
Proof.
  intros (x & Hx & Hu) Hb.
  destruct Hx as [-> | [-> | [-> | [-> | ->]]]]; destruct Hu as [-> | ->]; destruct Hb as [-> | ->];
    (eexists; split; [reflexivity|]; split; [reflexivity|]; split;
     [unfold unit_table; cbn [In]; repeat (first [left; reflexivity | right]) | split; [cbn; split; [reflexivity | lia] | reflexivity]]).
Qed.

Lemma nosuffix_tables b : b_ok b -> unit_factor ([] ++ b) = Some 1%Z /\ tail_ok ([] ++ b) /\ In ([], 1%Z) unit_table.
Proof.
  intros [-> | ->]; (split; [reflexivity|]; split; [cbn; first [exact I | split; [reflexivity | lia]] | left; reflexivity]).
Qed.

Lemma mul_one v : (v * inject_Z 1 == v)%Q.
Proof. ring. Qed.

Lemma mem_shape_spec s g1 g2 :
  mem_shape s g1 g2 -> exists z, mem_spec s = Some z /\ C25.Gen.memory_body g1 g2 = Ret z.
Proof.
  intros (p & i & f & u & b & Hp & Hok & -> & Hb & Hu & ->).
  unfold mem_spec, C25.Gen.memory_body. rewrite (frac_of_numstr i f Hok).
  rewrite (strip_plus_numstr p i f (u ++ b) Hp Hok).
  destruct Hu as [[-> ->] | [-> Hu]].
  - destruct (nosuffix_tables b Hb) as (Hk & Ht & _).
    rewrite (lex_number_numstr i f ([] ++ b) Hok Ht), Hk. cbn [optstr_truth].
    eexists. split; [reflexivity|]. f_equal. apply Qceiling_comp. symmetry. apply mul_one.
  - destruct (suffix_tables u b Hu Hb) as (k & Hl & Hk & _ & Ht & Htr).
    rewrite (lex_number_numstr i f (u ++ b) Hok Ht), Hk, Htr. cbn [lookup_optstr]. rewrite Hl.
    eexists. split; reflexivity.
Qed.

Lemma dec_exp_inv x e : dec_exp x = Some e -> unit_letter x.
Proof.
  unfold dec_exp, unit_letter.
  destruct (x =? 75) eqn:E1; [lia|]. destruct (x =? 77) eqn:E2; [lia|]. destruct (x =? 71) eqn:E3; [lia|].
  destruct (x =? 84) eqn:E4; [lia|]. destruct (x =? 80) eqn:E5; [lia|]. discriminate.
Qed.

Lemma pow_of_inv base x k : pow_of base x = Some k -> unit_letter x.
Proof. unfold pow_of. destruct (dec_exp x) as [e|] eqn:E; [intros _; eapply dec_exp_inv; eauto | discriminate]. Qed.

Lemma suffix1 x : unit_letter x -> suffix_ok [x].
Proof. intros H. exists x. auto. Qed.
Lemma suffix2 x : unit_letter x -> suffix_ok [x; 105].
Proof. intros H. exists x. auto. Qed.

Lemma unit_factor_inv rest k :
  unit_factor rest = Some k -> exists u b, rest = u ++ b /\ b_ok b /\ (u = [] \/ suffix_ok u).
Proof.
  unfold unit_factor. destruct rest as [|x [|y [|z [|? ?]]]]; try discriminate.
  - intros _. exists [], []. split; [reflexivity|]. split; [left; reflexivity | left; reflexivity].
  - destruct (x =? 66) eqn:E.
    + intros _. apply N.eqb_eq in E. subst. exists [], [66]. split; [reflexivity|]. split; [right; reflexivity | left; reflexivity].
    + intros H. apply pow_of_inv in H. exists [x], []. split; [reflexivity|]. split; [left; reflexivity | right; apply suffix1; exact H].
  - destruct (y =? 66) eqn:E; [|destruct (y =? 105) eqn:E'; [|discriminate]].
    + intros H. apply pow_of_inv in H. apply N.eqb_eq in E. subst. exists [x], [66].
      split; [reflexivity|]. split; [right; reflexivity | right; apply suffix1; exact H].
    + intros H. apply pow_of_inv in H. apply N.eqb_eq in E'. subst. exists [x; 105], [].
      split; [reflexivity|]. split; [left; reflexivity | right; apply suffix2; exact H].
  - destruct ((y =? 105) && (z =? 66)) eqn:E; [|discriminate].
    apply andb_true_iff in E. destruct E as [E1 E2]. apply N.eqb_eq in E1, E2. subst.
    intros H. apply pow_of_inv in H. exists [x; 105], [66].
    split; [reflexivity|]. split; [right; reflexivity | right; apply suffix2; exact H].
Qed.

Lemma mem_spec_shape s z : mem_spec s = Some z -> exists g1 g2, mem_shape s g1 g2.
Proof.
  unfold mem_spec. destruct (lex_number (strip_plus s)) as [[[i f] rest]|] eqn:E; [|discriminate].
  apply lex_number_inv in E. destruct E as [Es Hok].
  destruct (strip_plus_inv s) as (p & Hp & Ep). rewrite Es in Ep.
  destruct (unit_factor rest) as [k|] eqn:Ek; [|discriminate]. intros _.
  apply unit_factor_inv in Ek. destruct Ek as (u & b & -> & Hb & Hu).
  destruct Hu as [-> | Hu].
  - exists (numstr i f), None, p, i, f, [], b. auto 10.
  - exists (numstr i f), (Some u), p, i, f, u, b. auto 10.
Qed.

Theorem memory_rel_iff_spec s r : C25.Gen.parse_memory_in_bytes s r <-> r = res_of (mem_spec s).
Proof.
  unfold C25.Gen.parse_memory_in_bytes, parse_rel. split.
  - intros [(g1 & g2 & HFM & ->) | [Hn ->]].
    + assert (Hsh : mem_shape s g1 g2).
      { apply mem_FM_iff in HFM. destruct HFM as (g1' & g2' & E & H). injection E as <- <-. exact H. }
      destruct (mem_shape_spec s g1 g2 Hsh) as (z & -> & ->). reflexivity.
    + destruct (mem_spec s) as [z|] eqn:E; [|reflexivity].
      exfalso. apply Hn, mem_accepts_iff. eapply mem_spec_shape; eauto.
  - intros ->. destruct (mem_spec s) as [z|] eqn:E.
    + destruct (mem_spec_shape s z E) as (g1 & g2 & Hsh). left. exists g1, g2.
      split; [apply mem_FM_iff; eauto|].
      destruct (mem_shape_spec s g1 g2 Hsh) as (z' & Hs & ->). rewrite E in Hs. injection Hs as ->. reflexivity.
    + right. split; [|reflexivity]. intros Hacc. apply mem_accepts_iff in Hacc. destruct Hacc as (g1 & g2 & Hsh).
      destruct (mem_shape_spec s g1 g2 Hsh) as (z & Hs & _). congruence.
Qed.

(** the storage function is, today, the memory function under another name *)
Lemma storage_is_memory : C25.Gen.parse_storage_in_bytes = C25.Gen.parse_memory_in_bytes
                          /\ C25.Gen.storage_regex = C25.Gen.memory_regex.
Proof. split; reflexivity. Qed.

Theorem storage_rel_iff_spec s r : C25.Gen.parse_storage_in_bytes s r <-> r = res_of (mem_spec s).
Proof. rewrite (proj1 storage_is_memory). apply memory_rel_iff_spec. Qed.

(** exact parser vs. documented meaning *)
Lemma mem_unit_factor u k : mem_unit u k -> unit_factor u = Some k /\ tail_ok u.
Proof.
  intros (x & b & -> & Hb & Hin). unfold unit_table in Hin. cbn [In] in Hin.
  repeat (destruct Hin as [Hin | Hin]; [injection Hin as <- <-; destruct Hb as [-> | ->];
                                        (split; [reflexivity | cbn; first [exact I | split; [reflexivity | lia]]])|]).
  contradiction.
Qed.

Lemma unit_factor_mem_unit rest k : unit_factor rest = Some k -> mem_unit rest k.
Proof.
  intros H. destruct (unit_factor_inv rest k H) as (u & b & -> & Hb & Hu). exists u, b. split; [reflexivity|]. split; [exact Hb|].
  destruct Hu as [-> | Hu].
  - destruct (nosuffix_tables b Hb) as (Hk & _ & Hin). rewrite Hk in H. injection H as <-. exact Hin.
  - destruct (suffix_tables u b Hu Hb) as (k' & _ & Hk & Hin & _). rewrite Hk in H. injection H as <-. exact Hin.
Qed.

Lemma mem_denotes_spec s q : mem_denotes s q -> mem_spec s = Some (Qceiling q).
Proof.
  intros (p & num & v & u & k & -> & Hp & Hnum & Hu & Hq).
  apply numeral_numstr in Hnum. destruct Hnum as (i & f & Hok & -> & ->).
  pose proof (numeral_value i f) as Hv. destruct (mem_unit_factor u k Hu) as [Hk Ht]. unfold mem_spec.
  rewrite (strip_plus_numstr p i f u Hp Hok), (lex_number_numstr i f u Hok Ht), Hk.
  f_equal. apply Qceiling_comp. rewrite Hq, Hv. reflexivity.
Qed.

Lemma mem_spec_denotes s z : mem_spec s = Some z -> exists q, mem_denotes s q /\ z = Qceiling q.
Proof.
  unfold mem_spec. destruct (lex_number (strip_plus s)) as [[[i f] rest]|] eqn:E; [|discriminate].
  apply lex_number_inv in E. destruct E as [Es Hok].
  destruct (strip_plus_inv s) as (p & Hp & Ep). rewrite Es in Ep.
  destruct (unit_factor rest) as [k|] eqn:Ek; [|discriminate].
  pose proof (numeral_value i f) as Hv.
  set (v := match f with [] => inject_Z (digits_val i) | _ => (inject_Z (digits_val i) + (digits_val f # pow10 (length f)))%Q end) in *.
  assert (Hnum : numeral (numstr i f) v) by (apply numeral_numstr; exists i, f; auto).
  intros H. replace z with (Qceiling (num_value i f * inject_Z k)) by congruence. clear H.
  exists (v * inject_Z k)%Q. split.
  - exists p, (numstr i f), v, rest, k. repeat split; auto. apply unit_factor_mem_unit; exact Ek.
  - apply Qceiling_comp. rewrite Hv. reflexivity.
Qed.

Lemma mem_spec_none s : mem_spec s = None <-> ~ exists q, mem_denotes s q.
Proof.
  split.
  - intros H (q & Hq). apply mem_denotes_spec in Hq. congruence.
  - intros H. destruct (mem_spec s) as [z|] eqn:E; [|reflexivity].
    exfalso. apply H. destruct (mem_spec_denotes s z E) as (q & Hq & _). eauto.
Qed.

(** * 4. hypotheses are satisfiable / sanity examples (the two reproduced float artefacts, exact here) *)
Example ex_cpu_1_001 : cpu_spec [49; 46; 48; 48; 49] = Some 1001%Z. Proof. reflexivity. Qed.              (* '1.001' *)
Example ex_mem_0_067G : mem_spec [48; 46; 48; 54; 55; 71] = Some 67000000%Z. Proof. reflexivity. Qed.      (* '0.067G' *)
Example ex_cpu_denotes : cpu_denotes [50; 53; 48; 109] (inject_Z 250).                                     (* '250m' *)
Proof.
  exists [], [50; 53; 48], (inject_Z 250), [109].
  split; [reflexivity|]. split; [left; reflexivity|]. split; [|right; split; reflexivity].
  apply (num_int [50; 53; 48]); [discriminate | repeat constructor].
Qed.
Example ex_mem_denotes : mem_denotes [49; 46; 53; 75; 105; 66] (inject_Z 1536).                            (* '1.5KiB' *)
Proof.
  exists [], [49; 46; 53], (inject_Z 1 + (5 # 10))%Q, [75; 105; 66], 1024%Z.
  split; [reflexivity|]. split; [left; reflexivity|]. split; [|split; [|reflexivity]].
  - apply (num_frac [49] [53]); [discriminate | repeat constructor | repeat constructor].
  - exists [75; 105], [66]. split; [reflexivity|]. split; [right; reflexivity|]. unfold unit_table; cbn [In]. auto.
Qed.
Example ex_rejects : cpu_spec [49; 46] = None /\ cpu_spec [49; 101; 51] = None /\ mem_spec [49; 107] = None /\ mem_spec [] = None
                     /\ mem_spec [1633] = None /\ cpu_spec [49; 10] = None.
Proof. repeat split; reflexivity. Qed.

(** * 5. acceptance by the (shared) regex = the exact parser succeeds = the string is in the documented grammar *)
Lemma cpu_accepts_spec s : py_accepts FullMatch C25.Gen.cpu_regex s <-> exists z, cpu_spec s = Some z.
Proof.
  rewrite cpu_accepts_iff. split.
  - intros (g1 & g2 & H). destruct (cpu_shape_spec s g1 g2 H) as (z & Hz & _). eauto.
  - intros (z & H). eapply cpu_spec_shape; eauto.
Qed.

Lemma mem_accepts_spec s : py_accepts FullMatch C25.Gen.memory_regex s <-> exists z, mem_spec s = Some z.
Proof.
  rewrite mem_accepts_iff. split.
  - intros (g1 & g2 & H). destruct (mem_shape_spec s g1 g2 H) as (z & Hz & _). eauto.
  - intros (z & H). eapply mem_spec_shape; eauto.
Qed.

Lemma server_cpu_same s :
  py_accepts C25.Gen.server_mode C25.Gen.server_cpu_regex s <-> exists z, C25.Gen.parse_cpu_in_mcpu s (Ret z).
Proof.
  change C25.Gen.server_mode with FullMatch. change C25.Gen.server_cpu_regex with C25.Gen.cpu_regex.
  rewrite cpu_accepts_spec. split; intros (z & H); exists z.
  - apply cpu_rel_iff_spec. rewrite H. reflexivity.
  - apply cpu_rel_iff_spec in H. destruct (cpu_spec s); [injection H as ->; reflexivity | discriminate].
Qed.

Lemma server_memory_same s :
  py_accepts C25.Gen.server_mode C25.Gen.server_memory_regex s <-> exists z, C25.Gen.parse_memory_in_bytes s (Ret z).
Proof.
  change C25.Gen.server_mode with FullMatch. change C25.Gen.server_memory_regex with C25.Gen.memory_regex.
  rewrite mem_accepts_spec. split; intros (z & H); exists z.
  - apply memory_rel_iff_spec. rewrite H. reflexivity.
  - apply memory_rel_iff_spec in H. destruct (mem_spec s); [injection H as ->; reflexivity | discriminate].
Qed.

Lemma server_storage_same s :
  py_accepts C25.Gen.server_mode C25.Gen.server_storage_regex s <-> exists z, C25.Gen.parse_storage_in_bytes s (Ret z).
Proof.
  change C25.Gen.server_mode with FullMatch. change C25.Gen.server_storage_regex with C25.Gen.storage_regex.
  rewrite (proj2 storage_is_memory), (proj1 storage_is_memory).
  change C25.Gen.memory_regex with C25.Gen.server_memory_regex. apply server_memory_same.
Qed.
