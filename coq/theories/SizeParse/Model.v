(** C25 — resource-size strings.  Executable definitions and the (Prop) semantics used by the generated model.

    Three layers:
    - what the GENERATED model (coq/generated/C25/Gen.v) is built from: capture semantics of a regex that is a
      top-level concatenation of factors ([FM]), [fractions.Fraction(str)] as an exact rational ([frac_of_str]),
      Python's [int()] / [math.ceil] on rationals, dictionary lookup, and the shape of the three parse functions
      ([parse_rel]);
    - the documented meaning of a size string, written from the property text ([numeral], [cpu_denotes],
      [mem_denotes]);
    - an executable exact parser ([cpu_spec], [mem_spec]) proved equal to both, used for the differential run. *)
From Coq Require Import QArith Qround.
From HailV Require Import Common.Prelude Regex.Regex.
Open Scope N_scope.

(** * Python results *)
Inductive pyres : Type := Ret (z : Z) | RetNone | Raises.

Definition res_of (o : option Z) : pyres := match o with Some z => Ret z | None => RetNone end.

(** * Capture semantics for a pattern that is a top-level concatenation of factors *)
Inductive factor : Type :=
| FPlain (r : re)                 (* no capturing group inside *)
| FGroup (n : N) (r : re)         (* ( r )   — group n always participates *)
| FOptGroup (n : N) (r : re).     (* ( r )?  — group n is None when the optional part is skipped *)

Definition factor_re (f : factor) : re :=
  match f with FPlain r => r | FGroup n r => RGroup n r | FOptGroup n r => ROpt (RGroup n r) end.

Fixpoint to_re (fs : list factor) : re :=
  match fs with
  | [] => REps
  | f :: fs' => match fs' with [] => factor_re f | _ => RSeq (factor_re f) (to_re fs') end
  end.

(** [FM fs pre w post caps]: the factors match [w] in sequence; [caps] lists, in order, what each group captured. *)
Fixpoint FM (fs : list factor) (pre w post : list N) (caps : list (option (list N))) : Prop :=
  match fs with
  | [] => w = [] /\ caps = []
  | f :: fs' =>
      exists w1 w2, w = w1 ++ w2 /\
        match f with
        | FPlain r => M r pre w1 (w2 ++ post) /\ FM fs' (pre ++ w1) w2 post caps
        | FGroup _ r =>
            exists caps', caps = Some w1 :: caps' /\ M r pre w1 (w2 ++ post) /\ FM fs' (pre ++ w1) w2 post caps'
        | FOptGroup _ r =>
            exists caps', FM fs' (pre ++ w1) w2 post caps' /\
              ((caps = Some w1 :: caps' /\ M r pre w1 (w2 ++ post)) \/ (caps = None :: caps' /\ w1 = []))
        end
  end.

Fixpoint plain (r : re) : bool :=          (* no group inside *)
  match r with
  | REps | RSet _ _ | RBol | REol | REos => true
  | RSeq a b | RAlt a b => plain a && plain b
  | RStar a | RPlus a | ROpt a => plain a
  | RGroup _ _ => false
  end.

Definition factor_plain (f : factor) : bool :=
  match f with FPlain r | FGroup _ r | FOptGroup _ r => plain r end.

(** Shape shared by the three functions of parse.py:
      match = X_REGEX.fullmatch(s)
      if match: <body using match.group(1), match.group(2)>      (every path returns)
      return None                                                                                        *)
Definition parse_rel (fs : list factor) (rx : re) (body : list N -> option (list N) -> pyres)
           (s : list N) (r : pyres) : Prop :=
  (exists g1 g2, FM fs [] s [] [Some g1; g2] /\ r = body g1 g2) \/
  (~ py_accepts FullMatch rx s /\ r = RetNone).

(** * Numbers *)
Definition is_digit (c : N) : bool := (48 <=? c) && (c <=? 57).
Definition digit_val (c : N) : Z := Z.of_N c - 48.
Definition digits_val (l : list N) : Z := fold_left (fun a c => (10 * a + digit_val c)%Z) l 0%Z.   (* int("0042") *)

Fixpoint pow10 (n : nat) : positive := match n with O => 1%positive | S k => (10 * pow10 k)%positive end.

(** numerator/denominator of  i.f  :  (i * 10^|f| + f) / 10^|f|  *)
Definition num_value (i f : list N) : Q :=
  (digits_val i * Zpos (pow10 (length f)) + digits_val f) # pow10 (length f).

(** split at the first '.' *)
Fixpoint split_dot (g : list N) : list N * option (list N) :=
  match g with
  | [] => ([], None)
  | c :: r => if c =? 46 then ([], Some r)
              else let (i, f) := split_dot r in (c :: i, f)
  end.

(** [fractions.Fraction(g)] for g of the form  digits* [ '.' digits* ]  (CPython: numerator = int(num or '0'); if decimal:
    scale = 10**len(decimal); numerator = numerator*scale + int(decimal); denominator = scale). *)
Definition frac_of_str (g : list N) : Q :=
  match split_dot g with
  | (i, None) => num_value i []
  | (i, Some f) => num_value i f
  end.

Definition py_int_of_Q (q : Q) : Z := if Qle_bool 0 q then Qfloor q else Qceiling q.   (* int(): truncation *)

Fixpoint list_eqb (a b : list N) : bool :=
  match a, b with
  | [], [] => true
  | x :: a', y :: b' => (x =? y) && list_eqb a' b'
  | _, _ => false
  end.

Definition optstr_eqb (o : option (list N)) (k : list N) : bool :=          (* match.group(2) == 'm' *)
  match o with Some s => list_eqb s k | None => false end.

Definition optstr_truth (o : option (list N)) : bool :=                     (* if suffix: *)
  match o with Some (_ :: _) => true | _ => false end.

Fixpoint lookup_str (k : list N) (tbl : list (list N * Z)) : option Z :=
  match tbl with
  | [] => None
  | (k', v) :: t => if list_eqb k k' then Some v else lookup_str k t
  end.

Definition lookup_optstr (o : option (list N)) (tbl : list (list N * Z)) : option Z :=   (* d[suffix]; None = KeyError *)
  match o with Some k => lookup_str k tbl | None => None end.

(** * The documented meaning of a size string (from the property text) *)
Definition all_digits (l : list N) : Prop := Forall (fun c => is_digit c = true) l.

(** a decimal numeral  digits  |  digits* '.' digits+   and the rational it denotes *)
Inductive numeral : list N -> Q -> Prop :=
| num_int i : i <> [] -> all_digits i -> numeral i (inject_Z (digits_val i))
| num_frac i f : f <> [] -> all_digits i -> all_digits f ->
    numeral (i ++ 46 :: f) (inject_Z (digits_val i) + (digits_val f # pow10 (length f))).

Definition opt_plus (p : list N) : Prop := p = [] \/ p = [43].

(** [cpu_denotes s q]: the string denotes q millicores:  [+] numeral  (cores)   |   [+] numeral 'm'  (millicores) *)
Definition cpu_denotes (s : list N) (mcpu : Q) : Prop :=
  exists p num v u, s = p ++ num ++ u /\ opt_plus p /\ numeral num v /\
    ((u = [] /\ mcpu == v * inject_Z 1000) \/ (u = [109] /\ mcpu == v)).

(** K M G T P = 1000^1..5, Ki .. Pi = 1024^1..5; an optional final 'B'; no unit = bytes *)
Definition unit_table : list (list N * Z) :=
  [ ([], 1%Z); ([75], 1000%Z); ([75; 105], 1024%Z);
    ([77], (1000 ^ 2)%Z); ([77; 105], (1024 ^ 2)%Z);
    ([71], (1000 ^ 3)%Z); ([71; 105], (1024 ^ 3)%Z);
    ([84], (1000 ^ 4)%Z); ([84; 105], (1024 ^ 4)%Z);
    ([80], (1000 ^ 5)%Z); ([80; 105], (1024 ^ 5)%Z) ].

Definition mem_unit (u : list N) (factor : Z) : Prop :=
  exists x b, u = x ++ b /\ (b = [] \/ b = [66]) /\ In (x, factor) unit_table.

Definition mem_denotes (s : list N) (bytes : Q) : Prop :=
  exists p num v u k, s = p ++ num ++ u /\ opt_plus p /\ numeral num v /\ mem_unit u k /\ bytes == v * inject_Z k.

(** * Executable exact parser (hand-written) *)
Fixpoint span_digits (s : list N) : list N * list N :=
  match s with
  | [] => ([], [])
  | c :: r => if is_digit c then let (d, t) := span_digits r in (c :: d, t) else ([], s)
  end.

Definition lex_number (s : list N) : option (list N * list N * list N) :=    (* integer digits, fraction digits, rest *)
  let (i, r) := span_digits s in
  let no_dot := match i with [] => None | _ => Some (i, [], r) end in
  match r with
  | 46 :: r' =>
      let (f, t) := span_digits r' in
      match f with [] => no_dot | _ => Some (i, f, t) end
  | _ => no_dot
  end.

Definition strip_plus (s : list N) : list N := match s with 43 :: r => r | _ => s end.

Definition cpu_spec (s : list N) : option Z :=
  match lex_number (strip_plus s) with
  | Some (i, f, rest) =>
      match rest with
      | [] => Some (Qfloor (num_value i f * inject_Z 1000))
      | [109] => Some (Qfloor (num_value i f))
      | _ => None
      end
  | None => None
  end.

Definition dec_exp (x : N) : option Z :=       (* K M G T P *)
  if x =? 75 then Some 1%Z else if x =? 77 then Some 2%Z else if x =? 71 then Some 3%Z
  else if x =? 84 then Some 4%Z else if x =? 80 then Some 5%Z else None.

Definition pow_of (base : Z) (x : N) : option Z :=
  match dec_exp x with Some e => Some (base ^ e)%Z | None => None end.

Definition unit_factor (rest : list N) : option Z :=
  match rest with
  | [] => Some 1%Z
  | [x] => if x =? 66 then Some 1%Z else pow_of 1000 x
  | [x; y] => if y =? 66 then pow_of 1000 x else if y =? 105 then pow_of 1024 x else None
  | [x; y; z] => if (y =? 105) && (z =? 66) then pow_of 1024 x else None
  | _ => None
  end.

Definition mem_spec (s : list N) : option Z :=
  match lex_number (strip_plus s) with
  | Some (i, f, rest) =>
      match unit_factor rest with
      | Some k => Some (Qceiling (num_value i f * inject_Z k))
      | None => None
      end
  | None => None
  end.
