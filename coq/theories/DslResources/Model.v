(** C18 — hand model of the Batch DSL resource plumbing.  Executable definitions only.

    Source modelled (hail/python/hailtop/batch):
      resource.py  uids  [_uid_prefix + str(counter)], [_regex_pattern = prefix\d+], [_get_path]
      job.py       [Job._interpolate_command]: re.sub over the alternation of the five uid patterns with [handler];
                   [_add_resource_to_set]; the bookkeeping of _inputs/_internal_outputs/_dependencies/_valid/_mentioned
      batch.py     [Batch._unique_job_token] (FIXED: the token is recorded), job directory names
      backend.py   [ServiceBackend._async_run]: copy_input / copy_internal_output / parents of create_job

    Characters are code points ([N]); a counter is represented by its decimal digit string. *)
From HailV Require Import Common.Prelude.
From Coq Require Import String Ascii.
Open Scope N_scope.

Definition char := N.
Definition str (s : string) : list char := map N_of_ascii (list_ascii_of_string s).

Definition is_digit (c : char) : bool := (48 <=? c) && (c <=? 57).

(** ---- Part 1: the text of a command ---------------------------------------------------------------- *)
Inductive kind := KFile | KGroup | KPy | KJob | KBatch.

(** the alternation, in the order of the regex built by _interpolate_command *)
Definition kinds : list (kind * list char) :=
  [ (KFile, str "__RESOURCE_FILE__"); (KGroup, str "__RESOURCE_GROUP__"); (KPy, str "__PYTHON_RESULT__");
    (KJob, str "__JOB__"); (KBatch, str "__BATCH__") ].

Definition prefix_of (k : kind) : list char :=
  match k with
  | KFile => str "__RESOURCE_FILE__" | KGroup => str "__RESOURCE_GROUP__" | KPy => str "__PYTHON_RESULT__"
  | KJob => str "__JOB__" | KBatch => str "__BATCH__"
  end.

(** a command as the user wrote it: literal text and references (an f-string with objects interpolated) *)
Inductive seg := Text (t : list char) | Ref (k : kind) (ds : list char).

(** what Python's f-string produces: the uid string in place of each object *)
Definition flatten1 (g : seg) : list char := match g with Text t => t | Ref k ds => prefix_of k ++ ds end.
Definition flatten (cmd : list seg) : list char := flat_map flatten1 cmd.

Fixpoint strip (p s : list char) : option (list char) :=
  match p, s with
  | [], _ => Some s
  | a :: p', b :: s' => if N.eqb a b then strip p' s' else None
  | _ :: _, [] => None
  end.

Fixpoint span_digits (s : list char) : list char * list char :=
  match s with
  | c :: r => if is_digit c then let (ds, rest) := span_digits r in (c :: ds, rest) else ([], s)
  | [] => ([], [])
  end.

(** does [prefix\d+] of some alternative match at the start of s?  (first alternative wins; \d+ is greedy) *)
Fixpoint match_alts (alts : list (kind * list char)) (s : list char) : option (kind * list char * list char) :=
  match alts with
  | [] => None
  | (k, p) :: more =>
      match strip p s with
      | Some r => match span_digits r with
                  | ([], _) => match_alts more s
                  | (ds, rest) => Some (k, ds, rest)
                  end
      | None => match_alts more s
      end
  end.
Definition match_here := match_alts kinds.

Inductive ierr := EJobRef | EBatchRef | EPyRef | EUndefined.
Inductive res (T : Type) := Ok (v : T) | Err (e : ierr).
Arguments Ok {T} v. Arguments Err {T} e.

Section Interp.
  (** [_resource_map.get(uid)] composed with '${BATCH_TMPDIR}' + shq(r._get_path('')): None = undefined resource *)
  Variable repl : kind -> list char -> option (list char).
  Variable allow_py : bool.

  Definition handler (k : kind) (ds : list char) : res (list char) :=
    match k with
    | KJob => Err EJobRef
    | KBatch => Err EBatchRef
    | KPy => if allow_py then match repl k ds with Some r => Ok r | None => Err EUndefined end else Err EPyRef
    | _ => match repl k ds with Some r => Ok r | None => Err EUndefined end
    end.

  (** re.sub(pattern, handler, command): leftmost non-overlapping matches; returns the new text and the references found *)
  Fixpoint scan (fuel : nat) (s : list char) : res (list char * list (kind * list char)) :=
    match fuel with
    | O => Ok ([], [])
    | S f =>
        match s with
        | [] => Ok ([], [])
        | c :: r =>
            match match_here s with
            | Some (k, ds, rest) =>
                match handler k ds with
                | Err e => Err e
                | Ok rep => match scan f rest with
                            | Ok (out, refs) => Ok (rep ++ out, (k, ds) :: refs)
                            | Err e => Err e
                            end
                end
            | None => match scan f r with Ok (out, refs) => Ok (c :: out, refs) | Err e => Err e end
            end
        end
    end.

  Definition interpolate (s : list char) := scan (S (List.length s)) s.

  (** what the user means: text unchanged, each reference replaced *)
  Fixpoint intended (cmd : list seg) : option (list char) :=
    match cmd with
    | [] => Some []
    | Text t :: r => option_map (app t) (intended r)
    | Ref k ds :: r => match repl k ds, intended r with Some a, Some b => Some (a ++ b) | _, _ => None end
    end.

  Fixpoint refs_of (cmd : list seg) : list (kind * list char) :=
    match cmd with [] => [] | Text _ :: r => refs_of r | Ref k ds :: r => (k, ds) :: refs_of r end.
End Interp.

(** shlex.quote *)
Definition safe_char (c : char) : bool :=
  is_digit c || ((65 <=? c) && (c <=? 90)) || ((97 <=? c) && (c <=? 122)) || (c =? 95)
  || existsb (N.eqb c) (str "@%+=:,./-").
Definition shq (s : list char) : list char :=
  match s with
  | [] => str "''"
  | _ => if forallb safe_char s then s
         else 39 :: flat_map (fun c => if c =? 39 then str "'""'""'" else [c]) s ++ [39]
  end.

(** ---- Part 2: bookkeeping of the DSL and what the service backend submits ------------------------------ *)
Close Scope N_scope.
Definition rid := nat.
Definition jid := nat.

Record rinfo := { r_src : option jid;          (* producing job; None for inputs *)
                  r_members : list rid;        (* the files of a resource group; [] for a file *)
                  r_group : option rid }.      (* the group a file belongs to *)

Record jstate := { inputs : list rid; outputs : list rid (* _internal_outputs *); deps : list jid;
                   valid : list rid; mentioned : list rid }.
Definition jempty : jstate := {| inputs := []; outputs := []; deps := []; valid := []; mentioned := [] |}.

Definition memn (x : nat) (l : list nat) : bool := existsb (Nat.eqb x) l.

Section Plumbing.
  Variable info : rid -> rinfo.

  Definition is_group (r : rid) : bool := negb (is_nil (r_members (info r))).

  (** _add_resource_to_set(set, r, include_rg) *)
  Definition expand (include_rg : bool) (r : rid) : list rid :=
    if is_group r then (if include_rg then [r] else []) ++ r_members (info r)
    else r :: match r_group (info r) with Some g => r_members (info g) | None => [] end.

  Definition state := jid -> jstate.
  Definition upd (st : state) (j : jid) (f : jstate -> jstate) : state :=
    fun x => if Nat.eqb x j then f (st x) else st x.

  Inductive op := Mention (j : jid) (r : rid)      (* a reference to r in a command of j: the regex handler *)
                | Declare (j : jid) (g : rid).     (* j.declare_resource_group *)

  Inductive perr := EInvalid.                      (* "undefined resource ...: must be defined within the job methods" *)

  Definition do_op (st : state) (o : op) : state + perr :=
    match o with
    | Declare j g => inl (upd st j (fun s => {| inputs := inputs s; outputs := outputs s; deps := deps s;
                                                 valid := expand true g ++ valid s; mentioned := mentioned s |}))
    | Mention j r =>
        match r_src (info r) with
        | Some p =>
            if Nat.eqb p j
            then inl (upd st j (fun s => {| inputs := inputs s; outputs := outputs s; deps := deps s;
                                            valid := expand true r ++ valid s; mentioned := r :: mentioned s |}))
            else if negb (memn r (valid (st p))) then inr EInvalid
            else let st1 := upd st j (fun s => {| inputs := expand false r ++ inputs s; outputs := outputs s;
                                                  deps := p :: deps s; valid := valid s; mentioned := r :: mentioned s |}) in
                 inl (upd st1 p (fun s => {| inputs := inputs s; outputs := expand false r ++ outputs s; deps := deps s;
                                             valid := valid s; mentioned := mentioned s |}))
        | None => inl (upd st j (fun s => {| inputs := expand false r ++ inputs s; outputs := outputs s; deps := deps s;
                                             valid := valid s; mentioned := r :: mentioned s |}))
        end
    end.

  Fixpoint run_ops (st : state) (ops : list op) : state + perr :=
    match ops with [] => inl st | o :: r => match do_op st o with inl st' => run_ops st' r | inr e => inr e end end.

  (** ServiceBackend._async_run: the (from, to) pairs handed to create_job; locations are (side, resource) *)
  Inductive side := RemoteTmp | LocalTmp.
  Definition loc := (side * rid)%type.
  Definition is_job_file (r : rid) : bool := match r_src (info r) with Some _ => true | None => false end.
  Definition job_input_files (s : jstate) : list (loc * loc) :=
    map (fun r => ((RemoteTmp, r), (LocalTmp, r))) (filter is_job_file (inputs s)).
  Definition job_output_files (s : jstate) : list (loc * loc) :=
    map (fun r => ((LocalTmp, r), (RemoteTmp, r))) (outputs s).
  Definition job_parents (s : jstate) : list jid := deps s.
End Plumbing.

(** ---- PythonJob.call(f, *args, **kwargs) ------------------------------------------------------------------ *)
(** An argument is a plain value, a resource, or a list / tuple / dict (its values) of arguments.  [handle_args] visits
    exactly the resources reachable through the containers, left to right, and runs on each the same bookkeeping as the
    regex handler of a Bash command ([Mention]); then the call's own (fresh) result is registered the same way.
    PythonResult.as_str / as_repr / as_json create a file of the PRODUCING job: [Mention producer view]. *)
Inductive arg := AVal | ARes (r : rid) | ASeq (l : list arg).
Fixpoint reach (a : arg) : list rid :=
  match a with AVal => [] | ARes r => [r] | ASeq l => flat_map reach l end.
Definition call_ops (j : jid) (args : list arg) (result : rid) : list op :=
  map (Mention j) (flat_map reach args) ++ [Mention j result].

(** ---- job directories ------------------------------------------------------------------------------------ *)
(** Batch._unique_job_token with the fix: draw candidates until one is new, and RECORD it. *)
Fixpoint first_new (used : list (list N)) (stream : list (list N)) : option (list N * list (list N)) :=
  match stream with
  | [] => None
  | t :: more => if existsb (fun u => if list_eq_dec N.eq_dec u t then true else false) used
                 then first_new used more else Some (t, more)
  end.

(** tokens handed to n successive new_job calls, for a given stream of candidates from the random generator *)
Fixpoint alloc_tokens (n : nat) (used : list (list N)) (stream : list (list N)) : list (list N) :=
  match n with
  | O => []
  | S m => match first_new used stream with
           | Some (t, more) => t :: alloc_tokens m (t :: used) more
           | None => []
           end
  end.

(** Job._dirname = token | safe_str(name)[:250 - len(token)] + '-' + token *)
Definition dirname (safe_name : option (list N)) (token : list N) : list N :=
  match safe_name with Some n => n ++ [45%N] ++ token | None => token end.

(** JobResourceFile._get_path(dir) = dir/dirname/value ; InputResourceFile: dir/inputs/root/basename *)
Definition job_file_path (dir dname value : list N) : list N := dir ++ [47%N] ++ dname ++ [47%N] ++ value.
