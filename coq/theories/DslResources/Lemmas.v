(** C18 — proofs about the resource-plumbing model. *)
From HailV Require Import Common.Prelude DslResources.Model.
From Coq Require Import String Ascii.

(** ---- Part 1: interpolation ---------------------------------------------------------------------------- *)
Lemma strip_app p : forall s, strip p (p ++ s) = Some s.
Proof. induction p as [|a p IH]; intros s; cbn [strip app]; [reflexivity|]. rewrite N.eqb_refl. apply IH. Qed.

Definition head_nondigit (s : list char) : Prop := match s with [] => True | c :: _ => is_digit c = false end.

Lemma span_digits_app ds : forall rest, forallb is_digit ds = true -> head_nondigit rest ->
  span_digits (ds ++ rest) = (ds, rest).
Proof.
  induction ds as [|d ds IH]; intros rest Hd Hr; cbn [app].
  - destruct rest as [|c r]; cbn [span_digits]; [reflexivity|]. cbn [head_nondigit] in Hr. rewrite Hr. reflexivity.
  - cbn [forallb] in Hd. apply andb_true_iff in Hd. destruct Hd as [H1 H2].
    cbn [span_digits]. rewrite H1, (IH rest H2 Hr). reflexivity.
Qed.

Lemma match_here_ref k ds rest : ds <> [] -> forallb is_digit ds = true -> head_nondigit rest ->
  match_here (prefix_of k ++ ds ++ rest) = Some (k, ds, rest).
Proof.
  intros Hne Hd Hr. pose proof (span_digits_app ds rest Hd Hr) as Hs.
  destruct ds as [|d ds']; [congruence|].
  unfold match_here, kinds.
  destruct k; cbn [prefix_of match_alts].
  - rewrite strip_app, Hs. reflexivity.
  - replace (strip (str "__RESOURCE_FILE__") (str "__RESOURCE_GROUP__" ++ (d :: ds') ++ rest)) with (@None (list char)) by (vm_compute; reflexivity).
    rewrite strip_app, Hs. reflexivity.
  - replace (strip (str "__RESOURCE_FILE__") (str "__PYTHON_RESULT__" ++ (d :: ds') ++ rest)) with (@None (list char)) by (vm_compute; reflexivity).
    replace (strip (str "__RESOURCE_GROUP__") (str "__PYTHON_RESULT__" ++ (d :: ds') ++ rest)) with (@None (list char)) by (vm_compute; reflexivity).
    rewrite strip_app, Hs. reflexivity.
  - replace (strip (str "__RESOURCE_FILE__") (str "__JOB__" ++ (d :: ds') ++ rest)) with (@None (list char)) by (vm_compute; reflexivity).
    replace (strip (str "__RESOURCE_GROUP__") (str "__JOB__" ++ (d :: ds') ++ rest)) with (@None (list char)) by (vm_compute; reflexivity).
    replace (strip (str "__PYTHON_RESULT__") (str "__JOB__" ++ (d :: ds') ++ rest)) with (@None (list char)) by (vm_compute; reflexivity).
    rewrite strip_app, Hs. reflexivity.
  - replace (strip (str "__RESOURCE_FILE__") (str "__BATCH__" ++ (d :: ds') ++ rest)) with (@None (list char)) by (vm_compute; reflexivity).
    replace (strip (str "__RESOURCE_GROUP__") (str "__BATCH__" ++ (d :: ds') ++ rest)) with (@None (list char)) by (vm_compute; reflexivity).
    replace (strip (str "__PYTHON_RESULT__") (str "__BATCH__" ++ (d :: ds') ++ rest)) with (@None (list char)) by (vm_compute; reflexivity).
    replace (strip (str "__JOB__") (str "__BATCH__" ++ (d :: ds') ++ rest)) with (@None (list char)) by (vm_compute; reflexivity).
    rewrite strip_app, Hs. reflexivity.
Qed.

Lemma match_here_not_underscore c s : c <> 95%N -> match_here (c :: s) = None.
Proof.
  intros Hc. unfold match_here, kinds. cbn [match_alts].
  assert (E : forall p, strip (95%N :: p) (c :: s) = None).
  { intros p. cbn [strip]. assert (N.eqb 95 c = false) as -> by (apply N.eqb_neq; congruence). reflexivity. }
  change (str "__RESOURCE_FILE__") with (95%N :: str "_RESOURCE_FILE__").
  change (str "__RESOURCE_GROUP__") with (95%N :: str "_RESOURCE_GROUP__").
  change (str "__PYTHON_RESULT__") with (95%N :: str "_PYTHON_RESULT__").
  change (str "__JOB__") with (95%N :: str "_JOB__").
  change (str "__BATCH__") with (95%N :: str "_BATCH__").
  rewrite !E. reflexivity.
Qed.

(** a simple sufficient condition for "no accidental match inside literal text": the text has no underscore *)
Lemma text_without_underscore t rest : forallb (fun c => negb (N.eqb c 95)) t = true ->
  forall i, (i < List.length t)%nat -> match_here (skipn i t ++ rest) = None.
Proof.
  revert rest. induction t as [|c t IH]; intros rest H i Hi; cbn [List.length] in Hi; [lia|].
  cbn [forallb] in H. apply andb_true_iff in H. destruct H as [H1 H2].
  destruct i as [|i]; cbn [skipn app].
  - apply match_here_not_underscore. apply negb_true_iff in H1. apply N.eqb_neq. exact H1.
  - apply IH; [exact H2 | lia].
Qed.

Section Interp.
  Variable repl : kind -> list char -> option (list char).
  Variable allow_py : bool.
  Notation handler := (handler repl allow_py).
  Notation scan := (scan repl allow_py).
  Notation intended := (intended repl).

  Definition ref_ok (k : kind) (ds : list char) : Prop :=
    ds <> [] /\ forallb is_digit ds = true /\ exists rep, handler k ds = Ok rep.

  (** [guard = true]: additionally, what follows a reference does not begin with a digit *)
  Fixpoint clean (guard : bool) (cmd : list seg) : Prop :=
    match cmd with
    | [] => True
    | Text t :: post =>
        (forall i, (i < List.length t)%nat -> match_here (skipn i t ++ flatten post) = None) /\ clean guard post
    | Ref k ds :: post =>
        ref_ok k ds /\ (if guard then head_nondigit (flatten post) else True) /\ clean guard post
    end.

  Lemma handler_repl k ds rep : handler k ds = Ok rep -> repl k ds = Some rep.
  Proof.
    unfold Model.handler. destruct k; try discriminate.
    - destruct (repl KFile ds); intros H; inversion H; reflexivity.
    - destruct (repl KGroup ds); intros H; inversion H; reflexivity.
    - destruct allow_py; [|discriminate]. destruct (repl KPy ds); intros H; inversion H; reflexivity.
  Qed.

  Lemma scan_cons f c r : scan (S f) (c :: r) =
    match match_here (c :: r) with
    | Some (k, ds, rest) =>
        match handler k ds with
        | Err e => Err e
        | Ok rep => match scan f rest with Ok (out, refs) => Ok (rep ++ out, (k, ds) :: refs) | Err e => Err e end
        end
    | None => match scan f r with Ok (out, refs) => Ok (c :: out, refs) | Err e => Err e end
    end.
  Proof. reflexivity. Qed.

  Lemma scan_text t : forall rest out refs,
    (forall i, (i < List.length t)%nat -> match_here (skipn i t ++ rest) = None) ->
    (forall fuel, (List.length rest < fuel)%nat -> scan fuel rest = Ok (out, refs)) ->
    forall fuel, (List.length (t ++ rest) < fuel)%nat -> scan fuel (t ++ rest) = Ok (t ++ out, refs).
  Proof.
    induction t as [|c t IH]; intros rest out refs Hn Hrest fuel Hf; cbn [app] in *; [apply Hrest; exact Hf|].
    destruct fuel as [|f]; [lia|]. rewrite scan_cons.
    pose proof (Hn 0%nat ltac:(cbn [List.length]; lia)) as H0. cbn [skipn app] in H0. rewrite H0.
    rewrite (IH rest out refs); [reflexivity | | exact Hrest | cbn [List.length] in Hf; lia].
    intros i Hi. apply (Hn (S i)). cbn [List.length]. lia.
  Qed.

  Lemma scan_clean cmd : clean true cmd ->
    exists out, intended cmd = Some out /\
      forall fuel, (List.length (flatten cmd) < fuel)%nat -> scan fuel (flatten cmd) = Ok (out, refs_of cmd).
  Proof.
    induction cmd as [|g post IH]; intros Hc.
    - exists []. split; [reflexivity|]. intros [|f] Hf; [cbn in Hf; lia | reflexivity].
    - destruct g as [t|k ds]; cbn [clean] in Hc.
      + destruct Hc as [Hn Hp]. destruct (IH Hp) as (out & Ho & Hs). exists (t ++ out). split.
        * cbn [Model.intended]. rewrite Ho. reflexivity.
        * intros fuel Hf. cbn [flatten flat_map flatten1 refs_of] in *. apply scan_text; assumption.
      + destruct Hc as ((Hne & Hd & rep & Hh) & Hg & Hp). destruct (IH Hp) as (out & Ho & Hs).
        exists (rep ++ out). split.
        * cbn [Model.intended]. rewrite (handler_repl _ _ _ Hh), Ho. reflexivity.
        * intros fuel Hf. cbn [flatten flat_map flatten1 refs_of] in *. rewrite <- app_assoc in *.
          destruct fuel as [|f]; [lia|].
          pose proof (match_here_ref k ds (flatten post) Hne Hd Hg) as Hm.
          destruct (prefix_of k ++ ds ++ flatten post) as [|c r] eqn:Es.
          { destruct k; discriminate Es. }
          change (flat_map flatten1 post) with (flatten post) in *. rewrite Es. rewrite scan_cons, Hm, Hh. rewrite Hs; [reflexivity|].
          assert (Hl : (List.length (c :: r) = List.length (prefix_of k) + List.length ds + List.length (flatten post))%nat)
            by (rewrite <- Es, !app_length; lia).
          assert (Hds : (0 < List.length ds)%nat) by (destruct ds; [congruence | cbn [List.length]; lia]).
          rewrite Es in Hf. lia.
  Qed.

  Theorem refs_replaced_only_partial cmd : clean true cmd ->
    exists out, intended cmd = Some out /\ interpolate repl allow_py (flatten cmd) = Ok (out, refs_of cmd).
  Proof.
    intros Hc. destruct (scan_clean cmd Hc) as (out & Ho & Hs). exists out. split; [exact Ho|].
    unfold interpolate. apply Hs. lia.
  Qed.

End Interp.

(** the unguarded statement fails on the code as it is: f"{r1}0" is read as r10 *)
Definition ex_repl (k : kind) (ds : list char) : option (list char) :=
  match k with
  | KFile => if list_eq_dec N.eq_dec ds (str "1") then Some (str "${BATCH_TMPDIR}/j/one")
             else if list_eq_dec N.eq_dec ds (str "10") then Some (str "${BATCH_TMPDIR}/j/ten") else None
  | _ => None
  end.
Definition ex_cmd : list seg := [Text (str "cat "); Ref KFile (str "1"); Text (str "0.txt")].

Theorem refs_replaced_only_refuted :
  exists repl cmd, clean repl false false cmd /\
    exists out, intended repl cmd = Some out /\ interpolate repl false (flatten cmd) <> Ok (out, refs_of cmd).
Proof.
  exists ex_repl, ex_cmd. split.
  - cbn [clean ex_cmd]. split; [|split; [|split; [exact I | split; [|exact I]]]].
    + apply text_without_underscore. vm_compute. reflexivity.
    + unfold ref_ok. split; [vm_compute; discriminate|]. split; [vm_compute; reflexivity|]. eexists. vm_compute. reflexivity.
    + apply text_without_underscore. vm_compute. reflexivity.
  - eexists. split; [vm_compute; reflexivity|]. vm_compute. discriminate.
Qed.

(** the guarded statement is satisfiable *)
Example ex_clean_guarded :
  clean ex_repl false true [Text (str "cat "); Ref KFile (str "1"); Text (str " > "); Ref KFile (str "10"); Text (str ".txt")].
Proof.
  cbn [clean]. repeat split; try discriminate; try (eexists; vm_compute; reflexivity);
    try (apply text_without_underscore; vm_compute; reflexivity).
Qed.

(** ---- Part 2: bookkeeping and what the service backend submits ------------------------------------------- *)
Lemma memn_In x l : memn x l = true <-> In x l.
Proof.
  unfold memn. rewrite existsb_exists. split.
  - intros (y & Hy & E). apply Nat.eqb_eq in E. subst. exact Hy.
  - intros H. exists x. split; [exact H | apply Nat.eqb_refl].
Qed.

Section Plumbing.
  Variable info : rid -> rinfo.

  (** resource groups are homogeneous: the files of a group come from the group's source *)
  Definition wf : Prop :=
    (forall g m, In m (r_members (info g)) -> r_src (info m) = r_src (info g)) /\
    (forall r g, r_group (info r) = Some g -> r_src (info g) = r_src (info r)).

  Lemma expand_src b r f : wf -> In f (expand info b r) -> r_src (info f) = r_src (info r).
  Proof.
    intros [W1 W2]. unfold expand. destruct (is_group info r).
    - intros H. apply in_app_or in H. destruct H as [H|H]; [|exact (W1 r f H)].
      destruct b; [destruct H as [<-|[]]; reflexivity | destruct H].
    - intros [<-|H]; [reflexivity|]. destruct (r_group (info r)) as [g|] eqn:E; [|destruct H].
      rewrite (W1 g f H). exact (W2 r g E).
  Qed.

  Lemma expand_self r : In r (expand info true r).
  Proof. unfold expand. destruct (is_group info r); [apply in_or_app; left; left; reflexivity | left; reflexivity]. Qed.

  Definition Inv (st : state) : Prop :=
    forall j f p, In f (inputs (st j)) -> r_src (info f) = Some p ->
      p <> j /\ In f (outputs (st p)) /\ In p (deps (st j)).

  (** outputs and deps only grow *)
  Lemma do_op_mono st o st' : do_op info st o = inl st' ->
    forall x, incl (outputs (st x)) (outputs (st' x)) /\ incl (deps (st x)) (deps (st' x)) /\ incl (inputs (st x)) (inputs (st' x)).
  Proof.
    intros H x. destruct o as [j r|j g]; cbn [do_op] in H.
    - destruct (r_src (info r)) as [p|] eqn:Es.
      + destruct (Nat.eqb p j) eqn:Epj.
        * inversion H; subst. unfold upd. destruct (Nat.eqb x j); cbn; repeat split; apply incl_refl.
        * destruct (negb (memn r (valid (st p)))); [discriminate|]. inversion H; subst. clear H.
          unfold upd. destruct (Nat.eqb x p) eqn:Exp, (Nat.eqb x j) eqn:Exj; cbn;
            repeat split; try apply incl_refl; try (apply incl_appr; apply incl_refl); try (apply incl_tl; apply incl_refl).
      + inversion H; subst. unfold upd. destruct (Nat.eqb x j); cbn; repeat split; try apply incl_refl.
        apply incl_appr. apply incl_refl.
    - inversion H; subst. unfold upd. destruct (Nat.eqb x j); cbn; repeat split; apply incl_refl.
  Qed.

  Lemma do_op_inv st o st' : wf -> Inv st -> do_op info st o = inl st' -> Inv st'.
  Proof.
    intros Hwf HI H j' f' p' Hin Hsrc.
    pose proof (do_op_mono st o st' H) as Hmono.
    (* either f' was already an input of j' ... *)
    assert (Hcases : In f' (inputs (st j')) \/
              exists r, o = Mention j' r /\ In f' (expand info false r) /\ r_src (info r) <> Some j' /\
                        (forall p, r_src (info r) = Some p -> In p (deps (st' j')) /\ incl (expand info false r) (outputs (st' p)))).
    { destruct o as [j r|j g]; cbn [do_op] in H.
      - destruct (r_src (info r)) as [p|] eqn:Es.
        + destruct (Nat.eqb p j) eqn:Epj.
          * inversion H; subst. left. revert Hin. unfold upd. destruct (Nat.eqb j' j); cbn; auto.
          * destruct (negb (memn r (valid (st p)))); [discriminate|]. inversion H; subst. clear H.
            apply Nat.eqb_neq in Epj.
            revert Hin. unfold upd. destruct (Nat.eqb j' p) eqn:E1.
            -- apply Nat.eqb_eq in E1. subst j'.
               assert (Nat.eqb p j = false) as -> by (apply Nat.eqb_neq; exact Epj). cbn. auto.
            -- destruct (Nat.eqb j' j) eqn:E2; cbn; [|auto].
               apply Nat.eqb_eq in E2. subst j'. intros Hin. apply in_app_or in Hin. destruct Hin as [Hin|Hin]; [|auto].
               right. exists r. split; [reflexivity|]. split; [exact Hin|]. split; [rewrite Es; congruence|].
               intros p0 Hp0. rewrite Es in Hp0. inversion Hp0; subst p0. split.
               ++ cbv beta. left. reflexivity.
               ++ cbv beta. try rewrite Nat.eqb_refl. cbn. apply incl_appl. apply incl_refl.
        + inversion H; subst. revert Hin. unfold upd. destruct (Nat.eqb j' j) eqn:E2; cbn; [|auto].
          apply Nat.eqb_eq in E2. subst j'. intros Hin. apply in_app_or in Hin. destruct Hin as [Hin|Hin]; [|auto].
          exfalso. rewrite (expand_src false r f' Hwf Hin), Es in Hsrc. discriminate.
      - inversion H; subst. left. revert Hin. unfold upd. destruct (Nat.eqb j' j); cbn; auto. }
    destruct Hcases as [Hold|(r & -> & Hexp & Hne & Hnew)].
    - destruct (HI j' f' p' Hold Hsrc) as (H1 & H2 & H3). split; [exact H1|]. split.
      + apply (proj1 (Hmono p')). exact H2.
      + apply (proj1 (proj2 (Hmono j'))). exact H3.
    - assert (Hr : r_src (info r) = Some p') by (rewrite <- (expand_src false r f' Hwf Hexp); exact Hsrc).
      destruct (Hnew p' Hr) as [Hd Ho]. split; [congruence|]. split; [apply Ho; exact Hexp | exact Hd].
  Qed.

  Lemma run_ops_inv ops : forall st st', wf -> Inv st -> run_ops info st ops = inl st' -> Inv st'.
  Proof.
    induction ops as [|o r IH]; intros st st' Hwf HI H; cbn [run_ops] in H; [inversion H; subst; exact HI|].
    destruct (do_op info st o) as [st1|e] eqn:E; [|discriminate].
    exact (IH st1 st' Hwf (do_op_inv st o st1 Hwf HI E) H).
  Qed.

  Definition init : state := fun _ => jempty.
  Lemma inv_init : Inv init.
  Proof. intros j f p []. Qed.

  Lemma run_ops_mono ops : forall st st', run_ops info st ops = inl st' -> forall x, incl (inputs (st x)) (inputs (st' x)).
  Proof.
    induction ops as [|o r IH]; intros st st' H x; cbn [run_ops] in H; [inversion H; subst; apply incl_refl|].
    destruct (do_op info st o) as [st1|e] eqn:E; [|discriminate].
    eapply incl_tran; [exact (proj2 (proj2 (do_op_mono st o st1 E x))) | exact (IH st1 st' H x)].
  Qed.

  (** every file behind a reference to another job's resource becomes an input of the referring job *)
  Theorem reference_becomes_input pre j r post st p : run_ops info init (pre ++ Mention j r :: post) = inl st ->
    r_src (info r) = Some p -> p <> j -> incl (expand info false r) (inputs (st j)).
  Proof.
    intros H Hs Hne.
    assert (Hsplit : forall ops1 st0 ops2 stf, run_ops info st0 (ops1 ++ ops2) = inl stf ->
              exists st1, run_ops info st0 ops1 = inl st1 /\ run_ops info st1 ops2 = inl stf).
    { induction ops1 as [|o ops1 IH]; intros st0 ops2 stf Hr; cbn [app run_ops] in *; [eauto|].
      destruct (do_op info st0 o) as [s1|e]; [exact (IH s1 ops2 stf Hr) | discriminate]. }
    destruct (Hsplit _ _ _ _ H) as (st1 & _ & H2). cbn [run_ops] in H2.
    destruct (do_op info st1 (Mention j r)) as [st2|e] eqn:E; [|discriminate].
    eapply incl_tran; [|exact (run_ops_mono post st2 st H2 j)].
    cbn [do_op] in E. rewrite Hs in E. assert (Nat.eqb p j = false) as Epj by (apply Nat.eqb_neq; exact Hne). rewrite Epj in E.
    destruct (negb (memn r (valid (st1 p)))); [discriminate|]. inversion E; subst. unfold upd.
    assert (Nat.eqb j p = false) as -> by (apply Nat.eqb_neq; congruence). rewrite Nat.eqb_refl. cbn. apply incl_appl. apply incl_refl.
  Qed.

  Theorem upload_eq_download ops st : wf -> run_ops info init ops = inl st ->
    forall j f p, In f (inputs (st j)) -> r_src (info f) = Some p ->
      In ((RemoteTmp, f), (LocalTmp, f)) (job_input_files info (st j)) /\
      In ((LocalTmp, f), (RemoteTmp, f)) (job_output_files (st p)) /\
      In p (job_parents (st j)) /\ p <> j.
  Proof.
    intros Hwf H j f p Hin Hs. destruct (run_ops_inv ops init st Hwf inv_init H j f p Hin Hs) as (H1 & H2 & H3).
    split; [|split; [|split; assumption]].
    - unfold job_input_files. apply in_map_iff. exists f. split; [reflexivity|]. apply filter_In. split; [exact Hin|].
      unfold is_job_file. rewrite Hs. reflexivity.
    - unfold job_output_files. apply in_map_iff. exists f. split; [reflexivity | exact H2].
  Qed.
End Plumbing.

(** ---- Part 2b: PythonJob.call — resources reachable in the arguments are one more source of mentions ---------- *)
Lemma call_ops_split j args res r : In r (flat_map reach args) ->
  exists before after, call_ops j args res = before ++ Mention j r :: after.
Proof.
  intros Hin. apply in_split in Hin. destruct Hin as (l1 & l2 & Hl). unfold call_ops. rewrite Hl.
  exists (map (Mention j) l1), (map (Mention j) l2 ++ [Mention j res]).
  rewrite map_app. cbn [map]. rewrite <- app_assoc. reflexivity.
Qed.

(** every resource reachable in the arguments of a call (at any nesting depth) that belongs to another job: all its files
    become inputs of the calling job *)
Theorem call_argument_becomes_input (info : rid -> rinfo) pre j args res post st r p :
  run_ops info (init) (pre ++ call_ops j args res ++ post) = inl st ->
  In r (flat_map reach args) -> r_src (info r) = Some p -> p <> j ->
  incl (expand info false r) (inputs (st j)).
Proof.
  intros Hrun Hin Hs Hne. destruct (call_ops_split j args res r Hin) as (b & a & E). rewrite E in Hrun.
  rewrite <- app_assoc in Hrun. cbn [app] in Hrun. rewrite app_assoc in Hrun.
  exact (reference_becomes_input info _ j r _ st p Hrun Hs Hne).
Qed.

(** ... and each of those files is downloaded from exactly where its producer uploads it, the caller being a child of the producer *)
Theorem call_argument_downloaded (info : rid -> rinfo) pre j args res post st r p f :
  wf info -> run_ops info (init) (pre ++ call_ops j args res ++ post) = inl st ->
  In r (flat_map reach args) -> r_src (info r) = Some p -> p <> j -> In f (expand info false r) ->
  In ((RemoteTmp, f), (LocalTmp, f)) (job_input_files info (st j)) /\
  In ((LocalTmp, f), (RemoteTmp, f)) (job_output_files (st p)) /\
  In p (job_parents (st j)).
Proof.
  intros Hwf Hrun Hin Hs Hne Hf.
  assert (Hi : In f (inputs (st j))) by (exact (call_argument_becomes_input info pre j args res post st r p Hrun Hin Hs Hne f Hf)).
  assert (Hsf : r_src (info f) = Some p) by (rewrite (expand_src info false r f Hwf Hf); exact Hs).
  destruct (upload_eq_download info _ st Hwf Hrun j f p Hi Hsf) as (H1 & H2 & H3 & _). auto.
Qed.

Example call_example :
  let info := fun r => match r with 0 => {| r_src := Some 1; r_members := []; r_group := None |}
                                   | _ => {| r_src := Some 0; r_members := []; r_group := None |} end in
  exists st, run_ops info init ([Mention 1 0] ++ call_ops 0 [AVal; ASeq [AVal; ASeq [ASeq [ARes 0]]]] 1 ++ []) = inl st /\
             inputs (st 0) = [0] /\ deps (st 0) = [1].
Proof. eexists. split; [vm_compute; reflexivity|]. split; reflexivity. Qed.

(** ---- Part 3: job directories and paths -------------------------------------------------------------------- *)
Lemma first_new_spec used stream t more : first_new used stream = Some (t, more) -> ~ In t used.
Proof.
  induction stream as [|c stream IH]; cbn [first_new]; [discriminate|].
  destruct (existsb (fun u => if list_eq_dec N.eq_dec u c then true else false) used) eqn:E; [exact IH|].
  intros H. inversion H; subst. intros Hin.
  assert (existsb (fun u => if list_eq_dec N.eq_dec u t then true else false) used = true).
  { apply existsb_exists. exists t. split; [exact Hin|]. destruct (list_eq_dec N.eq_dec t t); congruence. }
  congruence.
Qed.

(** FIXED _unique_job_token: whatever the random generator produces, the tokens handed out are pairwise distinct *)
Theorem alloc_tokens_distinct n : forall used stream,
  NoDup (alloc_tokens n used stream) /\ forall t, In t (alloc_tokens n used stream) -> ~ In t used.
Proof.
  induction n as [|n IH]; intros used stream; cbn [alloc_tokens]; [split; [constructor | intros t []]|].
  destruct (first_new used stream) as [[t more]|] eqn:E; [|split; [constructor | intros t []]].
  destruct (IH (t :: used) more) as [N1 N2]. split.
  - constructor; [|exact N1]. intros Hin. apply (N2 t Hin). left. reflexivity.
  - intros t' [<-|Hin]; [exact (first_new_spec _ _ _ _ E)|]. intros Hu. apply (N2 t' Hin). right. exact Hu.
Qed.

Lemma app_eq_len_r {A} (l1 : list A) : forall l2 t1 t2, l1 ++ t1 = l2 ++ t2 -> List.length t1 = List.length t2 -> t1 = t2.
Proof.
  induction l1 as [|a l1 IH]; intros l2 t1 t2 H Hl.
  - destruct l2 as [|b l2]; [exact H|]. cbn [app] in H. subst t1. cbn [List.length] in Hl. rewrite app_length in Hl. lia.
  - destruct l2 as [|b l2].
    + cbn [app] in H. subst t2. cbn [List.length] in Hl. rewrite app_length in Hl. lia.
    + cbn [app] in H. inversion H. eapply IH; eassumption.
Qed.

Lemma dirname_token n1 t1 n2 t2 : List.length t1 = List.length t2 -> dirname n1 t1 = dirname n2 t2 -> t1 = t2.
Proof.
  intros Hl H. unfold dirname in H.
  destruct n1 as [a|], n2 as [b|].
  - rewrite !app_assoc in H. exact (app_eq_len_r _ _ _ _ H Hl).
  - rewrite app_assoc in H. exact (app_eq_len_r _ [] _ _ H Hl).
  - rewrite app_assoc in H. exact (app_eq_len_r [] _ _ _ H Hl).
  - exact H.
Qed.

Definition no_slash (s : list N) : Prop := ~ In 47%N s.

Lemma split_first_slash d1 : forall d2 v1 v2, no_slash d1 -> no_slash d2 ->
  d1 ++ 47%N :: v1 = d2 ++ 47%N :: v2 -> d1 = d2 /\ v1 = v2.
Proof.
  induction d1 as [|a d1 IH]; intros d2 v1 v2 H1 H2 H.
  - destruct d2 as [|b d2]; cbn [app] in H.
    + inversion H. auto.
    + inversion H; subst. exfalso. apply H2. left. reflexivity.
  - destruct d2 as [|b d2]; cbn [app] in H.
    + inversion H; subst. exfalso. apply H1. left. reflexivity.
    + inversion H; subst. destruct (IH d2 v1 v2) as [-> ->]; auto.
      * intros Hin. apply H1. right. exact Hin.
      * intros Hin. apply H2. right. exact Hin.
Qed.

(** distinct (job, file name) pairs never share a path *)
Theorem job_file_paths_injective dir n1 t1 v1 n2 t2 v2 :
  List.length t1 = List.length t2 -> no_slash (dirname n1 t1) -> no_slash (dirname n2 t2) ->
  job_file_path dir (dirname n1 t1) v1 = job_file_path dir (dirname n2 t2) v2 -> t1 = t2 /\ v1 = v2.
Proof.
  intros Hl H1 H2 H. unfold job_file_path in H. apply app_inv_head in H. cbn [app] in H. inversion H as [H'].
  destruct (split_first_slash _ _ _ _ H1 H2 H') as [Hd Hv]. split; [exact (dirname_token _ _ _ _ Hl Hd) | exact Hv].
Qed.

(** the unfixed _unique_job_token (tokens never recorded) hands out duplicates as soon as the generator repeats itself *)
Example unfixed_tokens_collide :
  let unfixed := fix go (n : nat) (stream : list (list N)) := match n, stream with S m, t :: more => t :: go m more | _, _ => [] end in
  ~ NoDup (unfixed 2%nat [str "AAAAA"; str "AAAAA"]) /\ NoDup (alloc_tokens 2 [] [str "AAAAA"; str "AAAAA"; str "BBBBB"]).
Proof.
  cbn zeta. split.
  - intros H. inversion H as [|? ? Hn _]; subst. apply Hn. left. reflexivity.
  - apply alloc_tokens_distinct.
Qed.
