(** C18 — property theorems only (hailtop.batch resource plumbing: job.py _interpolate_command, resource.py uids/paths,
    batch.py job tokens (as FIXED by fixes/C18.diff), backend.py ServiceBackend._async_run file lists and parents).

    A command is a list of segments [Text t | Ref kind digits]; [flatten] is the f-string Python builds (each object
    replaced by its uid, prefix ++ decimal counter); [interpolate] is re.sub over the five uid patterns with the
    handler; [intended] is the command with every reference replaced by its path and all text unchanged.
    [clean guard cmd]: every reference is a defined resource, no literal text accidentally contains a uid pattern
    (e.g. because it has no underscore: [text_without_underscore]) and — when [guard] — the text that follows a
    reference does not begin with a digit. *)
From HailV Require Import Common.Prelude DslResources.Model DslResources.Lemmas.

(** FULL statement (guard = false), i.e. "every reference is replaced and nothing else changes" for every clean command:
    REFUTED on the code as it is ([C18_refs_replaced_only_refuted]); what holds is the guarded version. *)
Theorem C18_refs_replaced_only_partial : forall (repl : kind -> list char -> option (list char)) (allow_py : bool) (cmd : list seg),
  clean repl allow_py true cmd ->
  exists out, intended repl cmd = Some out /\ interpolate repl allow_py (flatten cmd) = Ok (out, refs_of cmd).
Proof. exact refs_replaced_only_partial. Qed.
Print Assumptions C18_refs_replaced_only_partial.

(** f"cat {r1}0.txt": the greedy \d+ reads the user's "0" as part of the uid and substitutes resource 10. *)
Theorem C18_refs_replaced_only_refuted :
  exists repl cmd, clean repl false false cmd /\
    exists out, intended repl cmd = Some out /\ interpolate repl false (flatten cmd) <> Ok (out, refs_of cmd).
Proof. exact refs_replaced_only_refuted. Qed.
Print Assumptions C18_refs_replaced_only_refuted.

(** Every file behind a reference to another job's resource (the whole resource group) becomes an input of the
    referring job — for every program of commands / group declarations of any jobs in any order. *)
Theorem C18_reference_becomes_input : forall (info : rid -> rinfo) pre j r post st p,
  run_ops info (init) (pre ++ Mention j r :: post) = inl st -> r_src (info r) = Some p -> p <> j ->
  incl (expand info false r) (inputs (st j)).
Proof. exact reference_becomes_input. Qed.
Print Assumptions C18_reference_becomes_input.

(** Every file a job reads from another job is downloaded from exactly the location (RemoteTmp, f) to which the
    producing job uploads it, and the consumer is submitted as a child of the producer. *)
Theorem C18_upload_eq_download : forall (info : rid -> rinfo) ops st, wf info -> run_ops info init ops = inl st ->
  forall j f p, In f (inputs (st j)) -> r_src (info f) = Some p ->
    In ((RemoteTmp, f), (LocalTmp, f)) (job_input_files info (st j)) /\
    In ((LocalTmp, f), (RemoteTmp, f)) (job_output_files (st p)) /\
    In p (job_parents (st j)) /\ p <> j.
Proof. exact upload_eq_download. Qed.
Print Assumptions C18_upload_eq_download.

(** PythonJob.call(f, *args, **kwargs) = [call_ops j args result]: every resource REACHABLE in the arguments (nested at any
    depth in lists / tuples / dict values, [reach]) that belongs to another job has all its files among the inputs of the
    calling job, each downloaded from where its producer uploads it, and the caller is a child of the producer —
    for every program around the call. *)
Theorem C18_call_argument_becomes_input : forall (info : rid -> rinfo) pre j args res post st r p,
  run_ops info (init) (pre ++ call_ops j args res ++ post) = inl st ->
  In r (flat_map reach args) -> r_src (info r) = Some p -> p <> j ->
  incl (expand info false r) (inputs (st j)).
Proof. exact call_argument_becomes_input. Qed.
Print Assumptions C18_call_argument_becomes_input.

Theorem C18_call_argument_downloaded : forall (info : rid -> rinfo) pre j args res post st r p f,
  wf info -> run_ops info (init) (pre ++ call_ops j args res ++ post) = inl st ->
  In r (flat_map reach args) -> r_src (info r) = Some p -> p <> j -> In f (expand info false r) ->
  In ((RemoteTmp, f), (LocalTmp, f)) (job_input_files info (st j)) /\
  In ((LocalTmp, f), (RemoteTmp, f)) (job_output_files (st p)) /\
  In p (job_parents (st j)).
Proof. exact call_argument_downloaded. Qed.
Print Assumptions C18_call_argument_downloaded.

(** With the token recorded (fixes/C18.diff), job tokens are pairwise distinct for EVERY output of the random generator. *)
Theorem C18_job_tokens_distinct : forall n used stream,
  NoDup (alloc_tokens n used stream) /\ forall t, In t (alloc_tokens n used stream) -> ~ In t used.
Proof. exact alloc_tokens_distinct. Qed.
Print Assumptions C18_job_tokens_distinct.

(** Distinct (job, file name) pairs never share a path: equal paths force equal tokens and equal names. *)
Theorem C18_paths_injective : forall dir n1 t1 v1 n2 t2 v2,
  List.length t1 = List.length t2 -> no_slash (dirname n1 t1) -> no_slash (dirname n2 t2) ->
  job_file_path dir (dirname n1 t1) v1 = job_file_path dir (dirname n2 t2) v2 -> t1 = t2 /\ v1 = v2.
Proof. exact job_file_paths_injective. Qed.
Print Assumptions C18_paths_injective.
