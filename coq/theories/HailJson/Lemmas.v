(** C32 — proofs about the JSON conversion model. *)
From HailV Require Import Common.Prelude HailValues.Model HailValues.Lemmas HailJson.Model.
Open Scope N_scope.

(** ** option-map over lists *)
Lemma omap_map_roundtrip {A B} (f : B -> option A) (g : A -> B) (l : list A) :
  (forall x, In x l -> f (g x) = Some x) -> omap f (map g l) = Some l.
Proof.
  induction l as [|x l IH]; intro H; cbn [map omap]; [reflexivity|].
  rewrite (H x (or_introl eq_refl)), IH; [reflexivity|]. intros y Hy; apply H; right; exact Hy.
Qed.

(** ** calls *)
Lemma digit_not_sep c : is_digit c = true -> (c =? c_bar) || (c =? c_slash) = false.
Proof. unfold is_digit, c_bar, c_slash. intro H. destruct (c =? 124) eqn:E1, (c =? 47) eqn:E2; try reflexivity; lia. Qed.

Lemma split_sep_digits (s : name) :
  forallb is_digit s = true -> split_sep s = (s, None).
Proof.
  induction s as [|c s IH]; cbn [forallb split_sep]; intro H; [reflexivity|].
  apply andb_true_iff in H as [Hc Hs]. rewrite (digit_not_sep c Hc), (IH Hs). reflexivity.
Qed.

Lemma split_sep_digits_sep (s : name) (c : N) (r : name) :
  forallb is_digit s = true -> (c =? c_bar) || (c =? c_slash) = true ->
  split_sep (s ++ c :: r) = (s, Some (c, r)).
Proof.
  intros Hs Hc. induction s as [|d s IH]; cbn [app split_sep forallb] in *.
  - rewrite Hc. reflexivity.
  - apply andb_true_iff in Hs as [Hd Hs]. rewrite (digit_not_sep d Hd), (IH Hs). reflexivity.
Qed.

(** a non-empty digit string is none of "-", "|-" and does not start with '|' *)
Lemma digits_head (s : name) :
  s <> [] -> forallb is_digit s = true -> exists c r, s = c :: r /\ is_digit c = true.
Proof.
  destruct s as [|c r]; [congruence|]. cbn [forallb]. intros _ H. apply andb_true_iff in H as [H _]. eauto.
Qed.

Lemma parse_call_call_str (p : bool) (al : list N) :
  call_normal p al = true -> parse_call (call_str p al) = Some (VCall p al).
Proof.
  intro Hn. destruct al as [|a0 [|a1 [|a2 al]]]; cbn [call_normal] in Hn; [| | |discriminate].
  - destruct p; reflexivity.
  - (* haploid *)
    destruct (digits_head (dec_of_N a0) (dec_of_N_nonempty a0) (dec_of_N_digits a0)) as (c & r & E & Hc).
    assert (Hc' : is_digit c = true) by exact Hc.
    unfold is_digit in Hc. cbn [call_str]. destruct p.
    + unfold parse_call. rewrite E.
      replace (name_eqb (c_bar :: c :: r) [c_minus]) with false by reflexivity.
      replace (name_eqb (c_bar :: c :: r) [c_bar; c_minus]) with false.
      2:{ cbn [name_eqb]. unfold c_bar, c_minus. rewrite N.eqb_refl.
          destruct (c =? 45) eqn:E45; [lia|reflexivity]. }
      unfold c_bar at 1 2. rewrite N.eqb_refl. rewrite <- E, N_of_dec_of_N. reflexivity.
    + unfold parse_call. rewrite E.
      replace (name_eqb (c :: r) [c_minus]) with false.
      2:{ cbn [name_eqb]. unfold c_minus. destruct (c =? 45) eqn:E45; [lia|reflexivity]. }
      replace (name_eqb (c :: r) [c_bar; c_minus]) with false.
      2:{ cbn [name_eqb]. unfold c_bar. destruct (c =? 124) eqn:E124; [lia|reflexivity]. }
      replace (c =? c_bar) with false by (unfold c_bar; destruct (c =? 124) eqn:E124; [lia|reflexivity]).
      rewrite <- E, (split_sep_digits _ (dec_of_N_digits a0)), N_of_dec_of_N. reflexivity.
  - (* diploid *)
    destruct (digits_head (dec_of_N a0) (dec_of_N_nonempty a0) (dec_of_N_digits a0)) as (c & r & E & Hc).
    unfold is_digit in Hc. cbn [call_str]. unfold parse_call. rewrite E. cbn [app].
    replace (name_eqb (c :: r ++ (if p then c_bar else c_slash) :: dec_of_N a1) [c_minus]) with false.
    2:{ cbn [name_eqb]. unfold c_minus. destruct (c =? 45) eqn:E45; [lia|reflexivity]. }
    replace (name_eqb (c :: r ++ (if p then c_bar else c_slash) :: dec_of_N a1) [c_bar; c_minus]) with false.
    2:{ cbn [name_eqb]. unfold c_bar. destruct (c =? 124) eqn:E124; [lia|reflexivity]. }
    replace (c =? c_bar) with false by (unfold c_bar; destruct (c =? 124) eqn:E124; [lia|reflexivity]).
    change (c :: r ++ (if p then c_bar else c_slash) :: dec_of_N a1)
      with ((c :: r) ++ (if p then c_bar else c_slash) :: dec_of_N a1).
    rewrite <- E.
    rewrite (split_sep_digits_sep (dec_of_N a0) (if p then c_bar else c_slash) (dec_of_N a1) (dec_of_N_digits a0))
      by (destruct p; reflexivity).
    rewrite !N_of_dec_of_N. destruct p.
    + reflexivity.
    + cbn [orb] in Hn. unfold mk_call. replace (c_slash =? c_bar) with false by reflexivity. cbn [negb andb].
      destruct (a1 <? a0) eqn:E10; [lia|reflexivity].
Qed.

(** ** dict access *)
Lemma jget_app k a b : jget k (a ++ b) = match jget k a with Some j => Some j | None => jget k b end.
Proof.
  induction a as [|[k' j] a IH]; cbn [app jget]; [reflexivity|]. destruct (name_eqb k k'); [reflexivity|exact IH].
Qed.

(** ** unfolding of the nested local fixpoints *)
Definition zipj (F : ty -> value -> json) : list (name * ty) -> list value -> list (name * json) :=
  fix go fs vs :=
    match fs, vs with
    | f :: fs', x :: vs' => (fst f, F (snd f) x) :: go fs' vs'
    | _, _ => []
    end.

Definition unzipj (F : ty -> json -> option value) (o : list (name * json)) : list (name * ty) -> option (list value) :=
  fix go fs :=
    match fs with
    | [] => Some []
    | f :: fs' =>
      match F (snd f) (jget_default (fst f) o), go fs' with
      | Some x, Some xs => Some (x :: xs)
      | _, _ => None
      end
    end.

Definition wt_fields (W : ty -> value -> bool) : list (name * ty) -> list value -> bool :=
  fix go fs vs :=
    match fs, vs with
    | [], [] => true
    | f :: fs', x :: vs' => W (snd f) x && go fs' vs'
    | _, _ => false
    end.

Definition zipt (F : ty -> value -> json) : list ty -> list value -> list json :=
  fix go ts vs :=
    match ts, vs with
    | t' :: ts', x :: vs' => F t' x :: go ts' vs'
    | _, _ => []
    end.

Definition unzipt (F : ty -> json -> option value) : list ty -> list json -> option (list value) :=
  fix go ts l :=
    match ts, l with
    | [], _ => Some []
    | _ :: _, [] => None
    | t' :: ts', x :: l' =>
      match F t' x, go ts' l' with
      | Some y, Some ys => Some (y :: ys)
      | _, _ => None
      end
    end.

Definition wt_elts (W : ty -> value -> bool) : list ty -> list value -> bool :=
  fix go ts vs :=
    match ts, vs with
    | [], [] => true
    | t' :: ts', x :: vs' => W t' x && go ts' vs'
    | _, _ => false
    end.

Lemma to_json_struct fs vs : to_json (TStruct fs) (VStruct vs) = JObj (zipj to_json fs vs).
Proof. reflexivity. Qed.
Lemma from_json_struct fs o : from_json (TStruct fs) (JObj o) = option_map VStruct (unzipj from_json o fs).
Proof. reflexivity. Qed.
Lemma wt_json_struct fs vs : wt_json (TStruct fs) (VStruct vs) = wt_fields wt_json fs vs.
Proof. reflexivity. Qed.
Lemma to_json_tuple ts vs : to_json (TTuple ts) (VTuple vs) = JList (zipt to_json ts vs).
Proof. reflexivity. Qed.
Lemma from_json_tuple ts l : from_json (TTuple ts) (JList l) = option_map VTuple (unzipt from_json ts l).
Proof. reflexivity. Qed.
Lemma wt_json_tuple ts vs : wt_json (TTuple ts) (VTuple vs) = wt_elts wt_json ts vs.
Proof. reflexivity. Qed.

Definition RT (t : ty) : Prop :=
  forall v, wt_json t v = true -> from_json t (to_json t v) = Some v.

Lemma zipj_cons F f fs x vs : zipj F (f :: fs) (x :: vs) = (fst f, F (snd f) x) :: zipj F fs vs.
Proof. reflexivity. Qed.
Lemma unzipj_cons F o f fs :
  unzipj F o (f :: fs) =
  match F (snd f) (jget_default (fst f) o), unzipj F o fs with
  | Some x, Some xs => Some (x :: xs)
  | _, _ => None
  end.
Proof. reflexivity. Qed.
Lemma zipt_cons F t ts x vs : zipt F (t :: ts) (x :: vs) = F t x :: zipt F ts vs.
Proof. reflexivity. Qed.
Lemma unzipt_cons F t ts x l :
  unzipt F (t :: ts) (x :: l) =
  match F t x, unzipt F ts l with
  | Some y, Some ys => Some (y :: ys)
  | _, _ => None
  end.
Proof. reflexivity. Qed.

Lemma struct_roundtrip (fs : list (name * ty)) :
  Forall (fun f => RT (snd f)) fs ->
  forall (pre : list (name * json)) (vs : list value),
    (forall f, In f fs -> jget (fst f) pre = None) ->
    NoDup (map fst fs) ->
    wt_fields wt_json fs vs = true ->
    unzipj from_json (pre ++ zipj to_json fs vs) fs = Some vs.
Proof.
  induction 1 as [|f fs Hf Hfs IH]; intros pre vs Hpre Hnd Hwt.
  - destruct vs; [reflexivity|discriminate].
  - destruct vs as [|x vs]; [discriminate|]. cbn [wt_fields] in Hwt. apply andb_true_iff in Hwt as [Hx Hvs].
    rewrite zipj_cons, unzipj_cons. unfold jget_default at 1.
    rewrite jget_app, (Hpre f (or_introl eq_refl)). cbn [jget]. rewrite name_eqb_refl.
    rewrite (Hf x Hx).
    cbn [map] in Hnd. inversion Hnd as [|n ns Hnotin Hnd']; subst.
    specialize (IH (pre ++ [(fst f, to_json (snd f) x)]) vs).
    rewrite <- app_assoc in IH. cbn [app] in IH.
    rewrite IH; [reflexivity| |exact Hnd'|exact Hvs].
    intros g Hg. rewrite jget_app, (Hpre g (or_intror Hg)). cbn [jget].
    rewrite name_eqb_neq; [reflexivity|].
    intro E. apply Hnotin. rewrite <- E. apply in_map. exact Hg.
Qed.

Lemma tuple_roundtrip (ts : list ty) :
  Forall RT ts -> forall vs, wt_elts wt_json ts vs = true -> unzipt from_json ts (zipt to_json ts vs) = Some vs.
Proof.
  induction 1 as [|t ts Ht Hts IH]; intros vs Hwt.
  - destruct vs; [reflexivity|discriminate].
  - destruct vs as [|x vs]; [discriminate|]. cbn [wt_elts] in Hwt. apply andb_true_iff in Hwt as [Hx Hvs].
    rewrite zipt_cons, unzipt_cons. rewrite (Ht x Hx), (IH vs Hvs). reflexivity.
Qed.

(** ** scalars of n-d arrays *)
Lemma scalar_roundtrip (e : ty) (x : value) :
  is_numeric e = true -> negb (is_na x) && wt_json e x = true -> scalar_of_json e (scalar_json x) = Some x.
Proof.
  intros He Hx. apply andb_true_iff in Hx as [Hna Hx].
  destruct e; try discriminate; destruct x; try discriminate; reflexivity.
Qed.

Lemma ints_roundtrip (l : list Z) : omap int_of_json (map JInt l) = Some l.
Proof. apply omap_map_roundtrip. reflexivity. Qed.

(** ** the round trip, by nested induction over the type *)
Theorem json_roundtrip : forall t, wf_ty t = true -> RT t.
Proof.
  induction t using ty_nested_ind; intros Hwf v Hwt.
  1-6: destruct v; try discriminate; try reflexivity.
  - (* float32 *) destruct f; reflexivity.
  - (* float64 *) destruct f; reflexivity.
  - (* call *)
    destruct v; try discriminate; try reflexivity.
    cbn in Hwt. rewrite andb_true_r in Hwt. cbn [to_json from_json]. apply parse_call_call_str. exact Hwt.
  - (* locus *) destruct v; try discriminate; reflexivity.
  - (* interval *)
    destruct v as [| | | | | | |s e i_s i_e| | | | | |]; try discriminate; try reflexivity.
    cbn in Hwf. change (wt_json t s && wt_json t e = true) in Hwt. apply andb_true_iff in Hwt as [Hs He].
    pose proof (IHt Hwf s Hs) as Es. pose proof (IHt Hwf e He) as Ee.
    cbn [to_json from_json jget]. cbn [s_start s_end s_includeStart s_includeEnd name_eqb N.eqb Pos.eqb andb].
    rewrite Es, Ee. reflexivity.
  - (* array *)
    destruct v as [| | | | | | | |l| | | | |]; try discriminate; try reflexivity.
    cbn in Hwf. change (true && forallb (wt_json t) l = true) in Hwt. cbn [andb] in Hwt. rewrite forallb_forall in Hwt.
    cbn [to_json from_json]. rewrite omap_map_roundtrip; [reflexivity|].
    intros x Hx. apply IHt; [exact Hwf|apply Hwt; exact Hx].
  - (* set *)
    destruct v as [| | | | | | | | |l| | | |]; try discriminate; try reflexivity.
    cbn in Hwf. change (true && forallb (wt_json t) l = true) in Hwt. cbn [andb] in Hwt. rewrite forallb_forall in Hwt.
    cbn [to_json from_json]. rewrite omap_map_roundtrip; [reflexivity|].
    intros x Hx. apply IHt; [exact Hwf|apply Hwt; exact Hx].
  - (* dict *)
    destruct v as [| | | | | | | | | |l| | |]; try discriminate; try reflexivity.
    cbn in Hwf. apply andb_true_iff in Hwf as [Hwk Hwv].
    change (true && forallb (fun kv => wt_json t1 (fst kv) && wt_json t2 (snd kv)) l = true) in Hwt.
    cbn [andb] in Hwt.
    rewrite forallb_forall in Hwt.
    cbn [to_json from_json]. rewrite omap_map_roundtrip; [reflexivity|].
    intros [a b] Hx. specialize (Hwt _ Hx). cbn [fst snd] in *. apply andb_true_iff in Hwt as [Ha Hb].
    cbn [jget s_key s_value name_eqb N.eqb Pos.eqb andb].
    rewrite (IHt1 Hwk a Ha), (IHt2 Hwv b Hb). reflexivity.
  - (* struct *)
    destruct v as [| | | | | | | | | | |vs| |]; try discriminate; try reflexivity.
    cbn [wf_ty] in Hwf. apply andb_true_iff in Hwf as [Hnd Hwfs].
    rewrite wt_json_struct in Hwt. rewrite to_json_struct, from_json_struct.
    assert (Hrt : unzipj from_json ([] ++ zipj to_json fs vs) fs = Some vs).
    { apply struct_roundtrip; [| |apply names_nodup_spec; exact Hnd|exact Hwt].
      - rewrite forallb_forall in Hwfs. rewrite Forall_forall in H |- *.
        intros f Hf. apply H; [exact Hf|apply Hwfs; exact Hf].
      - reflexivity. }
    cbn [app] in Hrt. rewrite Hrt. reflexivity.
  - (* tuple *)
    destruct v as [| | | | | | | | | | | |vs|]; try discriminate; try reflexivity.
    cbn [wf_ty] in Hwf. rewrite wt_json_tuple in Hwt. rewrite to_json_tuple, from_json_tuple.
    rewrite (tuple_roundtrip ts); [reflexivity| |exact Hwt].
    rewrite forallb_forall in Hwf. rewrite Forall_forall in H |- *. intros f Hf. apply H; [exact Hf|apply Hwf; exact Hf].
  - (* ndarray *)
    destruct v as [| | | | | | | | | | | | |shape data]; try discriminate; try reflexivity.
    cbn [wf_ty] in Hwf.
    change (Nat.eqb (length shape) n && forallb (fun d => (0 <=? d)%Z && true) shape
            && Z.eqb (Z.of_nat (length data)) (zprod shape)
            && forallb (fun x => negb (is_na x) && wt_json t x) data = true) in Hwt.
    apply andb_true_iff in Hwt as [Hwt Hdata]. apply andb_true_iff in Hwt as [Hwt Hlen].
    cbn [to_json from_json]. rewrite Hwf.
    cbn [jget s_shape s_data name_eqb N.eqb Pos.eqb andb].
    rewrite ints_roundtrip. rewrite omap_map_roundtrip.
    + rewrite Hlen. reflexivity.
    + rewrite forallb_forall in Hdata. intros x Hx. apply scalar_roundtrip; [exact Hwf|apply Hdata; exact Hx].
Qed.
