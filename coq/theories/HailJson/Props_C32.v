(** C32 — property theorems only.  Model: HailJson.Model (hand model of types.py's JSON conversions as fixed by
    fixes/C32.diff), tied to the real functions by the correspondence run of harness/props/C32.py. *)
From HailV Require Import Common.Prelude HailValues.Model HailValues.Lemmas HailJson.Model HailJson.Lemmas.

(** For EVERY well-formed Hail type (arbitrary nesting; struct field names are arbitrary distinct code-point strings) and
    EVERY value of that type — missing anywhere a missing value is allowed (top level, array/set elements, dict keys and
    values, struct/tuple fields, interval end points), finite/NaN/+-inf floats, calls of ploidy 0..2 phased or not,
    loci, intervals, sets, dicts, tuples, nested structs, numeric n-d arrays — converting to the JSON wire form and
    back yields the same value. *)
Theorem C32_roundtrip : forall (t : ty) (v : value),
  wf_ty t = true -> wt_json t v = true -> from_json t (to_json t v) = Some v.
Proof. intros t v Hwf Hwt. exact (json_roundtrip t Hwf v Hwt). Qed.
Print Assumptions C32_roundtrip.

(** Consequently the wire form determines the value: distinct values of a type never share a JSON form
    (in particular a non-missing value is never sent as null). *)
Theorem C32_injective : forall (t : ty) (v1 v2 : value),
  wf_ty t = true -> wt_json t v1 = true -> wt_json t v2 = true -> to_json t v1 = to_json t v2 -> v1 = v2.
Proof.
  intros t v1 v2 Hwf H1 H2 E.
  pose proof (json_roundtrip t Hwf v1 H1) as R1. pose proof (json_roundtrip t Hwf v2 H2) as R2.
  rewrite E in R1. congruence.
Qed.
Print Assumptions C32_injective.

(** Decimal call strings: [str(Call)] is parsed back to the same call for all allele numbers. *)
Theorem C32_call_string : forall (phased : bool) (alleles : list N),
  call_normal phased alleles = true -> parse_call (call_str phased alleles) = Some (VCall phased alleles).
Proof. exact parse_call_call_str. Qed.
Print Assumptions C32_call_string.

(** The hypotheses are satisfiable by a deeply nested example (checked by computation). *)
Example C32_example :
  let t := TStruct [([97], TDict TStr (TArray (TTuple [TFloat64; TCall; TLocus [71]])));
                    ([97; 178], TSet (TInterval TInt32));
                    ([115; 101; 108; 102], TNDArray TFloat32 2)] in
  let v := VStruct [VDict [(VStr [107], VArray [VNA; VTuple [VFloat FNaN; VCall false [1; 12]%N; VLocus [49] 5]]);
                           (VNA, VNA)];
                    VSet [VInterval (VInt 1) VNA true false; VNA];
                    VNDArray [2; 1]%Z [VFloat (FFin 0); VFloat FNInf]] in
  wf_ty t = true /\ wt_json t v = true /\ from_json t (to_json t v) = Some v.
Proof. vm_compute. repeat split. Qed.
