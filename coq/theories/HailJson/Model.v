(** C32 — model of HailType._convert_to_json(_na) / _convert_from_json(_na) (hail/python/hail/expr/types.py).
    Executable definitions only.  The JSON "wire form" is the Python object tree handed to json.dumps
    (None, bool, int, float, str, list, dict with str keys); json.dumps/json.loads themselves are not modelled.

    The model follows the code as FIXED by /verif/fixes/C32.diff: tdict._convert_to_json converts keys and values with
    the missing-aware [_convert_to_json_na] (the unfixed code calls [_convert_to_json] and raises TypeError on a missing
    dict key/value of any type whose conversion is not the identity). *)
From HailV Require Import Common.Prelude HailValues.Model.
Open Scope N_scope.

Inductive json : Type :=
| JNull
| JBool (b : bool)
| JInt (z : Z)
| JFloat (f : fl)                 (* a Python float object *)
| JStr (s : name)
| JList (l : list json)           (* list or tuple *)
| JObj (l : list (name * json)).  (* dict with str keys, insertion order *)

(* ASCII constants *)
Definition s_key := [107; 101; 121].
Definition s_value := [118; 97; 108; 117; 101].
Definition s_contig := [99; 111; 110; 116; 105; 103].
Definition s_position := [112; 111; 115; 105; 116; 105; 111; 110].
Definition s_start := [115; 116; 97; 114; 116].
Definition s_end := [101; 110; 100].
Definition s_includeStart := [105; 110; 99; 108; 117; 100; 101; 83; 116; 97; 114; 116].
Definition s_includeEnd := [105; 110; 99; 108; 117; 100; 101; 69; 110; 100].
Definition s_shape := [115; 104; 97; 112; 101].
Definition s_data := [100; 97; 116; 97].
Definition s_nan := [110; 97; 110].
Definition s_inf := [105; 110; 102].
Definition s_neginf := [45; 105; 110; 102].
Definition c_bar := 124.     (* | *)
Definition c_slash := 47.    (* / *)
Definition c_minus := 45.    (* - *)

(** ** Calls: [str(call)] (hail/genetics/call.py) and _tcall._convert_from_json *)
Definition call_str (phased : bool) (alleles : list N) : name :=
  match alleles with
  | [] => if phased then [c_bar; c_minus] else [c_minus]
  | [a] => if phased then c_bar :: dec_of_N a else dec_of_N a
  | [a0; a1] => dec_of_N a0 ++ (if phased then c_bar else c_slash) :: dec_of_N a1
  | _ => []
  end.

(** the [while i < n] scan for the first '|' or '/' : (prefix, Some (separator, suffix)) *)
Fixpoint split_sep (x : name) : name * option (N * name) :=
  match x with
  | [] => ([], None)
  | c :: r =>
    if (c =? c_bar) || (c =? c_slash) then ([], Some (c, r))
    else let '(pre, post) := split_sep r in (c :: pre, post)
  end.

Definition parse_call (x : name) : option value :=
  if name_eqb x [c_minus] then Some (mk_call false [])
  else if name_eqb x [c_bar; c_minus] then Some (mk_call true [])
  else
    match x with
    | [] => None                                            (* x[0] raises IndexError *)
    | c0 :: rest =>
      if c0 =? c_bar then
        match N_of_dec rest with Some a => Some (mk_call true [a]) | None => None end
      else
        match split_sep x with
        | (_, None) => match N_of_dec x with Some a => Some (mk_call false [a]) | None => None end
        | (pre, Some (c, suf)) =>
          match N_of_dec pre, N_of_dec suf with
          | Some a, Some b => Some (mk_call (c =? c_bar) [a; b])
          | _, _ => None
          end
        end
    end.

(** ** dict access *)
Fixpoint jget (k : name) (o : list (name * json)) : option json :=
  match o with
  | [] => None
  | (k', j) :: r => if name_eqb k k' then Some j else jget k r
  end.

(** [x.get(f)] *)
Definition jget_default (k : name) (o : list (name * json)) : json :=
  match jget k o with Some j => j | None => JNull end.

Fixpoint omap {A B} (f : A -> option B) (l : list A) : option (list B) :=
  match l with
  | [] => Some []
  | x :: r => match f x, omap f r with Some y, Some ys => Some (y :: ys) | _, _ => None end
  end.

(** ** to JSON *)
Definition float_json (f : fl) : json :=
  match f with
  | FFin _ => JFloat f          (* math.isfinite(x): the float itself *)
  | FNaN => JStr s_nan           (* str(x) *)
  | FPInf => JStr s_inf
  | FNInf => JStr s_neginf
  end.

(** ndarray.tolist(): numpy scalars become Python scalars; NaN/inf stay floats *)
Definition scalar_json (v : value) : json :=
  match v with
  | VInt z => JInt z
  | VFloat f => JFloat f
  | VBool b => JBool b
  | _ => JNull
  end.

Fixpoint to_json (t : ty) (v : value) {struct t} : json :=
  match v with
  | VNA => JNull                                  (* _convert_to_json_na *)
  | _ =>
    match t, v with
    | TInt32, VInt z | TInt64, VInt z => JInt z
    | TFloat32, VFloat f | TFloat64, VFloat f => float_json f
    | TBool, VBool b => JBool b
    | TStr, VStr s => JStr s
    | TCall, VCall p al => JStr (call_str p al)
    | TLocus _, VLocus c pos => JObj [(s_contig, JStr c); (s_position, JInt pos)]
    | TInterval p, VInterval s e i_s i_e =>
        JObj [(s_start, to_json p s); (s_end, to_json p e); (s_includeStart, JBool i_s); (s_includeEnd, JBool i_e)]
    | TArray e, VArray l => JList (map (to_json e) l)
    | TSet e, VSet l => JList (map (to_json e) l)
    | TDict k w, VDict l =>
        JList (map (fun kv => JObj [(s_key, to_json k (fst kv)); (s_value, to_json w (snd kv))]) l)
    | TStruct fs, VStruct vs =>
        JObj ((fix go (fs : list (name * ty)) (vs : list value) : list (name * json) :=
                 match fs, vs with
                 | f :: fs', x :: vs' => (fst f, to_json (snd f) x) :: go fs' vs'
                 | _, _ => []
                 end) fs vs)
    | TTuple ts, VTuple vs =>
        JList ((fix go (ts : list ty) (vs : list value) : list json :=
                  match ts, vs with
                  | t' :: ts', x :: vs' => to_json t' x :: go ts' vs'
                  | _, _ => []
                  end) ts vs)
    | TNDArray _ _, VNDArray shape data =>
        JObj [(s_shape, JList (map JInt shape)); (s_data, JList (map scalar_json data))]
    | _, _ => JNull
    end
  end.

(** ** from JSON *)
Definition float_of_json (j : json) : option value :=
  match j with
  | JFloat f => Some (VFloat f)                    (* float(x) on a float *)
  | JStr s =>                                       (* float('nan') etc. *)
      if name_eqb s s_nan then Some (VFloat FNaN)
      else if name_eqb s s_inf then Some (VFloat FPInf)
      else if name_eqb s s_neginf then Some (VFloat FNInf)
      else None
  | _ => None
  end.

(** np.array(data, dtype=...) element by element *)
Definition scalar_of_json (e : ty) (j : json) : option value :=
  match e, j with
  | TInt32, JInt z | TInt64, JInt z => Some (VInt z)
  | TFloat32, JFloat f | TFloat64, JFloat f => Some (VFloat f)
  | TBool, JBool b => Some (VBool b)
  | _, _ => None
  end.

Definition int_of_json (j : json) : option Z := match j with JInt z => Some z | _ => None end.

Fixpoint from_json (t : ty) (j : json) {struct t} : option value :=
  match j with
  | JNull => Some VNA                               (* _convert_from_json_na *)
  | _ =>
    match t with
    | TInt32 | TInt64 => match j with JInt z => Some (VInt z) | _ => None end
    | TFloat32 | TFloat64 => float_of_json j
    | TBool => match j with JBool b => Some (VBool b) | _ => None end
    | TStr => match j with JStr s => Some (VStr s) | _ => None end
    | TCall => match j with JStr s => parse_call s | _ => None end
    | TLocus _ =>
        match j with
        | JObj o =>
          match jget s_contig o, jget s_position o with
          | Some (JStr c), Some (JInt p) => Some (VLocus c p)
          | _, _ => None
          end
        | _ => None
        end
    | TInterval p =>
        match j with
        | JObj o =>
          match jget s_start o, jget s_end o, jget s_includeStart o, jget s_includeEnd o with
          | Some js, Some je, Some (JBool i_s), Some (JBool i_e) =>
            match from_json p js, from_json p je with
            | Some s, Some e => Some (VInterval s e i_s i_e)
            | _, _ => None
            end
          | _, _, _, _ => None
          end
        | _ => None
        end
    | TArray e => match j with JList l => option_map VArray (omap (from_json e) l) | _ => None end
    | TSet e => match j with JList l => option_map VSet (omap (from_json e) l) | _ => None end
    | TDict k w =>
        match j with
        | JList l =>
          option_map VDict
            (omap (fun elt =>
                     match elt with
                     | JObj o =>
                       match jget s_key o, jget s_value o with
                       | Some jk, Some jv =>
                         match from_json k jk, from_json w jv with
                         | Some a, Some b => Some (a, b)
                         | _, _ => None
                         end
                       | _, _ => None
                       end
                     | _ => None
                     end) l)
        | _ => None
        end
    | TStruct fs =>
        match j with
        | JObj o =>
          option_map VStruct
            ((fix go (fs : list (name * ty)) : option (list value) :=
                match fs with
                | [] => Some []
                | f :: fs' =>
                  match from_json (snd f) (jget_default (fst f) o), go fs' with
                  | Some x, Some xs => Some (x :: xs)
                  | _, _ => None
                  end
                end) fs)
        | _ => None
        end
    | TTuple ts =>
        match j with
        | JList l =>
          option_map VTuple
            ((fix go (ts : list ty) (l : list json) : option (list value) :=
                match ts, l with
                | [], _ => Some []
                | _ :: _, [] => None                 (* x[i]: IndexError *)
                | t' :: ts', x :: l' =>
                  match from_json t' x, go ts' l' with
                  | Some y, Some ys => Some (y :: ys)
                  | _, _ => None
                  end
                end) ts l)
        | _ => None
        end
    | TNDArray e nd =>
        if is_numeric e then
          match j with
          | JObj o =>
            match jget s_shape o, jget s_data o with
            | Some (JList sh), Some (JList d) =>
              match omap int_of_json sh, omap (scalar_of_json e) d with
              | Some shape, Some data =>
                if Z.eqb (Z.of_nat (length data)) (zprod shape) then Some (VNDArray shape data) else None
              | _, _ => None
              end
            | _, _ => None
            end
          | _ => None
          end
        else None                                    (* TypeError: non-numeric ndarrays cannot be returned *)
    end
  end.

(** ** the domain of the property: no constraint on scalars beyond their class; strings arbitrary;
    calls have at most two (natural) alleles. *)
Definition wt_json : ty -> value -> bool :=
  wt (fun _ _ => true) (fun _ _ => true) (fun _ => true) (fun _ _ => true) (fun _ => true) (fun _ => true).
