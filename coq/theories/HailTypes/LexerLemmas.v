(** C31 — what the engine's identifier lexer (model) does with the identifiers the front end emits. *)
From HailV Require Import Common.Prelude HailValues.Model HailValues.Lemmas HailTypes.Peg HailTypes.Model
  HailTypes.EscLemmas HailTypes.Lexer.
Open Scope N_scope.

Section LexerLemmas.
  Variable java_start_hi : N -> bool.
  Variable java_part_hi : N -> bool.
  Variable uni_word : N -> bool.
  Notation java_start := (java_start java_start_hi).
  Notation java_part := (java_part java_part_hi).
  Notation lex_identifier := (lex_identifier java_start_hi java_part_hi).
  Notation engine_reads := (engine_reads java_start_hi java_part_hi uni_word).
  Notation engine_safe := (engine_safe java_part_hi uni_word).

  Lemma span_app' (p : N -> bool) (a s : name) :
    forallb p a = true -> match s with [] => True | c :: _ => p c = false end -> span p (a ++ s) = (a, s).
  Proof.
    intros Ha Hs. induction a as [|x a IH]; cbn [app].
    - destruct s as [|c s]; cbn [span]; [reflexivity|rewrite Hs; reflexivity].
    - cbn [forallb] in Ha. apply andb_true_iff in Ha as [Hx Ha]. cbn [span]. rewrite Hx, (IH Ha). reflexivity.
  Qed.

  Lemma utf16_small (l : name) : forallb (fun c => c <? 65536) l = true -> utf16 l = l.
  Proof.
    induction l as [|c l IH]; cbn [forallb]; intro H; [reflexivity|]. apply andb_true_iff in H as [Hc Hl].
    unfold utf16. cbn [flat_map]. fold (utf16 l). rewrite (IH Hl). unfold utf16_char. rewrite Hc. reflexivity.
  Qed.

  Lemma utf16_app a b : utf16 (a ++ b) = utf16 a ++ utf16 b.
  Proof. unfold utf16. apply flat_map_app. Qed.

  (** every character of an escaped body is ASCII *)
  Lemma hexd_small d : d < 16 -> hexd d < 128.
  Proof. unfold hexd. intro H. destruct (d <? 10); lia. Qed.

  Lemma hex_fixed_small k c : forallb (fun x => x <? 65536) (hex_fixed k c) = true.
  Proof.
    revert c; induction k as [|k IH]; intro c; cbn [hex_fixed]; [reflexivity|].
    rewrite forallb_app, IH. cbn [forallb andb].
    assert (H : hexd (c mod 16) < 128) by (apply hexd_small; apply N.mod_lt; lia).
    destruct (hexd (c mod 16) <? 65536) eqn:E; [reflexivity|]. apply N.ltb_ge in E. lia.
  Qed.

  Lemma esc_char_small c : forallb (fun x => x <? 65536) (esc_char c) = true.
  Proof.
    destruct (ue_classify c) as [H|H|H|H|H|H H1 H2|H H1 H2 H3 H4|H|H]; try subst c; try reflexivity;
      ue_unfold c; cbn [forallb]; rewrite ?hex_fixed_small; try reflexivity.
    replace (c <? 65536) with true by lia. reflexivity.
  Qed.

  Lemma escaped_body_small n : forallb (fun x => x <? 65536) (flat_map esc_char n) = true.
  Proof. induction n as [|c n IH]; [reflexivity|]. cbn [flat_map]. rewrite forallb_app, esc_char_small, IH. reflexivity. Qed.

  (** ** quotedLiteral on the escapes of engine-safe characters *)
  Lemma quoted_raw_plain (p X : name) :
    Forall (fun x => x <> 96 /\ x <> 92 /\ x <> 10) p ->
    quoted_raw (p ++ X) = match quoted_raw X with Some (b, r) => Some (p ++ b, r) | None => None end.
  Proof.
    induction 1 as [|x p [H1 [H2 _]] _ IH]; cbn [app]; [destruct (quoted_raw X) as [[b r]|]; reflexivity|].
    cbn [quoted_raw]. destruct (x =? 96) eqn:E1; [lia|]. destruct (x =? 92) eqn:E2; [lia|].
    rewrite IH. destruct (quoted_raw X) as [[b r]|]; reflexivity.
  Qed.

  Lemma quoted_raw_pair d (X : name) :
    existsb (N.eqb d) escape_chars = true ->
    quoted_raw (92 :: d :: X) = match quoted_raw X with Some (b, r) => Some (92 :: d :: b, r) | None => None end.
  Proof. intro H. cbn [quoted_raw N.eqb Pos.eqb]. rewrite H. reflexivity. Qed.

  Lemma quoted_raw_esc_char c (X : name) :
    esc_safe c = true ->
    quoted_raw (esc_char c ++ X) = match quoted_raw X with Some (b, r) => Some (esc_char c ++ b, r) | None => None end.
  Proof.
    intro Hs. unfold esc_safe in Hs.
    destruct (ue_classify c) as [H|H|H|H|H|H H1 H2|H H1 H2 H3 H4|H|H]; try subst c.
    - cbn [esc_char ue_char N.eqb Pos.eqb app]. rewrite quoted_raw_pair by reflexivity. reflexivity.
    - cbn [esc_char ue_char N.eqb Pos.eqb app]. rewrite quoted_raw_pair by reflexivity. reflexivity.
    - cbn [esc_char ue_char N.eqb Pos.eqb app]. rewrite quoted_raw_pair by reflexivity. reflexivity.
    - cbn [esc_char ue_char N.eqb Pos.eqb app]. rewrite quoted_raw_pair by reflexivity. reflexivity.
    - cbn [esc_char ue_char N.eqb Pos.eqb app]. rewrite quoted_raw_pair by reflexivity. reflexivity.
    - ue_unfold c. cbn [app]. apply (quoted_raw_plain [c]). constructor; [lia|constructor].
    - lia.
    - ue_unfold c. cbn [app]. rewrite quoted_raw_pair by reflexivity.
      rewrite (quoted_raw_plain _ X (hex_fixed_plain 4 c)). destruct (quoted_raw X) as [[b r]|]; reflexivity.
    - lia.
  Qed.

  Lemma quoted_raw_escaped (n : name) (rest : name) : forallb esc_safe n = true ->
    quoted_raw (flat_map esc_char n ++ 96 :: rest) = Some (flat_map esc_char n, rest).
  Proof.
    induction n as [|c n IH]; cbn [forallb flat_map app]; intro H; [reflexivity|].
    apply andb_true_iff in H as [Hc Hn]. rewrite <- app_assoc, quoted_raw_esc_char, (IH Hn) by exact Hc. reflexivity.
  Qed.

  (** ** unescapeString on them *)
  Lemma unescape_string_char f c (X : name) : esc_safe c = true ->
    unescape_string (S f) (esc_char c ++ X) = option_map (cons c) (unescape_string f X).
  Proof.
    intro Hs. unfold esc_safe in Hs.
    destruct (ue_classify c) as [H|H|H|H|H|H H1 H2|H H1 H2 H3 H4|H|H]; try subst c; try reflexivity.
    - ue_unfold c. cbn [app unescape_string]. destruct (c =? 92) eqn:E'; [lia|]. reflexivity.
    - lia.
    - ue_unfold c. cbn [app unescape_string N.eqb Pos.eqb]. rewrite take_hex_fixed by (cbn; lia). reflexivity.
    - lia.
  Qed.

  Lemma esc_char_nonempty c : (1 <= length (esc_char c))%nat.
  Proof. unfold esc_char. destruct (c =? 96); [cbn; lia|apply ue_char_nonempty]. Qed.

  Lemma unescape_string_all (n : name) : forallb esc_safe n = true ->
    forall f, (length (flat_map esc_char n) < f)%nat -> unescape_string f (flat_map esc_char n) = Some n.
  Proof.
    induction n as [|c n IH]; cbn [forallb flat_map]; intros Hn f Hf.
    - destruct f; [lia|reflexivity].
    - apply andb_true_iff in Hn as [Hc Hn]. destruct f as [|f]; [lia|].
      rewrite unescape_string_char by exact Hc. rewrite IH; [reflexivity|exact Hn|].
      rewrite app_length in Hf. pose proof (esc_char_nonempty c). lia.
  Qed.

  Lemma esc_safe_small n : forallb esc_safe n = true -> forallb (fun c => c <? 65536) n = true.
  Proof.
    intro H. rewrite forallb_forall in *. intros c Hc. specialize (H c Hc). unfold esc_safe in H. lia.
  Qed.

  (** ** the proved part: engine-safe names are read back exactly *)
  Theorem engine_reads_safe (n : name) (D : N) (rest : name) :
    engine_safe n = true -> java_part D = false -> engine_reads n D rest.
  Proof.
    intros Hsafe HD. unfold Lexer.engine_reads, Lexer.engine_safe, Model.escape_parsable in *.
    destruct (is_bare uni_word n) eqn:Hb.
    - (* bare identifier *)
      destruct n as [|c r]; [discriminate|]. cbn [Model.is_bare] in Hb. apply andb_true_iff in Hb as [Hc _].
      cbn [tl] in Hsafe.
      assert (Hc128 : c <? 65536 = true) by lia.
      unfold utf16 at 1 2. cbn [flat_map]. fold (utf16 r). unfold utf16_char. rewrite Hc128. cbn [app].
      unfold Lexer.lex_identifier, lex_backtick. destruct (c =? 96) eqn:E96; [lia|].
      unfold lex_ident.
      assert (Hs : java_start c = true) by (unfold Lexer.java_start; destruct (c <? 128) eqn:E; lia).
      rewrite Hs. rewrite (span_app' java_part (utf16 r) (D :: rest) Hsafe HD). reflexivity.
    - (* back-ticked *)
      set (body := flat_map esc_char n).
      assert (Hu : utf16 (96 :: body ++ [96]) = 96 :: body ++ [96]).
      { apply utf16_small. cbn [forallb]. rewrite forallb_app. subst body. rewrite escaped_body_small. reflexivity. }
      rewrite Hu. rewrite (utf16_small n (esc_safe_small n Hsafe)).
      unfold Lexer.lex_identifier, lex_backtick. cbn [app N.eqb Pos.eqb]. rewrite <- app_assoc. cbn [app].
      subst body. rewrite quoted_raw_escaped by exact Hsafe.
      rewrite unescape_string_all by (exact Hsafe || lia). reflexivity.
  Qed.

  (** ** the refuted part *)
  (** U+00E9 (e acute) is sent as `\xe9`, an escape the engine's quotedLiteral rejects *)
  Lemma engine_rejects_latin1 : ~ engine_reads [233] 58 [].
  Proof. unfold Lexer.engine_reads. vm_compute. discriminate. Qed.

  (** a control character is sent as `\x01` *)
  Lemma engine_rejects_control : ~ engine_reads [1] 58 [].
  Proof. unfold Lexer.engine_reads. vm_compute. discriminate. Qed.

  (** an astral character is sent as `\U0001f600` *)
  Lemma engine_rejects_astral : ~ engine_reads [128512] 58 [].
  Proof. unfold Lexer.engine_reads. vm_compute. discriminate. Qed.

  (** a name that Python's [_a-zA-Z][\w_]* accepts is sent bare; a² is not a Java identifier *)
  Lemma engine_rejects_bare_superscript :
    uni_word 178 = true -> java_part_hi 178 = false -> ~ engine_reads [97; 178] 58 [].
  Proof.
    intros Hw Hj. unfold Lexer.engine_reads, Model.escape_parsable.
    assert (Hb : is_bare uni_word [97; 178] = true).
    { cbn [Model.is_bare forallb]. unfold Peg.is_word. cbn [N.ltb N.compare Pos.compare Pos.compare_cont].
      rewrite Hw. reflexivity. }
    rewrite Hb. unfold Lexer.lex_identifier. cbn.
    unfold Lexer.java_part. cbn [N.ltb N.compare Pos.compare Pos.compare_cont]. rewrite Hj. discriminate.
  Qed.
End LexerLemmas.
