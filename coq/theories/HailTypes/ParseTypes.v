(** C31 — parsing printed types, part 3: compound types; the main induction. *)
From HailV Require Import Common.Prelude HailValues.Model HailValues.Lemmas HailTypes.Peg HailTypes.Model
  HailTypes.PegLemmas HailTypes.EscLemmas HailTypes.ParseBase HailTypes.ParseIdent.
From Coq Require Import String.
Open Scope N_scope.

Section ParseTypes.
  Variable uni_word : N -> bool.
  Variable uni_space : N -> bool.
  Notation RUN := (runs uni_word uni_space type_grammar).
  Notation show := (show uni_word).
  Notation escape_parsable := (escape_parsable uni_word).
  Notation nonspace_head := (nonspace_head uni_space).
  Notation PT := (PT uni_word uni_space).
  Notation ws_runs := (ws_runs uni_word uni_space).
  Notation lit_runs := (lit_runs uni_word uni_space).
  Notation type_wrap := (type_wrap uni_word uni_space).

  Ltac fails_compute :=
    repeat (first [apply Forall_nil | apply Forall_cons]);
    (eapply runs_of_compute with (f0 := 9%nat); [vm_compute; reflexivity | discriminate]).

  Lemma kw_alt tkw kw X :
    strip_prefix tkw (kw ++ X) = None ->
    alt_runs uni_word uni_space type_grammar [PLit tkw; PLit kw] (kw ++ X) (Node [] kw []) X.
  Proof. intro H. apply alt_skip; [apply runs_lit_fail; exact H|]. apply alt_here. apply lit_runs. Qed.

  Lemma visit_kw kw : visit (Node [] kw [Node [] kw []]) = Some (VL [VL []]).
  Proof. reflexivity. Qed.

  (** ** K<T> : array, set, stream, interval *)
  Lemma PT_unary (k : string) (kw : name) (mk : hty -> hty) (before after : list pexp) (T : hty) :
    lookup (codes k) type_grammar = Some (PSeq [PAlt [PLit (116 :: kw); PLit kw]; ws; L "<"; R "type"; L ">"]) ->
    type_alts = before ++ R k :: after ->
    (forall X, strip_prefix (116 :: kw) (kw ++ X) = None) ->
    (forall X, Forall (fun e => RUN e (kw ++ 60 :: X) Fail) before) ->
    nonspace_head kw -> kw <> [] ->
    (forall txt a b c d, visit_node (codes k) txt [a; b; c; VT T; d] = Some (VT (mk T))) ->
    show (mk T) = kw ++ 60 :: show T ++ [62] ->
    PT T -> PT (mk T).
  Proof.
    intros Hlook Halts Hstrip Hbefore Hkw Hne Hvis Hshow HT pre rest Hpre Hrest.
    rewrite Hshow.
    destruct (HT [] (62 :: rest) (or_introl eq_refl)) as (trT & HrunT & HvisT); [cbn; auto|].
    cbn [app] in HrunT.
    set (Y := show T ++ 62 :: rest) in *.
    pose (children := [Node [] kw [Node [] kw []]; Node (codes "_") [] []; Node [] (codes "<") []; trT; Node [] (codes ">") []]).
    assert (Hrule : RUN (R k) (kw ++ 60 :: Y) (Ok (Node (codes k) (List.concat (map tree_text children)) children, rest))).
    { eapply runs_ref; [exact Hlook|]. apply runs_seq.
      eapply seq_cons; [apply (runs_alt _ _ _ _ _ (Node [] kw [])); apply kw_alt; apply Hstrip|].
      eapply seq_cons; [apply (ws_runs [] (60 :: Y)); [left; reflexivity|reflexivity]|].
      eapply seq_cons; [apply (lit_runs (codes "<") Y)|].
      eapply seq_cons; [exact HrunT|].
      eapply seq_cons; [apply (lit_runs (codes ">") rest)|]. apply seq_nil. }
    replace ((kw ++ 60 :: show T ++ [62]) ++ rest) with (kw ++ 60 :: Y)
      by (subst Y; rewrite <- !app_assoc; cbn [app]; rewrite <- app_assoc; reflexivity).
    eapply type_wrap; [exact Halts|exact Hpre| |apply ok_follow_nonspace; exact Hrest|apply Hbefore|exact Hrule|].
    - destruct kw; [congruence|exact Hkw].
    - rewrite visit_Node. subst children. cbn [omapv]. rewrite visit_kw, visit_ws, !visit_leaf, HvisT. apply Hvis.
  Qed.

  Lemma PT_array T : PT T -> PT (HArray T).
  Proof.
    apply (PT_unary "array" (codes "array") HArray [] (tl type_alts)); try reflexivity.
    - intro X. constructor.
    - discriminate.
  Qed.

  Lemma PT_interval T : PT T -> PT (HInterval T).
  Proof.
    apply (PT_unary "interval" (codes "interval") HInterval (firstn 4 type_alts) (skipn 5 type_alts)); try reflexivity.
    - intro X. cbn [firstn type_alts]. fails_compute.
    - discriminate.
  Qed.

  Lemma PT_set T : PT T -> PT (HSet T).
  Proof.
    apply (PT_unary "set" (codes "set") HSet (firstn 12 type_alts) (skipn 13 type_alts)); try reflexivity.
    - intro X. cbn [firstn type_alts]. fails_compute.
    - discriminate.
  Qed.

  Lemma PT_stream T : PT T -> PT (HStream T).
  Proof.
    apply (PT_unary "stream" (codes "stream") HStream (firstn 13 type_alts) (skipn 14 type_alts)); try reflexivity.
    - intro X. cbn [firstn type_alts]. fails_compute.
    - discriminate.
  Qed.

  (** ** dict<K, V> *)
  Lemma PT_dict K V : PT K -> PT V -> PT (HDict K V).
  Proof.
    intros HK HV pre rest Hpre Hrest. cbn [Model.show].
    destruct (HV [32] (62 :: rest) (or_intror eq_refl)) as (trV & HrunV & HvisV); [cbn; auto|].
    set (Z := [32] ++ show V ++ 62 :: rest) in *.
    destruct (HK [] (44 :: Z) (or_introl eq_refl)) as (trK & HrunK & HvisK); [cbn; auto|].
    cbn [app] in HrunK. set (Y := show K ++ 44 :: Z) in *.
    pose (kw := codes "dict").
    pose (children := [Node [] kw [Node [] kw []]; Node (codes "_") [] []; Node [] (codes "<") []; trK;
                       Node [] (codes ",") []; trV; Node [] (codes ">") []]).
    assert (Hrule : RUN (R "dict") (kw ++ 60 :: Y) (Ok (Node (codes "dict") (List.concat (map tree_text children)) children, rest))).
    { eapply runs_ref; [reflexivity|]. apply runs_seq.
      eapply seq_cons; [apply (runs_alt _ _ _ _ _ (Node [] kw [])); apply kw_alt; reflexivity|].
      eapply seq_cons; [apply (ws_runs [] (60 :: Y)); [left; reflexivity|reflexivity]|].
      eapply seq_cons; [apply (lit_runs (codes "<") Y)|].
      eapply seq_cons; [exact HrunK|].
      eapply seq_cons; [apply (lit_runs (codes ",") Z)|].
      eapply seq_cons; [exact HrunV|].
      eapply seq_cons; [apply (lit_runs (codes ">") rest)|]. apply seq_nil. }
    replace ((lit "dict<" ++ show K ++ lit ", " ++ show V ++ lit ">") ++ rest) with (kw ++ 60 :: Y)
      by (subst Y Z kw; cbn [lit codes app]; rewrite <- !app_assoc; cbn [app]; rewrite <- !app_assoc; reflexivity).
    eapply (type_wrap pre _ rest (firstn 3 type_alts) "dict" (skipn 4 type_alts));
      [reflexivity|exact Hpre|reflexivity|apply ok_follow_nonspace; exact Hrest| |exact Hrule|].
    - cbn [firstn type_alts]. subst kw. fails_compute.
    - rewrite visit_Node. subst children. cbn [omapv]. rewrite visit_kw, visit_ws, !visit_leaf, HvisK, HvisV. reflexivity.
  Qed.

  (** ** ndarray<T, n> *)
  Lemma PT_ndarray T n : PT T -> PT (HNDArray T n).
  Proof.
    intros HT pre rest Hpre Hrest. cbn [Model.show].
    destruct (nat_runs uni_word uni_space n rest) as (trN & HrunN & HvisN).
    set (Z := [32] ++ dec_of_N n ++ 62 :: rest) in *.
    destruct (HT [] (44 :: Z) (or_introl eq_refl)) as (trT & HrunT & HvisT); [cbn; auto|].
    cbn [app] in HrunT. set (Y := show T ++ 44 :: Z) in *.
    pose (kw := codes "ndarray").
    pose (children := [Node [] kw [Node [] kw []]; Node (codes "_") [] []; Node [] (codes "<") []; trT;
                       Node [] (codes ",") []; trN; Node [] (codes ">") []]).
    assert (Hrule : RUN (R "ndarray") (kw ++ 60 :: Y) (Ok (Node (codes "ndarray") (List.concat (map tree_text children)) children, rest))).
    { eapply runs_ref; [reflexivity|]. apply runs_seq.
      eapply seq_cons; [apply (runs_alt _ _ _ _ _ (Node [] kw [])); apply kw_alt; reflexivity|].
      eapply seq_cons; [apply (ws_runs [] (60 :: Y)); [left; reflexivity|reflexivity]|].
      eapply seq_cons; [apply (lit_runs (codes "<") Y)|].
      eapply seq_cons; [exact HrunT|].
      eapply seq_cons; [apply (lit_runs (codes ",") Z)|].
      eapply seq_cons; [exact HrunN|].
      eapply seq_cons; [apply (lit_runs (codes ">") rest)|]. apply seq_nil. }
    replace ((lit "ndarray<" ++ show T ++ lit ", " ++ dec_of_N n ++ lit ">") ++ rest) with (kw ++ 60 :: Y)
      by (subst Y Z kw; cbn [lit codes app]; rewrite <- !app_assoc; cbn [app]; rewrite <- !app_assoc; reflexivity).
    eapply (type_wrap pre _ rest (firstn 10 type_alts) "ndarray" (skipn 11 type_alts));
      [reflexivity|exact Hpre|reflexivity|apply ok_follow_nonspace; exact Hrest| |exact Hrule|].
    - cbn [firstn type_alts]. subst kw. fails_compute.
    - rewrite visit_Node. subst children. cbn [omapv]. rewrite visit_kw, visit_ws, !visit_leaf, HvisT, HvisN. reflexivity.
  Qed.

  (** ** locus<name> *)
  Lemma PT_locus rg : name_ok rg = true -> PT (HLocus rg).
  Proof.
    intros Hrg pre rest Hpre Hrest. cbn [Model.show].
    destruct (identifier_runs uni_word uni_space [] rg 62 rest (or_introl eq_refl) Hrg (or_intror eq_refl))
      as (trI & HrunI & HvisI).
    cbn [app] in HrunI. set (Y := escape_parsable rg ++ 62 :: rest) in *.
    pose (kw := codes "locus").
    pose (children := [Node [] kw [Node [] kw []]; Node (codes "_") [] []; Node [] (codes "<") []; trI; Node [] (codes ">") []]).
    assert (Hrule : RUN (R "locus") (kw ++ 60 :: Y) (Ok (Node (codes "locus") (List.concat (map tree_text children)) children, rest))).
    { eapply runs_ref; [reflexivity|]. apply runs_seq.
      eapply seq_cons; [apply (runs_alt _ _ _ _ _ (Node [] kw [])); apply kw_alt; reflexivity|].
      eapply seq_cons; [apply (ws_runs [] (60 :: Y)); [left; reflexivity|reflexivity]|].
      eapply seq_cons; [apply (lit_runs (codes "<") Y)|].
      eapply seq_cons; [exact HrunI|].
      eapply seq_cons; [apply (lit_runs (codes ">") rest)|]. apply seq_nil. }
    replace ((lit "locus<" ++ escape_parsable rg ++ lit ">") ++ rest) with (kw ++ 60 :: Y)
      by (subst Y kw; cbn [lit codes app]; rewrite <- !app_assoc; reflexivity).
    eapply (type_wrap pre _ rest (firstn 9 type_alts) "locus" (skipn 10 type_alts));
      [reflexivity|exact Hpre|reflexivity|apply ok_follow_nonspace; exact Hrest| |exact Hrule|].
    - cbn [firstn type_alts]. subst kw. fails_compute.
    - rewrite visit_Node. subst children. cbn [omapv]. rewrite visit_kw, visit_ws, !visit_leaf, HvisI. reflexivity.
  Qed.

  (** ** struct{f: T, ...} *)
  Definition fstr (f : name * hty) : name := escape_parsable (fst f) ++ lit ": " ++ show (snd f).

  Lemma join_cons2 sep x y ys : join sep (x :: y :: ys) = x ++ sep ++ join sep (y :: ys).
  Proof. reflexivity. Qed.

  Lemma join_cons sep x xs : join sep (x :: xs) = x ++ List.concat (map (fun y => sep ++ y) xs).
  Proof.
    revert x; induction xs as [|y ys IH]; intro x.
    - cbn [join map List.concat]. rewrite app_nil_r. reflexivity.
    - rewrite join_cons2, (IH y). cbn [map List.concat]. rewrite <- app_assoc. reflexivity.
  Qed.

  Lemma show_struct fs : show (HStruct fs) = lit "struct{" ++ join (lit ", ") (map fstr fs) ++ lit "}".
  Proof.
    cbn [Model.show]. do 2 f_equal.
  Qed.

  Lemma show_tuple ts : show (HTuple ts) = lit "tuple(" ++ join (lit ", ") (map show ts) ++ lit ")".
  Proof.
    cbn [Model.show]. do 2 f_equal.
  Qed.

  Lemma field_runs pre f rest :
    pre_ok pre -> name_ok (fst f) = true -> PT (snd f) -> ok_follow rest ->
    exists tr, RUN (R "field") (pre ++ fstr f ++ rest) (Ok (tr, rest)) /\ visit tr = Some (VF (fst f) (snd f)).
  Proof.
    intros Hpre Hn HT Hrest. destruct f as [n T]. cbn [fst snd] in *. unfold fstr. cbn [fst snd].
    destruct (HT [32] rest (or_intror eq_refl) Hrest) as (trT & HrunT & HvisT).
    set (Z := [32] ++ show T ++ rest) in *.
    destruct (identifier_runs uni_word uni_space pre n 58 Z Hpre Hn (or_introl eq_refl)) as (trI & HrunI & HvisI).
    pose (children := [trI; Node [] (codes ":") []; trT]).
    exists (Node (codes "field") (List.concat (map tree_text children)) children). split.
    - replace (pre ++ (escape_parsable n ++ lit ": " ++ show T) ++ rest) with (pre ++ escape_parsable n ++ 58 :: Z)
        by (subst Z; cbn [lit codes app]; rewrite <- !app_assoc; reflexivity).
      eapply runs_ref; [reflexivity|]. apply runs_seq.
      eapply seq_cons; [exact HrunI|].
      eapply seq_cons; [apply (lit_runs (codes ":") Z)|].
      eapply seq_cons; [exact HrunT|]. apply seq_nil.
    - rewrite visit_Node. subst children. cbn [omapv]. rewrite HvisI, visit_leaf, HvisT. reflexivity.
  Qed.

  Definition ftails (fs : list (name * hty)) (X : name) : name :=
    List.concat (map (fun f => lit ", " ++ fstr f) fs) ++ X.

  Lemma ftails_follow fs X' : ok_follow (ftails fs (125 :: X')).
  Proof. destruct fs as [|f fs]; cbn; auto. Qed.

  Lemma rep_fields fs X' : Forall (fun f => name_ok (fst f) = true /\ PT (snd f)) fs ->
    forall c, exists trs,
      rep_runs uni_word uni_space type_grammar (PSeq [L ","; R "field"]) 0 None c (ftails fs (125 :: X')) trs (125 :: X')
      /\ omapv visit trs = Some (map (fun f => VL [VL []; VF (fst f) (snd f)]) fs).
  Proof.
    induction 1 as [|f fs [Hn HT] _ IH]; intro c.
    - exists []. split; [|reflexivity]. apply rep_stop_fail; [discriminate|].
      apply runs_seq_fail. apply seqf_here. apply runs_lit_fail. reflexivity.
    - destruct (IH (S c)) as (trs & Hrep & Hvis).
      destruct (field_runs [32] f (ftails fs (125 :: X')) (or_intror eq_refl) Hn HT (ftails_follow fs X')) as (trf & Hrunf & Hvisf).
      pose (children := [Node [] (codes ",") []; trf]).
      exists (Node [] (List.concat (map tree_text children)) children :: trs). split.
      + unfold ftails. cbn [map List.concat]. rewrite <- app_assoc. fold (ftails fs (125 :: X')).
        replace (lit ", " ++ fstr f) with (44 :: [32] ++ fstr f) by reflexivity. cbn [app].
        eapply rep_step; [discriminate| |discriminate|exact Hrep].
        apply runs_seq.
        eapply seq_cons; [apply (lit_runs (codes ",") (32 :: fstr f ++ ftails fs (125 :: X')))|].
        eapply seq_cons; [|apply seq_nil].
        replace (32 :: fstr f ++ ftails fs (125 :: X')) with ([32] ++ fstr f ++ ftails fs (125 :: X')) by reflexivity.
        exact Hrunf.
      + cbn [omapv map]. rewrite Hvis. rewrite visit_Node. subst children. cbn [omapv]. rewrite visit_leaf, Hvisf. reflexivity.
  Qed.

  Lemma second_fields fs :
    omapv second_of_pair (map (fun f : name * hty => VL [VL []; VF (fst f) (snd f)]) fs)
    = Some (map (fun f => VF (fst f) (snd f)) fs).
  Proof. induction fs as [|f fs IH]; [reflexivity|]. cbn [map omapv second_of_pair]. rewrite IH. reflexivity. Qed.

  Lemma as_fields fs : omapv as_field (map (fun f : name * hty => VF (fst f) (snd f)) fs) = Some fs.
  Proof. induction fs as [|[n t] fs IH]; [reflexivity|]. cbn [map omapv as_field fst snd]. rewrite IH. reflexivity. Qed.

  (** a dict built from pairs with distinct keys is the list of pairs *)
  Lemma dict_set_fresh k v d : ~ In k (map fst d) -> dict_set k v d = d ++ [(k, v)].
  Proof.
    induction d as [|[k' v'] d IH]; cbn [map fst In dict_set app]; intro H; [reflexivity|].
    rewrite name_eqb_neq by (intro E; apply H; left; congruence). rewrite IH by tauto. reflexivity.
  Qed.

  Lemma dict_of_pairs_nodup fs : NoDup (map fst fs) -> dict_of_pairs fs = fs.
  Proof.
    unfold dict_of_pairs.
    assert (H : forall acc, NoDup (map fst (acc ++ fs)) ->
                 fold_left (fun d kv => dict_set (fst kv) (snd kv) d) fs acc = acc ++ fs).
    { induction fs as [|[k v] fs IH]; intros acc Hnd; cbn [fold_left]; [rewrite app_nil_r; reflexivity|].
      cbn [fst snd]. rewrite dict_set_fresh.
      - rewrite IH; [rewrite <- app_assoc; reflexivity|]. rewrite <- app_assoc. exact Hnd.
      - rewrite map_app in Hnd. cbn [map fst] in Hnd. apply NoDup_remove_2 in Hnd.
        intro Hin. apply Hnd. apply in_or_app. left. exact Hin. }
    intro Hnd. apply (H []). exact Hnd.
  Qed.

  Lemma vn_generic txt vc : visit_node [] txt vc = Some (VL vc).
  Proof. reflexivity. Qed.
  Lemma vn_fields txt first rest :
    visit_node (codes "fields") txt [first; VL rest]
    = match omapv second_of_pair rest with Some fs => Some (VL (first :: fs)) | None => None end.
  Proof. reflexivity. Qed.
  Lemma vn_struct txt a b c l more d :
    visit_node (codes "struct") txt [a; b; c; VL (VL l :: more); d]
    = match omapv as_field l with Some fs => Some (VT (HStruct (dict_of_pairs fs))) | None => None end.
  Proof. reflexivity. Qed.
  Lemma vn_tuple txt a b c first rest d :
    visit_node (codes "tuple") txt [a; b; c; VL [VL [VT first; VL rest]]; d]
    = match omapv (fun v => match second_of_pair v with Some x => as_ty x | None => None end) rest with
      | Some ts => Some (VT (HTuple (first :: ts)))
      | None => None
      end.
  Proof. reflexivity. Qed.

  Ltac by_compute24 :=
    eexists; split;
    [ eapply runs_of_compute with (f0 := 24%nat); [vm_compute; reflexivity | discriminate]
    | vm_compute; reflexivity ].

  Lemma PT_struct_nil : PT (HStruct []).
  Proof.
    intros pre rest [-> | ->] Hrest;
      (destruct rest as [|c r]; [by_compute24 | cbn in Hrest; destruct Hrest as [->|[->|[->| ->]]]; by_compute24]).
  Qed.

  Lemma PT_tuple_nil : PT (HTuple []).
  Proof.
    intros pre rest [-> | ->] Hrest;
      (destruct rest as [|c r]; [by_compute24 | cbn in Hrest; destruct Hrest as [->|[->|[->| ->]]]; by_compute24]).
  Qed.

  Lemma PT_struct fs :
    NoDup (map fst fs) -> Forall (fun f => name_ok (fst f) = true /\ PT (snd f)) fs -> PT (HStruct fs).
  Proof.
    intros Hnd Hfs. destruct fs as [|f fs]; [apply PT_struct_nil|].
    intros pre rest Hpre Hrest. rewrite show_struct. cbn [map]. rewrite join_cons.
    apply Forall_cons_iff in Hfs as [[Hn HT] Hfs].
    destruct (rep_fields fs rest Hfs 0%nat) as (trs & Hrep & Hvis).
    destruct (field_runs [] f (ftails fs (125 :: rest)) (or_introl eq_refl) Hn HT (ftails_follow fs rest)) as (trf & Hrunf & Hvisf).
    cbn [app] in Hrunf.
    pose (repnode := Node [] (List.concat (map tree_text trs)) trs).
    pose (fchildren := [trf; repnode]).
    pose (fieldsnode := Node (codes "fields") (List.concat (map tree_text fchildren)) fchildren).
    assert (Hfields : RUN (R "fields") (fstr f ++ ftails fs (125 :: rest)) (Ok (fieldsnode, 125 :: rest))).
    { eapply runs_ref; [reflexivity|]. apply runs_seq.
      eapply seq_cons; [exact Hrunf|]. eapply seq_cons; [|apply seq_nil]. apply runs_star. exact Hrep. }
    assert (Hvf : visit fieldsnode = Some (VL (map (fun g => VF (fst g) (snd g)) (f :: fs)))).
    { subst fieldsnode fchildren. rewrite visit_Node. cbn [omapv]. rewrite Hvisf.
      subst repnode. rewrite (visit_Node [] _ trs), Hvis, vn_generic, vn_fields.
      rewrite second_fields. reflexivity. }
    pose (kw := codes "struct").
    set (Y := fstr f ++ ftails fs (125 :: rest)) in *.
    pose (children := [Node [] kw [Node [] kw []]; Node (codes "_") [] []; Node [] (codes "{") [];
                       Node [] (tree_text fieldsnode) [fieldsnode]; Node [] (codes "}") []]).
    assert (Hrule : RUN (R "struct") (kw ++ 123 :: Y) (Ok (Node (codes "struct") (List.concat (map tree_text children)) children, rest))).
    { eapply runs_ref; [reflexivity|]. apply runs_seq.
      eapply seq_cons; [apply (runs_alt _ _ _ _ _ (Node [] kw [])); apply kw_alt; reflexivity|].
      eapply seq_cons.
      { apply (ws_runs [] (123 :: Y)); [left; reflexivity|reflexivity]. }
      eapply seq_cons; [apply (lit_runs (codes "{") Y)|].
      eapply seq_cons; [apply runs_alt; apply alt_here; exact Hfields|].
      eapply seq_cons; [apply (lit_runs (codes "}") rest)|]. apply seq_nil. }
    replace ((lit "struct{" ++ (fstr f ++ List.concat (map (fun y => lit ", " ++ y) (map fstr fs))) ++ lit "}") ++ rest)
      with (kw ++ 123 :: Y).
    2:{ subst Y kw. unfold ftails. rewrite map_map. cbn [lit codes app]. rewrite <- !app_assoc. reflexivity. }
    eapply (type_wrap pre _ rest (firstn 14 type_alts) "struct" (skipn 15 type_alts));
      [reflexivity|exact Hpre|reflexivity|apply ok_follow_nonspace; exact Hrest| |exact Hrule|].
    - cbn [firstn type_alts]. subst kw. fails_compute.
    - rewrite visit_Node. subst children. cbn [omapv]. rewrite visit_kw, visit_ws, !visit_leaf.
      rewrite (visit_Node [] _ [fieldsnode]). cbn [omapv]. rewrite Hvf, vn_generic, vn_struct.
      rewrite as_fields, dict_of_pairs_nodup by exact Hnd. reflexivity.
  Qed.

  (** ** tuple(T, ...) *)
  Definition ttails (ts : list hty) (X : name) : name :=
    List.concat (map (fun t => lit ", " ++ show t) ts) ++ X.

  Lemma ttails_follow ts X' : ok_follow (ttails ts (41 :: X')).
  Proof. destruct ts as [|t ts]; cbn; auto. Qed.

  Lemma rep_types ts X' : Forall PT ts ->
    forall c, exists trs,
      rep_runs uni_word uni_space type_grammar (PSeq [L ","; R "type"]) 0 None c (ttails ts (41 :: X')) trs (41 :: X')
      /\ omapv visit trs = Some (map (fun t => VL [VL []; VT t]) ts).
  Proof.
    induction 1 as [|t ts HT _ IH]; intro c.
    - exists []. split; [|reflexivity]. apply rep_stop_fail; [discriminate|].
      apply runs_seq_fail. apply seqf_here. apply runs_lit_fail. reflexivity.
    - destruct (IH (S c)) as (trs & Hrep & Hvis).
      destruct (HT [32] (ttails ts (41 :: X')) (or_intror eq_refl) (ttails_follow ts X')) as (trt & Hrunt & Hvist).
      pose (children := [Node [] (codes ",") []; trt]).
      exists (Node [] (List.concat (map tree_text children)) children :: trs). split.
      + unfold ttails. cbn [map List.concat]. rewrite <- app_assoc. fold (ttails ts (41 :: X')).
        replace (lit ", " ++ show t) with (44 :: [32] ++ show t) by reflexivity. cbn [app].
        eapply rep_step; [discriminate| |discriminate|exact Hrep].
        apply runs_seq.
        eapply seq_cons; [apply (lit_runs (codes ",") (32 :: show t ++ ttails ts (41 :: X')))|].
        eapply seq_cons; [|apply seq_nil]. exact Hrunt.
      + cbn [omapv map]. rewrite Hvis. rewrite visit_Node. subst children. cbn [omapv]. rewrite visit_leaf, Hvist. reflexivity.
  Qed.

  Lemma second_types ts :
    omapv (fun v => match second_of_pair v with Some x => as_ty x | None => None end)
          (map (fun t : hty => VL [VL []; VT t]) ts) = Some ts.
  Proof. induction ts as [|t ts IH]; [reflexivity|]. cbn [map omapv second_of_pair as_ty]. rewrite IH. reflexivity. Qed.

  Lemma PT_tuple ts : Forall PT ts -> PT (HTuple ts).
  Proof.
    intros Hts. destruct ts as [|t ts]; [apply PT_tuple_nil|].
    intros pre rest Hpre Hrest. rewrite show_tuple. cbn [map]. rewrite join_cons.
    apply Forall_cons_iff in Hts as [HT Hts].
    destruct (rep_types ts rest Hts 0%nat) as (trs & Hrep & Hvis).
    destruct (HT [] (ttails ts (41 :: rest)) (or_introl eq_refl) (ttails_follow ts rest)) as (trt & Hrunt & Hvist).
    cbn [app] in Hrunt.
    pose (repnode := Node [] (List.concat (map tree_text trs)) trs).
    pose (schildren := [trt; repnode]).
    pose (seqnode := Node [] (List.concat (map tree_text schildren)) schildren).
    set (Y := show t ++ ttails ts (41 :: rest)) in *.
    assert (Hseq : RUN (PSeq [R "type"; star (PSeq [L ","; R "type"])]) Y (Ok (seqnode, 41 :: rest))).
    { apply runs_seq. eapply seq_cons; [exact Hrunt|]. eapply seq_cons; [|apply seq_nil]. apply runs_star. exact Hrep. }
    assert (Hvs : visit seqnode = Some (VL [VT t; VL (map (fun t0 : hty => VL [VL []; VT t0]) ts)])).
    { subst seqnode schildren. rewrite visit_Node. cbn [omapv]. rewrite Hvist.
      subst repnode. rewrite (visit_Node [] _ trs), Hvis, !vn_generic. reflexivity. }
    pose (kw := codes "tuple").
    pose (children := [Node [] kw [Node [] kw []]; Node (codes "_") [] []; Node [] (codes "(") [];
                       Node [] (tree_text seqnode) [seqnode]; Node [] (codes ")") []]).
    assert (Hrule : RUN (R "tuple") (kw ++ 40 :: Y) (Ok (Node (codes "tuple") (List.concat (map tree_text children)) children, rest))).
    { eapply runs_ref; [reflexivity|]. apply runs_seq.
      eapply seq_cons; [apply (runs_alt _ _ _ _ _ (Node [] kw [])); apply kw_alt; reflexivity|].
      eapply seq_cons.
      { apply (ws_runs [] (40 :: Y)); [left; reflexivity|reflexivity]. }
      eapply seq_cons; [apply (lit_runs (codes "(") Y)|].
      eapply seq_cons; [apply runs_alt; apply alt_here; exact Hseq|].
      eapply seq_cons; [apply (lit_runs (codes ")") rest)|]. apply seq_nil. }
    replace ((lit "tuple(" ++ (show t ++ List.concat (map (fun y => lit ", " ++ y) (map show ts))) ++ lit ")") ++ rest)
      with (kw ++ 40 :: Y).
    2:{ subst Y kw. unfold ttails. rewrite map_map. cbn [lit codes app]. rewrite <- !app_assoc. reflexivity. }
    eapply (type_wrap pre _ rest (firstn 16 type_alts) "tuple" (skipn 17 type_alts));
      [reflexivity|exact Hpre|reflexivity|apply ok_follow_nonspace; exact Hrest| |exact Hrule|].
    - cbn [firstn type_alts]. subst kw. fails_compute.
    - rewrite visit_Node. subst children. cbn [omapv]. rewrite visit_kw, visit_ws, !visit_leaf.
      rewrite (visit_Node [] _ [seqnode]). cbn [omapv]. rewrite Hvs, vn_generic, vn_tuple, second_types. reflexivity.
  Qed.

  (** ** every name is a list of code points (below 2^32; Unicode ends at 0x10FFFF) *)
  Fixpoint names_ok (t : hty) : bool :=
    match t with
    | HLocus rg => name_ok rg
    | HInterval e | HArray e | HSet e | HStream e | HNDArray e _ => names_ok e
    | HDict k v => names_ok k && names_ok v
    | HStruct fs => forallb (fun f => name_ok (fst f) && names_ok (snd f)) fs
    | HTuple ts => forallb names_ok ts
    | _ => true
    end.

  Section HtyInd.
    Variable P : hty -> Prop.
    Hypothesis Hscalar : forall t, match t with
                                   | HVoid | HInt32 | HInt64 | HFloat32 | HFloat64 | HBool | HStr | HCall | HRNGState
                                   | HLocus _ => True | _ => False end -> P t.
    Hypothesis Hinterval : forall e, P e -> P (HInterval e).
    Hypothesis Harray : forall e, P e -> P (HArray e).
    Hypothesis Hset : forall e, P e -> P (HSet e).
    Hypothesis Hstream : forall e, P e -> P (HStream e).
    Hypothesis Hnd : forall e n, P e -> P (HNDArray e n).
    Hypothesis Hdict : forall k v, P k -> P v -> P (HDict k v).
    Hypothesis Hstruct : forall fs, Forall (fun f => P (snd f)) fs -> P (HStruct fs).
    Hypothesis Htuple : forall ts, Forall P ts -> P (HTuple ts).

    Fixpoint hty_nested_ind (t : hty) : P t :=
      match t with
      | HInterval e => Hinterval e (hty_nested_ind e)
      | HArray e => Harray e (hty_nested_ind e)
      | HSet e => Hset e (hty_nested_ind e)
      | HStream e => Hstream e (hty_nested_ind e)
      | HNDArray e n => Hnd e n (hty_nested_ind e)
      | HDict k v => Hdict k v (hty_nested_ind k) (hty_nested_ind v)
      | HStruct fs =>
          Hstruct fs ((fix go (l : list (name * hty)) : Forall (fun f => P (snd f)) l :=
                         match l with
                         | [] => Forall_nil _
                         | f :: r => Forall_cons f (hty_nested_ind (snd f)) (go r)
                         end) fs)
      | HTuple ts =>
          Htuple ts ((fix go (l : list hty) : Forall P l :=
                        match l with [] => Forall_nil _ | x :: r => Forall_cons x (hty_nested_ind x) (go r) end) ts)
      | HVoid => Hscalar HVoid I | HInt32 => Hscalar HInt32 I | HInt64 => Hscalar HInt64 I
      | HFloat32 => Hscalar HFloat32 I | HFloat64 => Hscalar HFloat64 I | HBool => Hscalar HBool I
      | HStr => Hscalar HStr I | HCall => Hscalar HCall I | HRNGState => Hscalar HRNGState I
      | HLocus rg => Hscalar (HLocus rg) I
      end.
  End HtyInd.

  Theorem parse_show_all : forall t, wf_hty t = true -> names_ok t = true -> PT t.
  Proof.
    induction t using hty_nested_ind; intros Hwf Hn.
    - destruct t; try contradiction.
      + apply PT_void. + apply PT_int32. + apply PT_int64. + apply PT_float32. + apply PT_float64.
      + apply PT_bool. + apply PT_str. + apply PT_call. + apply PT_rng_state.
      + apply PT_locus. exact Hn.
    - apply PT_interval. apply IHt; assumption.
    - apply PT_array. apply IHt; assumption.
    - apply PT_set. apply IHt; assumption.
    - apply PT_stream. apply IHt; assumption.
    - apply PT_ndarray. apply IHt; assumption.
    - cbn [wf_hty names_ok] in *. apply andb_true_iff in Hwf as [H1 H2]. apply andb_true_iff in Hn as [H3 H4].
      apply PT_dict; [apply IHt1|apply IHt2]; assumption.
    - cbn [wf_hty names_ok] in *. apply andb_true_iff in Hwf as [Hnd Hwfs].
      apply PT_struct; [apply names_nodup_spec; exact Hnd|].
      rewrite forallb_forall in Hwfs, Hn. rewrite Forall_forall in H |- *. intros f Hf.
      specialize (Hn f Hf). apply andb_true_iff in Hn as [Hn1 Hn2].
      split; [exact Hn1|apply H; [exact Hf|apply Hwfs; exact Hf|exact Hn2]].
    - cbn [wf_hty names_ok] in *. apply PT_tuple.
      rewrite forallb_forall in Hwf, Hn. rewrite Forall_forall in H |- *. intros x Hx.
      apply H; [exact Hx|apply Hwf; exact Hx|apply Hn; exact Hx].
  Qed.

  (** [dtype(str(t)) == t] for all sufficiently large fuel *)
  Theorem dtype_show : forall t, wf_hty t = true -> names_ok t = true ->
    exists f0, forall f, (f0 <= f)%nat -> dtype uni_word uni_space f (show t) = Ok t.
  Proof.
    intros t Hwf Hn.
    destruct (parse_show_all t Hwf Hn [] [] (or_introl eq_refl) I) as (tr & [f0 Hrun] & Hvis).
    exists f0. intros f Hf. unfold dtype, dtype_with, parse_tree.
    cbn [app] in Hrun. rewrite app_nil_r in Hrun. fold (R "type"). rewrite (Hrun f Hf), Hvis. reflexivity.
  Qed.
End ParseTypes.
