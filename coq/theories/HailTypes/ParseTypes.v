(** C31 — parsing printed types, part 3: compound types; the main induction. *)
From HailV Require Import Common.Prelude HailValues.Model HailValues.Lemmas HailTypes.Peg HailTypes.Model
  HailTypes.PegLemmas HailTypes.EscLemmas HailTypes.ParseBase HailTypes.ParseIdent.
From Coq Require Import String.
Open Scope N_scope.

Section ParseTypes.
  Variable uni_word : N -> bool.
  Variable uni_space : N -> bool.
  Notation RUN := (runs uni_word uni_space type_grammar).
  Notation show := (show uni_word).
  Notation escape_parsable := (escape_parsable uni_word).
  Notation nonspace_head := (nonspace_head uni_space).
  Notation PT := (PT uni_word uni_space).
  Notation ws_runs := (ws_runs uni_word uni_space).
  Notation lit_runs := (lit_runs uni_word uni_space).
  Notation type_wrap := (type_wrap uni_word uni_space).

  Ltac fails_compute :=
    repeat (first [apply Forall_nil | apply Forall_cons]);
    (eapply runs_of_compute with (f0 := 9%nat); [vm_compute; reflexivity | discriminate]).

  Lemma kw_alt tkw kw X :
    strip_prefix tkw (kw ++ X) = None ->
    alt_runs uni_word uni_space type_grammar [PLit tkw; PLit kw] (kw ++ X) (Node [] kw []) X.
  Proof. intro H. apply alt_skip; [apply runs_lit_fail; exact H|]. apply alt_here. apply lit_runs. Qed.

  Lemma visit_kw kw : visit (Node [] kw [Node [] kw []]) = Some (VL [VL []]).
  Proof. reflexivity. Qed.

  (** ** K<T> : array, set, stream, interval *)
  Lemma PT_unary (k : string) (kw : name) (mk : hty -> hty) (before after : list pexp) (T : hty) :
    lookup (codes k) type_grammar = Some (PSeq [PAlt [PLit (116 :: kw); PLit kw]; ws; L "<"; R "type"; L ">"]) ->
    type_alts = before ++ R k :: after ->
    (forall X, strip_prefix (116 :: kw) (kw ++ X) = None) ->
    (forall X, Forall (fun e => RUN e (kw ++ 60 :: X) Fail) before) ->
    nonspace_head kw -> kw <> [] ->
    (forall txt a b c d, visit_node (codes k) txt [a; b; c; VT T; d] = Some (VT (mk T))) ->
    show (mk T) = kw ++ 60 :: show T ++ [62] ->
    PT T -> PT (mk T).
  Proof.
    intros Hlook Halts Hstrip Hbefore Hkw Hne Hvis Hshow HT pre rest Hpre Hrest.
    rewrite Hshow.
    destruct (HT [] (62 :: rest) (or_introl eq_refl)) as (trT & HrunT & HvisT); [cbn; auto|].
    cbn [app] in HrunT.
    set (Y := show T ++ 62 :: rest) in *.
    pose (children := [Node [] kw [Node [] kw []]; Node (codes "_") [] []; Node [] (codes "<") []; trT; Node [] (codes ">") []]).
    assert (Hrule : RUN (R k) (kw ++ 60 :: Y) (Ok (Node (codes k) (List.concat (map tree_text children)) children, rest))).
    { eapply runs_ref; [exact Hlook|]. apply runs_seq.
      eapply seq_cons; [apply (runs_alt _ _ _ _ _ (Node [] kw [])); apply kw_alt; apply Hstrip|].
      eapply seq_cons; [apply (ws_runs [] (60 :: Y)); [left; reflexivity|reflexivity]|].
      eapply seq_cons; [apply (lit_runs (codes "<") Y)|].
      eapply seq_cons; [exact HrunT|].
      eapply seq_cons; [apply (lit_runs (codes ">") rest)|]. apply seq_nil. }
    replace ((kw ++ 60 :: show T ++ [62]) ++ rest) with (kw ++ 60 :: Y)
      by (subst Y; rewrite <- !app_assoc; cbn [app]; rewrite <- app_assoc; reflexivity).
    eapply type_wrap; [exact Halts|exact Hpre| |apply ok_follow_nonspace; exact Hrest|apply Hbefore|exact Hrule|].
    - destruct kw; [congruence|exact Hkw].
    - rewrite visit_Node. subst children. cbn [omapv]. rewrite visit_kw, visit_ws, !visit_leaf, HvisT. apply Hvis.
  Qed.

  Lemma PT_array T : PT T -> PT (HArray T).
  Proof.
    apply (PT_unary "array" (codes "array") HArray [] (tl type_alts)); try reflexivity.
    - intro X. constructor.
    - discriminate.
  Qed.

  Lemma PT_interval T : PT T -> PT (HInterval T).
  Proof.
    apply (PT_unary "interval" (codes "interval") HInterval (firstn 4 type_alts) (skipn 5 type_alts)); try reflexivity.
    - intro X. cbn [firstn type_alts]. fails_compute.
    - discriminate.
  Qed.

  Lemma PT_set T : PT T -> PT (HSet T).
  Proof.
    apply (PT_unary "set" (codes "set") HSet (firstn 12 type_alts) (skipn 13 type_alts)); try reflexivity.
    - intro X. cbn [firstn type_alts]. fails_compute.
    - discriminate.
  Qed.

  Lemma PT_stream T : PT T -> PT (HStream T).
  Proof.
    apply (PT_unary "stream" (codes "stream") HStream (firstn 13 type_alts) (skipn 14 type_alts)); try reflexivity.
    - intro X. cbn [firstn type_alts]. fails_compute.
    - discriminate.
  Qed.

  (** ** dict<K, V> *)
  Lemma PT_dict K V : PT K -> PT V -> PT (HDict K V).
  Proof.
    intros HK HV pre rest Hpre Hrest. cbn [Model.show].
    destruct (HV [32] (62 :: rest) (or_intror eq_refl)) as (trV & HrunV & HvisV); [cbn; auto|].
    set (Z := [32] ++ show V ++ 62 :: rest) in *.
    destruct (HK [] (44 :: Z) (or_introl eq_refl)) as (trK & HrunK & HvisK); [cbn; auto|].
    cbn [app] in HrunK. set (Y := show K ++ 44 :: Z) in *.
    pose (kw := codes "dict").
    pose (children := [Node [] kw [Node [] kw []]; Node (codes "_") [] []; Node [] (codes "<") []; trK;
                       Node [] (codes ",") []; trV; Node [] (codes ">") []]).
    assert (Hrule : RUN (R "dict") (kw ++ 60 :: Y) (Ok (Node (codes "dict") (List.concat (map tree_text children)) children, rest))).
    { eapply runs_ref; [reflexivity|]. apply runs_seq.
      eapply seq_cons; [apply (runs_alt _ _ _ _ _ (Node [] kw [])); apply kw_alt; reflexivity|].
      eapply seq_cons; [apply (ws_runs [] (60 :: Y)); [left; reflexivity|reflexivity]|].
      eapply seq_cons; [apply (lit_runs (codes "<") Y)|].
      eapply seq_cons; [exact HrunK|].
      eapply seq_cons; [apply (lit_runs (codes ",") Z)|].
      eapply seq_cons; [exact HrunV|].
      eapply seq_cons; [apply (lit_runs (codes ">") rest)|]. apply seq_nil. }
    replace ((lit "dict<" ++ show K ++ lit ", " ++ show V ++ lit ">") ++ rest) with (kw ++ 60 :: Y)
      by (subst Y Z kw; cbn [lit codes app]; rewrite <- !app_assoc; cbn [app]; rewrite <- !app_assoc; reflexivity).
    eapply (type_wrap pre _ rest (firstn 3 type_alts) "dict" (skipn 4 type_alts));
      [reflexivity|exact Hpre|reflexivity|apply ok_follow_nonspace; exact Hrest| |exact Hrule|].
    - cbn [firstn type_alts]. subst kw. fails_compute.
    - rewrite visit_Node. subst children. cbn [omapv]. rewrite visit_kw, visit_ws, !visit_leaf, HvisK, HvisV. reflexivity.
  Qed.

  (** ** ndarray<T, n> *)
  Lemma PT_ndarray T n : PT T -> PT (HNDArray T n).
  Proof.
    intros HT pre rest Hpre Hrest. cbn [Model.show].
    destruct (nat_runs uni_word uni_space n rest) as (trN & HrunN & HvisN).
    set (Z := [32] ++ dec_of_N n ++ 62 :: rest) in *.
    destruct (HT [] (44 :: Z) (or_introl eq_refl)) as (trT & HrunT & HvisT); [cbn; auto|].
    cbn [app] in HrunT. set (Y := show T ++ 44 :: Z) in *.
    pose (kw := codes "ndarray").
    pose (children := [Node [] kw [Node [] kw []]; Node (codes "_") [] []; Node [] (codes "<") []; trT;
                       Node [] (codes ",") []; trN; Node [] (codes ">") []]).
    assert (Hrule : RUN (R "ndarray") (kw ++ 60 :: Y) (Ok (Node (codes "ndarray") (List.concat (map tree_text children)) children, rest))).
    { eapply runs_ref; [reflexivity|]. apply runs_seq.
      eapply seq_cons; [apply (runs_alt _ _ _ _ _ (Node [] kw [])); apply kw_alt; reflexivity|].
      eapply seq_cons; [apply (ws_runs [] (60 :: Y)); [left; reflexivity|reflexivity]|].
      eapply seq_cons; [apply (lit_runs (codes "<") Y)|].
      eapply seq_cons; [exact HrunT|].
      eapply seq_cons; [apply (lit_runs (codes ",") Z)|].
      eapply seq_cons; [exact HrunN|].
      eapply seq_cons; [apply (lit_runs (codes ">") rest)|]. apply seq_nil. }
    replace ((lit "ndarray<" ++ show T ++ lit ", " ++ dec_of_N n ++ lit ">") ++ rest) with (kw ++ 60 :: Y)
      by (subst Y Z kw; cbn [lit codes app]; rewrite <- !app_assoc; cbn [app]; rewrite <- !app_assoc; reflexivity).
    eapply (type_wrap pre _ rest (firstn 10 type_alts) "ndarray" (skipn 11 type_alts));
      [reflexivity|exact Hpre|reflexivity|apply ok_follow_nonspace; exact Hrest| |exact Hrule|].
    - cbn [firstn type_alts]. subst kw. fails_compute.
    - rewrite visit_Node. subst children. cbn [omapv]. rewrite visit_kw, visit_ws, !visit_leaf, HvisT, HvisN. reflexivity.
  Qed.

  (** ** locus<name> *)
  Lemma PT_locus rg : name_ok rg = true -> PT (HLocus rg).
  Proof.
    intros Hrg pre rest Hpre Hrest. cbn [Model.show].
    destruct (identifier_runs uni_word uni_space [] rg 62 rest (or_introl eq_refl) Hrg (or_intror eq_refl))
      as (trI & HrunI & HvisI).
    cbn [app] in HrunI. set (Y := escape_parsable rg ++ 62 :: rest) in *.
    pose (kw := codes "locus").
    pose (children := [Node [] kw [Node [] kw []]; Node (codes "_") [] []; Node [] (codes "<") []; trI; Node [] (codes ">") []]).
    assert (Hrule : RUN (R "locus") (kw ++ 60 :: Y) (Ok (Node (codes "locus") (List.concat (map tree_text children)) children, rest))).
    { eapply runs_ref; [reflexivity|]. apply runs_seq.
      eapply seq_cons; [apply (runs_alt _ _ _ _ _ (Node [] kw [])); apply kw_alt; reflexivity|].
      eapply seq_cons; [apply (ws_runs [] (60 :: Y)); [left; reflexivity|reflexivity]|].
      eapply seq_cons; [apply (lit_runs (codes "<") Y)|].
      eapply seq_cons; [exact HrunI|].
      eapply seq_cons; [apply (lit_runs (codes ">") rest)|]. apply seq_nil. }
    replace ((lit "locus<" ++ escape_parsable rg ++ lit ">") ++ rest) with (kw ++ 60 :: Y)
      by (subst Y kw; cbn [lit codes app]; rewrite <- !app_assoc; reflexivity).
    eapply (type_wrap pre _ rest (firstn 9 type_alts) "locus" (skipn 10 type_alts));
      [reflexivity|exact Hpre|reflexivity|apply ok_follow_nonspace; exact Hrest| |exact Hrule|].
    - cbn [firstn type_alts]. subst kw. fails_compute.
    - rewrite visit_Node. subst children. cbn [omapv]. rewrite visit_kw, visit_ws, !visit_leaf, HvisI. reflexivity.
  Qed.
End ParseTypes.
