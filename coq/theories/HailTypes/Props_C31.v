(** C31 — property theorems only.
    Python half: the grammar is REGENERATED from type_grammar_str (HailG.C31.Gen.grammar) and interpreted by the PEG
    interpreter of Peg.v; printers, escape functions and the TypeConstructor visitor are the hand model Model.v (tied by
    the correspondence run).  All theorems are parametric in the non-ASCII part of Python's \w and \s tables.
    Engine half: IRLexer.identifier is a hand MODEL (Lexer.v) — Scala cannot be run here; Character.isJavaIdentifier*
    are parameters above ASCII. *)
From HailV Require Import Common.Prelude HailValues.Model HailValues.Lemmas HailTypes.Peg HailTypes.Model
  HailTypes.PegLemmas HailTypes.EscLemmas HailTypes.ParseBase HailTypes.ParseIdent HailTypes.ParseTypes
  HailTypes.Lexer HailTypes.LexerLemmas HailTypes.GenEq Regex.Regex HailTypes.IdModel HailTypes.IdLemmas.
From HailG Require C31.Gen C31.GenId.
From Coq Require Import String.
Open Scope N_scope.

(** dtype(str(t)) == t for EVERY Hail type: all nestings of the 18 printable constructors, struct field names and
    reference-genome names arbitrary strings of code points (distinct within a struct), any ndarray rank —
    for all sufficiently large fuel of the PEG interpreter, over the grammar as it is in the source now. *)
Theorem C31_roundtrip : forall (uni_word uni_space : N -> bool) (t : hty),
  wf_hty t = true -> names_ok t = true ->
  exists f0, forall f, (f0 <= f)%nat -> dtype_with uni_word uni_space C31.Gen.grammar f (show uni_word t) = Ok t.
Proof. intros uw us t Hwf Hn. rewrite generated_grammar_eq. exact (dtype_show uw us t Hwf Hn). Qed.
Print Assumptions C31_roundtrip.

(** escape_parsable / unescape_parsable: a name is either emitted bare, or back-ticked with a body that
    unescape_parsable maps back to the name — for every name. *)
Theorem C31_escape_roundtrip : forall (uni_word : N -> bool) (n : name),
  name_ok n = true ->
  escape_parsable uni_word n = n
  \/ (escape_parsable uni_word n = (96 :: flat_map esc_char n ++ [96])%list
      /\ unescape_parsable (flat_map esc_char n) = Some n).
Proof.
  intros uw n Hn. unfold escape_parsable. destruct (is_bare uw n); [left; reflexivity|right].
  split; [reflexivity|apply unescape_escaped_body; exact Hn].
Qed.
Print Assumptions C31_escape_roundtrip.

(** ... and the grammar's identifier rule reads an emitted name back, whatever follows the ':' or '>' delimiter. *)
Theorem C31_identifier_parses : forall (uni_word uni_space : N -> bool) (n : name) (rest : name),
  name_ok n = true ->
  exists tr, runs uni_word uni_space C31.Gen.grammar (PRef (codes "identifier"))
                  (escape_parsable uni_word n ++ 58 :: rest) (Ok (tr, 58 :: rest))
             /\ visit tr = Some (VS n).
Proof.
  intros uw us n rest Hn. rewrite generated_grammar_eq.
  exact (identifier_runs uw us [] n 58 rest (or_introl eq_refl) Hn (or_introl eq_refl)).
Qed.
Print Assumptions C31_identifier_parses.

(** Engine half, proved part: names whose escape uses only escapes the engine knows (printable ASCII, \t \n \r,
    BMP characters >= U+0100 as \uXXXX), or bare names made of Java identifier characters, are read back exactly by
    the engine's identifier lexer (model) and lexing stops at the delimiter. *)
Theorem C31_engine_accepts_partial : forall (java_start_hi java_part_hi uni_word : N -> bool) (n : name) (delim : N) (rest : name),
  engine_safe java_part_hi uni_word n = true -> java_part java_part_hi delim = false ->
  engine_reads java_start_hi java_part_hi uni_word n delim rest.
Proof. intros js jp uw n D rest Hs HD. exact (engine_reads_safe js jp uw n D rest Hs HD). Qed.
Print Assumptions C31_engine_accepts_partial.

(** Engine half, refuted: the statement for ALL names ([engine_accepts_all]) is false whatever the Unicode tables are —
    the field name U+00E9 is sent as `\xe9`, which IRLexer.quotedLiteral rejects ("invalid escape character"). *)
Theorem C31_engine_accepts_refuted : forall (java_start_hi java_part_hi uni_word : N -> bool),
  ~ engine_accepts_all java_start_hi java_part_hi uni_word.
Proof.
  intros js jp uw H. apply (engine_rejects_latin1 js jp uw). apply H; reflexivity.
Qed.
Print Assumptions C31_engine_accepts_refuted.

(** the other two classes of rejected escapes: control characters (\x01) and astral characters (\U0001f600) *)
Theorem C31_engine_rejects_x_and_U : forall (java_start_hi java_part_hi uni_word : N -> bool),
  ~ engine_reads java_start_hi java_part_hi uni_word [1] 58 []
  /\ ~ engine_reads java_start_hi java_part_hi uni_word [128512] 58 [].
Proof. intros js jp uw. split; [apply engine_rejects_control|apply engine_rejects_astral]. Qed.
Print Assumptions C31_engine_rejects_x_and_U.

(** Bare names: given the two table facts (Python's \w contains U+00B2, Character.isJavaIdentifierPart('²') is
    false — both confirmed on the real `re` module and a real JVM by the check's oracle), the field name a² is emitted
    bare and the engine's ident stops after `a`. *)
Theorem C31_engine_rejects_bare : forall (java_start_hi java_part_hi uni_word : N -> bool),
  uni_word 178 = true -> java_part_hi 178 = false ->
  ~ engine_reads java_start_hi java_part_hi uni_word [97; 178] 58 [].
Proof. intros js jp uw Hw Hj. exact (engine_rejects_bare_superscript js jp uw Hw Hj). Qed.
Print Assumptions C31_engine_rejects_bare.

(** ---- Identifiers and string literals printed into the IR text by hail.utils.misc.escape_id / escape_str /
    parsable_strings (hail/ir/ir.py, table_ir.py, matrix_ir.py, blockmatrix_ir.py: Ref, GetField, field lists, bound
    names, function names, key lists ...).  HailG.C31.GenId is REGENERATED from hail/python/hail/utils/misc.py; the
    theorems target the code WITH fixes/C31-astral.diff and fixes/C31-bare-ascii.diff (on the unfixed source
    C31_escape_id_generated does not check and the check reports the failing names).
    The engine's String is a sequence of UTF-16 code units: "the engine reads the name n" means the lexer model yields
    [utf16 n].  Names and strings range over Unicode SCALAR values; lone surrogates (which a Python str can hold but
    which cannot be sent as UTF-8, and on which utf16 is not injective) are outside the statements. ---- *)

(** The generated definitions are the hand model the theorems below talk about: the pattern of escape_id with its entry
    point (re.fullmatch) accepts exactly [is_bare_ascii] (an ASCII letter or underscore, then ASCII letters, digits, underscores), the quoted alternative is a back-tick,
    escape_str(s, backticked=True), a back-tick, and escape_str writes [esc_str_char] for every code point. *)
Theorem C31_escape_id_generated : forall (word_hi : list (N * N)) (s : name),
  (py_accepts C31.GenId.escape_id_mode (C31.GenId.escape_id_regex word_hi) s <-> is_bare_ascii s = true)
  /\ C31.GenId.escape_id_quoted s = (96 :: esc_str true s ++ [96])%list
  /\ (forall b, C31.GenId.escape_str b s = esc_str b s).
Proof.
  intros hi s. split; [exact (generated_regex_iff hi s)|]. split; [exact (generated_escape_id_quoted s)|].
  intro b. exact (generated_escape_str b s).
Qed.
Print Assumptions C31_escape_id_generated.

Theorem C31_parsable_strings_generated : forall strs : list name,
  C31.GenId.parsable_strings strs = (40 :: join [32] (map str_literal strs) ++ [41])%list.
Proof. exact generated_parsable_strings. Qed.
Print Assumptions C31_parsable_strings_generated.

(** Engine half for escape_id — the full statement: for EVERY name of Unicode scalar values (bare ASCII identifiers;
    everything else back-ticked: control characters, quotes, back-ticks, backslashes, line breaks, non-ASCII letters and
    digits, astral characters as surrogate-pair escapes), whatever Character.isJavaIdentifierStart/Part are above ASCII,
    the engine's identifier lexer (model) reads exactly that name — its UTF-16 code units —, one token, and stops at the
    delimiter. *)
Theorem C31_escape_id_engine_accepts : forall (java_start_hi java_part_hi : N -> bool) (n : name) (delim : N) (rest : name),
  scalar_name n = true -> java_part java_part_hi delim = false ->
  engine_reads_id java_start_hi java_part_hi n delim rest.
Proof. intros js jp n D rest Hs HD. exact (engine_reads_id_all js jp n D rest Hs HD). Qed.
Print Assumptions C31_escape_id_engine_accepts.

(** ... and distinct names of scalar values are distinct Java Strings: what the engine reads denotes the same name. *)
Theorem C31_utf16_injective : forall a b : name,
  scalar_name a = true -> scalar_name b = true -> utf16 a = utf16 b -> a = b.
Proof. intros a b. exact (utf16_inj a b). Qed.
Print Assumptions C31_utf16_injective.

(** String literals (hail.ir.Str, parsable_strings: escape_str not back-ticked, between double quotes): every string of
    scalar values is read back exactly by the engine's string-literal lexer (model). *)
Theorem C31_string_literal_engine_accepts : forall (s rest : name),
  scalar_name s = true -> engine_reads_str s rest.
Proof. intros s rest Hs. exact (engine_reads_str_below_max s rest (scalar_below_max s Hs)). Qed.
Print Assumptions C31_string_literal_engine_accepts.

(** What was wrong BEFORE the two fixes, stated over hand definitions of the previous source text
    (IdModel.esc_str_char_unfixed: backslash-u + upper_hex(c, 4) for every c > U+007F; IdModel.escape_id_unfixed: bare test
    [_a-zA-Z]\w* with Python's Unicode \w): U+1F600 was written with FIVE hex digits, which the engine accepts and reads as
    the two-character name U+1F60 "0" (identifier and string literal alike); and, given the two table facts, a² was sent
    bare and is not a Java identifier. *)
Theorem C31_escape_id_unfixed_misread : forall (java_start_hi java_part_hi uni_word : N -> bool),
  lex_identifier java_start_hi java_part_hi (utf16 (escape_id_unfixed uni_word [128512]) ++ [58]) = Some ([8032; 48], [58])%list
  /\ lex_string (utf16 (str_literal_unfixed [128512])) = Some ([8032; 48], [])%list
  /\ (uni_word 178 = true -> java_part_hi 178 = false ->
      lex_identifier java_start_hi java_part_hi (utf16 (escape_id_unfixed uni_word [97; 178]) ++ [58]) <> Some (utf16 [97; 178], [58])%list).
Proof.
  intros js jp uw. split; [exact (unfixed_misreads_astral_id js jp uw)|]. split; [exact unfixed_misreads_astral_str|].
  exact (unfixed_rejects_bare_superscript_id js jp uw).
Qed.
Print Assumptions C31_escape_id_unfixed_misread.

Example C31_example_ids :
  scalar_name [97; 233; 10; 128512; 178] = true
  /\ escape_id [97; 98; 99; 10] = [96; 97; 98; 99; 92; 110; 96]%list
  /\ escape_id [97; 178] = [96; 97; 92; 117; 48; 48; 66; 50; 96]%list
  /\ escape_id [128512] = [96; 92; 117; 68; 56; 51; 68; 92; 117; 68; 69; 48; 48; 96]%list
  /\ escape_id [95; 120; 49] = [95; 120; 49]%list.
Proof. vm_compute. repeat split. Qed.

(** The hypotheses are satisfiable; a concrete round trip with odd names, by computation (fuel 60). *)
Example C31_example :
  let uw := fun c => (c =? 178) || (c =? 233) in
  let us := fun _ : N => false in
  let t := HStruct [([97], HDict HStr (HArray (HTuple [HFloat64; HCall; HLocus [71; 32; 49]])));
                    ([97; 178], HSet (HInterval HInt32));
                    ([233; 96; 92; 10; 128512], HNDArray HBool 12);
                    ([], HTuple [])] in
  wf_hty t = true /\ names_ok t = true
  /\ dtype_with uw us C31.Gen.grammar 60 (show uw t) = Ok t
  /\ engine_safe (fun _ => false) uw [98; 32; 99] = true.
Proof. vm_compute. repeat split. Qed.
