(** C31 — MODEL of the engine-side identifier lexing (Scala, cannot be executed in this sandbox):
    hail/hail/src/is/hail/expr/ir/Parser.scala, object IRLexer:
        def identifier = backtickLiteral | ident              (ident of scala JavaTokenParsers)
        def backtickLiteral = quotedLiteral('`', ...)         followed by StringEscapeUtils.unescapeString
    over the UTF-16 code units of the text the front end sends.  Executable definitions only.
    Character.isJavaIdentifierStart/Part are concrete on ASCII (values of OpenJDK 17) and parameters above. *)
From HailV Require Import Common.Prelude HailValues.Model HailTypes.Peg HailTypes.Model.
Open Scope N_scope.

Definition utf16_char (c : N) : name :=
  if c <? 65536 then [c] else [55296 + (c - 65536) / 1024; 56320 + (c - 65536) mod 1024].
Definition utf16 (s : name) : name := flat_map utf16_char s.

Section Lexer.
  Variable java_start_hi : N -> bool.   (* Character.isJavaIdentifierStart on code units >= 128 *)
  Variable java_part_hi : N -> bool.    (* Character.isJavaIdentifierPart  on code units >= 128 *)

  Definition java_start (c : N) : bool :=
    if c <? 128 then (c =? 36) || ((65 <=? c) && (c <=? 90)) || (c =? 95) || ((97 <=? c) && (c <=? 122))
    else java_start_hi c.

  Definition java_part (c : N) : bool :=
    if c <? 128 then
      (c <=? 8) || ((14 <=? c) && (c <=? 27)) || (c =? 36) || ((48 <=? c) && (c <=? 57)) || ((65 <=? c) && (c <=? 90))
      || (c =? 95) || ((97 <=? c) && (c <=? 122)) || (c =? 127)
    else java_part_hi c.

  (** val escapeChars: the set of the ten characters  backslash b f n r t u apostrophe double-quote back-tick *)
  Definition escape_chars : list N := [92; 98; 102; 110; 114; 116; 117; 39; 34; 96].

  (** the loop of quotedLiteral after the opening delimiter: raw text up to the closing back-tick *)
  Fixpoint quoted_raw (s : name) : option (name * name) :=
    match s with
    | [] => None                                              (* unterminated *)
    | c :: r =>
      if c =? 96 then Some ([], r)
      else if c =? 92 then
        match r with
        | d :: r' =>
          if existsb (N.eqb d) escape_chars then
            match quoted_raw r' with Some (b, rest) => Some (c :: d :: b, rest) | None => None end
          else None                                            (* invalid escape character *)
        | [] => None
        end
      else match quoted_raw r with Some (b, rest) => Some (c :: b, rest) | None => None end
    end.

  (** StringEscapeUtils.unescapeString *)
  Fixpoint unescape_string (fuel : nat) (s : name) : option name :=
    match fuel with
    | O => None
    | S f =>
      match s with
      | [] => Some []
      | c :: r =>
        if c =? 92 then
          match r with
          | [] => Some [92]                                    (* a backslash at the very end is kept *)
          | d :: r' =>
            if d =? 92 then option_map (cons 92) (unescape_string f r')
            else if d =? 39 then option_map (cons 39) (unescape_string f r')
            else if d =? 34 then option_map (cons 34) (unescape_string f r')
            else if d =? 96 then option_map (cons 96) (unescape_string f r')
            else if d =? 114 then option_map (cons 13) (unescape_string f r')
            else if d =? 102 then option_map (cons 12) (unescape_string f r')
            else if d =? 116 then option_map (cons 9) (unescape_string f r')
            else if d =? 110 then option_map (cons 10) (unescape_string f r')
            else if d =? 98 then option_map (cons 8) (unescape_string f r')
            else if d =? 117 then
              match take_hex 4 r' with                         (* Integer.parseInt(4 chars, 16).toChar *)
              | Some (v, r'') => option_map (cons v) (unescape_string f r'')
              | None => None
              end
            else None                                          (* fatal: invalid string escape character *)
          end
        else option_map (cons c) (unescape_string f r)
      end
    end.

  Definition lex_backtick (s : name) : option (name * name) :=
    match s with
    | c :: r =>
      if c =? 96 then
        match quoted_raw r with
        | Some (raw, rest) =>
            match unescape_string (S (length raw)) raw with Some v => Some (v, rest) | None => None end
        | None => None
        end
      else None
    | [] => None
    end.

  (** JavaTokenParsers.ident *)
  Definition lex_ident (s : name) : option (name * name) :=
    match s with
    | c :: r => if java_start c then let '(a, b) := span java_part r in Some (c :: a, b) else None
    | [] => None
    end.

  (** IRLexer.identifier: the identifier token's value and the remaining input *)
  Definition lex_identifier (s : name) : option (name * name) :=
    match lex_backtick s with Some x => Some x | None => lex_ident s end.

  (** The engine accepts what the front end emits for [n] and reads the same name:
      lexing escape_parsable(n) followed by a delimiter yields exactly [n] and stops at the delimiter. *)
  Definition engine_reads (uni_word : N -> bool) (n : name) (delim : N) (rest : name) : Prop :=
    lex_identifier (utf16 (escape_parsable uni_word n) ++ delim :: rest) = Some (utf16 n, delim :: rest).

  (** names for which this is proved *)
  Definition esc_safe (c : N) : bool :=
    ((32 <=? c) && (c <? 127)) || (c =? 9) || (c =? 10) || (c =? 13) || ((256 <=? c) && (c <? 65536)).

  Definition engine_safe (uni_word : N -> bool) (n : name) : bool :=
    if is_bare uni_word n then forallb java_part (utf16 (tl n)) else forallb esc_safe n.
End Lexer.

(** The property as stated (C31, engine half) for ALL names — it is FALSE on the unchanged code (see Props_C31:
    C31_engine_accepts_refuted); what holds is [LexerLemmas.engine_reads_safe]. *)
Definition engine_accepts_all (java_start_hi java_part_hi uni_word : N -> bool) : Prop :=
  forall (n : name) (delim : N) (rest : name),
    forallb (fun c => c <? 1114112) n = true -> java_part java_part_hi delim = false ->
    engine_reads java_start_hi java_part_hi uni_word n delim rest.
