(** C31 — escape_parsable / unescape_parsable are inverse, and the escaped form is exactly one match of the grammar's
    escaped-identifier pattern.  For ALL names (lists of code points below 2^32; Unicode ends at 0x10FFFF). *)
From HailV Require Import Common.Prelude HailValues.Model HailValues.Lemmas HailTypes.Peg HailTypes.Model.
From Coq Require Import NArith Nnat.
Open Scope N_scope.

(** ** hex digits *)
Lemma of_hexd_hexd d : d < 16 -> of_hexd (hexd d) = Some d.
Proof.
  intro H. unfold hexd, of_hexd. destruct (d <? 10) eqn:E.
  - replace ((48 <=? 48 + d) && (48 + d <=? 57)) with true by lia. f_equal. lia.
  - replace ((48 <=? 87 + d) && (87 + d <=? 57)) with false by lia.
    replace ((97 <=? 87 + d) && (87 + d <=? 102)) with true by lia. f_equal. lia.
Qed.

Lemma hexd_plain d : d < 16 -> hexd d <> 96 /\ hexd d <> 92 /\ hexd d <> 10.
Proof. intro H. unfold hexd. destruct (d <? 10) eqn:E; lia. Qed.

Lemma of_hex_acc_app acc a b :
  of_hex_acc acc (a ++ b) = match of_hex_acc acc a with Some v => of_hex_acc v b | None => None end.
Proof.
  revert acc; induction a as [|d a IH]; intro acc; cbn [app of_hex_acc]; [reflexivity|].
  destruct (of_hexd d); [apply IH|reflexivity].
Qed.

Lemma of_hex_acc_fixed k : forall acc c, of_hex_acc acc (hex_fixed k c) = Some (acc * 16 ^ N.of_nat k + c mod 16 ^ N.of_nat k).
Proof.
  induction k as [|k IH]; intros acc c.
  - cbn [hex_fixed of_hex_acc N.of_nat]. rewrite N.pow_0_r, N.mod_1_r. f_equal. lia.
  - cbn [hex_fixed]. rewrite of_hex_acc_app, IH. cbn [of_hex_acc].
    rewrite of_hexd_hexd by (apply N.mod_lt; lia).
    rewrite Nat2N.inj_succ, N.pow_succ_r'. f_equal.
    set (p := 16 ^ N.of_nat k).
    assert (Hp : 0 < p) by (subst p; apply N.neq_0_lt_0, N.pow_nonzero; lia).
    (* c mod (16 p) = 16 * ((c/16) mod p) + c mod 16 *)
    assert (E : c mod (16 * p) = 16 * ((c / 16) mod p) + c mod 16).
    { rewrite N.mod_mul_r by lia. lia. }
    rewrite E. lia.
Qed.

Lemma hex_fixed_length k c : length (hex_fixed k c) = k.
Proof. revert c; induction k as [|k IH]; intro c; cbn [hex_fixed length]; [reflexivity|]. rewrite app_length, IH. cbn. lia. Qed.

Lemma firstn_app_exact {A} k (a X : list A) : length a = k -> firstn k (a ++ X) = a.
Proof. intros <-. rewrite firstn_app, Nat.sub_diag, firstn_all. cbn [firstn]. apply app_nil_r. Qed.
Lemma skipn_app_exact {A} k (a X : list A) : length a = k -> skipn k (a ++ X) = X.
Proof. intros <-. rewrite skipn_app, Nat.sub_diag, skipn_all. reflexivity. Qed.

Lemma take_hex_fixed k c X : c < 16 ^ N.of_nat k -> take_hex k (hex_fixed k c ++ X) = Some (c, X).
Proof.
  intro Hc. unfold take_hex. rewrite app_length, hex_fixed_length.
  destruct (k + length X <? k)%nat eqn:E; [apply Nat.ltb_lt in E; lia|].
  rewrite (firstn_app_exact k) by apply hex_fixed_length.
  rewrite (skipn_app_exact k) by apply hex_fixed_length.
  unfold of_hex. rewrite of_hex_acc_fixed. rewrite N.mod_small by exact Hc. cbn [N.mul N.add]. reflexivity.
Qed.

Lemma hex_fixed_plain k c : Forall (fun x => x <> 96 /\ x <> 92 /\ x <> 10) (hex_fixed k c).
Proof.
  revert c; induction k as [|k IH]; intro c; cbn [hex_fixed]; [constructor|].
  apply Forall_app. split; [apply IH|]. constructor; [|constructor]. apply hexd_plain. apply N.mod_lt. lia.
Qed.

(** ** classification of code points as unicode_escape sees them *)
Inductive ue_class (c : N) : Prop :=
| ue_bs : c = 92 -> ue_class c
| ue_tab : c = 9 -> ue_class c
| ue_nl : c = 10 -> ue_class c
| ue_cr : c = 13 -> ue_class c
| ue_bt : c = 96 -> ue_class c
| ue_plain : 32 <= c < 127 -> c <> 92 -> c <> 96 -> ue_class c
| ue_x : c < 256 -> ~ (32 <= c < 127) -> c <> 9 -> c <> 10 -> c <> 13 -> ue_class c
| ue_u : 256 <= c < 65536 -> ue_class c
| ue_U : 65536 <= c -> ue_class c.

Lemma ue_classify c : ue_class c.
Proof.
  destruct (N.eq_dec c 92); [apply ue_bs; assumption|].
  destruct (N.eq_dec c 9); [apply ue_tab; assumption|].
  destruct (N.eq_dec c 10); [apply ue_nl; assumption|].
  destruct (N.eq_dec c 13); [apply ue_cr; assumption|].
  destruct (N.eq_dec c 96); [apply ue_bt; assumption|].
  destruct (N.lt_ge_cases c 256).
  - destruct (N.le_gt_cases 32 c).
    + destruct (N.lt_ge_cases c 127); [apply ue_plain; lia|apply ue_x; lia].
    + apply ue_x; lia.
  - destruct (N.lt_ge_cases c 65536); [apply ue_u; lia|apply ue_U; lia].
Qed.

Ltac ue_unfold c :=
  unfold esc_char, ue_char;
  repeat match goal with
         | |- context [c =? ?k] => let E := fresh "E" in destruct (c =? k) eqn:E; try lia
         | |- context [(32 <=? c) && (c <? 127)] =>
             let E := fresh "E" in destruct ((32 <=? c) && (c <? 127)) eqn:E; try lia
         | |- context [c <? ?k] => let E := fresh "E" in destruct (c <? k) eqn:E; try lia
         end.

(** ** E1: the escaped body is consumed by the escaped-identifier pattern up to the closing backtick *)
Lemma escid_body_plain (p : name) (X : name) :
  Forall (fun x => x <> 96 /\ x <> 92 /\ x <> 10) p ->
  escid_body (p ++ X) = match escid_body X with Some (b, r) => Some (p ++ b, r) | None => None end.
Proof.
  induction 1 as [|x p [H1 [H2 _]] _ IH]; cbn [app]; [destruct (escid_body X) as [[b r]|]; reflexivity|].
  cbn [escid_body]. destruct (x =? 96) eqn:E1; [lia|]. destruct (x =? 92) eqn:E2; [lia|].
  rewrite IH. destruct (escid_body X) as [[b r]|]; reflexivity.
Qed.

Lemma escid_body_pair d (X : name) :
  d <> 10 -> escid_body (92 :: d :: X) = match escid_body X with Some (b, r) => Some (92 :: d :: b, r) | None => None end.
Proof. intro H. cbn [escid_body]. cbn [N.eqb Pos.eqb]. destruct (d =? 10) eqn:E; [lia|]. reflexivity. Qed.

Lemma escid_body_esc_char c (X : name) :
  escid_body (esc_char c ++ X) = match escid_body X with Some (b, r) => Some (esc_char c ++ b, r) | None => None end.
Proof.
  destruct (ue_classify c) as [H|H|H|H|H|H H1 H2|H H1 H2 H3 H4|H|H]; try subst c.
  - cbn [esc_char ue_char N.eqb Pos.eqb app]. rewrite escid_body_pair by lia. reflexivity.
  - cbn [esc_char ue_char N.eqb Pos.eqb app]. rewrite escid_body_pair by lia. reflexivity.
  - cbn [esc_char ue_char N.eqb Pos.eqb app]. rewrite escid_body_pair by lia. reflexivity.
  - cbn [esc_char ue_char N.eqb Pos.eqb app]. rewrite escid_body_pair by lia. reflexivity.
  - cbn [esc_char ue_char N.eqb Pos.eqb app]. rewrite escid_body_pair by lia. reflexivity.
  - ue_unfold c. cbn [app]. apply (escid_body_plain [c]). constructor; [lia|constructor].
  - ue_unfold c. cbn [app]. rewrite escid_body_pair by lia.
    rewrite (escid_body_plain _ X (hex_fixed_plain 2 c)). destruct (escid_body X) as [[b r]|]; reflexivity.
  - ue_unfold c. cbn [app]. rewrite escid_body_pair by lia.
    rewrite (escid_body_plain _ X (hex_fixed_plain 4 c)). destruct (escid_body X) as [[b r]|]; reflexivity.
  - ue_unfold c. cbn [app]. rewrite escid_body_pair by lia.
    rewrite (escid_body_plain _ X (hex_fixed_plain 8 c)). destruct (escid_body X) as [[b r]|]; reflexivity.
Qed.

Lemma escid_body_escaped (n : name) (rest : name) :
  escid_body (flat_map esc_char n ++ 96 :: rest) = Some (flat_map esc_char n, rest).
Proof.
  induction n as [|c n IH]; cbn [flat_map app].
  - reflexivity.
  - rewrite <- app_assoc, escid_body_esc_char, IH. reflexivity.
Qed.

(** ** E2: undoing the backtick escapes *)
Definition not_bt_head (X : name) : Prop := match X with [] => True | x :: _ => x <> 96 end.

Lemma replace_plain1 a (X : name) : a <> 92 -> replace_bs_bt (a :: X) = a :: replace_bs_bt X.
Proof.
  intro H. cbn [replace_bs_bt]. destruct X as [|b X]; [reflexivity|].
  destruct (a =? 92) eqn:E; [lia|]. reflexivity.
Qed.

Lemma replace_plain (p : name) (X : name) :
  Forall (fun x => x <> 92) p -> replace_bs_bt (p ++ X) = p ++ replace_bs_bt X.
Proof. induction 1 as [|x p Hx _ IH]; cbn [app]; [reflexivity|]. rewrite replace_plain1 by exact Hx. rewrite IH. reflexivity. Qed.

Lemma replace_bs (X : name) : not_bt_head X -> replace_bs_bt (92 :: X) = 92 :: replace_bs_bt X.
Proof.
  intro H. cbn [replace_bs_bt]. destruct X as [|b X]; [reflexivity|]. cbn in H.
  cbn [N.eqb Pos.eqb andb]. destruct (b =? 96) eqn:E; [lia|]. reflexivity.
Qed.

Lemma esc_char_head c (X : name) : not_bt_head (esc_char c ++ X).
Proof.
  destruct (ue_classify c) as [H|H|H|H|H|H H1 H2|H H1 H2 H3 H4|H|H]; try subst c;
    try (cbn; lia); ue_unfold c; cbn; lia.
Qed.

Lemma flat_esc_head (n : name) : not_bt_head (flat_map esc_char n).
Proof. destruct n as [|c n]; cbn [flat_map]; [exact I|apply esc_char_head]. Qed.

Lemma hex_fixed_no_bs k c : Forall (fun x => x <> 92) (hex_fixed k c).
Proof. eapply Forall_impl; [|apply hex_fixed_plain]. cbn. intros a [_ [H _]]. exact H. Qed.

Lemma replace_esc_char c (X : name) :
  not_bt_head X -> replace_bs_bt (esc_char c ++ X) = ue_char c ++ replace_bs_bt X.
Proof.
  intro HX.
  destruct (ue_classify c) as [H|H|H|H|H|H H1 H2|H H1 H2 H3 H4|H|H]; try subst c.
  - cbn [esc_char ue_char N.eqb Pos.eqb app]. rewrite replace_bs by (cbn; lia). rewrite replace_bs by exact HX. reflexivity.
  - cbn [esc_char ue_char N.eqb Pos.eqb app]. rewrite replace_bs by (cbn; lia). rewrite replace_plain1 by lia. reflexivity.
  - cbn [esc_char ue_char N.eqb Pos.eqb app]. rewrite replace_bs by (cbn; lia). rewrite replace_plain1 by lia. reflexivity.
  - cbn [esc_char ue_char N.eqb Pos.eqb app]. rewrite replace_bs by (cbn; lia). rewrite replace_plain1 by lia. reflexivity.
  - (* backtick *) cbn [esc_char ue_char N.eqb Pos.eqb app N.leb N.ltb N.compare Pos.compare Pos.compare_cont andb].
    cbn [replace_bs_bt N.eqb Pos.eqb andb]. reflexivity.
  - ue_unfold c. cbn [app]. apply replace_plain1. lia.
  - ue_unfold c. cbn [app]. rewrite replace_bs by (cbn; lia). rewrite replace_plain1 by lia.
    rewrite replace_plain by apply hex_fixed_no_bs. reflexivity.
  - ue_unfold c. cbn [app]. rewrite replace_bs by (cbn; lia). rewrite replace_plain1 by lia.
    rewrite replace_plain by apply hex_fixed_no_bs. reflexivity.
  - ue_unfold c. cbn [app]. rewrite replace_bs by (cbn; lia). rewrite replace_plain1 by lia.
    rewrite replace_plain by apply hex_fixed_no_bs. reflexivity.
Qed.

Lemma replace_escaped (n : name) : replace_bs_bt (flat_map esc_char n) = flat_map ue_char n.
Proof.
  induction n as [|c n IH]; [reflexivity|]. cbn [flat_map].
  rewrite replace_esc_char by apply flat_esc_head. rewrite IH. reflexivity.
Qed.

(** ** E3: decoding unicode_escape *)
Lemma ue_decode_char f c (X : name) :
  c < 4294967296 -> ue_decode (S f) (ue_char c ++ X) = option_map (cons c) (ue_decode f X).
Proof.
  intro Hc.
  destruct (ue_classify c) as [H|H|H|H|H|H H1 H2|H H1 H2 H3 H4|H|H]; try subst c; try reflexivity.
  - ue_unfold c. cbn [app ue_decode]. destruct (c =? 92) eqn:E'; [lia|]. reflexivity.
  - ue_unfold c. cbn [app ue_decode N.eqb Pos.eqb]. rewrite take_hex_fixed by (cbn; lia). reflexivity.
  - ue_unfold c. cbn [app ue_decode N.eqb Pos.eqb]. rewrite take_hex_fixed by (cbn; lia). reflexivity.
  - ue_unfold c. cbn [app ue_decode N.eqb Pos.eqb]. rewrite take_hex_fixed by (cbn; lia). reflexivity.
Qed.

Lemma ue_char_nonempty c : (1 <= length (ue_char c))%nat.
Proof.
  destruct (ue_classify c) as [H|H|H|H|H|H H1 H2|H H1 H2 H3 H4|H|H]; try subst c; try (cbn; lia);
    ue_unfold c; cbn [length]; lia.
Qed.

Lemma ue_decode_all (n : name) : forallb (fun c => c <? 4294967296) n = true ->
  forall f, (length (flat_map ue_char n) < f)%nat -> ue_decode f (flat_map ue_char n) = Some n.
Proof.
  induction n as [|c n IH]; cbn [forallb flat_map]; intros Hn f Hf.
  - destruct f; [lia|reflexivity].
  - apply andb_true_iff in Hn as [Hc Hn]. destruct f as [|f]; [lia|].
    rewrite ue_decode_char by lia. rewrite IH; [reflexivity|exact Hn|].
    rewrite app_length in Hf. pose proof (ue_char_nonempty c). lia.
Qed.

Section Esc.
  Variable uni_word : N -> bool.

  (** unescape_parsable inverts the escaped body *)
  Theorem unescape_escaped_body (n : name) :
    forallb (fun c => c <? 4294967296) n = true -> unescape_parsable (flat_map esc_char n) = Some n.
  Proof.
    intro Hn. unfold unescape_parsable. rewrite replace_escaped. apply ue_decode_all; [exact Hn|lia].
  Qed.

  Lemma strip_ends_backticked (b : name) : strip_ends (96 :: b ++ [96]) = b.
  Proof. unfold strip_ends. cbn [tl]. apply removelast_last. Qed.
End Esc.
