(** C31 — parsing printed types, part 1: white space, identifiers, naturals, the [type] wrapper, scalar types. *)
From HailV Require Import Common.Prelude HailValues.Model HailValues.Lemmas HailTypes.Peg HailTypes.Model
  HailTypes.PegLemmas HailTypes.EscLemmas.
From Coq Require Import String.
Open Scope N_scope.

Section Parse.
  Variable uni_word : N -> bool.
  Variable uni_space : N -> bool.
  Notation RUN := (runs uni_word uni_space type_grammar).
  Notation is_word := (is_word uni_word).
  Notation is_space := (is_space uni_space).
  Notation show := (show uni_word).
  Notation escape_parsable := (escape_parsable uni_word).

  (** ** visiting *)
  Lemma visit_Node rule txt ch :
    visit (Node rule txt ch) =
    match omapv visit ch with Some vc => visit_node rule txt vc | None => None end.
  Proof.
    cbn [visit].
    assert (E : forall l, (fix go (l : list tree) : option (list vis) :=
                             match l with
                             | [] => Some []
                             | x :: r => match visit x, go r with Some y, Some ys => Some (y :: ys) | _, _ => None end
                             end) l = omapv visit l).
    { induction l as [|x l IH]; [reflexivity|]. cbn [omapv]. rewrite <- IH. reflexivity. }
    rewrite E. reflexivity.
  Qed.

  Lemma visit_leaf txt : visit (Node [] txt []) = Some (VL []).
  Proof. reflexivity. Qed.

  Lemma visit_ws txt : visit (Node (codes "_") txt []) = Some (VL []).
  Proof. reflexivity. Qed.

  (** ** white space *)
  Definition nonspace_head (s : name) : Prop := match s with [] => True | c :: _ => is_space c = false end.
  Definition pre_ok (pre : name) : Prop := pre = [] \/ pre = [32].

  Lemma span_stop (p : N -> bool) (s : name) : match s with [] => True | c :: _ => p c = false end -> span p s = ([], s).
  Proof. destruct s as [|c s]; cbn [span]; [reflexivity|]. intros ->. reflexivity. Qed.

  Lemma span_app (p : N -> bool) (a s : name) :
    forallb p a = true -> match s with [] => True | c :: _ => p c = false end -> span p (a ++ s) = (a, s).
  Proof.
    intros Ha Hs. induction a as [|x a IH]; cbn [app]; [apply span_stop; exact Hs|].
    cbn [forallb] in Ha. apply andb_true_iff in Ha as [Hx Ha]. cbn [span]. rewrite Hx, (IH Ha). reflexivity.
  Qed.

  Lemma ws_runs pre s : pre_ok pre -> nonspace_head s -> RUN ws (pre ++ s) (Ok (Node (codes "_") pre [], s)).
  Proof.
    intros Hpre Hs. eapply runs_ref; [reflexivity|]. apply runs_re. cbn [match_re].
    rewrite span_app; [reflexivity| |exact Hs]. destruct Hpre as [-> | ->]; reflexivity.
  Qed.

  (** ** ok_follow: what may come after a printed type *)
  Definition ok_follow (rest : name) : Prop :=
    match rest with [] => True | c :: _ => c = 44 \/ c = 62 \/ c = 41 \/ c = 125 end.

  Lemma ok_follow_nonspace rest : ok_follow rest -> nonspace_head rest.
  Proof. destruct rest as [|c r]; cbn; [trivial|]. intros [->|[->|[->| ->]]]; reflexivity. Qed.

  (** ** the [type] rule wraps one of its alternatives *)
  Definition type_alts : list pexp :=
    [R "array"; R "bool"; R "call"; R "dict"; R "interval"; R "int64"; R "int32"; R "float32"; R "float64"; R "locus";
     R "ndarray"; R "rng_state"; R "set"; R "stream"; R "struct"; R "str"; R "tuple"; R "void"; R "variable"].

  Lemma type_wrap pre s rest before k after tk v :
    type_alts = before ++ R k :: after ->
    pre_ok pre -> nonspace_head s -> nonspace_head rest ->
    Forall (fun e => RUN e s Fail) before ->
    RUN (R k) s (Ok (tk, rest)) -> visit tk = Some v ->
    exists tr, RUN (R "type") (pre ++ s) (Ok (tr, rest)) /\ visit tr = Some v.
  Proof.
    intros Halts Hpre Hs Hrest Hbefore Hk Hv.
    pose (children := [Node (codes "_") pre []; Node [] (tree_text tk) [tk]; Node (codes "_") [] []]).
    exists (Node (codes "type") (List.concat (map tree_text children)) children). split.
    - eapply runs_ref; [reflexivity|]. apply runs_seq.
      eapply seq_cons; [apply ws_runs; assumption|].
      eapply seq_cons.
      { apply runs_alt. fold type_alts. rewrite Halts. apply alt_runs_skip_all; [exact Hbefore|]. apply alt_here. exact Hk. }
      eapply seq_cons; [apply (ws_runs [] rest); [left; reflexivity|exact Hrest]|]. apply seq_nil.
    - rewrite visit_Node. subst children. cbn [omapv]. rewrite visit_ws, visit_ws.
      rewrite (visit_Node [] (tree_text tk) [tk]). cbn [omapv]. rewrite Hv. reflexivity.
  Qed.

  (** ** printed types start with a lower-case ASCII letter *)
  Lemma show_head t : exists c s, show t = c :: s /\ is_space c = false.
  Proof. destruct t; cbn [show]; eexists; eexists; (split; [reflexivity|reflexivity]). Qed.

  Lemma show_nonspace t X : nonspace_head (show t ++ X).
  Proof. destruct (show_head t) as (c & s & E & H). rewrite E. exact H. Qed.

  (** ** the property proved by induction over types *)
  Definition PT (t : hty) : Prop :=
    forall pre rest, pre_ok pre -> ok_follow rest ->
    exists tr, RUN (R "type") (pre ++ show t ++ rest) (Ok (tr, rest)) /\ visit tr = Some (VT t).

  Ltac by_compute :=
    eexists; split;
    [ eapply runs_of_compute with (f0 := 14%nat); [vm_compute; reflexivity | discriminate]
    | vm_compute; reflexivity ].

  Ltac scalar :=
    intros pre rest [-> | ->] Hrest;
    (destruct rest as [|c r]; [by_compute | cbn in Hrest; destruct Hrest as [->|[->|[->| ->]]]; by_compute]).

  Lemma PT_void : PT HVoid. Proof. scalar. Qed.
  Lemma PT_int32 : PT HInt32. Proof. scalar. Qed.
  Lemma PT_int64 : PT HInt64. Proof. scalar. Qed.
  Lemma PT_float32 : PT HFloat32. Proof. scalar. Qed.
  Lemma PT_float64 : PT HFloat64. Proof. scalar. Qed.
  Lemma PT_bool : PT HBool. Proof. scalar. Qed.
  Lemma PT_str : PT HStr. Proof. scalar. Qed.
  Lemma PT_call : PT HCall. Proof. scalar. Qed.
  Lemma PT_rng_state : PT HRNGState. Proof. scalar. Qed.
End Parse.
