(** C31 — model of Hail type strings (hail/python/hail/expr/types.py: __str__ / _parsable_string / dtype,
    hail/python/hail/expr/type_parsing.py: type_grammar + TypeConstructor, hail/python/hail/utils/java.py:
    escape_parsable / unescape_parsable).  Executable definitions only.
    Type variables (`?T:cond`, `?nat`) are internal to function signatures, have no equality, and are not modelled. *)
From HailV Require Import Common.Prelude HailValues.Model HailTypes.Peg.
From Coq Require Import String.
Open Scope N_scope.

Inductive hty : Type :=
| HVoid | HInt32 | HInt64 | HFloat32 | HFloat64 | HBool | HStr | HCall | HRNGState
| HLocus (rg : name)
| HInterval (p : hty) | HArray (e : hty) | HSet (e : hty) | HStream (e : hty)
| HDict (k v : hty)
| HStruct (fs : list (name * hty))
| HTuple (ts : list hty)
| HNDArray (e : hty) (ndim : N).

(** a struct's fields are the keys of a Python dict: distinct *)
Fixpoint wf_hty (t : hty) : bool :=
  match t with
  | HInterval e | HArray e | HSet e | HStream e | HNDArray e _ => wf_hty e
  | HDict k v => wf_hty k && wf_hty v
  | HStruct fs => names_nodup (map fst fs) && forallb (fun f => wf_hty (snd f)) fs
  | HTuple ts => forallb wf_hty ts
  | _ => true
  end.

(** ** escape_parsable / unescape_parsable *)
Definition hexd (n : N) : N := if n <? 10 then 48 + n else 87 + n.      (* lowercase, as Python's unicode_escape *)
Definition of_hexd (c : N) : option N :=
  if (48 <=? c) && (c <=? 57) then Some (c - 48)
  else if (97 <=? c) && (c <=? 102) then Some (c - 87)
  else if (65 <=? c) && (c <=? 70) then Some (c - 55)
  else None.

Fixpoint hex_fixed (k : nat) (c : N) : name :=
  match k with O => [] | S k' => hex_fixed k' (c / 16) ++ [hexd (c mod 16)] end.

Fixpoint of_hex_acc (acc : N) (l : name) : option N :=
  match l with
  | [] => Some acc
  | d :: r => match of_hexd d with Some v => of_hex_acc (16 * acc + v) r | None => None end
  end.
Definition of_hex (l : name) : option N := of_hex_acc 0 l.

(** [chr(c).encode('unicode_escape')] *)
Definition ue_char (c : N) : name :=
  if c =? 92 then [92; 92]
  else if c =? 9 then [92; 116]
  else if c =? 10 then [92; 110]
  else if c =? 13 then [92; 114]
  else if (32 <=? c) && (c <? 127) then [c]
  else if c <? 256 then 92 :: 120 :: hex_fixed 2 c
  else if c <? 65536 then 92 :: 117 :: hex_fixed 4 c
  else 92 :: 85 :: hex_fixed 8 c.

(** ... followed by [.replace('`', '\\`')] *)
Definition esc_char (c : N) : name := if c =? 96 then [92; 96] else ue_char c.

Section WithClasses.
  Variable uni_word : N -> bool.
  Variable uni_space : N -> bool.
  Notation is_word := (is_word uni_word).

  (** [_parsable_str.fullmatch(s)] with _parsable_str = [_a-zA-Z][\w_]* *)
  Definition is_bare (s : name) : bool :=
    match s with
    | c :: r => (((65 <=? c) && (c <=? 90)) || (c =? 95) || ((97 <=? c) && (c <=? 122))) && forallb (fun d => is_word d || (d =? 95)) r
    | [] => false
    end.

  Definition escape_parsable (s : name) : name :=
    if is_bare s then s else 96 :: flat_map esc_char s ++ [96].

  (** [s.replace('\\`', '`')] *)
  Fixpoint replace_bs_bt (s : name) : name :=
    match s with
    | a :: r =>
        match r with
        | b :: r' => if (a =? 92) && (b =? 96) then 96 :: replace_bs_bt r' else a :: replace_bs_bt r
        | [] => [a]
        end
    | [] => []
    end.

  (** [bytes(s, 'utf-8').decode('unicode_escape')] on the escapes unicode_escape itself produces
      (other backslash escapes of Python string literals are outside the model: [None]) *)
  Definition take_hex (k : nat) (s : name) : option (N * name) :=
    if (List.length s <? k)%nat then None
    else match of_hex (firstn k s) with Some v => Some (v, skipn k s) | None => None end.

  Fixpoint ue_decode (fuel : nat) (s : name) : option name :=
    match fuel with
    | O => None
    | S f =>
      match s with
      | [] => Some []
      | c :: r =>
        if c =? 92 then
          match r with
          | d :: r' =>
            if d =? 92 then option_map (cons 92) (ue_decode f r')
            else if d =? 116 then option_map (cons 9) (ue_decode f r')
            else if d =? 110 then option_map (cons 10) (ue_decode f r')
            else if d =? 114 then option_map (cons 13) (ue_decode f r')
            else if d =? 120 then
              match take_hex 2 r' with Some (v, r'') => option_map (cons v) (ue_decode f r'') | None => None end
            else if d =? 117 then
              match take_hex 4 r' with Some (v, r'') => option_map (cons v) (ue_decode f r'') | None => None end
            else if d =? 85 then
              match take_hex 8 r' with Some (v, r'') => option_map (cons v) (ue_decode f r'') | None => None end
            else None
          | [] => None
          end
        else option_map (cons c) (ue_decode f r)
      end
    end.

  Definition unescape_parsable (s : name) : option name :=
    let s' := replace_bs_bt s in ue_decode (S (List.length s')) s'.

  (** ** printers *)
  Definition lit (s : string) : name := codes s.

  Fixpoint join (sep : name) (l : list name) : name :=
    match l with
    | [] => []
    | [x] => x
    | x :: r => x ++ sep ++ join sep r
    end.

  (** [str(t)] *)
  Fixpoint show (t : hty) : name :=
    match t with
    | HVoid => lit "void" | HInt32 => lit "int32" | HInt64 => lit "int64" | HFloat32 => lit "float32"
    | HFloat64 => lit "float64" | HBool => lit "bool" | HStr => lit "str" | HCall => lit "call"
    | HRNGState => lit "rng_state"
    | HLocus rg => lit "locus<" ++ escape_parsable rg ++ lit ">"
    | HInterval p => lit "interval<" ++ show p ++ lit ">"
    | HArray e => lit "array<" ++ show e ++ lit ">"
    | HSet e => lit "set<" ++ show e ++ lit ">"
    | HStream e => lit "stream<" ++ show e ++ lit ">"
    | HDict k v => lit "dict<" ++ show k ++ lit ", " ++ show v ++ lit ">"
    | HStruct fs =>
        lit "struct{"
        ++ join (lit ", ") ((fix go (fs : list (name * hty)) : list name :=
                               match fs with
                               | [] => []
                               | f :: fs' => (escape_parsable (fst f) ++ lit ": " ++ show (snd f)) :: go fs'
                               end) fs)
        ++ lit "}"
    | HTuple ts =>
        lit "tuple("
        ++ join (lit ", ") ((fix go (ts : list hty) : list name :=
                               match ts with [] => [] | t' :: ts' => show t' :: go ts' end) ts)
        ++ lit ")"
    | HNDArray e n => lit "ndarray<" ++ show e ++ lit ", " ++ dec_of_N n ++ lit ">"
    end.

  (** [t._parsable_string()] — the engine-facing form *)
  Fixpoint show_parsable (t : hty) : name :=
    match t with
    | HVoid => lit "Void" | HInt32 => lit "Int32" | HInt64 => lit "Int64" | HFloat32 => lit "Float32"
    | HFloat64 => lit "Float64" | HBool => lit "Boolean" | HStr => lit "String" | HCall => lit "Call"
    | HRNGState => lit "RNGState"
    | HLocus rg => lit "Locus(" ++ escape_parsable rg ++ lit ")"
    | HInterval p => lit "Interval[" ++ show_parsable p ++ lit "]"
    | HArray e => lit "Array[" ++ show_parsable e ++ lit "]"
    | HSet e => lit "Set[" ++ show_parsable e ++ lit "]"
    | HStream e => lit "Stream[" ++ show_parsable e ++ lit "]"
    | HDict k v => lit "Dict[" ++ show_parsable k ++ lit "," ++ show_parsable v ++ lit "]"
    | HStruct fs =>
        lit "Struct{"
        ++ join (lit ",") ((fix go (fs : list (name * hty)) : list name :=
                              match fs with
                              | [] => []
                              | f :: fs' => (escape_parsable (fst f) ++ lit ":" ++ show_parsable (snd f)) :: go fs'
                              end) fs)
        ++ lit "}"
    | HTuple ts =>
        lit "Tuple["
        ++ join (lit ",") ((fix go (ts : list hty) : list name :=
                              match ts with [] => [] | t' :: ts' => show_parsable t' :: go ts' end) ts)
        ++ lit "]"
    | HNDArray e n => lit "NDArray[" ++ show_parsable e ++ lit "," ++ dec_of_N n ++ lit "]"
    end.

  (** ** the visitor: TypeConstructor(NodeVisitor) *)
  Inductive vis : Type :=
  | VL (l : list vis)                 (* generic_visit: the list of visited children *)
  | VT (t : hty)
  | VS (s : name)
  | VNat (n : N)
  | VF (f : name) (t : hty).

  (** [types.tstruct( ** dict(fields))]: a later duplicate overwrites the value, the first position is kept *)
  Fixpoint dict_set (k : name) (v : hty) (d : list (name * hty)) : list (name * hty) :=
    match d with
    | [] => [(k, v)]
    | (k', v') :: r => if name_eqb k k' then (k', v) :: r else (k', v') :: dict_set k v r
    end.
  Definition dict_of_pairs (l : list (name * hty)) : list (name * hty) :=
    fold_left (fun d kv => dict_set (fst kv) (snd kv) d) l [].

  Fixpoint omapv {A B} (f : A -> option B) (l : list A) : option (list B) :=
    match l with
    | [] => Some []
    | x :: r => match f x, omapv f r with Some y, Some ys => Some (y :: ys) | _, _ => None end
    end.

  Definition as_field (v : vis) : option (name * hty) := match v with VF f t => Some (f, t) | _ => None end.
  Definition as_ty (v : vis) : option hty := match v with VT t => Some t | _ => None end.
  (** [for comma, x in rest] *)
  Definition second_of_pair (v : vis) : option vis := match v with VL [_; x] => Some x | _ => None end.

  Definition strip_ends (s : name) : name := removelast (tl s).      (* node.text[1:-1] *)

  Definition rule_is (r : name) (s : string) : bool := name_eqb r (codes s).

  (** what [visit_<rule>(node, visited_children)] returns; [None] = an exception *)
  Definition visit_node (rule txt : name) (vc : list vis) : option vis :=
    if rule_is rule "type" then match vc with [_; VL [t]; _] => Some t | _ => None end
    else if rule_is rule "void" then Some (VT HVoid)
    else if rule_is rule "int64" then Some (VT HInt64)
    else if rule_is rule "int32" then Some (VT HInt32)
    else if rule_is rule "float64" then Some (VT HFloat64)
    else if rule_is rule "float32" then Some (VT HFloat32)
    else if rule_is rule "bool" then Some (VT HBool)
    else if rule_is rule "call" then Some (VT HCall)
    else if rule_is rule "str" then Some (VT HStr)
    else if rule_is rule "rng_state" then Some (VT HRNGState)
    else if rule_is rule "locus" then match vc with [_; _; _; VS gr; _] => Some (VT (HLocus gr)) | _ => None end
    else if rule_is rule "array" then match vc with [_; _; _; VT t; _] => Some (VT (HArray t)) | _ => None end
    else if rule_is rule "stream" then match vc with [_; _; _; VT t; _] => Some (VT (HStream t)) | _ => None end
    else if rule_is rule "set" then match vc with [_; _; _; VT t; _] => Some (VT (HSet t)) | _ => None end
    else if rule_is rule "interval" then match vc with [_; _; _; VT t; _] => Some (VT (HInterval t)) | _ => None end
    else if rule_is rule "ndarray" then
      match vc with [_; _; _; VT e; _; VNat n; _] => Some (VT (HNDArray e n)) | _ => None end
    else if rule_is rule "dict" then
      match vc with [_; _; _; VT k; _; VT v; _] => Some (VT (HDict k v)) | _ => None end
    else if rule_is rule "struct" then
      match vc with
      | [_; _; _; VL []; _] => Some (VT (HStruct []))                       (* `if not maybe_fields` *)
      | [_; _; _; VL (VL fields :: _); _] =>                                (* fields = maybe_fields[0] *)
          match omapv as_field fields with Some fs => Some (VT (HStruct (dict_of_pairs fs))) | None => None end
      | _ => None
      end
    else if rule_is rule "tuple" then
      match vc with
      | [_; _; _; VL [VL []]; _] => Some (VT (HTuple []))                   (* `if not maybe_types` *)
      | [_; _; _; VL [VL [VT first; VL rest]]; _] =>
          match omapv (fun v => match second_of_pair v with Some x => as_ty x | None => None end) rest with
          | Some ts => Some (VT (HTuple (first :: ts)))
          | None => None
          end
      | _ => None
      end
    else if rule_is rule "fields" then
      match vc with
      | [first; VL rest] =>
          match omapv second_of_pair rest with Some fs => Some (VL (first :: fs)) | None => None end
      | _ => None
      end
    else if rule_is rule "field" then match vc with [VS n; _; VT t] => Some (VF n t) | _ => None end
    else if rule_is rule "identifier" then match vc with [_; VL [i]; _] => Some i | _ => None end
    else if rule_is rule "simple_identifier" then Some (VS txt)
    else if rule_is rule "escaped_identifier" then option_map VS (unescape_parsable (strip_ends txt))
    else if rule_is rule "nat" then match vc with [_; VL [n]; _] => Some n | _ => None end
    else if rule_is rule "nat_literal" then option_map VNat (N_of_dec txt)
    else if rule_is rule "nat_variable" then None        (* NatVariable: not modelled *)
    else if rule_is rule "variable" then None             (* tvariable: not modelled *)
    else Some (VL vc).                                     (* generic_visit *)

  Fixpoint visit (t : tree) : option vis :=
    match t with
    | Node rule txt ch =>
        match (fix go (l : list tree) : option (list vis) :=
                 match l with
                 | [] => Some []
                 | x :: r => match visit x, go r with Some y, Some ys => Some (y :: ys) | _, _ => None end
                 end) ch with
        | Some vc => visit_node rule txt vc
        | None => None
        end
    end.

  (** ** the grammar of type_parsing.py, by hand (the generated one, HailG.C31.Gen.grammar, is proved equal to it) *)
  Definition L (s : string) : pexp := PLit (codes s).
  Definition R (s : string) : pexp := PRef (codes s).
  Definition ws : pexp := R "_".
  Definition opt (e : pexp) : pexp := PQuant e 0 (Some 1%nat).
  Definition star (e : pexp) : pexp := PQuant e 0 None.

  Definition type_grammar : grammar :=
    [ (codes "type", PSeq [ws; PAlt [R "array"; R "bool"; R "call"; R "dict"; R "interval"; R "int64"; R "int32";
                                     R "float32"; R "float64"; R "locus"; R "ndarray"; R "rng_state"; R "set"; R "stream";
                                     R "struct"; R "str"; R "tuple"; R "void"; R "variable"]; ws]);
      (codes "variable", PSeq [L "?"; R "simple_identifier"; opt (PSeq [L ":"; R "simple_identifier"])]);
      (codes "void", PAlt [L "void"; L "tvoid"]);
      (codes "int64", PAlt [L "int64"; L "tint64"]);
      (codes "int32", PAlt [L "int32"; L "tint32"; L "int"; L "tint"]);
      (codes "float32", PAlt [L "float32"; L "tfloat32"]);
      (codes "float64", PAlt [L "float64"; L "tfloat64"; L "tfloat"; L "float"]);
      (codes "bool", PAlt [L "tbool"; L "bool"]);
      (codes "call", PAlt [L "tcall"; L "call"]);
      (codes "str", PAlt [L "tstr"; L "str"]);
      (codes "locus", PSeq [PAlt [L "tlocus"; L "locus"]; ws; L "<"; R "identifier"; L ">"]);
      (codes "array", PSeq [PAlt [L "tarray"; L "array"]; ws; L "<"; R "type"; L ">"]);
      (codes "ndarray", PSeq [PAlt [L "tndarray"; L "ndarray"]; ws; L "<"; R "type"; L ","; R "nat"; L ">"]);
      (codes "set", PSeq [PAlt [L "tset"; L "set"]; ws; L "<"; R "type"; L ">"]);
      (codes "stream", PSeq [PAlt [L "tstream"; L "stream"]; ws; L "<"; R "type"; L ">"]);
      (codes "dict", PSeq [PAlt [L "tdict"; L "dict"]; ws; L "<"; R "type"; L ","; R "type"; L ">"]);
      (codes "struct", PSeq [PAlt [L "tstruct"; L "struct"]; ws; L "{"; PAlt [R "fields"; ws]; L "}"]);
      (codes "tuple", PSeq [PAlt [L "ttuple"; L "tuple"]; ws; L "(";
                            PAlt [PSeq [R "type"; star (PSeq [L ","; R "type"])]; ws]; L ")"]);
      (codes "fields", PSeq [R "field"; star (PSeq [L ","; R "field"])]);
      (codes "field", PSeq [R "identifier"; L ":"; R "type"]);
      (codes "interval", PSeq [PAlt [L "tinterval"; L "interval"]; ws; L "<"; R "type"; L ">"]);
      (codes "identifier", PSeq [ws; PAlt [R "simple_identifier"; R "escaped_identifier"]; ws]);
      (codes "simple_identifier", PRe RWordPlus);
      (codes "escaped_identifier", PRe REscapedId);
      (codes "nat", PSeq [ws; PAlt [R "nat_literal"; R "nat_variable"]; ws]);
      (codes "nat_literal", PRe RDigitsPlus);
      (codes "nat_variable", L "?nat");
      (codes "rng_state", L "rng_state");
      (codes "_", PRe RSpaceStar) ].

  (** [dtype(s)] = type_node_visitor.visit(type_grammar.parse(s)) over grammar [G] *)
  Definition dtype_with (G : grammar) (fuel : nat) (s : name) : res hty :=
    match parse_tree uni_word uni_space G fuel (codes "type") s with
    | Ok t => match visit t with Some (VT ty) => Ok ty | _ => Fail end
    | Fail => Fail
    | OutOfFuel => OutOfFuel
    end.

  Definition dtype := dtype_with type_grammar.
End WithClasses.
