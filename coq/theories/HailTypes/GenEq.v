From HailV Require Import Common.Prelude HailValues.Model HailTypes.Peg HailTypes.Model.
From HailG Require C31.Gen.
From Coq Require Import String.
Lemma generated_grammar_eq : C31.Gen.grammar = type_grammar.
Proof. vm_compute. reflexivity. Qed.
Lemma default_rule_eq : C31.Gen.default_rule = codes "type".
Proof. reflexivity. Qed.
