(** C31 — meta-theory of the fuelled PEG interpreter: more fuel never changes a result, and the derived rules used to
    reason about a concrete grammar compositionally ([runs e s r]: for all sufficiently large fuel the result is [r]). *)
From HailV Require Import Common.Prelude HailValues.Model HailValues.Lemmas HailTypes.Peg.
Open Scope N_scope.

Section PegMeta.
  Variable uni_word : N -> bool.
  Variable uni_space : N -> bool.
  Variable G : grammar.
  Notation peg := (peg uni_word uni_space G).
  Notation peg_rep := (peg_rep uni_word uni_space G).
  Notation match_re := (match_re uni_word uni_space).

  (** ** the local fixpoints of [peg], parameterised by the recursive call *)
  Definition seq_with (P : pexp -> name -> res (tree * name)) : list pexp -> name -> res (list tree * name) :=
    fix seq es s :=
      match es with
      | [] => Ok ([], s)
      | e' :: es' =>
          match P e' s with
          | Ok (t, s1) =>
              match seq es' s1 with
              | Ok (ts, s2) => Ok (t :: ts, s2)
              | Fail => Fail
              | OutOfFuel => OutOfFuel
              end
          | Fail => Fail
          | OutOfFuel => OutOfFuel
          end
      end.

  Definition alt_with (P : pexp -> name -> res (tree * name)) (s : name) : list pexp -> res (tree * name) :=
    fix alt es :=
      match es with
      | [] => Fail
      | e' :: es' =>
          match P e' s with
          | Ok (t, r) => Ok (Node [] (tree_text t) [t], r)
          | Fail => alt es'
          | OutOfFuel => OutOfFuel
          end
      end.

  Lemma peg_S f e s :
    peg (S f) e s =
    match e with
    | PLit l => match strip_prefix l s with Some r => Ok (Node [] l [], r) | None => Fail end
    | PRe rx => match match_re rx s with Some (m, r) => Ok (Node [] m [], r) | None => Fail end
    | PRef n =>
        match lookup n G with
        | Some body =>
            match peg f body s with
            | Ok (Node _ txt ch, r) => Ok (Node n txt ch, r)
            | Fail => Fail
            | OutOfFuel => OutOfFuel
            end
        | None => Fail
        end
    | PSeq es =>
        match seq_with (peg f) es s with
        | Ok (ts, r) => Ok (Node [] (concat (map tree_text ts)) ts, r)
        | Fail => Fail
        | OutOfFuel => OutOfFuel
        end
    | PAlt es => alt_with (peg f) s es
    | PQuant e' mn mx =>
        match peg_rep f e' mn mx O s with
        | Ok (ts, r) => if (mn <=? length ts)%nat then Ok (Node [] (concat (map tree_text ts)) ts, r) else Fail
        | Fail => Fail
        | OutOfFuel => OutOfFuel
        end
    end.
  Proof. destruct e; reflexivity. Qed.

  Lemma peg_rep_S f e mn mx count s :
    peg_rep (S f) e mn mx count s =
    if is_nil s || at_max mx count then Ok ([], s)
    else
      match peg f e s with
      | Ok (t, s1) =>
          if (mn <=? S count)%nat && is_nil (tree_text t) then Ok ([t], s1)
          else
            match peg_rep f e mn mx (S count) s1 with
            | Ok (ts, s2) => Ok (t :: ts, s2)
            | Fail => Fail
            | OutOfFuel => OutOfFuel
            end
      | Fail => Ok ([], s)
      | OutOfFuel => OutOfFuel
      end.
  Proof. reflexivity. Qed.

  (** ** monotonicity in the fuel *)
  Definition le_res {A} (r r' : res A) : Prop := r = OutOfFuel \/ r = r'.

  Lemma seq_with_mono (P P' : pexp -> name -> res (tree * name)) :
    (forall e s, le_res (P e s) (P' e s)) -> forall es s, le_res (seq_with P es s) (seq_with P' es s).
  Proof.
    intros HP es; induction es as [|e es IH]; intro s; cbn [seq_with]; [right; reflexivity|].
    destruct (HP e s) as [E|E]; rewrite E; [left; reflexivity|].
    destruct (P' e s) as [[t s1]| |]; try (right; reflexivity).
    destruct (IH s1) as [E1|E1]; rewrite E1; [left; reflexivity|right; reflexivity].
  Qed.

  Lemma alt_with_mono (P P' : pexp -> name -> res (tree * name)) s :
    (forall e s, le_res (P e s) (P' e s)) -> forall es, le_res (alt_with P s es) (alt_with P' s es).
  Proof.
    intros HP es; induction es as [|e es IH]; cbn [alt_with]; [right; reflexivity|].
    destruct (HP e s) as [E|E]; rewrite E; [left; reflexivity|].
    destruct (P' e s) as [[t r]| |]; try (right; reflexivity). exact IH.
  Qed.

  Lemma peg_mono_step : forall f,
    (forall e s, le_res (peg f e s) (peg (S f) e s))
    /\ (forall e mn mx c s, le_res (peg_rep f e mn mx c s) (peg_rep (S f) e mn mx c s)).
  Proof.
    induction f as [|f [IH1 IH2]]; [split; intros; left; reflexivity|].
    split.
    - intros e s. rewrite (peg_S f), (peg_S (S f)). destruct e.
      + right; reflexivity.
      + right; reflexivity.
      + destruct (lookup rule G); [|right; reflexivity].
        destruct (IH1 p s) as [E|E]; rewrite E; [left; reflexivity|right; reflexivity].
      + destruct (seq_with_mono _ _ IH1 es s) as [E|E]; rewrite E; [left; reflexivity|right; reflexivity].
      + apply alt_with_mono. exact IH1.
      + destruct (IH2 e min max O s) as [E|E]; rewrite E; [left; reflexivity|right; reflexivity].
    - intros e mn mx c s. rewrite (peg_rep_S f), (peg_rep_S (S f)).
      destruct (is_nil s || at_max mx c); [right; reflexivity|].
      destruct (IH1 e s) as [E|E]; rewrite E; [left; reflexivity|].
      destruct (peg (S f) e s) as [[t s1]| |]; try (right; reflexivity).
      destruct ((mn <=? S c)%nat && is_nil (tree_text t)); [right; reflexivity|].
      destruct (IH2 e mn mx (S c) s1) as [E1|E1]; rewrite E1; [left; reflexivity|right; reflexivity].
  Qed.

  Lemma peg_mono f f' e s r : peg f e s = r -> r <> OutOfFuel -> (f <= f')%nat -> peg f' e s = r.
  Proof.
    intros Hr Hne Hle. induction Hle as [|f' Hle IH]; [exact Hr|].
    destruct (proj1 (peg_mono_step f') e s) as [E|E]; congruence.
  Qed.

  Lemma peg_rep_mono f f' e mn mx c s r :
    peg_rep f e mn mx c s = r -> r <> OutOfFuel -> (f <= f')%nat -> peg_rep f' e mn mx c s = r.
  Proof.
    intros Hr Hne Hle. induction Hle as [|f' Hle IH]; [exact Hr|].
    destruct (proj2 (peg_mono_step f') e mn mx c s) as [E|E]; congruence.
  Qed.

  (** ** [runs]: the result for all sufficiently large fuel *)
  Definition runs (e : pexp) (s : name) (r : res (tree * name)) : Prop :=
    exists f0, forall f, (f0 <= f)%nat -> peg f e s = r.

  Definition rep_runs (e : pexp) (mn : nat) (mx : option nat) (c : nat) (s : name) (ts : list tree) (r : name) : Prop :=
    exists f0, forall f, (f0 <= f)%nat -> peg_rep f e mn mx c s = Ok (ts, r).

  Lemma runs_of_compute f0 e s r : peg f0 e s = r -> r <> OutOfFuel -> runs e s r.
  Proof. intros H Hne. exists f0. intros f Hf. eapply peg_mono; eassumption. Qed.

  Lemma runs_lit l s r : strip_prefix l s = Some r -> runs (PLit l) s (Ok (Node [] l [], r)).
  Proof. intro H. exists 1%nat. intros [|f] Hf; [lia|]. rewrite peg_S, H. reflexivity. Qed.

  Lemma runs_lit_fail l s : strip_prefix l s = None -> runs (PLit l) s Fail.
  Proof. intro H. exists 1%nat. intros [|f] Hf; [lia|]. rewrite peg_S, H. reflexivity. Qed.

  Lemma runs_re rx s m r : match_re rx s = Some (m, r) -> runs (PRe rx) s (Ok (Node [] m [], r)).
  Proof. intro H. exists 1%nat. intros [|f] Hf; [lia|]. rewrite peg_S, H. reflexivity. Qed.

  Lemma runs_re_fail rx s : match_re rx s = None -> runs (PRe rx) s Fail.
  Proof. intro H. exists 1%nat. intros [|f] Hf; [lia|]. rewrite peg_S, H. reflexivity. Qed.

  Lemma runs_ref n body s nm txt ch r :
    lookup n G = Some body -> runs body s (Ok (Node nm txt ch, r)) -> runs (PRef n) s (Ok (Node n txt ch, r)).
  Proof.
    intros Hl [f0 H]. exists (S f0). intros [|f] Hf; [lia|]. rewrite peg_S, Hl, H by lia. reflexivity.
  Qed.

  Lemma runs_ref_fail n body s : lookup n G = Some body -> runs body s Fail -> runs (PRef n) s Fail.
  Proof.
    intros Hl [f0 H]. exists (S f0). intros [|f] Hf; [lia|]. rewrite peg_S, Hl, H by lia. reflexivity.
  Qed.

  (** sequences *)
  Inductive seq_runs : list pexp -> name -> list tree -> name -> Prop :=
  | seq_nil s : seq_runs [] s [] s
  | seq_cons e es s t s1 ts s2 :
      runs e s (Ok (t, s1)) -> seq_runs es s1 ts s2 -> seq_runs (e :: es) s (t :: ts) s2.

  Lemma seq_runs_with es s ts r :
    seq_runs es s ts r -> exists f0, forall f, (f0 <= f)%nat -> seq_with (peg f) es s = Ok (ts, r).
  Proof.
    induction 1 as [s|e es s t s1 ts s2 [f1 H1] _ [f2 H2]].
    - exists O. reflexivity.
    - exists (Nat.max f1 f2). intros f Hf. cbn [seq_with]. rewrite H1, H2 by lia. reflexivity.
  Qed.

  Lemma runs_seq es s ts r :
    seq_runs es s ts r -> runs (PSeq es) s (Ok (Node [] (concat (map tree_text ts)) ts, r)).
  Proof.
    intro H. destruct (seq_runs_with _ _ _ _ H) as [f0 H0]. exists (S f0).
    intros [|f] Hf; [lia|]. rewrite peg_S, H0 by lia. reflexivity.
  Qed.

  (** a sequence fails when, after some members succeeded, the next one fails *)
  Inductive seq_fails : list pexp -> name -> Prop :=
  | seqf_here e es s : runs e s Fail -> seq_fails (e :: es) s
  | seqf_later e es s t s1 : runs e s (Ok (t, s1)) -> seq_fails es s1 -> seq_fails (e :: es) s.

  Lemma runs_seq_fail es s : seq_fails es s -> runs (PSeq es) s Fail.
  Proof.
    intro H.
    assert (Hw : exists f0, forall f, (f0 <= f)%nat -> seq_with (peg f) es s = Fail).
    { induction H as [e es s [f1 H1]|e es s t s1 [f1 H1] _ [f2 H2]].
      - exists f1. intros f Hf. cbn [seq_with]. rewrite H1 by lia. reflexivity.
      - exists (Nat.max f1 f2). intros f Hf. cbn [seq_with]. rewrite H1, H2 by lia. reflexivity. }
    destruct Hw as [f0 H0]. exists (S f0). intros [|f] Hf; [lia|]. rewrite peg_S, H0 by lia. reflexivity.
  Qed.

  (** ordered choice *)
  Inductive alt_runs : list pexp -> name -> tree -> name -> Prop :=
  | alt_here e es s t r : runs e s (Ok (t, r)) -> alt_runs (e :: es) s t r
  | alt_skip e es s t r : runs e s Fail -> alt_runs es s t r -> alt_runs (e :: es) s t r.

  Lemma runs_alt es s t r : alt_runs es s t r -> runs (PAlt es) s (Ok (Node [] (tree_text t) [t], r)).
  Proof.
    intro H.
    assert (Hw : exists f0, forall f, (f0 <= f)%nat -> alt_with (peg f) s es = Ok (Node [] (tree_text t) [t], r)).
    { induction H as [e es s t r [f1 H1]|e es s t r [f1 H1] _ [f2 H2]].
      - exists f1. intros f Hf. cbn [alt_with]. rewrite H1 by lia. reflexivity.
      - exists (Nat.max f1 f2). intros f Hf. cbn [alt_with]. rewrite H1, H2 by lia. reflexivity. }
    destruct Hw as [f0 H0]. exists (S f0). intros [|f] Hf; [lia|]. rewrite peg_S, H0 by lia. reflexivity.
  Qed.

  Lemma runs_alt_fail es s : Forall (fun e => runs e s Fail) es -> runs (PAlt es) s Fail.
  Proof.
    intro H.
    assert (Hw : exists f0, forall f, (f0 <= f)%nat -> alt_with (peg f) s es = Fail).
    { induction H as [|e es [f1 H1] _ [f2 H2]].
      - exists O. reflexivity.
      - exists (Nat.max f1 f2). intros f Hf. cbn [alt_with]. rewrite H1, H2 by lia. reflexivity. }
    destruct Hw as [f0 H0]. exists (S f0). intros [|f] Hf; [lia|]. rewrite peg_S, H0 by lia. reflexivity.
  Qed.

  Lemma alt_runs_skip_all pre es s t r :
    Forall (fun e => runs e s Fail) pre -> alt_runs es s t r -> alt_runs (pre ++ es) s t r.
  Proof. induction 1 as [|e pre He _ IH]; intro H; cbn [app]; [exact H|apply alt_skip; [exact He|apply IH; exact H]]. Qed.

  (** repetition (unbounded: e* ) *)
  Lemma rep_stop_end e mn c : rep_runs e mn None c [] [] [].
  Proof. exists 1%nat. intros [|f] Hf; [lia|]. rewrite peg_rep_S. reflexivity. Qed.

  Lemma rep_stop_fail e mn c s : s <> [] -> runs e s Fail -> rep_runs e mn None c s [] s.
  Proof.
    intros Hs [f0 H]. exists (S f0). intros [|f] Hf; [lia|]. rewrite peg_rep_S.
    destruct s; [congruence|]. cbn [is_nil at_max orb]. rewrite H by lia. reflexivity.
  Qed.

  Lemma rep_step e mn c s t s1 ts s2 :
    s <> [] -> runs e s (Ok (t, s1)) -> tree_text t <> [] -> rep_runs e mn None (S c) s1 ts s2 ->
    rep_runs e mn None c s (t :: ts) s2.
  Proof.
    intros Hs [f1 H1] Ht [f2 H2]. exists (S (Nat.max f1 f2)). intros [|f] Hf; [lia|]. rewrite peg_rep_S.
    destruct s; [congruence|]. cbn [is_nil at_max orb]. rewrite H1 by lia.
    destruct (tree_text t) eqn:E; [congruence|]. cbn [is_nil]. rewrite andb_false_r. rewrite H2 by lia. reflexivity.
  Qed.

  Lemma runs_star e s ts r :
    rep_runs e 0 None 0 s ts r -> runs (PQuant e 0 None) s (Ok (Node [] (concat (map tree_text ts)) ts, r)).
  Proof.
    intros [f0 H]. exists (S f0). intros [|f] Hf; [lia|]. rewrite peg_S, H by lia. reflexivity.
  Qed.
End PegMeta.
