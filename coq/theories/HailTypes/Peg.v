(** C31 — a generic fuelled PEG interpreter with the semantics of `parsimonious` (0.10) for the constructs that
    hail/python/hail/expr/type_parsing.py uses: string and regex terminals, rule references, sequences, ordered choice,
    quantifiers.  Parse trees have parsimonious' shapes (a Sequence node has one child per member, a OneOf node exactly
    one child, a Quantifier node one child per repetition, terminals are leaves; a node carries the name of the rule
    whose top expression produced it).  Executable definitions only.

    The regex terminals are the four patterns of the grammar, interpreted by dedicated matchers that are parametric in
    the non-ASCII part of Python's character classes \w and \s (both the grammar and escape_parsable use the same
    `re` engine, so the theorems hold for every such table). *)
From HailV Require Import Common.Prelude HailValues.Model.
Open Scope N_scope.

Inductive regex : Type :=
| RWordPlus       (* \w+ *)
| RSpaceStar      (* \s* *)
| RDigitsPlus     (* [0-9]+ *)
| REscapedId.     (* `([^`\\]|\\.)*` *)

Inductive pexp : Type :=
| PLit (s : name)
| PRe (r : regex)
| PRef (rule : name)
| PSeq (es : list pexp)
| PAlt (es : list pexp)
| PQuant (e : pexp) (min : nat) (max : option nat).

Definition grammar : Type := list (name * pexp).

Inductive tree : Type := Node (rule : name) (text : name) (children : list tree).

Definition tree_text (t : tree) : name := match t with Node _ txt _ => txt end.
Definition tree_rule (t : tree) : name := match t with Node r _ _ => r end.
Definition tree_children (t : tree) : list tree := match t with Node _ _ c => c end.

Inductive res (A : Type) : Type := Ok (a : A) | Fail | OutOfFuel.
Arguments Ok {A} a.
Arguments Fail {A}.
Arguments OutOfFuel {A}.

Fixpoint lookup (n : name) (g : grammar) : option pexp :=
  match g with
  | [] => None
  | (n', e) :: r => if name_eqb n n' then Some e else lookup n r
  end.

Fixpoint strip_prefix (p s : name) : option name :=
  match p, s with
  | [], _ => Some s
  | a :: p', b :: s' => if a =? b then strip_prefix p' s' else None
  | _ :: _, [] => None
  end.

Section Classes.
  Variable uni_word : N -> bool.     (* Python's \w above U+007F *)
  Variable uni_space : N -> bool.    (* Python's \s above U+007F *)

  Definition is_word (c : N) : bool :=
    if c <? 128 then ((48 <=? c) && (c <=? 57)) || ((65 <=? c) && (c <=? 90)) || (c =? 95) || ((97 <=? c) && (c <=? 122))
    else uni_word c.

  Definition is_space (c : N) : bool :=
    if c <? 128 then ((9 <=? c) && (c <=? 13)) || ((28 <=? c) && (c <=? 32)) else uni_space c.

  Definition is_dec_digit (c : N) : bool := (48 <=? c) && (c <=? 57).

  (** longest prefix satisfying [p] *)
  Fixpoint span (p : N -> bool) (s : name) : name * name :=
    match s with
    | c :: r => if p c then let '(a, b) := span p r in (c :: a, b) else ([], s)
    | [] => ([], [])
    end.

  (** the body of an escaped identifier: units [^`\\] | \\. up to the first unescaped backtick
      ('.' does not match a newline) *)
  Fixpoint escid_body (s : name) : option (name * name) :=
    match s with
    | [] => None
    | c :: r =>
      if c =? 96 then Some ([], r)
      else if c =? 92 then
        match r with
        | d :: r' =>
          if d =? 10 then None
          else match escid_body r' with Some (b, rest) => Some (c :: d :: b, rest) | None => None end
        | [] => None
        end
      else match escid_body r with Some (b, rest) => Some (c :: b, rest) | None => None end
    end.

  (** [re.match(pattern, text, pos)]: (matched text, rest) *)
  Definition match_re (r : regex) (s : name) : option (name * name) :=
    match r with
    | RWordPlus => match span is_word s with ([], _) => None | (m, rest) => Some (m, rest) end
    | RSpaceStar => Some (span is_space s)
    | RDigitsPlus => match span is_dec_digit s with ([], _) => None | (m, rest) => Some (m, rest) end
    | REscapedId =>
        match s with
        | c :: r' =>
          if c =? 96 then
            match escid_body r' with Some (b, rest) => Some (96 :: b ++ [96], rest) | None => None end
          else None
        | [] => None
        end
    end.

  Variable G : grammar.

  Definition at_max (mx : option nat) (count : nat) : bool :=
    match mx with Some m => (m <=? count)%nat | None => false end.

  (** [peg fuel e s]: match expression [e] at the start of [s].
      [peg_rep]: the loop of Quantifier._uncached_match — `while new_pos < len(text) and len(children) < max`,
      stop on the first failure, stop after an empty match once the minimum is reached. *)
  Fixpoint peg (fuel : nat) (e : pexp) (s : name) {struct fuel} : res (tree * name) :=
    match fuel with
    | O => OutOfFuel
    | S f =>
      match e with
      | PLit l => match strip_prefix l s with Some r => Ok (Node [] l [], r) | None => Fail end
      | PRe rx => match match_re rx s with Some (m, r) => Ok (Node [] m [], r) | None => Fail end
      | PRef n =>
          match lookup n G with
          | Some body =>
              match peg f body s with
              | Ok (Node _ txt ch, r) => Ok (Node n txt ch, r)
              | Fail => Fail
              | OutOfFuel => OutOfFuel
              end
          | None => Fail
          end
      | PSeq es =>
          match (fix seq (es : list pexp) (s : name) : res (list tree * name) :=
                   match es with
                   | [] => Ok ([], s)
                   | e' :: es' =>
                       match peg f e' s with
                       | Ok (t, s1) =>
                           match seq es' s1 with
                           | Ok (ts, s2) => Ok (t :: ts, s2)
                           | Fail => Fail
                           | OutOfFuel => OutOfFuel
                           end
                       | Fail => Fail
                       | OutOfFuel => OutOfFuel
                       end
                   end) es s with
          | Ok (ts, r) => Ok (Node [] (concat (map tree_text ts)) ts, r)
          | Fail => Fail
          | OutOfFuel => OutOfFuel
          end
      | PAlt es =>
          (fix alt (es : list pexp) : res (tree * name) :=
             match es with
             | [] => Fail
             | e' :: es' =>
                 match peg f e' s with
                 | Ok (t, r) => Ok (Node [] (tree_text t) [t], r)
                 | Fail => alt es'
                 | OutOfFuel => OutOfFuel
                 end
             end) es
      | PQuant e' mn mx =>
          match peg_rep f e' mn mx O s with
          | Ok (ts, r) =>
              if (mn <=? length ts)%nat then Ok (Node [] (concat (map tree_text ts)) ts, r) else Fail
          | Fail => Fail
          | OutOfFuel => OutOfFuel
          end
      end
    end
  with peg_rep (fuel : nat) (e : pexp) (mn : nat) (mx : option nat) (count : nat) (s : name) {struct fuel}
    : res (list tree * name) :=
    match fuel with
    | O => OutOfFuel
    | S f =>
      if is_nil s || at_max mx count then Ok ([], s)
      else
        match peg f e s with
        | Ok (t, s1) =>
            if (mn <=? S count)%nat && is_nil (tree_text t) then Ok ([t], s1)
            else
              match peg_rep f e mn mx (S count) s1 with
              | Ok (ts, s2) => Ok (t :: ts, s2)
              | Fail => Fail
              | OutOfFuel => OutOfFuel
              end
        | Fail => Ok ([], s)
        | OutOfFuel => OutOfFuel
        end
    end.

  (** [Grammar.parse]: the default rule must consume the whole text *)
  Definition parse_tree (fuel : nat) (start : name) (s : name) : res tree :=
    match peg fuel (PRef start) s with
    | Ok (t, []) => Ok t
    | Ok (_, _ :: _) => Fail          (* IncompleteParseError *)
    | Fail => Fail
    | OutOfFuel => OutOfFuel
    end.
End Classes.
