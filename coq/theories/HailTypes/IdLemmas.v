(** C31, identifier half — proofs.
    1. the definitions REGENERATED from hail/utils/misc.py (HailG.C31.GenId) are the hand model IdModel.v;
    2. what the engine's lexer model (Lexer.v) does with the text escape_id / escape_str emit. *)
From HailV Require Import Common.Prelude HailValues.Model HailValues.Lemmas HailTypes.Peg HailTypes.Model
  HailTypes.EscLemmas HailTypes.Lexer HailTypes.LexerLemmas HailTypes.IdModel Regex.Regex Regex.RegexLemmas.
From HailG Require C31.GenId.
From Coq Require Import NArith Nnat.
Open Scope N_scope.

(** ** upper-case hex digits *)
Lemma of_hexd_hexd_up d : d < 16 -> of_hexd (hexd_up d) = Some d.
Proof.
  intro H. unfold hexd_up, of_hexd. destruct (d <? 10) eqn:E.
  - replace ((48 <=? 48 + d) && (48 + d <=? 57)) with true by lia. f_equal. lia.
  - replace ((48 <=? 55 + d) && (55 + d <=? 57)) with false by lia.
    replace ((97 <=? 55 + d) && (55 + d <=? 102)) with false by lia.
    replace ((65 <=? 55 + d) && (55 + d <=? 70)) with true by lia. f_equal. lia.
Qed.

Lemma hexd_up_range d : d < 16 -> 48 <= hexd_up d <= 70.
Proof. intro H. unfold hexd_up. destruct (d <? 10) eqn:E; lia. Qed.

Lemma of_hex_acc_fixed_up k : forall acc c,
  of_hex_acc acc (hex_fixed_up k c) = Some (acc * 16 ^ N.of_nat k + c mod 16 ^ N.of_nat k).
Proof.
  induction k as [|k IH]; intros acc c.
  - cbn [hex_fixed_up of_hex_acc N.of_nat]. rewrite N.pow_0_r, N.mod_1_r. f_equal. lia.
  - cbn [hex_fixed_up]. rewrite of_hex_acc_app, IH. cbn [of_hex_acc].
    rewrite of_hexd_hexd_up by (apply N.mod_lt; lia).
    rewrite Nat2N.inj_succ, N.pow_succ_r'. f_equal.
    set (p := 16 ^ N.of_nat k).
    assert (Hp : 0 < p) by (subst p; apply N.neq_0_lt_0, N.pow_nonzero; lia).
    assert (E : c mod (16 * p) = 16 * ((c / 16) mod p) + c mod 16).
    { rewrite N.mod_mul_r by lia. lia. }
    rewrite E. lia.
Qed.

Lemma hex_fixed_up_length k c : length (hex_fixed_up k c) = k.
Proof. revert c; induction k as [|k IH]; intro c; cbn [hex_fixed_up length]; [reflexivity|]. rewrite app_length, IH. cbn. lia. Qed.

Lemma take_hex_fixed_up k c X : c < 16 ^ N.of_nat k -> take_hex k (hex_fixed_up k c ++ X) = Some (c, X).
Proof.
  intro Hc. unfold take_hex. rewrite app_length, hex_fixed_up_length.
  destruct (k + length X <? k)%nat eqn:E; [apply Nat.ltb_lt in E; lia|].
  rewrite (firstn_app_exact k) by apply hex_fixed_up_length.
  rewrite (skipn_app_exact k) by apply hex_fixed_up_length.
  unfold of_hex. rewrite of_hex_acc_fixed_up. rewrite N.mod_small by exact Hc. cbn [N.mul N.add]. reflexivity.
Qed.

Lemma hex_fixed_up_range k c : Forall (fun x => 48 <= x <= 70) (hex_fixed_up k c).
Proof.
  revert c; induction k as [|k IH]; intro c; cbn [hex_fixed_up]; [constructor|].
  apply Forall_app. split; [apply IH|]. constructor; [|constructor]. apply hexd_up_range. apply N.mod_lt. lia.
Qed.

Lemma upper_hex_4 c : c < 65536 -> upper_hex c (Some 4%nat) = hex_fixed_up 4 c.
Proof.
  intro H. unfold upper_hex, hex_ndigits.
  assert (H2 : N.log2 c < 16).
  { destruct (N.eq_dec c 0) as [->|Hz]; [cbn; lia|]. apply N.log2_lt_pow2; [lia|]. exact H. }
  assert (H3 : N.log2 c / 4 < 4) by (apply N.div_lt_upper_bound; lia).
  replace (Nat.max (S (N.to_nat (N.log2 c / 4))) 4) with 4%nat by lia. reflexivity.
Qed.

(** ** surrogate pairs *)
Lemma surr_hi_eq c : surr_hi c = 55296 + (c - 65536) / 1024.
Proof. unfold surr_hi. rewrite N.shiftr_div_pow2. reflexivity. Qed.

Lemma surr_lo_eq c : surr_lo c = 56320 + (c - 65536) mod 1024.
Proof. unfold surr_lo. change 1023 with (N.ones 10). rewrite N.land_ones. reflexivity. Qed.

Lemma surr_bounds c : 65536 <= c < 1114112 -> 55296 <= surr_hi c < 56320 /\ 56320 <= surr_lo c < 57344.
Proof. intro H. rewrite surr_hi_eq, surr_lo_eq. lia. Qed.

Lemma utf16_char_small c : c < 65536 -> utf16_char c = [c].
Proof. intro H. unfold utf16_char. replace (c <? 65536) with true by lia. reflexivity. Qed.

Lemma utf16_char_astral c : 65536 <= c -> utf16_char c = [surr_hi c; surr_lo c].
Proof. intro H. unfold utf16_char. replace (c <? 65536) with false by lia. rewrite surr_hi_eq, surr_lo_eq. reflexivity. Qed.

(** ** 1. generated = hand model *)
Lemma below_128_cases (P : N -> bool) : forallb P (map N.of_nat (seq 0 128)) = true -> forall c, c < 128 -> P c = true.
Proof.
  intros H c Hc. rewrite forallb_forall in H. apply H. rewrite <- (N2Nat.id c). apply in_map. apply in_seq. lia.
Qed.

Lemma generated_escape_str_char_ascii b :
  forallb (fun c => name_eqb (C31.GenId.escape_str_char b c) (esc_str_char b c)) (map N.of_nat (seq 0 128)) = true.
Proof. destruct b; vm_compute; reflexivity. Qed.

(** escape_str's per-character output, as it is in the source now, is [esc_str_char] — for every code point *)
Lemma generated_escape_str_char b c : C31.GenId.escape_str_char b c = esc_str_char b c.
Proof.
  destruct (c <? 128) eqn:E.
  - apply name_eqb_spec. apply (below_128_cases _ (generated_escape_str_char_ascii b)). lia.
  - unfold C31.GenId.escape_str_char, esc_str_char. replace (127 <? c) with true by lia.
    destruct (65535 <? c); reflexivity.
Qed.

Lemma generated_escape_str b s : C31.GenId.escape_str b s = esc_str b s.
Proof.
  unfold C31.GenId.escape_str, esc_str. induction s as [|c s IH]; [reflexivity|].
  cbn [flat_map]. rewrite generated_escape_str_char, IH. reflexivity.
Qed.

Lemma generated_escape_id_quoted s : C31.GenId.escape_id_quoted s = 96 :: esc_str true s ++ [96].
Proof. unfold C31.GenId.escape_id_quoted. rewrite generated_escape_str. reflexivity. Qed.

Lemma generated_parsable_strings strs :
  C31.GenId.parsable_strings strs = 40 :: join [32] (map str_literal strs) ++ [41].
Proof.
  unfold C31.GenId.parsable_strings, C31.GenId.escape_str_default_backticked. cbn [app]. do 3 f_equal.
  apply map_ext. intro s. rewrite generated_escape_str. reflexivity.
Qed.

(** the pattern of escape_id, as it is in the source now, with its entry point, accepts exactly [is_bare_ascii] *)
Lemma head_set c : set_mem false [(95, 95); (97, 122); (65, 90)] c = id_start c.
Proof. unfold set_mem, id_start. rewrite xorb_false_l. unfold in_ranges. cbn [existsb fst snd]. lia. Qed.

Lemma tail_set c : set_mem false [(95, 95); (97, 122); (65, 90); (48, 57)] c = id_part c.
Proof. unfold set_mem, id_part, id_start. rewrite xorb_false_l. unfold in_ranges. cbn [existsb fst snd]. lia. Qed.

Lemma concat_singletons (r : name) : concat (map (fun x => [x]) r) = r.
Proof. induction r as [|x r IH]; [reflexivity|]. cbn [map concat app]. rewrite IH. reflexivity. Qed.

Lemma generated_regex_iff hi s :
  py_accepts C31.GenId.escape_id_mode (C31.GenId.escape_id_regex hi) s <-> is_bare_ascii s = true.
Proof.
  unfold C31.GenId.escape_id_mode, C31.GenId.escape_id_regex, py_accepts.
  set (rs := [(95, 95); (97, 122); (65, 90); (48, 57)]).
  set (tailre := RSet false rs).
  set (P := fun w : list N => exists c, w = [c] /\ set_mem false rs c = true).
  assert (HP : forall pre w post, M tailre pre w post <-> P w) by (intros; apply M_set_iff).
  split.
  - intro H. apply M_seq_iff in H as (w1 & w2 & -> & H1 & H2).
    apply M_set_iff in H1 as (c & -> & Hc). apply (M_star_concat tailre P HP) in H2 as (ws & -> & Hws).
    cbn [app is_bare_ascii]. rewrite <- head_set, Hc. cbn [andb].
    induction Hws as [|w ws (d & -> & Hd) _ IH]; [reflexivity|].
    cbn [concat app forallb]. rewrite <- tail_set. fold rs. rewrite Hd. exact IH.
  - intro H. destruct s as [|c r]; [discriminate|]. cbn [is_bare_ascii] in H. apply andb_true_iff in H as [Hc Hr].
    apply M_seq_iff. exists [c], r. split; [reflexivity|]. split.
    + apply M_set_iff. exists c. split; [reflexivity|]. rewrite head_set. exact Hc.
    + apply (M_star_concat tailre P HP). exists (map (fun x => [x]) r). split; [symmetry; apply concat_singletons|].
      induction r as [|d r IH]; [constructor|]. cbn [forallb] in Hr. apply andb_true_iff in Hr as [Hd Hr].
      cbn [map]. constructor; [|apply IH; exact Hr]. exists d. split; [reflexivity|]. subst rs. rewrite tail_set. exact Hd.
Qed.

(** ** 2. the engine's lexer on the emitted text *)
Definition delim_of (b : bool) : N := if b then 96 else 34.

Lemma quoted_raw_d_96 s : quoted_raw_d 96 s = quoted_raw s.
Proof.
  assert (H : forall k (s : name), (length s <= k)%nat -> quoted_raw_d 96 s = quoted_raw s).
  { induction k as [|k IH]; intros [|c r] Hl; try reflexivity; cbn [length] in Hl; [lia|].
    cbn [quoted_raw_d quoted_raw]. destruct (c =? 96); [reflexivity|]. destruct (c =? 92).
    - destruct r as [|d r']; [reflexivity|]. destruct (existsb (N.eqb d) escape_chars); [|reflexivity].
      cbn [length] in Hl. rewrite IH by lia. reflexivity.
    - rewrite IH by lia. reflexivity. }
  apply (H (length s)). lia.
Qed.

Definition u4 (v : N) : name := 92 :: 117 :: hex_fixed_up 4 v.

(** what escape_str writes for one code point, by shape *)
Inductive esc_out (b : bool) (c : N) : name -> Prop :=
| eo_pair d :
    In (d, c) [(92, 92); (98, 8); (116, 9); (110, 10); (102, 12); (114, 13)] \/ (d = 34 /\ c = 34 /\ b = false)
    \/ (d = 96 /\ c = 96 /\ b = true) -> esc_out b c [92; d]
| eo_raw : c <> 92 -> c <> delim_of b -> c < 65536 -> esc_out b c [c]
| eo_u : c < 65536 -> esc_out b c (u4 c)
| eo_astral : 65536 <= c < 1114112 -> esc_out b c (u4 (surr_hi c) ++ u4 (surr_lo c)).

Lemma esc_out_spec b c : c < 1114112 -> esc_out b c (esc_str_char b c).
Proof.
  intro Hc. unfold esc_str_char.
  destruct (65535 <? c) eqn:E0.
  { assert (Hr : 65536 <= c < 1114112) by lia. destruct (surr_bounds c Hr) as [Hh Hl].
    rewrite !upper_hex_4 by lia. apply eo_astral. exact Hr. }
  assert (Hc' : c < 65536) by lia.
  destruct (127 <? c) eqn:E1. { rewrite upper_hex_4 by exact Hc'. apply eo_u; exact Hc'. }
  destruct (c <? 32) eqn:E2.
  { destruct (c =? 8) eqn:E8. { apply N.eqb_eq in E8; subst. apply eo_pair. left. cbn. tauto. }
    destruct (c =? 10) eqn:E10. { apply N.eqb_eq in E10; subst. apply eo_pair. left. cbn. tauto. }
    destruct (c =? 9) eqn:E9. { apply N.eqb_eq in E9; subst. apply eo_pair. left. cbn. tauto. }
    destruct (c =? 12) eqn:E12. { apply N.eqb_eq in E12; subst. apply eo_pair. left. cbn. tauto. }
    destruct (c =? 13) eqn:E13. { apply N.eqb_eq in E13; subst. apply eo_pair. left. cbn. tauto. }
    apply eo_u; exact Hc'. }
  destruct (c =? 34) eqn:E34.
  { apply N.eqb_eq in E34; subst. destruct b; [apply eo_raw; cbn; lia|apply eo_pair; right; left; auto]. }
  destruct (c =? 96) eqn:E96.
  { apply N.eqb_eq in E96; subst. destruct b; [apply eo_pair; right; right; auto|apply eo_raw; cbn; lia]. }
  destruct (c =? 92) eqn:E92. { apply N.eqb_eq in E92; subst. apply eo_pair. left. cbn. tauto. }
  apply eo_raw; [lia|destruct b; cbn; lia|lia].
Qed.

Lemma quoted_raw_d_plain D (p X : name) :
  Forall (fun x => x <> D /\ x <> 92) p ->
  quoted_raw_d D (p ++ X) = match quoted_raw_d D X with Some (b, r) => Some (p ++ b, r) | None => None end.
Proof.
  induction 1 as [|x p [H1 H2] _ IH]; cbn [app]; [destruct (quoted_raw_d D X) as [[b r]|]; reflexivity|].
  cbn [quoted_raw_d]. destruct (x =? D) eqn:E1; [lia|]. destruct (x =? 92) eqn:E2; [lia|].
  rewrite IH. destruct (quoted_raw_d D X) as [[b r]|]; reflexivity.
Qed.

Lemma quoted_raw_d_pair D d (X : name) :
  D <> 92 -> existsb (N.eqb d) escape_chars = true ->
  quoted_raw_d D (92 :: d :: X) = match quoted_raw_d D X with Some (b, r) => Some (92 :: d :: b, r) | None => None end.
Proof. intros HD H. cbn [quoted_raw_d]. destruct (92 =? D) eqn:E; [lia|]. cbn [N.eqb Pos.eqb]. rewrite H. reflexivity. Qed.

Lemma delim_of_not_bs b : delim_of b <> 92.
Proof. destruct b; cbn; lia. Qed.

Lemma hex_up_plain b k c : Forall (fun x => x <> delim_of b /\ x <> 92) (hex_fixed_up k c).
Proof. eapply Forall_impl; [|apply hex_fixed_up_range]. cbn beta. intros a Ha. destruct b; cbn [delim_of]; lia. Qed.

Lemma quoted_raw_d_u4 b v (X : name) :
  quoted_raw_d (delim_of b) (u4 v ++ X)
  = match quoted_raw_d (delim_of b) X with Some (bd, r) => Some (u4 v ++ bd, r) | None => None end.
Proof.
  unfold u4. cbn [app]. rewrite quoted_raw_d_pair by (apply delim_of_not_bs || reflexivity).
  rewrite (quoted_raw_d_plain _ _ X (hex_up_plain b 4 v)). destruct (quoted_raw_d (delim_of b) X) as [[bd r]|]; reflexivity.
Qed.

Lemma quoted_raw_d_char b c (X : name) : c < 1114112 ->
  quoted_raw_d (delim_of b) (esc_str_char b c ++ X)
  = match quoted_raw_d (delim_of b) X with Some (bd, r) => Some (esc_str_char b c ++ bd, r) | None => None end.
Proof.
  intro Hc. destruct (esc_out_spec b c Hc) as [d Hd|H1 H2 H3|H|H].
  - cbn [app]. apply quoted_raw_d_pair; [apply delim_of_not_bs|].
    destruct Hd as [Hd|[(-> & _)|(-> & _)]]; [|reflexivity|reflexivity].
    cbn [In] in Hd. repeat (destruct Hd as [Hd|Hd]; [injection Hd as <- _; reflexivity|]). contradiction.
  - apply (quoted_raw_d_plain (delim_of b) [c]). constructor; [split; assumption|constructor].
  - apply quoted_raw_d_u4.
  - rewrite <- app_assoc, quoted_raw_d_u4, quoted_raw_d_u4.
    destruct (quoted_raw_d (delim_of b) X) as [[bd r]|]; [rewrite app_assoc|]; reflexivity.
Qed.

Definition below_max (n : name) : bool := forallb (fun c => c <? 1114112) n.
Definition bmp (n : name) : bool := forallb (fun c => c <? 65536) n.

Lemma scalar_below_max n : scalar_name n = true -> below_max n = true.
Proof.
  unfold scalar_name, below_max. intro H. rewrite forallb_forall in *. intros c Hc. specialize (H c Hc).
  unfold is_scalar in H. lia.
Qed.

Lemma quoted_raw_d_escaped b (n : name) (rest : name) : below_max n = true ->
  quoted_raw_d (delim_of b) (esc_str b n ++ delim_of b :: rest) = Some (esc_str b n, rest).
Proof.
  unfold below_max, esc_str. induction n as [|c n IH]; cbn [forallb flat_map app]; intro H.
  - cbn [quoted_raw_d]. rewrite N.eqb_refl. reflexivity.
  - apply andb_true_iff in H as [Hc Hn]. rewrite <- app_assoc, quoted_raw_d_char, (IH Hn) by lia. reflexivity.
Qed.

Lemma quoted_raw_escaped_id (n rest : name) : below_max n = true ->
  quoted_raw (esc_str true n ++ 96 :: rest) = Some (esc_str true n, rest).
Proof. intro H. rewrite <- quoted_raw_d_96. exact (quoted_raw_d_escaped true n rest H). Qed.

Lemma quoted_raw_escaped_str (n rest : name) : below_max n = true ->
  quoted_raw_d 34 (esc_str false n ++ 34 :: rest) = Some (esc_str false n, rest).
Proof. intro H. exact (quoted_raw_d_escaped false n rest H). Qed.

Lemma unescape_u4 f v (X : name) : v < 65536 ->
  unescape_string (S f) (u4 v ++ X) = option_map (cons v) (unescape_string f X).
Proof. intro H. unfold u4. cbn [app unescape_string N.eqb Pos.eqb]. rewrite take_hex_fixed_up by (cbn; lia). reflexivity. Qed.

(** unescapeString turns the text written for one code point into its UTF-16 code units *)
Lemma unescape_string_id_char b f c (X : name) : c < 1114112 ->
  unescape_string (length (utf16_char c) + f) (esc_str_char b c ++ X)
  = option_map (app (utf16_char c)) (unescape_string f X).
Proof.
  intro Hc. destruct (esc_out_spec b c Hc) as [d Hd|H1 H2 H3|H|H].
  - destruct Hd as [Hd|[(-> & -> & _)|(-> & -> & _)]];
      [|cbn; destruct (unescape_string f X); reflexivity|cbn; destruct (unescape_string f X); reflexivity].
    cbn [In] in Hd.
    repeat (destruct Hd as [Hd|Hd]; [injection Hd as <- <-; cbn; destruct (unescape_string f X); reflexivity|]). contradiction.
  - rewrite utf16_char_small by exact H3. cbn [length Nat.add app unescape_string].
    destruct (c =? 92) eqn:E; [lia|]. destruct (unescape_string f X); reflexivity.
  - rewrite utf16_char_small by exact H. cbn [length Nat.add]. rewrite unescape_u4 by exact H.
    destruct (unescape_string f X); reflexivity.
  - destruct (surr_bounds c H) as [Hh Hl]. rewrite utf16_char_astral by lia. cbn [length Nat.add].
    rewrite <- app_assoc, unescape_u4, unescape_u4 by lia. destruct (unescape_string f X); reflexivity.
Qed.

Lemma esc_str_char_length b c : c < 1114112 -> (length (utf16_char c) <= length (esc_str_char b c))%nat.
Proof.
  intro Hc. destruct (esc_out_spec b c Hc) as [d Hd|H1 H2 H3|H|H].
  - assert (c < 65536).
    { destruct Hd as [Hd|[(_ & -> & _)|(_ & -> & _)]]; [|lia|lia]. cbn [In] in Hd.
      repeat (destruct Hd as [Hd|Hd]; [injection Hd as _ <-; lia|]). contradiction. }
    rewrite utf16_char_small by assumption. cbn [length]. lia.
  - rewrite utf16_char_small by assumption. cbn [length]. lia.
  - rewrite utf16_char_small by assumption. unfold u4. cbn [length]. lia.
  - rewrite utf16_char_astral by lia. rewrite app_length. unfold u4. cbn [length]. lia.
Qed.

Lemma unescape_string_esc b (n : name) : below_max n = true ->
  forall f, (length (esc_str b n) < f)%nat -> unescape_string f (esc_str b n) = Some (utf16 n).
Proof.
  unfold below_max, esc_str. induction n as [|c n IH]; cbn [forallb flat_map]; intros Hn f Hf.
  - destruct f; [lia|reflexivity].
  - apply andb_true_iff in Hn as [Hc Hn]. rewrite app_length in Hf.
    pose proof (esc_str_char_length b c ltac:(lia)) as Hlen.
    replace f with (length (utf16_char c) + (f - length (utf16_char c)))%nat by lia.
    rewrite unescape_string_id_char by lia. rewrite IH; [reflexivity|exact Hn|lia].
Qed.

Lemma u4_small v : forallb (fun x => x <? 65536) (u4 v) = true.
Proof.
  unfold u4. cbn [forallb]. change (92 <? 65536) with true. change (117 <? 65536) with true. cbn [andb].
  apply forallb_forall. intros x Hx. pose proof (hex_fixed_up_range 4 v) as HF. rewrite Forall_forall in HF.
  specialize (HF x Hx). lia.
Qed.

Lemma esc_str_char_small b c : c < 1114112 -> forallb (fun x => x <? 65536) (esc_str_char b c) = true.
Proof.
  intro Hc. destruct (esc_out_spec b c Hc) as [d Hd|H1 H2 H3|H|H].
  - destruct Hd as [Hd|[(-> & _)|(-> & _)]]; [|reflexivity|reflexivity].
    cbn [In] in Hd. repeat (destruct Hd as [Hd|Hd]; [injection Hd as <- _; reflexivity|]). contradiction.
  - cbn [forallb]. replace (c <? 65536) with true by lia. reflexivity.
  - apply u4_small.
  - rewrite forallb_app, !u4_small. reflexivity.
Qed.

(** the emitted text is ASCII plus raw BMP characters: its UTF-16 form is itself *)
Lemma esc_str_small b n : below_max n = true -> bmp (esc_str b n) = true.
Proof.
  unfold below_max, bmp, esc_str. induction n as [|c n IH]; cbn [forallb flat_map]; intro H; [reflexivity|].
  apply andb_true_iff in H as [Hc Hn]. rewrite forallb_app, esc_str_char_small, (IH Hn) by lia. reflexivity.
Qed.

(** [utf16] is injective on names of scalar values: equal Java Strings denote equal names *)
Lemma utf16_inj (a : name) : forall b : name, scalar_name a = true -> scalar_name b = true -> utf16 a = utf16 b -> a = b.
Proof.
  unfold scalar_name. induction a as [|x a IH]; intros [|y b] Ha Hb E; try reflexivity.
  - exfalso. unfold utf16 in E. cbn [flat_map] in E. unfold utf16_char in E. destruct (y <? 65536); discriminate.
  - exfalso. unfold utf16 in E. cbn [flat_map] in E. unfold utf16_char in E. destruct (x <? 65536); discriminate.
  - cbn [forallb] in Ha, Hb. apply andb_true_iff in Ha as [Hx Ha]. apply andb_true_iff in Hb as [Hy Hb].
    unfold utf16 in E. cbn [flat_map] in E. fold (utf16 a) in E. fold (utf16 b) in E.
    unfold is_scalar in Hx, Hy. unfold utf16_char in E.
    destruct (x <? 65536) eqn:Ex; destruct (y <? 65536) eqn:Ey; cbn [app] in E.
    + injection E as -> E. f_equal. apply IH; assumption.
    + exfalso. pose proof (f_equal (hd 0) E) as E1. cbn [hd] in E1.
      assert (H1 : y < 1114112) by lia. assert (H2 : 65536 <= y) by lia.
      assert ((y - 65536) / 1024 < 1024) by (apply N.div_lt_upper_bound; lia). lia.
    + exfalso. pose proof (f_equal (hd 0) E) as E1. cbn [hd] in E1.
      assert (H1 : x < 1114112) by lia. assert (H2 : 65536 <= x) by lia.
      assert ((x - 65536) / 1024 < 1024) by (apply N.div_lt_upper_bound; lia). lia.
    + pose proof (f_equal (hd 0) E) as E1. pose proof (f_equal (fun l => hd 0 (tl l)) E) as E2.
      pose proof (f_equal (fun l => tl (tl l)) E) as E3. cbn [hd tl] in E1, E2, E3.
      assert (x = y).
      { assert (H1 : 65536 <= x) by lia. assert (H2 : 65536 <= y) by lia.
        pose proof (N.div_mod (x - 65536) 1024 ltac:(lia)) as Dx. pose proof (N.div_mod (y - 65536) 1024 ltac:(lia)) as Dy.
        assert (Eq : (x - 65536) / 1024 = (y - 65536) / 1024) by lia.
        assert (Er : (x - 65536) mod 1024 = (y - 65536) mod 1024) by lia.
        rewrite Eq, Er in Dx. lia. }
      subst y. f_equal. apply IH; assumption || exact E3.
Qed.

Lemma id_start_java js c : id_start c = true -> java_start js c = true.
Proof. unfold id_start, java_start. intro H. destruct (c <? 128) eqn:E; lia. Qed.

Lemma id_part_java jp c : id_part c = true -> java_part jp c = true.
Proof. unfold id_part, id_start, java_part. intro H. destruct (c <? 128) eqn:E; lia. Qed.

Lemma id_part_small c : id_part c = true -> c <? 65536 = true.
Proof. unfold id_part, id_start. lia. Qed.

Section IdLexer.
  Variable java_start_hi : N -> bool.
  Variable java_part_hi : N -> bool.
  Notation java_start := (java_start java_start_hi).
  Notation java_part := (java_part java_part_hi).
  Notation lex_identifier := (lex_identifier java_start_hi java_part_hi).
  Notation engine_reads_id := (engine_reads_id java_start_hi java_part_hi).

  (** ** every name of code points below 0x110000 printed by escape_id is read back as its UTF-16 form *)
  Theorem engine_reads_id_below_max (n : name) (D : N) (rest : name) :
    below_max n = true -> java_part D = false -> engine_reads_id n D rest.
  Proof.
    intros Hsafe HD. unfold IdModel.engine_reads_id, IdModel.escape_id in *.
    destruct (is_bare_ascii n) eqn:Hb.
    - (* bare ASCII identifier *)
      destruct n as [|c r]; [discriminate|]. cbn [is_bare_ascii] in Hb. apply andb_true_iff in Hb as [Hc Hr].
      assert (Hsmall : forallb (fun x => x <? 65536) (c :: r) = true).
      { cbn [forallb]. rewrite (id_part_small c) by (unfold id_part; rewrite Hc; reflexivity). cbn [andb].
        apply forallb_forall. intros x Hx. apply id_part_small. rewrite forallb_forall in Hr. exact (Hr x Hx). }
      rewrite (utf16_small (c :: r) Hsmall). cbn [app].
      unfold Lexer.lex_identifier, lex_backtick. destruct (c =? 96) eqn:E96; [unfold id_start in Hc; lia|].
      unfold lex_ident. rewrite (id_start_java java_start_hi c Hc).
      assert (Hj : forallb java_part r = true).
      { apply forallb_forall. intros x Hx. apply id_part_java. rewrite forallb_forall in Hr. exact (Hr x Hx). }
      rewrite (span_app' java_part r (D :: rest) Hj HD). reflexivity.
    - (* back-ticked *)
      set (body := esc_str true n).
      assert (Hu : utf16 (96 :: body ++ [96]) = 96 :: body ++ [96]).
      { apply utf16_small. cbn [forallb]. rewrite forallb_app. subst body. fold (bmp (esc_str true n)).
        rewrite (esc_str_small true n Hsafe). reflexivity. }
      rewrite Hu.
      unfold Lexer.lex_identifier, lex_backtick. cbn [app N.eqb Pos.eqb]. rewrite <- app_assoc. cbn [app].
      subst body. rewrite (quoted_raw_escaped_id n (D :: rest) Hsafe).
      rewrite (unescape_string_esc true n Hsafe) by lia. reflexivity.
  Qed.

  Theorem engine_reads_id_all : engine_accepts_all_ids java_start_hi java_part_hi.
  Proof. intros n D rest Hs HD. apply engine_reads_id_below_max; [apply scalar_below_max; exact Hs|exact HD]. Qed.

  (** ** what was wrong before the fixes (statements about the hand definitions of the previous source text) *)
  (** U+1F600 was written as backslash-u 1F600 (FIVE hex digits); unescapeString takes four of them and then the
      character 0: the engine ACCEPTED the text and read a DIFFERENT name, U+1F60 followed by "0" *)
  Lemma unfixed_misreads_astral_id uw :
    lex_identifier (utf16 (escape_id_unfixed uw [128512]) ++ [58]) = Some ([8032; 48], [58]).
  Proof. vm_compute. reflexivity. Qed.

  (** a name Python's [_a-zA-Z]\w* accepts was sent bare; a² is not a Java identifier *)
  Lemma unfixed_rejects_bare_superscript_id uw :
    uw 178 = true -> java_part_hi 178 = false ->
    lex_identifier (utf16 (escape_id_unfixed uw [97; 178]) ++ [58]) <> Some (utf16 [97; 178], [58]).
  Proof.
    intros Hw Hj. unfold escape_id_unfixed.
    assert (Hb : is_bare uw [97; 178] = true).
    { cbn [Model.is_bare forallb]. unfold Peg.is_word. cbn [N.ltb N.compare Pos.compare Pos.compare_cont].
      rewrite Hw. reflexivity. }
    rewrite Hb. unfold Lexer.lex_identifier. cbn.
    unfold Lexer.java_part. cbn [N.ltb N.compare Pos.compare Pos.compare_cont]. rewrite Hj. discriminate.
  Qed.
End IdLexer.

(** string literals: every string of code points below 0x110000 printed by escape_str (not back-ticked) between double
    quotes is read back as its UTF-16 form *)
Theorem engine_reads_str_below_max (s : name) (rest : name) : below_max s = true -> engine_reads_str s rest.
Proof.
  intro Hs. unfold engine_reads_str, str_literal.
  set (body := esc_str false s).
  assert (Hu : utf16 (34 :: body ++ [34]) = 34 :: body ++ [34]).
  { apply utf16_small. cbn [forallb]. rewrite forallb_app. subst body. fold (bmp (esc_str false s)).
    rewrite (esc_str_small false s Hs). reflexivity. }
  rewrite Hu. unfold lex_string. cbn [app N.eqb Pos.eqb orb]. rewrite <- app_assoc. cbn [app].
  subst body. rewrite (quoted_raw_escaped_str s rest Hs).
  rewrite (unescape_string_esc false s Hs) by lia. reflexivity.
Qed.

Lemma unfixed_misreads_astral_str : lex_string (utf16 (str_literal_unfixed [128512])) = Some ([8032; 48], []).
Proof. vm_compute. reflexivity. Qed.
