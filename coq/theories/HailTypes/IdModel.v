(** C31, identifier half — hand model of hail/python/hail/utils/misc.py: upper_hex / escape_str / escape_id /
    parsable_strings (the functions hail/ir/*.py use to print names and string literals into the IR text), and the
    statement "the engine's lexer (model, Lexer.v) reads what escape_id emits back as the same name".
    Executable definitions only.  The model REGENERATED from the source is HailG.C31.GenId; IdLemmas.v proves it equal
    to the definitions below (a semantic edit of the source breaks those lemmas). *)
From HailV Require Import Common.Prelude HailValues.Model HailTypes.Peg HailTypes.Model HailTypes.Lexer Regex.Regex.
Open Scope N_scope.

(** ** helpers the generated file refers to *)
Definition dict_mem (c : N) (d : list (N * name)) : bool := existsb (fun kv => fst kv =? c) d.      (* ch in d *)
Fixpoint dict_get (c : N) (d : list (N * name)) : name :=                                              (* d[ch], under ch in d *)
  match d with [] => [] | (k, v) :: r => if k =? c then v else dict_get c r end.

(** Python's \w as a union of ranges: the ASCII part is concrete, [word_hi] are the ranges above U+007F *)
Definition py_word_ranges (word_hi : list (N * N)) : list (N * N) := [(48, 57); (65, 90); (95, 95); (97, 122)] ++ word_hi.
Definition word_hi_ok (word_hi : list (N * N)) : bool := forallb (fun r => 128 <=? fst r) word_hi.

(** upper-case hexadecimal *)
Definition hexd_up (n : N) : N := if n <? 10 then 48 + n else 55 + n.
Fixpoint hex_fixed_up (k : nat) (c : N) : name :=
  match k with O => [] | S k' => hex_fixed_up k' (c / 16) ++ [hexd_up (c mod 16)] end.
Definition hex_ndigits (n : N) : nat := S (N.to_nat (N.log2 n / 4)).
(** [upper_hex(n)] = "{0:X}".format(n);  [upper_hex(n, k)] = "{0:0{1}X}".format(n, k): zero-padded to AT LEAST k digits *)
Definition upper_hex (n : N) (num_digits : option nat) : name :=
  hex_fixed_up (Nat.max (hex_ndigits n) (match num_digits with None => 1%nat | Some k => k end)) n.

(** ** escape_str, one character *)
Definition esc_str_char (backticked : bool) (c : N) : name :=
  if 127 <? c then 92 :: 117 :: upper_hex c (Some 4%nat)                  (* \u + at least 4 hex digits *)
  else if c <? 32 then
    if c =? 8 then [92; 98] else if c =? 10 then [92; 110] else if c =? 9 then [92; 116]
    else if c =? 12 then [92; 102] else if c =? 13 then [92; 114]
    else 92 :: 117 :: hex_fixed_up 4 c                                    (* \u00XX / \u000X *)
  else if c =? 34 then (if backticked then [34] else [92; 34])
  else if c =? 96 then (if backticked then [92; 96] else [96])
  else if c =? 92 then [92; 92]
  else [c].                                                               (* includes U+007F, sent raw *)

Definition esc_str (backticked : bool) (s : name) : name := flat_map (esc_str_char backticked) s.

Section Id.
  Variable java_start_hi : N -> bool.
  Variable java_part_hi : N -> bool.
  Variable uni_word : N -> bool.

  (** [escape_id]: re.fullmatch(r'[_a-zA-Z]\w*', s) is [Model.is_bare] (the same language as escape_parsable's
      [_a-zA-Z][\w_]*; proved against the generated regex in IdLemmas.generated_regex_iff) *)
  Definition escape_id (s : name) : name :=
    if is_bare uni_word s then s else 96 :: esc_str true s ++ [96].

  (** the engine reads what the front end emits for the name [n] as exactly [n] (one identifier token, lexing stops
      at the delimiter that follows) *)
  Definition engine_reads_id (n : name) (delim : N) (rest : name) : Prop :=
    lex_identifier java_start_hi java_part_hi (utf16 (escape_id n) ++ delim :: rest) = Some (utf16 n, delim :: rest).

  (** names for which this is proved: bare names made of Java identifier characters, and every quoted name inside
      the Basic Multilingual Plane *)
  Definition id_engine_safe (n : name) : bool :=
    if is_bare uni_word n then forallb (java_part java_part_hi) (utf16 (tl n)) else forallb (fun c => c <? 65536) n.

  (** ** string literals: IRLexer.stringLiteral = quotedLiteral(double quote) | quotedLiteral(apostrophe) *)
  Fixpoint quoted_raw_d (delim : N) (s : name) : option (name * name) :=
    match s with
    | [] => None
    | c :: r =>
      if c =? delim then Some ([], r)
      else if c =? 92 then
        match r with
        | d :: r' =>
          if existsb (N.eqb d) escape_chars then
            match quoted_raw_d delim r' with Some (b, rest) => Some (c :: d :: b, rest) | None => None end
          else None
        | [] => None
        end
      else match quoted_raw_d delim r with Some (b, rest) => Some (c :: b, rest) | None => None end
    end.

  Definition lex_string (s : name) : option (name * name) :=
    match s with
    | c :: r =>
      if (c =? 34) || (c =? 39) then
        match quoted_raw_d c r with
        | Some (raw, rest) =>
            match unescape_string (S (length raw)) raw with Some v => Some (v, rest) | None => None end
        | None => None
        end
      else None
    | [] => None
    end.

  (** the string literal the front end emits for [s] (one element of parsable_strings, hail.ir.Str) *)
  Definition str_literal (s : name) : name := 34 :: esc_str false s ++ [34].
  Definition engine_reads_str (s : name) (rest : name) : Prop :=
    lex_string (utf16 (str_literal s) ++ rest) = Some (utf16 s, rest).
End Id.

(** The property as stated (C31, engine half, identifiers printed through escape_id) for ALL names — FALSE on the unchanged
    code (Props_C31: C31_escape_id_engine_refuted); what holds is IdLemmas.engine_reads_id_safe. *)
Definition engine_accepts_all_ids (java_start_hi java_part_hi uni_word : N -> bool) : Prop :=
  forall (n : name) (delim : N) (rest : name),
    forallb (fun c => c <? 1114112) n = true -> java_part java_part_hi delim = false ->
    engine_reads_id java_start_hi java_part_hi uni_word n delim rest.
