(** C31, identifier half — hand model of hail/python/hail/utils/misc.py: upper_hex / escape_str / escape_id /
    parsable_strings (the functions hail/ir/*.py use to print names and string literals into the IR text) AS REPAIRED by
    fixes/C31-astral.diff and fixes/C31-bare-ascii.diff, and the
    statement "the engine's lexer (model, Lexer.v) reads what escape_id emits back as the same name".
    Executable definitions only.  The model REGENERATED from the source is HailG.C31.GenId; IdLemmas.v proves it equal
    to the definitions below (a semantic edit of the source breaks those lemmas). *)
From HailV Require Import Common.Prelude HailValues.Model HailTypes.Peg HailTypes.Model HailTypes.Lexer Regex.Regex.
Open Scope N_scope.

(** ** helpers the generated file refers to *)
Definition dict_mem (c : N) (d : list (N * name)) : bool := existsb (fun kv => fst kv =? c) d.      (* ch in d *)
Fixpoint dict_get (c : N) (d : list (N * name)) : name :=                                              (* d[ch], under ch in d *)
  match d with [] => [] | (k, v) :: r => if k =? c then v else dict_get c r end.

(** Python's \w as a union of ranges: the ASCII part is concrete, [word_hi] are the ranges above U+007F *)
Definition py_word_ranges (word_hi : list (N * N)) : list (N * N) := [(48, 57); (65, 90); (95, 95); (97, 122)] ++ word_hi.
Definition word_hi_ok (word_hi : list (N * N)) : bool := forallb (fun r => 128 <=? fst r) word_hi.

(** upper-case hexadecimal *)
Definition hexd_up (n : N) : N := if n <? 10 then 48 + n else 55 + n.
Fixpoint hex_fixed_up (k : nat) (c : N) : name :=
  match k with O => [] | S k' => hex_fixed_up k' (c / 16) ++ [hexd_up (c mod 16)] end.
Definition hex_ndigits (n : N) : nat := S (N.to_nat (N.log2 n / 4)).
(** [upper_hex(n)] = "{0:X}".format(n);  [upper_hex(n, k)] = "{0:0{1}X}".format(n, k): zero-padded to AT LEAST k digits *)
Definition upper_hex (n : N) (num_digits : option nat) : name :=
  hex_fixed_up (Nat.max (hex_ndigits n) (match num_digits with None => 1%nat | Some k => k end)) n.

(** ** escape_str, one character (the code WITH fixes/C31-astral.diff: a code point above U+FFFF is written as the two
    4-digit escapes of its UTF-16 surrogate pair, as Java's escapeJava does) *)
Definition surr_hi (c : N) : N := 55296 + N.shiftr (c - 65536) 10.
Definition surr_lo (c : N) : N := 56320 + N.land (c - 65536) 1023.

Definition esc_str_char (backticked : bool) (c : N) : name :=
  if 65535 <? c then (92 :: 117 :: upper_hex (surr_hi c) (Some 4%nat)) ++ (92 :: 117 :: upper_hex (surr_lo c) (Some 4%nat))
  else if 127 <? c then 92 :: 117 :: upper_hex c (Some 4%nat)                  (* \u + 4 hex digits *)
  else if c <? 32 then
    if c =? 8 then [92; 98] else if c =? 10 then [92; 110] else if c =? 9 then [92; 116]
    else if c =? 12 then [92; 102] else if c =? 13 then [92; 114]
    else 92 :: 117 :: hex_fixed_up 4 c                                    (* \u00XX / \u000X *)
  else if c =? 34 then (if backticked then [34] else [92; 34])
  else if c =? 96 then (if backticked then [92; 96] else [96])
  else if c =? 92 then [92; 92]
  else [c].                                                               (* includes U+007F, sent raw *)

Definition esc_str (backticked : bool) (s : name) : name := flat_map (esc_str_char backticked) s.

(** [escape_id]'s test (the code WITH fixes/C31-bare-ascii.diff): re.fullmatch(r'[_a-zA-Z][_a-zA-Z0-9]*', s) *)
Definition id_start (c : N) : bool := ((65 <=? c) && (c <=? 90)) || (c =? 95) || ((97 <=? c) && (c <=? 122)).
Definition id_part (c : N) : bool := id_start c || ((48 <=? c) && (c <=? 57)).
Definition is_bare_ascii (s : name) : bool :=
  match s with c :: r => id_start c && forallb id_part r | [] => false end.

Definition escape_id (s : name) : name := if is_bare_ascii s then s else 96 :: esc_str true s ++ [96].

(** Unicode scalar values: code points that are not surrogates.  A Python str can also hold lone surrogates; such a str
    cannot be encoded as UTF-8 to be sent to the engine and [utf16] is not injective on them — they are OUTSIDE the
    statements below. *)
Definition is_scalar (c : N) : bool := (c <? 55296) || ((57344 <=? c) && (c <? 1114112)).
Definition scalar_name (n : name) : bool := forallb is_scalar n.

(** ** string literals: IRLexer.stringLiteral = quotedLiteral(double quote) | quotedLiteral(apostrophe) *)
Fixpoint quoted_raw_d (delim : N) (s : name) : option (name * name) :=
  match s with
  | [] => None
  | c :: r =>
    if c =? delim then Some ([], r)
    else if c =? 92 then
      match r with
      | d :: r' =>
        if existsb (N.eqb d) escape_chars then
          match quoted_raw_d delim r' with Some (b, rest) => Some (c :: d :: b, rest) | None => None end
        else None
      | [] => None
      end
    else match quoted_raw_d delim r with Some (b, rest) => Some (c :: b, rest) | None => None end
  end.

Definition lex_string (s : name) : option (name * name) :=
  match s with
  | c :: r =>
    if (c =? 34) || (c =? 39) then
      match quoted_raw_d c r with
      | Some (raw, rest) =>
          match unescape_string (S (length raw)) raw with Some v => Some (v, rest) | None => None end
      | None => None
      end
    else None
  | [] => None
  end.

(** the string literal the front end emits for [s] (one element of parsable_strings, hail.ir.Str) *)
Definition str_literal (s : name) : name := 34 :: esc_str false s ++ [34].
(** the engine's String is a sequence of UTF-16 code units: reading the literal back gives [utf16 s] *)
Definition engine_reads_str (s : name) (rest : name) : Prop :=
  lex_string (utf16 (str_literal s) ++ rest) = Some (utf16 s, rest).

Section Id.
  Variable java_start_hi : N -> bool.
  Variable java_part_hi : N -> bool.

  (** the engine reads what the front end emits for the name [n] as exactly [n] — as a Java String, i.e. the UTF-16 code
      units of [n] — one identifier token, lexing stops at the delimiter that follows *)
  Definition engine_reads_id (n : name) (delim : N) (rest : name) : Prop :=
    lex_identifier java_start_hi java_part_hi (utf16 (escape_id n) ++ delim :: rest) = Some (utf16 n, delim :: rest).
End Id.

(** The property as stated (C31, engine half, identifiers printed through escape_id) for ALL names of Unicode scalar values —
    it HOLDS for the fixed code (IdLemmas.engine_reads_id_all, Props_C31.C31_escape_id_engine_accepts). *)
Definition engine_accepts_all_ids (java_start_hi java_part_hi : N -> bool) : Prop :=
  forall (n : name) (delim : N) (rest : name),
    scalar_name n = true -> java_part java_part_hi delim = false ->
    engine_reads_id java_start_hi java_part_hi n delim rest.

(** ** the functions BEFORE the two fixes (hand definitions of the previous source text, kept to state what was wrong):
    every character above U+007F written as backslash-u + upper_hex(c, 4) — five or six digits above U+FFFF —, and the
    bare-name test [_a-zA-Z]\w* with Python's Unicode \w ([Model.is_bare]) *)
Definition esc_str_char_unfixed (backticked : bool) (c : N) : name :=
  if 127 <? c then 92 :: 117 :: upper_hex c (Some 4%nat) else esc_str_char backticked c.
Definition escape_id_unfixed (uni_word : N -> bool) (s : name) : name :=
  if is_bare uni_word s then s else 96 :: flat_map (esc_str_char_unfixed true) s ++ [96].
Definition str_literal_unfixed (s : name) : name := 34 :: flat_map (esc_str_char_unfixed false) s ++ [34].
