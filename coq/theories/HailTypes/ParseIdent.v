(** C31 — parsing printed types, part 2: identifiers (bare and back-ticked) and natural numbers. *)
From HailV Require Import Common.Prelude HailValues.Model HailValues.Lemmas HailTypes.Peg HailTypes.Model
  HailTypes.PegLemmas HailTypes.EscLemmas HailTypes.ParseBase.
From Coq Require Import String.
Open Scope N_scope.

Section ParseIdent.
  Variable uni_word : N -> bool.
  Variable uni_space : N -> bool.
  Notation RUN := (runs uni_word uni_space type_grammar).
  Notation is_word := (is_word uni_word).
  Notation is_space := (is_space uni_space).
  Notation escape_parsable := (escape_parsable uni_word).
  Notation is_bare := (is_bare uni_word).
  Notation nonspace_head := (nonspace_head uni_space).

  Definition name_ok (n : name) : bool := forallb (fun c => c <? 4294967296) n.

  Lemma strip_prefix_app (l X : name) : strip_prefix l (l ++ X) = Some X.
  Proof. induction l as [|c l IH]; cbn [app strip_prefix]; [reflexivity|]. rewrite N.eqb_refl. exact IH. Qed.

  Lemma lit_runs l X : RUN (PLit l) (l ++ X) (Ok (Node [] l [], X)).
  Proof. apply runs_lit. apply strip_prefix_app. Qed.

  Lemma alpha_is_word c : ((65 <=? c) && (c <=? 90)) || (c =? 95) || ((97 <=? c) && (c <=? 122)) = true -> is_word c = true.
  Proof. intro H. unfold Peg.is_word. destruct (c <? 128) eqn:E; lia. Qed.

  Lemma alpha_nonspace c : ((65 <=? c) && (c <=? 90)) || (c =? 95) || ((97 <=? c) && (c <=? 122)) = true -> is_space c = false.
  Proof. intro H. unfold Peg.is_space. destruct (c <? 128) eqn:E; lia. Qed.

  Lemma word_or_us c : is_word c || (c =? 95) = true -> is_word c = true.
  Proof.
    intro H. destruct (is_word c) eqn:E; [reflexivity|]. cbn [orb] in H. apply N.eqb_eq in H. subst c.
    cbv in E. discriminate.
  Qed.

  Lemma identifier_runs pre n D rest :
    pre_ok pre -> name_ok n = true -> D = 58 \/ D = 62 ->
    exists tr, RUN (R "identifier") (pre ++ escape_parsable n ++ D :: rest) (Ok (tr, D :: rest)) /\ visit tr = Some (VS n).
  Proof.
    intros Hpre Hn HD.
    assert (HDw : is_word D = false) by (destruct HD as [-> | ->]; reflexivity).
    assert (HDs : nonspace_head (D :: rest)) by (destruct HD as [-> | ->]; reflexivity).
    unfold Model.escape_parsable. destruct (is_bare n) eqn:Hb.
    - (* bare *)
      destruct n as [|c r]; [discriminate|]. cbn [Model.is_bare] in Hb. apply andb_true_iff in Hb as [Hc Hr].
      assert (Hw : forallb is_word (c :: r) = true).
      { cbn [forallb]. rewrite (alpha_is_word c Hc). cbn [andb]. rewrite forallb_forall in *. intros d Hd.
        apply word_or_us. apply Hr. exact Hd. }
      pose (sid := Node (codes "simple_identifier") (c :: r) []).
      pose (children := [Node (codes "_") pre []; Node [] (c :: r) [sid]; Node (codes "_") [] []]).
      exists (Node (codes "identifier") (List.concat (map tree_text children)) children). split.
      + eapply runs_ref; [reflexivity|]. apply runs_seq.
        eapply seq_cons; [apply ws_runs; [exact Hpre|cbn; apply alpha_nonspace; exact Hc]|].
        eapply seq_cons.
        { apply (runs_alt _ _ _ _ _ sid). apply alt_here.
          eapply runs_ref; [reflexivity|]. apply runs_re. cbn [match_re].
          rewrite (span_app is_word (c :: r) (D :: rest) Hw HDw). reflexivity. }
        eapply seq_cons; [apply (ws_runs _ _ [] (D :: rest)); [left; reflexivity|exact HDs]|]. apply seq_nil.
      + reflexivity.
    - (* back-ticked *)
      set (body := flat_map esc_char n).
      pose (eid := Node (codes "escaped_identifier") (96 :: body ++ [96]) []).
      pose (children := [Node (codes "_") pre []; Node [] (96 :: body ++ [96]) [eid]; Node (codes "_") [] []]).
      exists (Node (codes "identifier") (List.concat (map tree_text children)) children). split.
      + eapply runs_ref; [reflexivity|]. apply runs_seq.
        eapply seq_cons; [apply ws_runs; [exact Hpre|reflexivity]|].
        eapply seq_cons.
        { apply (runs_alt _ _ _ _ _ eid). apply alt_skip.
          - eapply runs_ref_fail; [reflexivity|]. apply runs_re_fail. reflexivity.
          - apply alt_here. eapply runs_ref; [reflexivity|]. apply runs_re. cbn [match_re app N.eqb Pos.eqb].
            rewrite <- app_assoc. cbn [app]. subst body. rewrite escid_body_escaped. reflexivity. }
        eapply seq_cons; [apply (ws_runs _ _ [] (D :: rest)); [left; reflexivity|exact HDs]|]. apply seq_nil.
      + rewrite visit_Node. subst children. cbn [omapv]. rewrite !visit_ws.
        rewrite (visit_Node [] _ [eid]). cbn [omapv].
        assert (Ee : visit eid = Some (VS n)).
        { subst eid. rewrite visit_Node. cbn [omapv].
          change (option_map VS (unescape_parsable (strip_ends (96 :: body ++ [96]))) = Some (VS n)).
          rewrite strip_ends_backticked. subst body. rewrite unescape_escaped_body by exact Hn. reflexivity. }
        rewrite Ee. reflexivity.
  Qed.

  Lemma digit_nonspace c : is_digit c = true -> is_space c = false.
  Proof. unfold is_digit, Peg.is_space. intro H. destruct (c <? 128) eqn:E; lia. Qed.

  Lemma nat_runs n rest :
    exists tr, RUN (R "nat") ([32] ++ dec_of_N n ++ 62 :: rest) (Ok (tr, 62 :: rest)) /\ visit tr = Some (VNat n).
  Proof.
    pose proof (dec_of_N_digits n) as Hd. pose proof (dec_of_N_nonempty n) as Hne.
    destruct (dec_of_N n) as [|c r] eqn:E; [congruence|].
    pose (lit := Node (codes "nat_literal") (c :: r) []).
    pose (children := [Node (codes "_") [32] []; Node [] (c :: r) [lit]; Node (codes "_") [] []]).
    exists (Node (codes "nat") (List.concat (map tree_text children)) children). split.
    - eapply runs_ref; [reflexivity|]. apply runs_seq.
      eapply seq_cons.
      { apply (ws_runs _ _ [32]); [right; reflexivity|]. cbn. apply digit_nonspace.
        cbn [forallb] in Hd. apply andb_true_iff in Hd as [H _]. exact H. }
      eapply seq_cons.
      { apply (runs_alt _ _ _ _ _ lit). apply alt_here. eapply runs_ref; [reflexivity|]. apply runs_re. cbn [match_re].
        rewrite (span_app is_dec_digit (c :: r) (62 :: rest) Hd); reflexivity. }
      eapply seq_cons; [apply (ws_runs _ _ [] (62 :: rest)); [left; reflexivity|reflexivity]|]. apply seq_nil.
    - rewrite visit_Node. subst children. cbn [omapv]. rewrite !visit_ws.
      rewrite (visit_Node [] _ [lit]). cbn [omapv].
      assert (El : visit lit = Some (VNat n)).
      { subst lit. rewrite visit_Node. cbn [omapv].
        change (option_map VNat (N_of_dec (c :: r)) = Some (VNat n)). rewrite <- E, N_of_dec_of_N. reflexivity. }
      rewrite El. reflexivity.
  Qed.
End ParseIdent.
