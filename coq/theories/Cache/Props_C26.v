(** C26 — property theorems only.  They quantify over ALL schedules (lists of harness actions) of the model
    HailV.Cache.Model, which the check ties to gear/gear/time_limited_max_size_cache.py by a differential run.
    [shield cf = true] is the code after fixes/C26.diff; [shield cf = false] the code before it. *)
From HailV Require Import Common.Prelude Cache.Model Cache.Lemmas.
Open Scope Z_scope.

(** Bounded: after any schedule the cache holds at most [num_slots] entries. *)
Theorem C26_bounded : forall cf acts,
  0 < slots cf -> Z.of_nat (length (cache (final cf acts))) <= slots cf.
Proof. intros cf acts H. apply bounded. lia. Qed.
Print Assumptions C26_bounded.

(** Fresh: every value a lookup returns was produced by a load that completed at most (strictly less than)
    one lifetime earlier. *)
Theorem C26_fresh : forall cf acts c v t,
  0 < life cf -> In (EvReturn c v t) (trace cf acts) ->
  exists t0, In (EvLoaded v t0) (trace cf acts) /\ t0 <= t < t0 + life cf.
Proof. intros cf acts c v t Hl H. destruct (fresh_run cf acts Hl) as [_ HB]. apply (HB c v t H). Qed.
Print Assumptions C26_fresh.

(** ... and it is the value of a load of the key that this caller looked up. *)
Theorem C26_right_key : forall cf acts c v t,
  In (EvReturn c v t) (trace cf acts) ->
  exists k, nth_error (lookups acts) c = Some k /\ In (EvStart k v) (trace cf acts).
Proof.
  intros cf acts c v t H. destruct (key_run cf acts) as [_ [_ [_ HB]]].
  destruct (HB c v t H) as [k [H1 H2]]. exists k. split; [|exact H2].
  fold (final cf acts) in H1. rewrite ckeys_final in H1. exact H1.
Qed.
Print Assumptions C26_right_key.

(** Single flight: counting only the calls and the ends of the load function in the trace, at most one load
    of any key is running at any time ... *)
Theorem C26_single_flight : forall cf acts k, 0 <= running k (trace cf acts) <= 1.
Proof. intros. apply running_le_1. Qed.
Print Assumptions C26_single_flight.

(** ... and the load function is called only by a lookup of that key, when no load of the key is in flight
    and the cache holds no unexpired entry for it. *)
Theorem C26_load_only_when_needed : forall cf acts a k id,
  In (EvStart k id) (snd (step cf (final cf acts) a)) ->
  a = Lookup k /\ ~ In k (map lkey (inflight (final cf acts))) /\
  (forall e, In e (cache (final cf acts)) -> ekey e = k -> eexp e <= now (final cf acts)).
Proof.
  intros cf acts a k id H. apply step_start in H. destruct H as [Ha [_ [F1 F2]]].
  split; [exact Ha|]. split; [apply find_for_key_none; exact F1 | apply no_fresh_entry; exact F2].
Qed.
Print Assumptions C26_load_only_when_needed.

(** A lookup raises an error only when the load of the key it asked for raised that error ... *)
Theorem C26_failure_only_own_load : forall cf acts a c e,
  In (EvFail c e) (snd (step cf (final cf acts) a)) ->
  exists k, a = LoadFail k e /\ nth_error (lookups acts) c = Some k /\ In k (map lkey (inflight (final cf acts))).
Proof.
  intros cf acts a c e H. apply step_fail in H. destruct H as [l [Ha [F Hc]]].
  apply find_for_key in F. destruct F as [F _].
  exists (lkey l). split; [exact Ha|]. split; [|apply in_map; exact F].
  rewrite <- (ckeys_final cf). apply (waiters_ok_final cf acts l c F Hc).
Qed.
Print Assumptions C26_failure_only_own_load.

(** ... and (with the shield of fixes/C26.diff) raises CancelledError only when it was itself cancelled while waiting. *)
Theorem C26_cancelled_only_self : forall cf acts a c,
  shield cf = true ->
  In (EvCancelled c) (snd (step cf (final cf acts) a)) ->
  a = Cancel c /\ attached (final cf acts) c.
Proof. intros cf acts a c Hs H. apply (step_cancelled cf _ _ _ Hs H). Qed.
Print Assumptions C26_cancelled_only_self.

(** Without the shield (the code before fixes/C26.diff) the previous statement is false: leader and follower
    wait for the load of key 0, the leader is cancelled, the follower receives CancelledError. *)
Theorem C26_unshielded_refuted : exists cf acts a c,
  shield cf = false /\ In (EvCancelled c) (snd (step cf (final cf acts) a)) /\ a <> Cancel c.
Proof.
  exists unshielded, [Lookup 0; Lookup 0], (Cancel 0), 1%nat.
  split; [reflexivity|]. split; [exact unshielded_witness | discriminate].
Qed.
Print Assumptions C26_unshielded_refuted.

(** No lost waiter: every caller has either finished (returned, raised, cancelled) or waits for a load that is
    still in flight - so completing that load wakes it up. *)
Theorem C26_no_lost_waiter : forall cf acts c,
  (c < length (lookups acts))%nat -> attached (final cf acts) c \/ ended (trace cf acts) c.
Proof.
  intros cf acts c Hc. destruct (waiting_run cf acts) as [_ H]. apply H.
  fold (final cf acts). rewrite ckeys_final. exact Hc.
Qed.
Print Assumptions C26_no_lost_waiter.
