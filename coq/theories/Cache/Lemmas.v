(** C26: invariants of the cache model, proved for every schedule. *)
From HailV Require Import Common.Prelude Cache.Model.
Open Scope Z_scope.

(** * Generic facts about the list helpers *)

Lemma length_insert e l : length (insert e l) = S (length l).
Proof.
  induction l as [|x r IH]; cbn [insert length]; [reflexivity|].
  destruct (eexp e <? eexp x); cbn [length]; [reflexivity | rewrite IH; reflexivity].
Qed.

Lemma in_insert x e l : In x (insert e l) <-> x = e \/ In x l.
Proof.
  induction l as [|y r IH]; cbn [insert].
  - cbn [In]. intuition congruence.
  - destruct (eexp e <? eexp y); cbn [In]; [intuition congruence|].
    rewrite IH. cbn [In]. intuition congruence.
Qed.

Lemma in_evict x n l : In x (evict n l) -> In x l.
Proof.
  unfold evict. destruct (n <? Z.of_nat (length l)); [|auto].
  destruct l; cbn [tl In]; auto.
Qed.

Lemma length_evict_insert n e l :
  Z.of_nat (length l) <= n -> Z.of_nat (length (evict n (insert e l))) <= n.
Proof.
  intros H. unfold evict. rewrite length_insert.
  destruct (n <? Z.of_nat (S (length l))) eqn:E.
  - pose proof (length_insert e l) as HL.
    destruct (insert e l) as [|y r]; cbn [tl length] in *; lia.
  - rewrite length_insert. lia.
Qed.

Lemma length_filter_le {A} (f : A -> bool) l : (length (filter f l) <= length l)%nat.
Proof. induction l as [|x r IH]; cbn [filter length]; [lia|]. destruct (f x); cbn [length]; lia. Qed.

Lemma in_expire x k t l : In x (expire k t l) -> In x l /\ (ekey x = k -> t < eexp x).
Proof.
  unfold expire. rewrite filter_In. intros [H1 H2]. split; [exact H1|].
  intros Hk. unfold has_key in H2. rewrite Hk, Z.eqb_refl in H2. cbn [andb] in H2. lia.
Qed.

Lemma find_for_key k ls l : find (for_key k) ls = Some l -> In l ls /\ lkey l = k.
Proof. intros H. apply find_some in H. destruct H as [H1 H2]. unfold for_key in H2. split; [exact H1 | lia]. Qed.

Lemma find_for_key_none k ls : find (for_key k) ls = None -> ~ In k (map lkey ls).
Proof.
  intros H Hin. apply in_map_iff in Hin. destruct Hin as [l [Hk Hl]].
  pose proof (find_none _ _ H l Hl) as Hn. unfold for_key in Hn. lia.
Qed.

Lemma find_has_key k l e : find (has_key k) l = Some e -> In e l /\ ekey e = k.
Proof. intros H. apply find_some in H. destruct H as [H1 H2]. unfold has_key in H2. split; [exact H1 | lia]. Qed.

Lemma map_lkey_attach k c ls : map lkey (map (attach k c) ls) = map lkey ls.
Proof.
  rewrite map_map. apply map_ext. intros l. unfold attach. destruct (for_key k l); reflexivity.
Qed.

Lemma map_lkey_detach c ls : map lkey (map (detach c) ls) = map lkey ls.
Proof. rewrite map_map. apply map_ext. reflexivity. Qed.

Lemma NoDup_snoc {A} (l : list A) x : NoDup l -> ~ In x l -> NoDup (l ++ [x]).
Proof.
  induction l as [|y r IH]; intros Hnd Hni; cbn [app].
  - constructor; [intros []|constructor].
  - inversion Hnd as [|y' r' Hy Hr]; subst. constructor.
    + rewrite in_app_iff. cbn [In]. intros [H|[H|[]]]; [auto|]. apply Hni. left. congruence.
    + apply IH; [exact Hr|]. intros H. apply Hni. right. exact H.
Qed.

Lemma NoDup_map_filter {A B} (g : A -> B) (f : A -> bool) l : NoDup (map g l) -> NoDup (map g (filter f l)).
Proof.
  induction l as [|x r IH]; cbn [map filter]; intros H; [constructor|].
  inversion H as [|y r' Hx Hr]; subst.
  destruct (f x); cbn [map]; [|auto].
  constructor; [|auto]. intros Hin. apply Hx.
  apply in_map_iff in Hin. destruct Hin as [z [Hz1 Hz2]]. apply filter_In in Hz2.
  apply in_map_iff. exists z. tauto.
Qed.

(** * Schedules *)

Section Sched.
  Variable cf : config.

  Lemma run_snoc acts a : run cf (acts ++ [a]) = run1 cf (run cf acts) a.
  Proof. unfold run. rewrite fold_left_app. reflexivity. Qed.

  Lemma final_snoc acts a : final cf (acts ++ [a]) = fst (step cf (final cf acts) a).
  Proof. unfold final. rewrite run_snoc. reflexivity. Qed.

  Lemma trace_snoc acts a : trace cf (acts ++ [a]) = trace cf acts ++ snd (step cf (final cf acts) a).
  Proof. unfold trace, final. rewrite run_snoc. reflexivity. Qed.

  (** Induction over schedules: a predicate on (state, trace) that holds initially and is preserved by
      every action holds after every schedule. *)
  Lemma run_invariant (P : state * list event -> Prop) :
    P (init, []) -> (forall st a, P st -> P (run1 cf st a)) -> forall acts, P (run cf acts).
  Proof.
    intros H0 Hs acts. induction acts as [|a acts IH] using rev_ind; [exact H0|].
    rewrite run_snoc. apply Hs. exact IH.
  Qed.

  (** ** Bounded *)
  Lemma step_bounded s a :
    Z.of_nat (length (cache s)) <= slots cf -> Z.of_nat (length (cache (fst (step cf s a)))) <= slots cf.
  Proof.
    intros H. unfold step. destruct a as [k|k|k e|c|dt].
    - pose proof (length_filter_le (fun e => negb (has_key k e && (eexp e <=? now s))) (cache s)) as HL.
      fold (expire k (now s) (cache s)) in HL.
      destruct (find (has_key k) (expire k (now s) (cache s))); [cbn [fst cache]; lia|].
      destruct (find (for_key k) (inflight s)); cbn [fst cache]; lia.
    - destruct (find (for_key k) (inflight s)); cbn [fst cache]; [|exact H].
      apply length_evict_insert. exact H.
    - destruct (find (for_key k) (inflight s)); cbn [fst cache]; exact H.
    - destruct (shield cf); cbn [fst cache]; exact H.
    - cbn [fst cache]. exact H.
  Qed.

  Lemma bounded acts : 0 <= slots cf -> Z.of_nat (length (cache (final cf acts))) <= slots cf.
  Proof.
    intros Hs. unfold final.
    apply (run_invariant (fun st => Z.of_nat (length (cache (fst st))) <= slots cf)).
    - cbn. exact Hs.
    - intros st a H. unfold run1. cbn [fst]. apply step_bounded. exact H.
  Qed.

  (** ** At most one in-flight load per key *)
  Lemma step_nodup s a :
    NoDup (map lkey (inflight s)) -> NoDup (map lkey (inflight (fst (step cf s a)))).
  Proof.
    intros H. unfold step. destruct a as [k|k|k e|c|dt].
    - destruct (find (has_key k) (expire k (now s) (cache s))); [cbn [fst inflight]; exact H|].
      destruct (find (for_key k) (inflight s)) eqn:F; cbn [fst inflight].
      + rewrite map_lkey_attach. exact H.
      + rewrite map_app. cbn [map lkey]. apply NoDup_snoc; [exact H|].
        apply find_for_key_none. exact F.
    - destruct (find (for_key k) (inflight s)); cbn [fst inflight]; [|exact H].
      apply NoDup_map_filter. exact H.
    - destruct (find (for_key k) (inflight s)); cbn [fst inflight]; [|exact H].
      apply NoDup_map_filter. exact H.
    - destruct (shield cf); cbn [fst inflight].
      + rewrite map_lkey_detach. exact H.
      + apply NoDup_map_filter. exact H.
    - cbn [fst inflight]. exact H.
  Qed.

  Lemma nodup_inflight acts : NoDup (map lkey (inflight (final cf acts))).
  Proof.
    unfold final.
    apply (run_invariant (fun st => NoDup (map lkey (inflight (fst st))))).
    - cbn. constructor.
    - intros st a H. unfold run1. cbn [fst]. apply step_nodup. exact H.
  Qed.

  (** ** Every waiter of a load looked up the key of that load *)
  Definition waiters_ok (s : state) : Prop :=
    forall l c, In l (inflight s) -> In c (lwait l) -> nth_error (ckeys s) c = Some (lkey l).

  Lemma nth_error_snoc_old {A} (l : list A) x c v : nth_error l c = Some v -> nth_error (l ++ [x]) c = Some v.
  Proof.
    intros H. rewrite nth_error_app1; [exact H|]. apply nth_error_Some. congruence.
  Qed.

  Lemma nth_error_snoc_new {A} (l : list A) x : nth_error (l ++ [x]) (length l) = Some x.
  Proof. rewrite nth_error_app2; [|lia]. rewrite Nat.sub_diag. reflexivity. Qed.

  Lemma step_waiters_ok s a : waiters_ok s -> waiters_ok (fst (step cf s a)).
  Proof.
    intros H. unfold step. destruct a as [k|k|k e|c|dt].
    - destruct (find (has_key k) (expire k (now s) (cache s))) as [ef|].
      { intros l c Hl Hc. cbn [fst inflight ckeys] in *. apply nth_error_snoc_old. apply (H l c Hl Hc). }
      destruct (find (for_key k) (inflight s)) as [lf|] eqn:F; intros l c Hl Hc; cbn [fst inflight ckeys] in *.
      + apply in_map_iff in Hl. destruct Hl as [l0 [E Hl0]]. subst l. unfold attach in *.
        destruct (for_key k l0) eqn:FK; cbn [lkey lwait] in *.
        * apply in_app_iff in Hc. destruct Hc as [Hc|[Hc|[]]].
          -- apply nth_error_snoc_old. apply (H l0 c Hl0 Hc).
          -- subst c. rewrite nth_error_snoc_new. unfold for_key in FK. f_equal. lia.
        * apply nth_error_snoc_old. apply (H l0 c Hl0 Hc).
      + apply in_app_iff in Hl. destruct Hl as [Hl|[Hl|[]]].
        * apply nth_error_snoc_old. apply (H l c Hl Hc).
        * subst l. cbn [lkey lwait In] in *. destruct Hc as [Hc|[]]. subst c. apply nth_error_snoc_new.
    - destruct (find (for_key k) (inflight s)) as [lf|]; [|exact H].
      intros l c Hl Hc. cbn [fst inflight ckeys] in *. apply filter_In in Hl. apply (H l c (proj1 Hl) Hc).
    - destruct (find (for_key k) (inflight s)) as [lf|]; [|exact H].
      intros l c0 Hl Hc. cbn [fst inflight ckeys] in *. apply filter_In in Hl. apply (H l c0 (proj1 Hl) Hc).
    - destruct (shield cf); intros l c0 Hl Hc; cbn [fst inflight ckeys] in *.
      + apply in_map_iff in Hl. destruct Hl as [l0 [E Hl0]]. subst l. unfold detach in *. cbn [lkey lwait] in *.
        apply filter_In in Hc. apply (H l0 c0 Hl0 (proj1 Hc)).
      + apply filter_In in Hl. apply (H l c0 (proj1 Hl) Hc).
    - intros l c Hl Hc. cbn [fst inflight ckeys] in *. apply (H l c Hl Hc).
  Qed.

  Lemma waiters_ok_final acts : waiters_ok (final cf acts).
  Proof.
    unfold final. apply (run_invariant (fun st => waiters_ok (fst st))).
    - intros l c []. 
    - intros st a H. unfold run1. cbn [fst]. apply step_waiters_ok. exact H.
  Qed.

  (** ** Caller c is the c-th Lookup action of the schedule *)
  Definition new_keys (a : action) : list Z := match a with Lookup k => [k] | _ => [] end.

  Lemma lookups_app a1 a2 : lookups (a1 ++ a2) = lookups a1 ++ lookups a2.
  Proof.
    induction a1 as [|a r IH]; cbn [app lookups]; [reflexivity|].
    destruct a; rewrite IH; reflexivity.
  Qed.

  Lemma step_ckeys s a : ckeys (fst (step cf s a)) = ckeys s ++ new_keys a.
  Proof.
    unfold step. destruct a as [k|k|k e|c|dt]; cbn [new_keys].
    - destruct (find (has_key k) (expire k (now s) (cache s))); [reflexivity|].
      destruct (find (for_key k) (inflight s)); reflexivity.
    - destruct (find (for_key k) (inflight s)); cbn [fst ckeys]; rewrite app_nil_r; reflexivity.
    - destruct (find (for_key k) (inflight s)); cbn [fst ckeys]; rewrite app_nil_r; reflexivity.
    - destruct (shield cf); cbn [fst ckeys]; rewrite app_nil_r; reflexivity.
    - cbn [fst ckeys]. rewrite app_nil_r. reflexivity.
  Qed.

  Lemma ckeys_final acts : ckeys (final cf acts) = lookups acts.
  Proof.
    induction acts as [|a acts IH] using rev_ind; [reflexivity|].
    rewrite final_snoc, step_ckeys, IH, lookups_app. reflexivity.
  Qed.

  (** ** What a single step can emit *)
  Lemma step_return s a c v t :
    In (EvReturn c v t) (snd (step cf s a)) ->
    t = now s /\
    ((exists e, a = Lookup (ekey e) /\ In e (cache s) /\ eval e = v /\ now s < eexp e /\ c = length (ckeys s)) \/
     (exists l, a = LoadDone (lkey l) /\ find (for_key (lkey l)) (inflight s) = Some l /\ lid l = v /\ In c (lwait l))).
  Proof.
    unfold step. destruct a as [k|k|k e|c0|dt].
    - destruct (find (has_key k) (expire k (now s) (cache s))) as [e|] eqn:F.
      + cbn [snd In]. intros [H|[]]. inversion H; subst. split; [reflexivity|]. left.
        apply find_has_key in F. destruct F as [F1 F2]. apply in_expire in F1. destruct F1 as [F1 F3].
        exists e. subst k. specialize (F3 eq_refl). auto.
      + destruct (find (for_key k) (inflight s)); cbn [snd In]; [intros []|intros [H|[]]; discriminate].
    - destruct (find (for_key k) (inflight s)) as [l|] eqn:F; cbn [snd In]; [|intros []].
      intros [H|[H|H]]; try discriminate.
      apply in_map_iff in H. destruct H as [c' [E Hc]]. inversion E; subst.
      split; [reflexivity|]. right. exists l. pose proof (find_for_key _ _ _ F) as [_ Hk]. subst k. auto.
    - destruct (find (for_key k) (inflight s)) as [l|]; cbn [snd In]; [|intros []].
      intros [H|H]; [discriminate|]. apply in_map_iff in H. destruct H as [c' [E _]]. discriminate.
    - destruct (shield cf); cbn [snd].
      + destruct (existsb (waits c0) (inflight s)); cbn [In]; [intros [H|[]]; discriminate | intros []].
      + intros H. apply in_flat_map in H. destruct H as [l [_ H]]. unfold killed_events in H. cbn [In] in H.
        destruct H as [H|H]; [discriminate|]. apply in_map_iff in H. destruct H as [c' [E _]]. discriminate.
    - cbn [snd In]. intros [].
  Qed.

  Lemma step_loaded s a v t :
    In (EvLoaded v t) (snd (step cf s a)) ->
    t = now s /\ exists l, a = LoadDone (lkey l) /\ find (for_key (lkey l)) (inflight s) = Some l /\ lid l = v.
  Proof.
    unfold step. destruct a as [k|k|k e|c0|dt].
    - destruct (find (has_key k) (expire k (now s) (cache s))); [cbn [snd In]; intros [H|[]]; discriminate|].
      destruct (find (for_key k) (inflight s)); cbn [snd In]; [intros []|intros [H|[]]; discriminate].
    - destruct (find (for_key k) (inflight s)) as [l|] eqn:F; cbn [snd In]; [|intros []].
      intros [H|[H|H]]; try discriminate.
      + inversion H; subst. split; [reflexivity|]. exists l.
        pose proof (find_for_key _ _ _ F) as [_ Hk]. subst k. auto.
      + apply in_map_iff in H. destruct H as [c' [E _]]. discriminate.
    - destruct (find (for_key k) (inflight s)) as [l|]; cbn [snd In]; [|intros []].
      intros [H|H]; [discriminate|]. apply in_map_iff in H. destruct H as [c' [E _]]. discriminate.
    - destruct (shield cf); cbn [snd].
      + destruct (existsb (waits c0) (inflight s)); cbn [In]; [intros [H|[]]; discriminate | intros []].
      + intros H. apply in_flat_map in H. destruct H as [l [_ H]]. unfold killed_events in H. cbn [In] in H.
        destruct H as [H|H]; [discriminate|]. apply in_map_iff in H. destruct H as [c' [E _]]. discriminate.
    - cbn [snd In]. intros [].
  Qed.

  Lemma step_start s a k id :
    In (EvStart k id) (snd (step cf s a)) ->
    a = Lookup k /\ id = nloads s /\ find (for_key k) (inflight s) = None /\
    find (has_key k) (expire k (now s) (cache s)) = None.
  Proof.
    unfold step. destruct a as [k0|k0|k0 e|c0|dt].
    - destruct (find (has_key k0) (expire k0 (now s) (cache s))) eqn:F1; [cbn [snd In]; intros [H|[]]; discriminate|].
      destruct (find (for_key k0) (inflight s)) eqn:F2; cbn [snd In]; [intros []|].
      intros [H|[]]. inversion H; subst. auto.
    - destruct (find (for_key k0) (inflight s)) as [l|]; cbn [snd In]; [|intros []].
      intros [H|[H|H]]; try discriminate. apply in_map_iff in H. destruct H as [c' [E _]]. discriminate.
    - destruct (find (for_key k0) (inflight s)) as [l|]; cbn [snd In]; [|intros []].
      intros [H|H]; [discriminate|]. apply in_map_iff in H. destruct H as [c' [E _]]. discriminate.
    - destruct (shield cf); cbn [snd].
      + destruct (existsb (waits c0) (inflight s)); cbn [In]; [intros [H|[]]; discriminate | intros []].
      + intros H. apply in_flat_map in H. destruct H as [l [_ H]]. unfold killed_events in H. cbn [In] in H.
        destruct H as [H|H]; [discriminate|]. apply in_map_iff in H. destruct H as [c' [E _]]. discriminate.
    - cbn [snd In]. intros [].
  Qed.

  Lemma step_fail s a c e :
    In (EvFail c e) (snd (step cf s a)) ->
    exists l, a = LoadFail (lkey l) e /\ find (for_key (lkey l)) (inflight s) = Some l /\ In c (lwait l).
  Proof.
    unfold step. destruct a as [k0|k0|k0 e0|c0|dt].
    - destruct (find (has_key k0) (expire k0 (now s) (cache s))); [cbn [snd In]; intros [H|[]]; discriminate|].
      destruct (find (for_key k0) (inflight s)); cbn [snd In]; [intros []|intros [H|[]]; discriminate].
    - destruct (find (for_key k0) (inflight s)) as [l|]; cbn [snd In]; [|intros []].
      intros [H|[H|H]]; try discriminate. apply in_map_iff in H. destruct H as [c' [E _]]. discriminate.
    - destruct (find (for_key k0) (inflight s)) as [l|] eqn:F; cbn [snd In]; [|intros []].
      intros [H|H]; [discriminate|]. apply in_map_iff in H. destruct H as [c' [E Hc]]. inversion E; subst.
      exists l. pose proof (find_for_key _ _ _ F) as [_ Hk]. subst k0. auto.
    - destruct (shield cf); cbn [snd].
      + destruct (existsb (waits c0) (inflight s)); cbn [In]; [intros [H|[]]; discriminate | intros []].
      + intros H. apply in_flat_map in H. destruct H as [l [_ H]]. unfold killed_events in H. cbn [In] in H.
        destruct H as [H|H]; [discriminate|]. apply in_map_iff in H. destruct H as [c' [E _]]. discriminate.
    - cbn [snd In]. intros [].
  Qed.

  Lemma step_cancelled s a c :
    shield cf = true -> In (EvCancelled c) (snd (step cf s a)) ->
    a = Cancel c /\ exists l, In l (inflight s) /\ In c (lwait l).
  Proof.
    intros Hsh. unfold step. destruct a as [k0|k0|k0 e0|c0|dt].
    - destruct (find (has_key k0) (expire k0 (now s) (cache s))); [cbn [snd In]; intros [H|[]]; discriminate|].
      destruct (find (for_key k0) (inflight s)); cbn [snd In]; [intros []|intros [H|[]]; discriminate].
    - destruct (find (for_key k0) (inflight s)) as [l|]; cbn [snd In]; [|intros []].
      intros [H|[H|H]]; try discriminate. apply in_map_iff in H. destruct H as [c' [E _]]. discriminate.
    - destruct (find (for_key k0) (inflight s)) as [l|]; cbn [snd In]; [|intros []].
      intros [H|H]; [discriminate|]. apply in_map_iff in H. destruct H as [c' [E _]]. discriminate.
    - rewrite Hsh. cbn [snd].
      destruct (existsb (waits c0) (inflight s)) eqn:E; cbn [In]; [|intros []].
      intros [H|[]]. inversion H; subst. split; [reflexivity|].
      apply existsb_exists in E. destruct E as [l [Hl Hw]]. exists l. split; [exact Hl|].
      unfold waits in Hw. apply existsb_exists in Hw. destruct Hw as [x [Hx Hxc]].
      apply Nat.eqb_eq in Hxc. subst x. exact Hx.
    - cbn [snd In]. intros [].
  Qed.

  Lemma step_cache s a x :
    In x (cache (fst (step cf s a))) ->
    In x (cache s) \/
    exists l, a = LoadDone (lkey l) /\ find (for_key (lkey l)) (inflight s) = Some l /\
              x = {| ekey := lkey l; eval := lid l; eexp := now s + life cf |}.
  Proof.
    unfold step. destruct a as [k|k|k e|c0|dt].
    - destruct (find (has_key k) (expire k (now s) (cache s))).
      { cbn [fst cache]. intros H. left. apply in_expire in H. tauto. }
      destruct (find (for_key k) (inflight s)); cbn [fst cache]; intros H; left; apply in_expire in H; tauto.
    - destruct (find (for_key k) (inflight s)) as [l|] eqn:F; cbn [fst cache]; [|auto].
      intros H. apply in_evict in H. apply in_insert in H. destruct H as [H|H]; [|auto].
      right. exists l. pose proof (find_for_key _ _ _ F) as [_ Hk]. subst k. auto.
    - destruct (find (for_key k) (inflight s)); cbn [fst cache]; auto.
    - destruct (shield cf); cbn [fst cache]; auto.
    - cbn [fst cache]. auto.
  Qed.

  Lemma step_now s a : now s <= now (fst (step cf s a)).
  Proof.
    unfold step. destruct a as [k|k|k e|c0|dt].
    - destruct (find (has_key k) (expire k (now s) (cache s))); [cbn [fst now]; lia|].
      destruct (find (for_key k) (inflight s)); cbn [fst now]; lia.
    - destruct (find (for_key k) (inflight s)); cbn [fst now]; lia.
    - destruct (find (for_key k) (inflight s)); cbn [fst now]; lia.
    - destruct (shield cf); cbn [fst now]; lia.
    - cbn [fst now]. lia.
  Qed.

  (** ** Fresh: every returned value was loaded less than [life] ago *)
  Definition fresh_inv (st : state * list event) : Prop :=
    (forall x, In x (cache (fst st)) ->
       exists t0, In (EvLoaded (eval x) t0) (snd st) /\ eexp x = t0 + life cf /\ t0 <= now (fst st)) /\
    (forall c v t, In (EvReturn c v t) (snd st) ->
       exists t0, In (EvLoaded v t0) (snd st) /\ t0 <= t < t0 + life cf).

  Lemma step_fresh st a : 0 < life cf -> fresh_inv st -> fresh_inv (run1 cf st a).
  Proof.
    intros Hlife [HA HB]. destruct st as [s tr]. unfold run1, fresh_inv. cbn [fst snd] in *. split.
    - intros x Hx. apply step_cache in Hx. destruct Hx as [Hx|[l [Ha [F Hx]]]].
      + destruct (HA x Hx) as [t0 [H1 [H2 H3]]]. exists t0. split; [apply in_app_iff; auto|].
        split; [exact H2|]. pose proof (step_now s a). lia.
      + subst x a. cbn [eval eexp]. exists (now s). split; [|split; [reflexivity | apply step_now]].
        apply in_app_iff. right. unfold step. rewrite F. cbn [snd In]. auto.
    - intros c v t H. apply in_app_iff in H. destruct H as [H|H].
      + destruct (HB c v t H) as [t0 [H1 H2]]. exists t0. split; [apply in_app_iff; auto | exact H2].
      + apply step_return in H. destruct H as [Ht [[e [Ha [He [Hv [Hexp Hc]]]]]|[l [Ha [F [Hv Hc]]]]]]; subst t.
        * destruct (HA e He) as [t0 [H1 [H2 H3]]]. exists t0. subst v.
          split; [apply in_app_iff; auto | lia].
        * exists (now s). split; [|lia]. apply in_app_iff. right. subst a v.
          unfold step. rewrite F. cbn [snd In]. auto.
  Qed.

  Lemma fresh_run acts : 0 < life cf -> fresh_inv (run cf acts).
  Proof.
    intros Hlife. apply run_invariant.
    - split; [intros x []|intros c v t []].
    - intros st a H. apply step_fresh; assumption.
  Qed.

  (** ** Right key: a returned value comes from a load of the key the caller asked for *)
  Definition key_inv (st : state * list event) : Prop :=
    waiters_ok (fst st) /\
    (forall x, In x (cache (fst st)) -> In (EvStart (ekey x) (eval x)) (snd st)) /\
    (forall l, In l (inflight (fst st)) -> In (EvStart (lkey l) (lid l)) (snd st)) /\
    (forall c v t, In (EvReturn c v t) (snd st) ->
       exists k, nth_error (ckeys (fst st)) c = Some k /\ In (EvStart k v) (snd st)).

  Lemma step_inflight s a l :
    In l (inflight (fst (step cf s a))) ->
    (exists l0, In l0 (inflight s) /\ lkey l = lkey l0 /\ lid l = lid l0) \/
    (a = Lookup (lkey l) /\ In (EvStart (lkey l) (lid l)) (snd (step cf s a))).
  Proof.
    unfold step. destruct a as [k|k|k e|c0|dt].
    - destruct (find (has_key k) (expire k (now s) (cache s))) as [ef|]; [cbn [fst inflight]; intros H; left; exists l; auto|].
      destruct (find (for_key k) (inflight s)) as [lf|]; cbn [fst snd inflight].
      + intros H. apply in_map_iff in H. destruct H as [l0 [E H]]. left. exists l0. subst l.
        unfold attach. destruct (for_key k l0); auto.
      + intros H. apply in_app_iff in H. destruct H as [H|[H|[]]]; [left; exists l; auto|].
        right. subst l. cbn [lkey lid In]. auto.
    - destruct (find (for_key k) (inflight s)) as [lf|]; cbn [fst inflight]; intros H; left; exists l; [apply filter_In in H|]; tauto.
    - destruct (find (for_key k) (inflight s)) as [lf|]; cbn [fst inflight]; intros H; left; exists l; [apply filter_In in H|]; tauto.
    - destruct (shield cf); cbn [fst inflight]; intros H; left.
      + apply in_map_iff in H. destruct H as [l0 [E H]]. exists l0. subst l. auto.
      + exists l. apply filter_In in H. tauto.
    - cbn [fst inflight]. intros H. left. exists l. auto.
  Qed.

  Lemma step_key st a : key_inv st -> key_inv (run1 cf st a).
  Proof.
    intros [HW [HA [HL HB]]]. destruct st as [s tr]. unfold run1, key_inv. cbn [fst snd] in *.
    split; [apply step_waiters_ok; exact HW|]. split; [|split].
    - intros x Hx. apply in_app_iff. apply step_cache in Hx. destruct Hx as [Hx|[l [Ha [F Hx]]]].
      + left. apply HA. exact Hx.
      + left. subst x. cbn [ekey eval]. apply HL. apply find_for_key in F. tauto.
    - intros l Hl. apply in_app_iff. apply step_inflight in Hl.
      destruct Hl as [[l0 [H0 [E1 E2]]]|[_ H]]; [left; rewrite E1, E2; apply HL; exact H0 | right; exact H].
    - intros c v t H. rewrite step_ckeys. apply in_app_iff in H. destruct H as [H|H].
      + destruct (HB c v t H) as [k [H1 H2]]. exists k. split; [|apply in_app_iff; auto].
        rewrite nth_error_app1; [exact H1|]. apply nth_error_Some. congruence.
      + apply step_return in H. destruct H as [Ht [[e [Ha [He [Hv [Hexp Hc]]]]]|[l [Ha [F [Hv Hc]]]]]]; subst t.
        * exists (ekey e). subst a c v. cbn [new_keys]. split; [apply nth_error_snoc_new|].
          apply in_app_iff. left. apply HA. exact He.
        * exists (lkey l). apply find_for_key in F. destruct F as [F _]. subst a v. cbn [new_keys]. rewrite app_nil_r.
          split; [apply (HW l c F Hc)|]. apply in_app_iff. left. apply HL. exact F.
  Qed.

  Lemma key_run acts : key_inv (run cf acts).
  Proof.
    apply run_invariant.
    - split; [intros l c []|]. split; [intros x []|]. split; [intros l []|intros c v t []].
    - intros st a H. apply step_key. exact H.
  Qed.

  (** ** Single flight: according to the trace alone, at most one load of a key is running *)
  Fixpoint nkey (k : Z) (ls : list load) : Z :=
    match ls with [] => 0 | l :: r => (if lkey l =? k then 1 else 0) + nkey k r end.

  Lemma running_app k t1 t2 : running k (t1 ++ t2) = running k t1 + running k t2.
  Proof.
    induction t1 as [|ev r IH]; cbn [app running]; [lia|].
    destruct ev; rewrite IH; lia.
  Qed.

  Lemma running_map_quiet k {A} (f : A -> event) (l : list A) :
    (forall x, match f x with EvStart _ _ | EvEnd _ _ => False | _ => True end) -> running k (map f l) = 0.
  Proof.
    intros H. induction l as [|x r IH]; cbn [map running]; [reflexivity|].
    specialize (H x). destruct (f x); try contradiction; exact IH.
  Qed.

  Lemma nkey_app k l1 l2 : nkey k (l1 ++ l2) = nkey k l1 + nkey k l2.
  Proof. induction l1 as [|x r IH]; cbn [app nkey]; [lia|rewrite IH; lia]. Qed.

  Lemma nkey_map_same k (f : load -> load) ls : (forall l, lkey (f l) = lkey l) -> nkey k (map f ls) = nkey k ls.
  Proof.
    intros H. induction ls as [|x r IH]; cbn [map nkey]; [reflexivity|]. rewrite H, IH. reflexivity.
  Qed.

  Lemma nkey_nonneg k ls : 0 <= nkey k ls.
  Proof. induction ls as [|x r IH]; cbn [nkey]; [lia|]. destruct (lkey x =? k); lia. Qed.

  Lemma nkey_notin k ls : ~ In k (map lkey ls) -> nkey k ls = 0.
  Proof.
    induction ls as [|x r IH]; cbn [map nkey In]; intros H; [reflexivity|].
    destruct (lkey x =? k) eqn:E; [exfalso; apply H; left; lia|]. rewrite IH; [lia|tauto].
  Qed.

  Lemma nkey_nodup k ls : NoDup (map lkey ls) -> nkey k ls <= 1.
  Proof.
    induction ls as [|x r IH]; cbn [map nkey]; intros H; [lia|].
    inversion H as [|y r' Hx Hr]; subst. specialize (IH Hr).
    destruct (lkey x =? k) eqn:E; [|lia].
    rewrite nkey_notin; [lia|]. assert (lkey x = k) by lia. congruence.
  Qed.

  Lemma nkey_in k ls l : In l ls -> lkey l = k -> 1 <= nkey k ls.
  Proof.
    induction ls as [|x r IH]; cbn [In nkey]; intros H Hk; [contradiction|].
    destruct H as [H|H].
    - subst x. rewrite Hk, Z.eqb_refl. pose proof (nkey_nonneg k r). lia.
    - specialize (IH H Hk). destruct (lkey x =? k); lia.
  Qed.

  Lemma nkey_filter_split k (f : load -> bool) ls :
    nkey k (filter f ls) + nkey k (filter (fun l => negb (f l)) ls) = nkey k ls.
  Proof.
    induction ls as [|x r IH]; cbn [filter nkey]; [reflexivity|].
    destruct (f x); cbn [negb nkey]; lia.
  Qed.

  Lemma nkey_filter_other k k0 ls :
    nkey k (filter (fun x => negb (for_key k0 x)) ls) = if k0 =? k then 0 else nkey k ls.
  Proof.
    induction ls as [|x r IH]; cbn [filter nkey]; [destruct (k0 =? k); reflexivity|].
    unfold for_key at 1. destruct (lkey x =? k0) eqn:E; cbn [negb nkey]; rewrite IH.
    - destruct (k0 =? k) eqn:E2; [reflexivity|]. destruct (lkey x =? k) eqn:E3; lia.
    - destruct (k0 =? k) eqn:E2; [|reflexivity]. destruct (lkey x =? k) eqn:E3; lia.
  Qed.

  Lemma running_killed k ls : running k (flat_map killed_events ls) = - nkey k ls.
  Proof.
    induction ls as [|x r IH]; cbn [flat_map nkey]; [reflexivity|].
    rewrite running_app, IH. unfold killed_events. cbn [running].
    rewrite running_map_quiet; [|intros; exact I]. destruct (lkey x =? k); lia.
  Qed.

  Lemma step_running s a k :
    NoDup (map lkey (inflight s)) ->
    running k (snd (step cf s a)) = nkey k (inflight (fst (step cf s a))) - nkey k (inflight s).
  Proof.
    intros ND. unfold step. destruct a as [k0|k0|k0 e|c0|dt].
    - destruct (find (has_key k0) (expire k0 (now s) (cache s))) as [ef|]; [cbn [fst snd inflight running]; lia|].
      destruct (find (for_key k0) (inflight s)) as [lf|] eqn:F; cbn [fst snd inflight running].
      + rewrite nkey_map_same; [lia|]. intros l. unfold attach. destruct (for_key k0 l); reflexivity.
      + rewrite nkey_app. cbn [nkey lkey]. lia.
    - destruct (find (for_key k0) (inflight s)) as [lf|] eqn:F; cbn [fst snd inflight running]; [|lia].
      rewrite running_map_quiet; [|intros; exact I]. rewrite nkey_filter_other.
      apply find_for_key in F. destruct F as [F1 F2].
      destruct (k0 =? k) eqn:E; [|lia].
      assert (Hk : lkey lf = k) by lia.
      pose proof (nkey_in k _ _ F1 Hk). pose proof (nkey_nodup k _ ND). lia.
    - destruct (find (for_key k0) (inflight s)) as [lf|] eqn:F; cbn [fst snd inflight running]; [|lia].
      rewrite running_map_quiet; [|intros; exact I]. rewrite nkey_filter_other.
      apply find_for_key in F. destruct F as [F1 F2].
      destruct (k0 =? k) eqn:E; [|lia].
      assert (Hk : lkey lf = k) by lia.
      pose proof (nkey_in k _ _ F1 Hk). pose proof (nkey_nodup k _ ND). lia.
    - destruct (shield cf); cbn [fst snd inflight].
      + rewrite nkey_map_same; [|reflexivity].
        destruct (existsb (waits c0) (inflight s)); cbn [running]; lia.
      + rewrite running_killed. pose proof (nkey_filter_split k (waits c0) (inflight s)). lia.
    - cbn [fst snd inflight running]. lia.
  Qed.

  Definition flight_inv (st : state * list event) : Prop :=
    NoDup (map lkey (inflight (fst st))) /\ forall k, running k (snd st) = nkey k (inflight (fst st)).

  Lemma flight_run acts : flight_inv (run cf acts).
  Proof.
    apply run_invariant.
    - split; [constructor|reflexivity].
    - intros [s tr] a [ND H]. unfold run1, flight_inv. cbn [fst snd] in *.
      split; [apply step_nodup; exact ND|].
      intros k. rewrite running_app, H, step_running; [lia|exact ND].
  Qed.

  Lemma running_le_1 acts k : 0 <= running k (trace cf acts) <= 1.
  Proof.
    destruct (flight_run acts) as [ND H]. unfold trace. rewrite H.
    split; [apply nkey_nonneg | apply nkey_nodup; exact ND].
  Qed.

  (** ** No lost waiter: a caller has either finished or is attached to a load that is still in flight *)
  Definition is_end (c : nat) (ev : event) : Prop :=
    match ev with
    | EvReturn c' _ _ | EvFail c' _ | EvCancelled c' => c' = c
    | _ => False
    end.

  Definition attached (s : state) (c : nat) : Prop := exists l, In l (inflight s) /\ In c (lwait l).
  Definition ended (tr : list event) (c : nat) : Prop := exists ev, In ev tr /\ is_end c ev.

  Lemma load_unique ls l1 l2 :
    NoDup (map lkey ls) -> In l1 ls -> In l2 ls -> lkey l1 = lkey l2 -> l1 = l2.
  Proof.
    induction ls as [|x r IH]; cbn [map In]; intros ND H1 H2 E; [contradiction|].
    inversion ND as [|y r' Hx Hr]; subst.
    destruct H1 as [H1|H1], H2 as [H2|H2]; try congruence.
    - subst x. exfalso. apply Hx. rewrite E. apply in_map. exact H2.
    - subst x. exfalso. apply Hx. rewrite <- E. apply in_map. exact H1.
    - apply IH; assumption.
  Qed.

  Lemma step_attached s a c :
    NoDup (map lkey (inflight s)) -> attached s c ->
    attached (fst (step cf s a)) c \/ ended (snd (step cf s a)) c.
  Proof.
    intros ND [l [Hl Hc]]. unfold step. destruct a as [k0|k0|k0 e|c0|dt].
    - destruct (find (has_key k0) (expire k0 (now s) (cache s))) as [ef|]; [left; exists l; cbn [fst inflight]; auto|].
      destruct (find (for_key k0) (inflight s)) as [lf|]; left; cbn [fst inflight].
      + exists (attach k0 (length (ckeys s)) l). split; [apply in_map; exact Hl|].
        unfold attach. destruct (for_key k0 l); cbn [lwait]; [apply in_app_iff; auto | exact Hc].
      + exists l. split; [apply in_app_iff; auto | exact Hc].
    - destruct (find (for_key k0) (inflight s)) as [lf|] eqn:F; [|left; exists l; cbn [fst inflight]; auto].
      destruct (lkey l =? k0) eqn:E.
      + right. apply find_for_key in F. destruct F as [F1 F2].
        assert (l = lf) by (apply (load_unique (inflight s)); auto; lia). subst lf.
        exists (EvReturn c (lid l) (now s)). cbn [snd is_end]. split; [|reflexivity].
        right. right. apply in_map_iff. exists c. auto.
      + left. exists l. cbn [fst inflight]. split; [|exact Hc]. apply filter_In. split; [exact Hl|].
        unfold for_key. rewrite E. reflexivity.
    - destruct (find (for_key k0) (inflight s)) as [lf|] eqn:F; [|left; exists l; cbn [fst inflight]; auto].
      destruct (lkey l =? k0) eqn:E.
      + right. apply find_for_key in F. destruct F as [F1 F2].
        assert (l = lf) by (apply (load_unique (inflight s)); auto; lia). subst lf.
        exists (EvFail c e). cbn [snd is_end]. split; [|reflexivity].
        right. apply in_map_iff. exists c. auto.
      + left. exists l. cbn [fst inflight]. split; [|exact Hc]. apply filter_In. split; [exact Hl|].
        unfold for_key. rewrite E. reflexivity.
    - assert (W : forall x, waits x l = true <-> In x (lwait l)).
      { intros x. unfold waits. rewrite existsb_exists. split.
        - intros [y [Hy Hxy]]. apply Nat.eqb_eq in Hxy. subst y. exact Hy.
        - intros Hx. exists x. split; [exact Hx | apply Nat.eqb_refl]. }
      destruct (shield cf); cbn [fst snd inflight].
      + destruct (Nat.eq_dec c0 c) as [->|Hne].
        * right. exists (EvCancelled c). split; [|reflexivity].
          assert (E : existsb (waits c) (inflight s) = true).
          { apply existsb_exists. exists l. split; [exact Hl | apply W; exact Hc]. }
          rewrite E. left. reflexivity.
        * left. exists (detach c0 l). split; [apply in_map; exact Hl|].
          unfold detach. cbn [lwait]. apply filter_In. split; [exact Hc|].
          destruct (Nat.eqb c0 c) eqn:E; [apply Nat.eqb_eq in E; contradiction | reflexivity].
      + destruct (waits c0 l) eqn:E.
        * right. exists (EvCancelled c). split; [|reflexivity].
          apply in_flat_map. exists l. split; [apply filter_In; auto|].
          unfold killed_events. right. apply in_map. exact Hc.
        * left. exists l. split; [|exact Hc]. apply filter_In. rewrite E. auto.
    - left. exists l. cbn [fst inflight]. auto.
  Qed.

  Lemma step_new_caller s k :
    let c := length (ckeys s) in
    attached (fst (step cf s (Lookup k))) c \/ ended (snd (step cf s (Lookup k))) c.
  Proof.
    intros c. unfold step. fold c.
    destruct (find (has_key k) (expire k (now s) (cache s))) as [ef|].
    - right. exists (EvReturn c (eval ef) (now s)). cbn [snd In is_end]. auto.
    - destruct (find (for_key k) (inflight s)) as [lf|] eqn:F; left; cbn [fst inflight].
      + apply find_for_key in F. destruct F as [F1 F2].
        exists (attach k c lf). split; [apply in_map; exact F1|].
        unfold attach, for_key. rewrite F2, Z.eqb_refl. cbn [lwait]. apply in_app_iff. right. left. reflexivity.
      + exists {| lkey := k; lid := nloads s; lwait := [c] |}. split; [apply in_app_iff; right; left; reflexivity|].
        cbn [lwait In]. auto.
  Qed.

  Definition waiting_inv (st : state * list event) : Prop :=
    NoDup (map lkey (inflight (fst st))) /\
    forall c, (c < length (ckeys (fst st)))%nat -> attached (fst st) c \/ ended (snd st) c.

  Lemma waiting_run acts : waiting_inv (run cf acts).
  Proof.
    apply run_invariant.
    - split; [constructor|]. cbn. intros c Hc. lia.
    - intros [s tr] a [ND H]. unfold run1, waiting_inv. cbn [fst snd] in *.
      split; [apply step_nodup; exact ND|].
      intros c Hc. rewrite step_ckeys, app_length in Hc.
      assert (Hend : forall tr2, ended tr c -> ended (tr ++ tr2) c).
      { intros tr2 [ev [H1 H2]]. exists ev. split; [apply in_app_iff; auto | exact H2]. }
      assert (Hend2 : forall tr1 tr2, ended tr2 c -> ended (tr1 ++ tr2) c).
      { intros tr1 tr2 [ev [H1 H2]]. exists ev. split; [apply in_app_iff; auto | exact H2]. }
      destruct (Nat.lt_ge_cases c (length (ckeys s))) as [Hold|Hnew].
      + destruct (H c Hold) as [Ha|He]; [|right; apply Hend; exact He].
        destruct (step_attached s a c ND Ha) as [Ha'|He']; [left; exact Ha' | right; apply Hend2; exact He'].
      + destruct a as [k|k|k e|c0|dt]; cbn [new_keys length] in Hc; try lia.
        assert (c = length (ckeys s)) by lia. subst c.
        destruct (step_new_caller s k) as [Ha'|He']; [left; exact Ha' | right; apply Hend2; exact He'].
  Qed.
End Sched.

(** * The code without the shield: cancelling one lookup fails another one *)
Definition unshielded : config := {| slots := 1; life := 1; shield := false |}.

Lemma unshielded_witness :
  In (EvCancelled 1) (snd (step unshielded (final unshielded [Lookup 0; Lookup 0]) (Cancel 0))).
Proof. vm_compute. auto. Qed.

Lemma no_fresh_entry k t l :
  find (has_key k) (expire k t l) = None -> forall e, In e l -> ekey e = k -> eexp e <= t.
Proof.
  intros F e He Hk. destruct (Z.leb_spec (eexp e) t) as [H|H]; [exact H|exfalso].
  assert (Hin : In e (expire k t l)).
  { unfold expire. apply filter_In. split; [exact He|].
    unfold has_key. rewrite Hk, Z.eqb_refl. cbn [andb]. destruct (Z.leb_spec (eexp e) t); [lia|reflexivity]. }
  pose proof (find_none _ _ F e Hin) as Hn. unfold has_key in Hn. lia.
Qed.

(** * The hypotheses of the property theorems are satisfiable and the events they speak about do occur *)
Definition demo : config := {| slots := 1; life := 2; shield := true |}.
Definition demo_acts : list action :=
  [Lookup 0; Lookup 0; Cancel 0; LoadDone 0; Lookup 0; Advance 2; Lookup 0; Lookup 1; LoadFail 0 7; LoadDone 1].

Example demo_hyps : 0 < slots demo /\ 0 < life demo /\ shield demo = true.
Proof. vm_compute. auto. Qed.

Example demo_trace :
  trace demo demo_acts =
  [EvStart 0 0; EvCancelled 0; EvLoaded 0 0; EvEnd 0 0; EvReturn 1 0 0; EvReturn 2 0 0;
   EvStart 0 1; EvStart 1 2; EvEnd 0 1; EvFail 3 7; EvLoaded 2 2; EvEnd 1 2; EvReturn 4 2 2].
Proof. vm_compute. reflexivity. Qed.
