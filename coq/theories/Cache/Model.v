(** Model of gear/gear/time_limited_max_size_cache.py :: TimeLimitedMaxSizeCache under harness schedules.
    Executable definitions only (the proofs are in Lemmas.v).

    A schedule is a list of [action]s; after each action the event loop runs until nothing is ready, so a
    step of the model is "one harness action + settle".  Callers are numbered 0,1,2.. in the order of their
    [Lookup] actions; values are the serial numbers of the loads that produced them.

    [shield] selects the cancellation semantics of the await on the shared load:
      - [true]  the lookups await [asyncio.shield(load task)]: cancelling a lookup cancels only its own wait;
      - [false] the lookups await the load task directly (the code before fixes/C26.diff): asyncio's rule
                "cancelling a task cancels the future it awaits" cancels the SHARED load task, and every lookup
                waiting for it receives CancelledError. *)
From HailV Require Import Common.Prelude.
Open Scope Z_scope.

Inductive action : Type :=
| Lookup (k : Z)                (* a new caller starts lookup(k) *)
| LoadDone (k : Z)              (* the in-flight load of key k returns a value *)
| LoadFail (k : Z) (e : Z)      (* the in-flight load of key k raises error class e *)
| Cancel (c : nat)              (* caller c's task is cancelled *)
| Advance (dt : Z).             (* the monotonic clock advances *)

Inductive event : Type :=
| EvStart (k : Z) (id : Z)            (* the load function was called for key k; this is load number id *)
| EvEnd (k : Z) (id : Z)              (* load id of key k is over (returned, raised or was cancelled) *)
| EvLoaded (id : Z) (t : Z)           (* load id returned its value (the value is named id) at time t *)
| EvReturn (c : nat) (v : Z) (t : Z)  (* lookup of caller c returned value v at time t *)
| EvFail (c : nat) (e : Z)            (* lookup of caller c raised error class e *)
| EvCancelled (c : nat).              (* lookup of caller c raised CancelledError *)

Record entry : Type := { ekey : Z; eval : Z; eexp : Z }.
Record load : Type := { lkey : Z; lid : Z; lwait : list nat }.

Record config : Type := { slots : Z; life : Z; shield : bool }.

Record state : Type := {
  now : Z;
  cache : list entry;       (* in the order of _keys_by_expiry *)
  inflight : list load;     (* _futures, in creation order *)
  ckeys : list Z;           (* key looked up by caller 0,1,2.. *)
  nloads : Z                (* calls of the load function so far *)
}.

Definition init : state := {| now := 0; cache := []; inflight := []; ckeys := []; nloads := 0 |}.

(* SortedSet(key=expiry).add : after the entries with an equal expiry (bisect_right) *)
Fixpoint insert (e : entry) (l : list entry) : list entry :=
  match l with
  | [] => [e]
  | x :: r => if eexp e <? eexp x then e :: l else x :: insert e r
  end.

(* if self._over_capacity(): self._evict_oldest() *)
Definition evict (n : Z) (l : list entry) : list entry :=
  if n <? Z.of_nat (length l) then tl l else l.

Definition has_key (k : Z) (e : entry) : bool := ekey e =? k.
Definition for_key (k : Z) (l : load) : bool := lkey l =? k.
Definition waits (c : nat) (l : load) : bool := existsb (Nat.eqb c) (lwait l).

(* if k in self._expiry_time and self._expiry_time[k] <= now: self._remove(k) *)
Definition expire (k t : Z) (l : list entry) : list entry :=
  filter (fun e => negb (has_key k e && (eexp e <=? t))) l.

Definition attach (k : Z) (c : nat) (l : load) : load :=
  if for_key k l then {| lkey := lkey l; lid := lid l; lwait := lwait l ++ [c] |} else l.

Definition detach (c : nat) (l : load) : load :=
  {| lkey := lkey l; lid := lid l; lwait := filter (fun x => negb (Nat.eqb c x)) (lwait l) |}.

Definition killed_events (l : load) : list event :=
  EvEnd (lkey l) (lid l) :: map EvCancelled (lwait l).

Definition step (cf : config) (s : state) (a : action) : state * list event :=
  match a with
  | Lookup k =>
      let c := length (ckeys s) in
      let cache1 := expire k (now s) (cache s) in
      match find (has_key k) cache1 with
      | Some e =>
          ({| now := now s; cache := cache1; inflight := inflight s; ckeys := ckeys s ++ [k]; nloads := nloads s |},
           [EvReturn c (eval e) (now s)])
      | None =>
          match find (for_key k) (inflight s) with
          | Some _ =>
              ({| now := now s; cache := cache1; inflight := map (attach k c) (inflight s);
                  ckeys := ckeys s ++ [k]; nloads := nloads s |}, [])
          | None =>
              ({| now := now s; cache := cache1;
                  inflight := inflight s ++ [{| lkey := k; lid := nloads s; lwait := [c] |}];
                  ckeys := ckeys s ++ [k]; nloads := nloads s + 1 |}, [EvStart k (nloads s)])
          end
      end
  | LoadDone k =>
      match find (for_key k) (inflight s) with
      | None => (s, [])
      | Some l =>
          ({| now := now s;
              cache := evict (slots cf) (insert {| ekey := k; eval := lid l; eexp := now s + life cf |} (cache s));
              inflight := filter (fun x => negb (for_key k x)) (inflight s);
              ckeys := ckeys s; nloads := nloads s |},
           EvLoaded (lid l) (now s) :: EvEnd k (lid l) :: map (fun c => EvReturn c (lid l) (now s)) (lwait l))
      end
  | LoadFail k e =>
      match find (for_key k) (inflight s) with
      | None => (s, [])
      | Some l =>
          ({| now := now s; cache := cache s;
              inflight := filter (fun x => negb (for_key k x)) (inflight s);
              ckeys := ckeys s; nloads := nloads s |},
           EvEnd k (lid l) :: map (fun c => EvFail c e) (lwait l))
      end
  | Cancel c =>
      if shield cf then
        ({| now := now s; cache := cache s; inflight := map (detach c) (inflight s);
            ckeys := ckeys s; nloads := nloads s |},
         if existsb (waits c) (inflight s) then [EvCancelled c] else [])
      else
        (* no shield: the caller's cancellation cancels the shared load task it awaits; all its waiters get CancelledError *)
        ({| now := now s; cache := cache s; inflight := filter (fun l => negb (waits c l)) (inflight s);
            ckeys := ckeys s; nloads := nloads s |},
         flat_map killed_events (filter (waits c) (inflight s)))
  | Advance dt =>
      ({| now := now s + Z.max 0 dt; cache := cache s; inflight := inflight s; ckeys := ckeys s; nloads := nloads s |}, [])
  end.

(** Running a schedule: final state and the trace of all events so far. *)
Definition run1 (cf : config) (st : state * list event) (a : action) : state * list event :=
  let r := step cf (fst st) a in (fst r, snd st ++ snd r).

Definition run (cf : config) (acts : list action) : state * list event :=
  fold_left (run1 cf) acts (init, []).

Definition final (cf : config) (acts : list action) : state := fst (run cf acts).
Definition trace (cf : config) (acts : list action) : list event := snd (run cf acts).

(** The keys looked up, in caller order. *)
Fixpoint lookups (acts : list action) : list Z :=
  match acts with
  | [] => []
  | Lookup k :: r => k :: lookups r
  | _ :: r => lookups r
  end.

(** Number of loads of key k that are running according to the trace alone. *)
Fixpoint running (k : Z) (tr : list event) : Z :=
  match tr with
  | [] => 0
  | EvStart k' _ :: r => (if k' =? k then 1 else 0) + running k r
  | EvEnd k' _ :: r => (if k' =? k then -1 else 0) + running k r
  | _ :: r => running k r
  end.

(** What the correspondence compares after every action: the events of the action, the cache content in
    eviction order, the keys with a load in flight, the clock and the number of loads started. *)
Definition obs_state (s : state) : list (Z * Z * Z) * list Z * Z * Z :=
  (map (fun e => (ekey e, eval e, eexp e)) (cache s), map lkey (inflight s), now s, nloads s).

Fixpoint observe (cf : config) (s : state) (acts : list action)
  : list (list event * (list (Z * Z * Z) * list Z * Z * Z)) :=
  match acts with
  | [] => []
  | a :: r => let st := step cf s a in (snd st, obs_state (fst st)) :: observe cf (fst st) r
  end.
