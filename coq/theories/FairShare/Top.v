(** C11: the statements about [fair_share] for ALL user lists and ALL free-core amounts (zero and negative included). *)
From HailV Require Import Common.Prelude FairShare.Model FairShare.Lemmas FairShare.Invariant FairShare.Final.
From Coq Require Import Permutation.
Open Scope Z_scope.

Section Top.
  Context {U : Type}.
  Variables running ready : U -> Z.
  Notation total := (total running ready).
  Notation fair_share := (fair_share running ready).
  Variable users : list U.
  Variable free0 : Z.
  Variable R : list (U * Z).
  Hypothesis Hnn : forall u, In u users -> 0 <= running u /\ 0 <= ready u.
  Hypothesis HR : fair_share users free0 = Some R.

  Lemma nonpos_R : free0 <= 0 -> R = map (fun u => (u, 0)) (sort_by running users).
  Proof. intros H. rewrite (fair_share_nonpos running ready users free0 H) in HR. inversion HR; reflexivity. Qed.

  Lemma nonpos_zero : free0 <= 0 -> forall u x, In (u, x) R -> x = 0.
  Proof.
    intros H u x Hin. rewrite (nonpos_R H) in Hin. apply in_map_iff in Hin.
    destruct Hin as (v & E & _). inversion E; reflexivity.
  Qed.

  Lemma top_perm : Permutation users (map fst R).
  Proof.
    destruct (Z_lt_le_dec 0 free0) as [Hp|Hn].
    - destruct (final_state running ready users Hnn free0 Hp R HR) as (s & -> & G & Hc).
      eapply fs_perm; eassumption.
    - rewrite (nonpos_R Hn), map_map. cbn [fst]. rewrite map_id. apply sort_by_perm.
  Qed.

  Lemma top_nn u x : In (u, x) R -> 0 <= running u /\ 0 <= ready u.
  Proof.
    intros H. apply Hnn. eapply Permutation_in; [apply Permutation_sym, top_perm|].
    apply (in_map fst) in H. exact H.
  Qed.

  (** the water level *)
  Lemma top_classify : exists L, 0 <= L /\ forall u x, In (u, x) R ->
    (x = ready u /\ total u <= L) \/ (x = L - running u /\ running u <= L <= total u) \/ (x = 0 /\ L <= running u).
  Proof.
    destruct (Z_lt_le_dec 0 free0) as [Hp|Hn].
    - destruct (final_state running ready users Hnn free0 Hp R HR) as (s & -> & G & Hc).
      exists (mark s). split; [eapply fs_level_nonneg; eassumption|].
      intros u x Hin. eapply fs_classify; eassumption.
    - exists 0. split; [lia|]. intros u x Hin. right; right.
      pose proof (top_nn u x Hin). rewrite (nonpos_zero Hn u x Hin). lia.
  Qed.

  Lemma top_le_demand u x : In (u, x) R -> x <= ready u.
  Proof.
    intros Hin. pose proof (top_nn u x Hin) as Hn. destruct top_classify as (L & HL & H).
    unfold Model.total in H. destruct (H u x Hin) as [[-> _]|[[-> ?]|[-> _]]]; lia.
  Qed.

  Lemma top_nonneg u x : In (u, x) R -> 0 <= x.
  Proof.
    intros Hin. pose proof (top_nn u x Hin) as Hn. destruct top_classify as (L & HL & H).
    unfold Model.total in H. destruct (H u x Hin) as [[-> _]|[[-> ?]|[-> _]]]; lia.
  Qed.

  Lemma top_water_filling : exists L, forall u x, In (u, x) R -> x = Z.max 0 (Z.min (ready u) (L - running u)).
  Proof.
    destruct top_classify as (L & HL & H). exists L. intros u x Hin. pose proof (top_nn u x Hin) as Hn.
    unfold Model.total in H. destruct (H u x Hin) as [[-> ?]|[[-> ?]|[-> ?]]]; lia.
  Qed.

  Lemma top_water_level : exists L, forall u x, In (u, x) R ->
    (x < ready u -> L <= running u + x /\ (0 < x -> running u + x = L)) /\ (0 < x -> running u + x <= L).
  Proof.
    destruct top_classify as (L & HL & H). exists L. intros u x Hin. pose proof (top_nn u x Hin) as Hn.
    unfold Model.total in H. destruct (H u x Hin) as [[-> ?]|[[-> ?]|[-> ?]]]; lia.
  Qed.

  Lemma top_max_min u x v y : In (u, x) R -> In (v, y) R -> x < ready u -> 0 < y -> running v + y <= running u + x.
  Proof.
    intros Hu Hv Hx Hy. destruct top_water_level as (L & H).
    destruct (H u x Hu) as [H1 _]. destruct (H v y Hv) as [_ H2]. specialize (H1 Hx). specialize (H2 Hy). lia.
  Qed.

  Lemma count_pos_le_length : count_pos R <= Z.of_nat (length users).
  Proof.
    rewrite (Permutation_length top_perm), map_length. unfold count_pos.
    assert (H : forall l : list (U * Z), (length (filter (fun ux : U * Z => (0 <? snd ux)%Z) l) <= length l)%nat).
    { induction l as [|a l IH]; cbn [filter length]; [lia|]. destruct (0 <? snd a); cbn [length]; lia. }
    specialize (H R). lia.
  Qed.

  Lemma top_sum_upper : 2 * zsum snd R <= 2 * Z.max 0 free0 + count_pos R.
  Proof.
    destruct (Z_lt_le_dec 0 free0) as [Hp|Hn].
    - destruct (final_state running ready users Hnn free0 Hp R HR) as (s & -> & G & Hc).
      assert (2 * zsum snd (finish running s) <= 2 * free0 + count_pos (finish running s)) by (eapply fs_sum_upper; eassumption). lia.
    - pose proof (count_pos_nonneg R).
      assert (zsum snd R = 0); [|lia].
      rewrite <- (zsum_zero R). apply zsum_ext_in. intros [u x] Hin. apply (nonpos_zero Hn u x Hin).
  Qed.

  Lemma top_work_conserving : 0 < free0 <= zsum ready users -> 2 * free0 - Z.of_nat (length users) < 2 * zsum snd R.
  Proof.
    intros [Hp Hd].
    destruct (final_state running ready users Hnn free0 Hp R HR) as (s & -> & G & Hc).
    eapply fs_work_conserving; eassumption.
  Qed.

  Lemma top_demand_met : zsum ready users <= free0 -> forall u x, In (u, x) R -> x = ready u.
  Proof.
    intros Hd. destruct (Z_lt_le_dec 0 free0) as [Hp|Hn].
    - destruct (final_state running ready users Hnn free0 Hp R HR) as (s & -> & G & Hc).
      eapply fs_demand_met; eassumption.
    - intros u x Hin. rewrite (nonpos_zero Hn u x Hin).
      assert (Hu : In u users).
      { eapply Permutation_in; [apply Permutation_sym, top_perm|]. apply (in_map fst) in Hin. exact Hin. }
      pose proof (zsum_member_le ready users (fun z Hz => proj2 (Hnn z Hz)) u Hu).
      pose proof (proj2 (Hnn u Hu)). lia.
  Qed.
End Top.

(** the rounding slack of one half per positively-served user is attained: two users, one free millicore *)
Lemma slack_attained :
  fair_share (fun u : Z * Z => fst u) (fun u => snd u) [(0, 1); (0, 1)] 1 = Some [((0, 1), 1); ((0, 1), 1)].
Proof. vm_compute. reflexivity. Qed.
