(** Hand model of batch.driver.instance_collection.pool.PoolScheduler._compute_fair_share
    (the water-filling loop).  Executable definitions only.

    The Python loop keeps two [sortedcontainers.SortedSet]s (pending users keyed by running cores,
    allocating users keyed by running+ready cores), an integer [mark] and the remaining free cores.
    One iteration of the [while] is [step]; [cond] is the loop condition; [run] iterates with explicit
    fuel (Lemmas.v proves that the fuel handed out by [fair_share] always suffices, so [None] never
    comes back).  Users are abstract ([U]) with two projections, so identity/ties are explicit. *)
From HailV Require Import Common.Prelude.
Open Scope Z_scope.

(** [int(k + 0.5)] for an integer [k] (exact in binary64 while |k| < 2^52): truncation toward zero of k + 1/2. *)
Definition int_plus_half (k : Z) : Z := Z.quot (2 * k + 1) 2.

(** [int(a / n + 0.5)] for integers a, n with the quotient taken exactly: truncation toward zero of (2a+n)/(2n).
    (The float evaluation agrees with this for 0 < a < 2^52, n > 0: see the plug-in's ASSUMPTIONS, validated at
    boundary points on every run.) *)
Definition int_div_plus_half (a n : Z) : Z := Z.quot (2 * a + n) (2 * n).

Section FairShare.
  Context {U : Type}.
  Variables running ready : U -> Z.

  Definition total (u : U) : Z := running u + ready u.

  (** SortedSet.add -> SortedKeyList.add = insort_right: after the elements with an equal key. *)
  Fixpoint insert_by (key : U -> Z) (u : U) (l : list U) : list U :=
    match l with
    | [] => [u]
    | v :: r => if key u <? key v then u :: v :: r else v :: insert_by key u r
    end.

  Definition sort_by (key : U -> Z) (l : list U) : list U :=
    fold_left (fun acc u => insert_by key u acc) l [].

  Record state : Type := mkState {
    pend : list U;            (* pending_users_by_running_cores, ascending *)
    allocg : list U;          (* allocating_users_by_total_cores, ascending *)
    mark : Z;
    free : Z;
    res : list (U * Z)        (* users whose allocated_cores_mcpu has been written inside the loop *)
  }.

  (** allocate_cores(user, mark) *)
  Definition allocate (m : Z) (u : U) : U * Z := (u, int_plus_half (m - running u)).

  (** while free_cores_mcpu > 0 and (pending or allocating) *)
  Definition cond (s : state) : bool :=
    (free s >? 0) && negb (is_nil (pend s) && is_nil (allocg s)).

  (** min(c for c in [lowest_running, lowest_total] if c is not None); only used when one of the sets is non-empty *)
  Definition allocation_of (s : state) : Z :=
    match pend s, allocg s with
    | p :: _, a :: _ => Z.min (running p) (total a)
    | p :: _, [] => running p
    | [], a :: _ => total a
    | [], [] => mark s
    end.

  (** lines "allocation = min(...)" .. "free_cores_mcpu -= cores_to_allocate".  The [break] branch sets
      free to 0, which is exactly what makes the [while] condition false on the next test. *)
  Definition advance (s : state) : state :=
    let allocation := allocation_of s in
    let n := Z.of_nat (length (allocg s)) in
    let cores_to_allocate := n * (allocation - mark s) in
    if cores_to_allocate >? free s
    then mkState (pend s) (allocg s) (mark s + int_div_plus_half (free s) n) 0 (res s)
    else mkState (pend s) (allocg s) allocation (free s - cores_to_allocate) (res s).

  (** second [if]: the allocating user with the lowest total has reached its demand *)
  Definition try_finish_user (s : state) : state :=
    match allocg s with
    | a :: allocg' =>
        if total a =? mark s
        then mkState (pend s) allocg' (mark s) (free s) (allocate (mark s) a :: res s)
        else advance s
    | [] => advance s
    end.

  (** one iteration of the while body *)
  Definition step (s : state) : state :=
    match pend s with
    | p :: pend' =>
        if running p =? mark s
        then mkState pend' (insert_by total p (allocg s)) (mark s) (free s) (res s)
        else try_finish_user s
    | [] => try_finish_user s
    end.

  Fixpoint run (fuel : nat) (s : state) : option state :=
    match fuel with
    | O => None
    | S fuel' => if cond s then run fuel' (step s) else Some s
    end.

  (** after the loop: [for user in allocating: allocate_cores(user, mark)]; pending users keep 0 *)
  Definition finish (s : state) : list (U * Z) :=
    res s ++ map (allocate (mark s)) (allocg s) ++ map (fun u => (u, 0)) (pend s).

  Definition init (users : list U) (free0 : Z) : state :=
    mkState (sort_by running users) [] 0 free0 [].

  Definition fuel_for (users : list U) : nat := 4 * length users + 2.

  Definition fair_share (users : list U) (free0 : Z) : option (list (U * Z)) :=
    option_map finish (run (fuel_for users) (init users free0)).
End FairShare.
