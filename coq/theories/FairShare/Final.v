(** C11: what the invariant gives for the value returned by [fair_share]. *)
From HailV Require Import Common.Prelude FairShare.Model FairShare.Lemmas FairShare.Invariant.
From Coq Require Import Permutation.
Open Scope Z_scope.

Definition count_pos {A} (l : list (A * Z)) : Z := Z.of_nat (length (filter (fun ux => 0 <? snd ux) l)).

Lemma count_pos_app {A} (l1 l2 : list (A * Z)) : count_pos (l1 ++ l2) = count_pos l1 + count_pos l2.
Proof. unfold count_pos. rewrite filter_app, app_length. lia. Qed.

Lemma count_pos_nonneg {A} (l : list (A * Z)) : 0 <= count_pos l.
Proof. unfold count_pos; lia. Qed.

Lemma count_pos_all {A} (l : list (A * Z)) : Forall (fun ux => 0 < snd ux) l -> count_pos l = Z.of_nat (length l).
Proof.
  unfold count_pos. induction 1 as [|x l Hx Hl IH]; [reflexivity|].
  cbn [filter]. destruct (0 <? snd x) eqn:E; [cbn [length]; lia | lia].
Qed.

Lemma zsum_member_le {A} (f : A -> Z) l : (forall x, In x l -> 0 <= f x) -> forall x, In x l -> f x <= zsum f l.
Proof.
  induction l as [|y l IH]; intros H x Hx; [destruct Hx|]. cbn [zsum].
  assert (0 <= zsum f l).
  { rewrite <- (zsum_zero l). apply zsum_le_in. intros z Hz. apply H; right; exact Hz. }
  pose proof (H y (or_introl eq_refl)).
  destruct Hx as [->|Hx]; [lia|]. specialize (IH (fun z Hz => H z (or_intror Hz)) x Hx). lia.
Qed.

Section Final.
  Context {U : Type}.
  Variables running ready : U -> Z.
  Notation total := (total running ready).
  Notation fair_share := (fair_share running ready).

  (** The fuel always suffices: [fair_share] returns a value on every input (no hypothesis). *)
  Lemma fair_share_total users free0 : exists R, fair_share users free0 = Some R.
  Proof.
    unfold Model.fair_share.
    destruct (run_total running ready (fuel_for users) (init running users free0)) as [s' H].
    - unfold measure, fuel_for, init; cbn [pend allocg length].
      rewrite <- (Permutation_length (sort_by_perm running users)).
      destruct (wants_advance _ _ _); lia.
    - rewrite H. eexists; reflexivity.
  Qed.

  (** no free cores: nothing is allocated (no hypothesis on the users) *)
  Lemma fair_share_nonpos users free0 : free0 <= 0 ->
    fair_share users free0 = Some (map (fun u => (u, 0)) (sort_by running users)).
  Proof.
    intros H. unfold Model.fair_share, fuel_for. rewrite Nat.add_comm. cbn [Nat.add Model.run].
    unfold cond at 1, init at 1. cbn [free pend allocg].
    destruct (free0 >? 0) eqn:E; [lia|]. cbn [andb option_map]. reflexivity.
  Qed.

  Variable users : list U.
  Hypothesis Hnn : forall u, In u users -> 0 <= running u /\ 0 <= ready u.

  Section Positive.
    Variable free0 : Z.
    Hypothesis Hfree0 : 0 < free0.

    Lemma final_state R : fair_share users free0 = Some R ->
      exists s', R = finish running s' /\ GenInv running ready users free0 s' /\ cond s' = false.
    Proof.
      unfold Model.fair_share. intros H.
      destruct (run running ready (fuel_for users) (init running users free0)) as [s'|] eqn:E; [|discriminate].
      cbn [option_map] in H. inversion H; subst. exists s'. split; [reflexivity|].
      eapply run_inv; [exact Hnn | apply init_inv; assumption | exact E].
    Qed.

    Section FromState.
      Variable s : @state U.
      Hypothesis G : GenInv running ready users free0 s.
      Hypothesis Hc : cond s = false.
      Let R := finish running s.
      Let L := mark s.

      Lemma fs_struct : Struct running ready users s. Proof. exact (proj1 G). Qed.

      Lemma allocate_allocg a : In a (allocg s) -> allocate running L a = (a, L - running a).
      Proof.
        intros Ha. pose proof (st_allocg _ _ _ s fs_struct) as Fa. rewrite Forall_forall in Fa.
        specialize (Fa a Ha). unfold allocate. rewrite int_plus_half_nonneg by (subst L; lia). reflexivity.
      Qed.

      Lemma fs_perm : Permutation users (map fst R).
      Proof.
        subst R; unfold finish. rewrite !map_app.
        assert (E1 : map fst (map (allocate running (mark s)) (allocg s)) = allocg s).
        { rewrite map_map. unfold allocate. cbn [fst]. apply map_id. }
        assert (E2 : map fst (map (fun u : U => (u, 0)) (pend s)) = pend s).
        { rewrite map_map. cbn [fst]. apply map_id. }
        rewrite E1, E2. apply (st_perm _ _ _ s fs_struct).
      Qed.

      Lemma fs_nn u x : In (u, x) R -> 0 <= running u /\ 0 <= ready u.
      Proof.
        intros H. apply Hnn. eapply Permutation_in; [apply Permutation_sym, fs_perm|].
        apply (in_map fst) in H. exact H.
      Qed.

      (** every user is in exactly one of the three water-filling situations relative to the level [L] *)
      Lemma fs_classify u x : In (u, x) R ->
        (x = ready u /\ total u <= L) \/ (x = L - running u /\ running u <= L <= total u) \/ (x = 0 /\ L <= running u).
      Proof.
        intros H. subst R; unfold finish in H.
        apply in_app_or in H. destruct H as [H|H]; [|apply in_app_or in H; destruct H as [H|H]].
        - left. pose proof (st_res _ _ _ s fs_struct) as Fr. rewrite Forall_forall in Fr.
          specialize (Fr (u, x) H). cbn [fst snd] in Fr. subst L. tauto.
        - right; left. apply in_map_iff in H. destruct H as (a & E & Ha).
          pose proof (allocate_allocg a Ha) as E'. unfold L in E'. rewrite E' in E. inversion E; subst.
          pose proof (st_allocg _ _ _ s fs_struct) as Fa. rewrite Forall_forall in Fa. specialize (Fa u Ha).
          split; [reflexivity | exact Fa].
        - right; right. apply in_map_iff in H. destruct H as (p & E & Hp). inversion E; subst.
          pose proof (st_pend _ _ _ s fs_struct) as Fp. rewrite Forall_forall in Fp. specialize (Fp u Hp).
          split; [reflexivity | exact Fp].
      Qed.

      Lemma fs_level_nonneg : 0 <= L. Proof. apply (st_mark _ _ _ s fs_struct). Qed.

      Lemma fs_sum : zsum snd R = zsum snd (res s) + zsum (fun a => L - running a) (allocg s).
      Proof.
        subst R; unfold finish. rewrite !zsum_app, !zsum_map. cbn [snd]. rewrite zsum_zero.
        rewrite (zsum_ext_in (fun x => snd (allocate running (mark s) x)) (fun a => L - running a)); [lia|].
        intros a Ha. fold L. rewrite (allocate_allocg a Ha). reflexivity.
      Qed.

      Lemma fs_count_allocg : Forall (fun a => 0 < L - running a) (allocg s) ->
        Z.of_nat (length (allocg s)) <= count_pos R.
      Proof.
        intros F. subst R; unfold finish. rewrite !count_pos_app.
        pose proof (count_pos_nonneg (res s)). pose proof (count_pos_nonneg (map (fun u : U => (u, 0)) (pend s))).
        rewrite (count_pos_all (map (allocate running (mark s)) (allocg s))).
        - rewrite map_length. lia.
        - apply Forall_forall. intros ux Hin. apply in_map_iff in Hin. destruct Hin as (a & E & Ha).
          fold L in E. rewrite (allocate_allocg a Ha) in E. subst ux. cbn [snd].
          rewrite Forall_forall in F. apply (F a Ha).
      Qed.

      Lemma fs_res_ready : zsum snd (res s) = zsum (fun ux => ready (fst ux)) (res s).
      Proof.
        apply zsum_ext_in. intros ux Hin. pose proof (st_res _ _ _ s fs_struct) as Fr.
        rewrite Forall_forall in Fr. apply (Fr ux Hin).
      Qed.

      (** Sigma alloc <= free + (one half per user with a positive allocation) *)
      Lemma fs_sum_upper : 2 * zsum snd R <= 2 * free0 + count_pos R.
      Proof.
        destruct G as [S (k & C & K)]. unfold Cons in C. rewrite fs_sum. fold L in C.
        pose proof (st_free _ _ _ s S). pose proof (count_pos_nonneg R).
        destruct K as [->|(F0 & Hk & Hpos & _)]; [lia|].
        destruct (Z_lt_le_dec 0 k) as [Hk0|Hk0]; [|lia].
        pose proof (fs_count_allocg (Hpos Hk0)). lia.
      Qed.

      Lemma fs_length_allocg : Z.of_nat (length (allocg s)) <= Z.of_nat (length users).
      Proof.
        rewrite (Permutation_length (st_perm running ready users s fs_struct)), !app_length. lia.
      Qed.

      Lemma fs_ready_split : zsum ready users = zsum (fun ux => ready (fst ux)) (res s) + zsum ready (allocg s) + zsum ready (pend s).
      Proof. apply (ready_sum_split running ready users s fs_struct). Qed.

      (** work conservation: if the total demand is at least the free cores, all of them are handed out up to rounding *)
      Lemma fs_work_conserving : free0 <= zsum ready users ->
        2 * free0 - Z.of_nat (length users) < 2 * zsum snd R.
      Proof.
        intros Hd. destruct G as [S (k & C & K)]. unfold Cons in C. rewrite fs_sum. fold L in C.
        pose proof fs_length_allocg as Hlen. pose proof (st_free _ _ _ s S) as Hf.
        destruct K as [->|(F0 & Hk & _ & _)]; [|lia].
        assert (Hu : (0 < length users)%nat).
        { destruct users; [cbn [zsum] in Hd; lia | cbn [length]; lia]. }
        unfold Model.cond in Hc. apply andb_false_iff in Hc. destruct Hc as [Hc'|Hc'].
        - lia.
        - apply negb_false_iff, andb_true_iff in Hc'. destruct Hc' as [Hp Ha].
          destruct (pend s) eqn:Ep; [|discriminate]. destruct (allocg s) eqn:Ea; [|discriminate].
          pose proof fs_ready_split as Hs. rewrite Ep, Ea in Hs. cbn [zsum] in *.
          pose proof fs_res_ready. destruct (Z_lt_le_dec 0 (free s)); lia.
      Qed.

      (** if the free cores cover the total demand, every user gets its whole demand *)
      Lemma fs_demand_met : zsum ready users <= free0 -> forall u x, In (u, x) R -> x = ready u.
      Proof.
        intros Hd. destruct G as [S (k & C & K)]. unfold Cons in C.
        destruct K as [->|(_ & _ & _ & Hlt)]; [|lia].
        assert (Hle : forall ux, In ux R -> snd ux <= ready (fst ux)).
        { intros [u x] Hin. cbn [fst snd]. pose proof (fs_nn u x Hin). unfold Model.total in *.
          destruct (fs_classify u x Hin) as [[-> _]|[[-> ?]|[-> _]]]; unfold Model.total in *; lia. }
        assert (Hsum : zsum (fun ux => ready (fst ux)) R = zsum ready users).
        { rewrite (zsum_perm ready _ _ fs_perm), zsum_map. reflexivity. }
        unfold Model.cond in Hc. apply andb_false_iff in Hc. destruct Hc as [Hc'|Hc'].
        - pose proof (st_free _ _ _ s S).
          assert (zsum (fun ux => ready (fst ux)) R <= zsum snd R) by (rewrite Hsum, fs_sum; fold L in C; lia).
          intros u x Hin. apply (zsum_pointwise_eq snd (fun ux => ready (fst ux)) R Hle H0 (u, x) Hin).
        - apply negb_false_iff, andb_true_iff in Hc'. destruct Hc' as [Hp Ha].
          intros u x Hin. subst R. unfold finish in Hin.
          destruct (pend s) eqn:Ep; [|discriminate]. destruct (allocg s) eqn:Ea; [|discriminate].
          cbn [map app] in Hin. rewrite app_nil_r in Hin.
          pose proof (st_res _ _ _ s S) as Fr. rewrite Forall_forall in Fr. apply (Fr (u, x) Hin).
      Qed.
    End FromState.
  End Positive.
End Final.
