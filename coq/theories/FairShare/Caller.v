(** C11, the caller: PoolScheduler.compute_fair_share (batch/batch/driver/instance_collection/pool.py)

      async def compute_fair_share(self):
          free_cores_mcpu = sum(worker.free_cores_mcpu for worker in self.pool.healthy_instances_by_free_cores)
          return await self._compute_fair_share(free_cores_mcpu)

    and the way the pool fills [healthy_instances_by_free_cores] (Pool.adjust_for_add_instance):

          if instance.state == 'active' and instance.failed_request_count <= 1:
              self.healthy_instances_by_free_cores.add(instance)

    The set is a sortedcontainers.SortedSet of instance OBJECTS (membership by identity, order by free cores), so two
    workers with the same free cores are both members: the sum ranges over the multiset of healthy instances.  The sum
    uses [free_cores_mcpu], the possibly NEGATIVE measure (an oversubscribed worker lowers the total); nothing is
    clamped, and the worker version is NOT looked at (Pool.get_instance filters on it later).

    An instance is (state, failed_request_count, version, free_cores_mcpu); states: 0 pending, 1 active, 2 inactive,
    3 deleted.  [caller_free] is the transcription of the code; [schedulable_free] / [placeable_free] are the
    specification-side quantities, written independently (plain recursion over ALL instances). *)
From HailV Require Import Common.Prelude FairShare.Model FairShare.Lemmas FairShare.Invariant FairShare.Final FairShare.Top.
From Coq Require Import Permutation.
Open Scope Z_scope.

Record inst := mkInst { i_state : Z; i_failed : Z; i_version : Z; i_free : Z }.

Definition ACTIVE : Z := 1.

(** ------------------------------------------------------------------ model of the code *)

(** the guard of Pool.adjust_for_add_instance *)
Definition healthy (i : inst) : bool := (i_state i =? ACTIVE) && (i_failed i <=? 1).

(** pool.healthy_instances_by_free_cores after every instance went through adjust_for_add_instance *)
Definition healthy_set (insts : list inst) : list inst := filter healthy insts.

(** sum(worker.free_cores_mcpu for worker in self.pool.healthy_instances_by_free_cores) *)
Definition caller_free (insts : list inst) : Z := zsum i_free (healthy_set insts).

(** compute_fair_share *)
Definition compute_fair_share {U} (running ready : U -> Z) (users : list U) (insts : list inst) : option (list (U * Z)) :=
  fair_share running ready users (caller_free insts).

(** ------------------------------------------------------------------ specification side *)

(** free cores of the workers a job can be sent to at all: active, fewer than two failed requests; an oversubscribed
    worker counts with its negative amount (the cores it owes are taken from the others) *)
Fixpoint schedulable_free (insts : list inst) : Z :=
  match insts with
  | [] => 0
  | i :: r => (if i_state i =? 1 then if 2 <=? i_failed i then 0 else i_free i else 0) + schedulable_free r
  end.

(** ... and that moreover run the current worker version [cur] (the filter of Pool.get_instance) *)
Fixpoint placeable_free (cur : Z) (insts : list inst) : Z :=
  match insts with
  | [] => 0
  | i :: r => (if i_state i =? 1 then if 2 <=? i_failed i then 0 else if i_version i =? cur then i_free i else 0 else 0)
              + placeable_free cur r
  end.

(** ------------------------------------------------------------------ lemmas *)

Lemma caller_free_cons i insts :
  caller_free (i :: insts) = (if healthy i then i_free i else 0) + caller_free insts.
Proof.
  unfold caller_free, healthy_set. cbn [filter]. destruct (healthy i); cbn [zsum]; lia.
Qed.

Lemma caller_free_schedulable insts : caller_free insts = schedulable_free insts.
Proof.
  induction insts as [|i r IH]; [reflexivity|].
  rewrite caller_free_cons, IH. cbn [schedulable_free]. unfold healthy, ACTIVE.
  destruct (i_state i =? 1) eqn:Es; cbn [andb]; [|reflexivity].
  destruct (i_failed i <=? 1) eqn:Ef; destruct (2 <=? i_failed i) eqn:Ef2; try reflexivity;
    apply Z.leb_le in Ef2 || apply Z.leb_gt in Ef2; apply Z.leb_le in Ef || apply Z.leb_gt in Ef; lia.
Qed.

Lemma caller_free_app l1 l2 : caller_free (l1 ++ l2) = caller_free l1 + caller_free l2.
Proof. unfold caller_free, healthy_set. rewrite filter_app, zsum_app. reflexivity. Qed.

(** an instance that is not in the healthy set (pending / inactive / deleted / two or more failed requests) does not
    influence the free-core amount, wherever it sits and whatever its free cores *)
Lemma caller_free_ignores_unhealthy l1 i l2 :
  healthy i = false -> caller_free (l1 ++ i :: l2) = caller_free (l1 ++ l2).
Proof.
  intros H. rewrite !caller_free_app, caller_free_cons, H. lia.
Qed.

(** the order in which the instances were added (and so the order of the SortedSet) is irrelevant *)
Lemma caller_free_perm l1 l2 : Permutation l1 l2 -> caller_free l1 = caller_free l2.
Proof.
  induction 1 as [|x l l' _ IH|x y l|l l' l'' _ IH1 _ IH2].
  - reflexivity.
  - rewrite !caller_free_cons, IH. reflexivity.
  - rewrite !caller_free_cons. lia.
  - congruence.
Qed.

Lemma placeable_when_current cur insts :
  (forall i, In i insts -> healthy i = true -> i_version i = cur) ->
  caller_free insts = placeable_free cur insts.
Proof.
  induction insts as [|i r IH]; intros H; [reflexivity|].
  rewrite caller_free_cons, IH by (intros j Hj; apply H; right; exact Hj).
  cbn [placeable_free]. pose proof (H i (or_introl eq_refl)) as Hi. unfold healthy, ACTIVE in *.
  destruct (i_state i =? 1) eqn:Es; cbn [andb] in *; [|reflexivity].
  destruct (i_failed i <=? 1) eqn:Ef; destruct (2 <=? i_failed i) eqn:Ef2; try reflexivity;
    try (apply Z.leb_le in Ef2 || apply Z.leb_gt in Ef2; apply Z.leb_le in Ef || apply Z.leb_gt in Ef; lia).
  rewrite (Hi eq_refl), Z.eqb_refl. reflexivity.
Qed.

Lemma caller_ignores_unhealthy {U} (running ready : U -> Z) users l1 i l2 :
  healthy i = false ->
  compute_fair_share running ready users (l1 ++ i :: l2) = compute_fair_share running ready users (l1 ++ l2).
Proof. intros H. unfold compute_fair_share. rewrite (caller_free_ignores_unhealthy l1 i l2 H). reflexivity. Qed.

Lemma caller_order_irrelevant {U} (running ready : U -> Z) users l1 l2 :
  Permutation l1 l2 -> compute_fair_share running ready users l1 = compute_fair_share running ready users l2.
Proof. intros H. unfold compute_fair_share. rewrite (caller_free_perm l1 l2 H). reflexivity. Qed.

Section Caller.
  Context {U : Type}.
  Variables running ready : U -> Z.
  Variable users : list U.
  Variable insts : list inst.
  Variable R : list (U * Z).
  Hypothesis Hnn : forall u, In u users -> 0 <= running u /\ 0 <= ready u.
  Hypothesis HR : compute_fair_share running ready users insts = Some R.

  Lemma caller_sum_upper : 2 * zsum snd R <= 2 * Z.max 0 (schedulable_free insts) + count_pos R.
  Proof.
    rewrite <- caller_free_schedulable.
    exact (top_sum_upper running ready users (caller_free insts) R Hnn HR).
  Qed.

  Lemma caller_nothing_schedulable : schedulable_free insts <= 0 -> forall u x, In (u, x) R -> x = 0.
  Proof.
    intros H. rewrite <- caller_free_schedulable in H.
    exact (nonpos_zero running ready users (caller_free insts) R HR H).
  Qed.

  Lemma caller_work_conserving :
    0 < schedulable_free insts <= zsum ready users -> 2 * schedulable_free insts - Z.of_nat (length users) < 2 * zsum snd R.
  Proof.
    rewrite <- caller_free_schedulable.
    exact (top_work_conserving running ready users (caller_free insts) R Hnn HR).
  Qed.

  Lemma caller_sum_upper_placeable cur :
    (forall i, In i insts -> healthy i = true -> i_version i = cur) ->
    2 * zsum snd R <= 2 * Z.max 0 (placeable_free cur insts) + count_pos R.
  Proof.
    intros H. rewrite <- (placeable_when_current cur insts H).
    exact (top_sum_upper running ready users (caller_free insts) R Hnn HR).
  Qed.
End Caller.

(** the version-aware statement does NOT hold for the code as it is: a healthy active worker of an older version has its
    free cores handed out although Pool.get_instance never returns it *)
Definition old_version_witness_insts : list inst := [mkInst 1 0 29 4000].
Definition old_version_witness_users : list (Z * Z) := [(0, 4000)].

Lemma caller_placeable_refuted :
  exists R, compute_fair_share fst snd old_version_witness_users old_version_witness_insts = Some R /\
            2 * Z.max 0 (placeable_free 30 old_version_witness_insts) + count_pos R < 2 * zsum snd R.
Proof. eexists. split; [vm_compute; reflexivity | vm_compute; reflexivity]. Qed.

(** hypotheses satisfiable / the definitions compute: one healthy worker (4000), one active worker with two failed
    requests (8000, ignored), one oversubscribed healthy worker (-1000), one pending worker (ignored) *)
Example caller_free_example :
  caller_free [mkInst 1 0 30 4000; mkInst 1 2 30 8000; mkInst 1 1 30 (-1000); mkInst 0 0 30 16000] = 3000.
Proof. reflexivity. Qed.
