(** C11 — property theorems only.  [fair_share running ready users free] is the model of
    PoolScheduler._compute_fair_share (FairShare/Model.v); it returns [Some R] with R the list of
    (user, allocated_cores_mcpu).  Every theorem quantifies over ALL user types, ALL lists of users
    (hence all multisets, in every arrival order) with non-negative running/ready cores, and ALL integers
    [free] — positive, zero or negative. *)
From HailV Require Import Common.Prelude FairShare.Model FairShare.Lemmas FairShare.Invariant FairShare.Final FairShare.Top FairShare.Caller.
From Coq Require Import Permutation.
Open Scope Z_scope.

Definition nonneg_demands {U} (running ready : U -> Z) (users : list U) : Prop :=
  forall u, In u users -> 0 <= running u /\ 0 <= ready u.

(** The loop terminates within the fuel of the model, on every input whatsoever (no hypothesis). *)
Theorem C11_defined : forall U (running ready : U -> Z) users free,
  exists R, fair_share running ready users free = Some R.
Proof. intros; apply fair_share_total. Qed.
Print Assumptions C11_defined.

(** The result speaks about exactly the users that were given (as a multiset). *)
Theorem C11_same_users : forall U (running ready : U -> Z) users free R,
  nonneg_demands running ready users -> fair_share running ready users free = Some R ->
  Permutation users (map fst R).
Proof. intros U running ready users free R Hnn HR. exact (top_perm running ready users free R Hnn HR). Qed.
Print Assumptions C11_same_users.

(** No user is allocated more than its ready demand. *)
Theorem C11_le_demand : forall U (running ready : U -> Z) users free R,
  nonneg_demands running ready users -> fair_share running ready users free = Some R ->
  forall u x, In (u, x) R -> x <= ready u.
Proof. intros U running ready users free R Hnn HR. exact (top_le_demand running ready users free R Hnn HR). Qed.
Print Assumptions C11_le_demand.

(** Allocations are non-negative. *)
Theorem C11_nonneg : forall U (running ready : U -> Z) users free R,
  nonneg_demands running ready users -> fair_share running ready users free = Some R ->
  forall u x, In (u, x) R -> 0 <= x.
Proof. intros U running ready users free R Hnn HR. exact (top_nonneg running ready users free R Hnn HR). Qed.
Print Assumptions C11_nonneg.

(** The total exceeds the free cores by at most the rounding slack: half a millicore per user that is
    allocated anything (and so by at most half a millicore per user). *)
Theorem C11_total_le_free_plus_rounding : forall U (running ready : U -> Z) users free R,
  nonneg_demands running ready users -> fair_share running ready users free = Some R ->
  2 * zsum snd R <= 2 * Z.max 0 free + count_pos R /\ count_pos R <= Z.of_nat (length users).
Proof.
  intros U running ready users free R Hnn HR. split.
  - exact (top_sum_upper running ready users free R Hnn HR).
  - exact (count_pos_le_length running ready users free R Hnn HR).
Qed.
Print Assumptions C11_total_le_free_plus_rounding.

(** That slack is attained (two users wanting one millicore each, one free millicore: both get one). *)
Theorem C11_rounding_slack_attained :
  let R := [((0, 1), 1); ((0, 1), 1)] in
  fair_share (fun u : Z * Z => fst u) (fun u => snd u) [(0, 1); (0, 1)] 1 = Some R /\
  2 * zsum snd R = 2 * Z.max 0 1 + count_pos R.
Proof. split; [exact slack_attained | vm_compute; reflexivity]. Qed.
Print Assumptions C11_rounding_slack_attained.

(** Zero or negative free cores: nobody is allocated anything (no hypothesis on the demands). *)
Theorem C11_no_free_no_alloc : forall U (running ready : U -> Z) users free R,
  free <= 0 -> fair_share running ready users free = Some R -> forall u x, In (u, x) R -> x = 0.
Proof. intros U running ready users free R Hf HR. exact (nonpos_zero running ready users free R HR Hf). Qed.
Print Assumptions C11_no_free_no_alloc.

(** Work conservation: when the demand allows, all free cores are handed out (up to the same rounding). *)
Theorem C11_work_conserving : forall U (running ready : U -> Z) users free R,
  nonneg_demands running ready users -> fair_share running ready users free = Some R ->
  0 < free <= zsum ready users -> 2 * free - Z.of_nat (length users) < 2 * zsum snd R.
Proof. intros U running ready users free R Hnn HR. exact (top_work_conserving running ready users free R Hnn HR). Qed.
Print Assumptions C11_work_conserving.

(** ... and when the free cores cover the whole demand, every user gets all it asked for. *)
Theorem C11_demand_met_when_possible : forall U (running ready : U -> Z) users free R,
  nonneg_demands running ready users -> fair_share running ready users free = Some R ->
  zsum ready users <= free -> forall u x, In (u, x) R -> x = ready u.
Proof. intros U running ready users free R Hnn HR. exact (top_demand_met running ready users free R Hnn HR). Qed.
Print Assumptions C11_demand_met_when_possible.

(** Water filling: there is one level L such that every user's allocation is its demand clipped at L - running. *)
Theorem C11_water_filling : forall U (running ready : U -> Z) users free R,
  nonneg_demands running ready users -> fair_share running ready users free = Some R ->
  exists L, forall u x, In (u, x) R -> x = Z.max 0 (Z.min (ready u) (L - running u)).
Proof. intros U running ready users free R Hnn HR. exact (top_water_filling running ready users free R Hnn HR). Qed.
Print Assumptions C11_water_filling.

(** Any user left short sits at the common water level (or was already above it and gets nothing), and nobody
    who receives cores ends above it. *)
Theorem C11_water_level : forall U (running ready : U -> Z) users free R,
  nonneg_demands running ready users -> fair_share running ready users free = Some R ->
  exists L, forall u x, In (u, x) R ->
    (x < ready u -> L <= running u + x /\ (0 < x -> running u + x = L)) /\ (0 < x -> running u + x <= L).
Proof. intros U running ready users free R Hnn HR. exact (top_water_level running ready users free R Hnn HR). Qed.
Print Assumptions C11_water_level.

(** Max-min fairness, pairwise and exact (no rounding slack): a user that is left short holds at least as many
    cores (running + allocated) as any user that was allocated anything. *)
Theorem C11_max_min_fair : forall U (running ready : U -> Z) users free R,
  nonneg_demands running ready users -> fair_share running ready users free = Some R ->
  forall u x v y, In (u, x) R -> In (v, y) R -> x < ready u -> 0 < y -> running v + y <= running u + x.
Proof. intros U running ready users free R Hnn HR. exact (top_max_min running ready users free R Hnn HR). Qed.
Print Assumptions C11_max_min_fair.

(** ------------------------------------------------------------------------------------------------------------
    The caller, PoolScheduler.compute_fair_share (FairShare/Caller.v): the free-core amount given to the water
    filling is the sum of free_cores_mcpu (possibly negative, not clamped) over pool.healthy_instances_by_free_cores,
    i.e. over the instances with state 'active' and failed_request_count <= 1 (Pool.adjust_for_add_instance).
    [compute_fair_share running ready users insts] is the model of the method on a pool holding [insts];
    [schedulable_free insts] is the specification-side amount (recursion over ALL instances, written independently).
    The theorems quantify over ALL lists of instances (any state, any failed-request count, any version, any free
    cores incl. negative) and ALL user lists with non-negative demands. *)

(** The model's free-core amount is exactly the free cores of the schedulable workers. *)
Theorem C11_caller_free_is_schedulable : forall insts, caller_free insts = schedulable_free insts.
Proof. exact caller_free_schedulable. Qed.
Print Assumptions C11_caller_free_is_schedulable.

(** The total handed out by compute_fair_share never exceeds the schedulable free cores of the pool by more than
    the rounding slack (half a millicore per served user). *)
Theorem C11_caller_total_le_schedulable : forall U (running ready : U -> Z) users insts R,
  nonneg_demands running ready users -> compute_fair_share running ready users insts = Some R ->
  2 * zsum snd R <= 2 * Z.max 0 (schedulable_free insts) + count_pos R.
Proof. intros U running ready users insts R Hnn HR. exact (caller_sum_upper running ready users insts R Hnn HR). Qed.
Print Assumptions C11_caller_total_le_schedulable.

(** No schedulable free cores (none healthy, or the oversubscribed workers owe at least what the others have free):
    nobody is allocated anything. *)
Theorem C11_caller_nothing_schedulable : forall U (running ready : U -> Z) users insts R,
  compute_fair_share running ready users insts = Some R -> schedulable_free insts <= 0 ->
  forall u x, In (u, x) R -> x = 0.
Proof. intros U running ready users insts R HR H. exact (caller_nothing_schedulable running ready users insts R HR H). Qed.
Print Assumptions C11_caller_nothing_schedulable.

(** ... and when the demand allows, all schedulable free cores are handed out. *)
Theorem C11_caller_work_conserving : forall U (running ready : U -> Z) users insts R,
  nonneg_demands running ready users -> compute_fair_share running ready users insts = Some R ->
  0 < schedulable_free insts <= zsum ready users ->
  2 * schedulable_free insts - Z.of_nat (length users) < 2 * zsum snd R.
Proof. intros U running ready users insts R Hnn HR. exact (caller_work_conserving running ready users insts R Hnn HR). Qed.
Print Assumptions C11_caller_work_conserving.

(** A worker outside the healthy set (pending, inactive, deleted, or with two or more failed requests) has no
    influence on the result, whatever its free cores and wherever it sits; nor has the order of the workers. *)
Theorem C11_caller_ignores_unhealthy : forall U (running ready : U -> Z) users l1 i l2,
  healthy i = false ->
  compute_fair_share running ready users (l1 ++ i :: l2) = compute_fair_share running ready users (l1 ++ l2).
Proof. intros U running ready users l1 i l2 H. exact (caller_ignores_unhealthy running ready users l1 i l2 H). Qed.
Print Assumptions C11_caller_ignores_unhealthy.

Theorem C11_caller_order_irrelevant : forall U (running ready : U -> Z) users l1 l2,
  Permutation l1 l2 -> compute_fair_share running ready users l1 = compute_fair_share running ready users l2.
Proof. intros U running ready users l1 l2 H. exact (caller_order_irrelevant running ready users l1 l2 H). Qed.
Print Assumptions C11_caller_order_irrelevant.

(** Version-aware statement (Pool.get_instance only returns workers of the current version [cur]):
    FULL statement — forall insts, 2 * sum <= 2 * max 0 (placeable_free cur insts) + #served — is REFUTED by the
    code as it is (the healthy set is not filtered by version); it holds when every healthy worker runs [cur]. *)
Theorem C11_caller_total_le_placeable_partial : forall U (running ready : U -> Z) users insts R cur,
  nonneg_demands running ready users -> compute_fair_share running ready users insts = Some R ->
  (forall i, In i insts -> healthy i = true -> i_version i = cur) ->
  2 * zsum snd R <= 2 * Z.max 0 (placeable_free cur insts) + count_pos R.
Proof. intros U running ready users insts R cur Hnn HR H. exact (caller_sum_upper_placeable running ready users insts R Hnn HR cur H). Qed.
Print Assumptions C11_caller_total_le_placeable_partial.

Theorem C11_caller_total_le_placeable_refuted :
  exists R, compute_fair_share fst snd old_version_witness_users old_version_witness_insts = Some R /\
            2 * Z.max 0 (placeable_free 30 old_version_witness_insts) + count_pos R < 2 * zsum snd R.
Proof. exact caller_placeable_refuted. Qed.
Print Assumptions C11_caller_total_le_placeable_refuted.
