(** C11 — property theorems only.  [fair_share running ready users free] is the model of
    PoolScheduler._compute_fair_share (FairShare/Model.v); it returns [Some R] with R the list of
    (user, allocated_cores_mcpu).  Every theorem quantifies over ALL user types, ALL lists of users
    (hence all multisets, in every arrival order) with non-negative running/ready cores, and ALL integers
    [free] — positive, zero or negative. *)
From HailV Require Import Common.Prelude FairShare.Model FairShare.Lemmas FairShare.Invariant FairShare.Final FairShare.Top.
From Coq Require Import Permutation.
Open Scope Z_scope.

Definition nonneg_demands {U} (running ready : U -> Z) (users : list U) : Prop :=
  forall u, In u users -> 0 <= running u /\ 0 <= ready u.

(** The loop terminates within the fuel of the model, on every input whatsoever (no hypothesis). *)
Theorem C11_defined : forall U (running ready : U -> Z) users free,
  exists R, fair_share running ready users free = Some R.
Proof. intros; apply fair_share_total. Qed.
Print Assumptions C11_defined.

(** The result speaks about exactly the users that were given (as a multiset). *)
Theorem C11_same_users : forall U (running ready : U -> Z) users free R,
  nonneg_demands running ready users -> fair_share running ready users free = Some R ->
  Permutation users (map fst R).
Proof. intros U running ready users free R Hnn HR. exact (top_perm running ready users free R Hnn HR). Qed.
Print Assumptions C11_same_users.

(** No user is allocated more than its ready demand. *)
Theorem C11_le_demand : forall U (running ready : U -> Z) users free R,
  nonneg_demands running ready users -> fair_share running ready users free = Some R ->
  forall u x, In (u, x) R -> x <= ready u.
Proof. intros U running ready users free R Hnn HR. exact (top_le_demand running ready users free R Hnn HR). Qed.
Print Assumptions C11_le_demand.

(** Allocations are non-negative. *)
Theorem C11_nonneg : forall U (running ready : U -> Z) users free R,
  nonneg_demands running ready users -> fair_share running ready users free = Some R ->
  forall u x, In (u, x) R -> 0 <= x.
Proof. intros U running ready users free R Hnn HR. exact (top_nonneg running ready users free R Hnn HR). Qed.
Print Assumptions C11_nonneg.

(** The total exceeds the free cores by at most the rounding slack: half a millicore per user that is
    allocated anything (and so by at most half a millicore per user). *)
Theorem C11_total_le_free_plus_rounding : forall U (running ready : U -> Z) users free R,
  nonneg_demands running ready users -> fair_share running ready users free = Some R ->
  2 * zsum snd R <= 2 * Z.max 0 free + count_pos R /\ count_pos R <= Z.of_nat (length users).
Proof.
  intros U running ready users free R Hnn HR. split.
  - exact (top_sum_upper running ready users free R Hnn HR).
  - exact (count_pos_le_length running ready users free R Hnn HR).
Qed.
Print Assumptions C11_total_le_free_plus_rounding.

(** That slack is attained (two users wanting one millicore each, one free millicore: both get one). *)
Theorem C11_rounding_slack_attained :
  let R := [((0, 1), 1); ((0, 1), 1)] in
  fair_share (fun u : Z * Z => fst u) (fun u => snd u) [(0, 1); (0, 1)] 1 = Some R /\
  2 * zsum snd R = 2 * Z.max 0 1 + count_pos R.
Proof. split; [exact slack_attained | vm_compute; reflexivity]. Qed.
Print Assumptions C11_rounding_slack_attained.

(** Zero or negative free cores: nobody is allocated anything (no hypothesis on the demands). *)
Theorem C11_no_free_no_alloc : forall U (running ready : U -> Z) users free R,
  free <= 0 -> fair_share running ready users free = Some R -> forall u x, In (u, x) R -> x = 0.
Proof. intros U running ready users free R Hf HR. exact (nonpos_zero running ready users free R HR Hf). Qed.
Print Assumptions C11_no_free_no_alloc.

(** Work conservation: when the demand allows, all free cores are handed out (up to the same rounding). *)
Theorem C11_work_conserving : forall U (running ready : U -> Z) users free R,
  nonneg_demands running ready users -> fair_share running ready users free = Some R ->
  0 < free <= zsum ready users -> 2 * free - Z.of_nat (length users) < 2 * zsum snd R.
Proof. intros U running ready users free R Hnn HR. exact (top_work_conserving running ready users free R Hnn HR). Qed.
Print Assumptions C11_work_conserving.

(** ... and when the free cores cover the whole demand, every user gets all it asked for. *)
Theorem C11_demand_met_when_possible : forall U (running ready : U -> Z) users free R,
  nonneg_demands running ready users -> fair_share running ready users free = Some R ->
  zsum ready users <= free -> forall u x, In (u, x) R -> x = ready u.
Proof. intros U running ready users free R Hnn HR. exact (top_demand_met running ready users free R Hnn HR). Qed.
Print Assumptions C11_demand_met_when_possible.

(** Water filling: there is one level L such that every user's allocation is its demand clipped at L - running. *)
Theorem C11_water_filling : forall U (running ready : U -> Z) users free R,
  nonneg_demands running ready users -> fair_share running ready users free = Some R ->
  exists L, forall u x, In (u, x) R -> x = Z.max 0 (Z.min (ready u) (L - running u)).
Proof. intros U running ready users free R Hnn HR. exact (top_water_filling running ready users free R Hnn HR). Qed.
Print Assumptions C11_water_filling.

(** Any user left short sits at the common water level (or was already above it and gets nothing), and nobody
    who receives cores ends above it. *)
Theorem C11_water_level : forall U (running ready : U -> Z) users free R,
  nonneg_demands running ready users -> fair_share running ready users free = Some R ->
  exists L, forall u x, In (u, x) R ->
    (x < ready u -> L <= running u + x /\ (0 < x -> running u + x = L)) /\ (0 < x -> running u + x <= L).
Proof. intros U running ready users free R Hnn HR. exact (top_water_level running ready users free R Hnn HR). Qed.
Print Assumptions C11_water_level.

(** Max-min fairness, pairwise and exact (no rounding slack): a user that is left short holds at least as many
    cores (running + allocated) as any user that was allocated anything. *)
Theorem C11_max_min_fair : forall U (running ready : U -> Z) users free R,
  nonneg_demands running ready users -> fair_share running ready users free = Some R ->
  forall u x v y, In (u, x) R -> In (v, y) R -> x < ready u -> 0 < y -> running v + y <= running u + x.
Proof. intros U running ready users free R Hnn HR. exact (top_max_min running ready users free R Hnn HR). Qed.
Print Assumptions C11_max_min_fair.
