(** C11: the loop invariant of the water-filling loop and what it gives for the final allocation. *)
From HailV Require Import Common.Prelude FairShare.Model FairShare.Lemmas.
From Coq Require Import Permutation.
Open Scope Z_scope.

Section Inv.
  Context {U : Type}.
  Variables running ready : U -> Z.
  Notation total := (total running ready).
  Notation state := (@state U).
  Notation step := (step running ready).
  Notation cond := (@cond U).
  Notation run := (run running ready).
  Notation finish := (finish running).
  Notation advance := (advance running ready).
  Notation try_finish_user := (try_finish_user running ready).
  Notation allocation_of := (allocation_of running ready).

  Variable users : list U.
  Variable free0 : Z.
  Hypothesis Hnn : forall u, In u users -> 0 <= running u /\ 0 <= ready u.
  Hypothesis Hfree0 : 0 < free0.

  Record Struct (s : state) : Prop := mkStruct {
    st_perm : Permutation users (map fst (res s) ++ allocg s ++ pend s);
    st_sorted_pend : sorted_by running (pend s);
    st_sorted_allocg : sorted_by total (allocg s);
    st_pend : Forall (fun p => mark s <= running p) (pend s);
    st_allocg : Forall (fun a => running a <= mark s <= total a) (allocg s);
    st_res : Forall (fun ux => snd ux = ready (fst ux) /\ total (fst ux) <= mark s) (res s);
    st_free : 0 <= free s;
    st_mark : 0 <= mark s
  }.

  (** twice the cores handed out so far, against twice the initial free cores, with rounding slack [k] *)
  Definition Cons (s : state) (k : Z) : Prop :=
    2 * (free s + zsum snd (res s) + zsum (fun a => mark s - running a) (allocg s)) = 2 * free0 + k.

  Definition SlackOK (s : state) (k : Z) : Prop :=
    k = 0 \/
    (free s = 0 /\ let n := Z.of_nat (length (allocg s)) in
       - n < k <= n /\ (0 < k -> Forall (fun a => 0 < mark s - running a) (allocg s)) /\ free0 < zsum ready users).

  Definition GenInv (s : state) : Prop := Struct s /\ exists k, Cons s k /\ SlackOK s k.

  Lemma struct_in_pend s p : Struct s -> In p (pend s) -> 0 <= running p /\ 0 <= ready p.
  Proof.
    intros S Hp. apply Hnn. eapply Permutation_in; [apply Permutation_sym, (st_perm s S)|].
    apply in_or_app; right; apply in_or_app; right; exact Hp.
  Qed.

  Lemma struct_in_allocg s a : Struct s -> In a (allocg s) -> 0 <= running a /\ 0 <= ready a.
  Proof.
    intros S Ha. apply Hnn. eapply Permutation_in; [apply Permutation_sym, (st_perm s S)|].
    apply in_or_app; right; apply in_or_app; left; exact Ha.
  Qed.

  Lemma ready_sum_split s : Struct s ->
    zsum ready users = zsum (fun ux => ready (fst ux)) (res s) + zsum ready (allocg s) + zsum ready (pend s).
  Proof.
    intros S. rewrite (zsum_perm ready _ _ (st_perm s S)), !zsum_app, zsum_map. lia.
  Qed.

  Lemma init_inv : GenInv (init running users free0).
  Proof.
    split.
    - constructor; cbn [init pend allocg mark free res map app zsum].
      + apply sort_by_perm.
      + apply sort_by_sorted.
      + exact I.
      + apply Forall_forall; intros p Hp. apply Hnn.
        eapply Permutation_in; [apply Permutation_sym, sort_by_perm | exact Hp].
      + constructor.
      + constructor.
      + lia.
      + lia.
    - exists 0; split; [unfold Cons; cbn [init pend allocg mark free res zsum]; lia | left; reflexivity].
  Qed.

  (** the head of a sorted list is a lower bound *)
  Lemma sorted_head {A} key (x : A) l : sorted_by key (x :: l) -> Forall (fun y => key x <= key y) (x :: l).
  Proof. intros [H _]; constructor; [lia | exact H]. Qed.

  Lemma perm_move_res (rs : list U) a ag pd : Permutation (rs ++ (a :: ag) ++ pd) ((a :: rs) ++ ag ++ pd).
  Proof. cbn [app]. apply Permutation_sym, Permutation_middle. Qed.

  Lemma perm_move_alloc key (rs : list U) p ag pd : Permutation (rs ++ ag ++ p :: pd) (rs ++ insert_by key p ag ++ pd).
  Proof.
    apply Permutation_app_head. eapply perm_trans; [apply Permutation_sym, Permutation_middle|].
    change (Permutation ((p :: ag) ++ pd) (insert_by key p ag ++ pd)). apply Permutation_app_tail, insert_by_perm.
  Qed.

  (** *** the advance step *)
  Lemma advance_inv s : Struct s -> Cons s 0 -> cond s = true ->
    (match pend s with p :: _ => running p <> mark s | [] => True end) ->
    (match allocg s with a :: _ => total a <> mark s | [] => True end) ->
    GenInv (advance s).
  Proof.
    intros S C Hc Hp Ha.
    pose proof (st_pend s S) as Fp. pose proof (st_allocg s S) as Fa.
    pose proof (st_sorted_pend s S) as Sp. pose proof (st_sorted_allocg s S) as Sa.
    pose proof (st_res s S) as Fr. pose proof (st_free s S) as Hf. pose proof (st_mark s S) as Hm.
    pose proof (ready_sum_split s S) as Hsplit.
    assert (Hpr : 0 <= zsum ready (pend s)).
    { rewrite <- (zsum_zero (pend s)). apply zsum_le_in. intros x Hx. apply (struct_in_pend s x S Hx). }
    assert (Hres : zsum snd (res s) = zsum (fun ux => ready (fst ux)) (res s)).
    { apply zsum_ext_in. intros ux Hin. rewrite Forall_forall in Fr. apply (Fr ux Hin). }
    unfold Model.cond in Hc. apply andb_true_iff in Hc. destruct Hc as [Hfpos Hne]. apply Z.gtb_lt in Hfpos.
    (* the allocation target is a lower bound of both sets and at least the mark *)
    assert (Hal : mark s <= allocation_of s /\ Forall (fun p => allocation_of s <= running p) (pend s)
                  /\ Forall (fun a => allocation_of s <= total a) (allocg s)
                  /\ (allocation_of s = mark s -> pend s = [] /\ allocg s = [])).
    { unfold Model.allocation_of. destruct (pend s) as [|p pd] eqn:Epd; destruct (allocg s) as [|a ag] eqn:Eag.
      - split; [lia|]. split; [constructor|]. split; [constructor|]. intros _; split; reflexivity.
      - pose proof (sorted_head total a ag Sa) as H. inversion Fa as [|? ? Ha1 _]; subst.
        split; [lia|]. split; [constructor|]. split; [exact H|]. intros E; exfalso; apply Ha; exact E.
      - pose proof (sorted_head running p pd Sp) as H. inversion Fp as [|? ? Hp1 _]; subst.
        split; [lia|]. split; [exact H|]. split; [constructor|]. intros E; exfalso; apply Hp; exact E.
      - pose proof (sorted_head running p pd Sp) as H1. pose proof (sorted_head total a ag Sa) as H2.
        inversion Fp as [|? ? Hp1 _]; inversion Fa as [|? ? Ha1 _]; subst.
        split; [lia|]. split; [|split].
        + eapply Forall_impl; [|exact H1]. cbn beta. intros; lia.
        + eapply Forall_impl; [|exact H2]. cbn beta. intros; lia.
        + intros E; exfalso. destruct (Z.min_spec (running p) (total a)) as [[? E']|[? E']]; lia. }
    destruct Hal as (Hge & Hlp & Hla & _).
    set (al := allocation_of s) in *. set (n := Z.of_nat (length (allocg s))).
    (* the cost of raising the mark to [al] is covered by the demand of the allocating users *)
    assert (Hcost : zsum (fun a => mark s - running a) (allocg s) + n * (al - mark s) <= zsum ready (allocg s)).
    { rewrite <- (zsum_shift running (mark s) al). apply zsum_le_in. intros a Hin.
      rewrite Forall_forall in Hla. specialize (Hla a Hin). unfold Model.total in Hla. lia. }
    unfold Model.advance. fold al. fold n.
    destruct (n * (al - mark s) >? free s) eqn:Ecost.
    - (* break: not enough free cores to reach [al] *)
      apply Z.gtb_lt in Ecost.
      assert (Hn : 0 < n) by nia.
      pose proof (int_div_plus_half_bounds (free s) n Hfpos Hn) as (Hr0 & Hr1 & Hr2).
      set (r := int_div_plus_half (free s) n) in *.
      assert (Hrd : r <= al - mark s) by nia.
      split.
      + refine (mkStruct _ _ _ _ _ _ _ _ _); cbn [pend allocg mark free res].
        * apply S.
        * apply S.
        * apply S.
        * eapply Forall_impl; [|exact Hlp]. cbn beta; intros; lia.
        * rewrite Forall_forall in Fa, Hla |- *. intros a Hin. specialize (Fa a Hin); specialize (Hla a Hin). lia.
        * eapply Forall_impl; [|exact Fr]. cbn beta; intros ux [? ?]; split; [assumption | lia].
        * lia.
        * lia.
      + exists (2 * (n * r) - 2 * free s). split.
        * unfold Cons in *; cbn [pend allocg mark free res].
          rewrite (zsum_shift running (mark s) (mark s + r)). fold n. lia.
        * right; cbn [pend allocg mark free res]. split; [reflexivity|]. fold n. split; [lia|]. split.
          -- intros Hk. assert (0 < r) by nia.
             rewrite Forall_forall in Fa |- *. intros a Hin. specialize (Fa a Hin). lia.
          -- unfold Cons in C. lia.
    - (* the mark is raised to [al] *)
      assert (Hle : n * (al - mark s) <= free s) by lia.
      split.
      + refine (mkStruct _ _ _ _ _ _ _ _ _); cbn [pend allocg mark free res].
        * apply S.
        * apply S.
        * apply S.
        * exact Hlp.
        * rewrite Forall_forall in Fa, Hla |- *. intros a Hin. specialize (Fa a Hin); specialize (Hla a Hin). lia.
        * eapply Forall_impl; [|exact Fr]. cbn beta; intros ux [? ?]; split; [assumption | lia].
        * lia.
        * lia.
      + exists 0. split; [|left; reflexivity].
        unfold Cons in *; cbn [pend allocg mark free res].
        rewrite (zsum_shift running (mark s) al). fold n. lia.
  Qed.

  (** *** one iteration *)
  Lemma finish_user_inv s a ag : Struct s -> Cons s 0 -> allocg s = a :: ag -> total a = mark s ->
    GenInv (mkState (pend s) ag (mark s) (free s) (allocate running (mark s) a :: res s)).
  Proof.
    intros S C Eag Ea.
    pose proof (st_allocg s S) as Fa. pose proof (st_sorted_allocg s S) as Sa. pose proof (st_perm s S) as P.
    rewrite Eag in Fa, Sa, P. inversion Fa as [|? ? Ha1 Ha2]; subst.
    assert (Hal : allocate running (mark s) a = (a, ready a)).
    { unfold allocate. rewrite int_plus_half_nonneg by lia. f_equal. unfold Model.total in Ea. lia. }
    rewrite Hal. split.
    - refine (mkStruct _ _ _ _ _ _ _ _ _); cbn [pend allocg mark free res].
      + cbn [map fst]. eapply perm_trans; [exact P|]. apply perm_move_res.
      + apply S.
      + apply Sa.
      + apply S.
      + exact Ha2.
      + constructor; [cbn [fst snd]; split; [reflexivity | lia] | apply S].
      + apply S.
      + apply S.
    - exists 0; split; [|left; reflexivity].
      unfold Cons in *. rewrite Eag in C. cbn [pend allocg mark free res zsum snd] in *.
      unfold Model.total in Ea. lia.
  Qed.

  Lemma start_user_inv s p pd : Struct s -> Cons s 0 -> pend s = p :: pd -> running p = mark s ->
    GenInv (mkState pd (insert_by total p (allocg s)) (mark s) (free s) (res s)).
  Proof.
    intros S C Epd Ep.
    pose proof (st_pend s S) as Fp. pose proof (st_sorted_pend s S) as Sp. pose proof (st_perm s S) as P.
    assert (Hp : 0 <= running p /\ 0 <= ready p) by (apply (struct_in_pend s p S); rewrite Epd; left; reflexivity).
    rewrite Epd in Fp, Sp, P. inversion Fp as [|? ? Hp1 Hp2]; subst.
    split.
    - refine (mkStruct _ _ _ _ _ _ _ _ _); cbn [pend allocg mark free res].
      + eapply perm_trans; [exact P|]. apply perm_move_alloc.
      + apply Sp.
      + apply insert_by_sorted. apply S.
      + exact Hp2.
      + eapply Permutation_Forall; [apply insert_by_perm|]. constructor; [unfold Model.total; lia | apply S].
      + apply S.
      + apply S.
      + apply S.
    - exists 0; split; [|left; reflexivity].
      unfold Cons in *; cbn [pend allocg mark free res] in *.
      rewrite <- (zsum_perm _ _ _ (insert_by_perm total p (allocg s))). cbn [zsum]. lia.
  Qed.

  Lemma step_inv s : GenInv s -> cond s = true -> GenInv (step s).
  Proof.
    intros [S (k & C & K)] Hc.
    assert (k = 0) as ->.
    { destruct K as [->|(F0 & _)]; [reflexivity|].
      unfold Model.cond in Hc. rewrite F0 in Hc. cbn in Hc. discriminate. }
    unfold Model.step.
    destruct (pend s) as [|p pd] eqn:Epd.
    - unfold Model.try_finish_user.
      destruct (allocg s) as [|a ag] eqn:Eag.
      + apply advance_inv; try assumption; rewrite ?Epd, ?Eag; exact I.
      + destruct (total a =? mark s) eqn:Ea.
        * apply Z.eqb_eq in Ea. apply finish_user_inv; assumption.
        * apply Z.eqb_neq in Ea. apply advance_inv; try assumption; rewrite ?Epd, ?Eag; [exact I | exact Ea].
    - destruct (running p =? mark s) eqn:Ep.
      + apply Z.eqb_eq in Ep. apply start_user_inv; assumption.
      + apply Z.eqb_neq in Ep.
        unfold Model.try_finish_user.
        destruct (allocg s) as [|a ag] eqn:Eag.
        * apply advance_inv; try assumption; rewrite ?Epd, ?Eag; [exact Ep | exact I].
        * destruct (total a =? mark s) eqn:Ea.
          -- apply Z.eqb_eq in Ea. apply finish_user_inv; assumption.
          -- apply Z.eqb_neq in Ea. apply advance_inv; try assumption; rewrite ?Epd, ?Eag; [exact Ep | exact Ea].
  Qed.

  Lemma run_inv : forall fuel s s', GenInv s -> run fuel s = Some s' -> GenInv s' /\ cond s' = false.
  Proof.
    induction fuel as [|fuel IH]; intros s s' G H; [discriminate|].
    cbn [Model.run] in H. destruct (cond s) eqn:Hc.
    - apply (IH (step s) s' (step_inv s G Hc) H).
    - inversion H; subst. split; assumption.
  Qed.
End Inv.
