(** C11: proofs about the water-filling model. *)
From HailV Require Import Common.Prelude FairShare.Model.
From Coq Require Import Permutation.
Open Scope Z_scope.

(** * rounding helpers *)
Lemma int_plus_half_nonneg k : 0 <= k -> int_plus_half k = k.
Proof. intros H; unfold int_plus_half. lia. Qed.

Lemma int_div_plus_half_bounds a n : 0 < a -> 0 < n ->
  let r := int_div_plus_half a n in 0 <= r /\ 2 * (n * r) <= 2 * a + n < 2 * (n * r) + 2 * n.
Proof.
  intros Ha Hn r; subst r; unfold int_div_plus_half.
  rewrite Z.quot_div_nonneg by lia.
  pose proof (Z.div_mod (2 * a + n) (2 * n) ltac:(lia)) as E.
  pose proof (Z.mod_pos_bound (2 * a + n) (2 * n) ltac:(lia)) as B.
  assert (0 <= (2 * a + n) / (2 * n)) by (apply Z.div_pos; lia).
  split; [assumption|]. nia.
Qed.

(** * list helpers *)
Lemma zsum_perm {A} (f : A -> Z) l1 l2 : Permutation l1 l2 -> zsum f l1 = zsum f l2.
Proof. induction 1; cbn [zsum]; lia. Qed.

Lemma zsum_map {A B} (g : A -> B) (f : B -> Z) l : zsum f (map g l) = zsum (fun x => f (g x)) l.
Proof. induction l as [|x l IH]; cbn [zsum map]; [reflexivity | rewrite IH; reflexivity]. Qed.

Lemma zsum_ext_in {A} (f g : A -> Z) l : (forall x, In x l -> f x = g x) -> zsum f l = zsum g l.
Proof.
  induction l as [|x l IH]; intros H; cbn [zsum]; [reflexivity|].
  rewrite (H x (or_introl eq_refl)), IH; [reflexivity | intros y Hy; apply H; right; exact Hy].
Qed.

Lemma zsum_le_in {A} (f g : A -> Z) l : (forall x, In x l -> f x <= g x) -> zsum f l <= zsum g l.
Proof.
  induction l as [|x l IH]; intros H; cbn [zsum]; [lia|].
  pose proof (H x (or_introl eq_refl)). specialize (IH (fun y Hy => H y (or_intror Hy))). lia.
Qed.

Lemma zsum_shift {A} (r : A -> Z) (m m' : Z) l :
  zsum (fun a => m' - r a) l = zsum (fun a => m - r a) l + Z.of_nat (length l) * (m' - m).
Proof. induction l as [|x l IH]; cbn [zsum length]; [lia | rewrite IH; lia]. Qed.

Lemma zsum_zero {A} (l : list A) : zsum (fun _ => 0) l = 0.
Proof. induction l; cbn [zsum]; lia. Qed.

(** pointwise <= and sum >= force pointwise equality *)
Lemma zsum_pointwise_eq {A} (f g : A -> Z) l :
  (forall x, In x l -> f x <= g x) -> zsum g l <= zsum f l -> forall x, In x l -> f x = g x.
Proof.
  induction l as [|y l IH]; intros Hle Hs x Hx; [destruct Hx|].
  cbn [zsum] in Hs.
  pose proof (Hle y (or_introl eq_refl)) as Hy.
  pose proof (zsum_le_in f g l (fun z Hz => Hle z (or_intror Hz))) as Hl.
  destruct Hx as [->|Hx]; [lia|].
  apply IH; [intros z Hz; apply Hle; right; exact Hz | lia | exact Hx].
Qed.

Fixpoint sorted_by {A} (key : A -> Z) (l : list A) : Prop :=
  match l with [] => True | x :: r => Forall (fun y => key x <= key y) r /\ sorted_by key r end.

Section Sorting.
  Context {U : Type}.

  (** ** insertion *)
  Lemma insert_by_perm key (u : U) l : Permutation (u :: l) (insert_by key u l).
  Proof.
    induction l as [|v l IH]; cbn [insert_by]; [apply Permutation_refl|].
    destruct (key u <? key v); [apply Permutation_refl|].
    eapply perm_trans; [apply perm_swap | apply perm_skip; exact IH].
  Qed.

  Lemma insert_by_length key (u : U) l : length (insert_by key u l) = S (length l).
  Proof. symmetry; apply (Permutation_length (insert_by_perm key u l)). Qed.

  Lemma insert_by_sorted key (u : U) l : sorted_by key l -> sorted_by key (insert_by key u l).
  Proof.
    induction l as [|v l IH]; cbn [insert_by sorted_by]; intros H.
    - split; [constructor | exact I].
    - destruct H as [Hv Hl]. destruct (key u <? key v) eqn:E.
      + cbn [sorted_by]. split; [|split; assumption].
        constructor; [lia|]. rewrite Forall_forall in Hv |- *. intros y Hy. specialize (Hv y Hy). lia.
      + cbn [sorted_by]. split; [|apply IH; exact Hl].
        eapply Permutation_Forall; [apply insert_by_perm|]. constructor; [lia | exact Hv].
  Qed.

  Lemma sort_by_gen key (l : list U) : forall acc, sorted_by key acc ->
    let r := fold_left (fun acc u => insert_by key u acc) l acc in
    sorted_by key r /\ Permutation (l ++ acc) r.
  Proof.
    induction l as [|x l IH]; intros acc Hacc; cbn [fold_left app].
    - split; [exact Hacc | apply Permutation_refl].
    - destruct (IH (insert_by key x acc) (insert_by_sorted key x acc Hacc)) as [Hs Hp].
      split; [exact Hs|]. eapply perm_trans; [|exact Hp].
      eapply perm_trans; [apply Permutation_middle|]. apply Permutation_app_head. apply insert_by_perm.
  Qed.

  Lemma sort_by_sorted key (l : list U) : sorted_by key (sort_by key l).
  Proof. apply (sort_by_gen key l [] I). Qed.

  Lemma sort_by_perm key (l : list U) : Permutation l (sort_by key l).
  Proof. pose proof (proj2 (sort_by_gen key l [] I)) as H. rewrite app_nil_r in H. exact H. Qed.

End Sorting.

Section Proofs.
  Context {U : Type}.
  Variables running ready : U -> Z.
  Notation total := (total running ready).
  Notation state := (@state U).
  Notation step := (step running ready).
  Notation cond := (@cond U).
  Notation run := (run running ready).
  Notation finish := (finish running).
  Notation advance := (advance running ready).
  Notation try_finish_user := (try_finish_user running ready).
  Notation allocation_of := (allocation_of running ready).

  (** ** termination: the fuel handed out by [fair_share] is always enough (no hypothesis on the numbers) *)
  Definition wants_advance (s : state) : bool :=
    cond s
    && match pend s with p :: _ => negb (running p =? mark s) | [] => true end
    && match allocg s with a :: _ => negb (total a =? mark s) | [] => true end.

  Definition measure (s : state) : nat :=
    2 * (2 * length (pend s) + length (allocg s)) + (if wants_advance s then 1 else 0).

  Lemma measure_step s : cond s = true -> (measure (step s) < measure s)%nat.
  Proof.
    destruct s as [pd ag m f rs]; intros Hc.
    unfold measure, step; cbn [pend allocg mark free res].
    assert (Hb : forall b : bool, ((if b then 1 else 0) <= 1)%nat) by (intros []; lia).
    destruct pd as [|p pd'].
    - (* no pending user *)
      unfold try_finish_user; cbn [pend allocg mark free res].
      destruct ag as [|a ag'].
      + unfold Model.cond in Hc; cbn in Hc. rewrite andb_false_r in Hc. discriminate.
      + destruct (total a =? m) eqn:Ea.
        * cbn [pend allocg length]. match goal with |- context [wants_advance ?x] => pose proof (Hb (wants_advance x)) end.
          match goal with |- context [wants_advance ?x] => pose proof (Hb (wants_advance x)) end. lia.
        * (* advance *)
          assert (W : wants_advance (mkState [] (a :: ag') m f rs) = true).
          { unfold wants_advance; cbn [pend allocg mark]. rewrite Hc, Ea. reflexivity. }
          rewrite W. unfold advance, allocation_of; cbn [pend allocg mark free res].
          destruct (_ >? f).
          -- cbn [pend allocg length]. unfold wants_advance, Model.cond; cbn [pend allocg mark free]. cbn. lia.
          -- cbn [pend allocg length]. unfold wants_advance; cbn [pend allocg mark free].
             rewrite Z.eqb_refl. cbn [negb]. rewrite andb_false_r. lia.
    - destruct (running p =? m) eqn:Ep.
      + cbn [pend allocg length]. rewrite insert_by_length.
        match goal with |- context [wants_advance ?x] => pose proof (Hb (wants_advance x)) end. lia.
      + unfold try_finish_user; cbn [pend allocg mark free res].
        destruct ag as [|a ag'].
        * assert (W : wants_advance (mkState (p :: pd') [] m f rs) = true).
          { unfold wants_advance; cbn [pend allocg mark]. rewrite Hc, Ep. reflexivity. }
          rewrite W. unfold advance, allocation_of; cbn [pend allocg mark free res length].
          destruct (_ >? f).
          -- cbn [pend allocg length]. unfold wants_advance, Model.cond; cbn [pend allocg mark free]. cbn. lia.
          -- cbn [pend allocg length]. unfold wants_advance; cbn [pend allocg mark free].
             rewrite Z.eqb_refl. cbn [negb]. rewrite andb_false_r. cbn [andb]. lia.
        * destruct (total a =? m) eqn:Ea.
          -- cbn [pend allocg length].
             match goal with |- context [wants_advance ?x] => pose proof (Hb (wants_advance x)) end. lia.
          -- assert (W : wants_advance (mkState (p :: pd') (a :: ag') m f rs) = true).
             { unfold wants_advance; cbn [pend allocg mark]. rewrite Hc, Ep, Ea. reflexivity. }
             rewrite W. unfold advance, allocation_of; cbn [pend allocg mark free res].
             destruct (_ >? f).
             ++ cbn [pend allocg length]. unfold wants_advance, Model.cond; cbn [pend allocg mark free]. cbn. lia.
             ++ cbn [pend allocg length]. unfold wants_advance; cbn [pend allocg mark free].
                destruct (Z.min_spec (running p) (total a)) as [[_ ->]|[_ ->]]; rewrite Z.eqb_refl; cbn [negb];
                  rewrite ?andb_false_r; cbn [andb]; lia.
  Qed.

  Lemma run_total : forall fuel s, (measure s < fuel)%nat -> exists s', run fuel s = Some s'.
  Proof.
    induction fuel as [|fuel IH]; intros s H; [lia|].
    cbn [Model.run]. destruct (cond s) eqn:Hc; [|eexists; reflexivity].
    apply IH. pose proof (measure_step s Hc). lia.
  Qed.
End Proofs.
