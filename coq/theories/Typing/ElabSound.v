(** C36 — the type the front end reports for an expression is the type its IR implies. *)
From HailV Require Import Common.Prelude Typing.Model Typing.Basics.

Section FeInd.
  Variable P : fe -> Prop.
  Hypothesis HLitInt : forall z, P (ELitInt z).
  Hypothesis HLitFloat : forall q, P (ELitFloat q).
  Hypothesis HLitBool : forall b, P (ELitBool b).
  Hypothesis HLitStr : forall s, P (ELitStr s).
  Hypothesis HArith : forall o a b, P a -> P b -> P (EArith o a b).
  Hypothesis HNeg : forall a, P a -> P (ENeg a).
  Hypothesis HNot : forall a, P a -> P (ENot a).
  Hypothesis HCmp : forall o a b, P a -> P b -> P (ECmp o a b).
  Hypothesis HIf : forall c a b, P c -> P a -> P b -> P (EIf c a b).
  Hypothesis HBind : forall x a b, P a -> P b -> P (EBind x a b).
  Hypothesis HVar : forall x, P (EVar x).
  Hypothesis HStruct : forall fs, Forall (fun nf => P (snd nf)) fs -> P (EStruct fs).
  Hypothesis HField : forall e f, P e -> P (EField e f).
  Hypothesis HAnnotate : forall e fs, P e -> Forall (fun nf => P (snd nf)) fs -> P (EAnnotate e fs).
  Hypothesis HSelect : forall e ks, P e -> P (ESelect e ks).
  Hypothesis HDrop : forall e ks, P e -> P (EDrop e ks).
  Hypothesis HArray : forall es, Forall P es -> P (EArray es).
  Hypothesis HLen : forall e, P e -> P (ELen e).
  Hypothesis HIndex : forall e i, P e -> P i -> P (EIndex e i).
  Hypothesis HMap : forall x a b, P a -> P b -> P (EMap x a b).
  Hypothesis HFilter : forall x a b, P a -> P b -> P (EFilter x a b).
  Hypothesis HFold : forall acc x a z b, P a -> P z -> P b -> P (EFold acc x a z b).
  Hypothesis HTuple : forall es, Forall P es -> P (ETuple es).
  Hypothesis HTupleGet : forall e i, P e -> P (ETupleGet e i).
  Hypothesis HCast : forall t e, P e -> P (ECast t e).
  Hypothesis HStrOf : forall e, P e -> P (EStrOf e).
  Hypothesis HConcat : forall a b, P a -> P b -> P (EConcat a b).
  Hypothesis HInterval : forall a b, P a -> P b -> P (EInterval a b).

  Fixpoint fe_ind' (e : fe) : P e :=
    let go_l := fix go (l : list fe) : Forall P l :=
                  match l with [] => Forall_nil _ | x :: r => Forall_cons x (fe_ind' x) (go r) end in
    let go_f := fix go (l : list (N * fe)) : Forall (fun nf => P (snd nf)) l :=
                  match l with [] => Forall_nil _ | nf :: r => Forall_cons nf (fe_ind' (snd nf)) (go r) end in
    match e with
    | ELitInt z => HLitInt z | ELitFloat q => HLitFloat q | ELitBool b => HLitBool b | ELitStr s => HLitStr s
    | EArith o a b => HArith o a b (fe_ind' a) (fe_ind' b)
    | ENeg a => HNeg a (fe_ind' a) | ENot a => HNot a (fe_ind' a)
    | ECmp o a b => HCmp o a b (fe_ind' a) (fe_ind' b)
    | EIf c a b => HIf c a b (fe_ind' c) (fe_ind' a) (fe_ind' b)
    | EBind x a b => HBind x a b (fe_ind' a) (fe_ind' b)
    | EVar x => HVar x
    | EStruct fs => HStruct fs (go_f fs)
    | EField e f => HField e f (fe_ind' e)
    | EAnnotate e fs => HAnnotate e fs (fe_ind' e) (go_f fs)
    | ESelect e ks => HSelect e ks (fe_ind' e)
    | EDrop e ks => HDrop e ks (fe_ind' e)
    | EArray es => HArray es (go_l es)
    | ELen e => HLen e (fe_ind' e)
    | EIndex e i => HIndex e i (fe_ind' e) (fe_ind' i)
    | EMap x a b => HMap x a b (fe_ind' a) (fe_ind' b)
    | EFilter x a b => HFilter x a b (fe_ind' a) (fe_ind' b)
    | EFold acc x a z b => HFold acc x a z b (fe_ind' a) (fe_ind' z) (fe_ind' b)
    | ETuple es => HTuple es (go_l es)
    | ETupleGet e i => HTupleGet e i (fe_ind' e)
    | ECast t e => HCast t e (fe_ind' e)
    | EStrOf e => HStrOf e (fe_ind' e)
    | EConcat a b => HConcat a b (fe_ind' a) (fe_ind' b)
    | EInterval a b => HInterval a b (fe_ind' a) (fe_ind' b)
    end.
End FeInd.

(** conversions *)
Lemma coerce_sound g x t0 r0 r :
  ir_type g x = Some t0 -> rank t0 = Some r0 -> (r0 <= r)%nat -> (r <= 4)%nat ->
  ir_type g (coerce (of_rank r) (t0, x)) = Some (of_rank r).
Proof.
  intros Hx Hr Hle H4. unfold coerce; cbn [fst snd].
  destruct (ty_eqb t0 (of_rank r)) eqn:E; [apply ty_eqb_eq in E; subst; exact Hx|].
  assert (Hne : r0 <> r).
  { intro; subst r0. rewrite (rank_of_rank _ _ Hr), ty_eqb_refl in E. discriminate. }
  assert (Hn : is_numeric t0 = true) by (apply is_numeric_rank; eauto).
  cbn [ir_type map all_some]. rewrite Hx. cbn [option_map all_some].
  destruct r as [|[|[|[|[|r]]]]]; try (exfalso; lia); cbn [of_rank to_fn sig_ok];
    (destruct (is_numeric t0); [rewrite ty_eqb_refl; reflexivity | discriminate Hn]).
Qed.

Lemma all_eq_spec t l : all_eq t l = true <-> forall x, In x l -> x = t.
Proof.
  induction l as [|y l IH]; cbn; [split; [intros _ x [] | reflexivity]|].
  rewrite andb_true_iff, ty_eqb_eq, IH. split.
  - intros [E H] x [Hx|Hx]; [congruence | apply H; exact Hx].
  - intro H; split; [apply H; left; reflexivity | intros x Hx; apply H; right; exact Hx].
Qed.

Lemma max_rank_ge ts r : max_rank ts = Some r ->
  (r <= 4)%nat /\ forall t, In t ts -> exists ri, rank t = Some ri /\ (ri <= r)%nat.
Proof.
  revert r; induction ts as [|t ts IH]; intros r H.
  - cbn in H. inversion H; subst. split; [lia | intros t []].
  - change (max_rank (t :: ts)) with (match rank t, max_rank ts with Some r, Some m => Some (Nat.max r m) | _, _ => None end) in H.
    destruct (rank t) as [rt|] eqn:Et; [|discriminate H]. destruct (max_rank ts) as [m|] eqn:Em; [|discriminate H].
    inversion H; subst. destruct (IH m eq_refl) as [I1 I2]. pose proof (rank_le4 _ _ Et). split; [lia|].
    intros t' [E|Hin]; [subst; exists rt; split; [exact Et | lia]|].
    destruct (I2 t' Hin) as [ri [R1 R2]]. exists ri; split; [exact R1 | lia].
Qed.

Lemma unify_sound g txs t xs :
  unify txs = Some (t, xs) -> Forall (fun tx => ir_type g (snd tx) = Some (fst tx)) txs ->
  Forall (fun x => ir_type g x = Some t) xs /\ length xs = length txs /\ txs <> [].
Proof.
  intros H0 HF. destruct txs as [|[t0 x0] txs']; [discriminate|].
  remember ((t0, x0) :: txs') as txs eqn:EL.
  assert (H : (if all_eq t0 (map fst txs) then Some (t0, map snd txs)
               else match max_rank (map fst txs) with
                    | Some r => Some (of_rank r, map (coerce (of_rank r)) txs)
                    | None => None
                    end) = Some (t, xs)) by (subst txs; exact H0).
  assert (Hne : txs <> []) by (subst txs; discriminate).
  clear H0 EL.
  destruct (all_eq t0 (map fst txs)) eqn:Ea.
  - inversion H; subst. split; [|split; [apply map_length | exact Hne]].
    rewrite Forall_forall in *. intros x Hx. apply in_map_iff in Hx. destruct Hx as [[t1 x1] [E Hin]]. cbn in E; subst x1.
    specialize (HF _ Hin). cbn in HF. rewrite HF. f_equal.
    rewrite all_eq_spec in Ea. apply Ea. apply (in_map fst) in Hin. exact Hin.
  - destruct (max_rank (map fst txs)) as [r|] eqn:Em; [|discriminate]. inversion H; subst.
    destruct (max_rank_ge _ _ Em) as [H4 Hr]. split; [|split; [apply map_length | exact Hne]].
    rewrite Forall_forall in *. intros x Hx. apply in_map_iff in Hx. destruct Hx as [[t1 x1] [E Hin]]. subst x.
    destruct (Hr t1) as [ri [R1 R2]]; [apply (in_map fst) in Hin; exact Hin|].
    eapply coerce_sound; eauto. apply (HF _ Hin).
Qed.

Lemma unify2_sound g ta xa tb xb t ya yb :
  unify [(ta, xa); (tb, xb)] = Some (t, [ya; yb]) -> ir_type g xa = Some ta -> ir_type g xb = Some tb ->
  ir_type g ya = Some t /\ ir_type g yb = Some t.
Proof.
  intros H Ha Hb. destruct (unify_sound g _ _ _ H) as [HF _].
  - repeat constructor; assumption.
  - inversion HF as [|? ? F1 HF']; subst. inversion HF' as [|? ? F2 _]; subst. auto.
Qed.

(** the element-wise part of the induction *)
Lemma elab_list_sound g (es : list fe) txs :
  Forall (fun e => forall g t x, elab g e = Some (t, x) -> ir_type g x = Some t) es ->
  all_some (map (elab g) es) = Some txs ->
  Forall (fun tx => ir_type g (snd tx) = Some (fst tx)) txs /\
  all_some (map (ir_type g) (map snd txs)) = Some (map fst txs).
Proof.
  revert txs; induction es as [|e es IH]; intros txs HF H; cbn [map] in H.
  - cbn in H; inversion H; subst. split; [constructor | reflexivity].
  - apply all_some_cons in H. destruct H as [[t x] [txs' [E1 [E2 E3]]]]. subst txs.
    inversion HF as [|? ? He Hes]; subst. destruct (IH txs' Hes E2) as [I1 I2].
    pose proof (He g t x E1) as Hx. split; [constructor; assumption|].
    cbn [map all_some fst snd]. rewrite Hx, I2. reflexivity.
Qed.
Lemma elab_fields_sound g (fs : list (N * fe)) txs :
  Forall (fun nf => forall g t x, elab g (snd nf) = Some (t, x) -> ir_type g x = Some t) fs ->
  all_some (map (fun nf => elab g (snd nf)) fs) = Some txs ->
  all_some (map (fun nf : N * ir => ir_type g (snd nf)) (combine (map fst fs) (map snd txs))) = Some (map fst txs) /\
  length txs = length fs.
Proof.
  revert txs; induction fs as [|[n e] fs IH]; intros txs HF H; cbn [map] in H.
  - cbn in H; inversion H; subst. split; reflexivity.
  - apply all_some_cons in H. destruct H as [[t x] [txs' [E1 [E2 E3]]]]. subst txs.
    inversion HF as [|? ? He Hes]; subst. destruct (IH txs' Hes E2) as [I1 I2]. cbn [snd] in He, E1.
    pose proof (He g t x E1) as Hx. split; [|cbn; lia].
    cbn [map combine all_some fst snd]. rewrite Hx, I1. reflexivity.
Qed.

Lemma combine_map_fst {A B} (l : list A) (l' : list B) : length l = length l' -> map fst (combine l l') = l.
Proof. revert l'; induction l as [|a l IH]; intros [|b l'] H; cbn in *; try discriminate; [reflexivity | f_equal; apply IH; lia]. Qed.

(** struct field access shortcuts *)
Lemma makestruct_field g xs ts f t dflt :
  ir_type g (MakeStruct xs) = Some (TStruct ts) -> lookup_ty ts f = Some t ->
  ir_type g ((fix find (l : list (N * ir)) : ir :=
                match l with [] => dflt | (k, v) :: r => if N.eqb k f then v else find r end) xs) = Some t.
Proof.
  cbn [ir_type]. destruct (nodupN (map fst xs)); [|discriminate].
  destruct (all_some (map (fun nf : N * ir => ir_type g (snd nf)) xs)) as [tys|] eqn:Ea; [|discriminate].
  intro H; inversion H; subst ts. clear H.
  revert tys Ea. induction xs as [|[k v] xs IH]; intros tys Ea Hl; cbn [map] in Ea.
  - cbn in Ea. inversion Ea; subst. cbn in Hl. discriminate.
  - apply all_some_cons in Ea. destruct Ea as [tv [tys' [E1 [E2 E3]]]]. subst tys. cbn [map fst combine lookup_ty] in Hl.
    destruct (N.eqb k f) eqn:E; [cbn [snd] in E1; congruence|]. eapply IH; eauto.
Qed.

Lemma to_stream_cases x : to_stream x = ToStream x \/ exists s, x = ToArray s /\ to_stream x = s.
Proof. destruct x; try (left; reflexivity). right; eexists; split; reflexivity. Qed.

Lemma to_stream_sound g x t : ir_type g x = Some (TArr t) -> ir_type g (to_stream x) = Some (TStream t).
Proof.
  intro H. destruct (to_stream_cases x) as [E|[s [E1 E2]]].
  - rewrite E. cbn [ir_type]. rewrite H. reflexivity.
  - rewrite E2. subst x. cbn [ir_type] in H. destruct (ir_type g s) as [[]|]; try discriminate H. inversion H; subst. reflexivity.
Qed.

Ltac dmatch H :=
  repeat match type of H with
         | match ?X with _ => _ end = _ =>
             let E := fresh "E" in destruct X eqn:E; try discriminate H
         | (if ?X then _ else _) = _ =>
             let E := fresh "E" in destruct X eqn:E; try discriminate H
         end.

Ltac use_ih :=
  repeat match goal with
         | IH : forall g t x, elab g ?e = Some (t, x) -> ir_type g x = Some t, E : elab ?g ?e = Some (?t, ?x) |- _ =>
             let Hx := fresh "Hx" in pose proof (IH g t x E) as Hx; clear E
         end.

Lemma rank_numeric_S r : (r <= 4)%nat -> exists k, rank (of_rank (up1 r)) = Some (S k).
Proof. intro H. unfold up1. destruct r as [|[|[|[|[|r]]]]]; try (exfalso; lia); cbn; eauto. Qed.

Theorem elab_sound : forall e g t x, elab g e = Some (t, x) -> ir_type g x = Some t.
Proof.
  induction e using fe_ind'; intros g tr xr Heq; cbn [elab] in Heq.
  - (* ELitInt *) dmatch Heq; inversion Heq; subst; reflexivity.
  - inversion Heq; subst; reflexivity.
  - inversion Heq; subst; destruct b; reflexivity.
  - inversion Heq; subst; reflexivity.
  - (* EArith *)
    destruct (elab g e1) as [[ta xa]|] eqn:Ea; [|discriminate Heq]. destruct (elab g e2) as [[tb xb]|] eqn:Eb; [|discriminate Heq].
    destruct (rank ta) as [ra|] eqn:Ra; [|discriminate Heq]. destruct (rank tb) as [rb|] eqn:Rb; [|discriminate Heq].
    destruct (arith_ty o (of_rank (up1 (Nat.max ra rb)))) as [ret|] eqn:Et; [|discriminate Heq].
    inversion Heq; subst. clear Heq. use_ih.
    pose proof (rank_le4 _ _ Ra). pose proof (rank_le4 _ _ Rb).
    cbn [ir_type].
    rewrite (coerce_sound g xa ta ra (up1 (Nat.max ra rb))) by (unfold up1; auto; lia).
    rewrite (coerce_sound g xb tb rb (up1 (Nat.max ra rb))) by (unfold up1; auto; lia).
    rewrite ty_eqb_refl. exact Et.
  - (* ENeg *)
    destruct (elab g e) as [[ta xa]|] eqn:Ea; [|discriminate Heq]. destruct (rank ta) as [ra|] eqn:Ra; [|discriminate Heq].
    inversion Heq; subst. clear Heq. use_ih. pose proof (rank_le4 _ _ Ra).
    cbn [ir_type]. rewrite (coerce_sound g xa ta ra (up1 ra)) by (unfold up1; auto; lia).
    destruct (rank_numeric_S ra) as [k Ek]; [lia|]. rewrite Ek. reflexivity.
  - (* ENot *)
    destruct (elab g e) as [[ta xa]|] eqn:Ea; [|discriminate Heq]. destruct ta; try discriminate Heq.
    inversion Heq; subst. use_ih. cbn [ir_type]. rewrite Hx. reflexivity.
  - (* ECmp *)
    destruct (elab g e1) as [[ta xa]|] eqn:Ea; [|discriminate Heq]. destruct (elab g e2) as [[tb xb]|] eqn:Eb; [|discriminate Heq].
    pose proof (IHe1 g ta xa Ea) as Ha. pose proof (IHe2 g tb xb Eb) as Hb.
    set (BU := match unify [(ta, xa); (tb, xb)] with
               | Some (_, [ya; yb]) => Some (TBool, CmpOp o ya yb)
               | _ => None end) in Heq.
    assert (Hun : forall r, BU = Some r -> ir_type g (snd r) = Some (fst r)).
    { subst BU. intros r Hr. destruct (unify [(ta, xa); (tb, xb)]) as [[tu [|ya [|yb [|? ?]]]]|] eqn:Eu; try discriminate Hr.
      inversion Hr; subst. destruct (unify2_sound g _ _ _ _ _ _ _ Eu Ha Hb) as [U1 U2].
      cbn [fst snd ir_type]. rewrite U1, U2, ty_eqb_refl. reflexivity. }
    clearbody BU.
    assert (Hord : match rank ta with
                   | Some ra =>
                       match rank tb with
                       | Some rb =>
                           Some (TBool, CmpOp o (coerce (of_rank (up1 (Nat.max ra rb))) (ta, xa))
                                          (coerce (of_rank (up1 (Nat.max ra rb)))
                                             (if ty_eqb tb TBool then (TI32, coerce TI32 (tb, xb)) else (tb, xb))))
                       | None => None
                       end
                   | None => BU
                   end = Some (tr, xr) -> ir_type g xr = Some tr).
    { intro Ho. destruct (rank ta) as [ra|] eqn:Ra; [|apply (Hun (tr, xr)); exact Ho].
      destruct (rank tb) as [rb|] eqn:Rb; [|discriminate Ho]. inversion Ho; subst. clear Ho.
      pose proof (rank_le4 _ _ Ra). pose proof (rank_le4 _ _ Rb).
      cbn [ir_type].
      rewrite (coerce_sound g xa ta ra (up1 (Nat.max ra rb))) by (unfold up1; auto; lia).
      destruct (ty_eqb tb TBool) eqn:Eb0.
      - apply ty_eqb_eq in Eb0; subst tb. cbn in Rb. inversion Rb; subst rb.
        assert (Hi : ir_type g (coerce TI32 (TBool, xb)) = Some TI32) by (apply (coerce_sound g xb TBool 0 1); auto; lia).
        rewrite (coerce_sound g (coerce TI32 (TBool, xb)) TI32 1 (up1 (Nat.max ra 0))) by (unfold up1; auto; lia).
        rewrite ty_eqb_refl; reflexivity.
      - rewrite (coerce_sound g xb tb rb (up1 (Nat.max ra rb))) by (unfold up1; auto; lia).
        rewrite ty_eqb_refl; reflexivity. }
    destruct o; try (apply Hord; exact Heq); apply (Hun (tr, xr)); exact Heq.
  - (* EIf *)
    destruct (elab g e1) as [[tc xc]|] eqn:Ec; [|discriminate Heq]. destruct tc; try discriminate Heq.
    destruct (elab g e2) as [[ta xa]|] eqn:Ea; [|discriminate Heq]. destruct (elab g e3) as [[tb xb]|] eqn:Eb; [|discriminate Heq].
    destruct (unify [(ta, xa); (tb, xb)]) as [[tu [|ya [|yb [|? ?]]]]|] eqn:Eu; try discriminate Heq.
    inversion Heq; subst.
    pose proof (IHe1 _ _ _ Ec) as Hc. pose proof (IHe2 _ _ _ Ea) as Ha. pose proof (IHe3 _ _ _ Eb) as Hb.
    destruct (unify2_sound g _ _ _ _ _ _ _ Eu Ha Hb) as [U1 U2].
    cbn [ir_type]. rewrite Hc, U1, U2, ty_eqb_refl. reflexivity.
  - (* EBind *)
    destruct (elab g e1) as [[ta xa]|] eqn:Ea; [|discriminate Heq].
    destruct (elab ((x, ta) :: g) e2) as [[tb xb]|] eqn:Eb; [|discriminate Heq].
    inversion Heq; subst. pose proof (IHe1 _ _ _ Ea) as Ha. pose proof (IHe2 _ _ _ Eb) as Hb.
    cbn [ir_type]. rewrite Ha. exact Hb.
  - (* EVar *)
    destruct (lookup_ty g x) as [tv|] eqn:El; [|discriminate Heq]. inversion Heq; subst.
    cbn [ir_type]. rewrite El, ty_eqb_refl. reflexivity.
  - (* EStruct *)
    destruct (nodupN (map fst fs)) eqn:Nd; [|discriminate Heq].
    destruct (all_some (map (fun nf => elab g (snd nf)) fs)) as [txs|] eqn:Ea; [|discriminate Heq].
    inversion Heq; subst. clear Heq.
    destruct (elab_fields_sound g fs txs H Ea) as [F1 F2].
    cbn [ir_type]. rewrite combine_map_fst by (rewrite !map_length; lia). rewrite Nd, F1. reflexivity.
  - (* EField *)
    destruct (elab g e) as [[te xe]|] eqn:Ee; [|discriminate Heq]. destruct te; try discriminate Heq.
    destruct (lookup_ty fs f) as [tf|] eqn:El; [|discriminate Heq]. inversion Heq; subst. clear Heq. use_ih.
    assert (Hg : ir_type g (GetField xe f) = Some tr) by (cbn [ir_type]; rewrite Hx; exact El).
    destruct xe; try exact Hg.
    + eapply makestruct_field; eauto.
    + (* SelectFields *)
      cbn [ir_type] in Hx. destruct (ir_type g xe) as [[]|] eqn:Eo; try discriminate Hx.
      destruct (nodupN fs0); [|discriminate Hx]. destruct (select_fields fs1 fs0) as [sel|] eqn:Es; [|discriminate Hx].
      cbn in Hx. inversion Hx; subst. cbn [ir_type]. rewrite Eo. eapply select_lookup; eauto.
  - (* EAnnotate *)
    destruct (elab g e) as [[te xe]|] eqn:Ee; [|discriminate Heq]. destruct te; try discriminate Heq.
    destruct (nodupN (map fst fs)) eqn:Nd; [|discriminate Heq].
    destruct (all_some (map (fun nf => elab g (snd nf)) fs)) as [txs|] eqn:Ea; [|discriminate Heq].
    destruct (2 <=? length (filter is_getfield_nonref (map snd txs)))%nat; [discriminate Heq|].
    inversion Heq; subst. clear Heq. use_ih.
    destruct (elab_fields_sound g fs txs H Ea) as [F1 F2].
    cbn [ir_type]. rewrite Hx, F1. rewrite combine_map_fst by (rewrite !map_length; lia). reflexivity.
  - (* ESelect *)
    destruct (elab g e) as [[te xe]|] eqn:Ee; [|discriminate Heq]. destruct te; try discriminate Heq.
    destruct (nodupN ks) eqn:Nd; [|discriminate Heq]. destruct (select_fields fs ks) as [sel|] eqn:Es; [|discriminate Heq].
    inversion Heq; subst. use_ih. cbn [ir_type]. rewrite Hx, Nd, Es. reflexivity.
  - (* EDrop *)
    destruct (elab g e) as [[te xe]|] eqn:Ee; [|discriminate Heq]. destruct te; try discriminate Heq.
    destruct (forallb (fun k => existsb (N.eqb k) (map fst fs)) ks && nodupN (map fst fs)) eqn:Ec; [|discriminate Heq].
    destruct (select_fields fs (filter (fun k => negb (existsb (N.eqb k) ks)) (map fst fs))) as [sel|] eqn:Es; [|discriminate Heq].
    inversion Heq; subst. use_ih. apply andb_true_iff in Ec. destruct Ec as [_ Nd].
    cbn [ir_type]. rewrite Hx, (nodupN_filter _ _ Nd), Es. reflexivity.
  - (* EArray *)
    destruct (all_some (map (elab g) es)) as [txs|] eqn:Ea; [|discriminate Heq].
    destruct (unify txs) as [[tu xs]|] eqn:Eu; [|discriminate Heq]. inversion Heq; subst. clear Heq.
    destruct (elab_list_sound g es txs H Ea) as [F1 _].
    destruct (unify_sound g txs tu xs Eu F1) as [U1 [U2 U3]].
    cbn [ir_type].
    assert (Hall : all_some (map (ir_type g) xs) = Some (map (fun _ => tu) xs)).
    { clear - U1. induction xs as [|y ys IH]; [reflexivity|]. inversion U1; subst. cbn. rewrite H1, IH by assumption. reflexivity. }
    rewrite Hall. destruct xs as [|y ys]; [destruct txs; [congruence | discriminate U2]|].
    cbn [map]. assert (Heq : all_eq tu (map (fun _ => tu) ys) = true).
    { apply all_eq_spec. intros z Hz. apply in_map_iff in Hz. destruct Hz as [? [E _]]. congruence. }
    rewrite Heq. reflexivity.
  - (* ELen *)
    destruct (elab g e) as [[te xe]|] eqn:Ee; [|discriminate Heq]. destruct te; try discriminate Heq.
    inversion Heq; subst. use_ih. cbn [ir_type]. rewrite Hx. reflexivity.
  - (* EIndex *)
    destruct (elab g e1) as [[te xe]|] eqn:Ee; [|discriminate Heq]. destruct te; try discriminate Heq.
    destruct (elab g e2) as [[ti xi]|] eqn:Ei; [|discriminate Heq]. destruct ti; try discriminate Heq.
    inversion Heq; subst. pose proof (IHe1 _ _ _ Ee) as Ha. pose proof (IHe2 _ _ _ Ei) as Hb.
    cbn [ir_type map all_some]. rewrite Ha, Hb. cbn [option_map sig_ok].
    rewrite ty_eqb_refl. reflexivity.
  - (* EMap *)
    destruct (elab g e1) as [[ta xa]|] eqn:Ea; [|discriminate Heq]. destruct ta; try discriminate Heq.
    destruct (elab ((x, ta) :: g) e2) as [[tb xb]|] eqn:Eb; [|discriminate Heq].
    inversion Heq; subst. pose proof (IHe1 _ _ _ Ea) as Ha. pose proof (IHe2 _ _ _ Eb) as Hb.
    cbn [ir_type]. rewrite (to_stream_sound _ _ _ Ha), Hb. reflexivity.
  - (* EFilter *)
    destruct (elab g e1) as [[ta xa]|] eqn:Ea; [|discriminate Heq]. destruct ta; try discriminate Heq.
    destruct (elab ((x, ta) :: g) e2) as [[tb xb]|] eqn:Eb; [|discriminate Heq]. destruct tb; try discriminate Heq.
    inversion Heq; subst. pose proof (IHe1 _ _ _ Ea) as Ha. pose proof (IHe2 _ _ _ Eb) as Hb.
    cbn [ir_type]. rewrite (to_stream_sound _ _ _ Ha), Hb. reflexivity.
  - (* EFold *)
    destruct (elab g e1) as [[ta xa]|] eqn:Ea; [|discriminate Heq]. destruct ta; try discriminate Heq.
    destruct (elab g e2) as [[tz xz]|] eqn:Ez; [|discriminate Heq].
    destruct (elab ((x, ta) :: (acc, tz) :: g) e3) as [[tb xb]|] eqn:Eb; [|discriminate Heq].
    pose proof (IHe1 _ _ _ Ea) as Ha. pose proof (IHe2 _ _ _ Ez) as Hz. pose proof (IHe3 _ _ _ Eb) as Hb.
    destruct (ty_eqb tb tz) eqn:Eq.
    + inversion Heq; subst. cbn [ir_type]. rewrite (to_stream_sound _ _ _ Ha), Hz, Hb, Eq. reflexivity.
    + destruct (rank tb) as [rb|] eqn:Rb; [|discriminate Heq]. destruct (rank tz) as [rz|] eqn:Rz; [|discriminate Heq].
      destruct (rb <=? rz)%nat eqn:Le; [|discriminate Heq]. inversion Heq; subst. apply Nat.leb_le in Le.
      pose proof (rank_le4 _ _ Rz). cbn [ir_type]. rewrite (to_stream_sound _ _ _ Ha), Hz.
      pose proof (coerce_sound _ xb tb rb rz Hb Rb Le H) as Hc. rewrite (rank_of_rank _ _ Rz) in Hc.
      rewrite Hc, ty_eqb_refl. reflexivity.
  - (* ETuple *)
    destruct (all_some (map (elab g) es)) as [txs|] eqn:Ea; [|discriminate Heq]. inversion Heq; subst. clear Heq.
    destruct (elab_list_sound g es txs H Ea) as [_ F2]. cbn [ir_type]. rewrite F2. reflexivity.
  - (* ETupleGet *)
    destruct (elab g e) as [[te xe]|] eqn:Ee; [|discriminate Heq]. destruct te; try discriminate Heq.
    destruct (nth_error ts i) as [ti|] eqn:En; [|discriminate Heq]. inversion Heq; subst. use_ih.
    cbn [ir_type]. rewrite Hx. exact En.
  - (* ECast *)
    destruct (elab g e) as [[te xe]|] eqn:Ee; [|discriminate Heq]. use_ih.
    assert (Hc : forall r, (1 <= r <= 4)%nat -> is_numeric te = true ->
                 ir_type g (coerce (of_rank r) (te, xe)) = Some (of_rank r)).
    { intros r Hr Hn. unfold coerce; cbn [fst snd].
      destruct (ty_eqb te (of_rank r)) eqn:E; [apply ty_eqb_eq in E; subst; exact Hx|].
      cbn [ir_type map all_some]. rewrite Hx. cbn [option_map all_some].
      destruct r as [|[|[|[|[|r]]]]]; try (exfalso; lia); cbn [of_rank to_fn sig_ok];
        (destruct (is_numeric te); [rewrite ty_eqb_refl; reflexivity | discriminate Hn]). }
    destruct t; try discriminate Heq; (destruct (is_numeric te) eqn:Hn; [|discriminate Heq]); inversion Heq; subst.
    + apply (Hc 1%nat); [lia | reflexivity].
    + apply (Hc 2%nat); [lia | reflexivity].
    + apply (Hc 3%nat); [lia | reflexivity].
    + apply (Hc 4%nat); [lia | reflexivity].
  - (* EStrOf *)
    destruct (elab g e) as [[te xe]|] eqn:Ee; [|discriminate Heq]. inversion Heq; subst. use_ih.
    destruct (ty_eqb te TStr) eqn:E; [apply ty_eqb_eq in E; subst; exact Hx|].
    cbn [ir_type map all_some]. rewrite Hx. reflexivity.
  - (* EConcat *)
    destruct (elab g e1) as [[ta xa]|] eqn:Ea; [|discriminate Heq]. destruct ta; try discriminate Heq.
    destruct (elab g e2) as [[tb xb]|] eqn:Eb; [|discriminate Heq]. destruct tb; try discriminate Heq.
    inversion Heq; subst. pose proof (IHe1 _ _ _ Ea) as Ha. pose proof (IHe2 _ _ _ Eb) as Hb.
    cbn [ir_type map all_some]. rewrite Ha, Hb. reflexivity.
  - (* EInterval *)
    destruct (elab g e1) as [[ta xa]|] eqn:Ea; [|discriminate Heq]. destruct (elab g e2) as [[tb xb]|] eqn:Eb; [|discriminate Heq].
    destruct (ty_eqb ta tb) eqn:Eab; [|discriminate Heq]. inversion Heq; subst.
    pose proof (IHe1 _ _ _ Ea) as Ha. pose proof (IHe2 _ _ _ Eb) as Hb.
    cbn [ir_type map all_some option_map]. rewrite Ha, Hb. cbn [option_map all_some sig_ok].
    rewrite Eab. cbn [ty_eqb andb]. rewrite ty_eqb_refl. reflexivity.
Qed.
