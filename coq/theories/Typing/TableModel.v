(** C36, Table / MatrixTable level — executable model of
    (a) the FRONT END's bookkeeping (hail/python/hail/table.py, matrixtable.py, utils/misc.py): which relational IR the
        Table / MatrixTable methods emit and which row / key / global / col / entry types they report ([telab]); the
        reported types are the ones Python computes while building ([Table.__init__] reads [tir.typ], computed from the
        DECLARED dtypes of the expressions; the dtype of a lookup [t.index(..)] is the [new_schema] that [Table._index]
        declares for its join field);
    (b) the ENGINE's typing of that relational IR ([strict_type]): [typ] of each node as in
        hail/hail/src/is/hail/expr/ir/{TableIR,MatrixIR}.scala together with the requirements of TypeCheck.scala and of
        the TableType / MatrixType constructors, every value IR re-typed from scratch ([ir_type]) in the environment the
        node binds.
    Definitions only; the theorems are in TableSound.v / Props_C36.v. *)
From HailV Require Import Common.Prelude Typing.Model.

(** reserved names.  Variables: the top-level references of the relational nodes; fields: those of the range sources. *)
Definition ROW : N := 0.   Definition GLOBAL : N := 1.   Definition VA : N := 2.   Definition SA : N := 3.
Definition GE : N := 4.    Definition NCOLS : N := 5.    Definition NROWS : N := 6.
Definition IDX : N := 4.   Definition ROW_IDX : N := 5.  Definition COL_IDX : N := 6.

Definition fields := list (N * ty).
Inductive ttype := TT (glob row : fields) (key : list N).
Inductive mtype := MT (glob col : fields) (colkey : list N) (row : fields) (rowkey : list N) (entry : fields).
Inductive rty := RT (t : ttype) | RM (m : mtype).

(** relational IR (one inductive for table- and matrix-valued nodes; an ill-kinded tree has no type) *)
Inductive rir :=
| TableRange
| TableKeyBy (c : rir) (ks : list N)
| TableMapRows (c : rir) (row : ir)
| TableMapGlobals (c : rir) (g : ir)
| TableFilter (c : rir) (p : ir)
| TableOrderBy (c : rir) (sf : list (N * bool))              (* sort fields: (name, ascending) *)
| TableUnion (a b : rir)                                   (* the engine's node is n-ary; two children here *)
| TableLeftJoinRightDistinct (l r : rir) (root : N)
| TableIntervalJoin (l r : rir) (root : N) (product : bool)
| MatrixRowsTable (c : rir) | MatrixColsTable (c : rir) | MatrixEntriesTable (c : rir)
| MatrixRange                                   (* MatrixRead of a MatrixRangeReader *)
| MatrixMapRows (c : rir) (row : ir)
| MatrixMapCols (c : rir) (col : ir) (newkey : option (list N))
| MatrixMapEntries (c : rir) (e : ir)
| MatrixMapGlobals (c : rir) (g : ir)
| MatrixKeyRowsBy (c : rir) (ks : list N)
| MatrixAnnotateRowsTable (c t : rir) (root : N) (product : bool).

Definition mem (k : N) (l : list N) : bool := existsb (N.eqb k) l.
Definition subset (ks names : list N) : bool := forallb (fun k => mem k names) ks.
Definition disjoint (ks names : list N) : bool := forallb (fun k => negb (mem k names)) ks.
Definition names (fs : fields) : list N := map fst fs.
(* TableType.valueType: the row fields that are not key fields, in row order *)
Definition value_fields (row : fields) (key : list N) : fields := filter (fun nf => negb (mem (fst nf) key)) row.
(* the types of the key fields, in key order (TableType.keyType) *)
Definition key_types (row : fields) (key : list N) : option (list ty) := option_map (map snd) (select_fields row key).
Fixpoint tys_eqb (a b : list ty) : bool :=
  match a, b with [], [] => true | x :: a', y :: b' => ty_eqb x y && tys_eqb a' b' | _, _ => false end.
(* TBaseStruct.isPrefixOf: no more fields, and the zipped field types agree *)
Fixpoint tys_prefix (a b : list ty) : bool :=
  match a, b with [] , _ => true | x :: a', y :: b' => ty_eqb x y && tys_prefix a' b' | _ :: _, [] => false end.
Definition fields_eqb (a b : fields) : bool := ty_eqb (TStruct a) (TStruct b).
Fixpoint nlist_eqb (a b : list N) : bool :=
  match a, b with [], [] => true | x :: a', y :: b' => N.eqb x y && nlist_eqb a' b' | _, _ => false end.
(* TStruct.appendKey asserts the field is new *)
Definition append_key (row : fields) (k : N) (t : ty) : option fields :=
  if mem k (names row) then None else Some (row ++ [(k, t)]).

(** environments the relational nodes bind for their value-IR children *)
Definition row_env (gl row : fields) : tenv := [(ROW, TStruct row); (GLOBAL, TStruct gl)].
Definition glob_env (gl : fields) : tenv := [(GLOBAL, TStruct gl)].
Definition mrow_env (gl row : fields) : tenv := [(VA, TStruct row); (GLOBAL, TStruct gl); (NCOLS, TI32)].
Definition mcol_env (gl col : fields) : tenv := [(SA, TStruct col); (GLOBAL, TStruct gl); (NROWS, TI64)].
Definition entry_env (gl col row entry : fields) : tenv :=
  [(GE, TStruct entry); (VA, TStruct row); (SA, TStruct col); (GLOBAL, TStruct gl)].

(** *** the engine's typing (strict).  Every rule is transcribed from the Scala side (hail/hail/src/is/hail/...), not from the
    Python [_compute_type]:
      TableRange expr/ir/TableIR.scala:2174 (typ :2187)      TableKeyBy :2106 (typ :2114) + TypeCheck.scala:632
      TableMapRows :2418 (typ :2421) + TypeCheck:661         TableMapGlobals :2431 (typ :2434)
      TableFilter :2194 (typ = child.typ)                    TableOrderBy :2579 (typ :2593: key = FastSeq())
      TableUnion :2465 (typ :2471 = first child's) + TypeCheck:686-688 (same rowType and key in every child)
      TableLeftJoinRightDistinct :2366 (structInsert) + TypeCheck:641 (isPrefixOf, types/virtual/TBaseStruct.scala:71)
      TableIntervalJoin :2315 (typ :2323-2326, TStruct.appendKey types/virtual/TStruct.scala:230; no TypeCheck case: the key
        requirement is read off lowering/LowerTableIR.scala:1963-)
      MatrixRowsTable :2474 / MatrixColsTable :2487 / MatrixEntriesTable :2498 -> types/virtual/MatrixType.scala:107-117
      MatrixRead of MatrixRangeReader expr/ir/MatrixIR.scala:404 (fullMatrixTypeWithoutUIDs :413-419)
      MatrixMapRows MatrixIR.scala:696, MatrixMapCols :712, MatrixMapEntries :665, MatrixMapGlobals :730, MatrixKeyRowsBy :680
        + TypeCheck:708, all + the MatrixType constructor assertions (keys within their struct, MatrixType.scala:78-96)
      MatrixAnnotateRowsTable :782 (appendKey) + TypeCheck:700-707
    (TableKeyByAndAggregate TableIR.scala:2542-2545, n-ary TableUnion, TableJoin TableIR.scala:2267 + TypeCheck:621 and MatrixAnnotateColsTable MatrixIR.scala:760 + TypeCheck:698 +
    LowerMatrixIR.scala:236-255 are in the Python checker c36_tlang.strict_rel only.) *)
Fixpoint strict_type (x : rir) : option rty :=
  match x with
  | TableRange => Some (RT (TT [] [(IDX, TI32)] [IDX]))
  | TableKeyBy c ks =>                      (* typ: child.typ.copy(key = keys); TypeCheck: keys are row fields *)
      match strict_type c with
      | Some (RT (TT gl row _)) => if subset ks (names row) then Some (RT (TT gl row ks)) else None
      | _ => None
      end
  | TableMapRows c r =>                     (* rowType = newRow.typ (a struct); TypeCheck: it keeps the key fields *)
      match strict_type c with
      | Some (RT (TT gl row key)) =>
          match ir_type (row_env gl row) r with
          | Some (TStruct new) => if subset key (names new) then Some (RT (TT gl new key)) else None
          | _ => None
          end
      | _ => None
      end
  | TableMapGlobals c g =>
      match strict_type c with
      | Some (RT (TT gl row key)) =>
          match ir_type (glob_env gl) g with Some (TStruct new) => Some (RT (TT new row key)) | _ => None end
      | _ => None
      end
  | TableFilter c p =>
      match strict_type c with
      | Some (RT (TT gl row key)) => match ir_type (row_env gl row) p with Some TBool => Some (RT (TT gl row key)) | _ => None end
      | _ => None
      end
  | TableOrderBy c sf =>                    (* TableIR.scala:2593  lazy val typ = child.typ.copy(key = FastSeq()): ALWAYS unkeyed
                                               (isAlreadyOrdered, :2582, only avoids a shuffle); the sort fields are row fields *)
      match strict_type c with
      | Some (RT (TT gl row _)) => if subset (map fst sf) (names row) then Some (RT (TT gl row [])) else None
      | _ => None
      end
  | TableUnion a b =>                       (* TableIR.scala:2471 typ = childrenSeq(0).typ; TypeCheck.scala:686-688: every child has
                                               the first child's rowType and key (globals are not compared) *)
      match strict_type a, strict_type b with
      | Some (RT (TT g1 r1 k1)), Some (RT (TT _ r2 k2)) =>
          if fields_eqb r1 r2 && nlist_eqb k1 k2 then Some (RT (TT g1 r1 k1)) else None
      | _, _ => None
      end
  | TableLeftJoinRightDistinct l r root =>  (* TypeCheck: right.keyType isPrefixOf left.keyType; row: structInsert(root -> right.valueType) *)
      match strict_type l, strict_type r with
      | Some (RT (TT gl lrow lkey)), Some (RT (TT _ rrow rkey)) =>
          match key_types rrow rkey, key_types lrow lkey with
          | Some rk, Some lk =>
              if tys_prefix rk lk then Some (RT (TT gl (insert_field lrow root (TStruct (value_fields rrow rkey))) lkey)) else None
          | _, _ => None
          end
      | _, _ => None
      end
  | TableIntervalJoin l r root product =>   (* row: appendKey(root -> valueType or array of it); the lowering joins the first
                                               left key field against the first right key field, an interval of its type *)
      match strict_type l, strict_type r with
      | Some (RT (TT gl lrow lkey)), Some (RT (TT _ rrow rkey)) =>
          match key_types rrow rkey, key_types lrow lkey with
          | Some (TInterval p :: _), Some (t :: _) =>
              if ty_eqb p t then
                let v := TStruct (value_fields rrow rkey) in
                match append_key lrow root (if product then TArr v else v) with
                | Some row' => Some (RT (TT gl row' lkey))
                | None => None
                end
              else None
          | _, _ => None
          end
      | _, _ => None
      end
  | MatrixRowsTable c => match strict_type c with Some (RM (MT gl _ _ row rk _)) => Some (RT (TT gl row rk)) | _ => None end
  | MatrixColsTable c => match strict_type c with Some (RM (MT gl col ck _ _ _)) => Some (RT (TT gl col ck)) | _ => None end
  | MatrixEntriesTable c =>                 (* MatrixType.entriesTableType: row ++ col ++ entry fields (a struct: distinct names) *)
      match strict_type c with
      | Some (RM (MT gl col ck row rk entry)) =>
          let all := row ++ col ++ entry in
          if nodupN (names all) then Some (RT (TT gl all (rk ++ ck))) else None
      | _ => None
      end
  | MatrixRange => Some (RM (MT [] [(COL_IDX, TI32)] [COL_IDX] [(ROW_IDX, TI32)] [ROW_IDX] []))
  | MatrixMapRows c r =>                    (* MatrixType asserts rowKey within the row fields *)
      match strict_type c with
      | Some (RM (MT gl col ck row rk entry)) =>
          match ir_type (mrow_env gl row) r with
          | Some (TStruct new) => if subset rk (names new) then Some (RM (MT gl col ck new rk entry)) else None
          | _ => None
          end
      | _ => None
      end
  | MatrixMapCols c r newkey =>
      match strict_type c with
      | Some (RM (MT gl col ck row rk entry)) =>
          match ir_type (mcol_env gl col) r with
          | Some (TStruct new) =>
              let ck' := match newkey with Some k => k | None => ck end in
              if subset ck' (names new) then Some (RM (MT gl new ck' row rk entry)) else None
          | _ => None
          end
      | _ => None
      end
  | MatrixMapEntries c r =>
      match strict_type c with
      | Some (RM (MT gl col ck row rk entry)) =>
          match ir_type (entry_env gl col row entry) r with
          | Some (TStruct new) => Some (RM (MT gl col ck row rk new))
          | _ => None
          end
      | _ => None
      end
  | MatrixMapGlobals c g =>
      match strict_type c with
      | Some (RM (MT gl col ck row rk entry)) =>
          match ir_type (glob_env gl) g with Some (TStruct new) => Some (RM (MT new col ck row rk entry)) | _ => None end
      | _ => None
      end
  | MatrixKeyRowsBy c ks =>
      match strict_type c with
      | Some (RM (MT gl col ck row _ entry)) => if subset ks (names row) then Some (RM (MT gl col ck row ks entry)) else None
      | _ => None
      end
  | MatrixAnnotateRowsTable c t root product =>
      (* TypeCheck: (!product && table.keyType isPrefixOf rowKeyStruct) ||
                    (table.keyType.size == 1 && table.keyType.types(0) == TInterval(rowKeyStruct.types(0)));
         row: appendKey(root -> valueType or array of it) *)
      match strict_type c, strict_type t with
      | Some (RM (MT gl col ck row rk entry)), Some (RT (TT _ trow tkey)) =>
          match key_types trow tkey, key_types row rk with
          | Some tk, Some mk =>
              let by_prefix := negb product && tys_prefix tk mk in
              let by_interval := match tk, mk with [TInterval p], t0 :: _ => ty_eqb p t0 | _, _ => false end in
              if by_prefix || by_interval then
                let v := TStruct (value_fields trow tkey) in
                match append_key row root (if product then TArr v else v) with
                | Some row' => Some (RM (MT gl col ck row' rk entry))
                | None => None
                end
              else None
          | _, _ => None
          end
      | _, _ => None
      end
  end.

(** *** front-end programs *)
Inductive prog :=
| PRange                                                   (* hl.utils.range_table(n) *)
| PKeyBy (p : prog) (ks : list N)                          (* t.key_by('a', 'b') : existing fields *)
| PAnnotate (p : prog) (fs : list (N * fe))                (* t.annotate(f = e, ..) *)
| PSelect (p : prog) (ks : list N)                         (* t.select('a', 'b') *)
| PDrop (p : prog) (ks : list N)                           (* t.drop('a', ..) : row fields *)
| PAnnotateGlobals (p : prog) (fs : list (N * fe))
| PFilter (p : prog) (e : fe)
| POrderBy (p : prog) (sf : list (N * bool))                (* t.order_by('a', hl.desc('b'), ..): row fields by name *)
| PUnion (p q : prog) (unify : bool)                       (* p.union(q, unify=..) *)
| PAnnotateIdx (p r : prog) (uid : N) (kfs : list (N * fe)) (am : bool) (fs : list (N * fe))
    (* t.annotate(f = e, ..) whose expressions use ONE lookup  r.index(k1, .., all_matches=am)  whose key expressions
       (paired with the names the front end generates for them) are not the key fields of t themselves; inside [fs] the
       lookup is  EField (EVar ROW) uid  (what the front end builds: GetField(Ref row, uid) with a declared type) *)
| PRows (m : prog) | PCols (m : prog) | PEntries (m : prog)
| PMRange                                                  (* hl.utils.range_matrix_table(n, m) *)
| PMAnnotateRows (m : prog) (fs : list (N * fe)) | PMAnnotateCols (m : prog) (fs : list (N * fe))
| PMAnnotateEntries (m : prog) (fs : list (N * fe)) | PMAnnotateGlobals (m : prog) (fs : list (N * fe))
| PMKeyRowsBy (m : prog) (ks : list N) | PMKeyColsBy (m : prog) (ks : list N)
| PMAnnotateRowsIv (m r : prog) (uid : N) (k : fe) (am : bool) (fs : list (N * fe)).
    (* mt.annotate_rows(f = e, ..) with ONE lookup  r.index(k, all_matches=am)  of an interval-keyed table by a point *)

(* t.row / mt._rvrow / mt.col / mt.entry / t.globals: SelectedTopLevelReference = SelectFields(all declared fields, Ref) *)
Definition top (v : N) (fs : fields) : fe := ESelect (EVar v) (names fs).

(* check_annotate_exprs: no key field is overwritten (check_keys), no name of another axis is taken and no name is given
   twice (check_collisions) *)
Definition annotate_ok (fs : list (N * fe)) (key : list N) (others : list N) : bool :=
  disjoint (map fst fs) key && disjoint (map fst fs) others && nodupN (map fst fs).

(* Table._index: [is_interval], the key check ([types_match] or [is_interval]) and the dtype it DECLARES for the lookup.
   Unpacking of a single tuple / struct argument and all_matches on a non-interval key (collect_by_key: an aggregation)
   are outside the model. *)
Definition index_schema (rrow : fields) (rkey : list N) (ktys : list ty) (am : bool) : option (bool * ty) :=
  match key_types rrow rkey with
  | Some rk =>
      let is_interval := match ktys, rk with [t], TInterval p :: _ => ty_eqb t p | _, _ => false end in
      if is_nil ktys then None
      else if negb (tys_eqb rk ktys) && negb is_interval then None
      else if am && negb is_interval then None
      else let v := TStruct (value_fields rrow rkey) in Some (is_interval, if am then TArr v else v)
  | None => None
  end.

(* Table.union(unify=True): per value field (in the order of the first table; the model covers tables with the SAME value
   field names) the unified type -- the common type, or the larger numeric type -- and, per table, the select that
   re-orders and converts: t.select(f = unified expression, ..) *)
Definition unify_ty (t1 t2 : ty) : option ty :=
  if ty_eqb t1 t2 then Some t1
  else match rank t1, rank t2 with Some r1, Some r2 => Some (of_rank (Nat.max r1 r2)) | _, _ => None end.
Fixpoint unified_fields (v1 v2 : fields) : option fields :=
  match v1 with
  | [] => Some []
  | (f, t1) :: r =>
      match lookup_ty v2 f, unified_fields r v2 with
      | Some t2, Some rest => option_map (fun t => (f, t) :: rest) (unify_ty t1 t2)
      | _, _ => None
      end
  end.
Definition union_select (row : fields) (key : list N) (tgt : fields) : fe :=
  EAnnotate (ESelect (top ROW row) key)
    (map (fun ft => (fst ft, match lookup_ty row (fst ft) with
                             | Some t => if ty_eqb t (snd ft) then EField (top ROW row) (fst ft) else ECast (snd ft) (EField (top ROW row) (fst ft))
                             | None => EField (top ROW row) (fst ft)
                             end)) tgt).

(** the front end: reported type and emitted relational IR, built together.
    The boolean tests on the computed lists ([subset .. (names ..)], freshness of the generated names) are facts the real
    front end has by construction (struct types are dicts, generated names are fresh, annotate cannot remove a field); the
    correspondence run reports it as a disagreement if the model ever rejects, for one of these, a program the real front
    end accepts. *)
Fixpoint telab (p : prog) : option (rty * rir) :=
  match p with
  | PRange => Some (RT (TT [] [(IDX, TI32)] [IDX]), TableRange)
  | PKeyBy p ks =>
      match telab p with
      | Some (RT (TT gl row _), x) =>
          if subset ks (names row) && nodupN ks then Some (RT (TT gl row ks), TableKeyBy x ks) else None
      | _ => None
      end
  | PAnnotate p fs =>
      match telab p with
      | Some (RT (TT gl row key), x) =>
          if annotate_ok fs key (names gl) then
            match elab (row_env gl row) (EAnnotate (top ROW row) fs) with
            | Some (TStruct new, xr) => if subset key (names new) then Some (RT (TT gl new key), TableMapRows x xr) else None
            | _ => None
            end
          else None
      | _ => None
      end
  | PSelect p ks =>                          (* get_select_exprs: row.select(key ++ names).annotate() *)
      match telab p with
      | Some (RT (TT gl row key), x) =>
          if disjoint ks key && nodupN (key ++ ks) then
            match elab (row_env gl row) (EAnnotate (ESelect (top ROW row) (key ++ ks)) []) with
            | Some (TStruct new, xr) => if subset key (names new) then Some (RT (TT gl new key), TableMapRows x xr) else None
            | _ => None
            end
          else None
      | _ => None
      end
  | PDrop p ks =>
      match telab p with
      | Some (RT (TT gl row key), x) =>
          if disjoint ks key && subset ks (names row) && negb (is_nil ks) then
            match elab (row_env gl row) (EDrop (top ROW row) ks) with
            | Some (TStruct new, xr) => if subset key (names new) then Some (RT (TT gl new key), TableMapRows x xr) else None
            | _ => None
            end
          else None
      | _ => None
      end
  | PAnnotateGlobals p fs =>
      match telab p with
      | Some (RT (TT gl row key), x) =>
          if annotate_ok fs [] (names row) then
            match elab (glob_env gl) (EAnnotate (top GLOBAL gl) fs) with
            | Some (TStruct new, xg) => Some (RT (TT new row key), TableMapGlobals x xg)
            | _ => None
            end
          else None
      | _ => None
      end
  | PFilter p e =>
      match telab p with
      | Some (RT (TT gl row key), x) =>
          match elab (row_env gl row) e with
          | Some (TBool, xe) => Some (RT (TT gl row key), TableFilter x (Coalesce xe FalseIR))
          | _ => None
          end
      | _ => None
      end
  | POrderBy p sf =>                         (* self[name] must be a row field; "This method unkeys the table" *)
      match telab p with
      | Some (RT (TT gl row _), x) =>
          if subset (map fst sf) (names row) then Some (RT (TT gl row []), TableOrderBy x sf) else None
      | _ => None
      end
  | PUnion p q unify =>
      match telab p, telab q with
      | Some (RT (TT g1 r1 k1), x1), Some (RT (TT g2 r2 k2), x2) =>
          (* the keys must have the same dtype (a struct: names and types) *)
          match select_fields r1 k1, select_fields r2 k2 with
          | Some ks1, Some ks2 =>
              if negb (fields_eqb ks1 ks2 && nlist_eqb k1 k2) then None
              else if negb unify then
                if fields_eqb r1 r2 then Some (RT (TT g1 r1 k1), TableUnion x1 x2) else None
              else
                let v1 := value_fields r1 k1 in let v2 := value_fields r2 k2 in
                (* "nothing to unify": no select.  Since e910686b1 the test is on the WHOLE row types (it used to compare the value
                   types only and let through tables whose key field sits at another row position) *)
                if fields_eqb r1 r2 then Some (RT (TT g1 r1 k1), TableUnion x1 x2)
                else if negb ((length v1 =? length v2)%nat && nodupN (names v2)) then None  (* missing fields: outside the model *)
                else
                  match unified_fields v1 v2 with
                  | Some tgt =>
                      match elab (row_env g1 r1) (union_select r1 k1 tgt), elab (row_env g2 r2) (union_select r2 k2 tgt) with
                      | Some (TStruct n1, y1), Some (TStruct n2, y2) =>
                          if disjoint (names tgt) k1 && nodupN (k1 ++ names tgt) && subset k1 (names n1) && subset k2 (names n2)
                             && fields_eqb n1 n2
                          then Some (RT (TT g1 n1 k1), TableUnion (TableMapRows x1 y1) (TableMapRows x2 y2))
                          else None
                      | _, _ => None
                      end
                  | None => None
                  end
          | _, _ => None
          end
      | _, _ => None
      end
  | PAnnotateIdx p r uid kfs am fs =>
      match telab p, telab r with
      | Some (RT (TT gl row key), x), Some (RT (TT _ rrow rkey), xr) =>
          let g := row_env gl row in
          match all_some (map (fun nf => elab g (snd nf)) kfs), elab g (EAnnotate (top ROW row) kfs) with
          | Some tks, Some (TStruct krow, xk) =>
              (* joiner: Table(TableMapRows(left.key_by(), InsertFields(left.row, uids -> key exprs))) keyed by the uids *)
              let kuids := map fst kfs in
              match index_schema rrow rkey (map fst tks) am with
              | Some (is_iv, schema) =>
                  if negb (annotate_ok fs key (names gl)) then None
                  else if negb (nodupN kuids && disjoint kuids (names row) && subset kuids (names krow)) then None
                  else if mem uid (names krow) then None
                  else if negb (subset key (names krow)) then None
                  else if negb (match key_types krow kuids with Some lk => tys_eqb lk (map fst tks) | None => false end) then None
                  else
                    let left := TableKeyBy (TableMapRows (TableKeyBy x []) xk) kuids in
                    let joined := if is_iv then TableIntervalJoin left xr uid am else TableLeftJoinRightDistinct left xr uid in
                    (* the row the expressions of the annotate see: the declared fields, the key names, the join field
                       with the DECLARED dtype *)
                    let jrow := krow ++ [(uid, schema)] in
                    match elab (row_env gl jrow) (EAnnotate (top ROW row) fs) with
                    | Some (TStruct new, xrow) =>
                        if subset key (names new) then Some (RT (TT gl new key), TableMapRows (TableKeyBy joined key) xrow) else None
                    | _ => None
                    end
              | None => None
              end
          | _, _ => None
          end
      | _, _ => None
      end
  | PRows m => match telab m with Some (RM (MT gl _ _ row rk _), x) => Some (RT (TT gl row rk), MatrixRowsTable x) | _ => None end
  | PCols m => match telab m with Some (RM (MT gl col ck _ _ _), x) => Some (RT (TT gl col ck), MatrixColsTable x) | _ => None end
  | PEntries m =>
      match telab m with
      | Some (RM (MT gl col ck row rk entry), x) =>
          if nodupN (names (row ++ col ++ entry)) then Some (RT (TT gl (row ++ col ++ entry) (rk ++ ck)), MatrixEntriesTable x) else None
      | _ => None
      end
  | PMRange => Some (RM (MT [] [(COL_IDX, TI32)] [COL_IDX] [(ROW_IDX, TI32)] [ROW_IDX] []), MatrixRange)
  | PMAnnotateRows m fs =>
      match telab m with
      | Some (RM (MT gl col ck row rk entry), x) =>
          if annotate_ok fs rk (names gl ++ names col ++ names entry) then
            match elab (mrow_env gl row) (EAnnotate (top VA row) fs) with
            | Some (TStruct new, xr) => if subset rk (names new) then Some (RM (MT gl col ck new rk entry), MatrixMapRows x xr) else None
            | _ => None
            end
          else None
      | _ => None
      end
  | PMAnnotateCols m fs =>
      match telab m with
      | Some (RM (MT gl col ck row rk entry), x) =>
          if annotate_ok fs ck (names gl ++ names row ++ names entry) then
            match elab (mcol_env gl col) (EAnnotate (top SA col) fs) with
            | Some (TStruct new, xr) => if subset ck (names new) then Some (RM (MT gl new ck row rk entry), MatrixMapCols x xr None) else None
            | _ => None
            end
          else None
      | _ => None
      end
  | PMAnnotateEntries m fs =>
      match telab m with
      | Some (RM (MT gl col ck row rk entry), x) =>
          if annotate_ok fs [] (names gl ++ names row ++ names col) then
            match elab (entry_env gl col row entry) (EAnnotate (top GE entry) fs) with
            | Some (TStruct new, xr) => Some (RM (MT gl col ck row rk new), MatrixMapEntries x xr)
            | _ => None
            end
          else None
      | _ => None
      end
  | PMAnnotateGlobals m fs =>
      match telab m with
      | Some (RM (MT gl col ck row rk entry), x) =>
          if annotate_ok fs [] (names row ++ names col ++ names entry) then
            match elab (glob_env gl) (EAnnotate (top GLOBAL gl) fs) with
            | Some (TStruct new, xg) => Some (RM (MT new col ck row rk entry), MatrixMapGlobals x xg)
            | _ => None
            end
          else None
      | _ => None
      end
  | PMKeyRowsBy m ks =>
      match telab m with
      | Some (RM (MT gl col ck row _ entry), x) =>
          if subset ks (names row) && nodupN ks then Some (RM (MT gl col ck row ks entry), MatrixKeyRowsBy x ks) else None
      | _ => None
      end
  | PMKeyColsBy m ks =>                      (* MatrixMapCols(mir, mt.col, key_fields) *)
      match telab m with
      | Some (RM (MT gl col ck row rk entry), x) =>
          if subset ks (names col) && nodupN ks then
            match elab (mcol_env gl col) (top SA col) with
            | Some (TStruct new, xc) => if subset ks (names new) then Some (RM (MT gl new ks row rk entry), MatrixMapCols x xc (Some ks)) else None
            | _ => None
            end
          else None
      | _ => None
      end
  | PMAnnotateRowsIv m r uid k am fs =>
      match telab m, telab r with
      | Some (RM (MT gl col ck row rk entry), x), Some (RT (TT _ rrow rkey), xr) =>
          match elab (mrow_env gl row) k with
          | Some (tk, _) =>
              match index_schema rrow rkey [tk] am with
              | Some (true, schema) =>
                  if negb (annotate_ok fs rk (names gl ++ names col ++ names entry)) then None
                  else if mem uid (names row) then None
                  else
                    let jrow := row ++ [(uid, schema)] in
                    match elab (mrow_env gl jrow) (EAnnotate (top VA row) fs) with
                    | Some (TStruct new, xrow) =>
                        if subset rk (names new)
                        then Some (RM (MT gl col ck new rk entry), MatrixMapRows (MatrixAnnotateRowsTable x xr uid am) xrow)
                        else None
                    | _ => None
                    end
              | _ => None
              end
          | None => None
          end
      | _, _ => None
      end
  end.

Definition reported (p : prog) : option rty := option_map fst (telab p).
Definition emitted (p : prog) : option rir := option_map snd (telab p).

(* the guard of the partial theorem: a matrix-row lookup into an interval-keyed table (a) is not into a table whose
   COMPOUND key starts with an interval and (b) uses a point of the type of the matrix's first row key field (the emitted
   MatrixAnnotateRowsTable joins on the ROW KEY, whatever the index expression is) *)
Fixpoint simple_interval_keys (p : prog) : bool :=
  match p with
  | PRange | PMRange => true
  | PKeyBy p _ | PAnnotate p _ | PSelect p _ | PDrop p _ | PAnnotateGlobals p _ | PFilter p _ | POrderBy p _
  | PRows p | PCols p | PEntries p
  | PMAnnotateRows p _ | PMAnnotateCols p _ | PMAnnotateEntries p _ | PMAnnotateGlobals p _
  | PMKeyRowsBy p _ | PMKeyColsBy p _ => simple_interval_keys p
  | PAnnotateIdx p r _ _ _ _ => simple_interval_keys p && simple_interval_keys r
  | PUnion p q _ => simple_interval_keys p && simple_interval_keys q
  | PMAnnotateRowsIv m r _ k _ _ =>
      simple_interval_keys m && simple_interval_keys r &&
      match telab m, telab r with
      | Some (RM (MT gl _ _ row rk _), _), Some (RT (TT _ _ rkey), _) =>
          (length rkey <=? 1)%nat &&
          match key_types row rk with
          | Some (t0 :: _) => match elab (mrow_env gl row) k with Some (tk, _) => ty_eqb tk t0 | None => false end
          | _ => false
          end
      | _, _ => true
      end
  end.
