(** C36, Table / MatrixTable level — the types the front end reports are the types of the relational IR it emits. *)
From HailV Require Import Common.Prelude Typing.Model Typing.Basics Typing.ElabSound Typing.TableModel.

Lemma tys_eqb_eq a b : tys_eqb a b = true <-> a = b.
Proof.
  revert b; induction a as [|x a IH]; intros [|y b]; cbn [tys_eqb]; try (split; [discriminate | intro E; discriminate E]).
  - split; reflexivity.
  - rewrite andb_true_iff, ty_eqb_eq, IH. split; [intros [? ?]; congruence | intro E; inversion E; auto].
Qed.
Lemma tys_prefix_refl a : tys_prefix a a = true.
Proof. induction a as [|x a IH]; cbn [tys_prefix]; [reflexivity | rewrite ty_eqb_refl, IH; reflexivity]. Qed.

Lemma insert_field_fresh (l : fields) k v : mem k (names l) = false -> insert_field l k v = l ++ [(k, v)].
Proof.
  induction l as [|[k' v'] l IH]; cbn [insert_field names map mem existsb fst app]; intro H; [reflexivity|].
  apply orb_false_iff in H. destruct H as [H1 H2]. rewrite N.eqb_sym, H1. f_equal. apply IH. exact H2.
Qed.
Lemma append_key_fresh (l : fields) k v : mem k (names l) = false -> append_key l k v = Some (l ++ [(k, v)]).
Proof. intro H. unfold append_key. rewrite H. reflexivity. Qed.

Lemma subset_names_app ks (a b : fields) : subset ks (names a) = true -> subset ks (names (a ++ b)) = true.
Proof.
  unfold subset, names. rewrite map_app, !forallb_forall. intros H k Hk. specialize (H k Hk).
  unfold mem in *. rewrite existsb_app, H. reflexivity.
Qed.

Lemma select_fields_length l ks sel : select_fields l ks = Some sel -> length sel = length ks.
Proof.
  revert sel; induction ks as [|k ks IH]; intros sel H; cbn [select_fields] in H.
  - inversion H; reflexivity.
  - destruct (lookup_ty l k); [|discriminate H]. destruct (select_fields l ks) as [rest|]; [|discriminate H].
    inversion H; subst. cbn [length]. f_equal. apply IH. reflexivity.
Qed.
Lemma key_types_length row key tk : key_types row key = Some tk -> length tk = length key.
Proof.
  unfold key_types. destruct (select_fields row key) as [sel|] eqn:E; cbn [option_map]; intro H; inversion H; subst.
  rewrite map_length. eapply select_fields_length; eauto.
Qed.

(* what [index_schema] guarantees about the key of the indexed table *)
Lemma index_schema_spec rrow rkey ktys am is_iv schema :
  index_schema rrow rkey ktys am = Some (is_iv, schema) ->
  exists rk, key_types rrow rkey = Some rk /\
    schema = (if am then TArr (TStruct (value_fields rrow rkey)) else TStruct (value_fields rrow rkey)) /\
    (if is_iv then exists t p rest, ktys = [t] /\ rk = TInterval p :: rest /\ t = p
     else rk = ktys /\ am = false).
Proof.
  unfold index_schema. destruct (key_types rrow rkey) as [rk|]; [|discriminate]. intro H. exists rk. split; [reflexivity|].
  destruct (is_nil ktys); [discriminate H|].
  remember (match ktys with [t] => match rk with TInterval p :: _ => ty_eqb t p | _ => false end | _ => false end) as iv eqn:Ei.
  destruct (negb (tys_eqb rk ktys) && negb iv) eqn:E1; [discriminate H|].
  destruct (am && negb iv) eqn:E2; [discriminate H|]. inversion H; subst is_iv schema. split; [reflexivity|].
  destruct iv.
  - symmetry in Ei. destruct ktys as [|t [|? ?]]; try discriminate Ei. destruct rk as [|[] rest]; try discriminate Ei.
    apply ty_eqb_eq in Ei. eauto 10.
  - cbn [negb] in E1, E2. rewrite andb_true_r in E1, E2.
    apply negb_false_iff, tys_eqb_eq in E1. split; [exact E1 | exact E2].
Qed.

Ltac dm H :=
  repeat match type of H with
         | match ?X with _ => _ end = _ => let E := fresh "E" in destruct X eqn:E; try discriminate H
         | (if ?X then _ else _) = _ => let E := fresh "E" in destruct X eqn:E; try discriminate H
         end.
Ltac split_bools :=
  repeat match goal with
         | H : _ && _ = true |- _ => apply andb_true_iff in H; destruct H
         | H : negb _ = false |- _ => apply negb_false_iff in H
         end.
Ltac use_elab :=
  repeat match goal with
         | E : elab ?g ?e = Some (?t, ?x) |- _ =>
             lazymatch goal with
             | _ : ir_type g x = Some t |- _ => fail
             | _ => pose proof (elab_sound _ _ _ _ E)
             end
         end.
Ltac rw_hyps :=
  repeat match goal with
         | H : ?l = true |- context [?l] => rewrite H
         | H : ?l = false |- context [?l] => rewrite H
         | H : ?l = Some _ |- context [?l] => rewrite H
         end.
(* open the result of a sub-program: a table, a matrix, or nothing *)
Ltac open_sub p :=
  let E := fresh "Ep" in
  destruct (telab p) as [[[[? ? ?]|[? ? ? ? ? ?]] ?]|] eqn:E.

Theorem telab_sound : forall p t x,
  telab p = Some (t, x) -> simple_interval_keys p = true -> strict_type x = Some t.
Proof.
  induction p; intros t0 x0 H G; cbn [telab] in H; cbn [simple_interval_keys] in G.
  - (* PRange *) inversion H; subst; reflexivity.
  - (* PKeyBy *) open_sub p; try discriminate H. dm H. inversion H; subst. split_bools.
    cbn [strict_type]. rewrite (IHp _ _ eq_refl G). rw_hyps. reflexivity.
  - (* PAnnotate *) open_sub p; try discriminate H. dm H. inversion H; subst. use_elab.
    cbn [strict_type]. rewrite (IHp _ _ eq_refl G). rw_hyps. reflexivity.
  - (* PSelect *) open_sub p; try discriminate H. dm H. inversion H; subst. use_elab.
    cbn [strict_type]. rewrite (IHp _ _ eq_refl G). rw_hyps. reflexivity.
  - (* PDrop *) open_sub p; try discriminate H. dm H. inversion H; subst. use_elab.
    cbn [strict_type]. rewrite (IHp _ _ eq_refl G). rw_hyps. reflexivity.
  - (* PAnnotateGlobals *) open_sub p; try discriminate H. dm H. inversion H; subst. use_elab.
    cbn [strict_type]. rewrite (IHp _ _ eq_refl G). rw_hyps. reflexivity.
  - (* PFilter *) open_sub p; try discriminate H. dm H. inversion H; subst. use_elab.
    cbn [strict_type]. rewrite (IHp _ _ eq_refl G). cbn [ir_type]. rw_hyps. cbn [ty_eqb]. reflexivity.
  - (* POrderBy *) open_sub p; try discriminate H. dm H. inversion H; subst.
    cbn [strict_type]. rewrite (IHp _ _ eq_refl G). rw_hyps. reflexivity.
  - (* PUnion *)
    apply andb_true_iff in G. destruct G as [G1 G2].
    open_sub p1; try discriminate H. open_sub p2; try discriminate H.
    pose proof (IHp1 _ _ eq_refl G1) as S1. pose proof (IHp2 _ _ eq_refl G2) as S2.
    destruct (select_fields row key) as [ks1|] eqn:Ek1; [|discriminate H].
    destruct (select_fields row0 key0) as [ks2|] eqn:Ek2; [|discriminate H].
    destruct (fields_eqb ks1 ks2 && nlist_eqb key key0) eqn:Ekk; cbn [negb] in H; [|discriminate H].
    apply andb_true_iff in Ekk. destruct Ekk as [_ Ekeys].
    destruct unify; cbn [negb] in H.
    + destruct (fields_eqb row row0) eqn:Ev.
      * inversion H; subst. cbn [strict_type]. rewrite S1, S2, Ev, Ekeys. reflexivity.
      * dm H. inversion H; subst. clear H. split_bools. use_elab.
        cbn [strict_type]. rewrite S1, S2. rw_hyps. cbn [andb]. reflexivity.
    + destruct (fields_eqb row row0) eqn:Er; [|discriminate H]. inversion H; subst.
      cbn [strict_type]. rewrite S1, S2, Er, Ekeys. reflexivity.
  - (* PAnnotateIdx *)
    apply andb_true_iff in G. destruct G as [G1 G2].
    open_sub p1; try discriminate H. open_sub p2; try discriminate H.
    destruct (all_some (map (fun nf => elab (row_env glob row) (snd nf)) kfs)) as [tks|] eqn:Etks; [|discriminate H].
    destruct (elab (row_env glob row) (EAnnotate (top ROW row) kfs)) as [[[] xk]|] eqn:Ek; try discriminate H.
    destruct (index_schema row0 key0 (map fst tks) am) as [[is_iv schema]|] eqn:Eis; [|discriminate H].
    dm H. inversion H; subst. clear H. split_bools. use_elab.
    destruct (index_schema_spec _ _ _ _ _ _ Eis) as [rk [Erk [Esch Hiv]]].
    pose proof (IHp1 _ _ eq_refl G1) as S1. pose proof (IHp2 _ _ eq_refl G2) as S2.
    match goal with Hk : match key_types ?a ?b with _ => _ end = true |- _ =>
      destruct (key_types a b) as [lk|] eqn:Elk; [apply tys_eqb_eq in Hk; subst lk | discriminate Hk] end.
    match goal with Hm : mem uid _ = false |- _ => pose proof (append_key_fresh _ _ schema Hm) as HA;
                                                  pose proof (insert_field_fresh _ _ schema Hm) as HI end.
    match goal with Hs : subset key (names ?f) = true, Hm : mem uid (names ?f) = false |- _ =>
      pose proof (subset_names_app _ _ [(uid, schema)] Hs) as HS end.
    destruct is_iv.
    + destruct Hiv as [t [pt [rest [Ekt [Erk' Etp]]]]]. subst pt rk.
      cbn [strict_type subset forallb]. rewrite S1, S2. cbn [subset forallb]. rw_hyps.
      rewrite ?Ekt. rewrite ty_eqb_refl. rewrite <- Esch. rewrite HA. rw_hyps. reflexivity.
    + destruct Hiv as [Erk' Eam]. subst rk am.
      cbn [strict_type subset forallb]. rewrite S1, S2. cbn [subset forallb]. rw_hyps.
      rewrite tys_prefix_refl. rewrite <- Esch. rewrite HI. rw_hyps. reflexivity.
  - (* PRows *) open_sub p; try discriminate H. inversion H; subst. cbn [strict_type]. rewrite (IHp _ _ eq_refl G). reflexivity.
  - (* PCols *) open_sub p; try discriminate H. inversion H; subst. cbn [strict_type]. rewrite (IHp _ _ eq_refl G). reflexivity.
  - (* PEntries *) open_sub p; try discriminate H. dm H. inversion H; subst.
    cbn [strict_type]. rewrite (IHp _ _ eq_refl G). rw_hyps. reflexivity.
  - (* PMRange *) inversion H; subst; reflexivity.
  - (* PMAnnotateRows *) open_sub p; try discriminate H. dm H. inversion H; subst. use_elab.
    cbn [strict_type]. rewrite (IHp _ _ eq_refl G). rw_hyps. reflexivity.
  - (* PMAnnotateCols *) open_sub p; try discriminate H. dm H. inversion H; subst. use_elab.
    cbn [strict_type]. rewrite (IHp _ _ eq_refl G). rw_hyps. reflexivity.
  - (* PMAnnotateEntries *) open_sub p; try discriminate H. dm H. inversion H; subst. use_elab.
    cbn [strict_type]. rewrite (IHp _ _ eq_refl G). rw_hyps. reflexivity.
  - (* PMAnnotateGlobals *) open_sub p; try discriminate H. dm H. inversion H; subst. use_elab.
    cbn [strict_type]. rewrite (IHp _ _ eq_refl G). rw_hyps. reflexivity.
  - (* PMKeyRowsBy *) open_sub p; try discriminate H. dm H. inversion H; subst. split_bools.
    cbn [strict_type]. rewrite (IHp _ _ eq_refl G). rw_hyps. reflexivity.
  - (* PMKeyColsBy *) open_sub p; try discriminate H. dm H. inversion H; subst. use_elab.
    cbn [strict_type]. rewrite (IHp _ _ eq_refl G). rw_hyps. reflexivity.
  - (* PMAnnotateRowsIv *)
    apply andb_true_iff in G. destruct G as [G12 G3]. apply andb_true_iff in G12. destruct G12 as [G1 G2].
    open_sub p1; try discriminate H. open_sub p2; try discriminate H.
    destruct (elab (mrow_env glob row) k) as [[tk xk]|] eqn:Ek; [|discriminate H].
    destruct (index_schema row0 key (cons tk nil) am) as [[[] schema]|] eqn:Eis; try discriminate H.
    apply andb_true_iff in G3. destruct G3 as [Glen Gkey]. apply Nat.leb_le in Glen.
    destruct (key_types row rowkey) as [[|tk0 mk]|] eqn:Emk; try discriminate Gkey.
    apply ty_eqb_eq in Gkey. subst tk0.
    pose proof (IHp1 _ _ eq_refl G1) as S1. pose proof (IHp2 _ _ eq_refl G2) as S2.
    dm H. inversion H; subst. clear H. split_bools. use_elab.
    destruct (index_schema_spec _ _ _ _ _ _ Eis) as [rk [Erk [Esch Hiv]]].
    destruct Hiv as [t [pt [rest [Ekt [Erk' Etp]]]]]. inversion Ekt; subst t pt. subst rk.
    pose proof (key_types_length _ _ _ Erk) as Hlen. cbn [length] in Hlen.
    assert (rest = []) as -> by (destruct rest; [reflexivity | cbn [length] in Hlen; lia]).
    match goal with Hm : mem uid _ = false |- _ => pose proof (append_key_fresh _ _ schema Hm) as HA end.
    cbn [strict_type]. rewrite S1, S2. rewrite Erk, Emk. rewrite ty_eqb_refl, orb_true_r.
    rewrite <- Esch. rewrite HA. rw_hyps. reflexivity.
Qed.


(** *** statements in the form used by Props_C36.v *)
Theorem table_type_agreement_partial : forall (p : prog) (t : rty),
  reported p = Some t -> simple_interval_keys p = true -> exists x, emitted p = Some x /\ strict_type x = Some t.
Proof.
  intros p t H G. unfold reported, emitted in *. destruct (telab p) as [[t' x]|] eqn:E; [|discriminate H].
  cbn in H. inversion H; subst. exists x. split; [reflexivity | eapply telab_sound; eauto].
Qed.

(* the full statement (no guard) *)
Definition table_type_agreement_full : Prop :=
  forall (p : prog) (t : rty) (x : rir), telab p = Some (t, x) -> strict_type x = Some t.

Open Scope N_scope.
Definition tfield (row : fields) (f : N) : fe := EField (top ROW row) f.     (* t.f *)
Definition vafield (row : fields) (f : N) : fe := EField (top VA row) f.    (* mt.f, a row field *)
Definition lookup_of (v uid : N) : fe := EField (EVar v) uid.               (* the expression  r.index(..)  itself *)

(* r = hl.utils.range_table(n); r = r.annotate(a = hl.interval(r.idx, r.idx)); r = r.key_by('a') *)
Definition ex_right_iv : prog := PKeyBy (PAnnotate PRange [(0, EInterval (tfield [(IDX, TI32)] IDX) (tfield [(IDX, TI32)] IDX))]) [0].
(* ... r.key_by('a', 'idx'): a compound key that starts with an interval *)
Definition ex_right_iv2 : prog := PKeyBy (PAnnotate PRange [(0, EInterval (tfield [(IDX, TI32)] IDX) (tfield [(IDX, TI32)] IDX))]) [0; IDX].

(* t = hl.utils.range_table(n); t = t.annotate(b = t.idx * 3); t.annotate(c = r.index(t.b, all_matches=True)):
   reported row type {idx: int32, b: int32, c: array<struct{idx: int32}>}, key [idx]; the guard holds *)
Definition ex_left : prog := PAnnotate PRange [(1, EArith Mul (tfield [(IDX, TI32)] IDX) (ELitInt 3))].
Example example_interval_lookup :
  let p := PAnnotateIdx ex_left ex_right_iv 7 [(8, tfield [(IDX, TI32); (1, TI32)] 1)] true [(2, lookup_of ROW 7)] in
  reported p = Some (RT (TT [] [(IDX, TI32); (1, TI32); (2, TArr (TStruct [(IDX, TI32)]))] [IDX]))
  /\ simple_interval_keys p = true
  /\ option_map strict_type (emitted p) = Some (reported p).
Proof. vm_compute. repeat split. Qed.

(* hl.utils.range_table(n).order_by('idx') : the front end reports an UNKEYED table, as the engine types TableOrderBy *)
Example example_order_by :
  telab (POrderBy PRange [(IDX, true)]) = Some (RT (TT [] [(IDX, TI32)] []), TableOrderBy TableRange [(IDX, true)])
  /\ strict_type (TableOrderBy TableRange [(IDX, true)]) = Some (RT (TT [] [(IDX, TI32)] [])).
Proof. split; reflexivity. Qed.

(* REFUTED (1): mt = hl.utils.range_matrix_table(n, m); mt.annotate_rows(c = r2.index(mt.row_idx)) with r2 keyed by
   (interval<int32>, int32): the front end accepts (is_interval only looks at the FIRST key field) and emits
   MatrixAnnotateRowsTable, whose TypeCheck demands a one-field interval key (or a key prefix match) *)
Definition ex_refuted_compound_key : prog :=
  PMAnnotateRowsIv PMRange ex_right_iv2 7 (vafield [(ROW_IDX, TI32)] ROW_IDX) false [(2, lookup_of VA 7)].
(* REFUTED (2): the matrix is keyed by a str field, the lookup uses the int32 row field: MatrixAnnotateRowsTable joins on
   the ROW KEY (the index expression is dropped), whose type is not the interval's point type *)
Definition ex_refuted_row_key_type : prog :=
  let m := PMKeyRowsBy (PMAnnotateRows PMRange [(1, ELitStr 0)]) [1] in
  PMAnnotateRowsIv m ex_right_iv 7 (vafield [(ROW_IDX, TI32); (1, TStr)] ROW_IDX) false [(2, lookup_of VA 7)].

(* k1 = range_table(n).annotate(a = 1).key_by('a')  (row {idx, a});  k2 = k1.select('idx')  (row {a, idx});
   k1.union(k2, unify=True): the value types coincide but the row types do not.  Before e910686b1 the front end made no
   select here and sent a TableUnion of differently ordered rows (finding TableUnion:row-field-order, fixed); now both
   tables are re-selected into the row {a, idx} *)
Definition ex_union_k1 : prog := PKeyBy (PAnnotate PRange [(0, ELitInt 1)]) [0].
Definition ex_union_order : prog := PUnion ex_union_k1 (PSelect ex_union_k1 [IDX]) true.
Example example_union_key_position :
  reported ex_union_order = Some (RT (TT [] [(0, TI32); (IDX, TI32)] [0]))
  /\ option_map strict_type (emitted ex_union_order) = Some (reported ex_union_order)
  (* the shortcut as it was: the two tables sent as they are have no type *)
  /\ option_map strict_type (option_map (fun a => TableUnion a (TableMapRows a (InsertFields (SelectFields (SelectFields (Ref ROW (TStruct [(IDX, TI32); (0, TI32)])) [IDX; 0]) [0; IDX]) [])))
                                        (emitted ex_union_k1)) = Some None.
Proof. vm_compute. repeat split. Qed.

(* t1 = range.annotate(a = idx, b = 'x'); t2 = range.annotate(b = 'y', a = 1.5); t1.union(t2, unify=True):
   a is promoted to float64 in the first table, the second is re-ordered; reported row {idx, a: float64, b: str} *)
Example example_union_unify :
  let t1 := PAnnotate PRange [(0, tfield [(IDX, TI32)] IDX); (1, ELitStr 1)] in
  let t2 := PAnnotate PRange [(1, ELitStr 2); (0, ELitFloat 1)] in
  reported (PUnion t1 t2 true) = Some (RT (TT [] [(IDX, TI32); (0, TF64); (1, TStr)] [IDX]))
  /\ simple_interval_keys (PUnion t1 t2 true) = true
  /\ option_map strict_type (emitted (PUnion t1 t2 true)) = Some (reported (PUnion t1 t2 true)).
Proof. vm_compute. repeat split. Qed.

Theorem table_type_agreement_refuted :
  (exists t x, telab ex_refuted_compound_key = Some (t, x) /\ strict_type x = None) /\
  (exists t x, telab ex_refuted_row_key_type = Some (t, x) /\ strict_type x = None).
Proof. repeat split; vm_compute; eexists; eexists; split; reflexivity. Qed.

Theorem table_type_agreement_full_fails : ~ table_type_agreement_full.
Proof.
  intro F. destruct table_type_agreement_refuted as [[t [x [E S]]] _]. rewrite (F _ _ _ E) in S. discriminate S.
Qed.
Close Scope N_scope.
