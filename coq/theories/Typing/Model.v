(** C36 — executable model of how the Hail Python front end types expressions and which IR it emits for them
    (hail/python/hail/expr/expressions/{base_expression,typed_expressions,expression_typecheck}.py, expr/functions.py),
    of the type the IR implies (ir.py [_compute_type], read strictly: operand types must agree as the engine demands),
    and of [impute_type] / [HailType.typecheck] for Python values.  Definitions only. *)
From HailV Require Import Common.Prelude.

Inductive ty :=
| TI32 | TI64 | TF32 | TF64 | TBool | TStr
| TArr (t : ty) | TStream (t : ty) | TStruct (fs : list (N * ty)) | TTuple (ts : list ty)
| TInterval (t : ty).                  (* interval<t>: key type of interval-keyed tables *)

Fixpoint ty_eqb (a b : ty) : bool :=
  match a, b with
  | TI32, TI32 | TI64, TI64 | TF32, TF32 | TF64, TF64 | TBool, TBool | TStr, TStr => true
  | TArr x, TArr y => ty_eqb x y
  | TStream x, TStream y => ty_eqb x y
  | TInterval x, TInterval y => ty_eqb x y
  | TStruct fs, TStruct gs =>
      (fix go (fs gs : list (N * ty)) : bool :=
         match fs, gs with
         | [], [] => true
         | (n, x) :: fs', (m, y) :: gs' => N.eqb n m && ty_eqb x y && go fs' gs'
         | _, _ => false
         end) fs gs
  | TTuple ts, TTuple us =>
      (fix go (ts us : list ty) : bool :=
         match ts, us with
         | [], [] => true
         | x :: ts', y :: us' => ty_eqb x y && go ts' us'
         | _, _ => false
         end) ts us
  | _, _ => false
  end.

(** numeric tower (bool counts as numeric in the front end) *)
Definition rank (t : ty) : option nat :=
  match t with TBool => Some 0%nat | TI32 => Some 1%nat | TI64 => Some 2%nat | TF32 => Some 3%nat | TF64 => Some 4%nat | _ => None end.
Definition is_numeric (t : ty) : bool := match rank t with Some _ => true | None => false end.
Definition of_rank (r : nat) : ty :=
  match r with 0%nat => TBool | 1%nat => TI32 | 2%nat => TI64 | 3%nat => TF32 | _ => TF64 end.

Inductive binop := Add | Sub | Mul | FloorDiv | Div.
Inductive unop := Neg | Not.
Inductive cmpop := Lt | Le | Gt | Ge | Eq | Ne.
Inductive fn := ToInt32 | ToInt64 | ToFloat32 | ToFloat64 | FConcat | FLength | FIndexArray | FStr | FInterval.

Inductive ir :=
| I32 (z : Z) | I64 (z : Z) | F64 (q : N) | Str (s : N) | TrueIR | FalseIR
| Apply (f : fn) (ret : ty) (args : list ir)
| BinOp (o : binop) (a b : ir) | UnOp (o : unop) (a : ir) | CmpOp (o : cmpop) (a b : ir)
| If (c a b : ir) | Let (x : N) (a b : ir) | Ref (x : N) (t : ty)
| MakeStruct (fs : list (N * ir)) | GetField (o : ir) (f : N)
| InsertFields (o : ir) (fs : list (N * ir)) | SelectFields (o : ir) (fs : list N)
| MakeArray (es : list ir) | ArrayLen (a : ir) | CastToArray (a : ir) | ToArray (a : ir) | ToStream (a : ir)
| StreamMap (x : N) (a b : ir) | StreamFilter (x : N) (a b : ir) | StreamFold (acc x : N) (a z b : ir)
| MakeTuple (es : list ir) | GetTupleElement (o : ir) (i : nat)
| Coalesce (a b : ir).                  (* Table.filter wraps its predicate: Coalesce(pred, False) *)

(** *** type environments and struct types *)
Definition tenv := list (N * ty).
Fixpoint lookup_ty (l : list (N * ty)) (k : N) : option ty :=
  match l with [] => None | (k', v) :: r => if N.eqb k' k then Some v else lookup_ty r k end.
(* dict.update on an insertion-ordered dict: replace in place, else append *)
Fixpoint insert_field (l : list (N * ty)) (k : N) (v : ty) : list (N * ty) :=
  match l with
  | [] => [(k, v)]
  | (k', v') :: r => if N.eqb k' k then (k, v) :: r else (k', v') :: insert_field r k v
  end.
Definition insert_fields (l : list (N * ty)) (new : list (N * ty)) : list (N * ty) :=
  fold_left (fun acc kv => insert_field acc (fst kv) (snd kv)) new l.
Fixpoint select_fields (l : list (N * ty)) (ks : list N) : option (list (N * ty)) :=
  match ks with
  | [] => Some []
  | k :: r => match lookup_ty l k, select_fields l r with Some t, Some rest => Some ((k, t) :: rest) | _, _ => None end
  end.
Fixpoint all_some {A} (l : list (option A)) : option (list A) :=
  match l with [] => Some [] | Some x :: r => option_map (cons x) (all_some r) | None :: _ => None end.
Fixpoint all_eq (t : ty) (l : list ty) : bool := match l with [] => true | x :: r => ty_eqb x t && all_eq t r end.
Fixpoint nodupN (l : list N) : bool :=
  match l with [] => true | x :: r => negb (existsb (N.eqb x) r) && nodupN r end.

(** *** the type the IR implies (strict reading of [_compute_type]: mismatched operands have no type) *)
Definition sig_ok (f : fn) (args : list ty) (ret : ty) : bool :=
  match f, args with
  | ToInt32, [t] => is_numeric t && ty_eqb ret TI32
  | ToInt64, [t] => is_numeric t && ty_eqb ret TI64
  | ToFloat32, [t] => is_numeric t && ty_eqb ret TF32
  | ToFloat64, [t] => is_numeric t && ty_eqb ret TF64
  | FConcat, [TStr; TStr] => ty_eqb ret TStr
  | FLength, [TStr] => ty_eqb ret TI32
  | FIndexArray, [TArr t; TI32] => ty_eqb ret t
  | FStr, [_] => ty_eqb ret TStr
  | FInterval, [a; b; TBool; TBool] => ty_eqb a b && ty_eqb ret (TInterval a)
  | _, _ => false
  end.

Definition arith_ty (o : binop) (t : ty) : option ty :=
  match rank t with
  | Some (S r) => Some (match o with Div => match t with TI32 | TI64 => TF64 | _ => t end | _ => t end)
  | _ => None
  end.

Fixpoint ir_type (g : tenv) (x : ir) : option ty :=
  match x with
  | I32 _ => Some TI32 | I64 _ => Some TI64 | F64 _ => Some TF64 | Str _ => Some TStr
  | TrueIR | FalseIR => Some TBool
  | Apply f ret args =>
      match all_some (map (ir_type g) args) with
      | Some ts => if sig_ok f ts ret then Some ret else None
      | None => None
      end
  | BinOp o a b =>
      match ir_type g a, ir_type g b with
      | Some ta, Some tb => if ty_eqb ta tb then arith_ty o ta else None
      | _, _ => None
      end
  | UnOp Neg a => match ir_type g a with Some t => match rank t with Some (S _) => Some t | _ => None end | None => None end
  | UnOp Not a => match ir_type g a with Some TBool => Some TBool | _ => None end
  | CmpOp _ a b =>
      match ir_type g a, ir_type g b with
      | Some ta, Some tb => if ty_eqb ta tb then Some TBool else None
      | _, _ => None
      end
  | If c a b =>
      match ir_type g c, ir_type g a, ir_type g b with
      | Some TBool, Some ta, Some tb => if ty_eqb ta tb then Some ta else None
      | _, _, _ => None
      end
  | Let x a b => match ir_type g a with Some ta => ir_type ((x, ta) :: g) b | None => None end
  | Ref x t => match lookup_ty g x with Some t' => if ty_eqb t' t then Some t else None | None => None end
  | MakeStruct fs =>
      if nodupN (map fst fs) then
        match all_some (map (fun nf => ir_type g (snd nf)) fs) with
        | Some ts => Some (TStruct (combine (map fst fs) ts))
        | None => None
        end
      else None
  | GetField o f => match ir_type g o with Some (TStruct fs) => lookup_ty fs f | _ => None end
  | InsertFields o fs =>
      match ir_type g o, all_some (map (fun nf => ir_type g (snd nf)) fs) with
      | Some (TStruct old), Some ts => Some (TStruct (insert_fields old (combine (map fst fs) ts)))
      | _, _ => None
      end
  | SelectFields o ks =>
      match ir_type g o with
      | Some (TStruct old) => if nodupN ks then option_map TStruct (select_fields old ks) else None
      | _ => None
      end
  | MakeArray es =>
      match all_some (map (ir_type g) es) with
      | Some (t :: ts) => if all_eq t ts then Some (TArr t) else None
      | _ => None
      end
  | ArrayLen a => match ir_type g a with Some (TArr _) => Some TI32 | _ => None end
  | CastToArray a => match ir_type g a with Some (TArr t) => Some (TArr t) | _ => None end
  | ToArray a => match ir_type g a with Some (TStream t) => Some (TArr t) | _ => None end
  | ToStream a => match ir_type g a with Some (TArr t) => Some (TStream t) | _ => None end
  | StreamMap x a b =>
      match ir_type g a with
      | Some (TStream t) => option_map TStream (ir_type ((x, t) :: g) b)
      | _ => None
      end
  | StreamFilter x a b =>
      match ir_type g a with
      | Some (TStream t) => match ir_type ((x, t) :: g) b with Some TBool => Some (TStream t) | _ => None end
      | _ => None
      end
  | StreamFold acc x a z b =>
      match ir_type g a, ir_type g z with
      | Some (TStream t), Some tz =>
          match ir_type ((x, t) :: (acc, tz) :: g) b with
          | Some tb => if ty_eqb tb tz then Some tz else None
          | None => None
          end
      | _, _ => None
      end
  | MakeTuple es => option_map TTuple (all_some (map (ir_type g) es))
  | GetTupleElement o i => match ir_type g o with Some (TTuple ts) => nth_error ts i | _ => None end
  | Coalesce a b =>
      match ir_type g a, ir_type g b with
      | Some ta, Some tb => if ty_eqb ta tb then Some ta else None
      | _, _ => None
      end
  end.

(** *** front-end programs: what the user writes with the expression API *)
Inductive fe :=
| ELitInt (z : Z) | ELitFloat (q : N) | ELitBool (b : bool) | ELitStr (s : N)
| EArith (o : binop) (a b : fe)          (* + - * // / on numeric expressions *)
| ENeg (a : fe) | ENot (a : fe) | ECmp (o : cmpop) (a b : fe)
| EIf (c a b : fe) | EBind (x : N) (a b : fe) | EVar (x : N)
| EStruct (fs : list (N * fe)) | EField (e : fe) (f : N)
| EAnnotate (e : fe) (fs : list (N * fe)) | ESelect (e : fe) (ks : list N) | EDrop (e : fe) (ks : list N)
| EArray (es : list fe) | ELen (e : fe) | EIndex (e i : fe)
| EMap (x : N) (a b : fe) | EFilter (x : N) (a b : fe) | EFold (acc x : N) (a z b : fe)
| ETuple (es : list fe) | ETupleGet (e : fe) (i : nat)
| ECast (t : ty) (e : fe) | EStrOf (e : fe) | EConcat (a b : fe)
| EInterval (a b : fe).                 (* hl.interval(a, b): both ends of the same type, closed-open *)

Definition to_fn (t : ty) : fn := match t with TI32 => ToInt32 | TI64 => ToInt64 | TF32 => ToFloat32 | _ => ToFloat64 end.
(* Coercer.coerce: nothing if the type is already right, else the conversion function *)
Definition coerce (t : ty) (tx : ty * ir) : ir :=
  if ty_eqb (fst tx) t then snd tx else Apply (to_fn t) t [snd tx].
Definition max_rank (ts : list ty) : option nat :=
  fold_right (fun t acc => match rank t, acc with Some r, Some m => Some (Nat.max r m) | _, _ => None end) (Some 0%nat) ts.
(* ir.toStream: ToStream, except that the stream under a ToArray is used directly *)
Definition to_stream (x : ir) : ir := match x with ToArray s => s | _ => ToStream x end.
(* unify_exprs / unify_types on a list of expressions: all the same type, or all numeric -> the largest *)
Definition unify (txs : list (ty * ir)) : option (ty * list ir) :=
  match txs with
  | [] => None
  | (t0, _) :: _ =>
      if all_eq t0 (map fst txs) then Some (t0, map snd txs)
      else match max_rank (map fst txs) with
           | Some r => let t := of_rank r in Some (t, map (coerce t) txs)
           | None => None
           end
  end.
Definition is_getfield_nonref (x : ir) : bool :=
  match x with GetField (Ref _ _) _ => false | GetField _ _ => true | _ => false end.

Definition int32_min : Z := -2147483648. Definition int32_max : Z := 2147483647.
Definition int64_min : Z := -9223372036854775808. Definition int64_max : Z := 9223372036854775807.

(* in arithmetic a bool counts as an int32 *)
Definition up1 (r : nat) : nat := Nat.max 1 r.

(* the front end builds type and IR together: (dtype reported, IR emitted) *)
Fixpoint elab (g : tenv) (e : fe) : option (ty * ir) :=
  match e with
  | ELitInt z =>
      if (int32_min <=? z)%Z && (z <=? int32_max)%Z then Some (TI32, I32 z)
      else if (int64_min <=? z)%Z && (z <=? int64_max)%Z then Some (TI64, I64 z) else None
  | ELitFloat q => Some (TF64, F64 q)
  | ELitBool b => Some (TBool, if b then TrueIR else FalseIR)
  | ELitStr s => Some (TStr, Str s)
  | EArith o a b =>
      match elab g a, elab g b with
      | Some (ta, xa), Some (tb, xb) =>
          match rank ta, rank tb with
          | Some ra, Some rb =>
              let t := of_rank (up1 (Nat.max ra rb)) in
              match arith_ty o t with
              | Some ret => Some (ret, BinOp o (coerce t (ta, xa)) (coerce t (tb, xb)))
              | None => None
              end
          | _, _ => None
          end
      | _, _ => None
      end
  | ENeg a =>
      match elab g a with
      | Some (ta, xa) =>
          match rank ta with
          | Some r => let t := of_rank (up1 r) in Some (t, UnOp Neg (coerce t (ta, xa)))
          | None => None
          end
      | None => None
      end
  | ENot a => match elab g a with Some (TBool, xa) => Some (TBool, UnOp Not xa) | _ => None end
  | ECmp o a b =>
      match elab g a, elab g b with
      | Some (ta, xa), Some (tb, xb) =>
          let by_unify :=
            match unify [(ta, xa); (tb, xb)] with
            | Some (_, [ya; yb]) => Some (TBool, CmpOp o ya yb)
            | _ => None
            end in
          match o with
          | Eq | Ne => by_unify
          | _ =>
              (* ordering on a numeric expression: the argument is first coerced by [expr_numeric] (a bool becomes
                 an int32), then both sides go through _bin_op_numeric *)
              match rank ta with
              | Some ra =>
                  match rank tb with
                  | Some rb =>
                      let b' := if ty_eqb tb TBool then (TI32, coerce TI32 (tb, xb)) else (tb, xb) in
                      let t := of_rank (up1 (Nat.max ra rb)) in
                      Some (TBool, CmpOp o (coerce t (ta, xa)) (coerce t b'))
                  | None => None
                  end
              | None => by_unify
              end
          end
      | _, _ => None
      end
  | EIf c a b =>
      match elab g c, elab g a, elab g b with
      | Some (TBool, xc), Some ta, Some tb =>
          match unify [ta; tb] with
          | Some (t, [xa; xb]) => Some (t, If xc xa xb)
          | _ => None
          end
      | _, _, _ => None
      end
  | EBind x a b =>
      match elab g a with
      | Some (ta, xa) => match elab ((x, ta) :: g) b with Some (tb, xb) => Some (tb, Let x xa xb) | None => None end
      | None => None
      end
  | EVar x => match lookup_ty g x with Some t => Some (t, Ref x t) | None => None end
  | EStruct fs =>
      if nodupN (map fst fs) then
        match all_some (map (fun nf => elab g (snd nf)) fs) with
        | Some txs => Some (TStruct (combine (map fst fs) (map fst txs)), MakeStruct (combine (map fst fs) (map snd txs)))
        | None => None
        end
      else None
  | EField e f =>
      match elab g e with
      | Some (TStruct ts, x) =>
          match lookup_ty ts f with
          | Some t =>
              Some (t, match x with
                       | MakeStruct xs =>                       (* the field expression itself *)
                           (fix find (l : list (N * ir)) : ir :=
                              match l with [] => GetField x f | (k, v) :: r => if N.eqb k f then v else find r end) xs
                       | SelectFields old _ => GetField old f
                       | _ => GetField x f
                       end)
          | None => None
          end
      | _ => None
      end
  | EAnnotate e fs =>
      match elab g e with
      | Some (TStruct ts, x) =>
          if nodupN (map fst fs) then
            match all_some (map (fun nf => elab g (snd nf)) fs) with
            | Some txs =>
                (* InsertFields.construct_with_deduplication would introduce a Let when two new fields read the
                   same struct: outside the model *)
                if (2 <=? length (filter is_getfield_nonref (map snd txs)))%nat then None
                else Some (TStruct (insert_fields ts (combine (map fst fs) (map fst txs))),
                           InsertFields x (combine (map fst fs) (map snd txs)))
            | None => None
            end
          else None
      | _ => None
      end
  | ESelect e ks =>
      match elab g e with
      | Some (TStruct ts, x) =>
          if nodupN ks then
            match select_fields ts ks with Some sel => Some (TStruct sel, SelectFields x ks) | None => None end
          else None
      | _ => None
      end
  | EDrop e ks =>
      match elab g e with
      | Some (TStruct ts, x) =>
          if forallb (fun k => existsb (N.eqb k) (map fst ts)) ks && nodupN (map fst ts) then
            let keep := filter (fun k => negb (existsb (N.eqb k) ks)) (map fst ts) in
            match select_fields ts keep with Some sel => Some (TStruct sel, SelectFields x keep) | None => None end
          else None
      | _ => None
      end
  | EArray es =>
      match all_some (map (elab g) es) with
      | Some txs => match unify txs with Some (t, xs) => Some (TArr t, MakeArray xs) | None => None end
      | None => None
      end
  | ELen e => match elab g e with Some (TArr _, x) => Some (TI32, ArrayLen (CastToArray x)) | _ => None end
  | EIndex e i =>
      match elab g e, elab g i with
      | Some (TArr t, x), Some (TI32, xi) => Some (t, Apply FIndexArray t [x; xi])
      | _, _ => None
      end
  | EMap x a b =>
      match elab g a with
      | Some (TArr t, xa) =>
          match elab ((x, t) :: g) b with
          | Some (tb, xb) => Some (TArr tb, ToArray (StreamMap x (to_stream xa) xb))
          | None => None
          end
      | _ => None
      end
  | EFilter x a b =>
      match elab g a with
      | Some (TArr t, xa) =>
          match elab ((x, t) :: g) b with
          | Some (TBool, xb) => Some (TArr t, ToArray (StreamFilter x (to_stream xa) xb))
          | _ => None
          end
      | _ => None
      end
  | EFold acc x a z b =>
      match elab g a, elab g z with
      | Some (TArr t, xa), Some (tz, xz) =>
          match elab ((x, t) :: (acc, tz) :: g) b with
          | Some (tb, xb) =>
              if ty_eqb tb tz then Some (tz, StreamFold acc x (to_stream xa) xz xb)
              else match rank tb, rank tz with
                   | Some rb, Some rz =>
                       (* the zero's coercer converts the body; the other direction (re-running the lambda) is
                          outside the model *)
                       if (rb <=? rz)%nat then Some (tz, StreamFold acc x (to_stream xa) xz (coerce tz (tb, xb))) else None
                   | _, _ => None
                   end
          | None => None
          end
      | _, _ => None
      end
  | ETuple es =>
      match all_some (map (elab g) es) with
      | Some txs => Some (TTuple (map fst txs), MakeTuple (map snd txs))
      | None => None
      end
  | ETupleGet e i =>
      match elab g e with
      | Some (TTuple ts, x) => match nth_error ts i with Some t => Some (t, GetTupleElement x i) | None => None end
      | _ => None
      end
  | ECast t e =>
      match elab g e with
      | Some (te, x) =>
          match t with
          | TI32 | TI64 | TF32 | TF64 => if is_numeric te then Some (t, coerce t (te, x)) else None
          | _ => None
          end
      | None => None
      end
  | EStrOf e =>
      match elab g e with
      | Some (te, x) => Some (TStr, if ty_eqb te TStr then x else Apply FStr TStr [x])
      | None => None
      end
  | EConcat a b =>
      match elab g a, elab g b with
      | Some (TStr, xa), Some (TStr, xb) => Some (TStr, Apply FConcat TStr [xa; xb])
      | _, _ => None
      end
  | EInterval a b =>
      match elab g a, elab g b with
      | Some (ta, xa), Some (tb, xb) =>
          if ty_eqb ta tb then Some (TInterval ta, Apply FInterval (TInterval ta) [xa; xb; TrueIR; FalseIR]) else None
      | _, _ => None
      end
  end.

Definition fe_type (g : tenv) (e : fe) : option ty := option_map fst (elab g e).
Definition to_ir (g : tenv) (e : fe) : option ir := option_map snd (elab g e).

(** *** Python values, [impute_type] and the typecheck a literal must pass *)
Inductive pv :=
| PNone | PBool (b : bool) | PInt (z : Z) | PFloat (q : N) | PStr (s : N)
| PList (l : list pv) | PTuple (l : list pv) | PStruct (fs : list (N * pv)).

(* types with holes ([None] inside a Hail type while imputing); [HFail]: element types that cannot be unified *)
Inductive hty :=
| HHole | HFail | HI32 | HI64 | HF64 | HBool | HStr
| HArr (t : hty) | HStruct (fs : list (N * hty)) | HTuple (ts : list hty).

Definition hrank (t : hty) : option nat :=
  match t with HBool => Some 0%nat | HI32 => Some 1%nat | HI64 => Some 2%nat | HF64 => Some 4%nat | _ => None end.
Definition of_hrank (r : nat) : hty := match r with 0%nat => HBool | 1%nat => HI32 | 2%nat => HI64 | _ => HF64 end.

Fixpoint hty_eqb (a b : hty) : bool :=
  match a, b with
  | HHole, HHole | HFail, HFail | HI32, HI32 | HI64, HI64 | HF64, HF64 | HBool, HBool | HStr, HStr => true
  | HArr x, HArr y => hty_eqb x y
  | HStruct fs, HStruct gs =>
      (fix go (fs gs : list (N * hty)) : bool :=
         match fs, gs with
         | [], [] => true
         | (n, x) :: fs', (m, y) :: gs' => N.eqb n m && hty_eqb x y && go fs' gs'
         | _, _ => false
         end) fs gs
  | HTuple ts, HTuple us =>
      (fix go (ts us : list hty) : bool :=
         match ts, us with
         | [], [] => true
         | x :: ts', y :: us' => hty_eqb x y && go ts' us'
         | _, _ => false
         end) ts us
  | _, _ => false
  end.

(* super_unify_types on two types (the n-ary function is the fold of this one; a failure below an array or a
   struct field stays a failure) *)
Fixpoint unify2 (a b : hty) : hty :=
  match a, b with
  | HFail, _ | _, HFail => HFail
  | HHole, x => x
  | x, HHole => x
  | HArr x, HArr y => HArr (unify2 x y)
  | HStruct fs, HStruct gs =>
      (* same field names in the same order (otherwise the real function takes a union whose order is unspecified:
         outside the model) *)
      match (fix go (fs gs : list (N * hty)) : option (list (N * hty)) :=
               match fs, gs with
               | [], [] => Some []
               | (n, x) :: fs', (m, y) :: gs' =>
                   if N.eqb n m then option_map (cons (n, unify2 x y)) (go fs' gs') else None
               | _, _ => None
               end) fs gs with
      | Some r => HStruct r
      | None => HFail
      end
  | HTuple _, HTuple _ => if hty_eqb a b then a else HFail
  | HStr, HStr => HStr
  | _, _ => match hrank a, hrank b with
            | Some ra, Some rb => of_hrank (Nat.max ra rb)
            | _, _ => HFail
            end
  end.

Fixpoint impute_h (v : pv) : option hty :=
  match v with
  | PNone => Some HHole
  | PBool _ => Some HBool
  | PInt z =>
      if (int32_min <=? z)%Z && (z <=? int32_max)%Z then Some HI32
      else if (int64_min <=? z)%Z && (z <=? int64_max)%Z then Some HI64 else None
  | PFloat _ => Some HF64
  | PStr _ => Some HStr
  | PList l =>
      match l with
      | [] => Some (HArr HHole)
      | _ => match all_some (map impute_h l) with
             | Some hs => match fold_left unify2 hs HHole with
                          | HHole | HFail => None            (* "heterogeneous arrays" / nothing to impute from *)
                          | u => Some (HArr u)
                          end
             | None => None
             end
      end
  | PTuple l => option_map HTuple (all_some (map impute_h l))
  | PStruct fs =>
      if nodupN (map fst fs) then
        option_map (fun hs => HStruct (combine (map fst fs) hs)) (all_some (map (fun nf => impute_h (snd nf)) fs))
      else None
  end.

(* raise_for_holes *)
Fixpoint to_ty (h : hty) : option ty :=
  match h with
  | HHole | HFail => None
  | HI32 => Some TI32 | HI64 => Some TI64 | HF64 => Some TF64 | HBool => Some TBool | HStr => Some TStr
  | HArr t => option_map TArr (to_ty t)
  | HStruct fs => option_map (fun ts => TStruct (combine (map fst fs) ts)) (all_some (map (fun nf => to_ty (snd nf)) fs))
  | HTuple ts => option_map TTuple (all_some (map to_ty ts))
  end.

Definition impute (v : pv) : option ty := match impute_h v with Some h => to_ty h | None => None end.

(* what [hl.literal]'s check and the encoder need of a value of a type (missing is fine everywhere) *)
Fixpoint has_type (t : ty) (v : pv) : bool :=
  match v with
  | PNone => true
  | _ =>
    match t with
    | TI32 => match v with PInt z => (int32_min <=? z)%Z && (z <=? int32_max)%Z | PBool _ => true | _ => false end
    | TI64 => match v with PInt z => (int64_min <=? z)%Z && (z <=? int64_max)%Z | PBool _ => true | _ => false end
    | TF32 | TF64 => match v with PFloat _ | PInt _ | PBool _ => true | _ => false end
    | TBool => match v with PBool _ => true | _ => false end
    | TStr => match v with PStr _ => true | _ => false end
    | TArr te => match v with PList l | PTuple l => forallb (has_type te) l | _ => false end
    | TStream _ | TInterval _ => false
    | TTuple ts =>
        match v with
        | PTuple l =>
            (fix go (ts : list ty) (l : list pv) : bool :=
               match ts, l with
               | [], [] => true
               | t1 :: ts', v1 :: l' => has_type t1 v1 && go ts' l'
               | _, _ => false
               end) ts l
        | _ => false
        end
    | TStruct fts =>
        match v with
        | PStruct fvs =>
            (fix go (fts : list (N * ty)) (fvs : list (N * pv)) : bool :=
               match fts, fvs with
               | [], [] => true
               | (n, t1) :: fts', (m, v1) :: fvs' => N.eqb n m && has_type t1 v1 && go fts' fvs'
               | _, _ => false
               end) fts fvs
        | _ => false
        end
    end
  end.
