(** C36 — statements in the form used by Props_C36.v, and examples showing the hypotheses are satisfiable. *)
From HailV Require Import Common.Prelude Typing.Model Typing.Basics Typing.ElabSound Typing.ImputeSound.

Theorem type_agreement : forall (g : tenv) (e : fe) (t : ty),
  fe_type g e = Some t -> exists x, to_ir g e = Some x /\ ir_type g x = Some t.
Proof.
  intros g e t H. unfold fe_type, to_ir in *. destruct (elab g e) as [[t' x]|] eqn:E; [|discriminate H].
  cbn in H. inversion H; subst. exists x. split; [reflexivity | eapply elab_sound; eauto].
Qed.

(* hl.if_else(True, hl.struct(a=3, b='x').annotate(c=1.5).c, 3 // True): the front end says float64, inserts toFloat64/toInt32 *)
Example example_program :
  elab [] (EIf (ELitBool true)
               (EField (EAnnotate (EStruct [(0, ELitInt 3); (1, ELitStr 1)]) [(2, ELitFloat 1)]) 2)
               (EArith FloorDiv (ELitInt 3) (ELitBool true)))%N
  = Some (TF64,
          If TrueIR
             (GetField (InsertFields (MakeStruct [(0, I32 3); (1, Str 1)]) [(2, F64 1)]) 2)
             (Apply ToFloat64 TF64 [BinOp FloorDiv (I32 3) (Apply ToInt32 TI32 [TrueIR])]))%N.
Proof. reflexivity. Qed.

(* hl.literal([[1], None, [2**40, True]]) : array<array<int64>> *)
Example example_literal :
  impute (PList [PList [PInt 1]; PNone; PList [PInt 1099511627776; PBool true]]) = Some (TArr (TArr TI64)).
Proof. reflexivity. Qed.
