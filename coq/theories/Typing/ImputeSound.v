(** C36 — a literal's imputed type is satisfied by the value. *)
From HailV Require Import Common.Prelude Typing.Model Typing.Basics.

Section HtyInd.
  Variable P : hty -> Prop.
  Hypothesis H0 : P HHole. Hypothesis H0' : P HFail.
  Hypothesis H1 : P HI32. Hypothesis H2 : P HI64. Hypothesis H4 : P HF64. Hypothesis H5 : P HBool. Hypothesis H6 : P HStr.
  Hypothesis HA : forall t, P t -> P (HArr t).
  Hypothesis HR : forall fs, Forall (fun nf => P (snd nf)) fs -> P (HStruct fs).
  Hypothesis HT : forall ts, Forall P ts -> P (HTuple ts).
  Fixpoint hty_ind' (t : hty) : P t :=
    match t with
    | HHole => H0 | HFail => H0' | HI32 => H1 | HI64 => H2 | HF64 => H4 | HBool => H5 | HStr => H6
    | HArr x => HA x (hty_ind' x)
    | HStruct fs => HR fs ((fix go (l : list (N * hty)) : Forall (fun nf => P (snd nf)) l :=
                              match l with [] => Forall_nil _ | nf :: r => Forall_cons nf (hty_ind' (snd nf)) (go r) end) fs)
    | HTuple ts => HT ts ((fix go (l : list hty) : Forall P l :=
                             match l with [] => Forall_nil _ | x :: r => Forall_cons x (hty_ind' x) (go r) end) ts)
    end.
End HtyInd.

Section PvInd.
  Variable P : pv -> Prop.
  Hypothesis H0 : P PNone.
  Hypothesis H1 : forall b, P (PBool b). Hypothesis H2 : forall z, P (PInt z).
  Hypothesis H3 : forall q, P (PFloat q). Hypothesis H4 : forall s, P (PStr s).
  Hypothesis HL : forall l, Forall P l -> P (PList l).
  Hypothesis HT : forall l, Forall P l -> P (PTuple l).
  Hypothesis HS : forall fs, Forall (fun nf => P (snd nf)) fs -> P (PStruct fs).
  Fixpoint pv_ind' (v : pv) : P v :=
    let go_l := fix go (l : list pv) : Forall P l :=
                  match l with [] => Forall_nil _ | x :: r => Forall_cons x (pv_ind' x) (go r) end in
    match v with
    | PNone => H0 | PBool b => H1 b | PInt z => H2 z | PFloat q => H3 q | PStr s => H4 s
    | PList l => HL l (go_l l)
    | PTuple l => HT l (go_l l)
    | PStruct fs => HS fs ((fix go (l : list (N * pv)) : Forall (fun nf => P (snd nf)) l :=
                              match l with [] => Forall_nil _ | nf :: r => Forall_cons nf (pv_ind' (snd nf)) (go r) end) fs)
    end.
End PvInd.

(** [hsub a c]: every value of (a completion of) [a] is a value of [c]; everything is below a failure (which has no values) *)
Fixpoint hsub (a c : hty) : bool :=
  match c with
  | HFail => true
  | _ =>
    match a with
    | HHole => true
    | HFail => false
    | HStr => match c with HStr => true | _ => false end
    | HArr x => match c with HArr y => hsub x y | _ => false end
    | HStruct fs =>
        match c with
        | HStruct gs =>
            (fix go (fs gs : list (N * hty)) : bool :=
               match fs, gs with
               | [], [] => true
               | (n, x) :: fs', (m, y) :: gs' => N.eqb n m && hsub x y && go fs' gs'
               | _, _ => false
               end) fs gs
        | _ => false
        end
    | HTuple ts =>
        match c with
        | HTuple us =>
            (fix go (ts us : list hty) : bool :=
               match ts, us with
               | [], [] => true
               | x :: ts', y :: us' => hsub x y && go ts' us'
               | _, _ => false
               end) ts us
        | _ => false
        end
    | _ => match hrank a, hrank c with Some ra, Some rc => (ra <=? rc)%nat | _, _ => false end
    end
  end.

Fixpoint hsub_fields (fs gs : list (N * hty)) : bool :=
  match fs, gs with
  | [], [] => true
  | (n, x) :: fs', (m, y) :: gs' => N.eqb n m && hsub x y && hsub_fields fs' gs'
  | _, _ => false
  end.
Fixpoint hsub_list (ts us : list hty) : bool :=
  match ts, us with
  | [], [] => true
  | x :: ts', y :: us' => hsub x y && hsub_list ts' us'
  | _, _ => false
  end.
Lemma hsub_struct fs gs : hsub (HStruct fs) (HStruct gs) = hsub_fields fs gs.
Proof. reflexivity. Qed.
Lemma hsub_tuple ts us : hsub (HTuple ts) (HTuple us) = hsub_list ts us.
Proof. reflexivity. Qed.

Lemma hsub_refl a : hsub a a = true.
Proof.
  induction a as [| | | | | | |a IH|fs IH|ts IH] using hty_ind'; try reflexivity.
  - cbn [hsub]. exact IH.
  - rewrite hsub_struct. induction fs as [|[n x] fs IHf]; [reflexivity|]. inversion IH; subst. cbn [hsub_fields snd] in *.
    rewrite N.eqb_refl, H1, IHf by assumption. reflexivity.
  - rewrite hsub_tuple. induction ts as [|x ts IHf]; [reflexivity|]. inversion IH; subst. cbn [hsub_list].
    rewrite H1, IHf by assumption. reflexivity.
Qed.

Lemma hsub_fail_r a : hsub a HFail = true.
Proof. destruct a; reflexivity. Qed.

Lemma hty_eqb_eq : forall a b, hty_eqb a b = true -> a = b.
Proof.
  induction a as [| | | | | | |a IH|fs IH|ts IH] using hty_ind'; intro b; destruct b; cbn [hty_eqb]; try discriminate; try reflexivity.
  - intro H. f_equal. apply IH; exact H.
  - revert fs0. induction fs as [|[n x] fs IHf]; intros [|[m y] gs] H; try discriminate; [reflexivity|].
    inversion IH as [|? ? Hx Hr]; subst. cbn [snd] in Hx.
    apply andb_true_iff in H. destruct H as [H H3]. apply andb_true_iff in H. destruct H as [H1 H2].
    apply N.eqb_eq in H1. apply Hx in H2. specialize (IHf Hr gs H3). inversion IHf; subst. reflexivity.
  - revert ts0. induction ts as [|x ts IHf]; intros [|y us] H; try discriminate; [reflexivity|].
    inversion IH as [|? ? Hx Hr]; subst.
    apply andb_true_iff in H. destruct H as [H1 H2]. apply Hx in H1. specialize (IHf Hr us H2). inversion IHf; subst. reflexivity.
Qed.

Fixpoint unify_fields (fs gs : list (N * hty)) : option (list (N * hty)) :=
  match fs, gs with
  | [], [] => Some []
  | (n, x) :: fs', (m, y) :: gs' => if N.eqb n m then option_map (cons (n, unify2 x y)) (unify_fields fs' gs') else None
  | _, _ => None
  end.
Lemma unify2_struct fs gs :
  unify2 (HStruct fs) (HStruct gs) = match unify_fields fs gs with Some r => HStruct r | None => HFail end.
Proof. reflexivity. Qed.

Ltac easy_case H c := cbn in H |- *; destruct c; cbn in H |- *; try discriminate H; auto.

Lemma fields_lub_inv fs :
  Forall (fun nf : N * hty => forall b c, hsub (unify2 (snd nf) b) c = true -> hsub (snd nf) c = true /\ hsub b c = true) fs ->
  forall gs hs r, unify_fields fs gs = Some r -> hsub_fields r hs = true ->
                  hsub_fields fs hs = true /\ hsub_fields gs hs = true.
Proof.
  induction 1 as [|[n x] fs Hx Hr IHf]; intros [|[m y] gs] hs r Eu H; cbn [unify_fields] in Eu; try discriminate Eu.
  - inversion Eu; subst. destruct hs; [split; reflexivity | discriminate H].
  - cbn [snd] in Hx. destruct (N.eqb n m) eqn:En; [|discriminate Eu]. apply N.eqb_eq in En; subst m.
    destruct (unify_fields fs gs) as [r'|] eqn:Eu'; [|discriminate Eu]. cbn in Eu. inversion Eu; subst r. clear Eu.
    destruct hs as [|[k z] hs]; [discriminate H|]. cbn [hsub_fields] in H |- *.
    apply andb_true_iff in H. destruct H as [H H3]. apply andb_true_iff in H. destruct H as [H1 H2].
    destruct (Hx y z H2) as [A1 A2]. destruct (IHf gs hs r' Eu' H3) as [B1 B2].
    rewrite H1, A1, A2, B1, B2. split; reflexivity.
Qed.

Lemma unify2_lub_inv : forall a b c, hsub (unify2 a b) c = true -> hsub a c = true /\ hsub b c = true.
Proof.
  induction a as [| | | | | | |a IH|fs IH|ts IH] using hty_ind'; intros b c H.
  1-7: destruct b; easy_case H c.
  - (* HArr *)
    destruct b; try (easy_case H c; fail).
  - (* HStruct *)
    destruct b; try (easy_case H c; fail).
    { rewrite unify2_struct in H. destruct c; try (destruct (unify_fields fs fs0); cbn in H; discriminate H); [split; reflexivity|].
      rewrite !hsub_struct. destruct (unify_fields fs fs0) as [r|] eqn:Eu; [|cbn in H; discriminate H].
      rewrite hsub_struct in H. eapply fields_lub_inv; eauto. }
  - (* HTuple *)
    destruct b; try (easy_case H c; fail).
    cbn [unify2] in H. destruct (hty_eqb (HTuple ts) (HTuple ts0)) eqn:Eq.
    + apply hty_eqb_eq in Eq. inversion Eq; subst. auto.
    + destruct c; cbn in H; try discriminate H. split; reflexivity.
Qed.

Lemma fold_lub_inv hs : forall acc c,
  hsub (fold_left unify2 hs acc) c = true -> hsub acc c = true /\ Forall (fun h => hsub h c = true) hs.
Proof.
  induction hs as [|h hs IH]; intros acc c H; cbn [fold_left] in H; [split; [exact H | constructor]|].
  destruct (IH _ _ H) as [H1 H2]. destruct (unify2_lub_inv _ _ _ H1) as [A B]. split; [exact A | constructor; assumption].
Qed.

Fixpoint has_type_list (ts : list ty) (l : list pv) : bool :=
  match ts, l with [], [] => true | t1 :: ts', v1 :: l' => has_type t1 v1 && has_type_list ts' l' | _, _ => false end.
Fixpoint has_type_fields (fts : list (N * ty)) (fvs : list (N * pv)) : bool :=
  match fts, fvs with
  | [], [] => true
  | (n, t1) :: fts', (m, v1) :: fvs' => N.eqb n m && has_type t1 v1 && has_type_fields fts' fvs'
  | _, _ => false
  end.
Lemma has_type_tuple ts l : has_type (TTuple ts) (PTuple l) = has_type_list ts l.
Proof. reflexivity. Qed.
Lemma has_type_struct fts fvs : has_type (TStruct fts) (PStruct fvs) = has_type_fields fts fvs.
Proof. reflexivity. Qed.
Lemma has_type_none t : has_type t PNone = true.
Proof. destruct t; reflexivity. Qed.

Lemma int32_in_int64 z : ((int32_min <=? z) && (z <=? int32_max))%Z = true -> ((int64_min <=? z) && (z <=? int64_max))%Z = true.
Proof. unfold int32_min, int32_max, int64_min, int64_max. rewrite !andb_true_iff, !Z.leb_le. lia. Qed.

Lemma list_has_type l c' t' :
  Forall (fun v => forall h, impute_h v = Some h -> forall c t, hsub h c = true -> to_ty c = Some t -> has_type t v = true) l ->
  forall hs, all_some (map impute_h l) = Some hs -> Forall (fun h => hsub h c' = true) hs -> to_ty c' = Some t' ->
  forallb (has_type t') l = true.
Proof.
  induction 1 as [|v l Hv Hl IHl]; intros hs Ea Hall Ht'; [reflexivity|].
  cbn [map] in Ea. apply all_some_cons in Ea. destruct Ea as [h1 [hs' [E1 [E2 E3]]]]. subst hs.
  inversion Hall as [|? ? S1 S2]; subst.
  cbn [forallb]. rewrite (Hv h1 E1 c' t' S1 Ht'). cbn [andb]. eapply IHl; eauto.
Qed.

Theorem impute_h_sound : forall v h, impute_h v = Some h ->
  forall c t, hsub h c = true -> to_ty c = Some t -> has_type t v = true.
Proof.
  induction v as [|b|z|q|s|l IH|l IH|fs IH] using pv_ind'; intros h Hi c t Hs Ht.
  - apply has_type_none.
  - cbn in Hi. inversion Hi; subst h. destruct c; cbn in Hs, Ht; try discriminate; inversion Ht; reflexivity.
  - cbn [impute_h] in Hi.
    destruct ((int32_min <=? z)%Z && (z <=? int32_max)%Z) eqn:E32.
    + inversion Hi; subst h. destruct c; cbn in Hs, Ht; try discriminate; inversion Ht; subst; cbn [has_type];
        [exact E32 | apply int32_in_int64; exact E32 | reflexivity].
    + destruct ((int64_min <=? z)%Z && (z <=? int64_max)%Z) eqn:E64; [|discriminate Hi].
      inversion Hi; subst h. destruct c; cbn in Hs, Ht; try discriminate; inversion Ht; subst; cbn [has_type];
        [exact E64 | reflexivity].
  - cbn in Hi. inversion Hi; subst h. destruct c; cbn in Hs, Ht; try discriminate; inversion Ht; reflexivity.
  - cbn in Hi. inversion Hi; subst h. destruct c; cbn in Hs, Ht; try discriminate; inversion Ht; reflexivity.
  - (* PList *)
    cbn [impute_h] in Hi. destruct l as [|v0 l0].
    + inversion Hi; subst h. destruct c; cbn in Hs, Ht; try discriminate Hs; try discriminate Ht.
      destruct (to_ty c) as [t'|]; [|discriminate Ht]. inversion Ht; subst. reflexivity.
    + destruct (all_some (map impute_h (v0 :: l0))) as [hs|] eqn:Ea; [|discriminate Hi].
      remember (fold_left unify2 hs HHole) as u eqn:Eu.
      assert (Hh : h = HArr u) by (destruct u; try discriminate Hi; inversion Hi; reflexivity). subst h.
      destruct c; cbn [hsub] in Hs; try (destruct u; discriminate Hs); [cbn in Ht; discriminate Ht|].
      cbn [to_ty] in Ht. destruct (to_ty c) as [t'|] eqn:Et; [|discriminate Ht]. inversion Ht; subst t.
      cbn [has_type].
      assert (Hu : hsub u c = true) by (destruct u; exact Hs).
      rewrite Eu in Hu. destruct (fold_lub_inv _ _ _ Hu) as [_ Hall].
      eapply list_has_type; eauto.
  - (* PTuple *)
    cbn [impute_h] in Hi. destruct (all_some (map impute_h l)) as [hs|] eqn:Ea; [|discriminate Hi].
    cbn in Hi. inversion Hi; subst h. clear Hi.
    destruct c; cbn [hsub] in Hs; try discriminate Hs; [cbn in Ht; discriminate Ht|].
    change (hsub (HTuple hs) (HTuple ts) = true) in Hs. rewrite hsub_tuple in Hs.
    cbn [to_ty] in Ht. destruct (all_some (map to_ty ts)) as [tys|] eqn:Et; [|discriminate Ht]. inversion Ht; subst t.
    rewrite has_type_tuple. clear Ht.
    revert hs ts tys Ea Hs Et. induction l as [|v l IHl]; intros hs cs tys Ea Hs Et; cbn [map] in Ea.
    + cbn in Ea. inversion Ea; subst. destruct cs; [|discriminate Hs]. cbn in Et. inversion Et; subst. reflexivity.
    + apply all_some_cons in Ea. destruct Ea as [h1 [hs' [E1 [E2 E3]]]]. subst hs.
      destruct cs as [|c1 cs]; [discriminate Hs|]. cbn [hsub_list] in Hs. apply andb_true_iff in Hs. destruct Hs as [S1 S2].
      cbn [map] in Et. apply all_some_cons in Et. destruct Et as [t1 [tys' [T1 [T2 T3]]]]. subst tys.
      inversion IH as [|? ? Hv Hl]; subst. cbn [has_type_list].
      rewrite (Hv h1 E1 c1 t1 S1 T1). cbn [andb]. eapply IHl; eauto.
  - (* PStruct *)
    cbn [impute_h] in Hi. destruct (nodupN (map fst fs)); [|discriminate Hi].
    destruct (all_some (map (fun nf => impute_h (snd nf)) fs)) as [hs|] eqn:Ea; [|discriminate Hi].
    cbn in Hi. inversion Hi; subst h. clear Hi.
    destruct c; cbn [hsub] in Hs; try discriminate Hs; [cbn in Ht; discriminate Ht|].
    change (hsub (HStruct (combine (map fst fs) hs)) (HStruct fs0) = true) in Hs. rewrite hsub_struct in Hs.
    cbn [to_ty] in Ht. destruct (all_some (map (fun nf => to_ty (snd nf)) fs0)) as [tys|] eqn:Et; [|discriminate Ht].
    cbn in Ht. inversion Ht; subst t. rewrite has_type_struct. clear Ht.
    revert hs fs0 tys Ea Hs Et. induction fs as [|[n v] fs IHf]; intros hs gs tys Ea Hs Et; cbn [map] in Ea.
    + cbn in Ea. inversion Ea; subst. cbn in Hs. destruct gs; [|discriminate Hs]. cbn in Et. inversion Et; subst. reflexivity.
    + apply all_some_cons in Ea. destruct Ea as [h1 [hs' [E1 [E2 E3]]]]. subst hs. cbn [snd] in E1.
      cbn [map fst combine hsub_fields] in Hs. destruct gs as [|[m c1] gs]; [discriminate Hs|].
      apply andb_true_iff in Hs. destruct Hs as [Hs S2]. apply andb_true_iff in Hs. destruct Hs as [N1 S1].
      cbn [map snd] in Et. apply all_some_cons in Et. destruct Et as [t1 [tys' [T1 [T2 T3]]]]. subst tys.
      inversion IH as [|? ? Hv Hl]; subst. cbn [snd] in Hv. cbn [map fst combine has_type_fields].
      apply N.eqb_eq in N1; subst m. rewrite N.eqb_refl, (Hv h1 E1 c1 t1 S1 T1). cbn [andb]. eapply IHf; eauto.
Qed.

Theorem impute_sound : forall v t, impute v = Some t -> has_type t v = true.
Proof.
  intros v t H. unfold impute in H. destruct (impute_h v) as [h|] eqn:E; [|discriminate H].
  eapply impute_h_sound; eauto. apply hsub_refl.
Qed.
