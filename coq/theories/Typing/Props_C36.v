(** C36 — property theorems only.  The model (Typing/Model.v) is tied to the hail Python front end by the correspondence run of
    harness/props/C36.py: the same programs / values go through the real expression API (no backend) and through [elab] /
    [impute]; reported dtype, emitted IR (up to the numbering of generated variable names) and IR type must coincide. *)
From HailV Require Import Common.Prelude Typing.Model Typing.ElabSound Typing.ImputeSound Typing.Main.
From HailV Require Import Typing.TableModel Typing.TableSound.

(** For EVERY program over the modelled expression API (literals; + - * // / and unary - with numeric promotion, bool counted
    as int32; ~; comparisons; if_else; bind; struct / field access / annotate / select / drop; array / len / indexing; map /
    filter / fold lambdas; tuple / tuple indexing; int32/int64/float32/float64/str conversions; string concatenation) in every
    typing environment: when the front end accepts the program and reports type [t], the IR it emits has type [t] under the
    strict reading of the IR's typing rules (operands of arithmetic and comparisons, the branches of If, the elements of
    MakeArray, zero and body of StreamFold must have the SAME type; conversion functions applied to numeric arguments only). *)
Theorem C36_type_agreement : forall (g : tenv) (e : fe) (t : ty),
  fe_type g e = Some t -> exists x, to_ir g e = Some x /\ ir_type g x = Some t.
Proof. exact type_agreement. Qed.
Print Assumptions C36_type_agreement.

(** The same statement on the pair the front end builds. *)
Theorem C36_elab_sound : forall (e : fe) (g : tenv) (t : ty) (x : ir), elab g e = Some (t, x) -> ir_type g x = Some t.
Proof. exact elab_sound. Qed.
Print Assumptions C36_elab_sound.

(** For EVERY Python value built from None, bool, int, float, str, list, tuple and Struct: when [impute_type] returns a type,
    the value satisfies it (what [hl.literal]'s check and the binary encoder need: ints in range, every Struct with exactly
    the fields of the type, tuples of the right length, recursively; missing allowed everywhere). *)
Theorem C36_literal_typed : forall (v : pv) (t : ty), impute v = Some t -> has_type t v = true.
Proof. exact impute_sound. Qed.
Print Assumptions C36_literal_typed.

(** *** Table / MatrixTable level (model: Typing/TableModel.v, proofs: Typing/TableSound.v) *)

(** For EVERY program over range_table / key_by / annotate / select / drop / annotate_globals / filter / order_by / union of two tables (unify False, or True on tables with the same value field names) / annotate with a lookup
    [r.index(k1, .., all_matches)] by non-key expressions (exact key: TableLeftJoinRightDistinct; interval key indexed by a
    point: TableIntervalJoin with the product flag) / rows() / cols() / entries() / range_matrix_table / annotate_rows / _cols /
    _entries / _globals / key_rows_by / key_cols_by / annotate_rows with a lookup into an interval-keyed table
    (MatrixAnnotateRowsTable with the product flag): when the front end accepts the program and reports the table / matrix
    table type [t] (globals, row, key; col, col key, entry — built from the dtypes it DECLARES for the expressions, among
    them the dtype of the lookup expression), the relational IR it emits has type [t] under the engine's rules, every value
    IR re-typed from scratch in the environment its node binds.
    PARTIAL: under the guard [simple_interval_keys] (see [C36_table_type_agreement_refuted] for what fails without it). *)
Theorem C36_table_type_agreement_partial : forall (p : prog) (t : rty),
  reported p = Some t -> simple_interval_keys p = true -> exists x, emitted p = Some x /\ strict_type x = Some t.
Proof. exact table_type_agreement_partial. Qed.
Print Assumptions C36_table_type_agreement_partial.

(** The same on the pair the front end builds. *)
Theorem C36_telab_sound : forall (p : prog) (t : rty) (x : rir),
  telab p = Some (t, x) -> simple_interval_keys p = true -> strict_type x = Some t.
Proof. exact telab_sound. Qed.
Print Assumptions C36_telab_sound.

(** Without the guard the statement is FALSE on the code as it is: two programs the front end accepts whose
    MatrixAnnotateRowsTable the engine's TypeCheck rejects (replayed on the real front end by the oracle:
    corpus/C36/t-matrix-interval-compound-key.json, t-matrix-interval-row-key-type.json). *)
Theorem C36_table_type_agreement_refuted :
  (exists t x, telab ex_refuted_compound_key = Some (t, x) /\ strict_type x = None) /\
  (exists t x, telab ex_refuted_row_key_type = Some (t, x) /\ strict_type x = None).
Proof. exact table_type_agreement_refuted. Qed.
Print Assumptions C36_table_type_agreement_refuted.

Theorem C36_table_type_agreement_full_fails : ~ table_type_agreement_full.
Proof. exact table_type_agreement_full_fails. Qed.
Print Assumptions C36_table_type_agreement_full_fails.
