(** C36 — property theorems only.  The model (Typing/Model.v) is tied to the hail Python front end by the correspondence run of
    harness/props/C36.py: the same programs / values go through the real expression API (no backend) and through [elab] /
    [impute]; reported dtype, emitted IR (up to the numbering of generated variable names) and IR type must coincide. *)
From HailV Require Import Common.Prelude Typing.Model Typing.ElabSound Typing.ImputeSound Typing.Main.

(** For EVERY program over the modelled expression API (literals; + - * // / and unary - with numeric promotion, bool counted
    as int32; ~; comparisons; if_else; bind; struct / field access / annotate / select / drop; array / len / indexing; map /
    filter / fold lambdas; tuple / tuple indexing; int32/int64/float32/float64/str conversions; string concatenation) in every
    typing environment: when the front end accepts the program and reports type [t], the IR it emits has type [t] under the
    strict reading of the IR's typing rules (operands of arithmetic and comparisons, the branches of If, the elements of
    MakeArray, zero and body of StreamFold must have the SAME type; conversion functions applied to numeric arguments only). *)
Theorem C36_type_agreement : forall (g : tenv) (e : fe) (t : ty),
  fe_type g e = Some t -> exists x, to_ir g e = Some x /\ ir_type g x = Some t.
Proof. exact type_agreement. Qed.
Print Assumptions C36_type_agreement.

(** The same statement on the pair the front end builds. *)
Theorem C36_elab_sound : forall (e : fe) (g : tenv) (t : ty) (x : ir), elab g e = Some (t, x) -> ir_type g x = Some t.
Proof. exact elab_sound. Qed.
Print Assumptions C36_elab_sound.

(** For EVERY Python value built from None, bool, int, float, str, list, tuple and Struct: when [impute_type] returns a type,
    the value satisfies it (what [hl.literal]'s check and the binary encoder need: ints in range, every Struct with exactly
    the fields of the type, tuples of the right length, recursively; missing allowed everywhere). *)
Theorem C36_literal_typed : forall (v : pv) (t : ty), impute v = Some t -> has_type t v = true.
Proof. exact impute_sound. Qed.
Print Assumptions C36_literal_typed.
